/-
C06 — the relocation window of primary GC, part 1: the copy step, and what the calls of other threads
in the window keep.

Between `relocCopy` (the collector has pooled a copy of the record at `old`) and `relocFinish` (it
re-points the index if it still names `old`, and frees `old`, or the copy too) arbitrary calls run.  The
copy is a record NO index entry names and NO freelist entry records — outside C04's `GInv` bookkeeping
and outside C13H's coverage — so it is tracked here explicitly (`CopyAt`): it stays below the allocator,
it is never an index entry's block, never recorded, and it is either still pooled or a record span of
the primary log with the copied bytes; and the closed file holding `old` is not touched (`OldAt`).
Core Lean only.
-/
import Sth.Model.GCSplit
import Sth.Lemmas.C13X9

namespace Sth.C06W

open Sth.C11 Sth.C13H Sth.C13X

/-! ### the copy step -/

section
variable {c : Cfg} {U : List (Bytes × Bytes)} {cfg : Cfg} {m : Mem} {d : Disk} {spec : Spec}
  {n B pf : Nat} {psp : Nat → List GSpan}

/-- the copy step at a record span: what is read, pooled, and remembered -/
theorem relocCopy_span (zl : PriLog m d pf psp) {fnum at_ : Nat} {body : Bytes} (h1 : pf ≤ fnum)
    (h2 : fnum ≤ m.pfileNum) (hx : (at_, body) ∈ liveAt 0 (psp fnum)) {m1 : Mem} {l : RelocLocal}
    (hcopy : relocCopy m fnum (gbytes (psp fnum)) at_ body.length = some (m1, l)) :
    ∃ key val, readNode .mh body = some (key, val) ∧ body = key ++ val ∧
      indexKeyOf .mh key = some l.ik ∧ m1 = putMem m key val ∧
      l.old = ⟨m.pmax * fnum + at_, body.length⟩ ∧ l.loc = nextBlk m (key.length + val.length) := by
  have hblen : body.length < two31 := zl.ok fnum h1 h2 ⟨false, body⟩ (by
    obtain ⟨a, b, e, _⟩ := liveAt_split (psp fnum) 0 at_ body hx
    rw [e]; simp)
  obtain ⟨r1, r2⟩ := span_reads hx hblen
  unfold relocCopy at hcopy
  simp only [r1, r2] at hcopy
  cases hrn : readNode .mh body with
  | none => simp [hrn] at hcopy
  | some kv =>
    obtain ⟨key, val⟩ := kv
    simp only [hrn] at hcopy
    cases hik : indexKeyOf .mh key with
    | none => simp [hik] at hcopy
    | some ik =>
      simp only [hik, priPut_eq, Option.some.injEq, Prod.mk.injEq] at hcopy
      obtain ⟨rfl, rfl⟩ := hcopy
      exact ⟨key, val, rfl, readNode_mh_split hrn, hik, rfl, by rw [putMem_pmax], rfl⟩

/-- after the copy step the GC invariant holds for the SAME map: a pooled record nobody names -/
theorem ginv_copy (hU : Univ c.kind U) (hG : GInv c U ⟨cfg, m, d⟩ spec n B)
    (hn : n + 1 < 1073741824) {key val : Bytes}
    (hrn : readNode .mh (key ++ val) = some (key, val)) (hsz : key.length + val.length < two31) :
    GInv c U ⟨cfg, putMem m key val, d⟩ spec (n + 1) B := by
  have hU' := hG.univ hU
  have hA : SInv U m d spec := hG.a
  obtain ⟨pf, psp, zh, zl, ze, zf⟩ := hG.z
  have hpre : PutPre m key val := GInv.putPre (s := ⟨cfg, m, d⟩) hG hn hsz
  have hloc : ¬ Below m (nextBlk m (key.length + val.length)) := not_below_next hpre.pmax _
  have hPold : ∀ blk k v, Below m blk → priGet m d blk = .got k v →
      priGet (putMem m key val) d blk = .got k v :=
    fun blk k v hbl hgt => priGet_putMem_old d key val hpre.pmax hbl hgt
  have hnew := priGet_putMem_new d key val hpre.pmax hpre.pool
  have hf : Frame (putMem m key val) (putMem m key val) :=
    ⟨rfl, rfl, rfl, rfl, rfl, rfl, rfl, rfl, rfl, rfl, rfl, rfl, rfl, rfl, rfl⟩
  have hidx : ∀ b, idxRecords (putMem m key val) d b = idxRecords m d b :=
    fun b => idxRecords_putMem m d key val b
  have hentE : ∀ blk, IsEnt (putMem m key val) d blk ↔ IsEnt m d blk := by
    intro blk; unfold IsEnt; simp only [hidx]
  have hAnew : AInv m.kind m.bits U (priGet (putMem m key val) d) (idxRecords (putMem m key val) d)
      (Below (putMem m key val)) spec := by
    apply hA.mono
    · intro blk k v hbl hgt; exact hPold blk k v hbl hgt
    · intro blk hbl; exact below_putMem key val hbl
    · exact hidx
  obtain ⟨z1, z2, z3⟩ := zinv_put hA zl ze zf hpre.pmax hf hnew
    (fun blk hb => Or.inr ((hentE blk).mp hb)) (freed := [])
    (by rw [putMem_flpool]; simp) (by simp)
  have e1 : (putMem m key val).pfileNum = m.pfileNum := putMem_pfileNum _ _ _
  have e2 : (putMem m key val).pmax = m.pmax := putMem_pmax _ _ _
  have hy : YInv c ⟨cfg, putMem m key val, d⟩ := by
    obtain ⟨first, sp, e1', e2'⟩ := hG.y.ilog
    refine ⟨hG.y.cfg, by show (putMem m key val).bits = _; rw [putMem_bits]; exact hG.y.bits,
      by show (putMem m key val).imax = _; rw [putMem_imax]; exact hG.y.imax,
      by show (putMem m key val).pmax = _; rw [e2]; exact hG.y.pmax,
      ⟨first, sp, e1', e2'.frame rfl (putMem_ifileNum _ _ _) (putMem_bits _ _ _) (putMem_imax _ _ _)
        (putMem_buckets _ _ _)⟩, ?_, ?_⟩
    · intro hkc
      obtain ⟨pf', p1, p2, p3⟩ := hG.y.phdr hkc
      refine ⟨pf', p1, by show pf' ≤ (putMem m key val).pfileNum; rw [e1]; exact p2, ?_⟩
      intro f g1 g2
      have g2' : f ≤ (putMem m key val).pfileNum := g2
      rw [e1] at g2'
      exact p3 f g1 g2'
    · intro b rl hb
      have hb' : (putMem m key val).inext.get? b = some rl := hb
      rw [putMem_inext] at hb'
      show b < 2 ^ (putMem m key val).bits
      rw [putMem_bits]
      exact hG.y.inextLt b rl hb'
  exact ginv_put_core (s := ⟨cfg, m, d⟩) hU hG hrn hsz hf
    (by rw [putMem_inext]; exact Nat.le_succ _) hy hAnew hG.nodup hG.w
    ⟨pf, psp, by rw [e2]; exact zh, z1, z2, z3⟩

end


/-! ### Put and Remove change the memory state by poolings, index-pool updates and freelist puts only -/

theorem idxRemove_shape {m m' : Mem} {d : Disk} {ik : Bytes} {r : Bool}
    (h : idxRemove m d ik = .ok (m', r)) : m' = m ∨ ∃ x, m' = { m with inext := x } := by
  unfold idxRemove at h
  repeat' split at h
  all_goals (cases h <;> first | exact Or.inl rfl | exact Or.inr ⟨_, rfl⟩)

theorem idxPut_shape {m m' : Mem} {d : Disk} {ik : Bytes} {loc : Block}
    (h : idxPut m d ik loc = .ok m') : m' = m ∨ ∃ x, m' = { m with inext := x } := by
  unfold idxPut at h
  repeat' split at h
  all_goals (cases h <;> first | exact Or.inl rfl | exact Or.inr ⟨_, rfl⟩)

theorem idxUpdate_shape {m m' : Mem} {d : Disk} {ik : Bytes} {loc : Block}
    (h : idxUpdate m d ik loc = .ok m') : m' = m ∨ ∃ x, m' = { m with inext := x } := by
  unfold idxUpdate at h
  repeat' split at h
  all_goals (cases h <;> first | exact Or.inl rfl | exact Or.inr ⟨_, rfl⟩)

theorem gpkd_shape {m m' : Mem} {d : Disk} {blk : Block} {ik : Bytes} {o : Option Bytes}
    (h : getPrimaryKeyData m d blk ik = .ok (m', o)) : m' = m ∨ ∃ x, m' = { m with inext := x } := by
  unfold getPrimaryKeyData at h
  simp only at h
  repeat' split at h
  all_goals (cases h <;> first | exact Or.inl rfl | exact idxRemove_shape (by assumption))

/-- a property of pairs of memory states that the elementary changes of Put / Remove have -/
structure MemStep (R : Mem → Mem → Prop) : Prop where
  refl : ∀ m, R m m
  trans : ∀ {a b c}, R a b → R b c → R a c
  put : ∀ m k v, R m (putMem m k v)
  inext : ∀ m x, R m { m with inext := x }
  flpool : ∀ m x, R m { m with flpool := x }

theorem MemStep.of_shape {R : Mem → Mem → Prop} (hR : MemStep R) {m m' : Mem}
    (h : m' = m ∨ ∃ x, m' = { m with inext := x }) : R m m' := by
  rcases h with rfl | ⟨x, rfl⟩
  · exact hR.refl _
  · exact hR.inext _ _

theorem storePut_memStep {R : Mem → Mem → Prop} (hR : MemStep R) (m : Mem) (d : Disk) (k v : Bytes) :
    R m (storePut m d k v).1 := by
  unfold storePut
  cases hik : indexKeyOf m.kind k with
  | none => exact hR.refl _
  | some ik =>
    simp only
    cases hg : idxGet m d ik with
    | error e => exact hR.refl _
    | ok prev =>
      simp only
      have hnew : ∀ m1, R m m1 →
          R m (match idxPut (putMem m1 k v) d ik (nextBlk m1 (k.length + v.length)) with
            | .error e => (putMem m1 k v, PutRes3.err e)
            | .ok m3 => (m3, PutRes3.ok)).1 := by
        intro m1 t1
        cases hp : idxPut (putMem m1 k v) d ik (nextBlk m1 (k.length + v.length)) with
        | error e => exact hR.trans t1 (hR.put _ _ _)
        | ok m3 => exact hR.trans (hR.trans t1 (hR.put _ _ _)) (hR.of_shape (idxPut_shape hp))
      cases prev with
      | none =>
        simp only [priPut_eq]
        exact hnew m (hR.refl m)
      | some blk =>
        simp only
        cases hgp : getPrimaryKeyData m d blk ik with
        | error e => exact hR.refl _
        | ok r =>
          obtain ⟨m1, sv⟩ := r
          have t1 := hR.of_shape (gpkd_shape hgp)
          simp only [priPut_eq]
          cases sv with
          | none => exact hnew m1 t1
          | some sv0 =>
            simp only
            split
            · exact t1
            · split
              · exact t1
              · cases hu : idxUpdate (putMem m1 k v) d ik (nextBlk m1 (k.length + v.length)) with
                | error e => exact hR.trans t1 (hR.put _ _ _)
                | ok m3 =>
                  exact hR.trans (hR.trans (hR.trans t1 (hR.put _ _ _))
                    (hR.of_shape (idxUpdate_shape hu))) (hR.flpool _ _)

theorem storeRemove_memStep {R : Mem → Mem → Prop} (hR : MemStep R) (m : Mem) (d : Disk) (k : Bytes) :
    R m (storeRemove m d k).1 := by
  unfold storeRemove
  cases hik : indexKeyOf m.kind k with
  | none => exact hR.refl _
  | some ik =>
    simp only
    cases hg : idxGet m d ik with
    | error e => exact hR.refl _
    | ok prev =>
      cases prev with
      | none => exact hR.refl _
      | some blk =>
        simp only
        cases hgp : getPrimaryKeyData m d blk ik with
        | error e => exact hR.refl _
        | ok r =>
          obtain ⟨m1, sv⟩ := r
          have t1 := hR.of_shape (gpkd_shape hgp)
          cases sv with
          | none => exact t1
          | some sv0 =>
            simp only
            cases hr : idxRemove m1 d ik with
            | error e => exact t1
            | ok r2 =>
              obtain ⟨m2, removed⟩ := r2
              have t2 := hR.of_shape (idxRemove_shape hr)
              simp only
              split
              · exact hR.trans (hR.trans t1 t2) (hR.flpool _ _)
              · exact hR.trans t1 t2

/-- what a Put or Remove leaves alone on the primary's side: the write position, the read pool, and
    every pooled record -/
structure PriSame (m m' : Mem) : Prop where
  kind : m'.kind = m.kind
  pmax : m'.pmax = m.pmax
  pfileNum : m'.pfileNum = m.pfileNum
  plength : m'.plength = m.plength
  pcur : m'.pcur = m.pcur
  pnext : ∀ r ∈ m.pnext, r ∈ m'.pnext

theorem priSame_memStep : MemStep PriSame where
  refl := fun _ => ⟨rfl, rfl, rfl, rfl, rfl, fun _ h => h⟩
  trans := fun h1 h2 => ⟨h2.kind.trans h1.kind, h2.pmax.trans h1.pmax, h2.pfileNum.trans h1.pfileNum,
    h2.plength.trans h1.plength, h2.pcur.trans h1.pcur, fun r hr => h2.pnext r (h1.pnext r hr)⟩
  put := fun m k v => ⟨putMem_kind _ _ _, putMem_pmax _ _ _, putMem_pfileNum _ _ _,
    putMem_plength _ _ _, putMem_pcur _ _ _, fun r hr => by rw [putMem_pnext]; simp [hr]⟩
  inext := fun _ _ => ⟨rfl, rfl, rfl, rfl, rfl, fun _ h => h⟩
  flpool := fun _ _ => ⟨rfl, rfl, rfl, rfl, rfl, fun _ h => h⟩


/-! ### where the copy is, and the file the old record lies in -/

/-- the copy `loc ↦ key, val`: still pooled, or a record span of the primary log with exactly these
    bytes; and whatever the read pool holds under that block is the copy -/
structure CopyAt (m : Mem) (d : Disk) (loc : Block) (key val : Bytes) : Prop where
  place : ∃ pf psp, d.phdr = some ⟨m.pmax, pf⟩ ∧ PriLog m d pf psp ∧
    ((∃ r ∈ m.pnext, r.blk = loc ∧ r.key = key ∧ r.val = val) ∨
      (OnDisk m pf psp loc (key ++ val) ∧
        ∀ r ∈ m.pcur, r.blk = loc → r.key = key ∧ r.val = val))

/-- the closed file `fnum` (the one the old record lies in) still has the bytes `gbytes ss0` -/
structure OldAt (m : Mem) (d : Disk) (fnum : Nat) (ss0 : List GSpan) : Prop where
  file : d.pfiles.get? fnum = some (gbytes ss0)
  closed : fnum < m.pfileNum
  first : ∃ pf, d.phdr = some ⟨m.pmax, pf⟩ ∧ pf ≤ fnum
  ok : SpansLt ss0

/-- a memory-only step that keeps the primary's side -/
theorem CopyAt.mem {m m' : Mem} {d : Disk} {loc : Block} {key val : Bytes}
    (h : CopyAt m d loc key val) (hs : PriSame m m') : CopyAt m' d loc key val := by
  obtain ⟨pf, psp, zh, zl, hp⟩ := h.place
  refine ⟨⟨pf, psp, by rw [hs.pmax]; exact zh, zl.frame hs.pfileNum hs.pmax, ?_⟩⟩
  rcases hp with ⟨r, hr, x⟩ | ⟨ho, hc⟩
  · exact Or.inl ⟨r, hs.pnext r hr, x⟩
  · exact Or.inr ⟨ho.frame hs.pfileNum hs.pmax, by rw [hs.pcur]; exact hc⟩

theorem OldAt.mem {m m' : Mem} {d : Disk} {fnum : Nat} {ss0 : List GSpan}
    (h : OldAt m d fnum ss0) (hs : PriSame m m') : OldAt m' d fnum ss0 := by
  obtain ⟨pf, e1, e2⟩ := h.first
  exact ⟨h.file, by rw [hs.pfileNum]; exact h.closed, ⟨pf, by rw [hs.pmax]; exact e1, e2⟩, h.ok⟩

/-- the old record span is a record span of EVERY log of the state -/
theorem OldAt.live {m : Mem} {d : Disk} {fnum : Nat} {ss0 : List GSpan} (h : OldAt m d fnum ss0)
    {pf : Nat} {psp : Nat → List GSpan} (zh : d.phdr = some ⟨m.pmax, pf⟩) (zl : PriLog m d pf psp) :
    pf ≤ fnum ∧ psp fnum = ss0 := by
  obtain ⟨pf', e1, e2⟩ := h.first
  rw [zh] at e1
  simp only [Option.some.injEq, PriHeader.mk.injEq, true_and] at e1
  subst e1
  refine ⟨e2, ?_⟩
  have := zl.files fnum e2 (Nat.le_of_lt h.closed)
  rw [h.file] at this
  exact (gbytes_inj h.ok (zl.ok fnum e2 (Nat.le_of_lt h.closed)) (Option.some.inj this)).symm

section
variable {c : Cfg} {U : List (Bytes × Bytes)} {s : SState} {spec : Spec} {n B : Nat}

/-- the primary flush keeps the copy (pooled → record span, record span → record span) and the closed
    file -/
theorem priFlush_track (hG : GInv c U s spec n B) {loc : Block} {key val : Bytes} {fnum : Nat}
    {ss0 : List GSpan} (hC : CopyAt s.m s.d loc key val) (hO : OldAt s.m s.d fnum ss0)
    {m1 : Mem} {d1 : Disk} (p1 : priFlush s.m s.d = some (m1, d1)) :
    CopyAt m1 d1 loc key val ∧ OldAt m1 d1 fnum ss0 := by
  by_cases hne : s.m.pnext.isEmpty = true
  · rw [priFlush_empty hne] at p1
    simp only [Option.some.injEq, Prod.mk.injEq] at p1
    obtain ⟨rfl, rfl⟩ := p1
    exact ⟨hC, hO⟩
  · have hne' : s.m.pnext.isEmpty = false := by simpa using hne
    have hk := hG.kind
    have hp := hG.pmax1
    obtain ⟨pf, psp, zh, zl, hpl⟩ := hC.place
    have hF0 : PFold pf psp { s.m with pcur := s.m.pnext, pnext := [] } s.d :=
      ⟨zl.frame rfl rfl, hG.plen, hG.pno⟩
    obtain ⟨d1', psp', g1, g2, g3, _, g5, g6, g7, _, _, u3, _, _, _, _⟩ :=
      pfold_span s.m.pnext { s.m with pcur := s.m.pnext, pnext := [] } s.d psp s.m.precFileNum
        s.m.precPos hF0 hp hG.alloc (fun r hr => (hG.recs r hr).2)
    rw [priFlush_mh_eq hk hne', g1] at p1
    simp only [Option.some.injEq, Prod.mk.injEq] at p1
    obtain ⟨rfl, rfl⟩ := p1
    have hle := hG.pfile_le
    refine ⟨⟨⟨pf, psp', by rw [u3]; exact zh, g2.log, Or.inr ⟨?_, ?_⟩⟩⟩, ?_⟩
    · rcases hpl with ⟨r, hr, x1, x2, x3⟩ | ⟨⟨f, lp, y1, y2, y3, y4, y5⟩, _⟩
      · obtain ⟨f, lp, e1, e2, e3, e4⟩ := g6 r hr
        refine ⟨f, lp, by rw [← x1]; exact e1, e2, e3, by rw [← x2, ← x3]; exact e4, ?_⟩
        -- the size of a pooled record's block is the length of its bytes
        have hb : r.blk.size = r.key.length + r.val.length := by
          have : ∀ (rs : List PRec) (fn len efn elen : Nat),
              allocMh s.m.pmax fn len rs efn elen → r ∈ rs →
              r.blk.size = r.key.length + r.val.length := by
            intro rs
            induction rs with
            | nil => intro _ _ _ _ _ h; cases h
            | cons x xs ih =>
              intro fn len efn elen ha hm
              simp only [List.mem_cons] at hm
              rcases hm with rfl | hm
              · rw [ha.1]
              · exact ih _ _ _ _ ha.2 hm
          exact this _ _ _ _ _ hG.alloc hr
        rw [← x1, hb, ← x2, ← x3]; simp
      · exact ⟨f, lp, y1, y2, by show f ≤ s.m.precFileNum; omega, g3 f _ y2 y3 y4, y5⟩
    · -- the read pool is the old write pool
      intro r hr hb
      have hr' : r ∈ s.m.pnext := hr
      rcases hpl with ⟨r0, hr0, x1, x2, x3⟩ | ⟨ho, _⟩
      · have hoff := (allocMh_offsets hp hG.alloc).2
        have : r = r0 := by
          have hoff' : r.blk.off = r0.blk.off := by rw [hb, x1]
          clear x2 x3 hb x1
          generalize s.m.pnext = l at hr' hr0 hoff
          induction l with
          | nil => cases hr'
          | cons x l ih =>
            simp only [List.map_cons, List.pairwise_cons] at hoff
            simp only [List.mem_cons] at hr' hr0
            rcases hr' with rfl | h1 <;> rcases hr0 with rfl | h2
            · rfl
            · have := hoff.1 _ (List.mem_map_of_mem h2); omega
            · have := hoff.1 _ (List.mem_map_of_mem h1); omega
            · exact ih h1 h2 hoff.2
        rw [this]; exact ⟨x2, x3⟩
      · exfalso
        obtain ⟨f, lp, y1, y2, y3, y4, _⟩ := ho
        have := pnext_off_gt hk hp zl hG.alloc hG.plen hr' y2 y3 y4
        rw [hb, y1] at this
        omega
    · obtain ⟨pf', e1, e2⟩ := hO.first
      rw [zh] at e1
      simp only [Option.some.injEq, PriHeader.mk.injEq, true_and] at e1
      subst e1
      refine ⟨?_, Nat.lt_of_lt_of_le hO.closed g7, ⟨pf, by rw [u3]; exact zh, e2⟩, hO.ok⟩
      have h1 : d1'.pfiles.get? fnum = some (gbytes (psp' fnum)) :=
        g2.log.files fnum e2 (by show fnum ≤ s.m.precFileNum; have := hO.closed; omega)
      rw [h1, g5 fnum hO.closed, ← zl.files fnum e2 (Nat.le_of_lt hO.closed)]
      exact hO.file

end


/-! ### Store.Flush in the window -/

section
variable {c : Cfg} {U : List (Bytes × Bytes)} {s : SState} {spec : Spec} {n B : Nat}

/-- Store.Flush, everything the window needs: the GC invariant, the relation to the state before
    (allocator, index entries, what is recorded), the copy and the closed file -/
theorem flush_win (hU : Univ c.kind U) (hG : GInv c U s spec n B) (hnd : (recordedG s).Nodup)
    (hn : n < 1073741824) (hB : B < two31) (order : List Nat) {loc : Block} {key val : Bytes}
    {fnum : Nat} {ss0 : List GSpan} (hC : CopyAt s.m s.d loc key val) (hO : OldAt s.m s.d fnum ss0) :
    ∃ m' d', storeFlush s.m s.d (fixOrder order s.m.inext.keys) = some (m', d') ∧
      Rel s.cfg s.m s.d m' d' ∧ CopyAt m' d' loc key val ∧ OldAt m' d' fnum ss0 := by
  by_cases hout : outstanding s.m = true
  · obtain ⟨m1, d1, p1, hG1, hp1, hi1, q3, _, _, _, q7, q8, _, _, q11, _⟩ := priFlush_g hU hG hn
    obtain ⟨hC1, hO1⟩ := priFlush_track hG hC hO p1
    obtain ⟨f1, f2⟩ := fixOrder_ok order s.m.inext
    obtain ⟨m2, d2, i1, hG2, hin, a1, a2, a3, _, b1, b2, _, b4, b5, b6, _⟩ :=
      idxFlush_g (s := ⟨s.cfg, m1, d1⟩) hU hG1 hn hB
        (order := fixOrder order s.m.inext.keys) (by rw [hi1]; exact f1) (by rw [hi1]; exact f2)
    have hU' := hG1.univ hU
    obtain ⟨ic, fn, len, bk, files, j1, _, _, _⟩ := idxFlush_ok (m := m1) (d := d1)
      (order := fixOrder order s.m.inext.keys) hG1.i
      (fun b => by obtain ⟨orl, h1, _⟩ := hG1.a.recs b; exact ⟨orl, h1⟩)
      (inext_flushOK (m := m1) (d := d1) hU' hG1.bits31 hG1.a hG1.w hB)
      (by rw [hi1]; exact f1) (by
        have : m1.ifileNum + m1.inext.length ≤ n := hG1.cntI
        have e : (fixOrder order s.m.inext.keys).length = m1.inext.length := by rw [hi1]; exact f2
        unfold two32; omega)
    have hmd : (m2, d2) = (ifl m1 ic fn len bk, difl d1 files) := by rw [← i1, ← j1]
    have hm2 : m2 = ifl m1 ic fn len bk := (Prod.mk.inj hmd).1
    have hd2 : d2 = difl d1 files := (Prod.mk.inj hmd).2
    have hbel2 : ∀ blk, Below m2 blk ↔ Below m1 blk := by
      intro blk; rw [hm2]; exact Iff.rfl
    have hps2 : PriSame m1 m2 := by
      rw [hm2]; exact ⟨rfl, rfl, rfl, rfl, rfl, fun _ h => h⟩
    have hC2 : CopyAt m2 d2 loc key val := by
      have := hC1.mem hps2
      rw [hd2]
      obtain ⟨pf, psp, zh, zl, hp⟩ := this.place
      exact ⟨⟨pf, psp, zh, ⟨zl.le, zl.gone, zl.files, zl.ok, zl.starts⟩, hp⟩⟩
    have hO2 : OldAt m2 d2 fnum ss0 := by
      have := hO1.mem hps2
      rw [hd2]
      exact ⟨this.file, this.closed, this.first, this.ok⟩
    obtain ⟨pf2, psp2, hS2⟩ := hG2.state
    have hshape : flFlush m2 d2 = (m2, d2) ∨ flFlush m2 d2 = ({ m2 with flpool := [] },
        { d2 with free := some (d2.free.getD [] ++ m2.flpool.flatMap blockBytes) }) := by
      unfold flFlush
      split
      · exact Or.inl rfl
      · exact Or.inr rfl
    have hC3 : CopyAt (flFlush m2 d2).1 (flFlush m2 d2).2 loc key val := by
      rcases hshape with e | e
      · rw [e]; exact hC2
      · rw [e]
        obtain ⟨pf, psp, zh, zl, hp⟩ := hC2.place
        exact ⟨⟨pf, psp, zh, ⟨zl.le, zl.gone, zl.files, zl.ok, zl.starts⟩, hp⟩⟩
    have hO3 : OldAt (flFlush m2 d2).1 (flFlush m2 d2).2 fnum ss0 := by
      rcases hshape with e | e
      · rw [e]; exact hO2
      · rw [e]; exact ⟨hO2.file, hO2.closed, hO2.first, hO2.ok⟩
    have hbel3 : ∀ blk, Below (flFlush m2 d2).1 blk ↔ Below m2 blk := by
      intro blk
      unfold flFlush
      split <;> exact Iff.rfl
    have hidx3 : ∀ b, idxRecords (flFlush m2 d2).1 (flFlush m2 d2).2 b = idxRecords m2 d2 b := by
      intro b
      unfold flFlush
      split <;> rfl
    refine ⟨(flFlush m2 d2).1, (flFlush m2 d2).2, ?_, ?_, hC3, hO3⟩
    · unfold storeFlush commit
      rw [if_pos hout]
      simp only [p1, i1]
    · apply rel_frame hnd
      · intro blk hb
        exact (hbel3 blk).mpr ((hbel2 blk).mpr ((priFlush_below hG.kind p1 blk).mpr hb))
      · intro b
        rw [hidx3, b6]
        exact q11 b
      · refine (flFlush_perm hS2).trans ?_
        have e1 : recordedG ⟨s.cfg, m2, d2⟩ = recordedG ⟨s.cfg, m1, d1⟩ := recordedG_congr b1 b2 a2
        have e2 : recordedG ⟨s.cfg, m1, d1⟩ = recordedG ⟨s.cfg, s.m, s.d⟩ := recordedG_congr q7 q8 q3
        rw [e1, e2]
  · refine ⟨s.m, s.d, ?_, Rel.refl hnd, hC, hO⟩
    unfold storeFlush; rw [if_neg hout]

/-- the calls of other threads in the window -/
def isWin : SOp → Bool
  | .put .. => true
  | .get _ => true
  | .has _ => true
  | .size _ => true
  | .rm _ => true
  | .flush _ => true
  | .iter _ => true
  | _ => false

/-- one call in the window -/
theorem win_step (hU : Univ c.kind U) (hG : GInv c U s spec n B)
    (hnd : (recordedG s).Nodup) (hn : n < 268435456) (op : SOp) (hop : isWin op = true)
    (hkey : ∀ k, op.keyOf = some k → ∀ dig, keyClass c.kind k = .ok dig → (k, dig) ∈ U)
    (hB : B + op.bytes < two31) {loc : Block} {key val : Bytes} {fnum : Nat} {ss0 : List GSpan}
    (hC : CopyAt s.m s.d loc key val) (hO : OldAt s.m s.d fnum ss0) :
    Rel s.cfg s.m s.d (stepS s op).1.m (stepS s op).1.d ∧ (stepS s op).1.cfg = s.cfg ∧
      CopyAt (stepS s op).1.m (stepS s op).1.d loc key val ∧
      OldAt (stepS s op).1.m (stepS s op).1.d fnum ss0 := by
  cases op with
  | put k v =>
    obtain ⟨r1, r2⟩ := put_rel hU hG hnd k v (hkey k rfl) (by omega) hB
    have hps : PriSame s.m (stepS s (.put k v)).1.m := by
      rw [stepS_put_fst]; exact storePut_memStep priSame_memStep _ _ _ _
    have hd : (stepS s (.put k v)).1.d = s.d := by rw [stepS_put_fst]
    exact ⟨r1, r2, by rw [hd]; exact hC.mem hps, by rw [hd]; exact hO.mem hps⟩
  | rm k =>
    obtain ⟨r1, r2⟩ := rm_rel hU hG hnd k (hkey k rfl)
    have hps : PriSame s.m (stepS s (.rm k)).1.m := by
      rw [stepS_rm_fst]; exact storeRemove_memStep priSame_memStep _ _ _
    have hd : (stepS s (.rm k)).1.d = s.d := by rw [stepS_rm_fst]
    exact ⟨r1, r2, by rw [hd]; exact hC.mem hps, by rw [hd]; exact hO.mem hps⟩
  | get k =>
    obtain ⟨h1, _⟩ := step_read_g hU hG (.get k) (Or.inl ⟨k, rfl⟩) hkey
    rw [h1]; exact ⟨Rel.refl hnd, rfl, hC, hO⟩
  | has k =>
    obtain ⟨h1, _⟩ := step_read_g hU hG (.has k) (Or.inr (Or.inl ⟨k, rfl⟩)) hkey
    rw [h1]; exact ⟨Rel.refl hnd, rfl, hC, hO⟩
  | size k =>
    obtain ⟨h1, _⟩ := step_read_g hU hG (.size k) (Or.inr (Or.inr ⟨k, rfl⟩)) hkey
    rw [h1]; exact ⟨Rel.refl hnd, rfl, hC, hO⟩
  | flush order =>
    obtain ⟨m', d', f1, f2, f3, f4⟩ := flush_win hU hG hnd (by omega) (by omega) order hC hO
    have e : (stepS s (.flush order)).1 = { s with m := m', d := d' } := by simp only [stepS, f1]
    rw [e]
    exact ⟨f2, rfl, f3, f4⟩
  | iter order =>
    obtain ⟨m', d', f1, f2, f3, f4⟩ := flush_win hU hG hnd (by omega) (by omega) order hC hO
    have e : (stepS s (.iter order)).1 = { s with m := m', d := d' } := by
      simp only [stepS, f1]
      cases storeIter m' d' <;> rfl
    rw [e]
    exact ⟨f2, rfl, f3, f4⟩
  | igc a b => cases hop
  | pgc a b => cases hop
  | reopen a b => cases hop

end

/-- the whole window: the calls return what the map returns, the GC invariant holds for the map after
    them, and the copy and the closed file are where they were -/
theorem win_run {c : Cfg} {U : List (Bytes × Bytes)} (hc : c.Legal) (hU : Univ c.kind U)
    {loc : Block} {key val : Bytes} {fnum : Nat} {ss0 : List GSpan} :
    ∀ (win : List SOp) (s : SState) (spec : Spec) (n B : Nat),
    GInv c U s spec n B → (recordedG s).Nodup → (∀ op ∈ win, isWin op = true) →
    (∀ op ∈ win, ∀ k, op.keyOf = some k → ∀ dig, keyClass c.kind k = .ok dig → (k, dig) ∈ U) →
    GcCountersOK s win → B + (win.map SOp.bytes).sum < two31 →
    CopyAt s.m s.d loc key val → OldAt s.m s.d fnum ss0 →
    (runS s win).2 = (specRun c.kind c.imm spec win).2 ∧
      (∃ n', GInv c U (runS s win).1 (specRun c.kind c.imm spec win).1 n'
        (B + (win.map SOp.bytes).sum)) ∧
      Rel s.cfg s.m s.d (runS s win).1.m (runS s win).1.d ∧ (runS s win).1.cfg = s.cfg ∧
      CopyAt (runS s win).1.m (runS s win).1.d loc key val ∧
      OldAt (runS s win).1.m (runS s win).1.d fnum ss0
  | [], s, _, n, _, hG, hnd, _, _, _, _, hC, hO => ⟨rfl, ⟨n, hG⟩, Rel.refl hnd, rfl, hC, hO⟩
  | op :: win, s, spec, n, B, hG, hnd, hw, hk, hb, hB, hC, hO => by
    simp only [List.map_cons, List.sum_cons] at hB ⊢
    obtain ⟨hb1, hb2⟩ := hb
    obtain ⟨h1, n1, h2, _⟩ := step_g hc hU hG.tight hb1 op (hk op (by simp)) (by omega)
    obtain ⟨r1, r2, r3, r4⟩ := win_step hU hG.tight hnd hb1 op (hw op (by simp))
      (hk op (by simp)) (by omega) hC hO
    have hnd1 : (recordedG (stepS s op).1).Nodup := by
      have := r1.nodup
      have e : recordedG (stepS s op).1 = recordedG ⟨s.cfg, (stepS s op).1.m, (stepS s op).1.d⟩ := by
        unfold recordedG; rfl
      rw [e]; exact this
    obtain ⟨i1, ⟨n2, i2⟩, i3, i4, i5, i6⟩ := win_run hc hU win (stepS s op).1
      (specStep c.kind c.imm spec op).1 n1 (B + op.bytes) h2 hnd1 (fun o ho => hw o (by simp [ho]))
      (fun o ho => hk o (by simp [ho])) hb2 (by omega) r3 r4
    have e2 : B + (op.bytes + (win.map SOp.bytes).sum) = B + op.bytes + (win.map SOp.bytes).sum := by
      omega
    refine ⟨by rw [runS_cons, specRun_cons, h1, i1], ⟨n2, ?_⟩, ?_, ?_, ?_, ?_⟩
    · rw [runS_cons_fst, specRun_cons_fst, e2]; exact i2
    · rw [runS_cons_fst]
      rw [r2] at i3
      exact r1.trans i3
    · rw [runS_cons_fst, i4, r2]
    · rw [runS_cons_fst]; exact i5
    · rw [runS_cons_fst]; exact i6

end Sth.C06W
