/-
C04 — the multihash primary's files as span logs, index entries backed by the pool or by a live span,
freelist entries pointing at harmless places.
Core Lean only.
-/
import Sth.Lemmas.C04PReap
import Sth.Lemmas.C04Mut
import Sth.Lemmas.C04M1

namespace Sth

/-! ### reading a record span -/

theorem diskRead_span {pmax f lp : Nat} {d : Disk} {ss : List GSpan} {body : Bytes}
    (hp : 1 ≤ pmax) (hl : lp < pmax) (hf : f < two32)
    (hfile : d.pfiles.get? f = some (gbytes ss)) (hx : (lp, body) ∈ liveAt 0 ss)
    (hlen : body.length < two31) :
    diskRead .mh pmax d ⟨pmax * f + lp, body.length⟩ =
      match readNode .mh body with
      | some (k, v) => .got k v
      | none => .err := by
  obtain ⟨a, b, rfl, e⟩ := liveAt_split ss 0 lp body hx
  simp only [Nat.zero_add] at e
  unfold diskRead
  simp only [localizePri_eq hp hl hf, hfile]
  have hA : (le32 body.length).length = 4 := leEnc_length 4 _
  have hbytes : (⟨false, body⟩ : GSpan).bytes = le32 body.length ++ body := by
    simp [GSpan.bytes, GSpan.raw]
  have hr : readAt (gbytes (a ++ (⟨false, body⟩ : GSpan) :: b)) lp (body.length + 4) =
      some (le32 body.length ++ body) := by
    rw [gbytes_append, gbytes_cons, hbytes, e]
    have := readAt_at_end (gbytes a) (le32 body.length ++ body) (gbytes b)
    rw [List.length_append, hA] at this
    rw [← this]
    congr 1
    · simp [List.append_assoc]
    · omega
  rw [hr]
  simp only
  rw [List.take_left' hA, List.drop_left' hA]
  have : leDec (le32 body.length) = body.length :=
    leDec_leEnc 4 _ (by unfold two31 at hlen; omega)
  rw [this, if_neg (by omega)]
  cases readNode PKind.mh body with
  | none => rfl
  | some p => rfl

/-! ### the log of the primary files -/

structure PriLog (m : Mem) (d : Disk) (pf : Nat) (psp : Nat → List GSpan) : Prop where
  le : pf ≤ m.pfileNum
  gone : ∀ f, f < pf → d.pfiles.get? f = none
  files : ∀ f, pf ≤ f → f ≤ m.pfileNum → d.pfiles.get? f = some (gbytes (psp f))
  ok : ∀ f, pf ≤ f → f ≤ m.pfileNum → SpansLt (psp f)
  starts : ∀ f, pf ≤ f → f ≤ m.pfileNum → ∀ x ∈ liveAt 0 (psp f), x.1 < m.pmax

/-- `blk` is the block of an index entry -/
def IsEnt (m : Mem) (d : Disk) (blk : Block) : Prop :=
  ∃ b rl e, idxRecords m d b = .ok (some rl) ∧ e ∈ rl ∧ e.blk = blk

/-- `blk` is a record span of the log with the given body -/
def OnDisk (m : Mem) (pf : Nat) (psp : Nat → List GSpan) (blk : Block) (body : Bytes) : Prop :=
  ∃ f lp, blk.off = m.pmax * f + lp ∧ pf ≤ f ∧ f ≤ m.pfileNum ∧ (lp, body) ∈ liveAt 0 (psp f) ∧
    blk.size = body.length

/-- every index entry resolves to a pooled record or to a record span -/
def EntOK (m : Mem) (d : Disk) (pf : Nat) (psp : Nat → List GSpan) : Prop :=
  ∀ blk, IsEnt m d blk → ∃ key val, priGet m d blk = .got key val ∧
    ((∃ r ∈ m.pnext, r.blk = blk ∧ r.key = key ∧ r.val = val) ∨ OnDisk m pf psp blk (key ++ val))

/-- where a freelist entry may point: at a pooled record, into an unlinked file, beyond the end of a
    closed file, at a record span, or at a word with the deleted bit -/
def FreeLoc (m : Mem) (pf : Nat) (psp : Nat → List GSpan) (fb : Block) : Prop :=
  (∃ r ∈ m.pnext, r.blk.off = fb.off) ∨
  ∃ f lp, fb.off = m.pmax * f + lp ∧ lp < m.pmax ∧
    (f < pf ∨ (pf ≤ f ∧ f ≤ m.pfileNum ∧
      ((f < m.pfileNum ∧ (gbytes (psp f)).length ≤ lp) ∨ (∃ body, (lp, body) ∈ liveAt 0 (psp f)) ∨
        DeadMark (psp f) lp)))

def FreeOK (m : Mem) (d : Disk) (pf : Nat) (psp : Nat → List GSpan) (fb : Block) : Prop :=
  Below m fb ∧ (∀ blk, IsEnt m d blk → blk.off ≠ fb.off) ∧ FreeLoc m pf psp fb ∧
    fb.off < two64 ∧ fb.size < two32

/-- the freelist pool and the two freelist files -/
def FlInv (m : Mem) (d : Disk) (pf : Nat) (psp : Nat → List GSpan) : Prop :=
  ∃ L1 L2, d.free = some (L1.flatMap blockBytes) ∧
    ((d.freeGc = none ∧ L2 = []) ∨ d.freeGc = some (L2.flatMap blockBytes)) ∧
    ∀ fb ∈ m.flpool ++ L1 ++ L2, FreeOK m d pf psp fb

/-- the multihash primary's part of the GC invariant -/
def ZInv (m : Mem) (d : Disk) : Prop :=
  ∃ pf psp, d.phdr = some ⟨m.pmax, pf⟩ ∧ PriLog m d pf psp ∧ EntOK m d pf psp ∧ FlInv m d pf psp

/-! ### offsets -/

theorem liveAt_off_unique {ss : List GSpan} {off : Nat} {b1 b2 : Bytes}
    (h1 : (off, b1) ∈ liveAt 0 ss) (h2 : (off, b2) ∈ liveAt 0 ss) : b1 = b2 := by
  have hs := liveAt_sorted ss 0
  generalize liveAt 0 ss = l at h1 h2 hs
  induction l with
  | nil => cases h1
  | cons x l ih =>
    rw [List.pairwise_cons] at hs
    simp only [List.mem_cons] at h1 h2
    rcases h1 with h1 | h1 <;> rcases h2 with h2 | h2
    · rw [← h1] at h2; cases h2; rfl
    · have := hs.1 _ h2; rw [← h1] at this; simp at this
    · have := hs.1 _ h1; rw [← h2] at this; simp at this
    · exact ih h1 h2 hs.2

/-- the blocks of the pooled records have increasing offsets, all at or beyond the write position -/
theorem allocMh_offsets {pmax : Nat} (hp : 1 ≤ pmax) : ∀ {rs : List PRec} {fn len efn elen : Nat},
    allocMh pmax fn len rs efn elen →
    (∀ r ∈ rs, pmax * fn + (if len ≥ pmax then pmax else len) ≤ r.blk.off) ∧
      (rs.map (·.blk.off)).Pairwise (· < ·)
  | [], _, _, _, _, _ => ⟨by simp, by simp⟩
  | r :: rs, fn, len, efn, elen, h => by
    obtain ⟨h1, h2⟩ := h
    obtain ⟨i1, i2⟩ := allocMh_offsets hp h2
    have hoff : r.blk.off = pmax * (if len ≥ pmax then fn + 1 else fn) + (if len ≥ pmax then 0 else len) := by
      rw [h1]
    have hlow : pmax * fn + (if len ≥ pmax then pmax else len) ≤ r.blk.off := by
      rw [hoff]
      split
      · rw [Nat.mul_add]; omega
      · omega
    -- every later record lies strictly beyond this one
    have hnext : ∀ x ∈ rs, r.blk.off < x.blk.off := by
      intro x hx
      have := i1 x hx
      rw [hoff]
      by_cases hr : len ≥ pmax
      · simp only [hr, if_true] at this ⊢
        split at this
        · rw [Nat.mul_add] at this ⊢; omega
        · omega
      · simp only [hr, if_false] at this ⊢
        split at this
        · omega
        · omega
    refine ⟨?_, ?_⟩
    · intro x hx
      simp only [List.mem_cons] at hx
      rcases hx with rfl | hx
      · exact hlow
      · exact Nat.le_trans hlow (Nat.le_of_lt (hnext x hx))
    · simp only [List.map_cons, List.pairwise_cons]
      refine ⟨?_, i2⟩
      intro y hy
      obtain ⟨x, hx, rfl⟩ := List.mem_map.mp hy
      exact hnext x hx

end Sth
