/-
C04 — the primary flush on the span log: every pooled record is appended as a record span at the
location its block names.
Core Lean only.
-/
import Sth.Lemmas.C04GStep

namespace Sth

/-- the span of a primary record -/
def prSpan (r : PRec) : GSpan := ⟨false, r.key ++ r.val⟩

theorem prSpan_bytes (r : PRec) : (prSpan r).bytes = recBytes r := by
  unfold prSpan GSpan.bytes GSpan.raw recBytes
  simp [List.append_assoc]

/-- file and position the next record is written at -/
abbrev nextPF (m : Mem) : Nat := if m.plength ≥ m.pmax then m.pfileNum + 1 else m.pfileNum
abbrev nextPL (m : Mem) : Nat := if m.plength ≥ m.pmax then 0 else m.plength

/-- the memory state after one record has been written -/
abbrev stepMem (m : Mem) (r : PRec) : Mem :=
  { m with pfileNum := nextPF m, plength := nextPL m + 4 + (r.key.length + r.val.length) }

/-- the state of the flush fold -/
structure PFold (pf : Nat) (psp : Nat → List GSpan) (m : Mem) (d : Disk) : Prop where
  log : PriLog m d pf psp
  plen : (fileOf d.pfiles m.pfileNum).length = m.plength
  pno : ∀ f, m.pfileNum < f → d.pfiles.get? f = none

theorem pstep_span {pf : Nat} {psp : Nat → List GSpan} {m : Mem} {d : Disk} {r : PRec}
    (h : PFold pf psp m d) (hp : 1 ≤ m.pmax) (hsz : r.key.length + r.val.length < two31)
    (hb : r.blk = ⟨m.pmax * (if m.plength ≥ m.pmax then m.pfileNum + 1 else m.pfileNum) +
      (if m.plength ≥ m.pmax then 0 else m.plength), r.key.length + r.val.length⟩) :
    ∃ d' psp', pstepMh (m, d) r = some (stepMem m r, d') ∧
      PFold pf psp' (stepMem m r) d' ∧
      (∀ f x, pf ≤ f → f ≤ m.pfileNum → x ∈ liveAt 0 (psp f) → x ∈ liveAt 0 (psp' f)) ∧
      (∀ f lp, pf ≤ f → f ≤ m.pfileNum → DeadMark (psp f) lp → DeadMark (psp' f) lp) ∧
      (∀ f, f < m.pfileNum → psp' f = psp f) ∧
      (∃ f lp, r.blk.off = m.pmax * f + lp ∧ pf ≤ f ∧ f ≤ nextPF m ∧
        (lp, r.key ++ r.val) ∈ liveAt 0 (psp' f)) ∧
      d'.ifiles = d.ifiles ∧ d'.ihdr = d.ihdr ∧ d'.phdr = d.phdr ∧ d'.cidfile = d.cidfile ∧
      d'.free = d.free ∧ d'.freeGc = d.freeGc ∧ d'.snap = d.snap := by
  have hdl : (le32 (r.key.length + r.val.length) ++ r.key ++ r.val).length =
      4 + (r.key.length + r.val.length) := recBytes_length r
  have hl := h.log
  have hlast := hl.files m.pfileNum hl.le (Nat.le_refl _)
  have hlen : (gbytes (psp m.pfileNum)).length = m.plength := by
    rw [← h.plen, fileOf_some hlast]
  have hspl : (prSpan r).body.length < two31 := by
    unfold prSpan; simp only [List.length_append]; exact hsz
  by_cases hroll : m.plength ≥ m.pmax
  · simp only [if_pos hroll] at hb
    simp only [stepMem, nextPF, nextPL, if_pos hroll]
    have hnone : d.pfiles.get? (m.pfileNum + 1) = none := h.pno _ (by omega)
    refine ⟨{ d with pfiles := rollFiles d.pfiles (m.pfileNum + 1) (recBytes r) },
      fun f => if f = m.pfileNum + 1 then [prSpan r] else psp f, ?_, ?_, ?_, ?_, ?_, ?_,
      rfl, rfl, rfl, rfl, rfl, rfl, rfl⟩
    · unfold pstepMh
      simp only [hroll, has_eq_false hnone, and_false, if_false, if_true, Bool.false_eq_true, hdl,
        recBytes, Nat.add_assoc]
    · refine ⟨⟨?_, ?_, ?_, ?_, ?_⟩, ?_, ?_⟩
      · show pf ≤ m.pfileNum + 1; have := hl.le; omega
      · intro f hf
        show ((d.pfiles.set (m.pfileNum + 1) []).set (m.pfileNum + 1) _).get? f = none
        have := hl.le
        rw [NMap.get?_set_ne _ _ (by omega), NMap.get?_set_ne _ _ (by omega)]
        exact hl.gone f hf
      · intro f g1 g2
        show ((d.pfiles.set (m.pfileNum + 1) []).set (m.pfileNum + 1) _).get? f = _
        by_cases hff : f = m.pfileNum + 1
        · rw [hff, NMap.get?_set_eq, fileOf_some (NMap.get?_set_eq _ _ _)]
          simp [gbytes_cons, gbytes_nil, prSpan_bytes]
        · rw [NMap.get?_set_ne _ _ hff, NMap.get?_set_ne _ _ hff, if_neg hff]
          exact hl.files f g1 (by have : f ≤ m.pfileNum + 1 := g2; omega)
      · intro f g1 g2 s hs
        by_cases hff : f = m.pfileNum + 1
        · simp only [hff, if_true, List.mem_singleton] at hs; rw [hs]; exact hspl
        · simp only [hff, if_false] at hs
          exact hl.ok f g1 (by have : f ≤ m.pfileNum + 1 := g2; omega) s hs
      · intro f g1 g2 x hx
        by_cases hff : f = m.pfileNum + 1
        · simp only [hff, if_true] at hx
          simp [liveAt, prSpan] at hx
          rw [hx]; show 0 < m.pmax; omega
        · simp only [hff, if_false] at hx
          exact hl.starts f g1 (by have : f ≤ m.pfileNum + 1 := g2; omega) x hx
      · show (fileOf ((d.pfiles.set (m.pfileNum + 1) []).set (m.pfileNum + 1) _) (m.pfileNum + 1)).length = _
        rw [fileOf_some (NMap.get?_set_eq _ _ _), fileOf_some (NMap.get?_set_eq _ _ _)]
        simp [recBytes_length]
      · intro f hf'
        show ((d.pfiles.set (m.pfileNum + 1) []).set (m.pfileNum + 1) _).get? f = none
        have hf'' : m.pfileNum + 1 < f := hf'
        rw [NMap.get?_set_ne _ _ (by omega), NMap.get?_set_ne _ _ (by omega)]
        exact h.pno f (by omega)
    · intro f x g1 g2 hx
      have hne : ¬ f = m.pfileNum + 1 := by omega
      simp only [hne, if_false]; exact hx
    · intro f lp g1 g2 hx
      have hne : ¬ f = m.pfileNum + 1 := by omega
      simp only [hne, if_false]; exact hx
    · intro f hf
      have hne : ¬ f = m.pfileNum + 1 := by omega
      simp only [hne, if_false]
    · refine ⟨m.pfileNum + 1, 0, by rw [hb], by have := hl.le; omega, Nat.le_refl _, ?_⟩
      simp [liveAt, prSpan]
  · simp only [if_neg hroll] at hb
    simp only [stepMem, nextPF, nextPL, if_neg hroll]
    refine ⟨{ d with pfiles := d.pfiles.set m.pfileNum (fileOf d.pfiles m.pfileNum ++ recBytes r) },
      fun f => if f = m.pfileNum then psp m.pfileNum ++ [prSpan r] else psp f, ?_, ?_, ?_, ?_, ?_, ?_,
      rfl, rfl, rfl, rfl, rfl, rfl, rfl⟩
    · unfold pstepMh
      simp only [hroll, false_and, if_false, hdl, recBytes, Nat.add_assoc]
    · refine ⟨⟨hl.le, ?_, ?_, ?_, ?_⟩, ?_, ?_⟩
      · intro f hf
        show (d.pfiles.set m.pfileNum _).get? f = none
        have := hl.le
        rw [NMap.get?_set_ne _ _ (by omega)]
        exact hl.gone f hf
      · intro f g1 g2
        show (d.pfiles.set m.pfileNum _).get? f = _
        by_cases hff : f = m.pfileNum
        · rw [hff, NMap.get?_set_eq, fileOf_some hlast]
          simp [gbytes_append, gbytes_cons, gbytes_nil, prSpan_bytes]
        · rw [NMap.get?_set_ne _ _ hff, if_neg hff]
          exact hl.files f g1 g2
      · intro f g1 g2 s hs
        by_cases hff : f = m.pfileNum
        · simp only [hff, if_true, List.mem_append, List.mem_singleton] at hs
          rcases hs with hs | hs
          · exact hl.ok m.pfileNum hl.le (Nat.le_refl _) s hs
          · rw [hs]; exact hspl
        · simp only [hff, if_false] at hs
          exact hl.ok f g1 g2 s hs
      · intro f g1 g2 x hx
        by_cases hff : f = m.pfileNum
        · simp only [hff, if_true] at hx
          have := liveAt_snoc_live (psp m.pfileNum) (r.key ++ r.val) 0
          simp only [Nat.zero_add] at this
          unfold prSpan at hx
          rw [this] at hx
          simp only [List.mem_append, List.mem_singleton] at hx
          rcases hx with hx | hx
          · exact hl.starts m.pfileNum hl.le (Nat.le_refl _) x hx
          · rw [hx]; show (gbytes (psp m.pfileNum)).length < m.pmax; rw [hlen]; omega
        · simp only [hff, if_false] at hx
          exact hl.starts f g1 g2 x hx
      · show (fileOf (d.pfiles.set m.pfileNum _) m.pfileNum).length = _
        rw [fileOf_some (NMap.get?_set_eq _ _ _)]
        simp [recBytes_length, h.plen]; omega
      · intro f hf'
        show (d.pfiles.set m.pfileNum _).get? f = none
        have hf'' : m.pfileNum < f := hf'
        rw [NMap.get?_set_ne _ _ (by omega)]
        exact h.pno f hf''
    · intro f x g1 g2 hx
      by_cases hff : f = m.pfileNum
      · subst hff; simp only [if_true]; rw [liveAt_append]; exact List.mem_append_left _ hx
      · simp only [hff, if_false]; exact hx
    · intro f lp g1 g2 hx
      by_cases hff : f = m.pfileNum
      · subst hff; simp only [if_true]; exact hx.append_left _
      · simp only [hff, if_false]; exact hx
    · intro f hf
      have hne : ¬ f = m.pfileNum := by omega
      simp only [hne, if_false]
    · refine ⟨m.pfileNum, m.plength, by rw [hb], hl.le, Nat.le_refl _, ?_⟩
      simp only [if_true]
      have := liveAt_snoc_live (psp m.pfileNum) (r.key ++ r.val) 0
      simp only [Nat.zero_add] at this
      unfold prSpan
      rw [this, hlen]
      simp

end Sth

namespace Sth

/-- the memory state after the fold: only the write position has moved -/
abbrev posMem (m : Mem) (efn elen : Nat) : Mem := { m with pfileNum := efn, plength := elen }

theorem pfold_span {pf : Nat} : ∀ (recs : List PRec) (m : Mem) (d : Disk) (psp : Nat → List GSpan)
    (efn elen : Nat), PFold pf psp m d → 1 ≤ m.pmax →
    allocMh m.pmax m.pfileNum m.plength recs efn elen →
    (∀ r ∈ recs, r.key.length + r.val.length < two31) →
    ∃ d' psp', recs.foldlM pstepMh (m, d) = some (posMem m efn elen, d') ∧
      PFold pf psp' (posMem m efn elen) d' ∧
      (∀ f x, pf ≤ f → f ≤ m.pfileNum → x ∈ liveAt 0 (psp f) → x ∈ liveAt 0 (psp' f)) ∧
      (∀ f lp, pf ≤ f → f ≤ m.pfileNum → DeadMark (psp f) lp → DeadMark (psp' f) lp) ∧
      (∀ f, f < m.pfileNum → psp' f = psp f) ∧
      (∀ r ∈ recs, ∃ f lp, r.blk.off = m.pmax * f + lp ∧ pf ≤ f ∧ f ≤ efn ∧
        (lp, r.key ++ r.val) ∈ liveAt 0 (psp' f)) ∧
      m.pfileNum ≤ efn ∧
      d'.ifiles = d.ifiles ∧ d'.ihdr = d.ihdr ∧ d'.phdr = d.phdr ∧ d'.cidfile = d.cidfile ∧
      d'.free = d.free ∧ d'.freeGc = d.freeGc ∧ d'.snap = d.snap
  | [], m, d, psp, efn, elen, h, _, ha, _ => by
    obtain ⟨rfl, rfl⟩ := ha
    exact ⟨d, psp, rfl, h, fun _ _ _ _ hx => hx, fun _ _ _ _ hx => hx, fun _ _ => rfl, by simp,
      Nat.le_refl _, rfl, rfl, rfl, rfl, rfl, rfl, rfl⟩
  | r :: recs, m, d, psp, efn, elen, h, hp, ha, hs => by
    obtain ⟨d1, psp1, s1, s2, s3, s4, s5, s6, t1, t2, t3, t4, t5, t6, t7⟩ :=
      pstep_span h hp (hs r (by simp)) ha.1
    obtain ⟨d', psp', g1, g2, g3, g4, g5, g6, g7, u1, u2, u3, u4, u5, u6, u7⟩ :=
      pfold_span recs (stepMem m r) d1 psp1 efn elen s2 hp ha.2 (fun x hx => hs x (by simp [hx]))
    have hle1 : m.pfileNum ≤ nextPF m := by unfold nextPF; split <;> omega
    have g7' : nextPF m ≤ efn := g7
    refine ⟨d', psp', ?_, g2, ?_, ?_, ?_, ?_, by omega, by rw [u1, t1], by rw [u2, t2], by rw [u3, t3],
      by rw [u4, t4], by rw [u5, t5], by rw [u6, t6], by rw [u7, t7]⟩
    · rw [List.foldlM_cons, s1]
      exact g1
    · intro f x h1 h2 hx
      exact g3 f x h1 (by show f ≤ nextPF m; omega) (s3 f x h1 h2 hx)
    · intro f lp h1 h2 hx
      exact g4 f lp h1 (by show f ≤ nextPF m; omega) (s4 f lp h1 h2 hx)
    · intro f hf
      rw [g5 f (by show f < nextPF m; omega), s5 f hf]
    · intro x hx
      simp only [List.mem_cons] at hx
      rcases hx with rfl | hx
      · obtain ⟨f, lp, e1, e2, e3, e4⟩ := s6
        exact ⟨f, lp, e1, e2, by omega, g3 f _ e2 e3 e4⟩
      · exact g6 x hx

end Sth

namespace Sth

section
variable {kind : PKind} {bits : Nat} {U : List (Bytes × Bytes)} {P P' : Block → PGet}
  {R R' : Nat → Except Err (Option RecordList)} {below below' : Block → Prop} {spec : Spec}

/-- the observational invariant only needs the reads of index entries to persist -/
theorem AInv.mono_ent (h : AInv kind bits U P R below spec)
    (hP : ∀ b rl e, R b = .ok (some rl) → e ∈ rl → ∀ k v, P e.blk = .got k v → P' e.blk = .got k v)
    (hB : ∀ blk, below blk → below' blk)
    (hR : ∀ b, R' b = R b) : AInv kind bits U P' R' below' spec := by
  constructor
  · intro b
    obtain ⟨orl, h1, h2, h3⟩ := h.recs b
    refine ⟨orl, by rw [hR, h1], ?_, ?_⟩
    · apply OInv.congr _ h2
      intro e he k hk
      cases orl with
      | none => simp at he
      | some rl => exact ownOf_mono (fun k v hg => hP b rl e h1 he k v hg) hk
    · intro e he
      cases orl with
      | none => simp at he
      | some rl =>
        obtain ⟨key, val, dig, g1, g2, g3, g4, g5⟩ := (h3 e he).ex
        exact ⟨⟨key, val, dig, hP b rl e h1 he key val g1, g2, g3, g4, g5⟩, hB _ (h3 e he).below,
          (h3 e he).off, (h3 e he).size⟩
  · intro dig key val hs
    obtain ⟨b, rl, e, h1, h2, h3, h4, h5⟩ := h.complete dig key val hs
    exact ⟨b, rl, e, h1, by rw [hR, h2], h3, hP b rl e h2 h3 key val h4, h5⟩

end

/-- the reads of index entries after a change that keeps the pools' answers and the record spans -/
theorem SInv.of_ent {U : List (Bytes × Bytes)} {m m' : Mem} {d d' : Disk} {spec : Spec}
    (hA : SInv U m d spec) (hk : m'.kind = m.kind) (hb : m'.bits = m.bits)
    (hR : ∀ b, idxRecords m' d' b = idxRecords m d b)
    (hP : ∀ blk, IsEnt m d blk → ∀ k v, priGet m d blk = .got k v → priGet m' d' blk = .got k v)
    (hB : ∀ blk, Below m blk → Below m' blk) : SInv U m' d' spec := by
  show AInv m'.kind m'.bits U _ _ _ _
  rw [hk, hb]
  exact hA.mono_ent (fun b rl e h1 h2 k v hg => hP e.blk ⟨b, rl, e, h1, h2, rfl⟩ k v hg) hB hR

end Sth

namespace Sth

section
variable {c : Cfg} {U : List (Bytes × Bytes)} {s : SState} {spec : Spec} {n B : Nat}

/-- the header's first file is the same in both views of the primary header -/
theorem GInv.pf_eq (hG : GInv c U s spec n B) {pf : Nat} (h : s.d.phdr = some ⟨s.m.pmax, pf⟩) :
    s.d.phdr = some ⟨c.pfs, pf⟩ ∧ s.m.pmax = c.pfs := by
  obtain ⟨pf', q1, _, _⟩ := hG.y.phdr hG.kmh
  rw [h] at q1
  simp only [Option.some.injEq, PriHeader.mk.injEq] at q1
  rw [h, q1.1]
  exact ⟨rfl, rfl⟩

/-- the memory state after a primary flush with a non-empty pool -/
abbrev flushedMem (m : Mem) : Mem :=
  posMem { m with pcur := m.pnext, pnext := [] } m.precFileNum m.precPos

/-- the primary flush on the GC invariant -/
theorem priFlush_g (hU : Univ c.kind U) (hG : GInv c U s spec n B) (hn : n < 1073741824) :
    ∃ m1 d1, priFlush s.m s.d = some (m1, d1) ∧ GInv c U ⟨s.cfg, m1, d1⟩ spec n B ∧ m1.pnext = [] ∧
      m1.inext = s.m.inext ∧ m1.flpool = s.m.flpool ∧ m1.visited = s.m.visited ∧
      m1.pmax = s.m.pmax ∧ m1.gcResume = s.m.gcResume ∧
      d1.free = s.d.free ∧ d1.freeGc = s.d.freeGc ∧ d1.snap = s.d.snap ∧ d1.phdr = s.d.phdr ∧
      (∀ b, idxRecords m1 d1 b = idxRecords s.m s.d b) ∧
      (∀ blk, IsEnt s.m s.d blk → ∀ k v, priGet s.m s.d blk = .got k v →
        priGet m1 d1 blk = .got k v) := by
  by_cases hne : s.m.pnext.isEmpty = true
  · have hnil : s.m.pnext = [] := List.isEmpty_iff.mp hne
    refine ⟨s.m, s.d, priFlush_empty hne, hG, hnil, rfl, rfl, rfl, rfl, rfl, rfl, rfl, rfl, rfl,
      fun _ => rfl, fun _ _ _ _ h => h⟩
  · have hne' : s.m.pnext.isEmpty = false := by simpa using hne
    have hU' := hG.univ hU
    obtain ⟨pf, psp, zh, zl, ze, zf⟩ := hG.z
    have hk := hG.kind
    have hp := hG.pmax1
    have h32 : s.m.precFileNum < two32 := by have := hG.cntF; unfold two32; omega
    -- the fold on the span log
    have hF0 : PFold pf psp { s.m with pcur := s.m.pnext, pnext := [] } s.d :=
      ⟨zl.frame rfl rfl, hG.plen, hG.pno⟩
    obtain ⟨d1, psp', g1, g2, g3, g4, g5, g6, g7, u1, u2, u3, u4, u5, u6, u7⟩ :=
      pfold_span s.m.pnext { s.m with pcur := s.m.pnext, pnext := [] } s.d psp s.m.precFileNum
        s.m.precPos hF0 hp hG.alloc (fun r hr => (hG.recs r hr).2)
    -- abbreviations
    have hidx : ∀ b, idxRecords (flushedMem s.m) d1 b = idxRecords s.m s.d b := by
      intro b
      unfold idxRecords
      rw [u1]
    have hent : ∀ blk, IsEnt (flushedMem s.m) d1 blk ↔ IsEnt s.m s.d blk := by
      intro blk
      unfold IsEnt
      simp only [hidx]
    have hle := hG.pfile_le
    -- where an entry is after the flush, and what it reads
    have hafter : ∀ blk, IsEnt s.m s.d blk → ∀ key val, priGet s.m s.d blk = .got key val →
        ((∃ r ∈ s.m.pnext, r.blk = blk ∧ r.key = key ∧ r.val = val) ∨
          OnDisk s.m pf psp blk (key ++ val)) →
        priGet (flushedMem s.m)
            d1 blk = .got key val ∧
          OnDisk (flushedMem s.m)
            pf psp' blk (key ++ val) := by
      intro blk hb key val hg hback
      obtain ⟨b, rl, e, hr, he, rfl⟩ := hb
      have hB := (ent_blockOK hG.a hr he).1
      obtain ⟨key', val', dig, a1, a2, a3, a4, a5⟩ := hB.ex
      rw [hg] at a1; cases a1
      -- on disk afterwards
      have hon : OnDisk (flushedMem s.m) pf psp' e.blk (key ++ val) := by
        rcases hback with ⟨r, hr', x1, x2, x3⟩ | ⟨f, lp, y1, y2, y3, y4, y5⟩
        · obtain ⟨f, lp, e1, e2, e3, e4⟩ := g6 r hr'
          exact ⟨f, lp, by rw [← x1]; exact e1, e2, e3, by rw [← x2, ← x3]; exact e4,
            by rw [a4]; simp⟩
        · exact ⟨f, lp, y1, y2, by show f ≤ s.m.precFileNum; omega, g3 f _ y2 y3 y4, y5⟩
      refine ⟨?_, hon⟩
      cases h1 : poolFind s.m.pnext e.blk with
      | some r' =>
        rw [priGet_eq, h1] at hg
        rw [priGet_eq]
        have e0 : poolFind (flushedMem s.m).pnext e.blk = none := rfl
        have e1 : (flushedMem s.m).pcur = s.m.pnext := rfl
        rw [e0, e1, h1]
        exact hg
      | none =>
        have hbel : Below (flushedMem s.m) e.blk := hB.below
        rw [priGet_onDisk (m := flushedMem s.m) hk hp h32 g2.log (Nat.le_refl _) hbel hon rfl]
        have e1 : (flushedMem s.m).pcur = s.m.pnext := rfl
        rw [e1, h1]
        simp only
        have := readNode_append s.m.kind key val (hU'.exact _ a2)
        rw [hk] at this
        rw [this]
    have hread : ∀ blk, IsEnt s.m s.d blk → ∀ k v, priGet s.m s.d blk = .got k v →
        priGet (flushedMem s.m)
          d1 blk = .got k v := by
      intro blk hb k v hg
      obtain ⟨key, val, q1, q2⟩ := ze blk hb
      rw [hg] at q1; cases q1
      exact (hafter blk hb k v hg q2).1
    refine ⟨flushedMem s.m, d1, by rw [priFlush_mh_eq hk hne', g1], ?_, rfl, rfl, rfl, rfl, rfl, rfl, u5, u6,
      u7, u3, hidx, hread⟩
    obtain ⟨zc, zp⟩ := hG.pf_eq zh
    refine { kmh := hG.kmh, kind := hk, imm := hG.imm, bits8 := hG.bits8, bits31 := hG.bits31,
             a := hG.a.of_ent rfl rfl hidx hread (fun _ h => h), pmax1 := hp, pmaxle := hG.pmaxle,
             recs := fun r hr => (by cases hr), nextBelow := fun r hr => (by cases hr),
             alloc := ⟨rfl, rfl⟩, plen := g2.plen, pno := g2.pno,
             i := hG.i.frame2 u1 rfl rfl rfl rfl rfl, cntF := hG.cntF, cntI := hG.cntI,
             nodup := hG.nodup, w := hG.w, y := ?_, z := ?_ }
    · obtain ⟨first, sp, e1, e2⟩ := hG.y.ilog
      refine ⟨hG.y.cfg, hG.y.bits, hG.y.imax, hG.y.pmax,
        ⟨first, sp, by show d1.ihdr = _; rw [u2]; exact e1, e2.frame u1 rfl rfl rfl rfl⟩, ?_,
        hG.y.inextLt⟩
      intro _
      refine ⟨pf, by show d1.phdr = _; rw [u3]; exact zc, g2.log.le, ?_⟩
      intro f h1 h2
      rw [g2.log.files f h1 h2]; simp
    · refine ⟨pf, psp', by show d1.phdr = _; rw [u3]; exact zh, g2.log, ?_, ?_⟩
      · intro blk hb
        have hb0 := (hent blk).mp hb
        obtain ⟨key, val, q1, q2⟩ := ze blk hb0
        obtain ⟨r1, r2⟩ := hafter blk hb0 key val q1 q2
        exact ⟨key, val, r1, Or.inr r2⟩
      · obtain ⟨L1, L2, f1, f2, f3⟩ := zf
        refine ⟨L1, L2, by rw [u5]; exact f1, by rw [u6]; exact f2, ?_⟩
        intro fb hfb
        obtain ⟨q1, q2, q3, q4, q5⟩ := f3 fb hfb
        refine ⟨q1, fun blk hb => q2 blk ((hent blk).mp hb), ?_, q4, q5⟩
        -- where the freelist entry points after the flush
        rcases q3 with ⟨r, hr, e⟩ | ⟨f, lp, e1, e2, q⟩
        · obtain ⟨f, lp, x1, x2, x3, x4⟩ := g6 r hr
          right
          refine ⟨f, lp, by rw [← e]; exact x1, g2.log.starts f x2 x3 _ x4,
            Or.inr ⟨x2, x3, Or.inr (Or.inl ⟨_, x4⟩)⟩⟩
        · right
          refine ⟨f, lp, e1, e2, ?_⟩
          rcases q with q | ⟨h1, h2, q⟩
          · exact Or.inl q
          · right
            refine ⟨h1, by show f ≤ s.m.precFileNum; omega, ?_⟩
            rcases q with ⟨k1, k2⟩ | ⟨body, k⟩ | k
            · left
              refine ⟨by show f < s.m.precFileNum; omega, ?_⟩
              rw [g5 f k1]; exact k2
            · exact Or.inr (Or.inl ⟨body, g3 f _ h1 h2 k⟩)
            · exact Or.inr (Or.inr (g4 f lp h1 h2 k))

end

end Sth
