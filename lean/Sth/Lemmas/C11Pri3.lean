import Sth.Lemmas.C11Pri2
import Sth.Lemmas.C11IdxReap

/-!
C11, primary side (3): what reapRecords and the loop over the closed files do, independent of the
invariants — the disk outside the visited file, a file whose spans are all deleted, relocation of
well-formed records never fails.  Core Lean only.
-/

namespace Sth.C11

/-- the bytes of a record span parse as a record with a key the index accepts -/
def RecSpan (body : Bytes) : Prop :=
  ∃ key val ik, readNode .mh body = some (key, val) ∧ indexKeyOf .mh key = some ik

theorem putMem_visited (m : Mem) (key val : Bytes) : (putMem m key val).visited = m.visited := by
  unfold putMem; split <;> rfl

/-- relocation changes neither the file counters nor the visited set -/
theorem relocate_frame {m m' : Mem} {d : Disk} {fnum at_ bs : Nat} {file : Bytes}
    (h : relocate m d fnum file at_ bs = some m') :
    m'.visited = m.visited ∧ m'.pfileNum = m.pfileNum ∧ m'.pmax = m.pmax := by
  unfold relocate at h
  cases h1 : readU32 file at_ with
  | none => simp [h1] at h
  | some size =>
    simp only [h1] at h
    cases h2 : readAt file (at_ + 4) size with
    | none => simp [h2] at h
    | some data =>
      simp only [h2] at h
      cases h3 : readNode .mh data with
      | none => simp [h3] at h
      | some kv =>
        obtain ⟨key, val⟩ := kv
        simp only [h3] at h
        cases h4 : indexKeyOf .mh key with
        | none => simp [h4] at h
        | some ik =>
          simp only [h4, priPut_eq, Option.some.injEq] at h
          cases hrel : idxRelocate (putMem m key val) d ik
              ⟨(putMem m key val).pmax * fnum + at_, bs⟩ (nextBlk m (key.length + val.length)) with
          | ok m3 =>
            rw [hrel] at h
            simp only at h
            obtain ⟨_, _, _, _, _, _, _, _, rfl⟩ := idxRelocate_ok_inv hrel
            subst h
            exact ⟨putMem_visited _ _ _, putMem_pfileNum _ _ _, putMem_pmax _ _ _⟩
          | error e =>
            rw [hrel] at h
            simp only at h
            subst h
            exact ⟨putMem_visited _ _ _, putMem_pfileNum _ _ _, putMem_pmax _ _ _⟩

/-- relocating a well-formed record span never fails -/
theorem relocate_some (m : Mem) (d : Disk) (fnum : Nat) {ss : List GSpan} {at_ : Nat} {body : Bytes}
    (hx : (at_, body) ∈ liveAt 0 ss) (hlen : body.length < two31) (hr : RecSpan body) :
    ∃ m', relocate m d fnum (gbytes ss) at_ body.length = some m' := by
  obtain ⟨key, val, ik, r1, r2⟩ := hr
  obtain ⟨s1, s2⟩ := span_reads hx hlen
  unfold relocate
  simp only [s1, s2, r1, r2]
  exact ⟨_, rfl⟩

/-- reapRecords writes at most the file it visits -/
theorem reapRecords_disk (m : Mem) (d : Disk) (n lowUse : Nat) :
    (reapRecords m d n lowUse).2.2.1 = d ∨
      ∃ file, (reapRecords m d n lowUse).2.2.1 = { d with pfiles := d.pfiles.set n file } := by
  unfold reapRecords
  cases d.pfiles.get? n with
  | none => exact Or.inl rfl
  | some file =>
    simp only
    repeat' split
    all_goals first
      | exact Or.inl rfl
      | exact Or.inr ⟨_, rfl⟩

theorem reapRecords_mem (m : Mem) (d : Disk) (n lowUse : Nat) :
    (reapRecords m d n lowUse).2.1.visited = m.visited ∧
      (reapRecords m d n lowUse).2.1.pfileNum = m.pfileNum ∧
      (reapRecords m d n lowUse).2.1.pmax = m.pmax := by
  unfold reapRecords
  cases d.pfiles.get? n with
  | none => exact ⟨rfl, rfl, rfl⟩
  | some file =>
    simp only
    repeat' split
    all_goals first
      | exact ⟨rfl, rfl, rfl⟩
      | (obtain ⟨a1, a2, a3⟩ := relocate_frame ‹relocate m _ _ _ _ _ = some _›
         first
           | exact ⟨a1, a2, a3⟩
           | (rename_i m2 hr2
              obtain ⟨b1, b2, b3⟩ := relocate_frame hr2
              exact ⟨by rw [b1, a1], by rw [b2, a2], by rw [b3, a3]⟩))

theorem reapRecords_other (m : Mem) (d : Disk) (n lowUse : Nat) {f : Nat} (hf : f ≠ n) :
    (reapRecords m d n lowUse).2.2.1.pfiles.get? f = d.pfiles.get? f := by
  rcases reapRecords_disk m d n lowUse with h | ⟨file, h⟩
  · rw [h]
  · rw [h]; exact NMap.get?_set_ne _ _ hf

/-- the loop over the closed files only touches files from its position on -/
theorem pgcGo_before (lowUse : Nat) {f : Nat} : ∀ (fuel n : Nat) (h : PriHeader) (m : Mem) (d : Disk)
    (b : Budget) (recl : Nat), f < n →
    (primaryGC.go lowUse fuel n h m d b recl).2.2.1.pfiles.get? f = d.pfiles.get? f := by
  intro fuel
  induction fuel with
  | zero => intro n h m d b recl _; rfl
  | succ fuel ih =>
    intro n h m d b recl hn
    unfold primaryGC.go
    split
    · rfl
    split
    · exact ih (n + 1) h m d b recl (by omega)
    have hoth := reapRecords_other m d n lowUse (f := f) (by omega)
    cases hr : reapRecords m d n lowUse with
    | mk r rest =>
    obtain ⟨m1, d1, got⟩ := rest
    rw [hr] at hoth
    simp only at hoth ⊢
    cases r with
    | err => exact hoth
    | dead =>
      simp only
      repeat' split
      all_goals first
        | exact hoth
        | (show (d1.pfiles.del n).get? f = _; rw [NMap.get?_del_ne _ (by omega)]; exact hoth)
        | (rw [ih (n + 1) _ _ _ _ _ (by omega)]; exact hoth)
        | (rw [ih (n + 1) _ _ _ _ _ (by omega)]
           show (d1.pfiles.del n).get? f = _; rw [NMap.get?_del_ne _ (by omega)]; exact hoth)
    | kept =>
      simp only
      repeat' split
      all_goals first
        | exact hoth
        | (show (d1.pfiles.del n).get? f = _; rw [NMap.get?_del_ne _ (by omega)]; exact hoth)
        | (rw [ih (n + 1) _ _ _ _ _ (by omega)]; exact hoth)
        | (rw [ih (n + 1) _ _ _ _ _ (by omega)]
           show (d1.pfiles.del n).get? f = _; rw [NMap.get?_del_ne _ (by omega)]; exact hoth)

/-- the loop never touches a visited file -/
theorem pgcGo_visited (lowUse : Nat) {f : Nat} : ∀ (fuel n : Nat) (h : PriHeader) (m : Mem) (d : Disk)
    (b : Budget) (recl : Nat), f ∈ m.visited →
    (primaryGC.go lowUse fuel n h m d b recl).2.2.1.pfiles.get? f = d.pfiles.get? f := by
  intro fuel
  induction fuel with
  | zero => intro n h m d b recl _; rfl
  | succ fuel ih =>
    intro n h m d b recl hv
    unfold primaryGC.go
    split
    · rfl
    split
    · exact ih (n + 1) h m d b recl hv
    rename_i hnv
    have hnf : f ≠ n := by
      rintro rfl
      exact hnv (List.contains_iff_mem.mpr hv)
    have hoth := reapRecords_other m d n lowUse hnf
    have hvis := (reapRecords_mem m d n lowUse).1
    cases hr : reapRecords m d n lowUse with
    | mk r rest =>
    obtain ⟨m1, d1, got⟩ := rest
    rw [hr] at hoth hvis
    simp only at hoth hvis ⊢
    have hv1 : f ∈ m1.visited ++ [n] := by rw [hvis]; exact List.mem_append_left _ hv
    cases r with
    | err => exact hoth
    | dead =>
      simp only
      repeat' split
      all_goals first
        | exact hoth
        | (show (d1.pfiles.del n).get? f = _; rw [NMap.get?_del_ne _ hnf]; exact hoth)
        | (rw [ih (n + 1) _ _ _ _ _ hv1]; exact hoth)
        | (rw [ih (n + 1) _ _ _ _ _ hv1]
           show (d1.pfiles.del n).get? f = _; rw [NMap.get?_del_ne _ hnf]; exact hoth)
    | kept =>
      simp only
      repeat' split
      all_goals first
        | exact hoth
        | (show (d1.pfiles.del n).get? f = _; rw [NMap.get?_del_ne _ hnf]; exact hoth)
        | (rw [ih (n + 1) _ _ _ _ _ hv1]; exact hoth)
        | (rw [ih (n + 1) _ _ _ _ _ hv1]
           show (d1.pfiles.del n).get? f = _; rw [NMap.get?_del_ne _ hnf]; exact hoth)

/-! ### a file whose spans are all deleted -/

/-- the scan of reapRecords once a merged deleted span from offset 0 exists, over deleted spans only -/
theorem reapPri_dead_loop : ∀ (fuel : Nat) (rest : List GSpan) (b : Bytes) (st : PReap),
    st.file = gbytes ((⟨true, b⟩ : GSpan) :: rest) → st.pos = 4 + b.length → st.freeAt = 0 →
    st.freeAtSize = b.length → st.busyAt = -1 →
    (∀ s ∈ rest, s.dead = true ∧ s.body.length < two31) →
    (gbytes ((⟨true, b⟩ : GSpan) :: rest)).length < two31 →
    (reapPriLoop fuel st).freeAt = 0 ∧ (reapPriLoop fuel st).busyAt = -1 := by
  intro fuel
  induction fuel with
  | zero =>
    intro rest b st _ _ h3 _ h5 _ _
    exact ⟨h3, h5⟩
  | succ fuel ih =>
    intro rest b st h1 h2 h3 h4 h5 hok hlen
    obtain ⟨file, pos, freeAt, busyAt, prevBusyAt, busySize, prevBusySize, totalBusy, totalFree,
      freeAtSize⟩ := st
    simp only at h1 h2 h3 h4 h5
    subst h1 h2 h3 h4 h5
    have hpre : (gbytes [(⟨true, b⟩ : GSpan)]).length = 4 + b.length := by
      rw [gbytes_cons, gbytes_nil, List.append_nil, GSpan.bytes_length]
    rw [reapPriLoop]
    cases rest with
    | nil =>
      have : readU32 (gbytes [(⟨true, b⟩ : GSpan)]) (4 + b.length) = none := by
        rw [← hpre]; exact readU32_end _
      rw [this]
      exact ⟨rfl, rfl⟩
    | cons s rest' =>
      obtain ⟨hdead, hs31⟩ := hok s (by simp)
      have efile : gbytes ((⟨true, b⟩ : GSpan) :: s :: rest') =
          gbytes [(⟨true, b⟩ : GSpan)] ++ (s.bytes ++ gbytes rest') := by
        rw [gbytes_cons, gbytes_cons, gbytes_cons, gbytes_nil, List.append_nil]
      have hrd : readU32 (gbytes ((⟨true, b⟩ : GSpan) :: s :: rest')) (4 + b.length) = some s.raw := by
        rw [efile, ← hpre]; exact readU32_span _ s _ hs31
      simp only [hrd]
      have hgt : ((0 : Int) > -1) := by decide
      have hfs : b.length + 4 + s.body.length < two31 := by
        rw [efile, List.length_append, hpre, List.length_append, GSpan.bytes_length] at hlen
        omega
      have hmerge : setDeleted (gbytes ((⟨true, b⟩ : GSpan) :: s :: rest')) 0
          (b.length + 4 + s.body.length) = gbytes ((⟨true, b ++ s.bytes⟩ : GSpan) :: rest') := by
        rw [gbytes_cons, gbytes_cons, setDeleted_merge0, gbytes_cons]
      have hlen' : (gbytes ((⟨true, b ++ s.bytes⟩ : GSpan) :: rest')).length < two31 := by
        rw [← hmerge]
        unfold setDeleted writeAt
        have hB : (le32 (b.length + 4 + s.body.length + two31)).length = 4 := leEnc_length 4 _
        simp only [List.take_zero, List.nil_append, List.length_append, hB, List.length_drop,
          Nat.zero_add]
        have : 4 ≤ (gbytes ((⟨true, b⟩ : GSpan) :: s :: rest')).length := by
          rw [efile, List.length_append, hpre]; omega
        omega
      have hblen : (b ++ s.bytes).length = b.length + 4 + s.body.length := by
        rw [List.length_append, GSpan.bytes_length]; omega
      have hraw : s.raw = s.body.length + two31 := by unfold GSpan.raw; simp [hdead]
      rw [if_pos (by rw [hraw]; omega)]
      simp only [hgt, if_true]
      have : s.raw - two31 = s.body.length := by rw [hraw]; omega
      rw [this, if_neg (by omega)]
      simp only [Int.toNat_zero]
      rw [hmerge]
      exact ih rest' (b ++ s.bytes) _ rfl (by simp only; rw [hblen]; omega) rfl
        (by simp only; rw [hblen]) rfl (fun x hx => hok x (by simp [hx])) hlen'

/-- reapRecords on a closed file whose spans are all deleted: the file is truncated to length zero and
    reported dead; nothing else changes -/
theorem reapRecords_dead (m : Mem) (d : Disk) (f lowUse : Nat) {ss : List GSpan}
    (hfile : d.pfiles.get? f = some (gbytes ss))
    (hok : ∀ s ∈ ss, s.dead = true ∧ s.body.length < two31) (hlen : (gbytes ss).length < two31) :
    ∃ got, reapRecords m d f lowUse = (.dead, m, { d with pfiles := d.pfiles.set f [] }, got) ∨
      (ss = [] ∧ reapRecords m d f lowUse = (.dead, m, d, got)) := by
  unfold reapRecords
  rw [hfile]
  simp only
  cases ss with
  | nil => exact ⟨0, Or.inr ⟨rfl, rfl⟩⟩
  | cons s rest =>
    obtain ⟨hdead, hs31⟩ := hok s (by simp)
    have hne : (gbytes (s :: rest)).isEmpty = false := by
      rw [gbytes_cons]
      have : 0 < (s.bytes ++ gbytes rest).length := by
        rw [List.length_append, GSpan.bytes_length]; omega
      cases h : s.bytes ++ gbytes rest with
      | nil => rw [h] at this; cases this
      | cons _ _ => rfl
    rw [hne]
    simp only [Bool.false_eq_true, if_false]
    -- the first iteration
    have hstep : ∃ st : PReap, reapPriLoop ((gbytes (s :: rest)).length + 2)
          { file := gbytes (s :: rest) } = reapPriLoop ((gbytes (s :: rest)).length + 1) st ∧
        st.file = gbytes ((⟨true, s.body⟩ : GSpan) :: rest) ∧ st.pos = 4 + s.body.length ∧
        st.freeAt = 0 ∧ st.freeAtSize = s.body.length ∧ st.busyAt = -1 := by
      rw [reapPriLoop]
      have hrd : readU32 (gbytes (s :: rest)) 0 = some s.raw := by
        have := readU32_span [] s (gbytes rest) hs31
        rw [List.nil_append, List.length_nil] at this
        rw [gbytes_cons]; exact this
      simp only [hrd]
      have hngt : ¬ ((-1 : Int) > -1) := by decide
      have hraw : s.raw = s.body.length + two31 := by unfold GSpan.raw; simp [hdead]
      rw [if_pos (by rw [hraw]; omega)]
      simp only [hngt, if_false]
      have : s.raw - two31 = s.body.length := by rw [hraw]; omega
      rw [this]
      refine ⟨_, rfl, ?_, ?_, ?_, ?_, ?_⟩
      · simp only
        have : s = ⟨true, s.body⟩ := by cases s; simp_all
        rw [← this]
      · simp
      · simp
      · simp
      · simp
    obtain ⟨st, e0, e1, e2, e3, e4, e5⟩ := hstep
    rw [e0]
    have hlen1 : (gbytes ((⟨true, s.body⟩ : GSpan) :: rest)).length < two31 := by
      rw [gbytes_cons, List.length_append, GSpan.bytes_length] at hlen ⊢
      exact hlen
    obtain ⟨r2, r3⟩ := reapPri_dead_loop ((gbytes (s :: rest)).length + 1) rest s.body st
      e1 e2 e3 e4 e5 (fun x hx => hok x (by simp [hx])) hlen1
    generalize reapPriLoop ((gbytes (s :: rest)).length + 1) st = st' at r2 r3 ⊢
    have hgt : st'.freeAt > st'.busyAt := by rw [r2, r3]; decide
    rw [if_pos hgt]
    simp only
    have hd : decide (st'.freeAt = 0) = true := by simp [r2]
    rw [if_pos hd]
    refine ⟨st'.freeAtSize, Or.inl ?_⟩
    have : truncateTo st'.file st'.freeAt.toNat = [] := by
      rw [r2]; unfold truncateTo; simp
    rw [this]

/-! ### reapRecords does not fail on well-formed records -/

theorem reapRecords_ne_err (m : Mem) (d : Disk) (n lowUse : Nat) {ss : List GSpan}
    (hfile : d.pfiles.get? n = some (gbytes ss)) (hok : SpansLt ss)
    (hwf : ∀ x ∈ liveAt 0 ss, RecSpan x.2) : (reapRecords m d n lowUse).1 ≠ .err := by
  unfold reapRecords
  rw [hfile]
  simp only
  by_cases hemp : (gbytes ss).isEmpty = true
  · rw [if_pos hemp]; exact fun h => by cases h
  rw [if_neg hemp]
  obtain ⟨ss', hf', hR, hL, hdead⟩ := reapFile_ok ss hok
  generalize reapPriLoop ((gbytes ss).length + 2) { file := gbytes ss } = st at hf' hL hdead ⊢
  have hfw : (if st.freeAt > st.busyAt then
        (truncateTo st.file st.freeAt.toNat, st.freeAtSize, decide (st.freeAt = 0))
      else (st.file, 0, false)) =
      (gbytes ss', (if st.freeAt > st.busyAt then st.freeAtSize else 0),
        (if st.freeAt > st.busyAt then decide (st.freeAt = 0) else false)) := by
    by_cases hc : st.freeAt > st.busyAt
    · rw [if_pos hc] at hf'; simp only [if_pos hc, hf']
    · rw [if_neg hc] at hf'; simp only [if_neg hc, hf']
  rw [hfw]
  simp only
  by_cases hdd : (if st.freeAt > st.busyAt then decide (st.freeAt = 0) else false) = true
  · rw [if_pos hdd]; exact fun h => by cases h
  rw [if_neg hdd]
  by_cases hb1 : st.busyAt = -1
  · rw [if_pos hb1]; exact fun h => by cases h
  rw [if_neg hb1]
  by_cases hlow : ¬ 100 * st.totalFree ≥ lowUse * (st.totalFree + st.totalBusy)
  · rw [if_neg hlow]; exact fun h => by cases h
  rw [if_pos (Classical.not_not.mp hlow)]
  rcases hL with ⟨hb, _⟩ | ⟨pre, off, body, hl, hba, hbs, hprev⟩
  · exact absurd hb hb1
  have hlive : ∀ x, x ∈ liveAt 0 ss' → RecSpan x.2 ∧ x.2.length < two31 := by
    intro x hx
    refine ⟨hwf x (by rw [← hR.live]; exact hx), ?_⟩
    obtain ⟨a, b, e, _⟩ := liveAt_split ss' 0 x.1 x.2 hx
    exact hR.ok ⟨false, x.2⟩ (by rw [e]; simp)
  have hx : (off, body) ∈ liveAt 0 ss' := by rw [hl]; simp
  have hoff : st.busyAt.toNat = off := by rw [hba]; rfl
  rw [hoff, hbs]
  obtain ⟨m1, hr1⟩ := relocate_some m { d with pfiles := d.pfiles.set n (gbytes ss') } n hx
    (hlive _ hx).2 (hlive _ hx).1
  rw [hr1]
  simp only
  rcases hprev with ⟨hp, _⟩ | ⟨pre', off', body', hl', hpa, hps⟩
  · have : ¬ st.prevBusyAt ≥ 0 := by rw [hp]; decide
    rw [if_neg this]
    exact fun h => by cases h
  · have : st.prevBusyAt ≥ 0 := by rw [hpa]; exact Int.natCast_nonneg _
    rw [if_pos this]
    have hoff' : st.prevBusyAt.toNat = off' := by rw [hpa]; rfl
    rw [hoff', hps]
    have hx' : (off', body') ∈ liveAt 0 ss' := by rw [hl, hl']; simp
    obtain ⟨m2, hr2⟩ := relocate_some m1 { d with pfiles := d.pfiles.set n (gbytes ss') } n hx'
      (hlive _ hx').2 (hlive _ hx').1
    rw [hr2]
    exact fun h => by cases h

end Sth.C11
