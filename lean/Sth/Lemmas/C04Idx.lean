/-
C04 — the index files as span logs: every file from the header's first file up to the current one is
a sequence of spans, the bucket table points at live records, and no live record of a bucket lies
beyond the table's position.  Reaping a file and dropping the first file preserve this and every read
through the table.
Core Lean only.
-/
import Sth.Lemmas.C04Reap
import Sth.Lemmas.C02Log

namespace Sth

/-- the bucket table as a total function (0 = no record) -/
def tbl (m : Mem) (b : Nat) : Nat := (m.buckets.get? b).getD 0

/-- the index log against an explicit table function (used while a flush is under way) -/
structure IdxLogT (bits imax N : Nat) (files : NMap Bytes) (T : Nat → Nat) (first : Nat)
    (sp : Nat → List GSpan) : Prop where
  le : first ≤ N
  gone : ∀ f, f < first → files.get? f = none
  files : ∀ f, first ≤ f → f ≤ N → files.get? f = some (gbytes (sp f))
  ok : ∀ f, first ≤ f → f ≤ N → ∀ s ∈ sp f, IdxSpanOK bits s
  t1 : ∀ b, T b ≠ 0 → ∃ f off body, first ≤ f ∧ f ≤ N ∧ (off, body) ∈ liveAt 0 (sp f) ∧
    leDec (body.take 4) = b ∧ T b = f * imax + off + 4
  t2 : ∀ f, first ≤ f → f ≤ N → ∀ x ∈ liveAt 0 (sp f),
    x.1 < imax ∧ f * imax + x.1 + 4 ≤ T (leDec (x.2.take 4))

abbrev IdxLog (m : Mem) (d : Disk) (first : Nat) (sp : Nat → List GSpan) : Prop :=
  IdxLogT m.bits m.imax m.ifileNum d.ifiles (tbl m) first sp

/-- reading the bucket at a live record gives the decoded body -/
theorem read_live {files : NMap Bytes} {imax f off : Nat} {ss : List GSpan} {body : Bytes}
    (hp : 1 ≤ imax) (hf : f < two32) (hfile : files.get? f = some (gbytes ss))
    (hx : (off, body) ∈ liveAt 0 ss) (hoff : off < imax) (hlen : body.length < two31) :
    readDiskBucket files imax (f * imax + off + 4) = .ok (some (decodeRL (body.drop 4)).1) := by
  obtain ⟨a, b, rfl, e⟩ := liveAt_split ss 0 off body hx
  simp only [Nat.zero_add] at e
  unfold readDiskBucket
  simp only [localizeIdx_eq hp hoff hf, hfile]
  rw [if_neg (by omega)]
  have efile : gbytes (a ++ (⟨false, body⟩ : GSpan) :: b) =
      gbytes a ++ ((⟨false, body⟩ : GSpan).bytes ++ gbytes b) := by
    rw [gbytes_append, gbytes_cons]
  have h1 := readU32_span (gbytes a) (⟨false, body⟩ : GSpan) (gbytes b) hlen
  have h2 := readAt_span_body (gbytes a) (⟨false, body⟩ : GSpan) (gbytes b)
  rw [efile, Nat.add_sub_cancel, e, h1]
  simp only [GSpan.raw, Bool.false_eq_true, if_false, Nat.add_zero]
  simp only at h2
  rw [h2]

theorem readDiskBucket_zero' (fs : NMap Bytes) (imax : Nat) : readDiskBucket fs imax 0 = .ok none :=
  readDiskBucket_zero fs imax

/-- a live record the table points at is busy -/
theorem busy_of_tbl {m : Mem} {f : Nat} {x : Nat × Bytes} (hp : 1 ≤ m.imax) (hf : f < two32)
    (hoff : x.1 < m.imax) (htag : leDec (x.2.take 4) < 2 ^ m.bits)
    (ht : tbl m (leDec (x.2.take 4)) = f * m.imax + x.1 + 4) : busyB m f x := by
  unfold busyB idxBusy
  rw [if_neg (by omega)]
  have : (m.buckets.get? (leDec (x.2.take 4))).getD 0 = f * m.imax + x.1 + 4 := ht
  simp only [this, localizeIdx_eq hp hoff hf]
  simp

section
variable {m : Mem} {d : Disk} {first : Nat} {sp : Nat → List GSpan}

theorem IdxLog.tag_lt (h : IdxLog m d first sp) {f : Nat} (h1 : first ≤ f) (h2 : f ≤ m.ifileNum)
    {x : Nat × Bytes} (hx : x ∈ liveAt 0 (sp f)) :
    leDec (x.2.take 4) < 2 ^ m.bits ∧ x.2.length < two31 := by
  obtain ⟨a, b, e, _⟩ := liveAt_split (sp f) 0 x.1 x.2 hx
  have := h.ok f h1 h2 ⟨false, x.2⟩ (by rw [e]; simp)
  exact ⟨this.2 rfl, this.1⟩

/-- what the table reads in the log -/
theorem IdxLog.read (h : IdxLog m d first sp) (hp : 1 ≤ m.imax) (hN : m.ifileNum < two32) (b : Nat) :
    (tbl m b = 0 ∧ readDiskBucket d.ifiles m.imax (tbl m b) = .ok none) ∨
    ∃ f off body, first ≤ f ∧ f ≤ m.ifileNum ∧ (off, body) ∈ liveAt 0 (sp f) ∧
      leDec (body.take 4) = b ∧ tbl m b = f * m.imax + off + 4 ∧
      readDiskBucket d.ifiles m.imax (tbl m b) = .ok (some (decodeRL (body.drop 4)).1) := by
  by_cases h0 : tbl m b = 0
  · left; exact ⟨h0, by rw [h0]; exact readDiskBucket_zero _ _⟩
  · right
    obtain ⟨f, off, body, h1, h2, h3, h4, h5⟩ := h.t1 b h0
    refine ⟨f, off, body, h1, h2, h3, h4, h5, ?_⟩
    rw [h5]
    exact read_live hp (by omega) (h.files f h1 h2) h3 (h.t2 f h1 h2 _ h3).1 (h.tag_lt h1 h2 h3).2

/-- one file is replaced by a reaped version of itself -/
theorem IdxLog.update (h : IdxLog m d first sp) (hp : 1 ≤ m.imax) (hN : m.ifileNum < two32)
    {n : Nat} (h1 : first ≤ n) (h2 : n ≤ m.ifileNum) {ss' : List GSpan}
    (hR : Reaped m n m.bits (sp n) ss') :
    IdxLog m { d with ifiles := d.ifiles.set n (gbytes ss') } first
      (fun f => if f = n then ss' else sp f) := by
  constructor
  · exact h.le
  · intro f hf
    show (d.ifiles.set n (gbytes ss')).get? f = none
    rw [NMap.get?_set_ne _ _ (by omega)]
    exact h.gone f hf
  · intro f hf1 hf2
    show (d.ifiles.set n (gbytes ss')).get? f = _
    by_cases hfn : f = n
    · rw [hfn, NMap.get?_set_eq]; simp
    · rw [NMap.get?_set_ne _ _ hfn, if_neg hfn]; exact h.files f hf1 hf2
  · intro f hf1 hf2 s hs
    by_cases hfn : f = n
    · simp only [hfn, if_true] at hs; exact hR.ok s hs
    · simp only [hfn, if_false] at hs; exact h.ok f hf1 hf2 s hs
  · intro b hb
    obtain ⟨f, off, body, g1, g2, g3, g4, g5⟩ := h.t1 b hb
    refine ⟨f, off, body, g1, g2, ?_, g4, g5⟩
    by_cases hfn : f = n
    · subst hfn
      simp only [if_true]
      apply hR.busy _ g3
      have ht := h.t2 f g1 g2 _ g3
      have hg := h.tag_lt g1 g2 g3
      exact busy_of_tbl hp (by omega) ht.1 hg.1 (by simp only; rw [g4]; exact g5)
    · simp only [hfn, if_false]; exact g3
  · intro f hf1 hf2 x hx
    by_cases hfn : f = n
    · subst hfn
      simp only [if_true] at hx
      exact h.t2 f hf1 hf2 x (hR.sub x hx)
    · simp only [hfn, if_false] at hx
      exact h.t2 f hf1 hf2 x hx

/-- the reads through the table do not notice -/
theorem IdxLog.read_eq {d' : Disk} {first' : Nat} {sp' : Nat → List GSpan}
    (h : IdxLog m d first sp) (h' : IdxLog m d' first' sp') (hp : 1 ≤ m.imax)
    (hN : m.ifileNum < two32)
    (hsame : ∀ f off body, first ≤ f → f ≤ m.ifileNum → (off, body) ∈ liveAt 0 (sp f) →
      tbl m (leDec (body.take 4)) = f * m.imax + off + 4 →
      first' ≤ f ∧ (off, body) ∈ liveAt 0 (sp' f)) (b : Nat) :
    readDiskBucket d'.ifiles m.imax (tbl m b) = readDiskBucket d.ifiles m.imax (tbl m b) := by
  rcases h.read hp hN b with ⟨h0, hr⟩ | ⟨f, off, body, g1, g2, g3, gt, g4, g5⟩
  · rw [h0]; rw [readDiskBucket_zero, readDiskBucket_zero]
  · rw [g5, g4]
    obtain ⟨k1, k2⟩ := hsame f off body g1 g2 g3 (by rw [gt]; exact g4)
    exact read_live hp (by omega) (h'.files f k1 g2) k2 (h.t2 f g1 g2 _ g3).1 (h.tag_lt g1 g2 g3).2

theorem NMap.get?_del_eq {α : Type} : ∀ (mm : NMap α) (k : Nat), NMap.get? (mm.del k) k = none
  | [], _ => rfl
  | (k', v) :: rest, k => by
    unfold NMap.del
    simp only [List.filter_cons]
    by_cases hk : k' = k
    · simp only [hk, ne_eq, not_true_eq_false, decide_false, Bool.false_eq_true, if_false]
      exact NMap.get?_del_eq rest k
    · simp only [ne_eq, hk, not_false_eq_true, decide_true, if_true]
      rw [NMap.get?_cons, if_neg hk]
      exact NMap.get?_del_eq rest k

theorem NMap.get?_del_ne {α : Type} (mm : NMap α) {k j : Nat} (h : j ≠ k) :
    NMap.get? (mm.del k) j = NMap.get? mm j := NMap.get?_filter_ne mm k j h

/-- the first file holds no record the table points at and is unlinked -/
theorem IdxLog.dropFirst (h : IdxLog m d first sp) (hlt : first < m.ifileNum)
    (hnb : ∀ f off body, first ≤ f → f ≤ m.ifileNum → (off, body) ∈ liveAt 0 (sp f) →
      tbl m (leDec (body.take 4)) = f * m.imax + off + 4 → f ≠ first) (hdr : Option IdxHeader) :
    IdxLog m { d with ihdr := hdr, ifiles := d.ifiles.del first } (first + 1) sp := by
  constructor
  · show first + 1 ≤ m.ifileNum; omega
  · intro f hf
    show (d.ifiles.del first).get? f = none
    by_cases hff : f = first
    · rw [hff]; exact NMap.get?_del_eq _ _
    · rw [NMap.get?_del_ne _ hff]; exact h.gone f (by omega)
  · intro f hf1 hf2
    show (d.ifiles.del first).get? f = _
    rw [NMap.get?_del_ne _ (by omega)]
    exact h.files f (by omega) hf2
  · intro f hf1 hf2
    exact h.ok f (by omega) hf2
  · intro b hb
    obtain ⟨f, off, body, g1, g2, g3, g4, g5⟩ := h.t1 b hb
    have := hnb f off body g1 g2 g3 (by rw [g4]; exact g5)
    exact ⟨f, off, body, by omega, g2, g3, g4, g5⟩
  · intro f hf1 hf2
    exact h.t2 f (by omega) hf2

end

end Sth
