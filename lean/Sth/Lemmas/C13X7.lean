import Sth.Lemmas.C13X6

/-!
C13 along GC histories, exactly once: the hand-over pass.  Core Lean only.
-/

namespace Sth.C13X

open Sth.C11 Sth.C13H

section
variable {c : Cfg} {U : List (Bytes × Bytes)} {cfg : Cfg} {m : Mem} {d : Disk} {spec : Spec}
  {n B pf : Nat} {psp : Nat → List GSpan}

/-- FreeList.ToGC moves what is recorded, it neither drops nor duplicates anything -/
theorem toGC_rel (hS : HState c U cfg m d spec n B pf psp) (hnd : (recordedG ⟨cfg, m, d⟩).Nodup) :
    Rel cfg m d (toGC m d).1 (toGC m d).2 := by
  have hperm : (recordedG ⟨cfg, (toGC m d).1, (toGC m d).2⟩).Perm (recordedG ⟨cfg, m, d⟩) := by
    cases hgc : d.freeGc with
    | some x => rw [toGC_some hgc]
    | none =>
      obtain ⟨t1, t2, _⟩ := toGC_none (m := m) hgc
      have a1 : flEntries (toGC m d).2 = [] := by
        unfold flEntries; rw [t2]; simp [parseFreeList]
      have a2 := handover_entries hS.gs.fl hgc
      have a3 : flGcEntries d = [] := flGcEntries_none hgc
      apply List.Perm.of_eq
      unfold recordedG
      simp only
      rw [a1, a2, t1, a3]
      simp
  obtain ⟨fl, fr, g, e0⟩ := toGC_shape m d
  rw [e0] at hperm ⊢
  exact rel_frame hnd (fun _ h => h) (fun _ => rfl) hperm

/-- the primary flush records nothing and drops nothing -/
theorem priFlush_rel (hU : Univ c.kind U) (hS : HState c U cfg m d spec n B pf psp)
    (hnd : (recordedG ⟨cfg, m, d⟩).Nodup) (hn : n < 1073741824) {m1 : Mem} {d1 : Disk}
    (p1 : priFlush m d = some (m1, d1)) : Rel cfg m d m1 d1 := by
  obtain ⟨m1', d1', _, p1', _, _, _, q3, _, _, q7, q8, _, _, _, q11⟩ := priFlush_h hU hS hn
  rw [p1] at p1'
  simp only [Option.some.injEq, Prod.mk.injEq] at p1'
  obtain ⟨rfl, rfl⟩ := p1'
  exact rel_frame hnd (fun blk hb => (priFlush_below hS.gs.g.kind p1 blk).mpr hb) q11
    (List.Perm.of_eq (recordedG_congr q7 q8 q3))

/-- a change of the primary files only -/
theorem pfiles_rel {files : NMap Bytes} (hnd : (recordedG ⟨cfg, m, d⟩).Nodup) :
    Rel cfg m d m { d with pfiles := files } :=
  rel_frame hnd (fun _ h => h) (fun _ => rfl) (List.Perm.of_eq (recordedG_congr rfl rfl rfl))

/-- dropping the hand-over file: what it held is no longer recorded (it has been consumed) -/
theorem dropGc_rel (hnd : (recordedG ⟨cfg, m, d⟩).Nodup) :
    Rel cfg m d m { d with freeGc := none } := by
  have a : flGcEntries ({ d with freeGc := none } : Disk) = [] := flGcEntries_none rfl
  have hrec : recordedG ⟨cfg, m, { d with freeGc := none }⟩ = flEntries d ++ [] ++ m.flpool := by
    unfold recordedG
    simp only
    rw [a]
    rfl
  refine ⟨fun _ h => h, fun _ h => Or.inl h, ?_, ?_⟩
  · intro b hb
    left
    rw [hrec] at hb
    rw [mem_recordedG]
    simp only [List.append_nil, List.mem_append] at hb
    rcases hb with h | h
    · exact Or.inl h
    · exact Or.inr (Or.inr h)
  · rw [hrec]
    unfold recordedG at hnd
    simp only at hnd
    refine hnd.sublist ?_
    exact List.Sublist.append (List.Sublist.append (List.Sublist.refl _) (List.nil_sublist _))
      (List.Sublist.refl _)

/-- one hand-over pass, any outcome -/
theorem freelistPass_rel (hU : Univ c.kind U) (hS : HState c U cfg m d spec n B pf psp)
    (hnd : (recordedG ⟨cfg, m, d⟩).Nodup) (hn : n < 1073741824) (budget : Budget) :
    (freelistPass m d budget).1 = .flushErr ∨
      Rel cfg m d (freelistPass m d budget).2.1 (freelistPass m d budget).2.2.1 := by
  have hS0 := toGC_h hS
  have hR0 := toGC_rel hS hnd
  unfold freelistPass
  cases htg : toGC m d with
  | mk m0 d0 =>
  rw [htg] at hS0 hR0
  simp only at hS0 hR0 ⊢
  obtain ⟨m1, d1, psp1, p1, hS1, hpn, _⟩ := priFlush_h hU hS0 hn
  have hR1 := hR0.trans (priFlush_rel hU hS0 hR0.nodup hn p1)
  rw [p1]
  simp only
  cases hparse : parseFreeList ((d1.freeGc.getD []).length + 1) (d1.freeGc.getD []) [] with
  | mk batch complete =>
  simp only
  generalize (if List.isEmpty (d1.freeGc.getD []) = true then (false, budget)
    else freelistPass.pollN batch.length budget) = pr1
  obtain ⟨e1, b1⟩ := pr1
  generalize (if List.isEmpty (d1.freeGc.getD []) = true then (false, (e1, b1).snd)
    else poll (e1, b1).snd) = pr2
  obtain ⟨e2, b2⟩ := pr2
  generalize (if batch.isEmpty = true then (d1.pfiles, ([] : List Nat))
        else deleteRecords m1.pmax d1.pfiles batch) = dr
  obtain ⟨files, affected⟩ := dr
  have hR2 : Rel cfg m d m1 { d1 with pfiles := files } := hR1.trans (pfiles_rel hR1.nodup)
  have hR3 : Rel cfg m d m1 { ({ d1 with pfiles := files } : Disk) with freeGc := none } :=
    hR2.trans (dropGc_rel hR2.nodup)
  cases e1
  · cases e2
    · simp only [Bool.false_eq_true, if_false]
      split
      · exact Or.inr hR2
      · exact Or.inr hR3
    · simp only [Bool.false_eq_true, if_false, if_true]
      exact Or.inr hR2
  · simp only [if_true]
    exact Or.inr hR1

end

end Sth.C13X
