/-
Lexicographic order / prefix lemmas on byte strings (helper lemmas for C08 and the store refinement).
Core Lean only.
-/
import Sth.Model.Bytes

namespace Sth

theorem klt_irrefl : ∀ a, ¬ klt a a
  | [] => by simp [klt]
  | x :: xs => by simp [klt]; exact klt_irrefl xs

theorem klt_trans : ∀ {a b c}, klt a b → klt b c → klt a c
  | [], [], _ => by simp [klt]
  | [], _ :: _, [] => by simp [klt]
  | [], _ :: _, _ :: _ => by simp [klt]
  | _ :: _, [], _ => by simp [klt]
  | _ :: _, _ :: _, [] => by simp [klt]
  | a :: as, b :: bs, c :: cs => by
    simp only [klt]
    intro h1 h2
    rcases h1 with h1 | ⟨h1, h1'⟩ <;> rcases h2 with h2 | ⟨h2, h2'⟩
    · left; omega
    · left; omega
    · left; omega
    · right; exact ⟨by omega, klt_trans h1' h2'⟩

/-- trichotomy-ish: not k < p and p not a prefix of k  ⇒  p < k, apart, and they differ at fncb -/
theorem lt_of_not_gt_not_pfx : ∀ {p k : Key}, ¬ klt k p → ¬ pfx p k → klt p k ∧ ¬ pfx k p
  | [], k => by simp [pfx]
  | _ :: _, [] => by simp [klt]
  | a :: as, b :: bs => by
    simp only [klt, pfx]
    intro h1 h2
    by_cases hab : a = b
    · subst hab
      have h1' : ¬ klt bs as := fun h => h1 (Or.inr ⟨rfl, h⟩)
      have h2' : ¬ pfx as bs := fun h => h2 ⟨rfl, h⟩
      have := lt_of_not_gt_not_pfx h1' h2'
      exact ⟨Or.inr ⟨rfl, this.1⟩, fun h => this.2 h.2⟩
    · have : a < b := by
        rcases Nat.lt_trichotomy a b with h | h | h
        · exact h
        · exact absurd h hab
        · exact absurd (Or.inl h) h1
      exact ⟨Or.inl this, fun h => hab h.1.symm⟩

/-- k.take (n+1) where n ≥ fncb k p keeps k's relation to an apart p on the left -/
theorem take_gt_left : ∀ {p k : Key} (n : Nat), klt p k → ¬ pfx p k → fncb k p ≤ n →
    klt p (k.take (n+1)) ∧ apart p (k.take (n+1))
  | [], k, n => by simp [pfx]
  | _ :: _, [], n => by simp [klt]
  | a :: as, b :: bs, n => by
    simp only [klt, pfx, fncb, List.take_succ_cons, apart]
    intro h1 h2 h3
    rcases h1 with h1 | ⟨h1, h1'⟩
    · refine ⟨Or.inl h1, ?_, ?_⟩ <;> intro h <;> omega
    · subst h1
      simp at h3
      have h2' : ¬ pfx as bs := fun h => h2 ⟨rfl, h⟩
      obtain ⟨m, rfl⟩ : ∃ m, n = m + 1 := ⟨n - 1, by omega⟩
      have := take_gt_left m h1' h2' (by omega)
      refine ⟨Or.inr ⟨rfl, this.1⟩, ?_, ?_⟩
      · intro h; exact this.2.1 h.2
      · intro h; exact this.2.2 h.2

theorem take_lt_right : ∀ {k q : Key} (n : Nat), klt k q → ¬ pfx k q → fncb k q ≤ n →
    klt (k.take (n+1)) q ∧ apart (k.take (n+1)) q
  | [], q, n => by simp [pfx]
  | _ :: _, [], n => by simp [klt]
  | a :: as, b :: bs, n => by
    simp only [klt, pfx, fncb, List.take_succ_cons, apart]
    intro h1 h2 h3
    rcases h1 with h1 | ⟨h1, h1'⟩
    · refine ⟨Or.inl h1, ?_, ?_⟩ <;> intro h <;> omega
    · subst h1
      simp at h3
      have h2' : ¬ pfx as bs := fun h => h2 ⟨rfl, h⟩
      obtain ⟨m, rfl⟩ : ∃ m, n = m + 1 := ⟨n - 1, by omega⟩
      have := take_lt_right m h1' h2' (by omega)
      refine ⟨Or.inr ⟨rfl, this.1⟩, ?_, ?_⟩
      · intro h; exact this.2.1 h.2
      · intro h; exact this.2.2 h.2

theorem apart_symm {a b : Key} : apart a b → apart b a := fun h => ⟨h.2, h.1⟩

/-- q < p, apart q p, p < t ⇒ q not prefix of t (and t not prefix of q follows from order) -/
theorem not_pfx_left : ∀ {q p t : Key}, klt q p → apart q p → klt p t → ¬ pfx q t
  | [], p, t => by intro _ h; simp [apart, pfx] at h
  | _ :: _, [], _ => by simp [klt]
  | _ :: _, _ :: _, [] => by simp [klt]
  | a :: as, b :: bs, c :: cs => by
    simp only [klt, apart, pfx]
    intro h1 h2 h3 h4
    rcases h1 with h1 | ⟨h1, h1'⟩ <;> rcases h3 with h3 | ⟨h3, h3'⟩
    · omega
    · omega
    · omega
    · subst h1; subst h3
      have hap : apart as bs := ⟨fun h => h2.1 ⟨rfl, h⟩, fun h => h2.2 ⟨rfl, h⟩⟩
      exact not_pfx_left h1' hap h3' h4.2

theorem pfx_not_gt : ∀ {a b : Key}, pfx a b → ¬ klt b a
  | [], b => by cases b <;> simp [klt]
  | _ :: _, [] => by simp [pfx]
  | a :: as, b :: bs => by
    simp only [pfx, klt]
    rintro ⟨rfl, h⟩ (h' | ⟨_, h'⟩)
    · omega
    · exact pfx_not_gt h h'

/-- far-left element q: q < p < t, apart q p  ⇒ apart q t -/
theorem apart_far_left {q p t : Key} (h1 : klt q p) (h2 : apart q p) (h3 : klt p t) : apart q t :=
  ⟨not_pfx_left h1 h2 h3, fun h => pfx_not_gt h (klt_trans h1 h3)⟩

/-- t < n < q, t not prefix-related to n ⇒ t not a prefix of q -/
theorem not_pfx_right : ∀ {t n q : Key}, klt t n → apart t n → klt n q → ¬ pfx t q
  | [], n, q => by intro _ h; simp [apart, pfx] at h
  | _ :: _, [], _ => by simp [klt]
  | _ :: _, _ :: _, [] => by simp [klt]
  | a :: as, b :: bs, c :: cs => by
    simp only [klt, apart, pfx]
    intro h1 h2 h3 h4
    rcases h1 with h1 | ⟨h1, h1'⟩ <;> rcases h3 with h3 | ⟨h3, h3'⟩
    · omega
    · omega
    · omega
    · subst h1; subst h3
      have hap : apart as bs := ⟨fun h => h2.1 ⟨rfl, h⟩, fun h => h2.2 ⟨rfl, h⟩⟩
      exact not_pfx_right h1' hap h3' h4.2

theorem apart_far_right {t n q : Key} (h1 : klt t n) (h2 : apart t n) (h3 : klt n q) : apart t q :=
  ⟨not_pfx_right h1 h2 h3, fun h => pfx_not_gt h (klt_trans h1 h3)⟩

/-- the list-level insertion lemma -/
theorem insert_ok (les gts : List Key) (t : Key)
    (hs : (les ++ gts).Pairwise klt) (hp : (les ++ gts).Pairwise apart)
    (hl : ∀ p, les.getLast? = some p → klt p t ∧ apart p t)
    (hr : ∀ n, gts.head? = some n → klt t n ∧ apart t n) :
    (les ++ t :: gts).Pairwise klt ∧ (les ++ t :: gts).Pairwise apart := by
  rw [List.pairwise_append] at hs hp ⊢
  rw [List.pairwise_append]
  obtain ⟨hs1, hs2, hs3⟩ := hs
  obtain ⟨hp1, hp2, hp3⟩ := hp
  -- everything in les is < t and apart from t
  have left : ∀ x ∈ les, klt x t ∧ apart x t := by
    intro x hx
    rcases List.eq_nil_or_concat les with h | ⟨l', p, rfl⟩
    · subst h; simp at hx
    · have hlast := hl p (by simp)
      simp only [List.concat_eq_append, List.mem_append, List.mem_singleton] at hx
      rcases hx with hx | rfl
      · have hxp : klt x p := by
          rw [List.concat_eq_append, List.pairwise_append] at hs1
          exact hs1.2.2 x hx p (by simp)
        have hxa : apart x p := by
          rw [List.concat_eq_append, List.pairwise_append] at hp1
          exact hp1.2.2 x hx p (by simp)
        exact ⟨klt_trans hxp hlast.1, apart_far_left hxp hxa hlast.1⟩
      · exact hlast
  have right : ∀ y ∈ gts, klt t y ∧ apart t y := by
    intro y hy
    cases gts with
    | nil => simp at hy
    | cons n rest =>
      have hhead := hr n rfl
      simp only [List.mem_cons] at hy
      rcases hy with rfl | hy
      · exact hhead
      · have hny : klt n y := (List.pairwise_cons.mp hs2).1 y hy
        exact ⟨klt_trans hhead.1 hny, apart_far_right hhead.1 hhead.2 hny⟩
  refine ⟨⟨hs1, ?_, ?_⟩, ⟨hp1, ?_, ?_⟩⟩
  · exact List.pairwise_cons.mpr ⟨fun y hy => (right y hy).1, hs2⟩
  · intro x hx y hy
    simp only [List.mem_cons] at hy
    rcases hy with rfl | hy
    · exact (left x hx).1
    · exact hs3 x hx y hy
  · exact List.pairwise_cons.mpr ⟨fun y hy => (right y hy).2, hp2⟩
  · intro x hx y hy
    simp only [List.mem_cons] at hy
    rcases hy with rfl | hy
    · exact (left x hx).2
    · exact hp3 x hx y hy

end Sth
