/-
C04 — the invariant of the multihash store with both collectors in the picture, and the facts about
index entries it yields: they lie below the allocator, distinct entries have distinct offsets.
Core Lean only.
-/
import Sth.Lemmas.C04PDisk

namespace Sth

structure GInv (c : Cfg) (U : List (Bytes × Bytes)) (s : SState) (spec : Spec) (n B : Nat) : Prop where
  kmh : c.kind = .mh
  kind : s.m.kind = .mh
  imm : s.m.imm = c.imm
  bits8 : 8 ≤ s.m.bits
  bits31 : s.m.bits ≤ 31
  a : SInv U s.m s.d spec
  pmax1 : 1 ≤ s.m.pmax
  pmaxle : s.m.pmax ≤ 1073741824
  recs : ∀ r ∈ s.m.pnext, RecOK .mh r
  nextBelow : ∀ r ∈ s.m.pnext, Below s.m r.blk
  alloc : allocMh s.m.pmax s.m.pfileNum s.m.plength s.m.pnext s.m.precFileNum s.m.precPos
  plen : (fileOf s.d.pfiles s.m.pfileNum).length = s.m.plength
  pno : ∀ f, s.m.pfileNum < f → s.d.pfiles.get? f = none
  i : IInv s.m s.d
  cntF : s.m.precFileNum ≤ n
  cntI : s.m.ifileNum + s.m.inext.length ≤ n
  nodup : (spec.map (·.1)).Nodup
  w : specW spec ≤ B
  y : YInv c s
  z : ZInv s.m s.d

section
variable {kind : PKind} {bits : Nat} {U : List (Bytes × Bytes)} {m : Mem} {d : Disk} {spec : Spec}

theorem ent_blockOK (hA : SInv U m d spec) {b : Nat} {rl : RecordList} {e : Entry}
    (hr : idxRecords m d b = .ok (some rl)) (he : e ∈ rl) :
    BlockOK m.kind m.bits U (priGet m d) (Below m) spec b e.blk ∧
      OInv (ownOf m.kind m.bits (priGet m d)) rl := by
  obtain ⟨orl, h1, h2, h3⟩ := hA.recs b
  rw [hr] at h1
  cases h1
  exact ⟨h3 e he, h2⟩

theorem ent_below (hA : SInv U m d spec) {blk : Block} (h : IsEnt m d blk) : Below m blk := by
  obtain ⟨b, rl, e, hr, he, rfl⟩ := h
  exact (ent_blockOK hA hr he).1.below

/-- `Below` only looks at the offset -/
theorem below_of_off {blk blk' : Block} (h : blk'.off = blk.off) (hb : Below m blk) : Below m blk' := by
  unfold Below at hb ⊢
  rw [h]; exact hb

/-- a pooled record lies beyond every record span of the files -/
theorem pnext_off_gt {pf : Nat} {psp : Nat → List GSpan} (_hk : m.kind = .mh) (hp : 1 ≤ m.pmax)
    (hl : PriLog m d pf psp)
    (halloc : allocMh m.pmax m.pfileNum m.plength m.pnext m.precFileNum m.precPos)
    (hplen : (fileOf d.pfiles m.pfileNum).length = m.plength)
    {r : PRec} (hr : r ∈ m.pnext) {f lp : Nat} {body : Bytes} (h1 : pf ≤ f) (h2 : f ≤ m.pfileNum)
    (hx : (lp, body) ∈ liveAt 0 (psp f)) : m.pmax * f + lp < r.blk.off := by
  have hlow := (allocMh_offsets hp halloc).1 r hr
  have hlp := hl.starts f h1 h2 _ hx
  simp only at hlp
  by_cases hf : f = m.pfileNum
  · subst hf
    have hb := (liveAt_bound hx).2
    have hlen : (gbytes (psp m.pfileNum)).length = m.plength := by
      rw [← hplen, fileOf_some (hl.files _ h1 h2)]
    rw [hlen] at hb
    split at hlow <;> omega
  · have : m.pmax * (f + 1) ≤ m.pmax * m.pfileNum := Nat.mul_le_mul_left _ (by omega)
    rw [Nat.mul_add] at this
    split at hlow <;> omega

/-- two index entries with the same offset are the same entry -/
theorem ent_off_unique {pf : Nat} {psp : Nat → List GSpan} (hU : Univ m.kind U)
    (hk : m.kind = .mh) (h31 : m.bits ≤ 31) (hp : 1 ≤ m.pmax)
    (hA : SInv U m d spec) (hl : PriLog m d pf psp) (he : EntOK m d pf psp)
    (halloc : allocMh m.pmax m.pfileNum m.plength m.pnext m.precFileNum m.precPos)
    (hplen : (fileOf d.pfiles m.pfileNum).length = m.plength)
    {b1 b2 : Nat} {rl1 rl2 : RecordList} {e1 e2 : Entry}
    (hr1 : idxRecords m d b1 = .ok (some rl1)) (hm1 : e1 ∈ rl1)
    (hr2 : idxRecords m d b2 = .ok (some rl2)) (hm2 : e2 ∈ rl2)
    (hoff : e1.blk.off = e2.blk.off) : b1 = b2 ∧ e1 = e2 := by
  obtain ⟨hB1, ho1⟩ := ent_blockOK hA hr1 hm1
  obtain ⟨hB2, ho2⟩ := ent_blockOK hA hr2 hm2
  obtain ⟨k1, v1, g1, bk1⟩ := he e1.blk ⟨b1, rl1, e1, hr1, hm1, rfl⟩
  obtain ⟨k2, v2, g2, bk2⟩ := he e2.blk ⟨b2, rl2, e2, hr2, hm2, rfl⟩
  obtain ⟨k1', v1', d1, a1, a2, a3, a4, a5⟩ := hB1.own hU h31
  obtain ⟨k2', v2', d2, c1, c2, c3, c4, c5⟩ := hB2.own hU h31
  rw [g1] at a1; cases a1
  rw [g2] at c1; cases c1
  -- the two blocks are the same block with the same key
  have hsame : e1.blk = e2.blk ∧ k1 = k2 := by
    rcases bk1 with ⟨r1, hr1', x1, x2, x3⟩ | ⟨f1, lp1, y1, y2, y3, y4, y5⟩
    · rcases bk2 with ⟨r2, hr2', z1, z2, z3⟩ | ⟨f2, lp2, w1, w2, w3, w4, w5⟩
      · -- both pooled: distinct pooled records have distinct offsets
        have hpw := (allocMh_offsets hp halloc).2
        have : r1 = r2 := by
          have hoff' : r1.blk.off = r2.blk.off := by rw [x1, z1]; exact hoff
          clear x1 x2 x3 z1 z2 z3
          generalize m.pnext = l at hr1' hr2' hpw
          induction l with
          | nil => cases hr1'
          | cons x l ih =>
            simp only [List.map_cons, List.pairwise_cons] at hpw
            simp only [List.mem_cons] at hr1' hr2'
            rcases hr1' with rfl | h1 <;> rcases hr2' with rfl | h2
            · rfl
            · have := hpw.1 _ (List.mem_map_of_mem h2); omega
            · have := hpw.1 _ (List.mem_map_of_mem h1); omega
            · exact ih h1 h2 hpw.2
        subst this
        exact ⟨by rw [← x1, ← z1], by rw [← x2, ← z2]⟩
      · exfalso
        have := pnext_off_gt hk hp hl halloc hplen hr1' w2 w3 w4
        rw [x1, hoff, w1] at this
        omega
    · rcases bk2 with ⟨r2, hr2', z1, z2, z3⟩ | ⟨f2, lp2, w1, w2, w3, w4, w5⟩
      · exfalso
        have := pnext_off_gt hk hp hl halloc hplen hr2' y2 y3 y4
        rw [z1, ← hoff, y1] at this
        omega
      · have hl1 := hl.starts f1 y2 y3 _ y4
        have hl2 := hl.starts f2 w2 w3 _ w4
        simp only at hl1 hl2
        obtain ⟨rfl, rfl⟩ := divmod_unique (by rw [← y1, ← w1]; exact hoff) hl1 hl2
        have hbody := liveAt_off_unique y4 w4
        -- the record parses as either key
        have p1 := readNode_append m.kind k1 v1 (hU.exact _ a2)
        have p2 := readNode_append m.kind k2 v2 (hU.exact _ c2)
        rw [hbody, p2] at p1
        simp only [Option.some.injEq, Prod.mk.injEq] at p1
        refine ⟨?_, p1.1.symm⟩
        have hsz : e1.blk.size = e2.blk.size := by rw [y5, w5, hbody]
        cases h1 : e1.blk; cases h2 : e2.blk
        rw [h1, h2] at hoff hsz
        simp only at hoff hsz
        rw [hoff, hsz]
  obtain ⟨hblk, hkey⟩ := hsame
  subst hkey
  have hd : d1 = d2 := by
    have x := (hU.dig a2).1
    have y := (hU.dig c2).1
    rw [x] at y; cases y; rfl
  subst hd
  rw [a3] at c3
  cases c3
  rw [hr1] at hr2
  cases hr2
  rw [hblk] at a5
  exact ⟨rfl, ho1.owner_unique hm1 hm2 (by rw [hblk]; exact a5) c5⟩

end

end Sth
