/-
C07 — the state invariant behind the consistency check.

`PlInv` (every block the index or the freelist names is either still in the primary's write pool or sits
on disk at its location), `TagInv` (Sth/Lemmas/C07Flush.lean), and their preservation by the calls of
C02 (Put / Get / Has / GetSize / Remove / Flush / iteration / Close+reopen); the freelist invariant of
C13 carried through a reopen; `CInv`, the conjunction with the invariants of C01 / C02 / C13 and with
the semantic consistency `DiskOK` of the disk against the live table; and the fact that makes `DiskOK`
re-derivable after every write to the disk: in a quiesced state (both write pools empty) the other
invariants imply it.
Core Lean only.
-/
import Sth.Lemmas.C07Flush

namespace Sth

/-! ### reading a quiesced primary -/

theorem priGet_quiesced {m : Mem} {d : Disk} (hP : PInv m d) (hn : m.pnext = []) {blk : Block}
    {k v : Bytes} (h : priGet m d blk = .got k v) : diskRead m.kind m.pmax d blk = .got k v := by
  rw [priGet_eq, hn] at h
  have e0 : poolFind ([] : List PRec) blk = none := rfl
  simp only [e0] at h
  cases h2 : poolFind m.pcur blk with
  | some r =>
    rw [h2] at h
    simp only at h
    obtain ⟨hr1, hr2⟩ := poolFind_some h2
    obtain ⟨c1, _⟩ := hP.curDisk r hr1
    rw [hr2] at c1
    rw [← h]; exact c1
  | none =>
    rw [h2] at h
    simp only at h
    unfold priDisk at h
    split at h
    · exact h
    · cases h

theorem RecAt.congr {kind : PKind} {pmax pfirst : Nat} {d d' : Disk} {blk : Block} {k v : Bytes}
    (h : RecAt kind pmax pfirst d blk k v) (h1 : d'.pfiles = d.pfiles) (h2 : d'.cidfile = d.cidfile) :
    RecAt kind pmax pfirst d' blk k v := by
  unfold RecAt at h ⊢
  rw [h1, h2]
  exact h

/-! ### placement of the blocks the index and the freelist name -/

/-- the record a block names is still in the primary's write pool, or sits on disk at its location -/
def Placed (m : Mem) (d : Disk) (blk : Block) : Prop :=
  (∃ r ∈ m.pnext, r.blk = blk) ∨ ∃ k v, RecAt m.kind m.pmax 0 d blk k v

theorem placed_putMem {m : Mem} {d : Disk} {blk : Block} (key val : Bytes) (h : Placed m d blk) :
    Placed (putMem m key val) d blk := by
  rcases h with ⟨r, hr, he⟩ | ⟨k, v, h⟩
  · left
    exact ⟨r, by rw [putMem_pnext]; simp [hr], he⟩
  · right
    rw [putMem_kind, putMem_pmax]
    exact ⟨k, v, h⟩

theorem placed_putMem_new (m : Mem) (d : Disk) (key val : Bytes) :
    Placed (putMem m key val) d (nextBlk m (key.length + val.length)) := by
  left
  exact ⟨⟨nextBlk m (key.length + val.length), key, val⟩, by rw [putMem_pnext]; simp, rfl⟩

theorem placed_setNext (m : Mem) (d : Disk) (b : Nat) (rl : RecordList) :
    Placed (setNext m b rl) d = Placed m d := rfl
theorem placed_addFree (m : Mem) (d : Disk) (blk : Block) : Placed (addFree m blk) d = Placed m d := rfl

structure PlInv (s : SState) : Prop where
  /-- every block an index entry (pools first, then disk) names -/
  cur : ∀ bkt rl, idxRecords s.m s.d bkt = .ok (some rl) → ∀ e ∈ rl, Placed s.m s.d e.blk
  /-- every block recorded on the freelist (file and pool) -/
  fl : ∀ blk ∈ recorded s, Placed s.m s.d blk

/-- a call that only changes the memory state and appends `Δ` to the freelist pool -/
theorem PlInv.update {s : SState} (h : PlInv s) {m' : Mem} (Δ : List Block)
    (hfl : m'.flpool = s.m.flpool ++ Δ)
    (hpl : ∀ blk, Placed s.m s.d blk → Placed m' s.d blk)
    (hΔ : ∀ b ∈ Δ, Placed m' s.d b)
    (hcur : ∀ bkt rl, idxRecords m' s.d bkt = .ok (some rl) → ∀ e ∈ rl, Placed m' s.d e.blk) :
    PlInv { s with m := m' } := by
  refine ⟨hcur, ?_⟩
  intro blk hb
  have hrec : recorded { s with m := m' } = recorded s ++ Δ := by
    unfold recorded
    simp only [hfl, List.append_assoc]
  rw [hrec, List.mem_append] at hb
  rcases hb with hb | hb
  · exact hpl blk (h.fl blk hb)
  · exact hΔ blk hb

section
variable {c : Cfg} {U : List (Bytes × Bytes)} {s : SState} {spec : Spec} {n B : Nat}

theorem pstep_put (hU : Univ c.kind U) (hI : Inv c U s spec n B) (hP : PlInv s) (k v : Bytes)
    (hkey : ∀ dig, keyClass c.kind k = .ok dig → (k, dig) ∈ U)
    (hn : n + 1 < 1073741824) (hB : B + (k.length + v.length + 17) < two31) :
    PlInv (stepS s (.put k v)).1 := by
  have hU' : Univ s.m.kind U := by rw [hI.kind]; exact hU
  cases hcls : keyClass c.kind k with
  | error e =>
    have := storePut_bad (m := s.m) (d := s.d) (k := k) (v := v) (e := e) (by rw [hI.kind]; exact hcls)
    simp only [stepS, this]
    exact hP
  | ok dig =>
    have hk := hkey dig hcls
    have hpre := putPre_of_inv hI (key := k) (val := v) hn hB
    cases hs : Spec.get spec dig with
    | none =>
      obtain ⟨b, orl, rl, h1, h2, h3⟩ := storePut_absent_shape hU' hI.bits8 hI.bits31 hI.a hpre hk hs
      simp only [stepS, h1]
      apply hP.update [] (by simp [setNext, putMem_flpool])
      · intro blk hb
        rw [placed_setNext]; exact placed_putMem k v hb
      · simp
      · intro bkt rl0 hr e he
        rw [placed_setNext]
        rw [idxRecords_setNext', idxRecords_putMem] at hr
        by_cases hb : bkt = b
        · subst hb
          rw [if_pos rfl] at hr
          cases hr
          rcases h3 e he with h | ⟨e0, he0, heq⟩
          · rw [h]; exact placed_putMem_new _ _ _ _
          · cases orl with
            | none => simp at he0
            | some rl1 =>
              rw [← heq]
              exact placed_putMem k v (hP.cur bkt rl1 h2 e0 he0)
        · rw [if_neg hb] at hr
          exact placed_putMem k v (hP.cur bkt rl0 hr e he)
    | some kv =>
      obtain ⟨key0, old⟩ := kv
      obtain ⟨p1, p2, _⟩ := storePut_present (val := v) hU' hI.bits31 hI.a hk hs
      by_cases himm : s.m.imm = true
      · simp only [stepS, p1 himm]
        exact hP
      · have himm0 : s.m.imm = false := by simpa using himm
        by_cases hv : v = old
        · subst hv
          simp only [stepS, p2 himm0 rfl]
          exact hP
        · obtain ⟨b, pre, e, post, h1, hc⟩ :=
            storePut_update_shape hU' hI.bits31 hI.a hk hs himm0 hv hpre
          have he : e ∈ pre ++ e :: post := by simp
          simp only [stepS, h1]
          apply hP.update [e.blk] (by simp [addFree, setNext, putMem_flpool])
          · intro blk hb
            rw [placed_addFree, placed_setNext]; exact placed_putMem k v hb
          · intro x hx
            simp only [List.mem_singleton] at hx
            subst hx
            rw [placed_addFree, placed_setNext]
            exact placed_putMem k v (hP.cur b _ hc.recs e he)
          · intro bkt rl0 hr x hx
            rw [placed_addFree, placed_setNext]
            rw [idxRecords_addFree, idxRecords_setNext', idxRecords_putMem] at hr
            by_cases hb : bkt = b
            · subst hb
              rw [if_pos rfl] at hr
              cases hr
              have hold : ∀ y ∈ pre ++ e :: post, Placed (putMem s.m k v) s.d y.blk :=
                fun y hy => placed_putMem k v (hP.cur bkt _ hc.recs y hy)
              simp only [List.mem_append, List.mem_cons] at hx
              rcases hx with hx | rfl | hx
              · exact hold x (by simp [hx])
              · exact placed_putMem_new _ _ _ _
              · exact hold x (by simp [hx])
            · rw [if_neg hb] at hr
              exact placed_putMem k v (hP.cur bkt rl0 hr x hx)

theorem pstep_rm (hU : Univ c.kind U) (hI : Inv c U s spec n B) (hP : PlInv s) (k : Bytes)
    (hkey : ∀ dig, keyClass c.kind k = .ok dig → (k, dig) ∈ U) :
    PlInv (stepS s (.rm k)).1 := by
  have hU' : Univ s.m.kind U := by rw [hI.kind]; exact hU
  cases hcls : keyClass c.kind k with
  | error e =>
    have := storeRemove_bad (m := s.m) (d := s.d) (k := k) (e := e) (by rw [hI.kind]; exact hcls)
    simp only [stepS, this]
    exact hP
  | ok dig =>
    have hk := hkey dig hcls
    cases hs : Spec.get spec dig with
    | none =>
      have r1 := (storeRemove_ok hU' hI.bits31 hI.a hk).1 hs
      simp only [stepS, r1]
      exact hP
    | some kv =>
      obtain ⟨key0, old⟩ := kv
      obtain ⟨b, pre, e, post, h1, hc⟩ := storeRemove_shape hU' hI.bits31 hI.a hk hs
      have he : e ∈ pre ++ e :: post := by simp
      simp only [stepS, h1]
      apply hP.update [e.blk] (by simp [addFree, setNext])
      · intro blk hb
        rw [placed_addFree, placed_setNext]; exact hb
      · intro x hx
        simp only [List.mem_singleton] at hx
        subst hx
        rw [placed_addFree, placed_setNext]
        exact hP.cur b _ hc.recs e he
      · intro bkt rl0 hr x hx
        rw [placed_addFree, placed_setNext]
        rw [idxRecords_addFree, idxRecords_setNext'] at hr
        by_cases hb : bkt = b
        · subst hb
          rw [if_pos rfl] at hr
          cases hr
          apply hP.cur bkt _ hc.recs x
          simp only [List.mem_append, List.mem_cons] at hx ⊢
          rcases hx with hx | hx
          · exact Or.inl hx
          · exact Or.inr (Or.inr hx)
        · rw [if_neg hb] at hr
          exact hP.cur bkt rl0 hr x hx

end


/-! ### the two flushes of Store.Flush / Store.Close -/

section
variable {c : Cfg} {U : List (Bytes × Bytes)} {s : SState} {spec : Spec} {n B : Nat}

/-- flushing the primary and then the index: the table keeps pointing at tagged record lists, every
    placed block is now on disk, and nothing else moves -/
theorem flushBoth_c07_core (hU : Univ c.kind U) (hI : Inv c U s spec n B)
    (hlt : ∀ b rl, s.m.inext.get? b = some rl → b < 2 ^ s.m.bits)
    (hn : n < 1073741824) (hB : B < two31) (order : List Nat) {m1 m2 : Mem} {d1 d2 : Disk}
    (p1 : priFlush s.m s.d = some (m1, d1))
    (i1 : idxFlush m1 d1 (fixOrder order s.m.inext.keys) = (m2, d2)) (hT : TagInv s.m s.d) :
    TagInv m2 d2 ∧
      (∀ blk, Placed s.m s.d blk → ∃ k v, RecAt s.m.kind s.m.pmax 0 d2 blk k v) ∧
      m2.kind = s.m.kind ∧ m2.pmax = s.m.pmax ∧ d2.free = s.d.free ∧ d2.freeGc = s.d.freeGc ∧
      d2.snap = s.d.snap ∧ (∀ blk, Below s.m blk → Below m2 blk) ∧ m2.flpool = s.m.flpool ∧
      d2.phdr = s.d.phdr ∧ d2.ihdr = s.d.ihdr := by
  have hU' : Univ s.m.kind U := by rw [hI.kind]; exact hU
  obtain ⟨f1, f2⟩ := fixOrder_ok order s.m.inext
  have hfn' : s.m.kind = .mh → s.m.precFileNum < two32 := fun hk => by
    have := (hI.cnt.mh hk).1
    unfold two32; omega
  obtain ⟨pc, pfn, plen, pfiles, cidf, p1', _, _⟩ := priFlush_ok hI.p hfn'
  obtain ⟨a1, a2⟩ := priFlush_at hI.p hfn' p1'
  rw [p1'] at p1
  simp only [Option.some.injEq, Prod.mk.injEq] at p1
  obtain ⟨rfl, rfl⟩ := p1
  have hI1 : IInv (pfl s.m pc pfn plen) (dfl s.d pfiles cidf) :=
    hI.i.frame2 rfl rfl rfl rfl rfl rfl
  have hfn : (pfl s.m pc pfn plen).ifileNum + (fixOrder order s.m.inext.keys).length < two32 := by
    have := hI.cnt.idx
    show s.m.ifileNum + (fixOrder order s.m.inext.keys).length < two32
    unfold two32; omega
  have hwf : ∀ b rl, (pfl s.m pc pfn plen).inext.get? b = some rl → TagOK b rl := by
    intro b rl hb
    have hb' : s.m.inext.get? b = some rl := hb
    obtain ⟨orl, h1, h2, h3⟩ := hI.a.recs b
    have : idxRecords s.m s.d b = .ok (some rl) := by unfold idxRecords; rw [hb']
    rw [this] at h1
    cases h1
    simp only [Option.getD_some] at h2 h3
    refine ⟨inext_flushOK (m := s.m) (d := s.d) hU' hI.bits31 hI.a hI.w hB b rl hb',
      enc_lt31 hU' hI.bits8 hI.bits31 h2 h3 hI.w hB, ?_⟩
    have h1 := hlt b rl hb'
    have h2 : 2 ^ s.m.bits ≤ 2 ^ 31 := Nat.pow_le_pow_right (by omega) hI.bits31
    unfold two32; omega
  obtain ⟨ic, fn, len, bk, files, i1', _, _, _⟩ :=
    idxFlush_ok (order := fixOrder order s.m.inext.keys) hI1
      (fun b => by
        obtain ⟨orl, h1, _⟩ := hI.a.recs b
        exact ⟨orl, h1⟩)
      (fun b rl hb => (hwf b rl hb).1) f1 hfn
  have htag := idxFlush_tag (order := fixOrder order s.m.inext.keys) hI1 hwf hfn hT
  rw [i1] at htag
  rw [i1'] at i1
  simp only [Prod.mk.injEq] at i1
  obtain ⟨rfl, rfl⟩ := i1
  refine ⟨htag, ?_, rfl, rfl, rfl, rfl, rfl, fun _ hb => hb, rfl, rfl, rfl⟩
  intro blk hp
  rcases hp with ⟨r, hr, rfl⟩ | ⟨k, v, h⟩
  · exact ⟨r.key, r.val, (a1 r hr).congr rfl rfl⟩
  · exact ⟨k, v, (a2 blk k v h).congr rfl rfl⟩

theorem flushBoth_c07 (hU : Univ c.kind U) (hI : Inv c U s spec n B) (hX : XInv c s)
    (hn : n < 1073741824) (hB : B < two31) (order : List Nat) {m1 m2 : Mem} {d1 d2 : Disk}
    (p1 : priFlush s.m s.d = some (m1, d1))
    (i1 : idxFlush m1 d1 (fixOrder order s.m.inext.keys) = (m2, d2)) (hT : TagInv s.m s.d) :
    TagInv m2 d2 ∧
      (∀ blk, Placed s.m s.d blk → ∃ k v, RecAt s.m.kind s.m.pmax 0 d2 blk k v) ∧
      m2.kind = s.m.kind ∧ m2.pmax = s.m.pmax ∧ d2.free = s.d.free ∧ d2.freeGc = s.d.freeGc ∧
      d2.snap = s.d.snap ∧ (∀ blk, Below s.m blk → Below m2 blk) ∧ m2.flpool = s.m.flpool := by
  obtain ⟨h1, h2, h3, h4, h5, h6, h7, h8, h9, _⟩ :=
    flushBoth_c07_core hU hI hX.inextLt hn hB order p1 i1 hT
  exact ⟨h1, h2, h3, h4, h5, h6, h7, h8, h9⟩

/-- Store.Flush: the table keeps pointing at tagged record lists, placed blocks stay placed, the state
    reached is quiesced -/
theorem storeFlush_c07 (hU : Univ c.kind U) (hI : Inv c U s spec n B) (hX : XInv c s)
    (hn : n < 1073741824) (hB : B < two31) (order : List Nat) (hT : TagInv s.m s.d) :
    ∃ m' d', storeFlush s.m s.d (fixOrder order s.m.inext.keys) = some (m', d') ∧
      TagInv m' d' ∧ (∀ blk, Placed s.m s.d blk → Placed m' d' blk) ∧
      d'.freeGc = s.d.freeGc ∧ d'.snap = s.d.snap ∧ m'.inext = [] ∧ m'.pnext = [] ∧
      (∀ b, idxRecords m' d' b = idxRecords s.m s.d b) := by
  by_cases hout : outstanding s.m = true
  · obtain ⟨m1, d1, m2, d2, p1, i1, _, _, hin, hpn, _, hR, _⟩ := flushBoth_inv hU hI hX hn hB order
    obtain ⟨t1, t2, t3, t4, _, t6, t7, _⟩ := flushBoth_c07 hU hI hX hn hB order p1 i1 hT
    obtain ⟨fl, fr, f1⟩ := flFlush_shape m2 d2
    refine ⟨{ m2 with flpool := fl }, { d2 with free := fr }, ?_, t1, ?_, t6, t7, hin, hpn, hR⟩
    · unfold storeFlush commit
      rw [if_pos hout]
      simp only [p1, i1, f1]
    · intro blk hp
      obtain ⟨k, v, h⟩ := t2 blk hp
      right
      show ∃ k v, RecAt m2.kind m2.pmax 0 _ blk k v
      rw [t3, t4]
      exact ⟨k, v, h.congr rfl rfl⟩
  · unfold outstanding at hout
    simp only [Bool.or_eq_true, Bool.not_eq_true', not_or, Bool.not_eq_false] at hout
    refine ⟨s.m, s.d, ?_, hT, fun _ h => h, rfl, rfl, List.isEmpty_iff.mp hout.1,
      List.isEmpty_iff.mp hout.2, fun _ => rfl⟩
    unfold storeFlush outstanding
    rw [if_neg (by simp [hout.1, hout.2])]

end


/-! ### a quiesced state: the other invariants imply the consistency of the disk -/

theorem nodup_map_of_inj_on {α β γ : Type} {f : α → β} {g : α → γ} : ∀ {l : List α}, (l.map f).Nodup →
    (∀ x ∈ l, ∀ y ∈ l, g x = g y → f x = f y) → (l.map g).Nodup := by
  intro l hnd hinj
  rw [List.nodup_iff_pairwise_ne, List.pairwise_map] at hnd ⊢
  apply List.Pairwise.imp_of_mem _ hnd
  intro x y hx hy hne heq
  exact hne (hinj x hx y hy heq)

theorem flGcEntries_none {d : Disk} (h : d.freeGc = none) : flGcEntries d = [] := by
  unfold flGcEntries
  rw [h]
  simp [parseFreeList]

section
variable {c : Cfg} {U : List (Bytes × Bytes)} {s : SState} {spec : Spec} {n B : Nat}

theorem diskOK_of_quiesced (hU : Univ c.kind U) (hI : Inv c U s spec n B) (hX : XInv c s)
    (hF : FInv s) (hP : PlInv s) (hT : TagInv s.m s.d) (hgc : s.d.freeGc = none)
    (hin : s.m.inext = []) (hpn : s.m.pnext = []) : DiskOK c.kind s.d s.m.buckets := by
  have hU' : Univ s.m.kind U := by rw [hI.kind]; exact hU
  have hplaced : ∀ blk, Placed s.m s.d blk → ∃ k v, RecAt s.m.kind s.m.pmax 0 s.d blk k v := by
    intro blk hp
    rcases hp with ⟨r, hr, _⟩ | h
    · rw [hpn] at hr; cases hr
    · exact h
  -- the location parameters the checker reads from the headers are the live ones
  have hhdr : ∀ blk k v, RecAt s.m.kind s.m.pmax 0 s.d blk k v →
      RecAt c.kind (hdrPmax s.d) (hdrPfirst s.d) s.d blk k v := by
    intro blk k v h
    rw [← hI.kind]
    rcases kind_cases s.m with hk | hk
    · have hk' : c.kind = .mh := by rw [← hI.kind]; exact hk
      have e1 : hdrPmax s.d = s.m.pmax := by
        unfold hdrPmax
        rw [hX.phdr hk', hX.pmax]
        unfold hdrPfs
        simp only [hk']
      have e2 : hdrPfirst s.d = 0 := by
        unfold hdrPfirst
        rw [hX.phdr hk']
      rw [e1, e2]
      exact h
    · rw [hk] at h ⊢
      exact h
  refine ⟨by rw [hX.ihdr]; simp, fun hk => by rw [hX.phdr hk]; simp, ?_⟩
  intro ih hih b pos hmem hpos
  rw [hX.ihdr] at hih
  simp only [Option.some.injEq] at hih
  subst hih
  have hget : s.m.buckets.get? b = some pos := NMap.get?_of_mem_sorted hI.i.sorted hmem
  obtain ⟨rl, hat⟩ := hT b (by rw [hget]; exact hpos)
  rw [hget, Option.getD_some, hX.imax] at hat
  have hrd : readDiskBucket s.d.ifiles s.m.imax ((s.m.buckets.get? b).getD 0) = .ok (some rl) := by
    rw [hget, Option.getD_some, hX.imax]
    exact readDiskBucket_of_at hat
  have hrec : idxRecords s.m s.d b = .ok (some rl) := by
    unfold idxRecords
    rw [hin]
    simp only [NMap.get?_nil]
    cases hc : s.m.icur.get? b with
    | some rl' =>
      simp only
      have := hI.i.curDisk b rl' hc
      rw [hrd] at this
      cases this
      rfl
    | none => exact hrd
  obtain ⟨orl, h1, ho, hB⟩ := hI.a.recs b
  rw [hrec] at h1
  cases h1
  simp only [Option.getD_some] at ho hB
  -- every entry: its record on disk, with the key the index invariant knows
  have hent : ∀ e ∈ rl, ∃ key val dig, RecAt s.m.kind s.m.pmax 0 s.d e.blk key val ∧
      indexKeyOf c.kind key = some dig ∧ bucketOfKey c.bits dig = some b ∧ e.pfx ≠ [] ∧
      pfx e.pfx (dig.drop (c.bits / 8)) := by
    intro e he
    obtain ⟨key, val, dig, g1, g2, g3, _, g5⟩ := (hB e he).own hU' hI.bits31
    obtain ⟨o1, o2⟩ := ho.own_pfx he g5
    obtain ⟨k', v', hr⟩ := hplaced e.blk (hP.cur b rl hrec e he)
    have e1 := hr.diskRead
    rw [priGet_quiesced hI.p hpn g1] at e1
    cases e1
    refine ⟨key, val, dig, hr, ?_, ?_, o2, ?_⟩
    · rw [← hI.kind]; exact (hU'.dig g2).1
    · rw [← hX.bits]; exact g3
    · rw [← hX.bits]; exact o1
  refine ⟨rl, hat, ho.sorted, ho.prefixFree, ?_, ?_, ?_⟩
  · apply nodup_map_of_inj_on (g := fun x : Entry => x.blk.off) ho.distinctBlocks
    intro x hx y hy hoff
    obtain ⟨_, _, _, rx, _⟩ := hent x hx
    obtain ⟨_, _, _, ry, _⟩ := hent y hy
    have := rx.size_eq ry hoff
    cases hbx : x.blk
    cases hby : y.blk
    rw [hbx, hby] at hoff this
    simp only at hoff this
    rw [hoff, this]
  · intro e he
    obtain ⟨key, val, dig, g1, g2, g3, g4, g5⟩ := hent e he
    exact ⟨key, val, dig, hhdr _ _ _ g1, g2, g3, g4, g5⟩
  · intro e he fb hfb hoff
    rw [flGcEntries_none hgc, List.append_nil] at hfb
    have hrecd : fb ∈ recorded s := by unfold recorded; simp [hfb]
    obtain ⟨k1, v1, r1⟩ := hplaced fb (hP.fl fb hrecd)
    obtain ⟨_, _, _, r2, _⟩ := hent e he
    have hsz := r1.size_eq r2 hoff
    have : fb = e.blk := by
      cases hb1 : fb
      cases hb2 : e.blk
      rw [hb1, hb2] at hoff hsz
      simp only at hoff hsz
      rw [hoff, hsz]
    exact hF.notcur b rl hrec e he (this ▸ hrecd)

end


/-! ### the combined invariant -/

/-- the state invariant of C07: the invariants of C01 (`Inv`), C02 (`XInv`) and C13 (`FInv`), the
    placement of the named blocks, the tags of the table, no GC work file, no bucket snapshot between
    calls, and the consistency of the disk against the live table -/
structure CInv (c : Cfg) (U : List (Bytes × Bytes)) (s : SState) (spec : Spec) (n B : Nat) : Prop where
  inv : Inv c U s spec n B
  x : XInv c s
  f : FInv s
  pl : PlInv s
  tag : TagInv s.m s.d
  gc : s.d.freeGc = none
  snap : s.d.snap = none
  ok : DiskOK c.kind s.d s.m.buckets

theorem MutShape.disk {base : Mem} {s s' : SState} (h : MutShape base s s')
    (hb : base.buckets = s.m.buckets) (hi : base.imax = s.m.imax) :
    s'.d = s.d ∧ s'.m.buckets = s.m.buckets ∧ s'.m.imax = s.m.imax := by
  rcases h with rfl | ⟨m', b, rl, rfl, hf, _, _⟩
  · exact ⟨rfl, rfl, rfl⟩
  · exact ⟨rfl, by show m'.buckets = _; rw [hf.buckets, hb], by show m'.imax = _; rw [hf.imax, hi]⟩

section
variable {c : Cfg} {U : List (Bytes × Bytes)} {s : SState} {spec : Spec} {n B : Nat}

/-- a call that writes nothing to the disk and leaves the table alone keeps the disk-side invariants -/
theorem CInv.of_mem_step (h : CInv c U s spec n B) {s' : SState} {spec' : Spec} {n' B' : Nat}
    (hI : Inv c U s' spec' n' B') (hX : XInv c s') (hF : FInv s') (hP : PlInv s')
    (hd : s'.d = s.d) (hbk : s'.m.buckets = s.m.buckets) (him : s'.m.imax = s.m.imax) :
    CInv c U s' spec' n' B' := by
  refine ⟨hI, hX, hF, hP, ?_, by rw [hd]; exact h.gc, by rw [hd]; exact h.snap,
    by rw [hd, hbk]; exact h.ok⟩
  unfold TagInv
  rw [hd, hbk, him]
  exact h.tag

/-- a call that ends in a quiesced state re-establishes the consistency of the disk -/
theorem CInv.of_quiesced (hU : Univ c.kind U) {s' : SState} {spec' : Spec} {n' B' : Nat}
    (hI : Inv c U s' spec' n' B') (hX : XInv c s') (hF : FInv s') (hP : PlInv s')
    (hT : TagInv s'.m s'.d) (hgc : s'.d.freeGc = none) (hsn : s'.d.snap = none)
    (hin : s'.m.inext = []) (hpn : s'.m.pnext = []) : CInv c U s' spec' n' B' :=
  ⟨hI, hX, hF, hP, hT, hgc, hsn, diskOK_of_quiesced hU hI hX hF hP hT hgc hin hpn⟩

theorem cstep_flushed (hU : Univ c.kind U) (h : CInv c U s spec n B) (hn : n + 1 < 1073741824)
    (hB : B < two31) (order : List Nat) {s' : SState}
    (hs' : ∀ m' d', storeFlush s.m s.d (fixOrder order s.m.inext.keys) = some (m', d') →
      s' = { s with m := m', d := d' })
    (hI : Inv c U s' spec (n + 1) B) (hX : XInv c s') (hF : FInv s' ∧ recorded s' = recorded s) :
    CInv c U s' spec (n + 1) B := by
  obtain ⟨m', d', f1, t1, t2, t3, t4, t5, t6, t7⟩ :=
    storeFlush_c07 hU h.inv h.x (by omega) hB order h.tag
  have e := hs' m' d' f1
  subst e
  apply CInv.of_quiesced hU hI hX hF.1 _ t1 (by show d'.freeGc = none; rw [t3]; exact h.gc)
    (by show d'.snap = none; rw [t4]; exact h.snap) t5 t6
  refine ⟨?_, ?_⟩
  · intro bkt rl hr e he
    exact t2 _ (h.pl.cur bkt rl (by rw [← t7]; exact hr) e he)
  · intro blk hb
    exact t2 _ (h.pl.fl blk (by rw [← hF.2]; exact hb))

theorem CInv.mono (h : CInv c U s spec n B) {n' B' : Nat} (hn : n ≤ n') (hB : B ≤ B') :
    CInv c U s spec n' B' :=
  ⟨h.inv.mono hn hB, h.x, h.f, h.pl, h.tag, h.gc, h.snap, h.ok⟩

theorem cstep_reopen (hc : c.Legal) (hU : Univ c.kind U) (h : CInv c U s spec n B)
    (hn : n < 1073741824) (hB : B < two31) (order : List Nat) (us : Bool) :
    CInv c U (stepS s (.reopen order us)).1 spec n B := by
  obtain ⟨m1, d1, m2, d2, m', d', p1, i1, r1, hI', hX', hR, _, _, hr, hfl, hfree, hgc, hsnap⟩ :=
    step_reopen_full hc hU h.inv h.x (by omega) hB order us
  obtain ⟨t1, t2, t3, t4, t5, t6, _, t8, t9⟩ := flushBoth_c07 hU h.inv h.x (by omega) hB order p1 i1 h.tag
  rw [r1]
  have hrec : ∀ blk k v, RecAt s.m.kind s.m.pmax 0 d2 blk k v → RecAt m'.kind m'.pmax 0 d' blk k v := by
    intro blk k v hh
    rw [hr.kind, hr.pmax, t3, t4]
    rcases kind_cases s.m with hk | hk
    · rw [hk] at hh ⊢
      exact hh.mono_mh (by rw [hr.pfiles]; exact FilesExt.refl _)
    · rw [hk] at hh ⊢
      exact hh.mono_cid (fun file hf => ⟨[], by rw [hr.cidSome file hf]; simp⟩)
  have hpl : ∀ blk, Placed s.m s.d blk → Placed m' d' blk := by
    intro blk hp
    obtain ⟨k, v, hh⟩ := t2 blk hp
    exact Or.inr ⟨k, v, hrec blk k v hh⟩
  have hF' := h.f.flush (m' := m') (d' := d') hR (fun blk hb => (hr.below blk).mpr (t8 blk hb))
    (Or.inr ⟨hfl, by rw [hfree, t5, t9]⟩)
  apply CInv.of_quiesced hU hI' hX' hF'.1 _ _
    (by show d'.freeGc = none; rw [hgc, t6]; exact h.gc) hsnap hr.inext hr.pnext
  · refine ⟨?_, ?_⟩
    · intro bkt rl hrr e he
      exact hpl _ (h.pl.cur bkt rl (by rw [← hR]; exact hrr) e he)
    · intro blk hb
      exact hpl _ (h.pl.fl blk (by rw [← hF'.2]; exact hb))
  · intro b hb
    show ∃ rl, BucketAt d'.ifiles m'.imax 0 b ((m'.buckets.get? b).getD 0) rl
    have hb' : (m'.buckets.get? b).getD 0 ≠ 0 := hb
    rw [hr.table b] at hb' ⊢
    obtain ⟨rl, hh⟩ := t1 b hb'
    rw [hr.imax]
    exact ⟨rl, hh.congr hr.ifiles⟩

/-- one call of C02 keeps the combined invariant (and returns what the map returns) -/
theorem cstep (hc : c.Legal) (hU : Univ c.kind U) (h : CInv c U s spec n B) (op : SOp)
    (hop : op.isC02 = true)
    (hkey : ∀ k, op.keyOf = some k → ∀ dig, keyClass c.kind k = .ok dig → (k, dig) ∈ U)
    (hn : n + 1 < 1073741824) (hB : B + op.bytes < two31) :
    (stepS s op).2 = (specStep c.kind c.imm spec op).2 ∧
      CInv c U (stepS s op).1 (specStep c.kind c.imm spec op).1 (n + 1) (B + op.bytes) := by
  obtain ⟨o1, o2, o3⟩ := step_ok2 hc hU h.inv h.x op hop hkey hn hB
  refine ⟨o1, ?_⟩
  cases op with
  | put k v =>
    have hf := (fstep hU h.inv h.f (.put k v) rfl hkey hn hB).1
    have hp := pstep_put hU h.inv h.pl k v (hkey k rfl) hn hB
    obtain ⟨e1, e2, e3⟩ := (putShape hU h.inv k v (hkey k rfl) hn hB).disk (putMem_buckets _ _ _)
      (putMem_imax _ _ _)
    exact h.of_mem_step o2 o3 hf hp e1 e2 e3
  | get k =>
    have e := (step_get hU h.inv k (hkey k rfl)).1
    have hf := (fstep hU h.inv h.f (.get k) rfl hkey hn hB).1
    rw [e] at o2 o3 hf ⊢
    exact h.of_mem_step o2 o3 hf h.pl rfl rfl rfl
  | has k =>
    have e := (step_has hU h.inv k (hkey k rfl)).1
    have hf := (fstep hU h.inv h.f (.has k) rfl hkey hn hB).1
    rw [e] at o2 o3 hf ⊢
    exact h.of_mem_step o2 o3 hf h.pl rfl rfl rfl
  | size k =>
    have e := (step_size hU h.inv k (hkey k rfl)).1
    have hf := (fstep hU h.inv h.f (.size k) rfl hkey hn hB).1
    rw [e] at o2 o3 hf ⊢
    exact h.of_mem_step o2 o3 hf h.pl rfl rfl rfl
  | rm k =>
    have hf := (fstep hU h.inv h.f (.rm k) rfl hkey hn hB).1
    have hp := pstep_rm hU h.inv h.pl k (hkey k rfl)
    obtain ⟨e1, e2, e3⟩ := (rmShape hU h.inv k (hkey k rfl)).disk rfl rfl
    exact h.of_mem_step o2 o3 hf hp e1 e2 e3
  | flush order =>
    have hf := fstep_flush hU h.inv h.f (by omega) (by omega) order
    apply cstep_flushed hU h hn hB order _ o2 o3 hf
    intro m' d' f1
    simp only [stepS, f1]
  | iter order =>
    have hf := fstep_iter hU h.inv h.f (by omega) (by omega) order
    apply cstep_flushed hU h hn hB order _ o2 o3 hf
    intro m' d' f1
    simp only [stepS, f1]
    cases storeIter m' d' <;> rfl
  | reopen order us =>
    exact (cstep_reopen hc hU h (by omega) hB order us).mono (by omega) (Nat.le_refl _)
  | igc a b => cases hop
  | pgc a b => cases hop

end

/-! ### the run -/

theorem run_c07 {c : Cfg} {U : List (Bytes × Bytes)} (hc : c.Legal) (hU : Univ c.kind U) :
    ∀ (ops : List SOp) (s : SState) (spec : Spec) (n B : Nat),
    CInv c U s spec n B → (∀ op ∈ ops, op.isC02 = true) →
    (∀ op ∈ ops, ∀ k, op.keyOf = some k → ∀ dig, keyClass c.kind k = .ok dig → (k, dig) ∈ U) →
    n + ops.length < 1073741824 → B + (ops.map SOp.bytes).sum < two31 →
    CInv c U (runS s ops).1 (specRun c.kind c.imm spec ops).1 (n + ops.length)
      (B + (ops.map SOp.bytes).sum)
  | [], _, _, _, _, h, _, _, _, _ => h
  | op :: ops, s, spec, n, B, h, ha, hk, hn, hB => by
    simp only [List.length_cons, List.map_cons, List.sum_cons] at hn hB ⊢
    obtain ⟨_, h2⟩ := cstep hc hU h op (ha op (by simp)) (hk op (by simp)) (by omega) (by omega)
    have ih := run_c07 hc hU ops (stepS s op).1 (specStep c.kind c.imm spec op).1 (n + 1)
      (B + op.bytes) h2 (fun o ho => ha o (by simp [ho])) (fun o ho => hk o (by simp [ho]))
      (by omega) (by omega)
    rw [runS_cons_fst, specRun_cons_fst]
    have e1 : n + (ops.length + 1) = n + 1 + ops.length := by omega
    have e2 : B + (op.bytes + (ops.map SOp.bytes).sum) = B + op.bytes + (ops.map SOp.bytes).sum := by
      omega
    rw [e1, e2]
    exact ih

/-! ### the freshly opened store -/

theorem cinv_init (c : Cfg) (hc : c.Legal) (U : List (Bytes × Bytes)) (s : SState)
    (hi : initS c = some s) : CInv c U s [] 0 0 := by
  obtain ⟨hf, hrec⟩ := finv_init c hc s hi
  have key : ∀ (m : Mem) (d : Disk), s = ⟨c, m, d⟩ → m.inext = [] → m.icur = [] → m.buckets = [] →
      d.freeGc = none → d.snap = none → d.ihdr ≠ none → (c.kind = .mh → d.phdr ≠ none) →
      CInv c U s [] 0 0 := by
    rintro m d rfl e1 e2 e3 e4 e5 e6 e7
    have hidx : ∀ b, idxRecords m d b = .ok none := by
      intro b
      unfold idxRecords
      rw [e1, e2, e3]
      simp only [NMap.get?_nil, Option.getD_none, readDiskBucket_zero]
    refine ⟨inv_init c hc U _ hi, xinv_init c hc _ hi, hf, ⟨?_, ?_⟩, ?_, e4, e5, ⟨e6, e7, ?_⟩⟩
    · intro bkt rl hr
      rw [hidx bkt] at hr
      cases hr
    · intro blk hb
      rw [hrec] at hb
      cases hb
    · intro b hb
      exfalso
      apply hb
      show (m.buckets.get? b).getD 0 = 0
      rw [e3]
      rfl
    · intro ih _ b pos hm
      have hm' : (b, pos) ∈ m.buckets := hm
      rw [e3] at hm'
      cases hm'
  rcases (by cases c.kind <;> simp : c.kind = .mh ∨ c.kind = .cid) with hk | hk
  · have hi' := hi
    rw [initS_mh c hc hk] at hi'
    cases hi'
    exact key _ _ rfl rfl rfl rfl rfl rfl (by simp) (by simp)
  · have hi' := hi
    rw [initS_cid c hc hk] at hi'
    cases hi'
    exact key _ _ rfl rfl rfl rfl rfl rfl (by simp) (by intro hk'; rw [hk] at hk'; cases hk')

/-- every state reachable by a C02 history satisfies the combined invariant -/
theorem c07_reach (c : Cfg) (hc : c.Legal) (ops : List SOp) (ha : ∀ op ∈ ops, op.isC02 = true)
    (hk : KeysOK c.kind ops) (hs : SizesOK ops) (s0 : SState) (hi : initS c = some s0) :
    CInv c (digestsOf c.kind ops) (runS s0 ops).1 (specRun c.kind c.imm [] ops).1 (0 + ops.length)
      (0 + (ops.map SOp.bytes).sum) := by
  have hU := univ_of_keysOK hk (keysExact_all c.kind ops)
  apply run_c07 hc hU ops s0 [] 0 0 (cinv_init c hc _ s0 hi) ha
  · intro op ho k hkey dig hcls
    exact mem_digestsOf ho hkey hcls
  · have := hs.1; omega
  · have := hs.2.1; omega

end Sth
