/-
C10 (byte level) — abstract contents of a legacy store, the directory they are written as, what the
legacy writer guarantees (`LegacyWFU`), and the map the store holds (`LegacyC.spec`).
Core Lean only.
-/
import Sth.Lemmas.C02Log
import Sth.Lemmas.StoreInv
import Sth.Model.UpgradeBytes

namespace Sth

/-- abstract contents of a legacy store -/
structure LegacyC where
  bits : Nat
  /-- the records of the single-file primary, in file order: key bytes and value -/
  recs : List (Bytes × Bytes)
  /-- the records of the single-file index, in file order: bucket and record list (every generation ever
      written; the LAST one of a bucket is its current list) -/
  gens : List LRec
  /-- the freelist: `none` = no file; `some l` = one entry per element of `l`, naming record number `i` -/
  freed : Option (List Nat)

namespace LegacyC

def recSize (kv : Bytes × Bytes) : Nat := kv.1.length + kv.2.length

/-- linear offset of record `i` in the single-file primary -/
def offsetOf (C : LegacyC) (i : Nat) : Nat := ((C.recs.take i).map fun kv => 4 + recSize kv).sum

/-- the location (offset of the size prefix, size of key + value) of record `i` -/
def blockOf (C : LegacyC) (i : Nat) : Block := ⟨C.offsetOf i, recSize (C.recs[i]?.getD ([], []))⟩

def isFreed (C : LegacyC) (i : Nat) : Bool :=
  match C.freed with
  | some l => l.contains i
  | none => false

/-- the bytes of the three legacy files -/
def dir (C : LegacyC) : LegacyDir :=
  { data := legacyPrimary C.recs,
    index := [2, 0, 0, 0, 2, C.bits] ++ logBytes C.gens,
    free := C.freed.map fun l => l.flatMap fun i => blockBytes (C.blockOf i) }

/-- bucket ↦ current record list (the last generation written) -/
def table (C : LegacyC) : NMap RecordList := C.gens.foldl (fun m r => m.set r.1 r.2) []

/-- the record that starts at linear offset `off`: (number, key, value) -/
def lookupRec : List (Bytes × Bytes) → Nat → Nat → Nat → Option (Nat × Bytes × Bytes)
  | [], _, _, _ => none
  | kv :: rest, pos, i, off =>
    if pos = off then some (i, kv.1, kv.2) else lookupRec rest (pos + (4 + recSize kv)) (i + 1) off

/-- what a current index entry contributes to the contents: digest ↦ (key, value) of the record it names,
    unless that record is on the freelist -/
def specEntry (C : LegacyC) (e : Entry) : Option (Bytes × Bytes × Bytes) :=
  match lookupRec C.recs 0 0 e.blk.off with
  | none => none
  | some (i, k, v) =>
    if C.isFreed i then none else
    match indexKeyOf .mh k with
    | none => none
    | some dig => some (dig, k, v)

/-- the contents of the legacy store: every record named by a current index entry and not freed -/
def spec (C : LegacyC) : Spec := C.table.flatMap fun br => br.2.filterMap C.specEntry

/-- the keys of the contents, as operations (for `KeysOK`) -/
def keyOps (C : LegacyC) : List SOp := C.spec.map fun x => SOp.get x.2.1

end LegacyC

/-- `LegacyWF` relative to a key universe `U` (the form the invariants use; `LegacyWF` below is the
    self-contained one): record framing within the 31-bit size
    field; index records tagged with a bucket in range and encodable; every CURRENT record list sorted,
    prefix-free, without duplicate locations, each entry naming the start and size of a record that is not
    freed, whose key is a known well-formed key falling into that bucket and extending the stored prefix;
    freelist entries naming record starts. -/
structure LegacyWFU (c : Cfg) (U : List (Bytes × Bytes)) (C : LegacyC) : Prop where
  bits : C.bits = c.bits
  recSize : ∀ kv ∈ C.recs, LegacyC.recSize kv < two31
  gensOK : ∀ r ∈ C.gens, RecLogOK c.bits r ∧ FlushOK r.2
  freedOK : ∀ l, C.freed = some l → ∀ i ∈ l, i < C.recs.length
  sorted : ∀ b rl, C.table.get? b = some rl → (rl.map (·.pfx)).Pairwise klt
  prefixFree : ∀ b rl, C.table.get? b = some rl → (rl.map (·.pfx)).Pairwise apart
  distinct : ∀ b rl, C.table.get? b = some rl → (rl.map (·.blk)).Nodup
  entries : ∀ b rl, C.table.get? b = some rl → ∀ e ∈ rl, ∃ i key val dig,
    C.recs[i]? = some (key, val) ∧ e.blk = C.blockOf i ∧ C.isFreed i = false ∧ (key, dig) ∈ U ∧
    bucketOfKey c.bits dig = some b ∧ e.pfx ≠ [] ∧ pfx e.pfx (dig.drop (c.bits / 8))

/-- what the legacy writer guarantees: record framing within the 31-bit size field; index records tagged
    with a bucket in range and encodable (`RecLogOK`, `FlushOK`: field widths); every CURRENT record list
    (the last generation of its bucket) sorted, prefix-free, without duplicate locations, each entry naming
    the start and size of a record that is not on the freelist, whose key is a well-formed multihash
    falling into that bucket and extending the non-empty stored prefix; freelist entries naming record
    starts.  Nothing is required of superseded generations (beyond framing), of records no current entry
    names, or of the order of anything. -/
structure LegacyWF (c : Cfg) (C : LegacyC) : Prop where
  bits : C.bits = c.bits
  recSize : ∀ kv ∈ C.recs, LegacyC.recSize kv < two31
  gensOK : ∀ r ∈ C.gens, RecLogOK c.bits r ∧ FlushOK r.2
  freedOK : ∀ l, C.freed = some l → ∀ i ∈ l, i < C.recs.length
  sorted : ∀ b rl, C.table.get? b = some rl → (rl.map (·.pfx)).Pairwise klt
  prefixFree : ∀ b rl, C.table.get? b = some rl → (rl.map (·.pfx)).Pairwise apart
  distinct : ∀ b rl, C.table.get? b = some rl → (rl.map (·.blk)).Nodup
  entries : ∀ b rl, C.table.get? b = some rl → ∀ e ∈ rl, ∃ i key val dig,
    C.recs[i]? = some (key, val) ∧ e.blk = C.blockOf i ∧ C.isFreed i = false ∧
    keyClass .mh key = .ok dig ∧
    bucketOfKey c.bits dig = some b ∧ e.pfx ≠ [] ∧ pfx e.pfx (dig.drop (c.bits / 8))

end Sth
