/-
C03 — the recovered store keeps working: the state recovered from a crash image satisfies the invariants
of C01/C02 for the map that takes, bucket by bucket, the contents of the last durable point or the
contents of the interrupted flush.
Core Lean only.
-/
import Sth.Lemmas.C03

namespace Sth

/-! ### the mixed map -/

/-- does the digest live in one of the buckets `newB`? -/
def inNew (bits : Nat) (newB : List Nat) (dig : Bytes) : Bool :=
  match bucketOfKey bits dig with
  | some b => newB.contains b
  | none => false

/-- the old map on the buckets outside `newB`, the new map on the buckets in `newB` -/
def mixSpec (bits : Nat) (newB : List Nat) (specD spec : Spec) : Spec :=
  specD.filter (fun x => !inNew bits newB x.1) ++ spec.filter (fun x => inNew bits newB x.1)

theorem Spec.get_filter_dig (p : Bytes → Bool) : ∀ (m : Spec) (dig : Bytes),
    Spec.get (m.filter (fun x => p x.1)) dig = if p dig then Spec.get m dig else none
  | [], dig => by simp [Spec.get]
  | x :: m, dig => by
    simp only [List.filter_cons]
    by_cases hx : p x.1 = true
    · simp only [hx, if_true]
      rw [Spec.get_cons, Spec.get_cons, Spec.get_filter_dig p m dig]
      by_cases hd : x.1 = dig
      · simp only [hd, if_true]
        rw [← hd, hx]; simp
      · simp only [hd, if_false]
    · simp only [hx, Bool.false_eq_true, if_false]
      rw [Spec.get_filter_dig p m dig, Spec.get_cons]
      by_cases hd : x.1 = dig
      · have : p dig = false := by rw [← hd]; simpa using hx
        simp only [this, Bool.false_eq_true, if_false]
      · simp only [hd, if_false]

theorem Spec.get_append (a b : Spec) (dig : Bytes) :
    Spec.get (a ++ b) dig = match Spec.get a dig with
      | some x => some x
      | none => Spec.get b dig := by
  induction a with
  | nil => simp [Spec.get]
  | cons x a ih =>
    rw [List.cons_append, Spec.get_cons, Spec.get_cons]
    by_cases hd : x.1 = dig
    · simp only [hd, if_true]
    · simp only [hd, if_false]; exact ih

theorem get_mixSpec (bits : Nat) (newB : List Nat) (specD spec : Spec) (dig : Bytes) :
    Spec.get (mixSpec bits newB specD spec) dig =
      if inNew bits newB dig then Spec.get spec dig else Spec.get specD dig := by
  unfold mixSpec
  rw [Spec.get_append, Spec.get_filter_dig (fun d => !inNew bits newB d),
    Spec.get_filter_dig (fun d => inNew bits newB d)]
  cases h : inNew bits newB dig with
  | true => simp
  | false =>
    simp only [Bool.not_false, if_true, Bool.false_eq_true, if_false]
    cases Spec.get specD dig <;> rfl

theorem nodup_mixSpec {bits : Nat} {newB : List Nat} {specD spec : Spec}
    (h1 : (specD.map (·.1)).Nodup) (h2 : (spec.map (·.1)).Nodup) :
    ((mixSpec bits newB specD spec).map (·.1)).Nodup := by
  unfold mixSpec
  rw [List.map_append, List.nodup_append]
  refine ⟨h1.sublist ((List.filter_sublist (l := specD)).map _),
    h2.sublist ((List.filter_sublist (l := spec)).map _), ?_⟩
  intro a ha b hb hab
  obtain ⟨x, hx, rfl⟩ := List.mem_map.mp ha
  obtain ⟨y, hy, rfl⟩ := List.mem_map.mp hb
  have e1 := (List.mem_filter.mp hx).2
  have e2 := (List.mem_filter.mp hy).2
  rw [hab] at e1
  simp only [e2, Bool.not_true, Bool.false_eq_true] at e1

theorem specW_append (a b : Spec) : specW (a ++ b) = specW a + specW b := by
  unfold specW; simp

theorem specW_mixSpec (bits : Nat) (newB : List Nat) (specD spec : Spec) :
    specW (mixSpec bits newB specD spec) ≤ specW specD + specW spec := by
  unfold mixSpec
  rw [specW_append]
  have := specW_filter_le specD (fun x => !inNew bits newB x.1)
  have := specW_filter_le spec (fun x => inNew bits newB x.1)
  omega

theorem inNew_of_bucket {bits : Nat} {newB : List Nat} {dig : Bytes} {b : Nat}
    (h : bucketOfKey bits dig = some b) : inNew bits newB dig = decide (b ∈ newB) := by
  unfold inNew
  rw [h]
  simp

/-! ### the observational invariant of the recovered state -/

section
variable {kind : PKind} {bits : Nat} {U : List (Bytes × Bytes)} {mr mX : Mem} {dr dX : Disk}
  {specX specR : Spec}

theorem bucket_transfer {b : Nat}
    (hX : AInv kind bits U (priGet mX dX) (idxRecords mX dX) (Below mX) specX)
    (hs : BucketSame kind mr dr mX dX b)
    (hspec : ∀ dig, bucketOfKey bits dig = some b → Spec.get specR dig = Spec.get specX dig) :
    ∃ orl, idxRecords mr dr b = .ok orl ∧ OInv (ownOf kind bits (priGet mr dr)) (orl.getD []) ∧
      ∀ e ∈ orl.getD [], BlockOK kind bits U (priGet mr dr) (Below mr) specR b e.blk := by
  obtain ⟨orl, r1, r2, r3⟩ := hs
  obtain ⟨orl', a1, a2, a3⟩ := hX.recs b
  rw [r2] at a1
  cases a1
  refine ⟨orl, r1, OInv.congr ?_ a2, ?_⟩
  · intro e he k hk
    obtain ⟨k0, v0, _, p1, p2, _, _⟩ := r3 e he
    apply ownOf_mono _ hk
    intro k' v' hg
    rw [p2] at hg
    cases hg
    exact p1
  · intro e he
    obtain ⟨k0, v0, _, p1, p2, _, p4⟩ := r3 e he
    have hB := a3 e he
    obtain ⟨key, val, dig, b1, b2, b3, b4, b5⟩ := hB.ex
    rw [p2] at b1
    cases b1
    exact ⟨⟨k0, v0, dig, p1, b2, b3, b4, by rw [hspec dig b3]; exact b5⟩, p4 hB.below, hB.off,
      hB.size⟩

theorem complete_transfer {dig key val : Bytes}
    (hX : AInv kind bits U (priGet mX dX) (idxRecords mX dX) (Below mX) specX)
    (hs : ∀ b, bucketOfKey bits dig = some b → BucketSame kind mr dr mX dX b)
    (hget : Spec.get specX dig = some (key, val)) :
    ∃ b rl e, bucketOfKey bits dig = some b ∧ idxRecords mr dr b = .ok (some rl) ∧ e ∈ rl ∧
      priGet mr dr e.blk = .got key val ∧ (key, dig) ∈ U := by
  obtain ⟨b, rl, e, h1, h2, h3, h4, h5⟩ := hX.complete dig key val hget
  obtain ⟨orl, r1, r2, r3⟩ := hs b h1
  rw [h2] at r2
  cases r2
  obtain ⟨k0, v0, _, p1, p2, _, _⟩ := r3 e (by simpa using h3)
  rw [h4] at p2
  cases p2
  exact ⟨b, rl, e, h1, r1, h3, p1, h5⟩

end

theorem ainv_mix {c : Cfg} {U : List (Bytes × Bytes)} {mr mO mN : Mem} {dr dO dN : Disk}
    {specD spec : Spec} {newB : List Nat}
    (hkr : mr.kind = c.kind) (hbr : mr.bits = c.bits) (hkO : mO.kind = c.kind)
    (hbO : mO.bits = c.bits) (hkN : mN.kind = c.kind) (hbN : mN.bits = c.bits)
    (hO : SInv U mO dO specD) (hN : SInv U mN dN spec)
    (hb : ∀ b, (b ∉ newB → BucketSame c.kind mr dr mO dO b) ∧
      (b ∈ newB → BucketSame c.kind mr dr mN dN b)) :
    SInv U mr dr (mixSpec c.bits newB specD spec) := by
  have hO' : AInv c.kind c.bits U (priGet mO dO) (idxRecords mO dO) (Below mO) specD := by
    have h : AInv mO.kind mO.bits U (priGet mO dO) (idxRecords mO dO) (Below mO) specD := hO
    rw [hkO, hbO] at h; exact h
  have hN' : AInv c.kind c.bits U (priGet mN dN) (idxRecords mN dN) (Below mN) spec := by
    have h : AInv mN.kind mN.bits U (priGet mN dN) (idxRecords mN dN) (Below mN) spec := hN
    rw [hkN, hbN] at h; exact h
  show AInv mr.kind mr.bits U _ _ _ _
  rw [hkr, hbr]
  constructor
  · intro b
    by_cases hbn : b ∈ newB
    · apply bucket_transfer hN' ((hb b).2 hbn)
      intro dig hd
      rw [get_mixSpec, inNew_of_bucket hd]
      simp [hbn]
    · apply bucket_transfer hO' ((hb b).1 hbn)
      intro dig hd
      rw [get_mixSpec, inNew_of_bucket hd]
      simp [hbn]
  · intro dig key val hget
    rw [get_mixSpec] at hget
    cases hin : inNew c.bits newB dig with
    | true =>
      rw [hin] at hget
      simp only [if_true] at hget
      apply complete_transfer hN' _ hget
      intro b hd
      rw [inNew_of_bucket hd] at hin
      exact (hb b).2 (by simpa using hin)
    | false =>
      rw [hin] at hget
      simp only [Bool.false_eq_true, if_false] at hget
      apply complete_transfer hO' _ hget
      intro b hd
      rw [inNew_of_bucket hd] at hin
      exact (hb b).1 (by simpa using hin)

/-! ### crash images and their recovery keep the disk well-formed -/

/-- `d'` has the headers and snapshot of `d` and sorted file tables if `d` has -/
def KeepsWF (d d' : Disk) : Prop :=
  d'.ihdr = d.ihdr ∧ d'.snap = d.snap ∧
    (NMap.Sorted d.pfiles → NMap.Sorted d.ifiles → NMap.Sorted d'.pfiles ∧ NMap.Sorted d'.ifiles)

theorem KeepsWF.refl (d : Disk) : KeepsWF d d := ⟨rfl, rfl, fun h1 h2 => ⟨h1, h2⟩⟩

theorem KeepsWF.trans {a b c : Disk} (h1 : KeepsWF a b) (h2 : KeepsWF b c) : KeepsWF a c :=
  ⟨h2.1.trans h1.1, h2.2.1.trans h1.2.1, fun p q => by
    obtain ⟨p', q'⟩ := h1.2.2 p q
    exact h2.2.2 p' q'⟩

theorem growFile_keeps (d : Disk) (id : FileId) (bs : Bytes) : KeepsWF d (growFile d id bs) := by
  cases id with
  | pri n => exact ⟨rfl, rfl, fun h1 h2 => ⟨NMap.sorted_set _ _ h1, h2⟩⟩
  | cid => exact ⟨rfl, rfl, fun h1 h2 => ⟨h1, h2⟩⟩
  | idx n => exact ⟨rfl, rfl, fun h1 h2 => ⟨h1, NMap.sorted_set _ _ h2⟩⟩
  | free => exact ⟨rfl, rfl, fun h1 h2 => ⟨h1, h2⟩⟩

theorem crashImage_keeps : ∀ (st : List Growth) (d : Disk) (k : Nat) (early : Bool),
    KeepsWF d (crashImage d st k early)
  | [], d, _, _ => KeepsWF.refl d
  | g :: rest, d, k, early => by
    unfold crashImage
    split
    · exact crashImage_keeps rest d k early
    · split
      · split
        · split
          · exact growFile_keeps _ _ _
          · exact KeepsWF.refl d
        · exact KeepsWF.refl d
      · split
        · exact (growFile_keeps d g.id g.bytes).trans (crashImage_keeps rest _ _ early)
        · simp only
          split
          · split
            · exact (growFile_keeps _ _ _).trans (growFile_keeps _ _ _)
            · exact growFile_keeps _ _ _
          · exact growFile_keeps _ _ _

theorem recovered_wf {c : Cfg} {d dr : Disk} {mr : Mem} (hD : DiskWF d) (hih : d.ihdr ≠ none)
    (st : List Growth) (k : Nat) (early : Bool)
    (h : openStoreR c (crashImage d st k early) = (dr, .ok mr)) : DiskWF dr := by
  obtain ⟨e1, _, e3⟩ := crashImage_keeps st d k early
  obtain ⟨s1, s2⟩ := e3 hD.sp hD.si
  exact (openStore_keeps (d := openFreelist (crashImage d st k early)) h (by
    show (crashImage d st k early).ihdr ≠ none
    rw [e1]; exact hih) s1 s2).1

/-! ### the recovered state satisfies the invariants -/

section
variable {c : Cfg} {U : List (Bytes × Bytes)} {s : SState} {spec specD : Spec} {n B : Nat}

theorem crash_keeps_working (hc : c.Legal) (hU : Univ c.kind U) (hI : Inv c U s spec n B)
    (hX : XInv c s) (hD : DiskWF s.d) (hDur : Durable c U s.d specD) (hW : DurW specD B)
    (hn : n < 1073741824) (hB : B < two31) (order : List Nat) (k : Nat) (early : Bool) :
    ∃ m' d', storeFlush s.m s.d (fixOrder order s.m.inext.keys) = some (m', d') ∧
      ∃ dr mr specR, openStoreR c (crashImage s.d (appendStream s.d d') k early) = (dr, .ok mr) ∧
        (∀ dig, Spec.get specR dig = Spec.get specD dig ∨ Spec.get specR dig = Spec.get spec dig) ∧
        Inv c U ⟨c, mr, dr⟩ specR n (B + B) ∧ XInv c ⟨c, mr, dr⟩ ∧ DiskWF dr := by
  obtain ⟨dOld, mOld, hold, hAold⟩ := hDur
  obtain ⟨m', d', f1, hI', hX', dr, mr, newB, r1, hRec, r4⟩ :=
    crash_buckets hc hU hI hX hD hn hB hold hAold order k early
  have hOk : mOld.kind = c.kind ∧ mOld.bits = c.bits := by
    obtain ⟨_, _, _, _, _, _, _, _, _, _, _, _, _, _, _, _, _, _, _, _, hl, _, _⟩ :=
      flush_parts hU hI hX hD hn hB order
    obtain ⟨cfO, pfnO, plenO, filesO, frO, eqO, _⟩ :=
      recover_form c hc s.d s.m.pfileNum s.m.ifileNum _ (fun _ => []) hX.ihdr hD.snap hX.phdr hX.pall
        (fun hk => (hI.p.mh (by rw [hI.kind]; exact hk)).2.2 _ (Nat.lt_succ_self _))
        (fun f hf => by rw [hl.files f hf, List.append_nil]) (hI.i.noFiles _ (Nat.lt_succ_self _))
        (fun f hf r hr => by rw [← hX.bits]; exact hl.recs f hf r hr) (fun _ _ => isTorn_nil _)
    rw [eqO] at hold
    simp only [Prod.mk.injEq, Except.ok.injEq] at hold
    obtain ⟨_, rfl⟩ := hold
    exact ⟨rfl, rfl⟩
  have hA := ainv_mix (c := c) hRec.kind hRec.bits hOk.1 hOk.2 hI'.kind hX'.bits hAold hI'.a r4
  refine ⟨m', d', f1, dr, mr, mixSpec c.bits newB specD spec, r1, ?_, ?_, hRec.x, ?_⟩
  · intro dig
    rw [get_mixSpec]
    split
    · right; rfl
    · left; rfl
  · refine ⟨hRec.kind, hRec.imm, by show 8 ≤ mr.bits; rw [hRec.bits]; exact hc.1,
      by show mr.bits ≤ 31; rw [hRec.bits]; exact hc.2.1, hA, hRec.p, hRec.i,
      hRec.cnt.mono (Nat.le_refl _) (by omega), nodup_mixSpec hW.1 hI.nodup, ?_⟩
    have := specW_mixSpec c.bits newB specD spec
    have := hW.2
    have := hI.w
    omega
  · have hih : s.d.ihdr ≠ none := by rw [hX.ihdr]; simp
    exact recovered_wf hD hih _ k early r1

end

end Sth
