import Sth.Lemmas.C11D3
import Sth.Props.C11

/-!
C11 P3 by induction (4): the flush between two cycles, and one round `[pgc l none, flush ord]` on
reachable states.  Core Lean only.
-/

namespace Sth.C11D

open Sth.C11 Sth.C13H Sth.C13X

section
variable {c : Cfg} {U : List (Bytes × Bytes)} {cfg : Cfg} {m : Mem} {d : Disk} {spec : Spec}
  {n B pf : Nat} {psp : Nat → List GSpan}

/-- Store.Flush: what it keeps -/
theorem flush_facts (hU : Univ c.kind U) (hS : HState c U cfg m d spec n B pf psp)
    (hn : n < 1073741824) (hB : B < two31) (order : List Nat) :
    ∃ m' d' psp', storeFlush m d (fixOrder order m.inext.keys) = some (m', d') ∧
      HState c U cfg m' d' spec n B pf psp' ∧ m'.pnext = [] ∧ m'.visited = m.visited ∧
      m'.pmax = m.pmax ∧ m.pfileNum ≤ m'.pfileNum ∧
      (∀ g, g < m.pfileNum → d'.pfiles.get? g = d.pfiles.get? g) ∧
      (∀ b, idxRecords m' d' b = idxRecords m d b) ∧
      (recordedG ⟨cfg, m', d'⟩).Perm (recordedG ⟨cfg, m, d⟩) := by
  by_cases hout : outstanding m = true
  · obtain ⟨m1, d1, psp1, p1, hS1, hp1, hi1, q3, q4, q5, q7, q8, _, q10, q11, q12⟩ :=
      priFlush_h hU hS hn
    obtain ⟨f1, f2⟩ := fixOrder_ok order m.inext
    obtain ⟨m2, d2, i1, hG2, hin, a1, a2, a3, a4, b1, b2, _, b4, b5, b6, _⟩ :=
      idxFlush_g (s := ⟨cfg, m1, d1⟩) hU hS1.gs.g hn hB
        (order := fixOrder order m.inext.keys) (by rw [hi1]; exact f1) (by rw [hi1]; exact f2)
    have hS2 : HState c U cfg m2 d2 spec n B pf psp1 := hS1.frame hG2 a1 a2 a3 b1 b2 b4 b5 b6
    have hS3 := flFlush_h hS2
    have hpn2 : m2.pfileNum = m1.pfileNum := pfileNum_unique hS1.gs hS2.gs b5
    have hfl : ∀ (x : Mem × Disk), x = flFlush m2 d2 →
        x.1.pnext = m2.pnext ∧ x.1.visited = m2.visited ∧ x.1.pmax = m2.pmax ∧
        x.1.pfileNum = m2.pfileNum ∧ x.2.pfiles = d2.pfiles ∧
        (∀ b, idxRecords x.1 x.2 b = idxRecords m2 d2 b) := by
      intro x hx
      rw [hx]
      unfold flFlush
      split
      · exact ⟨rfl, rfl, rfl, rfl, rfl, fun _ => rfl⟩
      · exact ⟨rfl, rfl, rfl, rfl, rfl, fun _ => rfl⟩
    obtain ⟨c1, c2, c3, c4, c5, c6⟩ := hfl _ rfl
    refine ⟨(flFlush m2 d2).1, (flFlush m2 d2).2, psp1, ?_, hS3, by rw [c1, a1]; exact hp1,
      by rw [c2, a4, q4], by rw [c3, a3, q5], by rw [c4, hpn2]; exact q10, ?_, ?_, ?_⟩
    · unfold storeFlush commit
      rw [if_pos hout]
      simp only [p1, i1]
    · intro g hg
      rw [c5, b5]; exact q11 g hg
    · intro b
      rw [c6, b6]
      exact q12 b
    · refine (flFlush_perm hS2.gs).trans ?_
      have e1 : recordedG ⟨cfg, m2, d2⟩ = recordedG ⟨cfg, m1, d1⟩ := recordedG_congr b1 b2 a2
      have e2 : recordedG ⟨cfg, m1, d1⟩ = recordedG ⟨cfg, m, d⟩ := recordedG_congr q7 q8 q3
      rw [e1, e2]
  · refine ⟨m, d, psp, ?_, hS, ?_, rfl, rfl, Nat.le_refl _, fun _ _ => rfl, fun _ => rfl,
      List.Perm.refl _⟩
    · unfold storeFlush; rw [if_neg hout]
    · unfold outstanding at hout
      simp only [Bool.or_eq_true, Bool.not_eq_true', not_or, Bool.not_eq_false] at hout
      exact List.isEmpty_iff.mp hout.2

end

/-- the record spans of file `f` that are in use: an index entry names their block -/
def inUse (s : SState) (f : Nat) : List (Nat × Bytes) :=
  (lv s.d f).filter (fun x => decide (spanBlk s.m.pmax f x ∈ entryBlocks s))

/-- the next complete cycle visits `f`: it is not in the visited set, or one of its record spans is not
    in use (such a span is recorded, the cycle applies the entry, and the file counts as affected) -/
def WillVisitD (s : SState) (f : Nat) : Prop :=
  f ∉ s.m.visited ∨ ∃ x ∈ lv s.d f, spanBlk s.m.pmax f x ∉ entryBlocks s

instance (s : SState) (f : Nat) : Decidable (WillVisitD s f) := by
  unfold WillVisitD; exact inferInstance

/-- `f` is low-use by the collector's own measure at the visit of the next complete cycle: the scan of
    reapRecords over the file as it is after the two hand-over passes (every recorded span already
    marked deleted, nothing merged or cut yet) -/
def LowAt (s : SState) (f l : Nat) : Prop :=
  LowUse (fileOf (afterPasses s.m s.d).pfiles f) l

instance (s : SState) (f l : Nat) : Decidable (LowAt s f l) := by unfold LowAt; exact inferInstance

/-- what reachability provides -/
structure RInv (c : Cfg) (U : List (Bytes × Bytes)) (s : SState) : Prop where
  ex : ∃ spec B, GInv c U s spec (gcCnt s) B ∧ B < two31
  cov : CovS s
  nd : (recordedG s).Nodup

theorem rinv_step {c : Cfg} {U : List (Bytes × Bytes)} {s : SState} (hc : c.Legal)
    (hU : Univ c.kind U) (hI : RInv c U s) (hcnt : gcCnt s < 268435456) (op : SOp)
    (hk : op.keyOf = none) (hb : op.bytes = 0) : RInv c U (stepS s op).1 := by
  obtain ⟨spec, B, hG, hB⟩ := hI.ex
  have hkey : ∀ k, op.keyOf = some k → ∀ dig, keyClass c.kind k = .ok dig → (k, dig) ∈ U := by
    intro k hk'; rw [hk] at hk'; cases hk'
  obtain ⟨_, n1, h2, _⟩ := step_g hc hU hG hcnt op hkey (by rw [hb]; omega)
  have hC' := step_cov hc hU hG hI.cov hcnt op hkey (by rw [hb]; omega)
  obtain ⟨hR, _⟩ := step_rel hc hU hG hI.cov hI.nd hcnt op hkey (by rw [hb]; omega)
  refine ⟨⟨_, B + op.bytes, h2.tight, by rw [hb]; omega⟩, hC', ?_⟩
  have : recordedG (stepS s op).1 = recordedG ⟨s.cfg, (stepS s op).1.m, (stepS s op).1.d⟩ := by
    unfold recordedG; rfl
  rw [this]; exact hR.nodup

theorem spansOf_nil : spansOf [] = [] := by decide

theorem liveAt_nodup (ss : List GSpan) : (liveAt 0 ss).Nodup := by
  have := liveAt_sorted ss 0
  exact this.imp (fun {a b} h hab => by rw [hab] at h; omega)

/-- one round `[pgc l none, flush ord]` on a reachable flushed state, seen from a low-use closed file
    with record spans in use: the number of record spans in use drops by min 2, and the next cycle will
    visit the file again -/
theorem round_step {c : Cfg} {U : List (Bytes × Bytes)} {s : SState} (hc : c.Legal)
    (hU : Univ c.kind U) (hI : RInv c U s) (hc1 : gcCnt s < 268435456) (l : Nat)
    (hc2 : gcCnt (stepS s (.pgc l none)).1 < 268435456) (hpn : s.m.pnext = []) {f : Nat}
    (hf : f < s.m.pfileNum) (hv : WillVisitD s f) (hu : inUse s f ≠ []) (ord : List Nat)
    (hlow : LowAt s f l) :
    RInv c U (stepS (stepS s (.pgc l none)).1 (.flush ord)).1 ∧
      (stepS (stepS s (.pgc l none)).1 (.flush ord)).1.m.pnext = [] ∧
      f < (stepS (stepS s (.pgc l none)).1 (.flush ord)).1.m.pfileNum ∧
      WillVisitD (stepS (stepS s (.pgc l none)).1 (.flush ord)).1 f ∧
      (inUse (stepS (stepS s (.pgc l none)).1 (.flush ord)).1 f).length =
        (inUse s f).length - min 2 (inUse s f).length ∧
      lv (stepS (stepS s (.pgc l none)).1 (.flush ord)).1.d f ≠ [] ∧
      (fileOf (stepS (stepS s (.pgc l none)).1 (.flush ord)).1.d.pfiles f).length ≤
        (fileOf s.d.pfiles f).length := by
  have hI1 := rinv_step hc hU hI hc1 (.pgc l none) rfl rfl
  have hI2 := rinv_step hc hU hI1 hc2 (.flush ord) rfl rfl
  refine ⟨hI2, ?_⟩
  obtain ⟨spec, B, hG, hB⟩ := hI.ex
  obtain ⟨pf, psp, hS⟩ := hstate_of hG hI.cov
  obtain ⟨cfg, m, d⟩ := s
  have hpn : m.pnext = [] := hpn
  have hf : f < m.pfileNum := hf
  have hkind : m.kind = .mh := hG.kind
  -- `f` is not below the first file
  have hulv : lv d f ≠ [] := by
    intro hc'
    apply hu
    unfold inUse
    show (lv d f).filter _ = []
    rw [hc']; rfl
  have h1 : pf ≤ f := by
    cases Nat.lt_or_ge f pf with
    | inl h =>
      exfalso
      apply hulv
      unfold lv fileOf
      rw [hS.gs.log.gone f h]
      exact congrArg (liveAt 0) spansOf_nil
    | inr h => exact h
  have hlvs : lv d f = liveAt 0 (psp f) := lv_eq hS.gs h1 (by omega)
  -- the cycle
  obtain ⟨res, hres, r1, r2, r3, pre, Rl, r4, r5, r6, r7⟩ := pgc_round_core hU hS hI.nd
    (by have : gcCnt ⟨cfg, m, d⟩ < 268435456 := hc1; omega) hpn h1 hf
    (by
      rcases hv with h | ⟨x, hx, hne⟩
      · exact Or.inl h
      · right
        have hx' : x ∈ lv d f := hx
        rw [hlvs] at hx'
        exact ⟨x, hx', fun hc' => hne (mem_entryBlocks.mpr hc')⟩)
    (by
      cases hl : inUse ⟨cfg, m, d⟩ f with
      | nil => exact absurd hl hu
      | cons x t =>
        have hx : x ∈ inUse ⟨cfg, m, d⟩ f := by rw [hl]; simp
        unfold inUse at hx
        rw [List.mem_filter] at hx
        obtain ⟨hx1, hx2⟩ := hx
        have hx1' : x ∈ lv d f := hx1
        rw [hlvs] at hx1'
        exact ⟨x, hx1', mem_entryBlocks.mp (of_decide_eq_true hx2)⟩) l hlow
  have hs1 : (stepS ⟨cfg, m, d⟩ (.pgc l none)).1 = ⟨cfg, res.2.1, res.2.2.1⟩ := by
    simp only [stepS, hkind, hres]
  rw [hs1] at hI1 hI2 hc2 ⊢
  -- the number of record spans in use before the round
  have hcount : (lv (afterPasses m d) f).length = (inUse ⟨cfg, m, d⟩ f).length := by
    apply List.Perm.length_eq
    apply (List.perm_ext_iff_of_nodup ?_ ?_).mpr
    · intro x
      rw [r3 x]
      unfold inUse
      rw [List.mem_filter]
      show _ ↔ x ∈ lv d f ∧ _
      rw [hlvs]
      constructor
      · rintro ⟨a, b⟩
        exact ⟨a, decide_eq_true (mem_entryBlocks.mpr b)⟩
      · rintro ⟨a, b⟩
        exact ⟨a, mem_entryBlocks.mp (of_decide_eq_true b)⟩
    · unfold lv; exact liveAt_nodup _
    · unfold inUse lv
      exact (liveAt_nodup _).sublist List.filter_sublist
  -- the flush
  obtain ⟨spec1, B1, hG1, hB1⟩ := hI1.ex
  obtain ⟨pf1, psp1, hS1⟩ := hstate_of hG1 hI1.cov
  obtain ⟨m', d', psp', f1, hS2, f3, f4, f5, f6, f7, f8, f9⟩ := flush_facts hU hS1
    (by have : gcCnt ⟨cfg, res.2.1, res.2.2.1⟩ < 268435456 := hc2; omega) hB1 ord
  have hs2 : (stepS ⟨cfg, res.2.1, res.2.2.1⟩ (.flush ord)).1 = ⟨cfg, m', d'⟩ := by
    simp only [stepS, f1]
  rw [hs2] at hI2 ⊢
  have hf1 : f < res.2.1.pfileNum := by rw [r2]; exact hf
  have hpm : m'.pmax = m.pmax := by rw [f5, r1]
  have hfile2 : d'.pfiles.get? f = res.2.2.1.pfiles.get? f := f7 f hf1
  have hlv2 : lv d' f = pre ++ Rl.reverse := by
    unfold lv fileOf
    rw [hfile2]
    have : lv res.2.2.1 f = lv (afterPasses m d) f := r6
    unfold lv fileOf at this
    rw [this]
    exact r4
  have hent2 : ∀ blk, IsEnt m' d' blk ↔ IsEnt res.2.1 res.2.2.1 blk := by
    intro blk; unfold IsEnt; simp only [f8]
  have hrec2 : ∀ b, b ∈ recordedG ⟨cfg, m', d'⟩ ↔ b ∈ recordedG ⟨cfg, res.2.1, res.2.2.1⟩ :=
    fun b => f9.mem_iff
  -- at the end of the round: which record spans of `f` are in use
  have hpf2 : pf1 ≤ f := by
    cases Nat.lt_or_ge f pf1 with
    | inl h =>
      exfalso
      have : lv d' f = [] := by
        unfold lv fileOf
        rw [hS2.gs.log.gone f h]
        exact congrArg (liveAt 0) spansOf_nil
      rw [hlv2] at this
      have hlen := congrArg List.length this
      rw [List.length_append, List.length_reverse, r5, hcount] at hlen
      have : 0 < (inUse ⟨cfg, m, d⟩ f).length := List.length_pos_iff.mpr hu
      simp only [List.length_nil] at hlen
      omega
    | inr h => exact h
  have f6' : res.2.1.pfileNum ≤ m'.pfileNum := f6
  have hf2 : f < m'.pfileNum := by omega
  have hlvp : lv d' f = liveAt 0 (psp' f) := lv_eq hS2.gs hpf2 (by omega)
  have hnd2 : (pre ++ Rl.reverse).Nodup := by rw [← hlv2]; unfold lv; exact liveAt_nodup _
  have hGm' : GInv c U ⟨cfg, m', d'⟩ spec1 (gcCnt ⟨cfg, res.2.1, res.2.2.1⟩) B1 := hS2.gs.g
  have hkey : ∀ x ∈ pre ++ Rl.reverse,
      (spanBlk m'.pmax f x ∈ entryBlocks ⟨cfg, m', d'⟩ ↔ x ∉ Rl) := by
    intro x hx
    have hxl : x ∈ liveAt 0 (psp' f) := by rw [← hlvp, hlv2]; exact hx
    have hrin : spanBlk m'.pmax f x ∈ recordedG ⟨cfg, m', d'⟩ ↔ x ∈ Rl := by
      rw [hrec2]
      constructor
      · intro hr
        have hri : recIn cfg res.2.1 res.2.2.1 f (spanBlk m'.pmax f x) := by
          refine ⟨hr, ?_⟩
          rw [r1, ← hpm]
          exact spanBlk_file hS2.gs hpf2 (by omega) hxl
        rw [r7] at hri
        obtain ⟨y, hy, he⟩ := List.mem_map.mp hri
        have hyl : y ∈ pre ++ Rl.reverse := List.mem_append_right _ (List.mem_reverse.mpr hy)
        have hyl' : y ∈ liveAt 0 (psp' f) := by rw [← hlvp, hlv2]; exact hyl
        have hoff : y.1 = x.1 := by
          have this : res.2.1.pmax * f + y.1 = m'.pmax * f + x.1 := congrArg Block.off he
          have r1' : res.2.1.pmax = m.pmax := r1
          rw [r1', hpm] at this
          omega
        have hb := liveAt_off_unique (show (x.1, y.2) ∈ liveAt 0 (psp' f) from by
          rw [← hoff]; exact hyl') (show (x.1, x.2) ∈ liveAt 0 (psp' f) from hxl)
        have : y = x := by
          cases y; cases x
          simp only at hoff hb
          rw [hoff, hb]
        rw [← this]; exact hy
      · intro hr
        have : spanBlk res.2.1.pmax f x ∈ Rl.map (spanBlk res.2.1.pmax f) :=
          List.mem_map.mpr ⟨x, hr, rfl⟩
        rw [← r7] at this
        rw [hpm, ← r1]
        exact this.1
    constructor
    · intro he hr
      exact notcur_block hGm' (mem_entryBlocks.mp he) (hrin.mpr hr)
    · intro hnr
      rcases hS2.cov.span f hpf2 (by omega) x hxl with h | h
      · exact mem_entryBlocks.mpr h
      · exact absurd (hrin.mp h) hnr
  have hin2 : inUse ⟨cfg, m', d'⟩ f = pre := by
    unfold inUse
    show (lv d' f).filter _ = pre
    rw [hlv2, List.filter_append]
    have a1 : pre.filter (fun x => decide (spanBlk m'.pmax f x ∈ entryBlocks ⟨cfg, m', d'⟩)) = pre := by
      rw [List.filter_eq_self]
      intro x hx
      apply decide_eq_true
      rw [hkey x (List.mem_append_left _ hx)]
      intro hr
      exact (List.nodup_append.mp hnd2).2.2 x hx x (List.mem_reverse.mpr hr) rfl
    have a2 : Rl.reverse.filter (fun x => decide (spanBlk m'.pmax f x ∈ entryBlocks ⟨cfg, m', d'⟩)) = [] := by
      rw [List.filter_eq_nil_iff]
      intro x hx hd
      have := (hkey x (List.mem_append_right _ hx)).mp (of_decide_eq_true hd)
      exact this (List.mem_reverse.mp hx)
    rw [a1, a2, List.append_nil]
  have hlen : (pre ++ Rl.reverse).length = (inUse ⟨cfg, m, d⟩ f).length := by
    rw [← r4]; exact hcount
  have hpos : 0 < (inUse ⟨cfg, m, d⟩ f).length := List.length_pos_iff.mpr hu
  have hRl : Rl ≠ [] := by
    intro hc'
    rw [hc'] at r5
    simp only [List.length_nil] at r5
    rw [hcount] at r5
    omega
  refine ⟨f3, hf2, ?_, ?_, ?_, ?_⟩
  · -- a relocated span is not in use: the next cycle applies its entry
    right
    cases hRl' : Rl with
    | nil => exact absurd hRl' hRl
    | cons x t =>
      have hx : x ∈ Rl := by rw [hRl']; simp
      have hxl : x ∈ pre ++ Rl.reverse := List.mem_append_right _ (List.mem_reverse.mpr hx)
      refine ⟨x, by show x ∈ lv d' f; rw [hlv2]; exact hxl, ?_⟩
      intro he
      exact (hkey x hxl).mp he hx
  · rw [hin2]
    rw [List.length_append, List.length_reverse, r5, hcount] at hlen
    omega
  · show lv d' f ≠ []
    rw [hlv2]
    intro hc'
    have := congrArg List.length hc'
    rw [List.length_append, List.length_reverse] at this
    have : Rl.length = 0 := by simp only [List.length_nil] at this; omega
    exact hRl (List.length_eq_zero_iff.mp this)
  · -- the file does not grow
    have a1 := C11_no_growth_primary ⟨cfg, m, d⟩ hpn l none f
    rw [hs1] at a1
    have a2 : fileOf d'.pfiles f = fileOf res.2.2.1.pfiles f := by unfold fileOf; rw [hfile2]
    rw [a2]; exact a1

end Sth.C11D
