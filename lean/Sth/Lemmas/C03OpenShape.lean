/-
C03, crashes while OpenStore runs — the directories OpenStore can be (re)started on (`OpenShape`), what it
recovers from them, and when two of them recover the same.
Core Lean only.
-/
import Sth.Lemmas.C03Recover4

namespace Sth.C03O

/-- the freelist file as freelist.Open leaves it: cut to a whole number of 12-byte entries -/
def truncFree (d : Disk) : Bytes :=
  (d.free.getD []).take ((d.free.getD []).length - (d.free.getD []).length % 12)

theorem openFreelist_eq (d : Disk) : openFreelist d = { d with free := some (truncFree d) } := rfl

theorem take_trunc12 (f : Bytes) :
    (f.take (f.length - f.length % 12)).take
      ((f.take (f.length - f.length % 12)).length - (f.take (f.length - f.length % 12)).length % 12) =
      f.take (f.length - f.length % 12) := by
  have h1 : (f.take (f.length - f.length % 12)).length = f.length - f.length % 12 := by
    rw [List.length_take]; omega
  rw [h1]
  have h2 : (f.length - f.length % 12) % 12 = 0 := by omega
  rw [h2, Nat.sub_zero, List.take_take, Nat.min_self]

theorem truncFree_set (d : Disk) (fr : Option Bytes) (h : fr.getD [] = d.free.getD []) :
    truncFree { d with free := fr } = truncFree d := by
  unfold truncFree
  simp only [h]

theorem truncFree_openFreelist (d : Disk) : truncFree (openFreelist d) = truncFree d := by
  unfold openFreelist
  show ((some _ : Option Bytes).getD []).take _ = _
  simp only [Option.getD_some]
  exact take_trunc12 _

/-- the scan table of a span log -/
def scanTbl (c : Cfg) (sp : Nat → List GSpan) (first M : Nat) (b : Nat) : Nat :=
  ((setAll [] (rangeLive c.ifs sp first (M + 1 - first))).get? b).getD 0

/-- a directory OpenStore can be started on: headers in place; the primary files `pf..Pm` exist and
    `Pm + 1` does not; the index files `first..M` exist, `M + 1` does not, and file `f` consists of the whole
    records `sp f` followed by a torn record prefix `junk f` (possibly empty); a snapshot of the right
    size, if there is one, belongs to a log without torn tails and holds that log's scan table -/
structure OpenShape (c : Cfg) (d : Disk) (pf Pm first M : Nat) (sp : Nat → List GSpan)
    (junk : Nat → Bytes) : Prop where
  ihdr : d.ihdr = some ⟨c.bits, c.ifs, first, hdrPfs c⟩
  phdr : c.kind = .mh → d.phdr = some ⟨c.pfs, pf⟩
  ple : c.kind = .mh → pf ≤ Pm
  pall : c.kind = .mh → ∀ f, pf ≤ f → f ≤ Pm → d.pfiles.get? f ≠ none
  pno : c.kind = .mh → d.pfiles.get? (Pm + 1) = none
  fM : first ≤ M
  files : ∀ f, first ≤ f → f ≤ M → d.ifiles.get? f = some (gbytes (sp f) ++ junk f)
  noI : d.ifiles.get? (M + 1) = none
  ok : ∀ f, first ≤ f → f ≤ M → ∀ s ∈ sp f, IdxSpanOK c.bits s
  torn : ∀ f, first ≤ f → f ≤ M → IsTorn c.bits (junk f)
  snap : ∀ sn, d.snap = some sn → sn.size = 8 * 2 ^ c.bits →
    (∀ f, first ≤ f → f ≤ M → junk f = []) ∧ ∀ b, (sn.nz.get? b).getD 0 = scanTbl c sp first M b

/-- index.Open on such a directory -/
theorem openIndex_shape (c : Cfg) (hc : c.Legal) (d : Disk) (first M : Nat) (sp : Nat → List GSpan)
    (junk : Nat → Bytes)
    (hih : d.ihdr = some ⟨c.bits, c.ifs, first, hdrPfs c⟩) (hle : first ≤ M)
    (hfiles : ∀ f, first ≤ f → f ≤ M → d.ifiles.get? f = some (gbytes (sp f) ++ junk f))
    (hno : d.ifiles.get? (M + 1) = none)
    (hok : ∀ f, first ≤ f → f ≤ M → ∀ s ∈ sp f, IdxSpanOK c.bits s)
    (hj : ∀ f, first ≤ f → f ≤ M → IsTorn c.bits (junk f))
    (hsnap : ∀ sn, d.snap = some sn → sn.size = 8 * 2 ^ c.bits →
      (∀ f, first ≤ f → f ≤ M → junk f = []) ∧ ∀ b, (sn.nz.get? b).getD 0 = scanTbl c sp first M b) :
    ∃ files' bk, openIndex c (hdrPfs c) d =
        .ok ({ d with snap := none, ifiles := files' }, c.bits, c.ifs, bk, M) ∧
      (∀ f, first ≤ f → f ≤ M → files'.get? f = some (gbytes (sp f))) ∧
      (∀ f, (f < first ∨ M < f) → files'.get? f = d.ifiles.get? f) ∧
      (∀ b, (bk.get? b).getD 0 = scanTbl c sp first M b) := by
  obtain ⟨p1, p2, p3, p4⟩ := openIndex_pre c hc
  cases hsn : d.snap with
  | none =>
    obtain ⟨files', q1, q2, q3⟩ := openIndex_torn4 c hc d first M sp junk hih hsn hle hfiles hno hok hj
    exact ⟨files', _, q1, q2, q3, fun _ => rfl⟩
  | some sn =>
    by_cases hu : sn.size = 8 * 2 ^ c.bits
    · obtain ⟨hj0, htb⟩ := hsnap sn hsn hu
      obtain ⟨size, nz⟩ := sn
      simp only at hu
      subst hu
      have hall : ∀ f, first ≤ f → f ≤ M → d.ifiles.get? f ≠ none := by
        intro f h1 h2; rw [hfiles f h1 h2]; simp
      refine ⟨d.ifiles, nz, openIndex_snap4 c hc d first M nz hih hsn hle hall hno, ?_, fun _ _ => rfl,
        htb⟩
      intro f h1 h2
      rw [hfiles f h1 h2, hj0 f h1 h2, List.append_nil]
    · obtain ⟨files', s1, s2, s3⟩ := scanIndex_spans_torn (max := c.ifs) hc.2.1 hle hfiles hno hok hj
      refine ⟨files', _, ?_, s2, s3, fun _ => rfl⟩
      have hh : files'.has M = true := has_eq_true (by rw [s2 M hle (Nat.le_refl _)]; simp)
      have hu' : (sn.size == 8 * 2 ^ c.bits) = false := by simpa using hu
      unfold openIndex
      simp only [p1, p2, if_false, hih, p3, p4, ne_eq, not_true_eq_false, hsn, hu', Bool.false_eq_true,
        s1, and_false, hh, if_true, not_false_eq_true]

/-- OpenStore on such a directory, explicitly -/
theorem OpenShape.recover {c : Cfg} (hc : c.Legal) {d : Disk} {pf Pm first M : Nat}
    {sp : Nat → List GSpan} {junk : Nat → Bytes} (h : OpenShape c d pf Pm first M sp junk) :
    ∃ cf pfn plen files' bk,
      openStoreR c d = ({ d with free := some (truncFree d), cidfile := cf, snap := none,
                                 ifiles := files' },
        .ok (openMem c bk M (gbytes (sp M)).length pfn plen)) ∧
      (c.kind = .mh → cf = d.cidfile ∧ pfn = Pm ∧ plen = (fileOf d.pfiles Pm).length) ∧
      (c.kind = .cid → cf = some (d.cidfile.getD []) ∧ pfn = 0 ∧
        plen = (d.cidfile.getD []).length) ∧
      (∀ f, first ≤ f → f ≤ M → files'.get? f = some (gbytes (sp f))) ∧
      (∀ f, (f < first ∨ M < f) → files'.get? f = d.ifiles.get? f) ∧
      (∀ b, (bk.get? b).getD 0 = scanTbl c sp first M b) := by
  obtain ⟨cf, pfn, plen, files', bk, o1, o2, o3, o4, o5, o6⟩ := openStore_ok4 c hc (openFreelist d) Pm pf M
    h.phdr h.ple h.pall h.pno
    (Q := fun files' bk => (∀ f, first ≤ f → f ≤ M → files'.get? f = some (gbytes (sp f))) ∧
      (∀ f, (f < first ∨ M < f) → files'.get? f = d.ifiles.get? f) ∧
      (∀ b, (bk.get? b).getD 0 = scanTbl c sp first M b))
    (by
      intro dP e1 e2 e3
      obtain ⟨files', bk, q1, q2, q3, q4⟩ := openIndex_shape c hc dP first M sp junk
        (by rw [e1]; exact h.ihdr) h.fM (by rw [e3]; exact h.files) (by rw [e3]; exact h.noI) h.ok
        h.torn (by rw [e2]; exact h.snap)
      refine ⟨files', bk, q1, q2, ?_, q4⟩
      intro f hf
      rw [q3 f hf, e3]; rfl)
  refine ⟨cf, pfn, plen, files', bk, ?_, o2, o3, o4, o5, o6⟩
  have hlen : (fileOf files' M).length = (gbytes (sp M)).length := by
    unfold fileOf; rw [o4 M h.fM (Nat.le_refl _)]; rfl
  unfold openStoreR
  rw [o1, hlen]
  rfl

/-- the recovered directories agree: everything but the index file map is equal, and the index file
    maps hold the same files -/
structure DiskSame (d d' : Disk) : Prop where
  ihdr : d'.ihdr = d.ihdr
  ifiles : ∀ f, d'.ifiles.get? f = d.ifiles.get? f
  snap : d'.snap = d.snap
  phdr : d'.phdr = d.phdr
  pfiles : d'.pfiles = d.pfiles
  cidfile : d'.cidfile = d.cidfile
  free : d'.free = d.free
  freeGc : d'.freeGc = d.freeGc

/-- the recovered memory states agree: equal but for the representation of the bucket table, and the
    tables map every bucket to the same position -/
structure MemSame (m m' : Mem) : Prop where
  eq : m' = { m with buckets := m'.buckets }
  tbl : ∀ b, tbl m' b = tbl m b

/-- what must agree between two directories of the same shape for OpenStore to recover the same from
    them -/
structure OpenAgree (c : Cfg) (first M : Nat) (d d' : Disk) : Prop where
  phdr : d'.phdr = d.phdr
  pfiles : d'.pfiles = d.pfiles
  cidD : d'.cidfile.getD [] = d.cidfile.getD []
  cidMh : c.kind = .mh → d'.cidfile = d.cidfile
  free : truncFree d' = truncFree d
  freeGc : d'.freeGc = d.freeGc
  iout : ∀ f, (f < first ∨ M < f) → d'.ifiles.get? f = d.ifiles.get? f

theorem OpenAgree.refl (c : Cfg) (first M : Nat) (d : Disk) : OpenAgree c first M d d :=
  ⟨rfl, rfl, rfl, fun _ => rfl, rfl, rfl, fun _ _ => rfl⟩

theorem OpenAgree.trans {c : Cfg} {first M : Nat} {d d' d'' : Disk} (h : OpenAgree c first M d d')
    (h' : OpenAgree c first M d' d'') : OpenAgree c first M d d'' :=
  ⟨h'.phdr.trans h.phdr, h'.pfiles.trans h.pfiles, h'.cidD.trans h.cidD,
    fun hk => (h'.cidMh hk).trans (h.cidMh hk), h'.free.trans h.free, h'.freeGc.trans h.freeGc,
    fun f hf => (h'.iout f hf).trans (h.iout f hf)⟩

/-- two directories of the same shape (same record spans; the torn tails, the snapshot, the freelist's
    partial entry and the existence of an empty CID file may differ) recover the same -/
theorem open_same {c : Cfg} (hc : c.Legal) {d d' : Disk} {pf Pm first M : Nat}
    {sp : Nat → List GSpan} {junk junk' : Nat → Bytes} (h : OpenShape c d pf Pm first M sp junk)
    (h' : OpenShape c d' pf Pm first M sp junk') (ha : OpenAgree c first M d d') :
    ∃ dr mr dr' mr', openStoreR c d = (dr, .ok mr) ∧ openStoreR c d' = (dr', .ok mr') ∧
      DiskSame dr dr' ∧ MemSame mr mr' ∧
      (∀ b, idxRecords mr' dr' b = idxRecords mr dr b) ∧
      (∀ blk, priGet mr' dr' blk = priGet mr dr blk) ∧
      ∀ key, (storeGet mr' dr' key).2 = (storeGet mr dr key).2 := by
  obtain ⟨cf, pfn, plen, files, bk, o1, o2, o3, o4, o5, o6⟩ := h.recover hc
  obtain ⟨cf', pfn', plen', files', bk', r1, r2, r3, r4, r5, r6⟩ := h'.recover hc
  have hsame : cf' = cf ∧ pfn' = pfn ∧ plen' = plen := by
    rcases (by cases c.kind <;> simp : c.kind = .mh ∨ c.kind = .cid) with hk | hk
    · obtain ⟨a1, a2, a3⟩ := o2 hk
      obtain ⟨b1, b2, b3⟩ := r2 hk
      exact ⟨by rw [a1, b1, ha.cidMh hk], by rw [a2, b2], by rw [a3, b3, ha.pfiles]⟩
    · obtain ⟨a1, a2, a3⟩ := o3 hk
      obtain ⟨b1, b2, b3⟩ := r3 hk
      exact ⟨by rw [a1, b1, ha.cidD], by rw [a2, b2], by rw [a3, b3, ha.cidD]⟩
  obtain ⟨rfl, rfl, rfl⟩ := hsame
  have hfiles : ∀ f, files'.get? f = files.get? f := by
    intro f
    by_cases hf : first ≤ f ∧ f ≤ M
    · rw [r4 f hf.1 hf.2, o4 f hf.1 hf.2]
    · have hf' : f < first ∨ M < f := by omega
      rw [r5 f hf', o5 f hf', ha.iout f hf']
  have hR : ∀ b, idxRecords (openMem c bk' M (gbytes (sp M)).length pfn' plen')
      ({ d' with free := some (truncFree d'), cidfile := cf', snap := none, ifiles := files' } : Disk) b =
      idxRecords (openMem c bk M (gbytes (sp M)).length pfn' plen')
      ({ d with free := some (truncFree d), cidfile := cf', snap := none, ifiles := files } : Disk) b := by
    intro b
    rw [openMem_idxRecords, openMem_idxRecords]
    show readDiskBucket files' c.ifs _ = readDiskBucket files c.ifs _
    rw [r6 b, o6 b, readDiskBucket_congr hfiles]
  have hP : ∀ blk, priGet (openMem c bk' M (gbytes (sp M)).length pfn' plen')
      ({ d' with free := some (truncFree d'), cidfile := cf', snap := none, ifiles := files' } : Disk) blk =
      priGet (openMem c bk M (gbytes (sp M)).length pfn' plen')
      ({ d with free := some (truncFree d), cidfile := cf', snap := none, ifiles := files } : Disk) blk :=
    fun blk => priGet_openMem_congr c _ _ _ _ _ _ _ _
      (d := ({ d with free := some (truncFree d), cidfile := cf', snap := none, ifiles := files } : Disk))
      (d' := ({ d' with free := some (truncFree d'), cidfile := cf', snap := none, ifiles := files' } : Disk))
      ha.pfiles rfl blk
  refine ⟨_, _, _, _, o1, r1, ?_, ?_, hR, hP, fun key => storeGet_congr_full
      (m1 := openMem c bk' M (gbytes (sp M)).length pfn' plen')
      (m2 := openMem c bk M (gbytes (sp M)).length pfn' plen') rfl rfl hR hP key⟩
  · exact ⟨by show d'.ihdr = d.ihdr; rw [h'.ihdr, h.ihdr], hfiles, rfl, ha.phdr, ha.pfiles, rfl,
      by show some (truncFree d') = some (truncFree d); rw [ha.free], ha.freeGc⟩
  · refine ⟨rfl, ?_⟩
    intro b
    show (bk'.get? b).getD 0 = (bk.get? b).getD 0
    rw [r6 b, o6 b]

end Sth.C03O
