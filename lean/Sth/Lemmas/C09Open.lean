/-
C09 — OpenStore with index translation (`openStoreT`) on the directory a clean Close leaves: what the
closed directory looks like, the refusals (wrong index / primary file-size limit) and the case of an
unchanged bit size (no translation; `openStoreT` is `openStore`).
Core Lean only.
-/
import Sth.Lemmas.C09Shape

namespace Sth.C09

/-- Close, then optionally drop the bucket snapshot: the directory handed to the next OpenStore -/
def closedDisk (s : SState) (ord : List Nat) (useSnap : Bool) : Option Disk :=
  match storeClose { disk := s.d, mem := some s.m } (fixOrder ord s.m.inext.keys) with
  | none => none
  | some st => some (if useSnap then st.disk else { st.disk with snap := none })

/-! ### generic facts about `openIndex` / `translateIndex` / `openStoreT` -/

theorem openIndex_wrongBits {c : Cfg} {d : Disk} {hd : IdxHeader} (p : Nat) (h8 : 8 ≤ c.bits)
    (h31 : c.bits ≤ 31) (hi : c.ifs ≤ defaultMax) (h : d.ihdr = some hd) (hne : hd.bits ≠ c.bits) :
    openIndex c p d = .error .wrongBits := by
  have p1 : ¬ (c.bits ≠ 0 ∧ (c.bits > 31 ∨ c.bits < 8)) := by omega
  have p2 : ¬ c.ifs > defaultMax := by omega
  have p3 : c.bits ≠ 0 := by omega
  unfold openIndex
  rw [if_neg p1, if_neg p2]
  simp only [h, p3, if_false, hne, ne_eq, not_false_eq_true, if_true]

theorem openIndex_wrongIfs {c : Cfg} {d : Disk} {hd : IdxHeader} (p : Nat) (h8 : 8 ≤ c.bits)
    (h31 : c.bits ≤ 31) (hi : c.ifs ≤ defaultMax) (hi0 : c.ifs ≠ 0) (h : d.ihdr = some hd)
    (heq : hd.bits = c.bits) (hne : hd.max ≠ c.ifs) :
    openIndex c p d = .error .wrongIndexFileSize := by
  have p1 : ¬ (c.bits ≠ 0 ∧ (c.bits > 31 ∨ c.bits < 8)) := by omega
  have p2 : ¬ c.ifs > defaultMax := by omega
  have p3 : c.bits ≠ 0 := by omega
  unfold openIndex
  rw [if_neg p1, if_neg p2]
  simp only [h, p3, if_false, hi0, heq, hne, ne_eq, not_true_eq_false, not_false_eq_true, if_true]

theorem translate_wrongIfs {d : Disk} {hd : IdxHeader} (kind : PKind) (pmax pfn plen nb : Nat)
    {ifsArg : Nat} (order : List Nat) (hi0 : ifsArg ≠ 0) (h : d.ihdr = some hd) (hne : hd.max ≠ ifsArg) :
    translateIndex kind pmax pfn plen nb ifsArg d order = .error .wrongIndexFileSize := by
  unfold translateIndex
  simp only [h, hi0, if_false, hne, ne_eq, not_false_eq_true, if_true]

/-- `openIndex` answers `wrongBits` only when the header's bit size differs from the requested one -/
theorem openIndex_not_wrongBits {c : Cfg} {d : Disk} (p : Nat)
    (h : ∀ hd, d.ihdr = some hd → c.bits = 0 ∨ hd.bits = c.bits) :
    openIndex c p d ≠ .error .wrongBits := by
  intro hw
  unfold openIndex at hw
  split at hw
  · cases hw
  · split at hw
    · cases hw
    · cases hih : d.ihdr with
      | none => rw [hih] at hw; cases hw
      | some hd =>
        rw [hih] at hw
        simp only at hw
        have hb : ¬ hd.bits ≠ (if c.bits = 0 then hd.bits else c.bits) := by
          rcases h hd hih with h0 | h1
          · simp [h0]
          · split <;> simp [h1]
        rw [if_neg hb] at hw
        generalize (if c.bits = 0 then hd.bits else c.bits) = bits' at hw
        generalize (if c.ifs = 0 then hd.max else c.ifs) = imax' at hw
        split at hw
        · cases hw
        · split at hw
          · cases hw
          · split at hw
            · cases hw
            · cases hw

theorem openFreelist_free (d : Disk) : ∃ f, (openFreelist d).free = some f := ⟨_, rfl⟩

/-- when the first `openIndex` does not answer `wrongBits`, `openStoreT` is `openStore` after the
    freelist repair and translates nothing -/
theorem openStoreT_noTranslate (c : Cfg) (d : Disk) (order : List Nat)
    (h : ∀ d1 pm pfn plen, openPrimary c (openFreelist d) = .ok (d1, pm, pfn, plen) →
      openIndex c pm d1 ≠ .error .wrongBits) :
    openStoreT c d order = ((openStoreR c d).1, (openStoreR c d).2, []) := by
  have e0 : ({ (openFreelist d) with free := some ((openFreelist d).free.getD []) } : Disk) = openFreelist d := rfl
  unfold openStoreT openStoreR openStore
  simp only [e0]
  cases hp : openPrimary c (openFreelist d) with
  | error e => rfl
  | ok r =>
    obtain ⟨d1, pm, pfn, plen⟩ := r
    simp only
    have hnw := h d1 pm pfn plen hp
    cases hi : openIndex c pm d1 with
    | error e =>
      cases e with
      | wrongBits => exact absurd hi hnw
      | wrongIndexFileSize => rfl
      | wrongPrimaryFileSize => rfl
      | badConfig => rfl
      | other => rfl
    | ok r2 =>
      obtain ⟨d3, bits, imax, bk, last⟩ := r2
      rfl

/-! ### the directory after a clean Close of a reachable state -/

section
variable {c : Cfg} {U : List (Bytes × Bytes)} {s : SState} {spec : Spec} {n B : Nat}

/-- Close succeeds; the closed directory is the fully flushed state's disk plus the snapshot -/
theorem close_ok (hU : Univ c.kind U) (hI : Inv c U s spec n B) (hX : XInv c s)
    (hn : n < 1073741824) (hB : B < two31) (ord : List Nat) (us : Bool) :
    ∃ m2 d2 fr, closedDisk s ord us = some
        (if us = true then
          ({ d2 with snap := some ⟨8 * 2 ^ m2.bits, m2.buckets.filter (·.2 ≠ 0)⟩, free := fr } : Disk)
         else { d2 with snap := none, free := fr }) ∧
      Inv c U ⟨s.cfg, m2, d2⟩ spec n B ∧ XInv c ⟨s.cfg, m2, d2⟩ ∧ m2.inext = [] ∧ m2.pnext = [] ∧
      (∀ b, idxRecords m2 d2 b = idxRecords s.m s.d b) ∧
      (∀ blk k v, priGet s.m s.d blk = .got k v → priGet m2 d2 blk = .got k v) := by
  obtain ⟨m1, d1, m2, d2, p1, i1, hI2, hX2, hin, hpn, _, hR, hP⟩ := flushBoth_inv hU hI hX hn hB ord
  obtain ⟨fr, hcl, _⟩ := storeClose_eq p1 i1
  refine ⟨m2, d2, fr, ?_, hI2, hX2, hin, hpn, hR, hP⟩
  unfold closedDisk
  rw [hcl]

/-- the closed directory has the shape on which the freelist repair and the primary's open change
    nothing -/
theorem closed_shape (hD : DShape c s.d) {ord : List Nat} {us : Bool} {d : Disk}
    (h : closedDisk s ord us = some d) : DShape c d := by
  unfold closedDisk at h
  cases hcl : storeClose { disk := s.d, mem := some s.m } (fixOrder ord s.m.inext.keys) with
  | none => rw [hcl] at h; cases h
  | some st =>
    rw [hcl] at h
    simp only [Option.some.injEq] at h
    obtain ⟨c1, _⟩ := storeClose_shape hcl hD
    subst h
    split
    · exact c1
    · exact ⟨c1.free, c1.cid⟩

end

/-! ### the closed directory of a reachable state, packaged -/

/-- `d` is what a clean Close of the fully flushed state `(m2, d2)` leaves (snapshot kept or dropped) -/
structure Closed (c : Cfg) (U : List (Bytes × Bytes)) (spec : Spec) (n B : Nat) (m2 : Mem) (d2 d : Disk) :
    Prop where
  inv : Inv c U ⟨c, m2, d2⟩ spec n B
  xinv : XInv c ⟨c, m2, d2⟩
  inext : m2.inext = []
  pnext : m2.pnext = []
  shape : DShape c d
  pfiles : d.pfiles = d2.pfiles
  cidfile : d.cidfile = d2.cidfile
  ifiles : d.ifiles = d2.ifiles
  ihdr : d.ihdr = d2.ihdr
  phdr : d.phdr = d2.phdr
  snap : d.snap = some ⟨8 * 2 ^ m2.bits, m2.buckets.filter (·.2 ≠ 0)⟩ ∨ d.snap = none

section
variable {c : Cfg} {U : List (Bytes × Bytes)} {s : SState} {spec : Spec} {n B : Nat}

theorem closed_of_reach (hU : Univ c.kind U) (hI : Inv c U s spec n B) (hX : XInv c s)
    (hD : DShape c s.d) (hn : n < 1073741824) (hB : B < two31) (ord : List Nat) (us : Bool) :
    ∃ m2 d2 d, closedDisk s ord us = some d ∧ Closed c U spec n B m2 d2 d ∧
      (us = true → d.snap = some ⟨8 * 2 ^ m2.bits, m2.buckets.filter (·.2 ≠ 0)⟩) ∧
      (us = false → d.snap = none) ∧
      (∀ b, idxRecords m2 d2 b = idxRecords s.m s.d b) ∧
      (∀ blk k v, priGet s.m s.d blk = .got k v → priGet m2 d2 blk = .got k v) := by
  obtain ⟨m2, d2, fr, h1, hI2, hX2, hin, hpn, hR, hP⟩ := close_ok hU hI hX hn hB ord us
  have hcfg : s.cfg = c := hX.cfg
  rw [hcfg] at hI2 hX2
  refine ⟨m2, d2, _, h1, ?_, ?_, ?_, hR, hP⟩
  · have hsh := closed_shape hD h1
    cases us with
    | true => exact ⟨hI2, hX2, hin, hpn, hsh, rfl, rfl, rfl, rfl, rfl, Or.inl rfl⟩
    | false => exact ⟨hI2, hX2, hin, hpn, hsh, rfl, rfl, rfl, rfl, rfl, Or.inr rfl⟩
  · intro h; subst h; rfl
  · intro h; subst h; rfl

end

section
variable {c : Cfg} {U : List (Bytes × Bytes)} {spec : Spec} {n B : Nat} {m2 : Mem} {d2 d : Disk}

theorem Closed.hdr (h : Closed c U spec n B m2 d2 d) : d.ihdr = some ⟨c.bits, c.ifs, 0, hdrPfs c⟩ := by
  rw [h.ihdr]; exact h.xinv.ihdr

theorem Closed.kind (h : Closed c U spec n B m2 d2 d) : m2.kind = c.kind := h.inv.kind

/-- the primary opens on the closed directory, with the same header limit, and changes nothing -/
theorem Closed.openPrimary (h : Closed c U spec n B m2 d2 d) {c' : Cfg} (hc' : c'.Legal)
    (hk : c'.kind = c.kind) (hp : c.kind = .mh → c'.pfs = c.pfs) :
    ∃ pfn plen, Sth.openPrimary c' d = .ok (d, hdrPfs c, pfn, plen) ∧
      (c.kind = .mh → pfn = m2.pfileNum ∧ plen = (fileOf d2.pfiles m2.pfileNum).length) ∧
      (c.kind = .cid → pfn = 0 ∧ plen = (d2.cidfile.getD []).length) := by
  have hIp : PInv m2 d2 := h.inv.p
  have hpfs : hdrPfs c' = hdrPfs c := by
    unfold hdrPfs
    rw [hk]
    cases hkk : c.kind with
    | mh => exact hp hkk
    | cid => rfl
  obtain ⟨cf, pfn, plen, o1, o2, o3⟩ := openPrimary_ok c' hc' d m2.pfileNum
    (by intro hk'; rw [h.phdr, hp (by rw [← hk]; exact hk')]; exact h.xinv.phdr (by rw [← hk]; exact hk'))
    (by intro hk' f hf; rw [h.pfiles]; exact h.xinv.pall (by rw [← hk]; exact hk') f hf)
    (by
      intro hk'
      rw [h.pfiles]
      exact (hIp.mh (by rw [h.kind, ← hk]; exact hk')).2.2 _ (by omega))
  have hcf : cf = d.cidfile := by
    cases hkk : c.kind with
    | mh => exact (o2 (by rw [hk]; exact hkk)).1
    | cid =>
      rw [(o3 (by rw [hk]; exact hkk)).1]
      cases hcd : d.cidfile with
      | none => exact absurd hcd (h.shape.cid hkk)
      | some f => rfl
  refine ⟨pfn, plen, ?_, ?_, ?_⟩
  · rw [o1, hcf, hpfs]
  · intro hkk
    obtain ⟨_, a2, a3⟩ := o2 (by rw [hk]; exact hkk)
    rw [a2, a3, h.pfiles]
    exact ⟨rfl, rfl⟩
  · intro hkk
    obtain ⟨_, a2, a3⟩ := o3 (by rw [hk]; exact hkk)
    rw [a2, a3, h.cidfile]
    exact ⟨rfl, rfl⟩

/-! ### refusals -/

/-- a different primary file-size limit (multihash primary): refused, directory untouched -/
theorem Closed.refuse_pfs (h : Closed c U spec n B m2 d2 d) {c' : Cfg} (hk : c'.kind = c.kind)
    (hmh : c.kind = .mh) (h1 : 1 ≤ c'.pfs) (h2 : c'.pfs ≤ defaultMax) (hne : c'.pfs ≠ c.pfs)
    (order : List Nat) :
    openStoreT c' d order = (d, .error .wrongPrimaryFileSize, []) := by
  have hph : d.phdr = some ⟨c.pfs, 0⟩ := by rw [h.phdr]; exact h.xinv.phdr hmh
  have hop : Sth.openPrimary c' d = .error .wrongPrimaryFileSize := by
    have p0 : c'.pfs ≠ 0 := by omega
    have p1 : ¬ c'.pfs > defaultMax := by omega
    have p2 : c.pfs ≠ c'.pfs := fun e => hne e.symm
    unfold Sth.openPrimary
    simp only [hk, hmh, p0, if_false, p1, hph, ne_eq, p2, not_false_eq_true, if_true]
  unfold openStoreT
  simp only [openFreelist_id h.shape, hop]

/-- a different index file-size limit: refused with `wrongIndexFileSize`, directory untouched — whether
    or not the bit size differs as well -/
theorem Closed.refuse_ifs (h : Closed c U spec n B m2 d2 d) {c' : Cfg} (hc' : c'.Legal)
    (hk : c'.kind = c.kind) (hp : c.kind = .mh → c'.pfs = c.pfs) (hne : c'.ifs ≠ c.ifs)
    (order : List Nat) :
    openStoreT c' d order = (d, .error .wrongIndexFileSize, []) := by
  obtain ⟨pfn, plen, o1, _, _⟩ := h.openPrimary hc' hk hp
  obtain ⟨b8, b31, i1, i2, _, _⟩ := hc'
  have hne' : (⟨c.bits, c.ifs, 0, hdrPfs c⟩ : IdxHeader).max ≠ c'.ifs := fun e => hne e.symm
  unfold openStoreT
  simp only [openFreelist_id h.shape, o1]
  by_cases hb : c.bits = c'.bits
  · rw [openIndex_wrongIfs (hdrPfs c) b8 b31 i2 (by omega) h.hdr hb hne']
  · rw [openIndex_wrongBits (hdrPfs c) b8 b31 i2 h.hdr hb]
    simp only
    rw [translate_wrongIfs c'.kind (hdrPfs c) pfn plen c'.bits order (by omega) h.hdr hne']

/-! ### unchanged bit size: no translation -/

/-- with the bit size of the index header, `openStoreT` is plain `openStore` and translates nothing -/
theorem Closed.same_bits (h : Closed c U spec n B m2 d2 d) {c' : Cfg} (hb : c'.bits = c.bits)
    (order : List Nat) :
    openStoreT c' d order = ((openStore c' d).1, (openStore c' d).2, []) := by
  have := openStoreT_noTranslate c' d order (by
    intro d1 pm pfn plen hp
    apply openIndex_not_wrongBits
    intro hd hh
    obtain ⟨_, p2, _⟩ := openPrimary_frame hp
    rw [p2, openFreelist_id h.shape, h.hdr] at hh
    cases hh
    exact Or.inr hb.symm)
  rw [this]
  unfold openStoreR
  rw [openFreelist_id h.shape]

end

/-- the reopen step of the machine in terms of `closedDisk` and `openStore` -/
theorem stepS_reopen_eq {s : SState} {ord : List Nat} {us : Bool} {d : Disk}
    (h : closedDisk s ord us = some d) :
    stepS s (.reopen ord us) =
      match openStore s.cfg d with
      | (d', .ok m') => ({ s with m := m', d := d' }, .gc)
      | (_, .error _) => (s, .err .other) := by
  unfold closedDisk at h
  cases hcl : storeClose { disk := s.d, mem := some s.m } (fixOrder ord s.m.inext.keys) with
  | none => rw [hcl] at h; cases h
  | some st =>
    rw [hcl] at h
    simp only [Option.some.injEq] at h
    subst h
    simp only [stepS, hcl]
    generalize openStore s.cfg _ = r
    obtain ⟨dd, r⟩ := r
    cases r <;> rfl

section
variable {c : Cfg} {U : List (Bytes × Bytes)} {s : SState} {spec : Spec} {n B : Nat}

/-- reopening a reachable state with its own configuration through `openStoreT` is the machine's
    reopen step: it succeeds, translates nothing (empty key list) and yields the same state -/
theorem reopen_same (hc : c.Legal) (hU : Univ c.kind U) (hI : Inv c U s spec n B) (hX : XInv c s)
    (hD : DShape c s.d) (hn : n < 1073741824) (hB : B < two31) (ord order : List Nat) (us : Bool) :
    ∃ d m' d', closedDisk s ord us = some d ∧ openStoreT c d order = (d', .ok m', []) ∧
      stepS s (.reopen ord us) = (⟨c, m', d'⟩, .gc) := by
  obtain ⟨m2, d2, d, h1, hC, _⟩ := closed_of_reach hU hI hX hD hn hB ord us
  obtain ⟨_, _, _, _, m', d', _, _, r1, _⟩ := step_reopen hc hU hI hX hn hB ord us
  have hcfg : s.cfg = c := hX.cfg
  rw [stepS_reopen_eq h1, hcfg] at r1
  refine ⟨d, m', d', h1, ?_, ?_⟩
  · rw [hC.same_bits rfl order]
    cases ho : openStore c d with
    | mk dd r =>
      rw [ho] at r1
      cases r with
      | error e => simp only [Prod.mk.injEq] at r1; cases r1.2
      | ok mm =>
        simp only [Prod.mk.injEq, SState.mk.injEq] at r1
        obtain ⟨⟨_, rfl, rfl⟩, _⟩ := r1
        rfl
  · rw [stepS_reopen_eq h1, hcfg]
    exact r1

end

end Sth.C09
