/-
Files as sequences of size-prefixed spans (C04): a span is `le32 raw ++ body` where `raw` is the body
length, plus 2^31 when the span is marked deleted.  Both the index files and the multihash primary's
files have this shape; both garbage collectors only flip the deleted bit, merge adjacent deleted spans
and cut a deleted tail off.
Core Lean only.
-/
import Sth.Lemmas.StoreDisk

namespace Sth

structure GSpan where
  dead : Bool
  body : Bytes

def GSpan.raw (s : GSpan) : Nat := s.body.length + (if s.dead then two31 else 0)

def GSpan.bytes (s : GSpan) : Bytes := le32 s.raw ++ s.body

def gbytes (ss : List GSpan) : Bytes := ss.flatMap GSpan.bytes

theorem GSpan.bytes_length (s : GSpan) : s.bytes.length = 4 + s.body.length := by
  unfold GSpan.bytes le32
  simp [leEnc_length]

theorem gbytes_nil : gbytes [] = [] := rfl

theorem gbytes_cons (s : GSpan) (ss : List GSpan) : gbytes (s :: ss) = s.bytes ++ gbytes ss := by
  simp [gbytes]

theorem gbytes_append (a b : List GSpan) : gbytes (a ++ b) = gbytes a ++ gbytes b := by
  simp [gbytes]

theorem gbytes_length_ge : ∀ ss : List GSpan, 4 * ss.length ≤ (gbytes ss).length
  | [] => by simp [gbytes]
  | s :: ss => by
    have := gbytes_length_ge ss
    rw [gbytes_cons, List.length_append, GSpan.bytes_length]
    simp only [List.length_cons]
    omega

theorem gbytes_eq_nil {ss : List GSpan} (h : gbytes ss = []) : ss = [] := by
  cases ss with
  | nil => rfl
  | cons s ss =>
    rw [gbytes_cons] at h
    have := congrArg List.length h
    rw [List.length_append, GSpan.bytes_length] at this
    simp at this

theorem GSpan.raw_lt {s : GSpan} (h : s.body.length < two31) : s.raw < 256 ^ 4 := by
  unfold GSpan.raw
  unfold two31 at h ⊢
  split <;> omega

/-! ### reading at a span boundary -/

theorem readU32_span (pre : Bytes) (s : GSpan) (rest : Bytes) (h : s.body.length < two31) :
    readU32 (pre ++ (s.bytes ++ rest)) pre.length = some s.raw := by
  unfold readU32
  have hA : (le32 s.raw).length = 4 := leEnc_length 4 _
  have := readAt_at_end pre (le32 s.raw) (s.body ++ rest)
  rw [hA] at this
  have e : pre ++ (s.bytes ++ rest) = pre ++ le32 s.raw ++ (s.body ++ rest) := by
    unfold GSpan.bytes; simp [List.append_assoc]
  rw [e, this]
  simp only [Option.map_some]
  unfold le32
  rw [leDec_leEnc 4 _ (GSpan.raw_lt h)]

theorem readAt_span_body (pre : Bytes) (s : GSpan) (rest : Bytes) :
    readAt (pre ++ (s.bytes ++ rest)) (pre.length + 4) s.body.length = some s.body := by
  have hA : (le32 s.raw).length = 4 := leEnc_length 4 _
  have := readAt_at_end (pre ++ le32 s.raw) s.body rest
  have e : pre ++ (s.bytes ++ rest) = pre ++ le32 s.raw ++ s.body ++ rest := by
    unfold GSpan.bytes; simp [List.append_assoc]
  rw [e, ← this]
  congr 1
  simp [hA]

theorem readU32_end (pre : Bytes) : readU32 pre pre.length = none := by
  unfold readU32 readAt
  simp

theorem readAt_end (pre : Bytes) : readAt pre pre.length 4 = none := by
  unfold readAt
  simp

theorem availAt_end (pre : Bytes) : availAt pre pre.length 4 = 0 := by
  unfold availAt
  simp

/-! ### the three writes of the collectors -/

/-- rewriting the size field at a span boundary -/
theorem setDeleted_at (pre : Bytes) (s : GSpan) (rest : Bytes) (n : Nat) :
    setDeleted (pre ++ (s.bytes ++ rest)) pre.length n = pre ++ (le32 (n + two31) ++ (s.body ++ rest)) := by
  unfold setDeleted writeAt
  have hA : (le32 s.raw).length = 4 := leEnc_length 4 _
  have hB : (le32 (n + two31)).length = 4 := leEnc_length 4 _
  rw [List.take_left' rfl, hB]
  have e : pre ++ (s.bytes ++ rest) = (pre ++ le32 s.raw) ++ (s.body ++ rest) := by
    unfold GSpan.bytes; simp [List.append_assoc]
  rw [e, List.drop_left' (by simp [hA])]
  simp [List.append_assoc]

/-- marking a span deleted -/
theorem setDeleted_kill (pre : Bytes) (body rest : Bytes) :
    setDeleted (pre ++ ((⟨false, body⟩ : GSpan).bytes ++ rest)) pre.length body.length =
      pre ++ ((⟨true, body⟩ : GSpan).bytes ++ rest) := by
  rw [setDeleted_at]
  simp [GSpan.bytes, GSpan.raw, List.append_assoc]

/-- merging a deleted span with whatever span follows it -/
theorem setDeleted_merge (pre : Bytes) (b1 : Bytes) (s2 : GSpan) (rest : Bytes) :
    setDeleted (pre ++ ((⟨true, b1⟩ : GSpan).bytes ++ (s2.bytes ++ rest))) pre.length
        (b1.length + 4 + s2.body.length) =
      pre ++ ((⟨true, b1 ++ s2.bytes⟩ : GSpan).bytes ++ rest) := by
  rw [setDeleted_at]
  simp [GSpan.bytes, GSpan.raw, List.append_assoc, leEnc_length, le32]
  rw [Nat.add_assoc (List.length b1)]

theorem truncateTo_at (pre rest : Bytes) : truncateTo (pre ++ rest) pre.length = pre := by
  unfold truncateTo
  exact List.take_left' rfl

/-! ### live spans with their offsets -/

/-- (offset, body) of the spans that are not marked deleted -/
def liveAt : Nat → List GSpan → List (Nat × Bytes)
  | _, [] => []
  | off, s :: ss =>
    if s.dead then liveAt (off + s.bytes.length) ss
    else (off, s.body) :: liveAt (off + s.bytes.length) ss

theorem liveAt_append : ∀ (a b : List GSpan) (off : Nat),
    liveAt off (a ++ b) = liveAt off a ++ liveAt (off + (gbytes a).length) b
  | [], b, off => by simp [liveAt, gbytes]
  | s :: a, b, off => by
    simp only [List.cons_append, liveAt]
    rw [liveAt_append a b, gbytes_cons, List.length_append, Nat.add_assoc]
    split <;> simp

/-- a live span sits inside the file, at a span boundary -/
theorem liveAt_split : ∀ (ss : List GSpan) (base off : Nat) (body : Bytes),
    (off, body) ∈ liveAt base ss →
    ∃ a b, ss = a ++ (⟨false, body⟩ : GSpan) :: b ∧ off = base + (gbytes a).length
  | [], _, _, _, h => by simp [liveAt] at h
  | s :: ss, base, off, body, h => by
    simp only [liveAt] at h
    by_cases hd : s.dead = true
    · rw [if_pos hd] at h
      obtain ⟨a, b, e1, e2⟩ := liveAt_split ss _ off body h
      refine ⟨s :: a, b, by rw [e1]; rfl, ?_⟩
      rw [e2, gbytes_cons, List.length_append]; omega
    · rw [if_neg hd] at h
      simp only [List.mem_cons, Prod.mk.injEq] at h
      rcases h with ⟨rfl, rfl⟩ | h
      · refine ⟨[], ss, ?_, by simp [gbytes]⟩
        have : s.dead = false := by simpa using hd
        cases s
        simp_all
      · obtain ⟨a, b, e1, e2⟩ := liveAt_split ss _ off body h
        refine ⟨s :: a, b, by rw [e1]; rfl, ?_⟩
        rw [e2, gbytes_cons, List.length_append]; omega

theorem liveAt_mem_of_split (a b : List GSpan) (base : Nat) (body : Bytes) :
    (base + (gbytes a).length, body) ∈ liveAt base (a ++ (⟨false, body⟩ : GSpan) :: b) := by
  rw [liveAt_append]
  simp [liveAt]

theorem liveAt_bound {ss : List GSpan} {base off : Nat} {body : Bytes}
    (h : (off, body) ∈ liveAt base ss) : base ≤ off ∧ off + 4 + body.length ≤ base + (gbytes ss).length := by
  obtain ⟨a, b, rfl, rfl⟩ := liveAt_split ss base off body h
  rw [gbytes_append, gbytes_cons, List.length_append, List.length_append, GSpan.bytes_length]
  simp only
  omega

/-- offsets of live spans strictly increase along the file -/
theorem liveAt_sorted : ∀ (ss : List GSpan) (base : Nat),
    (liveAt base ss).Pairwise (fun x y => x.1 < y.1)
  | [], _ => by simp [liveAt]
  | s :: ss, base => by
    simp only [liveAt]
    have ih := liveAt_sorted ss (base + s.bytes.length)
    split
    · exact ih
    · rw [List.pairwise_cons]
      refine ⟨?_, ih⟩
      intro y hy
      have := (liveAt_bound (off := y.1) (body := y.2) (by simpa using hy)).1
      have := GSpan.bytes_length s
      simp only
      omega

end Sth
