/-
C13B (4): the invariant along a REPLAY of recorded events (`replayEv`, `replayFrom`, `replay`): every event is one
section of the small-step machine after the thread was made to exist and given the call the event names.
-/
import Sth.Lemmas.C13B3

namespace Sth.BarrierConc

theorem ensure_getElem? (s : State) (i j : Nat) (u : Thread) (hj : (ensure s i).threads[j]? = some u) :
    s.threads[j]? = some u ∨ (s.threads.length ≤ j ∧ u = {}) := by
  simp only [ensure, List.getElem?_append] at hj
  split at hj
  · exact .inl hj
  · rename_i hlt
    right
    refine ⟨by omega, ?_⟩
    rw [List.getElem?_replicate] at hj
    split at hj
    · cases hj; rfl
    · cases hj

theorem ensure_lt (s : State) (i : Nat) : i < (ensure s i).threads.length := by
  simp [ensure]; omega

theorem ensure_other (s : State) (i j : Nat) (hj : j < s.threads.length) :
    (ensure s i).threads[j]? = s.threads[j]? := by
  simp only [ensure]; exact List.getElem?_append_left hj

theorem ensure_inv {strict : Bool} {c : Nat} {s : State} (h : Inv strict c s) (i : Nat) :
    Inv strict c (ensure s i) := by
  refine ⟨⟨?_, ?_, ?_, ?_⟩, ⟨?_, h.d.phaseGc, h.d.handed, h.d.flIn, ?_, h.d.cover, ?_, h.d.nomiss, h.d.acct,
    h.d.appl⟩⟩
  · intro k hk
    have := h.t.lockLt k hk
    simp [ensure]; omega
  · intro j u hj
    rcases ensure_getElem? s i j u hj with h1 | ⟨h1, rfl⟩
    · exact h.t.lock j u h1
    · constructor
      · intro hh; simp [Pc.holds] at hh
      · intro hl
        have := h.t.lockLt j hl
        exact absurd this (by show ¬ j < s.threads.length; omega)
  · intro j u hj hjc
    rcases ensure_getElem? s i j u hj with h1 | ⟨h1, rfl⟩
    · exact h.t.writers j u h1 hjc
    · intro op hop; cases hop
  · intro j u hj hp
    rcases ensure_getElem? s i j u hj with h1 | ⟨h1, rfl⟩
    · exact h.t.mid j u h1 hp
    · exact absurd rfl hp
  · intro u hu
    rcases ensure_getElem? s i c u hu with h1 | ⟨h1, rfl⟩
    · exact h.d.order u h1
    · rfl
  · intro r hr
    rcases h.d.putIn r hr with h1 | h1 | ⟨j, u, hj, hru⟩
    · exact .inl h1
    · exact .inr (.inl h1)
    · exact .inr (.inr ⟨j, u, by rw [ensure_other s i j (mem_lt hj)]; exact hj, hru⟩)
  · intro hf u hu hp
    rcases ensure_getElem? s i c u hu with h1 | ⟨h1, rfl⟩
    · exact h.d.coverMid hf u h1 hp
    · exact absurd rfl hp

/-- give an idle thread another program -/
theorem Inv.reprogram {strict : Bool} {c : Nat} {s : State} (h : Inv strict c s) {i : Nat} {t : Thread}
    (hi : s.threads[i]? = some t) (hidle : t.pc = .idle) (p : List Op)
    (hw : i ≠ c → ∀ op ∈ p, op.collector = false) (hc : i = c → orderOK strict s.phase p = true) :
    Inv strict c (setThread s i { t with prog := p }) := by
  have hth : (setThread s i { t with prog := p }).threads = s.threads.set i { t with prog := p } := rfl
  refine ⟨?_, ⟨?_, h.d.phaseGc, h.d.handed, h.d.flIn, ?_, h.d.cover, ?_, h.d.nomiss, h.d.acct, h.d.appl⟩⟩
  · exact h.t.set hi hth (.inl ⟨rfl, rfl⟩) hw (fun hp => absurd hidle hp)
  · exact order_of h.d.order hth hc (fun _ => rfl)
  · intro r hr
    rcases h.d.putIn r hr with h1 | h1 | h1
    · exact .inl h1
    · exact .inr (.inl h1)
    · exact .inr (.inr (inFlight_mono hi hth (fun r hr => hr) h1))
  · intro hf u hu hp
    obtain ⟨hu', _⟩ := mid_of_idle hth hidle hu hp
    exact h.d.coverMid hf u hu' hp

theorem pcOf_getElem? {s : State} {i : Nat} (hlt : i < s.threads.length) :
    ∃ t, s.threads[i]? = some t ∧ t.pc = pcOf s i :=
  ⟨s.threads[i], List.getElem?_eq_getElem hlt, by simp [pcOf, List.getElem?_eq_getElem hlt]⟩

theorem setProg_inv {strict : Bool} {c : Nat} {s : State} (h : Inv strict c s) (i : Nat) (p : List Op)
    (hidle : pcOf s i = .idle) (hw : i ≠ c → ∀ op ∈ p, op.collector = false)
    (hc : i = c → orderOK strict s.phase p = true) : Inv strict c (setProg s i p) := by
  unfold setProg
  split
  · rename_i t hi
    refine h.reprogram hi ?_ p hw hc
    simpa [pcOf, hi] using hidle
  · exact h

theorem pcOf_ensure (s : State) (i c : Nat) : pcOf (ensure s i) c = pcOf s c := by
  unfold pcOf
  cases h : (ensure s i).threads[c]? with
  | none =>
    have : s.threads[c]? = none := by
      simp only [ensure, List.getElem?_eq_none_iff, List.length_append] at h ⊢; omega
    simp [this]
  | some u =>
    rcases ensure_getElem? s i c u h with h1 | ⟨h1, rfl⟩
    · simp [h1]
    · have : s.threads[c]? = none := by simp [h1]
      simp [this]

/-- one replayed event (with the order check) keeps the invariant -/
theorem replayEv_inv {c : Nat} {s s' : State} {e : Nat × Ev} (h : Inv false c s)
    (he : e.2.collector = true → e.1 = c) (hs : replayEv true s e = some s') : Inv false c s' := by
  obtain ⟨i, ev⟩ := e
  have h1 := ensure_inv h i
  have hnc : ∀ op : Op, op.collector = false → i ≠ c → ∀ op' ∈ [op], op'.collector = false := by
    intro op hop _ op' hop'; simp at hop'; subst hop'; exact hop
  have hord : ∀ op : Op, op ≠ .apply → ∀ ph : Phase, orderOK false ph [op] = true := by
    intro op hop ph
    cases op <;> cases ph <;> simp_all [orderOK, Phase.next]
  cases ev with
  | pput r =>
    simp only [replayEv] at hs
    split at hs
    · rename_i hid
      exact step_inv (setProg_inv h1 i _ hid (hnc _ rfl) (fun _ => hord _ (by simp) _)) hs
    · cases hs
  | free o =>
    simp only [replayEv] at hs
    split at hs
    · rename_i hid
      exact step_inv (setProg_inv h1 i _ hid (hnc _ rfl) (fun _ => hord _ (by simp) _)) hs
    · cases hs
  | pflushSwapped =>
    simp only [replayEv] at hs
    split at hs
    · rename_i hid
      exact step_inv (setProg_inv h1 i _ hid.1 (hnc _ rfl) (fun _ => hord _ (by simp) _)) hs
    · cases hs
  | pflushEmpty =>
    simp only [replayEv] at hs
    split at hs
    · rename_i hid
      exact step_inv (setProg_inv h1 i _ hid.1 (hnc _ rfl) (fun _ => hord _ (by simp) _)) hs
    · cases hs
  | pflushWritten =>
    simp only [replayEv] at hs
    split at hs
    · exact step_inv h1 hs
    · cases hs
  | fflush =>
    simp only [replayEv] at hs
    split at hs
    · rename_i hid
      exact step_inv (setProg_inv h1 i _ hid (hnc _ rfl) (fun _ => hord _ (by simp) _)) hs
    · cases hs
  | togc =>
    simp only [replayEv] at hs
    have hic : i = c := he rfl
    split at hs
    · rename_i hid
      exact step_inv (setProg_inv h1 i _ hid (fun hne => absurd hic hne) (fun _ => hord _ (by simp) _)) hs
    · cases hs
  | apply =>
    simp only [replayEv] at hs
    have hic : i = c := he rfl
    split at hs
    · rename_i hid
      refine step_inv (setProg_inv h1 i _ hid.1 (fun hne => absurd hic hne) (fun _ => ?_)) hs
      have hnf : (ensure s i).phase ≠ .fresh := by simpa using hid.2
      cases hph : (ensure s i).phase <;> simp_all [orderOK, Phase.next]
    · cases hs
  | remove =>
    simp only [replayEv] at hs
    have hic : i = c := he rfl
    split at hs
    · rename_i hid
      exact step_inv (setProg_inv h1 i _ hid (fun hne => absurd hic hne) (fun _ => hord _ (by simp) _)) hs
    · cases hs

/-! ### every replayed event is one section of the small-step machine -/

theorem shared_ensure (s : State) (i : Nat) : shared (ensure s i) = shared s := rfl
theorem shared_setThread (s : State) (i : Nat) (t : Thread) : shared (setThread s i t) = shared s := rfl
theorem shared_setProg (s : State) (i : Nat) (p : List Op) : shared (setProg s i p) = shared s := by
  unfold setProg; split <;> rfl

theorem setProg_other (s : State) (i j : Nat) (p : List Op) (hji : j ≠ i) :
    (setProg s i p).threads[j]? = s.threads[j]? := by
  unfold setProg; split
  · exact get_set_other _ hji
  · rfl

/-- the state an event is replayed on is one section (`step`) of the event's thread away from a state with the same
    shared part and the same other threads: the replay is a run of the small-step machine in which each thread is
    handed the call its next event names -/
theorem replayEv_is_step {check : Bool} {s s' : State} {e : Nat × Ev} (hs : replayEv check s e = some s') :
    ∃ s1, step s1 e.1 = some s' ∧ shared s1 = shared s ∧
      ∀ j, j ≠ e.1 → j < s.threads.length → s1.threads[j]? = s.threads[j]? := by
  obtain ⟨i, ev⟩ := e
  have hP : ∀ p, shared (setProg (ensure s i) i p) = shared s ∧
      ∀ j, j ≠ i → j < s.threads.length → (setProg (ensure s i) i p).threads[j]? = s.threads[j]? :=
    fun p => ⟨by rw [shared_setProg, shared_ensure],
      fun j hji hj => by rw [setProg_other _ _ _ _ hji, ensure_other _ _ _ hj]⟩
  have hE : shared (ensure s i) = shared s ∧
      ∀ j, j ≠ i → j < s.threads.length → (ensure s i).threads[j]? = s.threads[j]? :=
    ⟨rfl, fun j _ hj => ensure_other _ _ _ hj⟩
  cases ev <;> simp only [replayEv] at hs
  case pput r => split at hs; exact ⟨_, hs, hP _⟩; cases hs
  case free o => split at hs; exact ⟨_, hs, hP _⟩; cases hs
  case pflushSwapped => split at hs; exact ⟨_, hs, hP _⟩; cases hs
  case pflushEmpty => split at hs; exact ⟨_, hs, hP _⟩; cases hs
  case pflushWritten => split at hs; exact ⟨_, hs, hE⟩; cases hs
  case fflush => split at hs; exact ⟨_, hs, hP _⟩; cases hs
  case togc => split at hs; exact ⟨_, hs, hP _⟩; cases hs
  case apply => split at hs; exact ⟨_, hs, hP _⟩; cases hs
  case remove => split at hs; exact ⟨_, hs, hP _⟩; cases hs

theorem replayInit_inv (strict : Bool) (c : Nat) (disk : List Rec) : Inv strict c (replayInit disk) := by
  refine ⟨⟨?_, ?_, ?_, ?_⟩, ⟨?_, ?_, ?_, ?_, ?_, ?_, ?_, rfl, rfl, ?_⟩⟩
  · intro k hk; cases hk
  · intro j u hj; simp [replayInit] at hj
  · intro j u hj; simp [replayInit] at hj
  · intro j u hj; simp [replayInit] at hj
  · intro u hu; simp [replayInit] at hu
  · simp [replayInit]
  · intro h; simp [replayInit] at h
  · intro o ho; simp [replayInit, gcEntries] at ho
  · intro r hr; exact .inr (.inl hr)
  · intro h; simp [replayInit] at h
  · intro h; simp [replayInit] at h
  · intro _; simp [replayInit]

theorem replayFrom_inv {c : Nat} {s s' : State} (evs : List (Nat × Ev)) (h : Inv false c s)
    (he : ∀ e ∈ evs, e.2.collector = true → e.1 = c) (hs : replayFrom true s evs = some s') : Inv false c s' := by
  induction evs generalizing s with
  | nil => simp [replayFrom] at hs; subst hs; exact h
  | cons e r ih =>
    simp only [replayFrom, List.foldlM_cons] at hs
    cases h1 : replayEv true s e with
    | none => simp [h1] at hs
    | some s1 =>
      simp only [h1, Option.bind_eq_bind, Option.bind_some] at hs
      exact ih (replayEv_inv h (he e (by simp)) h1) (fun e' he' => he e' (by simp [he'])) hs

/-- the textual events: a successful parse is position-wise -/
theorem parseEvents_some {events : List (Nat × String)} {evs : List (Nat × Ev)}
    (h : parseEvents events = some evs) :
    ∀ e ∈ evs, ∃ x ∈ events, x.1 = e.1 ∧ parseEv x.2 = some e.2 := by
  induction events generalizing evs with
  | nil => simp [parseEvents] at h; subst h; simp
  | cons x r ih =>
    obtain ⟨i, str⟩ := x
    simp only [parseEvents] at h
    split at h
    · rename_i ev evs' h1 h2
      cases h
      intro e he
      rcases List.mem_cons.1 he with rfl | he
      · exact ⟨(i, str), by simp, rfl, h1⟩
      · obtain ⟨x, hx, hx'⟩ := ih h2 e he
        exact ⟨x, by simp [hx], hx'⟩
    · cases h

end Sth.BarrierConc
