/-
C06F (5): why the list of records a cycle takes at G0 is the list `reapIndexRecords` reads file by file later: the files
below `lastFileNum` are closed — no section of any thread appends to them (`step_closed`), sections only ever set
deleted flags there.  And a cycle that is not cut short looks at every record of every closed file
(`workList_full`).
-/
import Sth.Lemmas.C06F4

namespace Sth.IgcConc

/-- a record without its deleted flag -/
def Rec.key (r : Rec) : Nat × Bucket × Nat := (r.file, r.bucket, r.id)

/-- the records of the files below `l`, flags aside, in log order -/
def closedKeys (log : List Rec) (l : Nat) : List (Nat × Bucket × Nat) :=
  (log.filter fun r => decide (r.file < l)).map Rec.key

theorem closedKeys_kill (q : Rec → Bool) (log : List Rec) (l : Nat) :
    closedKeys (kill q log) l = closedKeys log l := by
  unfold closedKeys kill
  induction log with
  | nil => rfl
  | cons r rest ih =>
    simp only [List.map_cons, List.filter_cons]
    by_cases hq : q r = true <;> by_cases hl : r.file < l <;> simp [hq, hl, Rec.key, ih]

theorem closedKeys_append (log : List Rec) (r : Rec) (l : Nat) (h : l ≤ r.file) :
    closedKeys (log ++ [r]) l = closedKeys log l := by
  unfold closedKeys
  have : ¬ r.file < l := by omega
  simp [List.filter_append, this]

/-- what a section can do to the log and the file number -/
theorem stepWith_log {lk lf : Bool} {s s' : State} {i : Nat} (hs : stepWith lk lf s i = some s') :
    s.fileNum ≤ s'.fileNum ∧
    (s'.log = s.log ∨ (∃ q, s'.log = kill q s.log) ∨ ∃ r, s'.log = s.log ++ [r] ∧ s.fileNum ≤ r.file) := by
  unfold stepWith at hs
  split at hs
  · cases hs
  · split at hs
    · split at hs
      · cases hs
      · cases hs; exact ⟨Nat.le_refl _, .inl rfl⟩
      · split at hs
        · cases hs
        · split at hs <;> (cases hs; exact ⟨Nat.le_refl _, .inl rfl⟩)
      · split at hs
        · cases hs
        · cases hs; exact ⟨Nat.le_refl _, .inl rfl⟩
      · split at hs
        · cases hs
        · cases hs; exact ⟨Nat.le_refl _, .inl rfl⟩
    · rename_i b todo rolls done _
      cases hs
      have hfn : s.fileNum ≤ (writeRec s b (rolls.headD false)).1.fileNum := by
        simp only [writeRec]; split <;> omega
      exact ⟨hfn, .inr (.inr ⟨_, rfl, hfn⟩)⟩
    · cases hs; exact ⟨Nat.le_refl _, .inl rfl⟩
    · cases hs; exact ⟨Nat.le_refl _, .inl rfl⟩
    · split at hs
      · cases hs; exact ⟨Nat.le_refl _, .inl rfl⟩
      · split at hs <;> (cases hs; exact ⟨Nat.le_refl _, .inl rfl⟩)
    · cases hs; exact ⟨Nat.le_refl _, .inr (.inl ⟨_, rfl⟩)⟩
    · split at hs <;> (cases hs; exact ⟨Nat.le_refl _, .inl rfl⟩)
    · cases hs; exact ⟨Nat.le_refl _, .inl rfl⟩
    · cases hs; exact ⟨Nat.le_refl _, .inr (.inl ⟨_, rfl⟩)⟩
    · cases hs; exact ⟨Nat.le_refl _, .inl rfl⟩

/-- the files below a number that is at most `fileNum` are closed: a section leaves their records as they are, flags
    aside (with or without the lock in G0) -/
theorem stepWith_closed {lk lf : Bool} {s s' : State} {i : Nat} (hs : stepWith lk lf s i = some s') {l : Nat}
    (hl : l ≤ s.fileNum) : closedKeys s'.log l = closedKeys s.log l ∧ l ≤ s'.fileNum := by
  obtain ⟨hfn, h | ⟨q, h⟩ | ⟨r, h, hr⟩⟩ := stepWith_log hs
  · exact ⟨by rw [h], Nat.le_trans hl hfn⟩
  · exact ⟨by rw [h, closedKeys_kill], Nat.le_trans hl hfn⟩
  · exact ⟨by rw [h, closedKeys_append _ _ _ (Nat.le_trans hl hr)], Nat.le_trans hl hfn⟩

theorem run_closed {s : State} (sched : List Nat) {l : Nat} (hl : l ≤ s.fileNum) :
    closedKeys (run s sched).log l = closedKeys s.log l ∧ l ≤ (run s sched).fileNum := by
  induction sched generalizing s with
  | nil => exact ⟨rfl, hl⟩
  | cons i r ih =>
    simp only [run, List.foldl_cons]
    cases hs : step s i with
    | none => simpa [run] using ih hl
    | some s1 =>
      have h1 := stepWith_closed (lk := true) (lf := true) hs hl
      have h2 := ih h1.2
      simp only [run] at h2
      simp only [Option.getD_some]
      exact ⟨h2.1.trans h1.1, h2.2⟩

/-- a cycle that is not cut short by the time limit looks at every record of every file below `lastFileNum`, each
    once, whatever file it resumes at -/
theorem workList_full (log : List Rec) (last resumeAt limit : Nat) (h : log.length ≤ limit) :
    (workList log last resumeAt limit).Perm (log.filter fun r => decide (r.file < last)) := by
  unfold workList
  have h1 := List.filter_append_perm (fun r : Rec => decide (resumeAt ≤ r.file))
    (log.filter fun r => decide (r.file < last))
  rw [List.filter_filter, List.filter_filter] at h1
  have e1 : (log.filter fun r => decide (resumeAt ≤ r.file ∧ r.file < last)) =
      log.filter fun a => decide (resumeAt ≤ a.file) && decide (a.file < last) :=
    List.filter_congr fun x _ => by simp
  have e2 : (log.filter fun r => decide (r.file < resumeAt ∧ r.file < last)) =
      log.filter fun a => (!decide (resumeAt ≤ a.file)) && decide (a.file < last) :=
    List.filter_congr fun x _ => by
      by_cases h1 : x.file < resumeAt
      · have : ¬ resumeAt ≤ x.file := by omega
        simp [h1, this]
      · have : resumeAt ≤ x.file := by omega
        simp [h1, this]
  rw [e1, e2]
  rw [List.take_of_length_le]
  · exact h1
  · have := h1.length_eq
    rw [this]
    exact Nat.le_trans (List.length_filter_le _ _) h

end Sth.IgcConc
