/-
C06F (4): the invariant along a REPLAY of recorded events (`replayEv`, `replayFrom`, `replay`): every event is one or
more sections of the small-step machine after the thread was made to exist and given the program / the choices the
event names.
-/
import Sth.Lemmas.C06F3

namespace Sth.IgcConc

theorem ensure_getElem? (s : State) (i j : Nat) (u : Thread) (hj : (ensure s i).threads[j]? = some u) :
    s.threads[j]? = some u ∨ (s.threads.length ≤ j ∧ u = {}) := by
  simp only [ensure, List.getElem?_append] at hj
  split at hj
  · exact .inl hj
  · rename_i hlt
    right
    refine ⟨by omega, ?_⟩
    rw [List.getElem?_replicate] at hj
    split at hj
    · cases hj; rfl
    · cases hj

theorem ensure_lt (s : State) (i : Nat) : i < (ensure s i).threads.length := by
  simp [ensure]; omega

theorem ensure_inv {s : State} (h : Inv s) (i : Nat) : Inv (ensure s i) := by
  refine ⟨h.ids, h.files, h.pub, ?_, ?_, ?_, ?_⟩
  · intro k hk
    have := h.lockLt k hk
    simp [ensure]; omega
  · intro j u hj
    rcases ensure_getElem? s i j u hj with h1 | ⟨h1, rfl⟩
    · exact h.lock j u h1
    · constructor
      · intro hh; simp [Pc.holds] at hh
      · intro hl
        have := h.lockLt j hl
        omega
  · intro j u hj
    rcases ensure_getElem? s i j u hj with h1 | ⟨h1, rfl⟩
    · exact h.thr j u h1
    · trivial
  · intro a b ta tb l ha hb hl bp hbp
    rcases ensure_getElem? s i a ta ha with h1 | ⟨_, rfl⟩
    · rcases ensure_getElem? s i b tb hb with h2 | ⟨_, rfl⟩
      · exact h.cross a b ta tb l h1 h2 hl bp hbp
      · simp [Pc.done] at hbp
    · simp [Pc.bound] at hl

/-- a thread is given another pc of the same kind -/
theorem Inv.repc {s : State} (h : Inv s) {i : Nat} {t : Thread} (hi : s.threads[i]? = some t) (p : Pc)
    (hh : p.holds = t.pc.holds) (hb : p.bound = t.pc.bound) (hd : p.done = t.pc.done) (hok : ThreadOK s p) :
    Inv (setPc s i p) := by
  unfold setPc
  rw [hi]
  exact h.quiet (t' := { t with pc := p }) hi rfl rfl rfl rfl (.inl ⟨rfl, hh⟩) hok
    (fun l hl => .inl (by rw [← hb]; exact hl)) (fun bp hbp => by rw [← hd]; exact hbp)

theorem setProg_inv {s : State} (h : Inv s) (i : Nat) (p : List Op) : Inv (setProg s i p) := by
  unfold setProg
  split
  · rename_i t hi
    exact h.quiet (t' := { t with prog := p }) hi rfl rfl rfl rfl (.inl ⟨rfl, rfl⟩) (h.thr i t hi)
      (fun l hl => .inl hl) (fun bp hbp => hbp)
  · exact h

theorem pcOf_getElem? {s : State} {i : Nat} (hlt : i < s.threads.length) :
    ∃ t, s.threads[i]? = some t ∧ t.pc = pcOf s i :=
  ⟨s.threads[i], List.getElem?_eq_getElem hlt, by simp [pcOf, List.getElem?_eq_getElem hlt]⟩

theorem replayEv_inv {s s' : State} {e : Nat × Ev} (h : Inv s) (hs : replayEv s e = some s') : Inv s' := by
  obtain ⟨i, ev⟩ := e
  have h1 := ensure_inv h i
  obtain ⟨t, hi, hpc⟩ := pcOf_getElem? (ensure_lt s i)
  have hthis := h1.thr i t hi
  cases ev <;> simp only [replayEv] at hs
  case «mut» b => split at hs; exact step_inv (setProg_inv h1 i _) hs; cases hs
  case flushSwapped => split at hs; exact step_inv (setProg_inv h1 i _) hs; cases hs
  case flushEmpty => split at hs; exact step_inv (setProg_inv h1 i _) hs; cases hs
  case flushWritten rolls order =>
    split at hs
    · rename_i b todo rolls0 hp
      rw [← hpc] at hp
      exact stepN_inv (h1.repc hi _ (by rw [hp]; rfl) (by rw [hp]; rfl) (by rw [hp]; rfl) (by simp [ThreadOK])) _ hs
    · cases hs
  case flushPublished =>
    split at hs
    · exact step_inv h1 hs
    · cases hs
  case gcStart => split at hs; exact step_inv (setProg_inv h1 i _) hs; cases hs
  case gcBusy f b id =>
    split at hs
    · rename_i l todo hp
      rw [← hpc] at hp
      rw [hp] at hthis
      split at hs
      · rename_i hc
        exact step_inv (h1.repc hi (.gcScan l [⟨f, b, id, false⟩]) (by rw [hp]; rfl) (by rw [hp]; rfl)
          (by rw [hp]; rfl) ⟨hthis.1, by simpa using hc.1⟩) hs
      · cases hs
    · cases hs
  case gcFree f b id =>
    split at hs
    · rename_i l todo hp
      rw [← hpc] at hp
      rw [hp] at hthis
      split at hs
      · rename_i hc
        exact step_inv (h1.repc hi (.gcScan l [⟨f, b, id, false⟩]) (by rw [hp]; rfl) (by rw [hp]; rfl)
          (by rw [hp]; rfl) ⟨hthis.1, by simpa using hc.1⟩) hs
      · cases hs
    · cases hs
  case gcMarked =>
    split at hs
    · exact step_inv h1 hs
    · cases hs
  case gcEnd =>
    split at hs
    · rename_i l todo hp
      rw [← hpc] at hp
      rw [hp] at hthis
      exact step_inv (h1.repc hi (.gcScan l []) (by rw [hp]; rfl) (by rw [hp]; rfl) (by rw [hp]; rfl)
        ⟨hthis.1, by simp⟩) hs
    · cases hs
  case freeStart => split at hs; exact step_inv (setProg_inv h1 i _) hs; cases hs
  case freeRead n =>
    split at hs
    · split at hs
      · exact stepN_inv h1 _ hs
      · cases hs
    · cases hs
  case freeScanned =>
    split at hs
    · exact step_inv h1 hs
    · cases hs
  case freeTruncated f =>
    split at hs
    · rename_i l files hp
      rw [← hpc] at hp
      rw [hp] at hthis
      split at hs
      · cases hs
      · rename_i fs hfs
        have hsub : ∀ g ∈ List.dropWhile (fun x => x != f) files, g ∈ files :=
          fun g hg => (List.dropWhile_sublist _).subset hg
        exact step_inv (h1.repc hi (.freeTrunc l (List.dropWhile (fun x => x != f) files)) (by rw [hp]; rfl)
          (by rw [hp]; rfl) (by rw [hp]; rfl) ⟨hthis.1, fun g hg => hthis.2 g (hsub g hg)⟩) hs
    · cases hs
  case freeEnd =>
    split at hs
    · rename_i l files hp
      rw [← hpc] at hp
      rw [hp] at hthis
      exact step_inv (h1.repc hi (.freeTrunc l []) (by rw [hp]; rfl) (by rw [hp]; rfl) (by rw [hp]; rfl)
        ⟨hthis.1, by simp⟩) hs
    · cases hs

theorem replayInit_inv : Inv replayInit := init_inv []

theorem replayFrom_inv {s s' : State} (evs : List (Nat × Ev)) (h : Inv s) (hs : replayFrom s evs = some s') :
    Inv s' := by
  induction evs generalizing s with
  | nil => simp [replayFrom] at hs; subst hs; exact h
  | cons e r ih =>
    simp only [replayFrom, List.foldlM_cons] at hs
    cases h1 : replayEv s e with
    | none => simp [h1] at hs
    | some s1 =>
      simp only [h1, Option.bind_eq_bind, Option.bind_some] at hs
      exact ih (replayEv_inv h h1) hs

theorem replay_inv {events : List (Nat × String)} {s : State} (hs : replay events = some s) : Inv s := by
  unfold replay at hs
  split at hs
  · exact replayFrom_inv _ replayInit_inv hs
  · cases hs

/-! ### every replayed event is a run of sections of its thread in the small-step machine -/

theorem shared_setThread (s : State) (i : Nat) (t : Thread) : shared (setThread s i t) = shared s := rfl
theorem shared_setProg (s : State) (i : Nat) (p : List Op) : shared (setProg s i p) = shared s := by
  unfold setProg; split <;> rfl
theorem shared_setPc (s : State) (i : Nat) (p : Pc) : shared (setPc s i p) = shared s := by
  unfold setPc; split <;> rfl

theorem ensure_other (s : State) (i j : Nat) (hj : j < s.threads.length) :
    (ensure s i).threads[j]? = s.threads[j]? := by
  simp only [ensure]; exact List.getElem?_append_left hj

theorem setThread_other (s : State) (i j : Nat) (t : Thread) (hji : j ≠ i) :
    (setThread s i t).threads[j]? = s.threads[j]? := by
  simp [Ne.symm hji]

theorem setProg_other (s : State) (i j : Nat) (p : List Op) (hji : j ≠ i) :
    (setProg s i p).threads[j]? = s.threads[j]? := by
  unfold setProg; split
  · exact setThread_other s i j _ hji
  · rfl

theorem setPc_other (s : State) (i j : Nat) (p : Pc) (hji : j ≠ i) :
    (setPc s i p).threads[j]? = s.threads[j]? := by
  unfold setPc; split
  · exact setThread_other s i j _ hji
  · rfl

theorem stepN_one {s s' : State} {i : Nat} (h : step s i = some s') : stepN s i 1 = some s' := by
  simp [stepN, h]

/-- the state an event is replayed on is `n` sections (`step`) of the event's thread away from a state with the same
    shared part and the same other threads: the replay is a run of the small-step machine in which each thread is
    handed the call, and the choices, its next event names -/
theorem replayEv_is_steps {s s' : State} {e : Nat × Ev} (hs : replayEv s e = some s') :
    ∃ s1 n, stepN s1 e.1 n = some s' ∧ shared s1 = shared s ∧
      ∀ j, j ≠ e.1 → j < s.threads.length → s1.threads[j]? = s.threads[j]? := by
  obtain ⟨i, ev⟩ := e
  have hP : ∀ p, shared (setProg (ensure s i) i p) = shared s ∧
      ∀ j, j ≠ i → j < s.threads.length → (setProg (ensure s i) i p).threads[j]? = s.threads[j]? :=
    fun p => ⟨by rw [shared_setProg]; rfl,
      fun j hji hj => by rw [setProg_other _ _ _ _ hji, ensure_other _ _ _ hj]⟩
  have hC : ∀ p, shared (setPc (ensure s i) i p) = shared s ∧
      ∀ j, j ≠ i → j < s.threads.length → (setPc (ensure s i) i p).threads[j]? = s.threads[j]? :=
    fun p => ⟨by rw [shared_setPc]; rfl,
      fun j hji hj => by rw [setPc_other _ _ _ _ hji, ensure_other _ _ _ hj]⟩
  have hE : shared (ensure s i) = shared s ∧
      ∀ j, j ≠ i → j < s.threads.length → (ensure s i).threads[j]? = s.threads[j]? :=
    ⟨rfl, fun j _ hj => ensure_other _ _ _ hj⟩
  cases ev <;> simp only [replayEv] at hs
  case «mut» b => split at hs; exact ⟨_, 1, stepN_one hs, hP _⟩; cases hs
  case flushSwapped => split at hs; exact ⟨_, 1, stepN_one hs, hP _⟩; cases hs
  case flushEmpty => split at hs; exact ⟨_, 1, stepN_one hs, hP _⟩; cases hs
  case flushWritten rolls order =>
    split at hs
    · exact ⟨_, _, hs, hC _⟩
    · cases hs
  case flushPublished =>
    split at hs
    · exact ⟨_, 1, stepN_one hs, hE⟩
    · cases hs
  case gcStart => split at hs; exact ⟨_, 1, stepN_one hs, hP _⟩; cases hs
  case gcBusy f b id =>
    split at hs
    · split at hs; exact ⟨_, 1, stepN_one hs, hC _⟩; cases hs
    · cases hs
  case gcFree f b id =>
    split at hs
    · split at hs; exact ⟨_, 1, stepN_one hs, hC _⟩; cases hs
    · cases hs
  case gcMarked =>
    split at hs
    · exact ⟨_, 1, stepN_one hs, hE⟩
    · cases hs
  case gcEnd =>
    split at hs
    · exact ⟨_, 1, stepN_one hs, hC _⟩
    · cases hs
  case freeStart => split at hs; exact ⟨_, 1, stepN_one hs, hP _⟩; cases hs
  case freeRead n =>
    split at hs
    · split at hs; exact ⟨_, _, hs, hE⟩; cases hs
    · cases hs
  case freeScanned =>
    split at hs
    · exact ⟨_, 1, stepN_one hs, hE⟩
    · cases hs
  case freeTruncated f =>
    split at hs
    · split at hs
      · cases hs
      · exact ⟨_, 1, stepN_one hs, hC _⟩
    · cases hs
  case freeEnd =>
    split at hs
    · exact ⟨_, 1, stepN_one hs, hC _⟩
    · cases hs

/-- the write order is a permutation of the pool -/
theorem pickOrder_perm (order pool : List Bucket) : (pickOrder order pool).Perm pool := by
  induction order generalizing pool with
  | nil => exact List.Perm.refl _
  | cons b r ih =>
    simp only [pickOrder]
    split
    · rename_i hb
      exact ((ih (pool.erase b)).cons b).trans (List.perm_cons_erase hb).symm
    · exact ih pool

end Sth.IgcConc
