/-
Record-list level lemmas for C08: the scan functions (`findPos`, `getRec`), the list-level invariant
`LInv`, and the effect of `indexPut` / `indexUpdate` / `indexRemove` on it.
Core Lean only.
-/
import Sth.Model.RecordList
import Sth.Lemmas.LexMore

namespace Sth

/-! ### generic list facts -/

theorem split_at {α : Type _} {l : List α} {i : Nat} {x : α} (h : l[i]? = some x) :
    l = l.take i ++ x :: l.drop (i + 1) := by
  obtain ⟨hi, rfl⟩ := List.getElem?_eq_some_iff.mp h
  rw [← List.drop_eq_getElem_cons hi, List.take_append_drop]

/-! ### getRec -/

theorem getRecAux_skip (k : Key) : ∀ (pre rest : RecordList) (i : Nat) (acc : Option (Nat × Entry)),
    (∀ x ∈ pre, ¬ pfx x.pfx k ∧ ¬ klt k x.pfx) →
    getRecAux k (pre ++ rest) i acc = getRecAux k rest (i + pre.length) acc
  | [], rest, i, acc => by simp
  | x :: pre, rest, i, acc => by
    intro h
    have hx := h x (by simp)
    simp only [List.cons_append, getRecAux, hx.1, hx.2, if_false]
    rw [getRecAux_skip k pre rest (i + 1) acc (fun y hy => h y (by simp [hy]))]
    have : i + 1 + pre.length = i + (x :: pre).length := by simp; omega
    rw [this]

theorem getRecAux_nomatch (k : Key) : ∀ (post : RecordList) (i : Nat) (acc : Option (Nat × Entry)),
    (∀ y ∈ post, ¬ pfx y.pfx k) → getRecAux k post i acc = acc
  | [], _, _ => by simp [getRecAux]
  | y :: post, i, acc => by
    intro h
    have hy := h y (by simp)
    simp only [getRecAux, hy, if_false]
    split
    · rfl
    · exact getRecAux_nomatch k post (i + 1) acc (fun z hz => h z (by simp [hz]))

theorem getRecAux_mem (k : Key) : ∀ (rl : RecordList) (i : Nat) (acc : Option (Nat × Entry))
    (j : Nat) (e : Entry), getRecAux k rl i acc = some (j, e) → acc = some (j, e) ∨ e ∈ rl
  | [], _, _, _, _ => by simp [getRecAux]
  | x :: rl, i, acc, j, e => by
    simp only [getRecAux]
    split
    · intro h
      rcases getRecAux_mem k rl _ _ j e h with h' | h'
      · simp at h'; right; simp [h'.2]
      · right; simp [h']
    · split
      · intro h; left; exact h
      · intro h
        rcases getRecAux_mem k rl _ _ j e h with h' | h'
        · left; exact h'
        · right; simp [h']

theorem getRec_mem {rl : RecordList} {k : Key} {j : Nat} {e : Entry}
    (h : getRec rl k = some (j, e)) : e ∈ rl := by
  rcases getRecAux_mem k rl 0 none j e h with h' | h'
  · simp at h'
  · exact h'

theorem getRec_split (k : Key) (pre post : RecordList) (e : Entry)
    (hpre : ∀ x ∈ pre, ¬ pfx x.pfx k ∧ ¬ klt k x.pfx) (he : pfx e.pfx k)
    (hpost : ∀ y ∈ post, ¬ pfx y.pfx k) :
    getRec (pre ++ e :: post) k = some (pre.length, e) := by
  unfold getRec
  rw [getRecAux_skip k pre _ 0 none hpre]
  simp only [getRecAux, he, if_true]
  rw [getRecAux_nomatch k post _ _ hpost]
  simp

/-! ### findPos / prevOf -/

theorem findPos_le : ∀ (rl : RecordList) (k : Key), findPos rl k ≤ rl.length
  | [], _ => by simp [findPos]
  | e :: es, k => by
    simp only [findPos]
    split
    · simp
    · have := findPos_le es k
      simp; omega

theorem findPos_before : ∀ (rl : RecordList) (k : Key),
    ∀ x ∈ rl.take (findPos rl k), ¬ klt k x.pfx
  | [], _ => by simp [findPos]
  | e :: es, k => by
    simp only [findPos]
    split
    · simp
    · rename_i hne
      intro x hx
      simp only [List.take_succ_cons, List.mem_cons] at hx
      rcases hx with rfl | hx
      · exact hne
      · exact findPos_before es k x hx

theorem findPos_at : ∀ (rl : RecordList) (k : Key) (n : Entry),
    rl[findPos rl k]? = some n → klt k n.pfx
  | [], _, _ => by simp [findPos]
  | e :: es, k, n => by
    simp only [findPos]
    split
    · rename_i h
      simp
      rintro rfl
      exact h
    · simp
      exact findPos_at es k n

theorem findPos_append (k : Key) : ∀ (pre rest : RecordList), (∀ x ∈ pre, ¬ klt k x.pfx) →
    findPos (pre ++ rest) k = pre.length + findPos rest k
  | [], rest => by simp
  | x :: pre, rest => by
    intro h
    have hx := h x (by simp)
    simp only [List.cons_append, findPos, hx, if_false]
    rw [findPos_append k pre rest (fun y hy => h y (by simp [hy]))]
    simp; omega

theorem getLast?_take_eq_prevOf (rl : RecordList) (pos : Nat) (h : pos ≤ rl.length) :
    (rl.take pos).getLast? = prevOf rl pos := by
  unfold prevOf
  rw [List.getLast?_take]
  split
  · rfl
  · have hlt : pos - 1 < rl.length := by omega
    rw [List.getElem?_eq_getElem hlt]
    simp

theorem prevOf_mem_take {rl : RecordList} {pos : Nat} {p : Entry} (h : pos ≤ rl.length)
    (hp : prevOf rl pos = some p) : p ∈ rl.take pos := by
  rw [← getLast?_take_eq_prevOf rl pos h] at hp
  exact List.mem_of_getLast? hp

/-! ### equation lemmas for `indexPut` -/

def nbrL (rl : RecordList) (pos : Nat) (k : Key) : Nat :=
  match prevOf rl pos with
  | some p => fncb k p.pfx
  | none => 0

def nbrR (rl : RecordList) (pos : Nat) (k : Key) : Nat :=
  match rl[pos]? with
  | some n => fncb k n.pfx
  | none => 0

/-- the list produced by the "trim and insert" branch of `indexPut` -/
def trimIns (rl : RecordList) (k : Key) (loc : Block) : RecordList :=
  putKeys rl
    [⟨k.take (min (max (nbrL rl (findPos rl k) k) (nbrR rl (findPos rl k) k)) (k.length - 1) + 1), loc⟩]
    (findPos rl k) (findPos rl k)

theorem indexPut_prev_none {full : Block → FullKey} {rl : RecordList} {k : Key} {loc : Block}
    (h : prevOf rl (findPos rl k) = none) :
    indexPut full (some rl) k loc = .set (trimIns rl k loc) := by
  unfold indexPut trimIns nbrL nbrR
  simp only [h]
  rfl

theorem indexPut_prev_not_pfx {full : Block → FullKey} {rl : RecordList} {k : Key} {loc : Block}
    {p : Entry} (h : prevOf rl (findPos rl k) = some p) (hp : ¬ pfx p.pfx k) :
    indexPut full (some rl) k loc = .set (trimIns rl k loc) := by
  unfold indexPut trimIns nbrL nbrR
  simp only [h, hp, if_false]
  rfl

theorem indexPut_prev_noop {full : Block → FullKey} {rl : RecordList} {k : Key} {loc : Block}
    {p : Entry} (h : prevOf rl (findPos rl k) = some p) (hp : pfx p.pfx k)
    (hf : full p.blk = .ok k) :
    indexPut full (some rl) k loc = .noop := by
  unfold indexPut
  simp only [h, hp, hf, if_true, fncb_self, ge_iff_le, Nat.le_refl]

theorem indexPut_prev_split {full : Block → FullKey} {rl : RecordList} {k : Key} {loc : Block}
    {p : Entry} {pk : Key} (h : prevOf rl (findPos rl k) = some p) (hp : pfx p.pfx k)
    (hf : full p.blk = .ok pk) (h1 : fncb k pk < k.length) (h2 : fncb k pk < pk.length) :
    indexPut full (some rl) k loc =
      .set (putKeys rl
        (if klt (pk.take (fncb k pk + 1)) (k.take (fncb k pk + 1)) then
          [⟨pk.take (fncb k pk + 1), p.blk⟩, ⟨k.take (fncb k pk + 1), loc⟩]
         else [⟨k.take (fncb k pk + 1), loc⟩, ⟨pk.take (fncb k pk + 1), p.blk⟩])
        (findPos rl k - 1) (findPos rl k)) := by
  unfold indexPut
  have h1' : ¬ (fncb k pk ≥ k.length) := by omega
  simp only [h, hp, hf, if_true, h1', h2, if_false]
  split <;> rfl

theorem putKeys_split (pre post : RecordList) (e : Entry) (new : List Entry) :
    putKeys (pre ++ e :: post) new pre.length (pre.length + 1) = pre ++ new ++ post := by
  unfold putKeys
  rw [List.take_left' rfl]
  have : pre ++ e :: post = (pre ++ [e]) ++ post := by simp
  rw [this, List.drop_left' (by simp)]

/-! ### the list-level invariant -/

/-- `prim'` extends `prim` (the primary is append-only) -/
def Ext (prim prim' : List Key) : Prop :=
  ∀ (i : Nat) (k : Key), prim[i]? = some k → prim'[i]? = some k

theorem ext_refl (prim : List Key) : Ext prim prim := fun _ _ h => h

theorem lt_of_getElem? {α : Type _} {l : List α} {i : Nat} {x : α} (h : l[i]? = some x) :
    i < l.length := by
  obtain ⟨hi, _⟩ := List.getElem?_eq_some_iff.mp h
  exact hi

theorem ext_append (prim : List Key) (k : Key) : Ext prim (prim ++ [k]) := by
  intro i x h
  rw [List.getElem?_append_left (lt_of_getElem? h)]
  exact h

/-- strictly smaller and not prefix-related -/
def sep (a b : Key) : Prop := klt a b ∧ apart a b

structure LInv (prim : List Key) (rl : RecordList) : Prop where
  sorted : (rl.map (·.pfx)).Pairwise klt
  prefixFree : (rl.map (·.pfx)).Pairwise apart
  ownPrefix : ∀ e ∈ rl, ∃ k, prim[e.blk.off]? = some k ∧ pfx e.pfx k ∧ e.pfx ≠ []
  distinctBlocks : (rl.map (·.blk)).Nodup

theorem LInv.sep {prim : List Key} {rl : RecordList} (h : LInv prim rl) :
    (rl.map (·.pfx)).Pairwise Sth.sep :=
  List.pairwise_and_iff.mpr ⟨h.sorted, h.prefixFree⟩

theorem LInv.mk' {prim : List Key} {rl : RecordList}
    (hsep : (rl.map (·.pfx)).Pairwise Sth.sep)
    (hown : ∀ e ∈ rl, ∃ k, prim[e.blk.off]? = some k ∧ pfx e.pfx k ∧ e.pfx ≠ [])
    (hnd : (rl.map (·.blk)).Nodup) : LInv prim rl :=
  have := List.pairwise_and_iff.mp hsep
  ⟨this.1, this.2, hown, hnd⟩

theorem LInv.nil (prim : List Key) : LInv prim [] :=
  ⟨by simp, by simp, by simp, by simp⟩

theorem LInv.off_lt {prim : List Key} {rl : RecordList} (h : LInv prim rl) :
    ∀ e ∈ rl, e.blk.off < prim.length := by
  intro e he
  obtain ⟨k, hk, _⟩ := h.ownPrefix e he
  exact lt_of_getElem? hk

theorem LInv.fresh {prim : List Key} {rl : RecordList} (h : LInv prim rl) (sz : Nat) :
    (⟨prim.length, sz⟩ : Block) ∉ rl.map (·.blk) := by
  intro hm
  obtain ⟨e, he, heq⟩ := List.mem_map.mp hm
  have := h.off_lt e he
  rw [heq] at this
  exact Nat.lt_irrefl _ this

theorem LInv.left_of {prim : List Key} {pre post : RecordList} {e : Entry}
    (h : LInv prim (pre ++ e :: post)) : ∀ x ∈ pre, Sth.sep x.pfx e.pfx := by
  intro x hx
  have hs := h.sep
  rw [List.map_append, List.pairwise_append] at hs
  exact hs.2.2 x.pfx (List.mem_map_of_mem hx) e.pfx (by simp)

theorem LInv.right_of {prim : List Key} {pre post : RecordList} {e : Entry}
    (h : LInv prim (pre ++ e :: post)) : ∀ y ∈ post, Sth.sep e.pfx y.pfx := by
  intro y hy
  have hs := h.sep
  rw [List.map_append, List.pairwise_append, List.map_cons, List.pairwise_cons] at hs
  exact hs.2.1.1 y.pfx (List.mem_map_of_mem hy)

theorem LInv.own_pfx {prim : List Key} {rl : RecordList} {e : Entry} {k : Key}
    (h : LInv prim rl) (he : e ∈ rl) (hk : prim[e.blk.off]? = some k) : pfx e.pfx k ∧ e.pfx ≠ [] := by
  obtain ⟨k', h1, h2⟩ := h.ownPrefix e he
  rw [hk] at h1
  cases h1
  exact h2

theorem LInv.sublist {prim : List Key} {rl rl' : RecordList} (hs : rl'.Sublist rl)
    (h : LInv prim rl) : LInv prim rl' :=
  ⟨h.sorted.sublist (hs.map _), h.prefixFree.sublist (hs.map _),
    fun e he => h.ownPrefix e (hs.subset he), h.distinctBlocks.sublist (hs.map _)⟩

/-- lookup: an entry is found by the full key it owns -/
theorem LInv.getRec_owner {prim : List Key} {pre post : RecordList} {e : Entry} {k : Key}
    (h : LInv prim (pre ++ e :: post)) (hk : prim[e.blk.off]? = some k) :
    getRec (pre ++ e :: post) k = some (pre.length, e) := by
  have hek : pfx e.pfx k := (h.own_pfx (by simp) hk).1
  apply getRec_split k pre post e _ hek
  · intro y hy hyk
    have := (h.right_of y hy).2
    rcases pfx_comparable hek hyk with c | c
    · exact this.1 c
    · exact this.2 c
  · intro x hx
    have hx' := h.left_of x hx
    constructor
    · intro hxk
      rcases pfx_comparable hxk hek with c | c
      · exact hx'.2.1 c
      · exact hx'.2.2 c
    · exact klt_asymm (ext_left hx'.1 hx'.2 hek).1

/-! ### generic Pairwise surgery -/

theorem pairwise_replace {α : Type _} {R : α → α → Prop} {pre post zs : List α} {p : α}
    (h : (pre ++ p :: post).Pairwise R) (hzs : zs.Pairwise R)
    (hl : ∀ x ∈ pre, R x p → ∀ z ∈ zs, R x z) (hr : ∀ y ∈ post, R p y → ∀ z ∈ zs, R z y) :
    (pre ++ zs ++ post).Pairwise R := by
  rw [List.pairwise_append] at h ⊢
  rw [List.pairwise_append]
  obtain ⟨h1, h2, h3⟩ := h
  rw [List.pairwise_cons] at h2
  refine ⟨⟨h1, hzs, fun x hx z hz => hl x hx (h3 x hx p (by simp)) z hz⟩, h2.2, ?_⟩
  intro a ha y hy
  rw [List.mem_append] at ha
  rcases ha with ha | ha
  · exact h3 a ha y (by simp [hy])
  · exact hr y hy (h2.1 y hy) a ha

theorem LInv.replace {prim prim' : List Key} {pre post : RecordList} {p : Entry}
    (zs : List Entry) (h : LInv prim (pre ++ p :: post)) (hext : Ext prim prim')
    (hz : ∀ z ∈ zs, pfx p.pfx z.pfx ∧ ∃ k, prim'[z.blk.off]? = some k ∧ pfx z.pfx k ∧ z.pfx ≠ [])
    (hzs : (zs.map (·.pfx)).Pairwise Sth.sep)
    (hnd : ((pre ++ zs ++ post).map (·.blk)).Nodup) :
    LInv prim' (pre ++ zs ++ post) := by
  apply LInv.mk'
  · have hs := h.sep
    simp only [List.map_append, List.map_cons] at hs ⊢
    apply pairwise_replace hs hzs
    · intro x _ hxp z hzm
      obtain ⟨z', hz', rfl⟩ := List.mem_map.mp hzm
      exact ext_left hxp.1 hxp.2 (hz z' hz').1
    · intro y _ hpy z hzm
      obtain ⟨z', hz', rfl⟩ := List.mem_map.mp hzm
      exact ext_right hpy.1 hpy.2 (hz z' hz').1
  · intro e he
    simp only [List.mem_append] at he
    rcases he with (he | he) | he
    · obtain ⟨k, h1, h2⟩ := h.ownPrefix e (by simp [he])
      exact ⟨k, hext _ _ h1, h2⟩
    · exact (hz e he).2
    · obtain ⟨k, h1, h2⟩ := h.ownPrefix e (by simp [he])
      exact ⟨k, hext _ _ h1, h2⟩
  · exact hnd

theorem LInv.insert {prim prim' : List Key} {les gts : RecordList} (x : Entry)
    (h : LInv prim (les ++ gts)) (hext : Ext prim prim')
    (hown : ∃ k, prim'[x.blk.off]? = some k ∧ pfx x.pfx k ∧ x.pfx ≠ [])
    (hl : ∀ p, les.getLast? = some p → klt p.pfx x.pfx ∧ apart p.pfx x.pfx)
    (hr : ∀ n, gts.head? = some n → klt x.pfx n.pfx ∧ apart x.pfx n.pfx)
    (hnd : x.blk ∉ (les ++ gts).map (·.blk)) :
    LInv prim' (les ++ x :: gts) ∧
      ((les ++ x :: gts).map (·.blk)).Perm (x.blk :: (les ++ gts).map (·.blk)) := by
  have hs := h.sorted
  have hp := h.prefixFree
  rw [List.map_append] at hs hp
  have key := insert_ok (les.map (·.pfx)) (gts.map (·.pfx)) x.pfx hs hp
    (by
      intro p hp'
      rw [List.getLast?_map] at hp'
      cases hl' : les.getLast? with
      | none => simp [hl'] at hp'
      | some q =>
        simp [hl'] at hp'
        subst hp'
        exact hl q hl')
    (by
      intro n hn'
      rw [List.head?_map] at hn'
      cases hr' : gts.head? with
      | none => simp [hr'] at hn'
      | some q =>
        simp [hr'] at hn'
        subst hn'
        exact hr q hr')
  have hperm : ((les ++ x :: gts).map (·.blk)).Perm (x.blk :: (les ++ gts).map (·.blk)) := by
    simp only [List.map_append, List.map_cons]
    exact List.perm_middle
  refine ⟨⟨?_, ?_, ?_, ?_⟩, hperm⟩
  · simpa only [List.map_append, List.map_cons] using key.1
  · simpa only [List.map_append, List.map_cons] using key.2
  · intro e he
    simp only [List.mem_append, List.mem_cons] at he
    rcases he with he | rfl | he
    · obtain ⟨k, h1, h2⟩ := h.ownPrefix e (by simp [he])
      exact ⟨k, hext _ _ h1, h2⟩
    · exact hown
    · obtain ⟨k, h1, h2⟩ := h.ownPrefix e (by simp [he])
      exact ⟨k, hext _ _ h1, h2⟩
  · rw [hperm.nodup_iff, List.nodup_cons]
    exact ⟨hnd, h.distinctBlocks⟩

end Sth
