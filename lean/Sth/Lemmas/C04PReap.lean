/-
C04 — reapRecords' scan of a primary file (reapPriLoop): records are untouched, deleted spans are
merged, the last two records are remembered for relocation.
Core Lean only.
-/
import Sth.Lemmas.C04PSpan

namespace Sth

/-- `busyAt/busySize` describe the last live span of the list, `prevBusyAt/prevBusySize` the one
    before it (`-1` = none) -/
def LastTwo (l : List (Nat × Bytes)) (busyAt : Int) (busySize : Nat) (prevAt : Int) (prevSize : Nat) :
    Prop :=
  (busyAt = -1 ∧ l = []) ∨
  ∃ (pre : List (Nat × Bytes)) (off : Nat) (body : Bytes), l = pre ++ [(off, body)] ∧
    busyAt = (off : Int) ∧ busySize = body.length ∧
    ((prevAt = -1 ∧ pre = []) ∨
      ∃ (pre' : List (Nat × Bytes)) (off' : Nat) (body' : Bytes), pre = pre' ++ [(off', body')] ∧
        prevAt = (off' : Int) ∧
        prevSize = body'.length)

theorem LastTwo.snoc {l : List (Nat × Bytes)} {ba : Int} {bs : Nat} {pa : Int} {ps : Nat}
    (h : LastTwo l ba bs pa ps) (off : Nat) (body : Bytes) :
    LastTwo (l ++ [(off, body)]) off body.length ba bs := by
  unfold LastTwo at h ⊢
  right
  refine ⟨l, off, body, rfl, rfl, rfl, ?_⟩
  rcases h with ⟨h1, h2⟩ | ⟨pre, off', body', h1, h2, h3, _⟩
  · exact Or.inl ⟨h1, h2⟩
  · exact Or.inr ⟨pre, off', body', h1, h2, h3⟩

/-- all spans have bodies below the deleted bit -/
def SpansLt (ss : List GSpan) : Prop := ∀ s ∈ ss, s.body.length < two31

structure PLoopInv (ss0 : List GSpan) (st : PReap) (done rest : List GSpan) : Prop where
  file : st.file = gbytes (done ++ rest)
  pos : st.pos = (gbytes done).length
  orig : ∃ done0, ss0 = done0 ++ rest ∧ (gbytes done0).length = (gbytes done).length ∧
    liveAt 0 done = liveAt 0 done0 ∧ (∀ lp, DeadMark done0 lp → DeadMark done lp)
  ok : SpansLt (done ++ rest)
  lt : st.freeAt < st.pos ∧ st.busyAt < st.pos
  free : st.freeAt > st.busyAt → ∃ init b1, done = init ++ [(⟨true, b1⟩ : GSpan)] ∧
    st.freeAt = ((gbytes init).length : Int) ∧ st.freeAtSize = b1.length
  last : LastTwo (liveAt 0 done) st.busyAt st.busySize st.prevBusyAt st.prevBusySize

section
variable {ss0 : List GSpan}

theorem PLoopInv.at {st : PReap} {done rest : List GSpan} {s : GSpan}
    (h : PLoopInv ss0 st done (s :: rest)) :
    st.file = gbytes done ++ (s.bytes ++ gbytes rest) ∧ s.body.length < two31 :=
  ⟨by rw [h.file, gbytes_append, gbytes_cons], h.ok s (by simp)⟩

/-- a deleted span that is not merged -/
theorem PLoopInv.keepDead {st st' : PReap} {done rest : List GSpan} {s : GSpan}
    (h : PLoopInv ss0 st done (s :: rest)) (hd : s.dead = true)
    (hfile : st'.file = st.file) (hpos : st'.pos = st.pos + 4 + s.body.length)
    (hf : st'.freeAt = st.pos) (hfs : st'.freeAtSize = s.body.length) (hb : st'.busyAt = st.busyAt)
    (hbs : st'.busySize = st.busySize) (hpa : st'.prevBusyAt = st.prevBusyAt)
    (hps : st'.prevBusySize = st.prevBusySize) :
    PLoopInv ss0 st' (done ++ [s]) rest := by
  obtain ⟨done0, o1, o2, o3, o4⟩ := h.orig
  have hs : s = ⟨true, s.body⟩ := by cases s; simp_all
  have hlen := gbytes_snoc done s
  refine ⟨by rw [hfile, h.file]; simp, by rw [hpos, h.pos, hlen], ?_, by simpa using h.ok, ?_, ?_, ?_⟩
  · refine ⟨done0 ++ [s], by rw [o1]; simp, by rw [gbytes_snoc, gbytes_snoc, o2], ?_, ?_⟩
    · rw [hs, liveAt_snoc_dead, liveAt_snoc_dead]; exact o3
    · intro lp hm
      rcases hm.split with hm | ⟨lp', e, hm⟩
      · exact (o4 lp hm).append_left _
      · rw [e, o2]; exact hm.append_right _
  · have := h.lt
    rw [hf, hb, hpos]; omega
  · intro _
    exact ⟨done, s.body, by rw [← hs], by rw [hf, h.pos], hfs⟩
  · rw [hs, liveAt_snoc_dead, hb, hbs, hpa, hps]; exact h.last

/-- a record -/
theorem PLoopInv.keepLive {st st' : PReap} {done rest : List GSpan} {s : GSpan}
    (h : PLoopInv ss0 st done (s :: rest)) (hd : s.dead = false)
    (hfile : st'.file = st.file) (hpos : st'.pos = st.pos + 4 + s.body.length)
    (hf : st'.freeAt = st.freeAt) (hb : st'.busyAt = st.pos)
    (hbs : st'.busySize = s.body.length) (hpa : st'.prevBusyAt = st.busyAt)
    (hps : st'.prevBusySize = st.busySize) :
    PLoopInv ss0 st' (done ++ [s]) rest := by
  obtain ⟨done0, o1, o2, o3, o4⟩ := h.orig
  have hs : s = ⟨false, s.body⟩ := by cases s; simp_all
  have hlen := gbytes_snoc done s
  refine ⟨by rw [hfile, h.file]; simp, by rw [hpos, h.pos, hlen], ?_, by simpa using h.ok, ?_, ?_, ?_⟩
  · refine ⟨done0 ++ [s], by rw [o1]; simp, by rw [gbytes_snoc, gbytes_snoc, o2], ?_, ?_⟩
    · rw [hs, liveAt_snoc_live, liveAt_snoc_live, o2, o3]
    · intro lp hm
      rcases hm.split with hm | ⟨lp', e, hm⟩
      · exact (o4 lp hm).append_left _
      · rw [e, o2]; exact hm.append_right _
  · have := h.lt
    rw [hf, hb, hpos]; omega
  · intro hgt
    have := h.lt
    rw [hf, hb] at hgt
    omega
  · rw [hs, liveAt_snoc_live, hb, hbs, hpa, hps, h.pos]
    simp only [Nat.zero_add]
    exact h.last.snoc _ _

/-- a deleted span swallowed by the deleted span before it -/
theorem PLoopInv.merge {st st' : PReap} {done rest : List GSpan} {s : GSpan}
    (h : PLoopInv ss0 st done (s :: rest)) (hd : s.dead = true) (hgt : st.freeAt > st.busyAt)
    (hfs : st.freeAtSize + 4 + s.body.length < two31)
    (hfile : st'.file = setDeleted st.file st.freeAt.toNat (st.freeAtSize + 4 + s.body.length))
    (hpos : st'.pos = st.pos + 4 + s.body.length)
    (hf : st'.freeAt = st.freeAt) (hfsz : st'.freeAtSize = st.freeAtSize + 4 + s.body.length)
    (hb : st'.busyAt = st.busyAt) (hbs : st'.busySize = st.busySize)
    (hpa : st'.prevBusyAt = st.prevBusyAt) (hps : st'.prevBusySize = st.prevBusySize) :
    ∃ done', PLoopInv ss0 st' done' rest := by
  obtain ⟨done0, o1, o2, o3, o4⟩ := h.orig
  obtain ⟨init, b1, e1, e2, e3⟩ := h.free hgt
  subst e1
  have hlen0 := gbytes_snoc init (⟨true, b1⟩ : GSpan)
  simp only at hlen0
  have hlen := gbytes_snoc init (⟨true, b1 ++ s.bytes⟩ : GSpan)
  simp only [List.length_append, GSpan.bytes_length] at hlen
  have hpos0 := h.pos
  rw [hlen0] at hpos0
  have hmlen : (b1 ++ s.bytes).length < two31 := by
    simp only [List.length_append, GSpan.bytes_length]; rw [e3] at hfs; omega
  refine ⟨init ++ [(⟨true, b1 ++ s.bytes⟩ : GSpan)], ?_, by rw [hpos, hpos0, hlen]; omega, ?_, ?_, ?_,
    ?_, ?_⟩
  · have : st.freeAt.toNat = (gbytes init).length := by rw [e2]; simp
    rw [hfile, this, e3, h.file]
    have e : gbytes (init ++ [(⟨true, b1⟩ : GSpan)] ++ s :: rest) =
        gbytes init ++ ((⟨true, b1⟩ : GSpan).bytes ++ (s.bytes ++ gbytes rest)) := by
      simp [gbytes_append, gbytes_cons]
    rw [e, setDeleted_merge]
    simp [gbytes_append, gbytes_cons]
  · refine ⟨done0 ++ [s], by rw [o1]; simp, ?_, ?_, ?_⟩
    · rw [gbytes_snoc, o2, hlen0, hlen]; omega
    · have hs : s = ⟨true, s.body⟩ := by cases s; simp_all
      rw [liveAt_snoc_dead]
      rw [liveAt_snoc_dead] at o3
      rw [hs, liveAt_snoc_dead]
      exact o3
    · intro lp hm
      -- marks of done0, and marks of s, both end up in the merged span or before it
      have hm2 : DeadMark (init ++ [(⟨true, b1⟩ : GSpan)] ++ [s]) lp := by
        rcases hm.split with hm | ⟨lp', e, hm⟩
        · exact (o4 lp hm).append_left _
        · rw [e, o2]; exact hm.append_right _
      rw [List.append_assoc] at hm2
      rcases hm2.split with hm3 | ⟨lp', e, hm3⟩
      · exact hm3.append_left _
      · rw [e]
        apply DeadMark.append_right _ init
        exact DeadMark.merge hd hmlen hm3
  · intro x hx
    simp only [List.append_assoc, List.singleton_append, List.mem_append, List.mem_cons] at hx
    rcases hx with hx | rfl | hx
    · exact h.ok x (by simp [hx])
    · exact hmlen
    · exact h.ok x (by simp [hx])
  · have := h.lt
    rw [hf, hb, hpos]; omega
  · intro _
    refine ⟨init, b1 ++ s.bytes, rfl, by rw [hf, e2], ?_⟩
    rw [hfsz, e3]
    simp only [List.length_append, GSpan.bytes_length]
    omega
  · rw [liveAt_snoc_dead, hb, hbs, hpa, hps]
    have := h.last
    rw [liveAt_snoc_dead] at this
    exact this

end

theorem reapPriLoop_inv {ss0 : List GSpan} :
    ∀ (fuel : Nat) (st : PReap) (done rest : List GSpan),
      PLoopInv ss0 st done rest → rest.length < fuel →
      ∃ done', PLoopInv ss0 (reapPriLoop fuel st) done' []
  | 0, _, _, _, _, hf => by omega
  | fuel + 1, st, done, rest, h, hf => by
    rw [reapPriLoop]
    cases rest with
    | nil =>
      have hr : readU32 st.file st.pos = none := by
        rw [h.file, h.pos]; simp only [List.append_nil]; exact readU32_end _
      simp only [hr]
      exact ⟨done, h⟩
    | cons s rest' =>
      obtain ⟨hfile, hlen⟩ := h.at
      have hr : readU32 st.file st.pos = some s.raw := by
        rw [hfile, h.pos]; exact readU32_span _ _ _ hlen
      have hfuel : rest'.length < fuel := by simp at hf; omega
      simp only [hr]
      by_cases hd : s.dead = true
      · have hraw : s.raw = s.body.length + two31 := by unfold GSpan.raw; simp [hd]
        have hge : s.raw ≥ two31 := by omega
        have hsz : s.raw - two31 = s.body.length := by omega
        rw [if_pos hge]
        simp only [hsz]
        by_cases hgt : st.freeAt > st.busyAt
        · simp only [hgt, if_true]
          by_cases hfs : st.freeAtSize + 4 + s.body.length ≥ two31
          · simp only [hfs, if_true]
            exact reapPriLoop_inv fuel _ _ _
              (h.keepDead (st' := ⟨st.file, st.pos + 4 + s.body.length, st.pos, st.busyAt,
                  st.prevBusyAt, st.busySize, st.prevBusySize, st.totalBusy,
                  st.totalFree + s.body.length, s.body.length⟩)
                hd rfl rfl rfl rfl rfl rfl rfl rfl) hfuel
          · simp only [hfs, if_false]
            obtain ⟨done', hm⟩ := h.merge (s := s)
              (st' := ⟨setDeleted st.file st.freeAt.toNat (st.freeAtSize + 4 + s.body.length),
                  st.pos + 4 + s.body.length, st.freeAt, st.busyAt, st.prevBusyAt, st.busySize,
                  st.prevBusySize, st.totalBusy, st.totalFree + s.body.length,
                  st.freeAtSize + 4 + s.body.length⟩)
              hd hgt (by omega) rfl rfl rfl rfl rfl rfl rfl rfl
            exact reapPriLoop_inv fuel _ _ _ hm hfuel
        · simp only [hgt, if_false]
          exact reapPriLoop_inv fuel _ _ _
            (h.keepDead (st' := ⟨st.file, st.pos + 4 + s.body.length, st.pos, st.busyAt,
                st.prevBusyAt, st.busySize, st.prevBusySize, st.totalBusy,
                st.totalFree + s.body.length, s.body.length⟩)
              hd rfl rfl rfl rfl rfl rfl rfl rfl) hfuel
      · have hd' : s.dead = false := by simpa using hd
        have hraw : s.raw = s.body.length := by unfold GSpan.raw; simp [hd']
        have hlt : ¬ s.raw ≥ two31 := by omega
        rw [if_neg hlt]
        simp only [hraw]
        exact reapPriLoop_inv fuel _ _ _
          (h.keepLive (st' := ⟨st.file, st.pos + 4 + s.body.length, st.freeAt, st.pos, st.busyAt,
              s.body.length, st.busySize, st.totalBusy + s.body.length, st.totalFree,
              st.freeAtSize⟩)
            hd' rfl rfl rfl rfl rfl rfl rfl) hfuel

end Sth

namespace Sth

/-- what reapRecords does to a file: records untouched, deleted-bit marks kept (or cut off with the
    tail), never longer -/
structure PReaped (ss0 ss' : List GSpan) : Prop where
  ok : SpansLt ss'
  live : liveAt 0 ss' = liveAt 0 ss0
  marks : ∀ lp, DeadMark ss0 lp → DeadMark ss' lp ∨ (gbytes ss').length ≤ lp
  len : (gbytes ss').length ≤ (gbytes ss0).length

/-- the file part of reapRecords: scan, then cut the deleted tail off -/
theorem reapFile_ok (ss0 : List GSpan) (hok : SpansLt ss0) :
    ∃ ss',
      (if (reapPriLoop ((gbytes ss0).length + 2) { file := gbytes ss0 }).freeAt >
          (reapPriLoop ((gbytes ss0).length + 2) { file := gbytes ss0 }).busyAt then
        truncateTo (reapPriLoop ((gbytes ss0).length + 2) { file := gbytes ss0 }).file
          (reapPriLoop ((gbytes ss0).length + 2) { file := gbytes ss0 }).freeAt.toNat
       else (reapPriLoop ((gbytes ss0).length + 2) { file := gbytes ss0 }).file) = gbytes ss' ∧
      PReaped ss0 ss' ∧
      LastTwo (liveAt 0 ss') (reapPriLoop ((gbytes ss0).length + 2) { file := gbytes ss0 }).busyAt
        (reapPriLoop ((gbytes ss0).length + 2) { file := gbytes ss0 }).busySize
        (reapPriLoop ((gbytes ss0).length + 2) { file := gbytes ss0 }).prevBusyAt
        (reapPriLoop ((gbytes ss0).length + 2) { file := gbytes ss0 }).prevBusySize ∧
      ((reapPriLoop ((gbytes ss0).length + 2) { file := gbytes ss0 }).freeAt >
          (reapPriLoop ((gbytes ss0).length + 2) { file := gbytes ss0 }).busyAt →
        (reapPriLoop ((gbytes ss0).length + 2) { file := gbytes ss0 }).freeAt = 0 → ss' = []) := by
  have h0 : PLoopInv ss0 { file := gbytes ss0 } [] ss0 :=
    ⟨rfl, rfl, ⟨[], rfl, rfl, rfl, fun _ h => h⟩, hok, by simp, by simp, Or.inl ⟨rfl, rfl⟩⟩
  obtain ⟨done, hinv⟩ := reapPriLoop_inv ((gbytes ss0).length + 2) _ [] ss0 h0
    (by have := gbytes_length_ge ss0; omega)
  generalize reapPriLoop ((gbytes ss0).length + 2) { file := gbytes ss0 } = st at hinv ⊢
  obtain ⟨done0, o1, o2, o3, o4⟩ := hinv.orig
  simp only [List.append_nil] at o1
  subst o1
  by_cases hgt : st.freeAt > st.busyAt
  · simp only [hgt, if_true]
    obtain ⟨init, b1, e1, e2, e3⟩ := hinv.free hgt
    subst e1
    have hlen := gbytes_snoc init (⟨true, b1⟩ : GSpan)
    refine ⟨init, ?_, ⟨fun s hs => hinv.ok s (by simp [hs]), ?_, ?_, ?_⟩, ?_, ?_⟩
    · have : st.freeAt.toNat = (gbytes init).length := by rw [e2]; simp
      rw [this, hinv.file]
      simp only [List.append_nil, gbytes_append]
      exact truncateTo_at _ _
    · rw [← o3, liveAt_snoc_dead]
    · intro lp hm
      rcases (o4 lp hm).split with h1 | ⟨lp', e, _⟩
      · exact Or.inl h1
      · right; omega
    · rw [o2, hlen]; omega
    · have := hinv.last
      rw [liveAt_snoc_dead] at this
      exact this
    · intro _ h0'
      rw [e2] at h0'
      have : (gbytes init).length = 0 := by omega
      exact gbytes_eq_nil (List.length_eq_zero_iff.mp this)
  · simp only [hgt, if_false]
    refine ⟨done, by rw [hinv.file]; simp, ⟨fun s hs => hinv.ok s (by simp [hs]), o3,
      fun lp hm => Or.inl (o4 lp hm), by rw [o2]; exact Nat.le_refl _⟩, hinv.last, ?_⟩
    intro hc; exact absurd hc (by simp)

end Sth
