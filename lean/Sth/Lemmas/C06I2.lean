/-
C06 — index GC between the busy check and the mark (hook point `index.gc.busy_checked`), part 2.

`reapIndexRecords` decides per record "in use" (the bucket table points at it) or "free", and marks the
free ones deleted.  In the code the table is read (`Index.busy`) and the mark written in two steps, and
other threads' calls may run in between — and between the checks of different records; in the model the
whole cycle reads ONE table.  The verdict "free" is STABLE under calls of other threads: the table only
moves forward (`idxFlush_up`), to records appended at the write position, so a record the table does not
point at is never pointed at again (`busy_antitone`).  Hence whatever a collector decides to mark on the
basis of a table read EARLIER is a legal reap LATER (`reaped_later`), and writing the reaped file then
keeps the GC invariant (`late_mark_g`).  The verdict "in use" is not stable (a Flush may move the bucket):
the collector then keeps a record that has become garbage until the next cycle — harmless.
Core Lean only.
-/
import Sth.Lemmas.C06I1

namespace Sth.C06W

open Sth.C11 Sth.C13H Sth.C13X

/-- what calls of other threads do to the index side, as seen by the collector -/
structure IdxUp (s s' : SState) : Prop where
  tbl : ∀ b, tbl s.m b ≤ tbl s'.m b
  fnum : s.m.ifileNum ≤ s'.m.ifileNum
  closed : ∀ f, f < s.m.ifileNum → s'.d.ifiles.get? f = s.d.ifiles.get? f

theorem IdxUp.refl (s : SState) : IdxUp s s := ⟨fun _ => Nat.le_refl _, Nat.le_refl _, fun _ _ => rfl⟩

theorem IdxUp.trans {a b c : SState} (h1 : IdxUp a b) (h2 : IdxUp b c) : IdxUp a c :=
  ⟨fun x => Nat.le_trans (h1.tbl x) (h2.tbl x), Nat.le_trans h1.fnum h2.fnum,
    fun f hf => by rw [h2.closed f (Nat.lt_of_lt_of_le hf h1.fnum), h1.closed f hf]⟩

/-- a Put or Remove leaves the table and the file number alone -/
def TblSameM (m m' : Mem) : Prop := m'.buckets = m.buckets ∧ m'.ifileNum = m.ifileNum

theorem tblSameM_memStep : MemStep TblSameM where
  refl := fun _ => ⟨rfl, rfl⟩
  trans := fun h1 h2 => ⟨h2.1.trans h1.1, h2.2.trans h1.2⟩
  put := fun m k v => by
    unfold TblSameM putMem
    split <;> exact ⟨rfl, rfl⟩
  inext := fun _ _ => ⟨rfl, rfl⟩
  flpool := fun _ _ => ⟨rfl, rfl⟩

theorem IdxUp.of_same {s s' : SState} (hm : TblSameM s.m s'.m) (hd : s'.d = s.d) : IdxUp s s' := by
  refine ⟨fun b => ?_, by rw [hm.2]; exact Nat.le_refl _, fun f _ => by rw [hd]⟩
  unfold Sth.tbl
  rw [hm.1]
  exact Nat.le_refl _

section
variable {c : Cfg} {U : List (Bytes × Bytes)} {s : SState} {spec : Spec} {n B : Nat}

/-- Flush: the table moves forward -/
theorem flush_up (hU : Univ c.kind U) (hG : GInv c U s spec n B) (hn : n < 1073741824)
    (hB : B < two31) (order : List Nat) :
    ∃ m' d', storeFlush s.m s.d (fixOrder order s.m.inext.keys) = some (m', d') ∧
      IdxUp s ⟨s.cfg, m', d'⟩ := by
  by_cases hout : outstanding s.m = true
  · obtain ⟨m1, d1, p1, hG1, _, hi1, _⟩ := priFlush_g hU hG hn
    obtain ⟨e1, e2, e3⟩ := priFlush_idx hG.kind p1
    obtain ⟨first, sp, _, hl1⟩ := hG1.y.ilog
    have hU' := hG1.univ hU
    have hpool : ∀ b rl, m1.inext.get? b = some rl → RecLogOK m1.bits (b, rl) := by
      intro b rl hb
      refine ⟨hG1.y.inextLt b rl hb, ?_⟩
      obtain ⟨orl, h1, h2, h3⟩ := hG1.a.recs b
      have : idxRecords m1 d1 b = .ok (some rl) := by unfold idxRecords; rw [hb]
      have h1' : idxRecords m1 d1 b = .ok orl := h1
      rw [this] at h1'
      cases h1'
      simp only [Option.getD_some] at h2 h3
      exact enc_lt31 hU' hG1.bits8 hG1.bits31 h2 h3 hG1.w hB
    obtain ⟨u1, u2, u3⟩ := idxFlush_up (m := m1) (d := d1)
      (order := fixOrder order s.m.inext.keys) hG1.i hl1 hG1.bits31 hpool
    have hshape : ∀ m2 d2, flFlush m2 d2 = (m2, d2) ∨ flFlush m2 d2 = ({ m2 with flpool := [] },
        { d2 with free := some (d2.free.getD [] ++ m2.flpool.flatMap blockBytes) }) := by
      intro m2 d2
      unfold flFlush
      split
      · exact Or.inl rfl
      · exact Or.inr rfl
    cases hif : idxFlush m1 d1 (fixOrder order s.m.inext.keys) with
    | mk m2 d2 =>
    rw [hif] at u1 u2 u3
    simp only at u1 u2 u3
    refine ⟨(flFlush m2 d2).1, (flFlush m2 d2).2, ?_, ?_⟩
    · unfold storeFlush commit
      rw [if_pos hout]
      simp only [p1, hif]
    · have h12 : IdxUp s ⟨s.cfg, m2, d2⟩ := by
        refine ⟨fun b => ?_, by rw [← e2]; exact u2, fun f hf => ?_⟩
        · have : Sth.tbl s.m b = Sth.tbl m1 b := by unfold Sth.tbl; rw [e1]
          rw [this]; exact u1 b
        · show d2.ifiles.get? f = s.d.ifiles.get? f
          rw [u3 f (by rw [e2]; exact hf), e3]
      rcases hshape m2 d2 with e | e
      · rw [e]; exact h12
      · rw [e]; exact ⟨h12.tbl, h12.fnum, h12.closed⟩
  · refine ⟨s.m, s.d, ?_, IdxUp.refl s⟩
    unfold storeFlush; rw [if_neg hout]

/-- one call of another thread -/
theorem idx_step (hU : Univ c.kind U) (hG : GInv c U s spec n B) (hn : n < 268435456) (op : SOp)
    (hop : isWin op = true)
    (hkey : ∀ k, op.keyOf = some k → ∀ dig, keyClass c.kind k = .ok dig → (k, dig) ∈ U)
    (hB : B + op.bytes < two31) : IdxUp s (stepS s op).1 := by
  cases op with
  | put k v =>
    apply IdxUp.of_same
    · rw [stepS_put_fst]; exact storePut_memStep tblSameM_memStep _ _ _ _
    · rw [stepS_put_fst]
  | rm k =>
    apply IdxUp.of_same
    · rw [stepS_rm_fst]; exact storeRemove_memStep tblSameM_memStep _ _ _
    · rw [stepS_rm_fst]
  | get k =>
    obtain ⟨h1, _⟩ := step_read_g hU hG (.get k) (Or.inl ⟨k, rfl⟩) hkey
    rw [h1]; exact IdxUp.refl s
  | has k =>
    obtain ⟨h1, _⟩ := step_read_g hU hG (.has k) (Or.inr (Or.inl ⟨k, rfl⟩)) hkey
    rw [h1]; exact IdxUp.refl s
  | size k =>
    obtain ⟨h1, _⟩ := step_read_g hU hG (.size k) (Or.inr (Or.inr ⟨k, rfl⟩)) hkey
    rw [h1]; exact IdxUp.refl s
  | flush order =>
    obtain ⟨m', d', f1, f2⟩ := flush_up hU hG (by omega) (by omega) order
    have e : (stepS s (.flush order)).1 = ⟨s.cfg, m', d'⟩ := by simp only [stepS, f1]
    rw [e]; exact f2
  | iter order =>
    obtain ⟨m', d', f1, f2⟩ := flush_up hU hG (by omega) (by omega) order
    have e : (stepS s (.iter order)).1 = ⟨s.cfg, m', d'⟩ := by
      simp only [stepS, f1]
      cases storeIter m' d' <;> rfl
    rw [e]; exact f2
  | igc a b => cases hop
  | pgc a b => cases hop
  | reopen a b => cases hop

end

/-- a list of calls of other threads: they return what the map returns, the GC invariant holds for the
    map after them, and the table has only moved forward -/
theorem idx_run {c : Cfg} {U : List (Bytes × Bytes)} (hc : c.Legal) (hU : Univ c.kind U) :
    ∀ (win : List SOp) (s : SState) (spec : Spec) (n B : Nat),
    GInv c U s spec n B → (∀ op ∈ win, isWin op = true) →
    (∀ op ∈ win, ∀ k, op.keyOf = some k → ∀ dig, keyClass c.kind k = .ok dig → (k, dig) ∈ U) →
    GcCountersOK s win → B + (win.map SOp.bytes).sum < two31 →
    (runS s win).2 = (specRun c.kind c.imm spec win).2 ∧
      (∃ n', GInv c U (runS s win).1 (specRun c.kind c.imm spec win).1 n'
        (B + (win.map SOp.bytes).sum)) ∧
      IdxUp s (runS s win).1
  | [], s, _, n, _, hG, _, _, _, _ => ⟨rfl, ⟨n, hG⟩, IdxUp.refl s⟩
  | op :: win, s, spec, n, B, hG, hw, hk, hb, hB => by
    simp only [List.map_cons, List.sum_cons] at hB ⊢
    obtain ⟨hb1, hb2⟩ := hb
    obtain ⟨h1, n1, h2, _⟩ := step_g hc hU hG.tight hb1 op (hk op (by simp)) (by omega)
    have r1 := idx_step hU hG.tight hb1 op (hw op (by simp)) (hk op (by simp)) (by omega)
    obtain ⟨i1, ⟨n2, i2⟩, i3⟩ := idx_run hc hU win (stepS s op).1
      (specStep c.kind c.imm spec op).1 n1 (B + op.bytes) h2 (fun o ho => hw o (by simp [ho]))
      (fun o ho => hk o (by simp [ho])) hb2 (by omega)
    have e2 : B + (op.bytes + (win.map SOp.bytes).sum) = B + op.bytes + (win.map SOp.bytes).sum := by
      omega
    refine ⟨by rw [runS_cons, specRun_cons, h1, i1], ⟨n2, ?_⟩, ?_⟩
    · rw [runS_cons_fst, specRun_cons_fst, e2]; exact i2
    · rw [runS_cons_fst]; exact r1.trans i3

section
variable {c : Cfg} {U : List (Bytes × Bytes)} {s s' : SState} {spec spec' : Spec} {n n' B B' : Nat}

/-- a live record the table points at LATER was pointed at EARLIER: "free" is a stable verdict -/
theorem busy_antitone (hG : GInv c U s spec n B) (hG' : GInv c U s' spec' n' B')
    (hn : n < 1073741824) (hn' : n' < 1073741824) (hup : IdxUp s s') {first : Nat}
    {sp : Nat → List GSpan} (hl : IdxLog s.m s.d first sp) {f : Nat} (h1 : first ≤ f)
    (h2 : f ≤ s.m.ifileNum) {x : Nat × Bytes} (hx : x ∈ liveAt 0 (sp f)) (hb : busyB s'.m f x) :
    busyB s.m f x := by
  have himax : s'.m.imax = s.m.imax := by rw [hG.y.imax, hG'.y.imax]
  have hp1 : 1 ≤ s.m.imax := hG.i.imax
  have hN : s.m.ifileNum < two32 := by have := hG.cntI; unfold two32; omega
  have hN' : s'.m.ifileNum < two32 := by have := hG'.cntI; unfold two32; omega
  obtain ⟨first', sp', _, hl'⟩ := hG'.y.ilog
  obtain ⟨t0, _⟩ := busyB_tbl hb
  obtain ⟨f', off', body', g1, g2, g3, _, g5⟩ := hl'.t1 _ t0
  have hoff' := (hl'.t2 f' g1 g2 _ g3).1
  simp only at hoff'
  -- the later table position, localized
  have hloc : localizeIdx s'.m.imax (Sth.tbl s'.m (leDec (x.2.take 4))) = (off' + 4, f') := by
    rw [g5]; exact localizeIdx_eq (by rw [himax]; exact hp1) hoff' (by omega)
  have hb' := hb
  unfold busyB idxBusy at hb'
  split at hb'
  · cases hb'
  · have e : (s'.m.buckets.get? (leDec (x.2.take 4))).getD 0 = Sth.tbl s'.m (leDec (x.2.take 4)) := rfl
    simp only [e, hloc, Option.some.injEq, decide_eq_true_eq] at hb'
    obtain ⟨hf, ho⟩ := hb'
    have hT' : Sth.tbl s'.m (leDec (x.2.take 4)) = f * s.m.imax + x.1 + 4 := by
      rw [g5, hf, himax]; omega
    obtain ⟨k1, k2⟩ := hl.t2 f h1 h2 x hx
    have hle := hup.tbl (leDec (x.2.take 4))
    exact busy_of_tbl hp1 (by omega) k1 (hl.tag_lt h1 h2 hx).1 (by omega)

/-- what a collector decides to mark on the basis of the table at `s` is a legal reap at `s'` -/
theorem reaped_later (hG : GInv c U s spec n B) (hG' : GInv c U s' spec' n' B')
    (hn : n < 1073741824) (hn' : n' < 1073741824) (hup : IdxUp s s') {first : Nat}
    {sp : Nat → List GSpan} (hl : IdxLog s.m s.d first sp) {k : Nat} (h1 : first ≤ k)
    (h2 : k ≤ s.m.ifileNum) {ss' : List GSpan} (hR : Reaped s.m k s.m.bits (sp k) ss') :
    Reaped s'.m k s'.m.bits (sp k) ss' := by
  have hbits : s'.m.bits = s.m.bits := by rw [hG.y.bits, hG'.y.bits]
  refine ⟨by rw [hbits]; exact hR.ok, hR.sub, ?_⟩
  intro x hx hb
  exact hR.busy x hx (busy_antitone hG hG' hn hn' hup hl h1 h2 hx hb)

/-- index files changed by a reap: from `GI` (C04) back to the GC invariant -/
theorem ginv_of_gi (hG : GInv c U s spec n B) {d' : Disk}
    (hGI : GI s.m s.d d' c.bits c.ifs (hdrPfs c)) : GInv c U ⟨s.cfg, s.m, d'⟩ spec n B := by
  obtain ⟨f1, f2, f3, f4, f5, f6⟩ := hGI.frame
  have hrec : ∀ b, idxRecords s.m d' b = idxRecords s.m s.d b := by
    intro b
    have := hGI.reads b
    unfold Sth.tbl at this
    unfold idxRecords
    rw [this]
  have hpg : ∀ blk, priGet s.m d' blk = priGet s.m s.d blk := fun blk => priGet_congr_disk f1 f2 blk
  obtain ⟨first', sp', e1, e2⟩ := hGI.log
  refine { kmh := hG.kmh, kind := hG.kind, imm := hG.imm, bits8 := hG.bits8, bits31 := hG.bits31,
           a := hG.a.of_ent rfl rfl hrec (fun blk _ k v hg => by rw [hpg]; exact hg) (fun _ h => h),
           pmax1 := hG.pmax1, pmaxle := hG.pmaxle, recs := hG.recs, nextBelow := hG.nextBelow,
           alloc := hG.alloc, plen := ?_, pno := ?_, i := ?_, cntF := hG.cntF, cntI := hG.cntI,
           nodup := hG.nodup, w := hG.w, y := ?_, z := ?_ }
  · show (fileOf d'.pfiles s.m.pfileNum).length = s.m.plength
    rw [f1]; exact hG.plen
  · intro f hf
    show d'.pfiles.get? f = none
    rw [f1]; exact hG.pno f hf
  · refine ⟨hG.i.imax, ?_, ?_, hGI.noFiles, hG.i.sorted⟩
    · intro b rl hb
      have := hGI.reads b
      unfold Sth.tbl at this
      show readDiskBucket d'.ifiles s.m.imax ((s.m.buckets.get? b).getD 0) = _
      rw [this]
      exact hG.i.curDisk b rl hb
    · show (fileOf d'.ifiles s.m.ifileNum).length = s.m.ilength
      have : fileOf d'.ifiles s.m.ifileNum = fileOf s.d.ifiles s.m.ifileNum := by
        unfold fileOf; rw [hGI.last]
      rw [this]
      exact hG.i.len
  · refine ⟨hG.y.cfg, hG.y.bits, hG.y.imax, hG.y.pmax, ⟨first', sp', e1, e2⟩, ?_, hG.y.inextLt⟩
    intro hk
    obtain ⟨pf, q1, q2, q3⟩ := hG.y.phdr hk
    exact ⟨pf, by show d'.phdr = _; rw [f3]; exact q1, q2,
      fun f h1 h2 => by show d'.pfiles.get? f ≠ none; rw [f1]; exact q3 f h1 h2⟩
  · exact hG.z.frame hrec hpg rfl rfl rfl rfl (fun _ => Iff.rfl) f3 f1 f4 f5

/-- THE LATE MARK: a closed index file reaped on the basis of the table at `s` (any killing and merging
    that keeps the records the table pointed at THEN) and written at the LATER state `s'` keeps the GC
    invariant of `s'` -/
theorem late_mark_g (hG : GInv c U s spec n B) (hG' : GInv c U s' spec' n' B')
    (hn : n < 1073741824) (hn' : n' < 1073741824) (hup : IdxUp s s') {first : Nat}
    {sp : Nat → List GSpan} (hl : IdxLog s.m s.d first sp) {k : Nat} (h1 : first ≤ k)
    (h2 : k < s.m.ifileNum) {ss' : List GSpan} (hR : Reaped s.m k s.m.bits (sp k) ss') :
    GInv c U ⟨s'.cfg, s'.m, { s'.d with ifiles := s'.d.ifiles.set k (gbytes ss') }⟩ spec' n' B' := by
  obtain ⟨first', sp', hih', hl'⟩ := hG'.y.ilog
  have hp1 : 1 ≤ s'.m.imax := hG'.i.imax
  have hN' : s'.m.ifileNum < two32 := by have := hG'.cntI; unfold two32; omega
  have hfile : s'.d.ifiles.get? k = some (gbytes (sp k)) := by
    rw [hup.closed k h2]; exact hl.files k h1 (Nat.le_of_lt h2)
  have hk1 : first' ≤ k := by
    apply Classical.byContradiction
    intro hc'
    have := hl'.gone k (by omega)
    rw [hfile] at this
    cases this
  have hk2 : k < s'.m.ifileNum := Nat.lt_of_lt_of_le h2 hup.fnum
  have hsp : sp' k = sp k := by
    apply gbytes_inj
    · intro sx hsx; exact (hl'.ok k hk1 (Nat.le_of_lt hk2) sx hsx).1
    · intro sx hsx; exact (hl.ok k h1 (Nat.le_of_lt h2) sx hsx).1
    · have := hl'.files k hk1 (Nat.le_of_lt hk2)
      rw [hfile] at this
      exact (Option.some.inj this).symm
  have hR' : Reaped s'.m k s'.m.bits (sp' k) ss' := by
    rw [hsp]
    exact reaped_later hG hG' hn hn' hup hl h1 (Nat.le_of_lt h2) hR
  have hG0 : GI s'.m s'.d s'.d c.bits c.ifs (hdrPfs c) :=
    ⟨⟨first', sp', hih', hl'⟩, fun _ => rfl, hG'.i.noFiles, rfl, rfl, rfl, rfl, rfl, rfl, rfl⟩
  exact ginv_of_gi hG' (GI.setFile hG0 hp1 hN' hih' hl' hk1 hk2 hR').1

end

end Sth.C06W
