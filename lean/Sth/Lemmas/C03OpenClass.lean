/-
C03, crashes while OpenStore runs — the directories the theorem is about have the shape `OpenShape`: the
disk of every reachable state, every crash image of a Flush, every crash image of a Close (with or
without the snapshot).
Core Lean only.
-/
import Sth.Lemmas.C03OpenIdem
import Sth.Lemmas.C03K3
import Sth.Lemmas.C03Close

namespace Sth.C03O

section
variable {c : Cfg} {U : List (Bytes × Bytes)} {s : SState} {spec : Spec} {n B : Nat}

theorem diskShape_of_inv_any (hI : Inv c U s spec n B) (hY : YInv c s) (hsn : s.d.snap = none) :
    DiskShape c s.m s.d :=
  ⟨hY.bits, hY.imax, hsn, hY.ilog, hI.i.noFiles, hY.phdr,
    fun hk => (hI.p.mh (by rw [hI.kind]; exact hk)).2.2 _ (Nat.lt_succ_self _)⟩

end

/-- a fully described disk has the shape, without torn tails, with any freelist and with either no
    snapshot or the snapshot Close saves from the table -/
theorem diskShape_openShape_gen {c : Cfg} {m : Mem} {d : Disk} (h : DiskShape c m d)
    (hs : NMap.Sorted m.buckets) (fr : Option Bytes) (osn : Option Snap)
    (hsn : osn = none ∨ osn = some ⟨8 * 2 ^ m.bits, m.buckets.filter (·.2 ≠ 0)⟩) :
    ∃ pf first sp, OpenShape c { d with snap := osn, free := fr }
      pf m.pfileNum first m.ifileNum sp (fun _ => []) := by
  obtain ⟨first, sp, hih, hl⟩ := h.ilog
  have hl' : IdxLogT c.bits c.ifs m.ifileNum d.ifiles (tbl m) first sp := by
    have h0 : IdxLogT m.bits m.imax m.ifileNum d.ifiles (tbl m) first sp := hl
    rw [h.bits, h.imax] at h0; exact h0
  have hpf : ∃ pf, (c.kind = .mh → d.phdr = some ⟨c.pfs, pf⟩) ∧ (c.kind = .mh → pf ≤ m.pfileNum) ∧
      (c.kind = .mh → ∀ f, pf ≤ f → f ≤ m.pfileNum → d.pfiles.get? f ≠ none) := by
    rcases (by cases c.kind <;> simp : c.kind = .mh ∨ c.kind = .cid) with hk | hk
    · obtain ⟨pf, q1, q2, q3⟩ := h.phdr hk
      exact ⟨pf, fun _ => q1, fun _ => q2, fun _ => q3⟩
    · have hno : ¬ c.kind = .mh := by rw [hk]; intro h'; cases h'
      exact ⟨0, fun hk' => absurd hk' hno, fun hk' => absurd hk' hno, fun hk' => absurd hk' hno⟩
  obtain ⟨pf, q1, q2, q3⟩ := hpf
  refine ⟨pf, first, sp, hih, q1, q2, q3, h.pno, hl'.le, ?_, h.ino _ (Nat.lt_succ_self _), hl'.ok,
    fun _ _ _ => isTorn_nil _, ?_⟩
  · intro f h1 h2
    show d.ifiles.get? f = _
    rw [hl'.files f h1 h2, List.append_nil]
  · intro sn hsn' _
    have hsn'' : osn = some sn := hsn'
    rcases hsn with h0 | h0
    · rw [h0] at hsn''; cases hsn''
    · rw [h0] at hsn''
      cases hsn''
      refine ⟨fun _ _ _ => rfl, ?_⟩
      intro b
      show (NMap.get? (m.buckets.filter (·.2 ≠ 0)) b).getD 0 = scanTbl c sp first m.ifileNum b
      rw [NMap.get?_filter_nz hs b]
      exact (scan_tbl hl' b).symm

theorem diskShape_openShape {c : Cfg} {m : Mem} {d : Disk} (h : DiskShape c m d)
    (hs : NMap.Sorted m.buckets) :
    ∃ pf first sp, OpenShape c d pf m.pfileNum first m.ifileNum sp (fun _ => []) := by
  obtain ⟨pf, first, sp, o⟩ := diskShape_openShape_gen h hs d.free d.snap (Or.inl h.snap)
  exact ⟨pf, first, sp, o⟩

section
variable {c : Cfg} {U : List (Bytes × Bytes)} {s : SState} {spec : Spec} {n B : Nat}

/-- every crash image of the flush described by the package has the shape -/
theorem flush_image_shape {first pf : Nat} {m1 m2 : Mem} {d1 d2 : Disk}
    (hF : FlushPack c U s spec n B first pf m1 d1 m2 d2) (fr : Option Bytes)
    (hFr : OptExt s.d.free fr) (k : Nat) (early : Bool) :
    ∃ Pm M sp junk, OpenShape c
      (crashImage s.d (appendStream s.d { d2 with free := fr }) k early) pf Pm first M sp junk := by
  have hd2 := hF.hd2
  obtain ⟨PI', sI⟩ := hF.sI
  obtain ⟨sp, hl⟩ := hF.ilog
  have hd' : ({ d2 with free := fr } : Disk) =
      { s.d with pfiles := d1.pfiles, cidfile := d1.cidfile, ifiles := d2.ifiles, free := fr } := by
    conv => lhs; rw [hd2]
  obtain ⟨fiP, cf, fiI, fr', hEq, cP, cC, cI, _, hphase, _⟩ :=
    crashImage_form4 s.d d1.pfiles d1.cidfile d2.ifiles fr hF.sP hF.sC (Or.inr ⟨_, _, _, sI⟩) hFr k early
  rw [hd', hEq]
  have hfN : first ≤ s.m.ifileNum := hl.le
  -- the index files of the image
  have hidx : ∃ (M : Nat) (spI : Nat → List GSpan) (junk : Nat → Bytes),
      first ≤ M ∧
      (∀ f, first ≤ f → f ≤ M → fiI.get? f = some (gbytes (spI f) ++ junk f)) ∧
      (∀ f, M < f → fiI.get? f = none) ∧
      (∀ f, first ≤ f → f ≤ M → ∀ s ∈ spI f, IdxSpanOK c.bits s) ∧ (∀ f, IsTorn c.bits (junk f)) := by
    rcases hphase with hlit | hpc
    · refine ⟨s.m.ifileNum, sp, fun _ => [], hfN, ?_, ?_, hl.ok, fun _ => isTorn_nil _⟩
      · intro f h1 h2; rw [hlit, hl.files f h1 h2, List.append_nil]
      · intro f hf; rw [hlit]; exact hF.ino _ hf
    · obtain ⟨M, spI, junk, blks, g0, g1, g2, _, g3, g4, _⟩ := hF.himg fiI cI
      exact ⟨M, spI, junk, g0, g1, g2, g3, g4⟩
  obtain ⟨M, spI, junk, g0, g1, g2, g3, g4⟩ := hidx
  -- the primary files of the image
  have hPm : ∃ Pm, c.kind = .mh → pf ≤ Pm ∧
      (∀ f, pf ≤ f → f ≤ Pm → ∃ j, fiP.get? f = some (fileOf s.d.pfiles f ++ j)) ∧
      (∀ f, Pm < f → fiP.get? f = none) := by
    rcases (by cases c.kind <;> simp : c.kind = .mh ∨ c.kind = .cid) with hk | hk
    · obtain ⟨P', segP, _⟩ := hF.smh hk
      obtain ⟨Mp, h1, h1', h2, h3⟩ := cutImg_ext4 segP cP
      exact ⟨Mp, fun _ => ⟨by have := segP.lo; omega, h2, h3⟩⟩
    · have hno : ¬ c.kind = .mh := by rw [hk]; intro h; cases h
      exact ⟨0, fun hk' => absurd hk' hno⟩
  obtain ⟨Pm, hPm⟩ := hPm
  refine ⟨Pm, M, spI, junk, hF.ihdr, hF.phdr, fun hk => (hPm hk).1, ?_, fun hk => (hPm hk).2.2 _ (by omega),
    g0, g1, g2 _ (by omega), g3, fun f _ _ => g4 f, ?_⟩
  · intro hk f hf1 hf
    obtain ⟨j, hj⟩ := (hPm hk).2.1 f hf1 hf
    show fiP.get? f ≠ none
    rw [hj]; simp
  · intro sn hsn
    have : s.d.snap = some sn := hsn
    rw [hF.snap] at this; cases this

end

section
variable {c : Cfg} {U : List (Bytes × Bytes)} {s : SState} {spec : Spec} {n B : Nat}

/-- the package from the C01/C04 invariant for either primary, when the primary header's first file is
    still 0 (no primary GC cycle has run) -/
theorem flushPack_of_inv_any (hU : Univ c.kind U) (hI : Inv c U s spec n B) (hY : YInv c s)
    (hph0 : c.kind = .mh → s.d.phdr = some ⟨c.pfs, 0⟩) (hD : DiskG s.d)
    (hn : n < 1073741824) (hB : B < two31) (order : List Nat) :
    ∃ first m1 d1 m2 d2, priFlush s.m s.d = some (m1, d1) ∧
      idxFlush m1 d1 (fixOrder order s.m.inext.keys) = (m2, d2) ∧
      FlushPack c U s spec n B first 0 m1 d1 m2 d2 ∧
      Inv c U ⟨s.cfg, m2, d2⟩ spec n B ∧ YInv c ⟨s.cfg, m2, d2⟩ ∧ m2.flpool = s.m.flpool ∧
      d2.free = s.d.free := by
  rcases (by cases c.kind <;> simp : c.kind = .mh ∨ c.kind = .cid) with hkmh | hcid
  · obtain ⟨m1, d1, m2, d2, p1, i1, hI2, hY2, hin, hpn, hfl, hR, _, hfree, _⟩ :=
      flushBoth_inv4 hU hI hY hn hB order
    have hkind : s.m.kind = .mh := by rw [hI.kind, hkmh]
    have hnocid : ¬ c.kind = .cid := by rw [hkmh]; intro h; cases h
    have hall0 : ∀ f, 0 ≤ f → f ≤ s.m.pfileNum → s.d.pfiles.get? f ≠ none := by
      obtain ⟨pf', y1, _, y3⟩ := hY.phdr hkmh
      have e : pf' = 0 := by
        rw [hph0 hkmh] at y1
        simp only [Option.some.injEq, PriHeader.mk.injEq, true_and] at y1
        exact y1.symm
      subst e
      exact y3
    have hpst : PFoldSt4 0 s.m s.d :=
      ⟨Nat.zero_le _, fun f hf => absurd hf (Nat.not_lt_zero _), hall0, (hI.p.mh hkind).2.2, hD.sp⟩
    obtain ⟨s1, s2, s3, s4, s5, _⟩ := priFlush_seg4 (pf := 0) p1 hD.sp (fun _ => hpst)
    obtain ⟨P', sg1, sg2, _⟩ := s5 hkind
    have hm1 := priFlush_mem p1
    have hd1i : d1.ifiles = s.d.ifiles := by rw [s1]
    obtain ⟨first, sp, q1, q2, ⟨PI', q3⟩, q4, _⟩ := index_pack hU (CoreInv.of_inv hI hY) hn hB hD.si
      order m1.pcur m1.pfileNum m1.plength d1 hd1i
    rw [← hm1, i1] at q3 q4
    have hdd : d2 = { d1 with ifiles := d2.ifiles } := by
      have := idxFlush_disk m1 d1 (fixOrder order s.m.inext.keys)
      rw [i1] at this
      exact this
    have hd2 : d2 = { s.d with pfiles := d1.pfiles, cidfile := d1.cidfile, ifiles := d2.ifiles } := by
      conv => lhs; rw [hdd, s1]
    have hIp2 : PInv m2 d2 := hI2.p
    have hk2 : m2.kind = .mh := by have : m2.kind = c.kind := hI2.kind; rw [this, hkmh]
    have halloc : m2.pfileNum = m2.precFileNum ∧ m2.plength = m2.precPos := by
      have := (hIp2.mh hk2).1
      rw [hpn] at this
      exact this
    have hph : d2.phdr = s.d.phdr := by rw [hd2]
    obtain ⟨pf', y1, y2, y3⟩ := hY2.phdr hkmh
    have hpfe : pf' = 0 := by
      have e : d2.phdr = some ⟨c.pfs, pf'⟩ := y1
      rw [hph, hph0 hkmh] at e
      simp only [Option.some.injEq, PriHeader.mk.injEq, true_and] at e
      exact e.symm
    subst hpfe
    refine ⟨first, m1, d1, m2, d2, p1, i1, ?_, hI2, hY2, hfl, hfree⟩
    refine { kind2 := hI2.kind, imm2 := hI2.imm, bits2 := hY2.bits, pmax2 := hY2.pmax, a2 := hI2.a,
             hin := hin, hpn := hpn, hR := hR,
             entDisk := fun blk _ k v hg => priGet_disk_of_got hIp2 hpn hg,
             allocMh := fun _ => ⟨halloc.1, halloc.2, (hIp2.mh hk2).2.1, (hIp2.mh hk2).2.2, y2, y3⟩,
             allocCid := fun hk => absurd hk hnocid,
             cntMh := fun _ => hI2.cnt.mh hk2, cntCid := fun hk => absurd hk hnocid,
             cntI2 := ?_, ino2 := hI2.i.noFiles, hd2 := hd2, sP := s3, sC := s4, sbits := hY.bits,
             simax := hY.imax, ihdr := q1, ilog := ⟨sp, q2⟩, ino := hI.i.noFiles, sI := ⟨PI', q3⟩,
             himg := q4, phdr := hph0, smh := fun _ => ⟨P', sg1, sg2⟩,
             scid := fun hk => absurd hk hnocid, snap := hD.snap }
    have e : m2.ifileNum + m2.inext.length ≤ n := hI2.cnt.idx
    omega
  · exact flushPack_of_inv hcid hU hI hY hD hn hB order

end

end Sth.C03O
