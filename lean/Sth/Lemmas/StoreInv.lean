/-
The observational invariant of the store refinement (C01, layer 1): every bucket's record list is
sorted / prefix-free / owned, every entry resolves through the primary to a record of the
specification map, and every record of the specification map has an entry.
Core Lean only.
-/
import Sth.Lemmas.StoreObs

namespace Sth

/-- the key universe of a run: pairs (key bytes, digest) of the well-formed keys that occur -/
structure Univ (kind : PKind) (U : List (Bytes × Bytes)) : Prop where
  cls : ∀ p ∈ U, keyClass kind p.1 = .ok p.2
  inj : ∀ p ∈ U, ∀ q ∈ U, p.2 = q.2 → p.1 = q.1
  pf : ∀ p ∈ U, ∀ q ∈ U, p.2 ≠ q.2 → ¬ pfx p.2 q.2
  len : ∀ p ∈ U, p.2.length ≤ 255 ∧ bytesOK p.1
  exact : ∀ p ∈ U, readNode kind p.1 = some (p.1, [])

theorem Univ.dig {kind : PKind} {U : List (Bytes × Bytes)} (hU : Univ kind U) {key dig : Bytes}
    (h : (key, dig) ∈ U) :
    indexKeyOf kind key = some dig ∧ 4 ≤ dig.length ∧ dig.length ≤ 255 ∧ bytesOK dig := by
  have h1 := keyClass_ok (hU.cls _ h)
  have h2 := hU.len _ h
  refine ⟨h1.1, h1.2, h2.1, ?_⟩
  intro x hx
  exact h2.2 x (indexKeyOf_mem kind key dig h1.1 x hx)

theorem Univ.apart {kind : PKind} {U : List (Bytes × Bytes)} (hU : Univ kind U) {bits : Nat}
    (h8 : 8 ≤ bits) (h31 : bits ≤ 31) {k1 d1 k2 d2 : Bytes} {b : Nat}
    (h1 : (k1, d1) ∈ U) (h2 : (k2, d2) ∈ U) (hne : d1 ≠ d2)
    (hb1 : bucketOfKey bits d1 = some b) (hb2 : bucketOfKey bits d2 = some b) :
    Sth.apart (d1.drop (bits / 8)) (d2.drop (bits / 8)) :=
  strip_apart bits h8 h31 d1 d2 (hU.dig h1).2.2.2 (hU.dig h2).2.2.2 b hb1 hb2
    ⟨hU.pf _ h1 _ h2 hne, hU.pf _ h2 _ h1 (Ne.symm hne)⟩

/-- what an index entry's block must resolve to -/
structure BlockOK (kind : PKind) (bits : Nat) (U : List (Bytes × Bytes)) (P : Block → PGet)
    (below : Block → Prop) (spec : Spec) (b : Nat) (blk : Block) : Prop where
  ex : ∃ key val dig, P blk = .got key val ∧ (key, dig) ∈ U ∧ bucketOfKey bits dig = some b ∧
    blk.size = key.length + val.length ∧ Spec.get spec dig = some (key, val)
  below : below blk
  off : blk.off < two64
  size : blk.size < two31

structure AInv (kind : PKind) (bits : Nat) (U : List (Bytes × Bytes)) (P : Block → PGet)
    (R : Nat → Except Err (Option RecordList)) (below : Block → Prop) (spec : Spec) : Prop where
  recs : ∀ b, ∃ orl, R b = .ok orl ∧ OInv (ownOf kind bits P) (orl.getD []) ∧
    ∀ e ∈ orl.getD [], BlockOK kind bits U P below spec b e.blk
  complete : ∀ dig key val, Spec.get spec dig = some (key, val) →
    ∃ b rl e, bucketOfKey bits dig = some b ∧ R b = .ok (some rl) ∧ e ∈ rl ∧
      P e.blk = .got key val ∧ (key, dig) ∈ U

section
variable {kind : PKind} {bits : Nat} {U : List (Bytes × Bytes)} {P P' : Block → PGet}
  {R R' : Nat → Except Err (Option RecordList)} {below below' : Block → Prop} {spec spec' : Spec}

theorem BlockOK.mono {b : Nat} {blk : Block} (h : BlockOK kind bits U P below spec b blk)
    (hP : ∀ blk k v, below blk → P blk = .got k v → P' blk = .got k v)
    (hB : ∀ blk, below blk → below' blk)
    (hspec : ∀ key val dig0, P blk = .got key val → (key, dig0) ∈ U →
      Spec.get spec' dig0 = Spec.get spec dig0) :
    BlockOK kind bits U P' below' spec' b blk := by
  obtain ⟨key, val, dig, h1, h2, h3, h4, h5⟩ := h.ex
  exact ⟨⟨key, val, dig, hP _ _ _ h.below h1, h2, h3, h4, by rw [hspec key val dig h1 h2]; exact h5⟩,
    hB _ h.below, h.off, h.size⟩

/-- the digest of the record an entry points at -/
theorem BlockOK.own (hU : Univ kind U) (h31 : bits ≤ 31) {b : Nat} {blk : Block}
    (h : BlockOK kind bits U P below spec b blk) :
    ∃ key val dig, P blk = .got key val ∧ (key, dig) ∈ U ∧ bucketOfKey bits dig = some b ∧
      Spec.get spec dig = some (key, val) ∧ ownOf kind bits P blk = some (dig.drop (bits / 8)) := by
  obtain ⟨key, val, dig, h1, h2, h3, _, h5⟩ := h.ex
  exact ⟨key, val, dig, h1, h2, h3, h5,
    ownOf_got h1 (hU.dig h2).1 (stripKey_of_bucket bits h31 dig b h3).1⟩

/-- codec well-formedness of a record list under the invariant -/
theorem wf_of_inv (hU : Univ kind U) (h31 : bits ≤ 31) {b : Nat} {rl : RecordList}
    (ho : OInv (ownOf kind bits P) rl)
    (hb : ∀ e ∈ rl, BlockOK kind bits U P below spec b e.blk) :
    ∀ e ∈ rl, e.pfx.length < 256 ∧ e.blk.off < two64 ∧ e.blk.size < two32 := by
  intro e he
  have hB := hb e he
  obtain ⟨key, val, dig, h1, h2, h3, _, h5⟩ := hB.own hU h31
  have hp := (ho.own_pfx he h5).1
  have hl := pfx_length_le hp
  have := (hU.dig h2).2.2.1
  have hs := hB.size
  simp only [List.length_drop] at hl
  refine ⟨by omega, hB.off, ?_⟩
  unfold two31 at hs; unfold two32; omega

theorem normRL_of_wf {rl : RecordList}
    (h : ∀ e ∈ rl, e.pfx.length < 256 ∧ e.blk.off < two64 ∧ e.blk.size < two32) : normRL rl = rl := by
  unfold normRL decodeRL
  have := decodeAux_encode rl ((encodeRL rl).length + 1) [] h
    (by have := encodeRL_length_ge rl; omega)
  rw [this]
  simp

/-- the invariant only depends on the observations -/
theorem AInv.mono (h : AInv kind bits U P R below spec)
    (hP : ∀ blk k v, below blk → P blk = .got k v → P' blk = .got k v)
    (hB : ∀ blk, below blk → below' blk)
    (hR : ∀ b, R' b = R b) : AInv kind bits U P' R' below' spec := by
  constructor
  · intro b
    obtain ⟨orl, h1, h2, h3⟩ := h.recs b
    refine ⟨orl, by rw [hR, h1], ?_, ?_⟩
    · apply OInv.congr _ h2
      intro e he k hk
      exact ownOf_mono (fun k v hg => hP _ k v (h3 e he).below hg) hk
    · intro e he
      exact (h3 e he).mono hP hB (fun _ _ _ _ _ => rfl)
  · intro dig key val hs
    obtain ⟨b, rl, e, h1, h2, h3, h4, h5⟩ := h.complete dig key val hs
    obtain ⟨orl, g1, _, g3⟩ := h.recs b
    rw [h2] at g1
    cases g1
    exact ⟨b, rl, e, h1, by rw [hR, h2], h3, hP _ _ _ (g3 e h3).below h4, h5⟩

/-- a key of the specification map is found through the index -/
theorem AInv.present (hU : Univ kind U) (h31 : bits ≤ 31)
    (h : AInv kind bits U P R below spec) {key dig key' val : Bytes} (hk : (key, dig) ∈ U)
    (hs : Spec.get spec dig = some (key', val)) :
    key' = key ∧ ∃ b pre e post, bucketOfKey bits dig = some b ∧ R b = .ok (some (pre ++ e :: post)) ∧
      OInv (ownOf kind bits P) (pre ++ e :: post) ∧
      (∀ x ∈ pre ++ e :: post, BlockOK kind bits U P below spec b x.blk) ∧
      P e.blk = .got key val ∧ ownOf kind bits P e.blk = some (dig.drop (bits / 8)) ∧
      e.blk.size = key.length + val.length ∧
      rlGet (pre ++ e :: post) (dig.drop (bits / 8)) = some e.blk := by
  obtain ⟨b, rl, e, h1, h2, h3, h4, h5⟩ := h.complete dig key' val hs
  have hkk : key' = key := hU.inj _ h5 _ hk rfl
  subst hkk
  refine ⟨rfl, ?_⟩
  obtain ⟨orl, g1, g2, g3⟩ := h.recs b
  rw [h2] at g1
  cases g1
  obtain ⟨pre, post, rfl⟩ := List.append_of_mem h3
  simp only [Option.getD_some] at g2 g3
  have hown : ownOf kind bits P e.blk = some (dig.drop (bits / 8)) :=
    ownOf_got h4 (hU.dig h5).1 (stripKey_of_bucket bits h31 dig b h1).1
  refine ⟨b, pre, e, post, h1, h2, g2, g3, h4, hown, ?_, ?_⟩
  · obtain ⟨k2, v2, d2, e1, _, _, e4, _⟩ := (g3 e (by simp)).ex
    rw [h4] at e1
    cases e1
    exact e4
  · unfold rlGet
    rw [g2.getRec_owner hown]
    rfl

/-- a key that is not in the specification map: the index finds nothing, or another key's record -/
theorem AInv.absent (hU : Univ kind U)
    (h : AInv kind bits U P R below spec) {dig : Bytes} {b : Nat}
    (hs : Spec.get spec dig = none) (sk : Key) :
    ∃ orl, R b = .ok orl ∧ OInv (ownOf kind bits P) (orl.getD []) ∧
      (∀ e ∈ orl.getD [], BlockOK kind bits U P below spec b e.blk) ∧
      ∀ rl, orl = some rl → ∀ blk, rlGet rl sk = some blk →
        ∃ k' v' dig', P blk = .got k' v' ∧ indexKeyOf kind k' = some dig' ∧ dig' ≠ dig := by
  obtain ⟨orl, g1, g2, g3⟩ := h.recs b
  refine ⟨orl, g1, g2, g3, ?_⟩
  rintro rl rfl blk hg
  unfold rlGet at hg
  cases hr : getRec rl sk with
  | none => simp [hr] at hg
  | some r =>
    obtain ⟨j, e⟩ := r
    rw [hr] at hg
    simp only [Option.map_some, Option.some.injEq] at hg
    subst hg
    have he : e ∈ rl := getRec_mem hr
    obtain ⟨k', v', dig', e1, e2, _, _, e5⟩ := (g3 e he).ex
    refine ⟨k', v', dig', e1, (hU.dig e2).1, ?_⟩
    rintro rfl
    rw [hs] at e5
    cases e5

end

end Sth
