import Sth.Lemmas.C13X8

/-!
C13 along GC histories, exactly once: every step, the ghost run, the theorem.  Core Lean only.
-/

namespace Sth.C13X

open Sth.C11 Sth.C13H

section
variable {c : Cfg} {U : List (Bytes × Bytes)} {s : SState} {spec : Spec} {n B : Nat}

/-- every step relates to the state before it as `Rel` says -/
theorem step_rel (hc : c.Legal) (hU : Univ c.kind U) (hG : GInv c U s spec n B) (hC : CovS s)
    (hnd : (recordedG s).Nodup) (hn : n < 268435456) (op : SOp)
    (hkey : ∀ k, op.keyOf = some k → ∀ dig, keyClass c.kind k = .ok dig → (k, dig) ∈ U)
    (hB : B + op.bytes < two31) :
    Rel s.cfg s.m s.d (stepS s op).1.m (stepS s op).1.d ∧ (stepS s op).1.cfg = s.cfg := by
  obtain ⟨pf, psp, hS⟩ := hstate_of hG hC
  cases op with
  | put k v => exact put_rel hU hG hnd k v (hkey k rfl) (by omega) hB
  | rm k => exact rm_rel hU hG hnd k (hkey k rfl)
  | get k =>
    obtain ⟨h1, _⟩ := step_read_g hU hG (.get k) (Or.inl ⟨k, rfl⟩) hkey
    rw [h1]; exact ⟨Rel.refl hnd, rfl⟩
  | has k =>
    obtain ⟨h1, _⟩ := step_read_g hU hG (.has k) (Or.inr (Or.inl ⟨k, rfl⟩)) hkey
    rw [h1]; exact ⟨Rel.refl hnd, rfl⟩
  | size k =>
    obtain ⟨h1, _⟩ := step_read_g hU hG (.size k) (Or.inr (Or.inr ⟨k, rfl⟩)) hkey
    rw [h1]; exact ⟨Rel.refl hnd, rfl⟩
  | flush order =>
    obtain ⟨m', d', psp', f1, _, _⟩ := flush_h hU hS (by omega) hB order
    have hR := flush_rel hU hS hnd (by omega) hB order f1
    have e : (stepS s (.flush order)).1 = { s with m := m', d := d' } := by simp only [stepS, f1]
    rw [e]
    exact ⟨hR, rfl⟩
  | iter order =>
    obtain ⟨m', d', psp', f1, _, _⟩ := flush_h hU hS (by omega) hB order
    have hR := flush_rel hU hS hnd (by omega) hB order f1
    have e : (stepS s (.iter order)).1 = { s with m := m', d := d' } := by
      simp only [stepS, f1]
      cases storeIter m' d' <;> rfl
    rw [e]
    exact ⟨hR, rfl⟩
  | reopen order us => exact reopen_rel hc hU hS (by omega) hB order us hnd
  | igc sf bud => exact igc_rel hS (by omega) sf bud hnd
  | pgc lowUse bud =>
    obtain ⟨cfg', m, d⟩ := s
    have hkind : m.kind = .mh := hG.kind
    unfold stepS
    simp only [hkind]
    cases hp : primaryGC m d lowUse bud with
    | none => exact ⟨Rel.refl hnd, rfl⟩
    | some res => exact ⟨primaryGC_rel hU hS hnd (by omega) lowUse bud hp, rfl⟩

end

/-- the run with the ghost list of consumed blocks: after every step, what the step dropped from the
    freelist (it was recorded before and is not recorded after) is appended -/
def runX : SState → List Block → List SOp → SState × List Block
  | s, cons, [] => (s, cons)
  | s, cons, op :: ops => runX (stepS s op).1 (cons ++ consumedBy s (stepS s op).1) ops

theorem runX_state : ∀ (ops : List SOp) (s : SState) (cons : List Block),
    (runX s cons ops).1 = (runS s ops).1
  | [], _, _ => rfl
  | op :: ops, s, cons => by
    rw [runS_cons_fst]
    exact runX_state ops (stepS s op).1 _

/-- the blocks consumed by primary GC cycles along a history -/
def consumedAlong (s : SState) (ops : List SOp) : List Block := (runX s [] ops).2

theorem run_x {c : Cfg} {U : List (Bytes × Bytes)} (hc : c.Legal) (hU : Univ c.kind U) :
    ∀ (ops : List SOp) (s : SState) (spec : Spec) (n B : Nat) (cons : List Block),
    GInv c U s spec n B → CovS s → XInv s cons →
    (∀ op ∈ ops, ∀ k, op.keyOf = some k → ∀ dig, keyClass c.kind k = .ok dig → (k, dig) ∈ U) →
    GcCountersOK s ops → B + (ops.map SOp.bytes).sum < two31 →
    XInv (runX s cons ops).1 (runX s cons ops).2
  | [], _, _, _, _, _, _, _, hX, _, _, _ => hX
  | op :: ops, s, spec, n, B, cons, hG, hC, hX, hk, hb, hB => by
    simp only [List.map_cons, List.sum_cons] at hB
    obtain ⟨hb1, hb2⟩ := hb
    have hC' : CovS (stepS s op).1 :=
      step_cov hc hU hG.tight hC hb1 op (hk op (by simp)) (by omega)
    obtain ⟨hR, hcfg⟩ := step_rel hc hU hG.tight hC hX.nodup hb1 op (hk op (by simp)) (by omega)
    have hX' := hX.step hG hcfg hR
    obtain ⟨_, n1, h2, _⟩ := step_g hc hU hG.tight hb1 op (hk op (by simp)) (by omega)
    exact run_x hc hU ops (stepS s op).1 (specStep c.kind c.imm spec op).1 n1 (B + op.bytes) _ h2 hC'
      hX' (fun o ho => hk o (by simp [ho])) hb2 (by omega)

/-- the fresh store: nothing recorded, nothing consumed -/
theorem xinv_init (c : Cfg) (hc : c.Legal) (hk : c.kind = .mh) {s : SState} (hi : initS c = some s) :
    XInv s [] := by
  rw [initS_mh c hc hk] at hi
  cases hi
  have h0 : recordedG ⟨c,
      { kind := c.kind, imm := c.imm, bits := c.bits, imax := c.ifs, buckets := [], ifileNum := 0,
        ilength := 0, pmax := c.pfs, pfileNum := 0, plength := 0, precFileNum := 0, precPos := 0 },
      { ihdr := some ⟨c.bits, c.ifs, 0, c.pfs⟩, ifiles := [(0, [])], phdr := some ⟨c.pfs, 0⟩,
        pfiles := [(0, [])], free := some [] }⟩ = [] := by
    unfold recordedG flEntries flGcEntries
    simp [parseFreeList]
  exact ⟨(by rw [h0]; exact List.nodup_nil), List.nodup_nil, (fun _ h => by cases h),
    (fun _ h => by cases h), (fun _ h => by cases h)⟩

/-- Q2: exactly once, along every history -/
theorem xinv_reachable (c : Cfg) (hc : c.Legal) (hmh : c.kind = .mh) (ops : List SOp)
    (hk : KeysOK c.kind ops) (hs : SizesOK ops) (s0 : SState) (hi : initS c = some s0)
    (hb : GcCountersOK s0 ops) : XInv (runS s0 ops).1 (consumedAlong s0 ops) := by
  have hU := univ_of_keysOK hk (keysExact_all c.kind ops)
  have := run_x hc hU ops s0 [] 0 0 [] (ginv_init hc hmh hi) (covS_init c hc hmh hi)
    (xinv_init c hc hmh hi) (fun op ho k hkey dig hcls => mem_digestsOf ho hkey hcls) hb
    (by have := hs.2.1; omega)
  rw [runX_state] at this
  exact this

end Sth.C13X
