import Sth.Lemmas.C13H8

/-!
C13 along GC histories, completeness: coverage is an invariant of every history (multihash stores).
Core Lean only.
-/

namespace Sth.C13H

open Sth.C11

section
variable {c : Cfg} {U : List (Bytes × Bytes)} {s : SState} {spec : Spec} {n B : Nat}

/-- one step keeps coverage, for every call -/
theorem step_cov (hc : c.Legal) (hU : Univ c.kind U) (hG : GInv c U s spec n B) (hC : CovS s)
    (hn : n < 268435456) (op : SOp)
    (hkey : ∀ k, op.keyOf = some k → ∀ dig, keyClass c.kind k = .ok dig → (k, dig) ∈ U)
    (hB : B + op.bytes < two31) : CovS (stepS s op).1 := by
  obtain ⟨pf, psp, hS⟩ := hstate_of hG hC
  cases op with
  | put k v =>
    obtain ⟨f, hd, hcfg⟩ := put_facts hU hG k v (hkey k rfl) (by omega) hB
    exact covS_mut hG hC f hd hcfg
  | rm k =>
    obtain ⟨f, hd, hcfg⟩ := rm_facts hU hG k (hkey k rfl)
    exact covS_mut hG hC f hd hcfg
  | get k =>
    obtain ⟨h1, _⟩ := step_read_g hU hG (.get k) (Or.inl ⟨k, rfl⟩) hkey
    rw [h1]; exact hC
  | has k =>
    obtain ⟨h1, _⟩ := step_read_g hU hG (.has k) (Or.inr (Or.inl ⟨k, rfl⟩)) hkey
    rw [h1]; exact hC
  | size k =>
    obtain ⟨h1, _⟩ := step_read_g hU hG (.size k) (Or.inr (Or.inr ⟨k, rfl⟩)) hkey
    rw [h1]; exact hC
  | flush order =>
    obtain ⟨m', d', psp', f1, f2, _⟩ := flush_h hU hS (by omega) hB order
    simp only [stepS, f1]
    exact covS_of f2
  | iter order =>
    obtain ⟨m', d', psp', f1, f2, _⟩ := flush_h hU hS (by omega) hB order
    simp only [stepS, f1]
    cases storeIter m' d' with
    | ok l => exact covS_of f2
    | error e => exact covS_of f2
  | reopen order us =>
    obtain ⟨m', d', psp', r1, r2⟩ := reopen_h hc hU hS (by omega) hB order us
    rw [r1]
    exact covS_of r2
  | igc sf bud =>
    obtain ⟨g, d', r1, r2⟩ := igc_h hS (by omega) sf bud
    rw [r1]
    exact covS_of r2
  | pgc lowUse bud =>
    exact step_pgc_h hU hS (by omega) lowUse bud

end

/-- coverage along a run -/
theorem run_cov {c : Cfg} {U : List (Bytes × Bytes)} (hc : c.Legal) (hU : Univ c.kind U) :
    ∀ (ops : List SOp) (s : SState) (spec : Spec) (n B : Nat),
    GInv c U s spec n B → CovS s →
    (∀ op ∈ ops, ∀ k, op.keyOf = some k → ∀ dig, keyClass c.kind k = .ok dig → (k, dig) ∈ U) →
    GcCountersOK s ops → B + (ops.map SOp.bytes).sum < two31 → CovS (runS s ops).1
  | [], _, _, _, _, _, hC, _, _, _ => hC
  | op :: ops, s, spec, n, B, hG, hC, hk, hb, hB => by
    simp only [List.map_cons, List.sum_cons] at hB
    obtain ⟨hb1, hb2⟩ := hb
    have hC' : CovS (stepS s op).1 :=
      step_cov hc hU hG.tight hC hb1 op (hk op (by simp)) (by omega)
    obtain ⟨_, n1, h2, _⟩ := step_g hc hU hG.tight hb1 op (hk op (by simp)) (by omega)
    rw [runS_cons_fst]
    exact run_cov hc hU ops (stepS s op).1 (specStep c.kind c.imm spec op).1 n1 (B + op.bytes) h2 hC'
      (fun o ho => hk o (by simp [ho])) hb2 (by omega)

/-- the fresh store is covered: it holds nothing -/
theorem covS_init (c : Cfg) (hc : c.Legal) (hk : c.kind = .mh) {s : SState} (hi : initS c = some s) :
    CovS s := by
  rw [initS_mh c hc hk] at hi
  cases hi
  intro pf psp hh hl
  refine ⟨?_, fun r hr => by cases hr⟩
  intro g g1 g2 x hx
  exfalso
  have hg : g = 0 := by
    have : g ≤ 0 := g2
    omega
  subst hg
  have hf := hl.files 0 g1 g2
  have : gbytes (psp 0) = [] := by
    have h0 : NMap.get? ([(0, ([] : Bytes))] : NMap Bytes) 0 = some [] := rfl
    have hf' : NMap.get? ([(0, ([] : Bytes))] : NMap Bytes) 0 = some (gbytes (psp 0)) := hf
    rw [h0] at hf'
    exact (Option.some.inj hf').symm
  rw [gbytes_eq_nil this] at hx
  cases hx

/-- Q1: every state reachable by any history — GC cycles of both kinds, complete or cut short, and
    reopens anywhere — is covered -/
theorem covS_reachable (c : Cfg) (hc : c.Legal) (hmh : c.kind = .mh) (ops : List SOp)
    (hk : KeysOK c.kind ops) (hs : SizesOK ops) (s0 : SState) (hi : initS c = some s0)
    (hb : GcCountersOK s0 ops) : CovS (runS s0 ops).1 := by
  have hU := univ_of_keysOK hk (keysExact_all c.kind ops)
  refine run_cov hc hU ops s0 [] 0 0 (ginv_init hc hmh hi) (covS_init c hc hmh hi) ?_ hb ?_
  · intro op ho k hkey dig hcls
    exact mem_digestsOf ho hkey hcls
  · have := hs.2.1; omega

/-- coverage of a state, on the bytes: every record span (not marked deleted) of every primary file —
    closed or current — and every pooled record is named by an index entry or recorded on the freelist
    (file, hand-over file, pool) -/
def CoveredAll (s : SState) : Prop :=
  (∀ g file, s.d.pfiles.get? g = some file → ∀ blk ∈ liveBlocks s.m.pmax g file,
    blk ∈ entryBlocks s ∨ blk ∈ recordedG s) ∧
  (∀ r ∈ s.m.pnext, r.blk ∈ entryBlocks s ∨ r.blk ∈ recordedG s)

theorem coveredAll_of_covS {c : Cfg} {U : List (Bytes × Bytes)} {s : SState} {spec : Spec} {n B : Nat}
    (hG : GInv c U s spec n B) (hC : CovS s) : CoveredAll s := by
  obtain ⟨pf, psp, hS⟩ := hstate_of hG hC
  refine ⟨?_, ?_⟩
  · intro g file hfile blk hblk
    have hpf : pf ≤ g := by
      cases Nat.lt_or_ge g pf with
      | inl h => have := hS.gs.log.gone g h; rw [hfile] at this; cases this
      | inr h => exact h
    have hle : g ≤ s.m.pfileNum := by
      cases Nat.lt_or_ge s.m.pfileNum g with
      | inl h => have := hS.gs.g.pno g h; rw [hfile] at this; cases this
      | inr h => exact h
    have hf2 := hS.gs.log.files g hpf hle
    rw [hfile] at hf2
    have hfile' : file = gbytes (psp g) := Option.some.inj hf2
    unfold liveBlocks at hblk
    rw [hfile', spansOf_gbytes (hS.gs.log.ok g hpf hle)] at hblk
    obtain ⟨x, hx, rfl⟩ := List.mem_map.mp hblk
    rcases hS.cov.span g hpf hle x hx with h | h
    · exact Or.inl (mem_entryBlocks.mpr h)
    · exact Or.inr h
  · intro r hr
    rcases hS.cov.pool r hr with h | h
    · exact Or.inl (mem_entryBlocks.mpr h)
    · exact Or.inr h

end Sth.C13H
