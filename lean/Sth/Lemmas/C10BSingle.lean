/-
C10 widened (U1) — single-chunk case: the whole legacy primary fits one file below the limit, so
NewIndexRemapper returns no remapper, nothing in the index is rewritten and unmappable entries STAY.
What holds: the directory; every bucket reads its legacy list unchanged; a mappable entry names its
record at the unchanged offset, an unmappable one lies beyond the primary's end and the primary refuses
it; `Store.Get` answers exactly what the map `C.spec` answers (found for the contents, absent otherwise,
in particular for a key that meets an unmappable entry — the entry is then dropped); the consistency check
is clean when told to ignore the unmappable offsets.
Core Lean only.
-/
import Sth.Lemmas.C10BCheck

namespace Sth

namespace C10B

open LegacyC

variable {c : Cfg} {U : List (Bytes × Bytes)} {C : LegacyC} {ifs : NMap Bytes}

/-! ### shape of the single-chunk primary -/

theorem single_shape (hnr : needRemap c.pfs (C.psizes c) = false) :
    C.psizes c = [(legacyPrimary C.recs).length] ∧ (legacyPrimary C.recs).length < c.pfs ∧ C.lastP c = 0 := by
  have hs := psizes_sum c C
  cases hp : C.psizes c with
  | nil =>
    exfalso
    have := C.pfilesL_ne c.pfs
    unfold psizes at hp
    exact this (List.map_eq_nil_iff.mp hp)
  | cons s rest =>
    cases rest with
    | nil =>
      rw [hp] at hs hnr
      simp only [List.sum_cons, List.sum_nil, Nat.add_zero] at hs
      simp only [needRemap, decide_eq_false_iff_not] at hnr
      refine ⟨by rw [hs], by omega, ?_⟩
      have : (C.pfilesL c.pfs).length = 1 := by
        have := congrArg List.length hp
        unfold psizes at this
        simpa using this
      unfold lastP; omega
    | cons s2 rest2 => rw [hp] at hnr; cases hnr

/-! ### the upgrading open -/

theorem remapIndexU_single (hnr : needRemap c.pfs (C.psizes c) = false) (dl : Option Bytes) (files' : NMap Bytes) :
    remapIndexU { data := dl, disk := C.diskPre c files' } ⟨c.bits, c.ifs, 0, 0⟩ c.pfs 0 (C.lastP c)
        (C.tableT c) [] = some ({ data := dl, disk := C.diskU c files' }, []) := by
  unfold remapIndexU
  have hsz : primarySizes ({ data := dl, disk := C.diskPre c files' } : UDir).disk.pfiles (C.lastP c + 1 - 0) 0 =
      C.psizes c := psizes_eq
  simp only [hsz, hnr, Bool.not_false, if_true]
  rfl

theorem upgradeOpen_single (hc : c.Legal) (hk : c.kind = .mh) (hwf : LegacyWFBadU c U C)
    (hn1 : C.recs.length < 1073741824) (hn2 : C.gens.length < 1073741824)
    (hnr : needRemap c.pfs (C.psizes c) = false) (order : List Nat) :
    ∃ ifs, upgradeOpen c C.dir order = some (C.diskU c ifs, C.memU c ifs) ∧
      (∀ f, f ≤ C.lastI c → ifs.get? f = some (logBytes (C.lg c.ifs f))) ∧
      (∀ f, C.lastI c < f → ifs.get? f = none) := by
  obtain ⟨p1, p2, p3, p4⟩ := openIndex_pre c hc
  have hscan := openIndex_scan0 c hc (C.diskPre c (setFiles [] 0 (C.ifilesL c.ifs)))
    (C.lastI c) (C.lg c.ifs) rfl rfl (fun f hf => ifiles0_get f hf) (ifiles0_none _ (by omega))
    (fun f _ r hr => (lg_recOK hwf f r hr).1)
  obtain ⟨files', hs1, hs2⟩ := hscan
  refine ⟨files', ?_, fun f hf => by rw [hs2]; exact ifiles0_get f hf,
    fun f hf => by rw [hs2]; exact ifiles0_none f hf⟩
  unfold upgradeOpen openU
  simp only [hk, ne_eq, not_true_eq_false, if_false]
  have hprim := openPrimaryU_legacy c hc C hwf.recSize hwf.freedOK hn1 (some C.dir.index)
  have e0 : ({ UDir.ofLegacy C.dir with disk := openFreelist (UDir.ofLegacy C.dir).disk } : UDir) =
      { data := some (legacyPrimary C.recs), index := some C.dir.index,
        disk := openFreelist { free := C.dir.free } } := rfl
  rw [e0, hprim]
  simp only
  unfold openIndexU
  simp only [p1, p2, if_false, p4]
  have hup := upgradeIndexU_legacy (c := c) (C := C) (gens_enc32 hwf) none (C.diskP c)
  have e1 : ({ data := none, index := some C.dir.index,
               disk := { free := some [], freeGc := none, pfiles := setFiles [] 0 (C.pfilesL c.pfs),
                         phdr := some ⟨c.pfs, 0⟩ } } : UDir) =
      { data := none, index := some ([2, 0, 0, 0, 2, C.bits] ++ logBytes C.gens), disk := C.diskP c } := rfl
  have e2 : ({ data := none, disk := { C.diskP c with ifiles := setFiles (C.diskP c).ifiles 0 (C.ifilesL c.ifs),
                                                       ihdr := some ⟨C.bits, c.ifs, 0, 0⟩ } } : UDir) =
      { data := none, disk := C.diskPre c (setFiles [] 0 (C.ifilesL c.ifs)) } := by
    rw [hwf.bits]; rfl
  have e3 : ¬ (c.bits ≠ 0 ∧ False) := fun h => h.2
  rw [if_neg e3, e1, hup, e2]
  have hr1 := remapIndexU_single (c := c) (C := C) hnr none files'
  simp only [diskPre] at hs1 hr1 ⊢
  simp only [if_true]
  rw [hs1]
  simp only
  have hr1' : remapIndexU
      { data := none,
        disk := { ihdr := some ⟨c.bits, c.ifs, 0, 0⟩, ifiles := files', phdr := some ⟨c.pfs, 0⟩,
                  pfiles := setFiles [] 0 (C.pfilesL c.pfs), free := some [] } }
      ⟨c.bits, c.ifs, 0, 0⟩ c.pfs 0 ((C.pfilesL c.pfs).length - 1) (scanTo c.ifs (C.lg c.ifs) (C.lastI c)) [] =
      some ({ data := none, disk := C.diskU c files' }, []) := hr1
  rw [hr1']
  rfl

/-! ### what the upgraded store holds -/

structure CtxS (c : Cfg) (U : List (Bytes × Bytes)) (C : LegacyC) (ifs : NMap Bytes) : Prop where
  hc : c.Legal
  hk : c.kind = .mh
  hwf : LegacyWFBadU c U C
  hcls : ∀ p ∈ U, keyClass .mh p.1 = .ok p.2
  hn1 : C.recs.length < 1073741824
  hn2 : C.gens.length < 1073741824
  hifs : ∀ f, f ≤ C.lastI c → ifs.get? f = some (logBytes (C.lg c.ifs f))
  hno : ∀ f, C.lastI c < f → ifs.get? f = none
  hnr : needRemap c.pfs (C.psizes c) = false

/-- the table position of a bucket is the place of its current list, unchanged -/
theorem bucket_at_s (x : CtxS c U C ifs) (b pos : Nat) (h : (C.tableT c).get? b = some pos) :
    ∃ rl, C.table.get? b = some rl ∧ BucketAt ifs c.ifs 0 b pos rl := by
  obtain ⟨rl, f, pre, post, h1, h2, h3, h4, h5, h6⟩ := table_at x.hc x.hn2 b pos h
  have hmem : (b, rl) ∈ C.gens := C.lg_mem c.ifs f _ (by rw [h3]; simp)
  have hrok := x.hwf.gensOK (b, rl) hmem
  refine ⟨rl, h1, f, (logBytes pre).length, logBytes pre, logBytes post, x.hc.2.2.1, h5,
    by have := lastI_lt (c := c) x.hn2; unfold two32; omega, Nat.zero_le _, h4, ?_, rfl, hrok.2, hrok.1.2, ?_⟩
  · rw [x.hifs f h2, h3, logBytes_append, logBytes_cons, List.append_assoc]
  · have := hrok.1.1
    have h2' : 2 ^ c.bits ≤ 2 ^ 31 := Nat.pow_le_pow_right (by omega) x.hc.2.1
    simp only at this
    unfold two32; omega

theorem bucket_reads_s (x : CtxS c U C ifs) (b : Nat) :
    (C.table.get? b = none ∧ idxRecords (C.memU c ifs) (C.diskU c ifs) b = .ok none) ∨
    ∃ rl pos, C.table.get? b = some rl ∧ (C.tableT c).get? b = some pos ∧ BucketAt ifs c.ifs 0 b pos rl ∧
      idxRecords (C.memU c ifs) (C.diskU c ifs) b = .ok (some rl) := by
  rw [idxRecords_U]
  cases hT : (C.tableT c).get? b with
  | none =>
    left
    refine ⟨((tabRel (C := C) (c := c) groups_le_lastI) b).1.mp hT, ?_⟩
    simp only [Option.getD_none]
    exact readDiskBucket_zero _ _
  | some pos =>
    right
    obtain ⟨rl, h1, h2⟩ := bucket_at_s x b pos hT
    exact ⟨rl, pos, h1, rfl, h2, by simp only [Option.getD_some]; exact readDiskBucket_of_at h2⟩

/-- a mappable entry names its record at the unchanged offset; an unmappable one is refused -/
theorem entry_cases_s (x : CtxS c U C ifs) (b : Nat) (rl : RecordList) (h : C.table.get? b = some rl)
    (e : Entry) (he : e ∈ rl) :
    (C.badOff e.blk.off ∧ e.pfx ≠ [] ∧ C.specEntry e = none ∧
      priGet (C.memU c ifs) (C.diskU c ifs) e.blk = .err) ∨
    ∃ key val dig, ¬ C.badOff e.blk.off ∧ RecAt .mh c.pfs 0 (C.diskU c ifs) e.blk key val ∧
      priGet (C.memU c ifs) (C.diskU c ifs) e.blk = .got key val ∧
      keyClass .mh key = .ok dig ∧ bucketOfKey c.bits dig = some b ∧ e.pfx ≠ [] ∧
      pfx e.pfx (dig.drop (c.bits / 8)) ∧ C.specEntry e = some (dig, key, val) := by
  obtain ⟨hps, hlt, hlast⟩ := single_shape x.hnr
  have hfile0 : ∃ file, (C.pfilesL c.pfs) = [file] ∧ file.length = (legacyPrimary C.recs).length := by
    have : (C.pfilesL c.pfs).map List.length = [(legacyPrimary C.recs).length] := hps
    cases hpf : C.pfilesL c.pfs with
    | nil => rw [hpf] at this; cases this
    | cons file rest =>
      rw [hpf] at this
      cases rest with
      | nil => simp only [List.map_cons, List.map_nil, List.cons.injEq, and_true] at this; exact ⟨file, rfl, this⟩
      | cons _ _ => simp at this
  obtain ⟨file, hpf, hflen⟩ := hfile0
  have hprec : (C.memU c ifs).precPos = (legacyPrimary C.recs).length := by
    show (fileOf (setFiles [] 0 (C.pfilesL c.pfs)) (C.lastP c)).length = _
    rw [hlast, hpf]
    exact hflen
  have hprecF : (C.memU c ifs).precFileNum = 0 := hlast
  rcases x.hwf.entries b rl h e he with ⟨hb, hne⟩ | ⟨i, key, val, dig, h1, h2, h3, h4, h5, h6, h7⟩
  · left
    refine ⟨hb, hne, specEntry_bad C e hb, ?_⟩
    rw [priGet_eq]
    have e0 : poolFind (C.memU c ifs).pnext e.blk = none := rfl
    have e1 : poolFind (C.memU c ifs).pcur e.blk = none := rfl
    simp only [e0, e1]
    unfold priDisk
    rw [if_neg]
    unfold thrOK thr
    have hkm : (C.memU c ifs).kind = .mh := rfl
    simp only [hkm, hprecF, hprec, Nat.mul_zero, Nat.zero_add]
    have := hb.1
    omega
  · right
    obtain ⟨n, F, g, g7, g8, g3'⟩ := C.record_at c.pfs x.hc.2.2.2.2.1 i (key, val) h1 h3
    have hkc := x.hcls _ h4
    -- with a single file the offset is kept
    have hoffs : n = 0 ∧ F.length = C.offsetOf i := by
      have hps' : (C.pfilesL c.pfs).map List.length = [(legacyPrimary C.recs).length] := hps
      rw [hps'] at g3'
      simp only [remapOffset] at g3'
      split at g3'
      · rename_i hlt2
        simp only [Option.some.injEq, Nat.mul_zero, Nat.zero_add] at g3'
        have : n = 0 := by
          cases n with
          | zero => rfl
          | succ k =>
            exfalso
            have : c.pfs * (k + 1) ≥ c.pfs := Nat.le_mul_of_pos_right _ (by omega)
            omega
        subst this
        exact ⟨rfl, by omega⟩
      · cases g3'
    obtain ⟨rfl, hF⟩ := hoffs
    have hsize : e.blk.size = key.length + val.length := by rw [h2]; unfold blockOf; rw [h1]; rfl
    have hs31 : key.length + val.length < two31 := x.hwf.recSize (key, val) (List.mem_of_getElem? h1)
    have hoff : e.blk.off = C.offsetOf i := by rw [h2]; rfl
    have hnb : ¬ C.badOff e.blk.off := by
      intro hb
      have := hb.1
      have hle : F.length + (recBytes ⟨C.blockOf i, key, val⟩).length ≤ file.length := by
        rw [hpf] at g7
        simp only [List.getElem?_cons_zero, Option.some.injEq] at g7
        rw [g7]; simp only [List.length_append]; omega
      rw [recBytes_length] at hle
      omega
    have hfile : (setFiles [] 0 (C.pfilesL c.pfs)).get? 0 =
        some (F ++ recBytes ⟨C.blockOf i, key, val⟩ ++ g) := by
      rw [setFiles_get?, if_pos (by rw [hpf]; simp), Nat.sub_zero, g7]
    have hexact : readNode .mh key = some (key, []) :=
      readNode_mh_exact key dig (keyClass_ok hkc).1
    have hrec : RecAt .mh c.pfs 0 (C.diskU c ifs) e.blk key val :=
      ⟨hsize, ⟨readNode_append .mh key val hexact, hs31⟩, 0, F.length, F, g,
        x.hc.2.2.2.2.1, g8, by unfold two32; omega, Nat.zero_le _, by rw [hoff, hF]; omega, hfile, rfl⟩
    have hbel : Below (C.memU c ifs) e.blk := by
      unfold Below
      have hkm : (C.memU c ifs).kind = .mh := rfl
      simp only [hkm]
      refine ⟨0, F.length, by rw [hoff, hF]; show _ = c.pfs * 0 + _; omega, g8, Or.inr ⟨hprecF.symm, ?_⟩⟩
      rw [hprec, ← hflen]
      rw [hpf] at g7
      simp only [List.getElem?_cons_zero, Option.some.injEq] at g7
      rw [g7]
      simp only [List.length_append, recBytes_length]
      omega
    have hpg : priGet (C.memU c ifs) (C.diskU c ifs) e.blk = .got key val := by
      rw [priGet_eq]
      have e0 : poolFind (C.memU c ifs).pnext e.blk = none := rfl
      have e1 : poolFind (C.memU c ifs).pcur e.blk = none := rfl
      simp only [e0, e1]
      unfold priDisk
      rw [if_pos hbel.thrOK]
      exact hrec.diskRead
    have q7 : C.specEntry e = some (dig, key, val) := by
      unfold specEntry
      rw [hoff, C.lookupRec_offsetOf i key val h1]
      simp only [h3, Bool.false_eq_true, if_false, (keyClass_ok hkc).1]
    exact ⟨key, val, dig, hnb, hrec, hpg, hkc, h5, h6, h7, q7⟩

/-! ### lookups in a sorted, prefix-free list -/

theorem getRecAux_pfx (k : Key) : ∀ (rl : RecordList) (i : Nat) (acc : Option (Nat × Entry))
    (j : Nat) (e : Entry), getRecAux k rl i acc = some (j, e) → acc = some (j, e) ∨ pfx e.pfx k
  | [], _, _, _, _ => by simp only [getRecAux]; exact fun h => Or.inl h
  | x :: rl, i, acc, j, e => by
    simp only [getRecAux]
    split
    · rename_i hx
      intro h
      rcases getRecAux_pfx k rl _ _ j e h with h' | h'
      · simp only [Option.some.injEq, Prod.mk.injEq] at h'
        right; rw [← h'.2]; exact hx
      · exact Or.inr h'
    · split
      · intro h; exact Or.inl h
      · intro h; exact getRecAux_pfx k rl _ _ j e h

theorem getRec_pfx {rl : RecordList} {k : Key} {j : Nat} {e : Entry} (h : getRec rl k = some (j, e)) :
    pfx e.pfx k := by
  rcases getRecAux_pfx k rl 0 none j e h with h' | h'
  · cases h'
  · exact h'

theorem getRec_of_pfx {pre post : RecordList} {e : Entry} {k : Key}
    (hs : ((pre ++ e :: post).map (·.pfx)).Pairwise sep) (hek : pfx e.pfx k) :
    getRec (pre ++ e :: post) k = some (pre.length, e) := by
  rw [List.map_append, List.pairwise_append, List.map_cons, List.pairwise_cons] at hs
  apply getRec_split k pre post e _ hek
  · intro y hy hyk
    have := (hs.2.1.1 y.pfx (List.mem_map_of_mem hy)).2
    rcases pfx_comparable hek hyk with c | c
    · exact this.1 c
    · exact this.2 c
  · intro x' hx
    have hx' := hs.2.2 x'.pfx (List.mem_map_of_mem hx) e.pfx (by simp)
    constructor
    · intro hxk
      rcases pfx_comparable hxk hek with c | c
      · exact hx'.2.1 c
      · exact hx'.2.2 c
    · exact klt_asymm (ext_left hx'.1 hx'.2 hek).1

/-! ### Store.Get -/

/-- `Store.Get` on the upgraded store answers what the map `C.spec` answers, for every well-formed key:
    the value for a key of the contents (the memory state is left alone), absent otherwise — also when
    the lookup meets an unmappable entry (which is then dropped from the index in memory) -/
theorem get_single (x : CtxS c U C ifs) (key dig : Bytes) (hkc : keyClass .mh key = .ok dig) :
    (storeGet (C.memU c ifs) (C.diskU c ifs) key).2 =
      match C.spec.get dig with
      | some (_, v) => .found v
      | none => .absent := by
  obtain ⟨hik, h4⟩ := keyClass_ok hkc
  have hkm : (C.memU c ifs).kind = .mh := rfl
  have hbm : (C.memU c ifs).bits = c.bits := rfl
  obtain ⟨b, hb⟩ : ∃ b, bucketOfKey c.bits dig = some b := by
    unfold bucketOfKey; rw [if_neg (by omega)]; exact ⟨_, rfl⟩
  have hstrip := (stripKey_of_bucket c.bits x.hc.2.1 dig b hb).1
  have hsep : ∀ rl, C.table.get? b = some rl → (rl.map (·.pfx)).Pairwise sep := fun rl h =>
    List.pairwise_and_iff.mpr ⟨x.hwf.sorted b rl h, x.hwf.prefixFree b rl h⟩
  -- the index lookup
  have hget : ∀ orl, idxRecords (C.memU c ifs) (C.diskU c ifs) b = .ok orl →
      idxGet (C.memU c ifs) (C.diskU c ifs) dig = .ok (orl.bind (rlGet · (dig.drop (c.bits / 8)))) :=
    fun orl h => idxGet_eq (m := C.memU c ifs) hb hstrip h
  unfold storeGet
  simp only [hkm, hik]
  rcases bucket_reads_s x b with ⟨h0, hr⟩ | ⟨rl, pos, h1, _, _, hr⟩
  · -- empty bucket
    rw [hget none hr]
    simp only [Option.bind_none]
    cases hs : C.spec.get dig with
    | none => rfl
    | some kv =>
      exfalso
      obtain ⟨b', rl, e, g1, g2, g3⟩ := (mem_spec _).mp (Spec.mem_of_get (k := kv.1) (v := kv.2) hs)
      rcases entry_cases_s x b' rl g1 e g2 with ⟨_, _, hn, _⟩ | ⟨_, _, dig', _, _, _, _, hb', _, _, q⟩
      · rw [hn] at g3; cases g3
      · rw [q] at g3; cases g3
        rw [hb] at hb'; cases hb'
        rw [h0] at g1; cases g1
  · rw [hget (some rl) hr]
    simp only [Option.bind_some]
    cases hs : C.spec.get dig with
    | some kv =>
      -- a key of the contents
      obtain ⟨b', rl', e, g1, g2, g3⟩ := (mem_spec _).mp (Spec.mem_of_get (k := kv.1) (v := kv.2) hs)
      rcases entry_cases_s x b' rl' g1 e g2 with ⟨_, _, hn, _⟩ | ⟨key', val, dig', _, _, hpg, hkc', hb', _, hp, q⟩
      · rw [hn] at g3; cases g3
      · rw [q] at g3; cases g3
        rw [hb] at hb'; cases hb'
        rw [h1] at g1; cases g1
        obtain ⟨pre, post, rfl⟩ := List.append_of_mem g2
        have hg := getRec_of_pfx (hsep _ h1) hp
        unfold rlGet
        rw [hg]
        simp only [Option.map_some]
        unfold getPrimaryKeyData
        simp only [hpg, hkm, (keyClass_ok hkc').1, if_true]
    | none =>
      have hnone : ∀ y ∈ C.spec, y.1 ≠ dig := by
        intro y hy he
        unfold Spec.get at hs
        cases hf : C.spec.find? (·.1 = dig) with
        | none =>
          have := List.find?_eq_none.mp hf y hy
          simp [he] at this
        | some z => rw [hf] at hs; cases hs
      cases hg : getRec rl (dig.drop (c.bits / 8)) with
      | none => unfold rlGet; rw [hg]; rfl
      | some je =>
        obtain ⟨j, e⟩ := je
        have hmem := getRec_mem hg
        unfold rlGet
        rw [hg]
        simp only [Option.map_some]
        rcases entry_cases_s x b rl h1 e hmem with ⟨_, _, _, hpg⟩ | ⟨key', val, dig', _, _, hpg, hkc', _, _, _, q⟩
        · -- an unmappable entry: the primary refuses it, the entry is dropped
          unfold getPrimaryKeyData
          simp only [hpg]
          have hrm : ∃ r, idxRemove (C.memU c ifs) (C.diskU c ifs) dig = .ok r := by
            unfold idxRemove
            simp only [hbm, hb, hr]
            split <;> exact ⟨_, rfl⟩
          obtain ⟨r, hr'⟩ := hrm
          rw [hr']
        · have hne : dig' ≠ dig := fun he' => hnone (dig', key', val) ((mem_spec _).mpr ⟨b, rl, e, h1, hmem, q⟩) he'
          unfold getPrimaryKeyData
          simp only [hpg, hkm, (keyClass_ok hkc').1, hne, if_false]

end C10B

end Sth

namespace Sth

namespace C10B

open LegacyC

variable {c : Cfg} {U : List (Bytes × Bytes)} {C : LegacyC} {ifs : NMap Bytes}

/-- the offsets of the unmappable entries of the current lists -/
def badOffsets (C : LegacyC) : List Nat :=
  C.table.flatMap fun br => (br.2.filter fun e => decide (C.badOff e.blk.off)).map (·.blk.off)

/-- the consistency check, told to ignore the unmappable offsets, is clean (the clause "every entry
    names a complete record" is the only one that looks at them; the others — record lists complete, tagged,
    sorted, prefix-free, distinct locations, nothing on the freelist — hold as they are) -/
theorem fsck_single (x : CtxS c U C ifs)
    (hoffs : ∀ b rl, C.table.get? b = some rl → (rl.map (·.blk.off)).Nodup) :
    fsck .mh (C.diskU c ifs) (C.memU c ifs).buckets (badOffsets C) = [] := by
  unfold fsck
  have hih : (C.diskU c ifs).ihdr = some ⟨c.bits, c.ifs, 0, c.pfs⟩ := rfl
  have hph : (C.diskU c ifs).phdr = some ⟨c.pfs, 0⟩ := rfl
  simp only [hih, hph]
  have hh : ¬ (True ∧ (some (⟨c.pfs, 0⟩ : PriHeader)).isNone = true) := by
    rintro ⟨_, hn⟩; cases hn
  rw [if_neg hh, List.nil_append, List.flatMap_eq_nil_iff]
  rintro ⟨b, pos⟩ hx
  have hx' := List.mem_filter.mp hx
  have hsorted : NMap.Sorted (C.tableT c) := scanTo_sorted _ _ _
  have hget : (C.tableT c).get? b = some pos := NMap.get?_of_mem_sorted hsorted hx'.1
  obtain ⟨rl, h1, hat⟩ := bucket_at_s x b pos hget
  have hat' : BucketAt (C.diskU c ifs).ifiles c.ifs 0 b pos rl := hat
  simp only [fsckBucket_of_at hat']
  have c1 : pairwiseOK (fun a c => decide (klt a c)) (rl.map (·.pfx)) = true :=
    pairwiseOK_of_pairwise ((x.hwf.sorted b rl h1).imp (fun h => by simpa using h))
  have c2 : pairwiseOK (fun a c => decide (apart a c)) (rl.map (·.pfx)) = true :=
    pairwiseOK_of_pairwise ((x.hwf.prefixFree b rl h1).imp (fun h => by simpa using h))
  have c3 : (rl.map (·.blk.off)).eraseDups.length = rl.length := by
    rw [eraseDups_of_nodup (hoffs b rl h1), List.length_map]
  have c4 : (rl.filter fun e => !(badOffsets C).contains e.blk.off).filterMap
      (fsckEntry .mh (C.diskU c ifs) c.bits c.pfs 0 b) = [] := by
    rw [List.filterMap_eq_nil_iff]
    intro e he
    obtain ⟨he1, he2⟩ := List.mem_filter.mp he
    rcases entry_cases_s x b rl h1 e he1 with ⟨hb, _⟩ | ⟨key, val, dig, _, hrec, _, hkc, hbk, hne, hp, _⟩
    · exfalso
      have : e.blk.off ∈ badOffsets C := by
        unfold badOffsets
        rw [List.mem_flatMap]
        refine ⟨(b, rl), NMap.mem_of_get? h1, ?_⟩
        exact List.mem_map.mpr ⟨e, List.mem_filter.mpr ⟨he1, by simpa using hb⟩, rfl⟩
      rw [List.contains_eq_mem] at he2
      simp [this] at he2
    · exact fsckEntry_of_at hrec (keyClass_ok hkc).1 hbk hne hp
  simp only [c1, c2, c3, if_true, List.append_nil, List.nil_append]
  rw [List.append_eq_nil_iff]
  refine ⟨c4, ?_⟩
  rw [List.filterMap_eq_nil_iff]
  intro e _
  have hfl : (parseFreeList (((C.diskU c ifs).free.getD []).length + 1) ((C.diskU c ifs).free.getD []) []).1 ++
      (parseFreeList (((C.diskU c ifs).freeGc.getD []).length + 1) ((C.diskU c ifs).freeGc.getD []) []).1 = [] := rfl
  rw [hfl]
  rfl

end C10B

end Sth

namespace Sth

namespace C10B

open LegacyC

theorem chunkAux_small (limit : Nat) : ∀ (rs cur : List Bytes) (w : Nat), w + bsize rs < limit →
    chunkAux limit rs cur w = if (cur.reverse ++ rs).isEmpty then [] else [cur.reverse ++ rs]
  | [], cur, w, _ => by
    simp only [chunkAux, List.append_nil, List.isEmpty_reverse]
  | r :: rs, cur, w, h => by
    simp only [bsize, List.map_cons, List.sum_cons] at h
    simp only [chunkAux]
    rw [if_neg (by omega), chunkAux_small limit rs (r :: cur) (w + r.length) (by simp only [bsize]; omega)]
    simp

/-- a legacy primary that fits one file below the limit gets no remapper -/
theorem needRemap_of_lt (c : Cfg) (hp : 1 ≤ c.pfs) (C : LegacyC) (h : (legacyPrimary C.recs).length < c.pfs) :
    needRemap c.pfs (C.psizes c) = false := by
  have ht : bsize C.out = (legacyPrimary C.recs).length := out_total C
  have hch := chunkAux_small c.pfs C.out [] 0 (by omega)
  simp only [List.reverse_nil, List.nil_append] at hch
  unfold psizes pfilesL chunkFiles chunk
  rw [hch]
  by_cases he : C.out.isEmpty = true
  · simp only [he, if_true, List.map_nil, List.getLast?_nil, List.map_cons, List.length_nil]
    simp only [needRemap, decide_eq_false_iff_not]
    omega
  · simp only [he, Bool.false_eq_true, if_false, List.map_cons, List.map_nil, List.getLast?_singleton]
    have hl : C.out.flatten.length = bsize C.out := by simp [bsize, List.length_flatten]
    rw [if_neg (by omega)]
    simp only [List.dropLast_singleton, List.nil_append, List.append_nil, List.map_cons, List.map_nil]
    simp only [needRemap, decide_eq_false_iff_not]
    omega

end C10B

end Sth
