import Sth.Lemmas.C13X1

/-!
C13 along GC histories, exactly once: Put, Remove and the reads.  Core Lean only.
-/

namespace Sth.C13X

open Sth.C11 Sth.C13H

section
variable {c : Cfg} {U : List (Bytes × Bytes)} {s : SState} {spec : Spec} {n B : Nat}

/-- no recorded block is an index entry's block -/
theorem notcur_block (hG : GInv c U s spec n B) {blk : Block} (h : IsEnt s.m s.d blk) :
    blk ∉ recordedG s := by
  intro hc
  obtain ⟨b, rl, e, hr, he, rfl⟩ := h
  exact ginv_notcur hG b rl hr e he e.blk hc rfl

/-- a mutation that frees at most one block, an index entry's, and creates entries only at blocks
    allocated since -/
theorem mut_rel {m' : Mem} (hG : GInv c U s spec n B) (hnd : (recordedG s).Nodup)
    (hb : ∀ blk, Below s.m blk → Below m' blk)
    (he : ∀ blk, IsEnt m' s.d blk → IsEnt s.m s.d blk ∨ ¬ Below s.m blk)
    {freed : List Block} (hf : m'.flpool = s.m.flpool ++ freed) (hl : freed.length ≤ 1)
    (hfe : ∀ fb ∈ freed, IsEnt s.m s.d fb) : Rel s.cfg s.m s.d m' s.d := by
  have hrec : recordedG ⟨s.cfg, m', s.d⟩ = recordedG s ++ freed := by
    unfold recordedG
    show flEntries s.d ++ flGcEntries s.d ++ m'.flpool = _
    rw [hf]; simp [List.append_assoc]
  refine ⟨hb, he, ?_, ?_⟩
  · intro b hbm
    rw [hrec, List.mem_append] at hbm
    rcases hbm with h | h
    · exact Or.inl h
    · exact Or.inr (Or.inl (hfe b h))
  · rw [hrec, List.nodup_append]
    refine ⟨hnd, ?_, ?_⟩
    · cases freed with
      | nil => exact List.nodup_nil
      | cons x xs =>
        cases xs with
        | nil => simp
        | cons y ys => simp at hl
    · intro a ha b hb' hab
      subst hab
      exact notcur_block hG (hfe a hb') ha

/-- Put -/
theorem put_rel (hU : Univ c.kind U) (hG : GInv c U s spec n B) (hnd : (recordedG s).Nodup)
    (k v : Bytes) (hkey : ∀ dig, keyClass c.kind k = .ok dig → (k, dig) ∈ U)
    (hn : n + 1 < 1073741824) (hB : B + (k.length + v.length + 17) < two31) :
    Rel s.cfg s.m s.d (stepS s (.put k v)).1.m (stepS s (.put k v)).1.d ∧
      (stepS s (.put k v)).1.cfg = s.cfg := by
  have hU' := hG.univ hU
  have hkk : s.m.kind = c.kind := by rw [hG.kind, hG.kmh]
  cases hcls : keyClass c.kind k with
  | error e =>
    have := storePut_bad (m := s.m) (d := s.d) (k := k) (v := v) (e := e) (by rw [hkk]; exact hcls)
    have e : (stepS s (.put k v)).1 = s := by simp only [stepS, this]
    rw [e]
    exact ⟨Rel.refl hnd, rfl⟩
  | ok dig =>
    have hk := hkey dig hcls
    have hpre := hG.putPre (key := k) (val := v) hn (by omega)
    have hloc : ¬ Below s.m (nextBlk s.m (k.length + v.length)) := not_below_next hpre.pmax _
    cases hs : Spec.get spec dig with
    | none =>
      obtain ⟨b, rl, h1, h2, h3, h4, orl, h5, hperm⟩ :=
        storePut_absent_x hU' hG.bits8 hG.bits31 hG.a hpre hk hs
      have e : (stepS s (.put k v)).1 = { s with m := setNext (putMem s.m k v) b rl } := by
        simp only [stepS, h1]
      rw [e]
      refine ⟨mut_rel hG hnd (fun blk hb => below_putMem k v hb) ?_ (freed := [])
        (by show (putMem s.m k v).flpool = _; rw [putMem_flpool]; simp) (by simp)
        (fun _ h => by cases h), rfl⟩
      rintro blk ⟨b', rl', e', hr, he', rfl⟩
      rw [idxRecords_frame_put] at hr
      by_cases hbb : b' = b
      · rw [if_pos hbb] at hr
        simp only [Except.ok.injEq, Option.some.injEq] at hr
        subst hr
        have hm : e'.blk ∈ rl.map (·.blk) := List.mem_map_of_mem he'
        rw [hperm.mem_iff, List.mem_cons] at hm
        rcases hm with hm | hm
        · right; rw [hm]; exact hloc
        · left
          obtain ⟨e0, he0, heq⟩ := List.mem_map.mp hm
          cases orl with
          | none => simp at he0
          | some rl0 => exact ⟨b, rl0, e0, h5, he0, heq⟩
      · rw [if_neg hbb] at hr
        exact Or.inl ⟨b', rl', e', hr, he', rfl⟩
    | some kv =>
      obtain ⟨key0, old⟩ := kv
      obtain ⟨p1, p2, p3⟩ := storePut_present_x (val := v) hU' hG.bits31 hG.a hk hs
      by_cases himm : s.m.imm = true
      · have e : (stepS s (.put k v)).1 = s := by simp only [stepS, p1 himm]
        rw [e]
        exact ⟨Rel.refl hnd, rfl⟩
      · have himm0 : s.m.imm = false := by simpa using himm
        by_cases hv : v = old
        · have e : (stepS s (.put k v)).1 = s := by simp only [stepS, p2 himm0 hv]
          rw [e]
          exact ⟨Rel.refl hnd, rfl⟩
        · obtain ⟨b, rl, blk, h1, h2, h3, h4, pre, e, post, h5, h6, h7, h8⟩ := p3 himm0 hv hpre
          subst h6 h7
          have e0 : (stepS s (.put k v)).1 = { s with m := addFree (setNext (putMem s.m k v) b
              (pre ++ (⟨e.pfx, nextBlk s.m (k.length + v.length)⟩ : Entry) :: post)) e.blk } := by
            simp only [stepS, h1]
          rw [e0]
          have hidx : ∀ b', idxRecords (addFree (setNext (putMem s.m k v) b
                (pre ++ (⟨e.pfx, nextBlk s.m (k.length + v.length)⟩ : Entry) :: post)) e.blk) s.d b' =
              if b' = b then .ok (some (pre ++ (⟨e.pfx, nextBlk s.m (k.length + v.length)⟩ : Entry)
                :: post)) else idxRecords s.m s.d b' := by
            intro b'
            rw [idxRecords_addFree, idxRecords_frame_put]
          refine ⟨mut_rel hG hnd (fun blk hb => below_putMem k v hb) ?_ (freed := [e.blk])
            (by show (putMem s.m k v).flpool ++ [e.blk] = _; rw [putMem_flpool]) (by simp)
            (fun fb hfb => by
              simp only [List.mem_singleton] at hfb
              subst hfb
              exact ⟨b, _, e, h5, by simp, rfl⟩), rfl⟩
          rintro blk ⟨b', rl', e', hr, he', rfl⟩
          rw [hidx b'] at hr
          by_cases hbb : b' = b
          · rw [if_pos hbb] at hr
            simp only [Except.ok.injEq, Option.some.injEq] at hr
            subst hr
            simp only [List.mem_append, List.mem_cons] at he'
            rcases he' with h | rfl | h
            · exact Or.inl ⟨b, _, e', h5, by simp [h], rfl⟩
            · exact Or.inr hloc
            · exact Or.inl ⟨b, _, e', h5, by simp [h], rfl⟩
          · rw [if_neg hbb] at hr
            exact Or.inl ⟨b', rl', e', hr, he', rfl⟩

/-- Remove -/
theorem rm_rel (hU : Univ c.kind U) (hG : GInv c U s spec n B) (hnd : (recordedG s).Nodup)
    (k : Bytes) (hkey : ∀ dig, keyClass c.kind k = .ok dig → (k, dig) ∈ U) :
    Rel s.cfg s.m s.d (stepS s (.rm k)).1.m (stepS s (.rm k)).1.d ∧
      (stepS s (.rm k)).1.cfg = s.cfg := by
  have hU' := hG.univ hU
  have hkk : s.m.kind = c.kind := by rw [hG.kind, hG.kmh]
  cases hcls : keyClass c.kind k with
  | error e =>
    have := storeRemove_bad (m := s.m) (d := s.d) (k := k) (e := e) (by rw [hkk]; exact hcls)
    have e : (stepS s (.rm k)).1 = s := by simp only [stepS, this]
    rw [e]
    exact ⟨Rel.refl hnd, rfl⟩
  | ok dig =>
    have hk := hkey dig hcls
    obtain ⟨r1, r2⟩ := storeRemove_x hU' hG.bits31 hG.a hk
    cases hs : Spec.get spec dig with
    | none =>
      have e : (stepS s (.rm k)).1 = s := by simp only [stepS, r1 hs]
      rw [e]
      exact ⟨Rel.refl hnd, rfl⟩
    | some kv =>
      obtain ⟨b, rl, blk, h1, h2, h3, h4, pre, e, post, h5, h6, h7⟩ := r2 kv hs
      subst h6 h7
      have e0 : (stepS s (.rm k)).1 = { s with m := addFree (setNext s.m b (pre ++ post)) e.blk } := by
        simp only [stepS, h1]
      rw [e0]
      have hidx : ∀ b', idxRecords (addFree (setNext s.m b (pre ++ post)) e.blk) s.d b' =
          if b' = b then .ok (some (pre ++ post)) else idxRecords s.m s.d b' := by
        intro b'
        rw [idxRecords_addFree, idxRecords_setNext']
      refine ⟨mut_rel hG hnd (fun blk hb => hb) ?_ (freed := [e.blk]) rfl (by simp)
        (fun fb hfb => by
          simp only [List.mem_singleton] at hfb
          subst hfb
          exact ⟨b, _, e, h5, by simp, rfl⟩), rfl⟩
      rintro blk ⟨b', rl', e', hr, he', rfl⟩
      rw [hidx b'] at hr
      by_cases hbb : b' = b
      · rw [if_pos hbb] at hr
        simp only [Except.ok.injEq, Option.some.injEq] at hr
        subst hr
        simp only [List.mem_append] at he'
        rcases he' with h | h
        · exact Or.inl ⟨b, _, e', h5, by simp [h], rfl⟩
        · exact Or.inl ⟨b, _, e', h5, by simp [h], rfl⟩
      · rw [if_neg hbb] at hr
        exact Or.inl ⟨b', rl', e', hr, he', rfl⟩

end

end Sth.C13X
