/-
C13B — the FLUSH BARRIER of the primary collector holds under EVERY interleaving (concurrent, section-level model):
the collector never applies a freelist entry to a record that is not in the primary file yet.

Model: Sth/Model/BarrierConc.lean — writers (`pput` = MultihashPrimary.Put, `free` = FreeList.Put of the superseded
record, enabled only once the record's own Put has returned), flushers (`pflush` = MultihashPrimary.Flush: two
sections F1 (swap) / F2 (write) inside one span of the primary's flushLock; `fflush` = FreeList.Flush) and the single
collector (`togc`, `pflush` — the barrier —, `apply`, `remove`), at the granularity of the lock sections of
store/primary/multihash/multihash.go.  `step s i` runs the next section of thread `i`; a section that needs flushLock
while another thread holds it is not enabled; `run s sched` folds a schedule (thread numbers, disabled steps skipped).
Any number of threads, any programs, any schedule, any initial primary file `disk`.

  `missed`        ghost: the entries an `apply` skipped because the record was not in the primary file
                  (deleteRecords: "out-of-range primary offset" / cannot open / cannot read, then `continue`: the entry
                  is consumed without effect and the stale record stays marked in use — defect D4).
  `applied`       ghost: the entries applied to a record of the primary file.
  `SingleCollector strict progs`   at most one thread's program contains togc / apply / remove, and that program keeps
                  the order of gc(): no `apply` between a hand-over and the return of the collector's own
                  MultihashPrimary.Flush (`orderOK`; `strict`: and no `remove` of a `.gc` file that was not applied).
                  `gcPass`/`gcCycle` (= the code) satisfy it (`orderOK_passes`).

STATUS.  (1), (2), (6) proved in full for every list of programs and every schedule, by an invariant
(Sth/Lemmas/C13B1.lean `Inv`: every freelist entry names a record whose Put has returned; every such record is pooled,
in flight between F1 and F2, or in the file; once the collector's flush has returned every `.gc` entry is in the file)
preserved by every section (C13B2 `step_inv`).  (2) is an EQUALITY of lists in every reachable state, with
`pendingGc` = the `.gc` entries not applied yet (the literal "all `.gc` entries" double-counts between apply and
remove: `C13_barrier_applied_literal_counterexample`).  (3), (4), (4'): negative witnesses evaluated by `decide` —
the wait for flushLock on the empty-pool path, the order hand-over → flush, and the single collector are all needed.
(5) a concrete interleaving.  (6) `BarrierConc.replay` refuses an `apply` issued before a primary flush of the
handing-over thread has returned, so the order of gc() is part of what a successful replay certifies.
-/
import Sth.Lemmas.C13B4

namespace Sth
open BarrierConc

/-! ### (1) nothing missed, every interleaving -/

/-- C13B (1).  With a single collector whose program keeps the order of gc(), in every state of every schedule no
    `apply` has skipped an entry: every freelist entry the collector applied named a record in the primary file. -/
theorem C13_barrier_nothing_missed (progs : List (List Op)) (hc : SingleCollector false progs) (sched : List Nat)
    (disk : List Rec := []) :
    (run (init progs disk) sched).missed = [] := by
  obtain ⟨c, hc, ho⟩ := hc
  exact (run_inv (init_inv hc ho disk) sched).d.nomiss

/-- C13B (1), for the code's collector: thread `c` runs any number of passes of gc() (`gcPass` = ToGC,
    MultihashPrimary.Flush, ToGC, apply, remove), no other thread calls ToGC / apply / remove. -/
theorem C13_barrier_nothing_missed_gc_passes (progs : List (List Op)) (c n : Nat) (hc : CollectorIs c progs)
    (hp : progs[c]?.getD [] = (List.replicate n gcPass).flatten) (sched : List Nat) (disk : List Rec := []) :
    (run (init progs disk) sched).missed = [] :=
  C13_barrier_nothing_missed progs ⟨c, hc, hp ▸ orderOK_passes false n⟩ sched disk

/-- C13B (1'), the invariant behind it.  In every reachable state: every freelist entry (pool, file, `.gc`) names a
    record whose MultihashPrimary.Put has returned; every such record is in nextPool, in the hands of a flusher between
    F1 and F2, or in the primary file; and from the return of the collector's flush until the `.gc` file is removed
    every entry of the `.gc` file is in the primary FILE. -/
theorem C13_barrier_invariant (progs : List (List Op)) (hc : SingleCollector false progs) (sched : List Nat)
    (disk : List Rec := []) :
    let s := run (init progs disk) sched
    (∀ o, o ∈ s.flPool ∨ o ∈ s.flFile ∨ o ∈ gcEntries s → o ∈ s.putDone) ∧
    (∀ r ∈ s.putDone, r ∈ s.nextPool ∨ r ∈ s.disk ∨ ∃ (j : Nat) (t : Thread), s.threads[j]? = some t ∧ r ∈ t.pc.cur) ∧
    (s.phase = .barriered ∨ s.phase = .applied → ∀ o ∈ gcEntries s, o ∈ s.disk) ∧
    (s.phase = .noGc ↔ s.gc = none) := by
  obtain ⟨c, hc, ho⟩ := hc
  intro s
  have h := (run_inv (init_inv hc ho disk) sched).d
  exact ⟨h.flIn, h.putIn, h.cover, h.phaseGc⟩

/-- C13B (1''), at the point of use.  Whenever the next call of a thread is `apply`, every entry of the `.gc` file
    is in the primary file. -/
theorem C13_barrier_apply_finds_all (progs : List (List Op)) (hc : SingleCollector false progs) (sched : List Nat)
    (disk : List Rec := []) (i : Nat) (t : Thread) (rest : List Op)
    (hi : (run (init progs disk) sched).threads[i]? = some t) (hp : t.prog = .apply :: rest) :
    ∀ o ∈ gcEntries (run (init progs disk) sched), o ∈ (run (init progs disk) sched).disk := by
  obtain ⟨c, hc, ho⟩ := hc
  have h := run_inv (init_inv hc ho disk) sched
  have hic : i = c := by
    by_cases hic : i = c
    · exact hic
    · have := h.t.writers i t hi hic .apply (by simp [hp]); cases this
  subst hic
  have hord := h.d.order t hi
  rw [hp] at hord
  obtain ⟨ph', hn, _⟩ := orderOK_cons hord
  intro o ho'
  cases hph : (run (init progs disk) sched).phase with
  | fresh => simp [Phase.next, hph] at hn
  | noGc => have := h.d.phaseGc.1 hph; simp [gcEntries, this] at ho'
  | barriered => exact h.d.cover (.inl hph) o ho'
  | applied => exact h.d.cover (.inr hph) o ho'

/-- flushLock is exclusive, and the holder is the thread between F1 and F2 -/
theorem C13_barrier_lock_exclusive (progs : List (List Op)) (hc : SingleCollector false progs) (sched : List Nat)
    (disk : List Rec := []) (i j : Nat) (ti tj : Thread)
    (hi : (run (init progs disk) sched).threads[i]? = some ti)
    (hj : (run (init progs disk) sched).threads[j]? = some tj)
    (hhi : ti.pc.holds = true) (hhj : tj.pc.holds = true) :
    i = j ∧ (run (init progs disk) sched).flushLock = some i := by
  obtain ⟨c, hc, ho⟩ := hc
  have h := (run_inv (init_inv hc ho disk) sched).t
  have h1 := (h.lock i ti hi).1 hhi
  have h2 := (h.lock j tj hj).1 hhj
  rw [h1] at h2
  exact ⟨by simpa using h2, h1⟩

/-- the code's collector programs keep the strict order: any number of passes of gc() -/
theorem C13_barrier_gc_passes_ordered (strict : Bool) (n : Nat) :
    orderOK strict .noGc (List.replicate n gcPass).flatten = true := orderOK_passes strict n

/-! ### (2) applied exactly -/

/-- C13B (2).  With a single collector whose program keeps the strict order (apply after its flush, remove only what
    was applied), in every state of every schedule: what was applied, then the entries of the `.gc` file not applied
    yet, then the freelist file, then the freelist pool ARE the log of returned FreeList.Put calls — in that order,
    nothing lost, nothing repeated, nothing reordered; with the frees still to run that log is the frees of the
    programs; at quiescence it is all of them; no duplicates if the programs free distinct records. -/
theorem C13_barrier_applied_exactly (progs : List (List Op)) (hc : SingleCollector true progs) (sched : List Nat)
    (disk : List Rec := []) :
    let s := run (init progs disk) sched
    s.applied ++ pendingGc s ++ s.flFile ++ s.flPool = s.freed ∧
    (s.freed ++ remainingFrees s).Perm (progs.flatMap progFrees) ∧
    (Quiescent s → (s.applied ++ pendingGc s ++ s.flFile ++ s.flPool).Perm (progs.flatMap progFrees)) ∧
    ((progs.flatMap progFrees).Nodup → (s.applied ++ pendingGc s ++ s.flFile ++ s.flPool).Nodup) ∧
    (s.gc = none → s.applied ++ s.flFile ++ s.flPool = s.freed) := by
  obtain ⟨c, hc, ho⟩ := hc
  intro s
  have hinv := run_inv (init_inv hc ho disk) sched
  have hled : Led progs s := run_inv_led (init_inv hc ho disk) (init_led progs disk) sched
  have heq : s.applied ++ pendingGc s ++ s.flFile ++ s.flPool = s.freed := hinv.applied_exactly
  refine ⟨heq, hled, ?_, ?_, ?_⟩
  · intro hq; rw [heq]; exact hled.quiescent hq
  · intro hd
    rw [heq]
    have : (s.freed ++ remainingFrees s).Nodup := (List.Perm.nodup_iff hled).2 hd
    exact (List.nodup_append.1 this).1
  · intro hg
    have : pendingGc s = [] := by unfold pendingGc gcEntries; split <;> simp [hg]
    rw [← heq, this]; simp

/-- C13B (2'), the same as a permutation of the freed records, for the plain reading: at quiescence
    `applied ++ (unapplied .gc entries ++ freelist file ++ freelist pool)` is a permutation of all freed records. -/
theorem C13_barrier_applied_perm (progs : List (List Op)) (hc : SingleCollector true progs) (sched : List Nat)
    (disk : List Rec := []) (hq : Quiescent (run (init progs disk) sched)) :
    let s := run (init progs disk) sched
    (s.applied ++ (pendingGc s ++ s.flFile ++ s.flPool)).Perm (progs.flatMap progFrees) := by
  intro s
  have := (C13_barrier_applied_exactly progs hc sched disk).2.2.1 hq
  simpa [List.append_assoc] using this

/-- C13B (2''), why `pendingGc` and not all of the `.gc` file: a collector that stops between apply and remove
    leaves the applied entries in the `.gc` file, so `applied ++ gcEntries ++ flFile ++ flPool` counts them twice
    (the literal reading of "applied plus what is still in the freelist stages" fails; it holds once `.gc` is removed:
    last clause of `C13_barrier_applied_exactly`). -/
theorem C13_barrier_applied_literal_counterexample :
    let progs : List (List Op) := [storePut 1 none ++ storePut 2 (some 1), [.togc, .pflush, .apply]]
    let s := run (init progs) [0, 0, 0, 1, 1, 1, 1]
    SingleCollector true progs ∧ Quiescent s ∧ s.freed = [1] ∧ s.applied = [1] ∧ gcEntries s = [1] ∧
    pendingGc s = [] ∧ s.applied ++ gcEntries s ++ s.flFile ++ s.flPool = [1, 1] := by
  refine ⟨⟨1, by decide, by decide⟩, ?_⟩
  decide

/-! ### (3) the wait for flushLock on the empty-pool path is needed -/

def c13bFastProgs : List (List Op) := [storePut 1 none ++ storePut 2 (some 1), storeFlush, gcPass]
def c13bFastSched : List Nat := [0, 0, 0, 1, 2, 2, 2, 2, 1, 2, 2, 2, 2]

/-- C13B (3).  In the variant `stepFast`, MultihashPrimary.Flush returns at once — WITHOUT taking flushLock — when
    nextPool is empty ("a caller that has nothing to write does not need to queue up behind a flush that is already
    running").  Writer: Put r1, Put r2 superseding r1 (frees r1); thread 1's Store.Flush does F1 (cur = [1, 2]) and is
    paused before F2; the collector hands over (`.gc` = [1]), its flush returns at once (pool empty), it applies:
    record 1 is not in the file — the entry is MISSED, although the programs and the collector's order are the
    code's.  On the same schedule the real protocol (`run`) keeps the collector behind the lock until thread 1 has
    written, and misses nothing. -/
theorem C13_barrier_needs_lock_wait :
    let s := runFast (init c13bFastProgs) c13bFastSched
    SingleCollector true c13bFastProgs ∧ s.missed = [1] ∧ s.missed ≠ [] ∧ s.applied = [] ∧ s.consumed = [1] ∧
    (let s6 := runFast (init c13bFastProgs) (c13bFastSched.take 6)
     s6.flushLock = some 1 ∧ s6.disk = [] ∧ s6.gc = some [1] ∧ s6.phase = .barriered) ∧
    (let s' := run (init c13bFastProgs) c13bFastSched
     s'.missed = [] ∧ s'.applied = [1] ∧ s'.disk = [1, 2] ∧
     step (run (init c13bFastProgs) (c13bFastSched.take 5)) 2 = none) := by
  refine ⟨⟨2, by decide, by decide⟩, ?_⟩
  decide

/-! ### (4) the order hand-over → flush is needed -/

def c13bD4Progs : List (List Op) := [storePut 1 none ++ storePut 2 (some 1), gcPassD4]
def c13bD4Sched : List Nat := [1, 0, 0, 0, 1, 1, 1, 1]

/-- C13B (4).  A collector that flushes BEFORE it hands over (`gcPassD4`: the order before the repair of D4), with the
    real locking (`run`): its flush finds nothing; Put r1, Put r2 superseding r1; hand-over (`.gc` = [1]); apply:
    record 1 is still pooled — MISSED and consumed.  The program violates `orderOK`; the code's order on the same
    programs misses nothing on the same schedule. -/
theorem C13_barrier_needs_order :
    let s := run (init c13bD4Progs) c13bD4Sched
    CollectorIs 1 c13bD4Progs ∧ orderOK false .noGc gcPassD4 = false ∧ Quiescent s ∧
    s.missed = [1] ∧ s.missed ≠ [] ∧ s.applied = [] ∧ s.consumed = [1] ∧ s.nextPool = [1, 2] ∧ s.disk = [] ∧
    (let s' := run (init [storePut 1 none ++ storePut 2 (some 1), gcPass]) c13bD4Sched
     s'.missed = [] ∧ s'.gc = some [] ∧ s'.flPool = [1] ∧ s'.disk = [1, 2]) := by
  decide

/-! ### (4') a single collector is needed -/

def c13bTwoCollProgs : List (List Op) := [storePut 1 none ++ storePut 2 (some 1), gcPass, gcPass]
def c13bTwoCollSched : List Nat := [1, 1, 2, 2, 2, 2, 2, 0, 0, 0, 1, 1, 1]

/-- C13B (4').  TWO threads each running the code's pass (e.g. the exported MultihashPrimary.GC next to the background
    cycle), real locking: collector 1 hands over and flushes; collector 2 runs a whole pass and REMOVES the `.gc` file;
    Put r1, Put r2 superseding r1; collector 1 goes on with processFreeList, whose own ToGC finds no `.gc` file and
    hands over AGAIN (`.gc` = [1]) — with no flush behind it — and applies: record 1 is still pooled, MISSED.
    Each program alone keeps the strict order; `CollectorIs` fails for every `c`. -/
theorem C13_barrier_two_collectors_miss :
    let s := run (init c13bTwoCollProgs) c13bTwoCollSched
    (∀ c, ¬ CollectorIs c c13bTwoCollProgs) ∧ orderOK true .noGc gcPass = true ∧
    s.missed = [1] ∧ s.missed ≠ [] ∧ s.applied = [] ∧ s.consumed = [1] ∧ s.nextPool = [1, 2] ∧ s.disk = [] ∧
    (let s10 := run (init c13bTwoCollProgs) (c13bTwoCollSched.take 10)
     s10.gc = none ∧ s10.flPool = [1] ∧ s10.missed = []) := by
  refine ⟨?_, by decide⟩
  intro c hc
  have h1 := hc 1 (by decide)
  have h2 := hc 2 (by decide)
  by_cases hc1 : c = 1
  · subst hc1; exact absurd (h2 (by decide) .togc (by decide)) (by decide)
  · exact absurd (h1 (fun h => hc1 h.symm) .togc (by decide)) (by decide)

/-! ### (5) non-vacuity: a concrete interleaving -/

/-- two writers (each: a new key, then an overwrite of it), a flusher (Store.Flush), and the collector running one
    cycle of gc() = two passes -/
def c13bProgs : List (List Op) :=
  [storePut 1 none ++ storePut 2 (some 1), storePut 3 none ++ storePut 4 (some 3), storeFlush, gcCycle]

/-- writer 0 puts 1, 2 and frees 1; writer 1 puts 3; the flusher's F1 takes [1, 2, 3]; Put(4) lands between F1 and F2;
    the collector hands over (`.gc` = [1]) and BLOCKS on flushLock (the 8th entry is skipped); writer 1 frees 3; the
    flusher writes; the collector's flush takes and writes [4]; apply, remove; the flusher's FreeList.Flush; second
    pass: hand-over (`.gc` = [3]), flush (nothing to write), apply, remove -/
def c13bSched : List Nat := [0, 0, 0, 1, 2, 1, 3, 3, 1, 2, 3, 3, 3, 3, 3, 2, 3, 3, 3, 3, 3]

example : SingleCollector true c13bProgs := ⟨3, by decide, by decide⟩
example : (c13bProgs.flatMap progFrees).Nodup := by decide

/-- after 6 steps: Put(4) is in nextPool while the flusher holds [1, 2, 3] between F1 and F2 -/
example :
    let s := run (init c13bProgs) (c13bSched.take 6)
    s.nextPool = [4] ∧ s.disk = [] ∧ s.flushLock = some 2 ∧ s.flPool = [1] ∧ s.putDone = [1, 2, 3, 4] ∧
    (s.threads[2]?.map (·.pc)) = some (.flushing [1, 2, 3]) := by decide

/-- after 7 steps: handed over, record 1 NOT in the file yet, and the collector's flush is not enabled -/
example :
    let s := run (init c13bProgs) (c13bSched.take 7)
    s.gc = some [1] ∧ s.phase = .fresh ∧ s.disk = [] ∧ s.flushLock = some 2 ∧ step s 3 = none ∧
    run s [3] = s := by decide

/-- after 12 steps: the flusher wrote, the collector's flush wrote what was pooled since: the barrier stands -/
example :
    let s := run (init c13bProgs) (c13bSched.take 12)
    s.disk = [1, 2, 3, 4] ∧ s.phase = .barriered ∧ s.gc = some [1] ∧ s.flushLock = none ∧ s.flPool = [3] := by
  decide

/-- the whole schedule: every program finished; both passes applied; nothing missed, nothing twice -/
theorem C13_example_barrier :
    let s := run (init c13bProgs) c13bSched
    Quiescent s ∧ s.missed = [] ∧ s.applied = [1, 3] ∧ s.applied ≠ [] ∧ s.consumed = [1, 3] ∧ s.freed = [1, 3] ∧
    s.gc = none ∧ s.flFile = [] ∧ s.flPool = [] ∧ s.disk = [1, 2, 3, 4] ∧ s.nextPool = [] ∧ s.flushLock = none ∧
    s.phase = .noGc ∧ (s.applied ++ pendingGc s ++ s.flFile ++ s.flPool).Perm (c13bProgs.flatMap progFrees) := by
  decide

/-! ### (6) replay of recorded events -/

/-- C13B (6), event level.  For every list of events on which the replay (with the order check) succeeds from a store
    whose primary file holds `disk`, with the collector's events (togc, apply, remove) all from one thread `c`:
    nothing was missed; the stages of the freelist are the log of returned FreeList.Put calls; after the barrier
    every `.gc` entry is in the primary file. -/
theorem C13_barrier_replayFrom_nothing_missed (evs : List (Nat × Ev)) (c : Nat)
    (hc : ∀ e ∈ evs, e.2.collector = true → e.1 = c) (disk : List Rec) (s : State)
    (hs : replayFrom true (replayInit disk) evs = some s) :
    s.missed = [] ∧ s.consumed ++ gcEntries s ++ s.flFile ++ s.flPool = s.freed ∧
    (s.phase = .barriered ∨ s.phase = .applied → ∀ o ∈ gcEntries s, o ∈ s.disk) := by
  have hinv := replayFrom_inv evs (replayInit_inv false c disk) hc hs
  exact ⟨hinv.d.nomiss, hinv.d.acct, hinv.d.cover⟩

/-- C13B (6).  The same for the textual events `BarrierConc.replay` takes (thread, "pput:<r>" | "free:<o>" |
    "pflush.swapped" | "pflush.written" | "pflush.empty" | "fflush" | "togc" | "apply" | "remove"): whenever the
    replay of a recorded schedule succeeds and one thread `c` issued all the togc / apply / remove events, no entry
    was applied to a record that was not in the primary file. -/
theorem C13_barrier_replay_nothing_missed (events : List (Nat × String)) (c : Nat)
    (hc : ∀ x ∈ events, ∀ ev, parseEv x.2 = some ev → ev.collector = true → x.1 = c)
    (disk : List Rec) (s : State) (hs : replay events disk = some s) :
    s.missed = [] ∧ s.consumed ++ gcEntries s ++ s.flFile ++ s.flPool = s.freed ∧
    (s.phase = .barriered ∨ s.phase = .applied → ∀ o ∈ gcEntries s, o ∈ s.disk) := by
  unfold replay at hs
  split at hs
  · rename_i evs hp
    refine C13_barrier_replayFrom_nothing_missed evs c ?_ disk s hs
    intro e he hcoll
    obtain ⟨x, hx, hx1, hx2⟩ := parseEvents_some hp e he
    rw [← hx1]
    exact hc x hx e.2 hx2 hcoll
  · cases hs

/-- the events of the schedule of `C13_example_barrier`, as the hooks of the real code report them (the collector's
    blocked attempt to take the lock is no event) -/
def c13bEvents : List (Nat × String) :=
  [(0, "pput:1"), (0, "pput:2"), (0, "free:1"), (1, "pput:3"), (2, "pflush.swapped"), (1, "pput:4"), (3, "togc"),
   (1, "free:3"), (2, "pflush.written"), (3, "pflush.swapped"), (3, "pflush.written"), (3, "togc"), (3, "apply"),
   (3, "remove"), (2, "fflush"), (3, "togc"), (3, "pflush.empty"), (3, "togc"), (3, "apply"), (3, "remove")]

/-- the replay succeeds and ends in the same shared state as the small-step run -/
theorem C13_example_barrier_replay :
    (replay c13bEvents).map shared = some (shared (run (init c13bProgs) c13bSched)) ∧
    (replay c13bEvents).map (fun s => (s.missed, s.applied, s.consumed, s.disk)) =
      some ([], [1, 3], [1, 3], [1, 2, 3, 4]) := by decide

/-- events that are not enabled in the model are refused: the collector's empty-pool return while a flusher holds the
    lock (the trace of the `stepFast` variant); an apply before the collector's flush (the trace of the D4 order);
    a free of a record whose Put has not returned; swapped on an empty pool; empty on a non-empty pool; a write
    without the swap; an unknown event -/
example : replay [(0, "pput:1"), (0, "pput:2"), (0, "free:1"), (1, "pflush.swapped"), (2, "togc"),
    (2, "pflush.empty")] = none := by decide
example : replay [(1, "pflush.empty"), (0, "pput:1"), (0, "pput:2"), (0, "free:1"), (1, "togc"), (1, "togc"),
    (1, "apply")] = none := by decide
example : (replayLoose [(1, "pflush.empty"), (0, "pput:1"), (0, "pput:2"), (0, "free:1"), (1, "togc"), (1, "togc"),
    (1, "apply")]).map (·.missed) = some [1] := by decide
example : replay [(0, "pput:1"), (0, "free:2")] = none := by decide
example : replay [(0, "pflush.swapped")] = none := by decide
example : replay [(0, "pput:1"), (1, "pflush.empty")] = none := by decide
example : replay [(0, "pput:1"), (1, "pflush.written")] = none := by decide
example : replay [(0, "pput:x")] = none := by decide
example : (replay [(0, "free:7")] [7]).map (·.flPool) = some [7] := by decide

end Sth
