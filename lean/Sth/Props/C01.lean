/-
C01 — The store behaves exactly like a map from keys to byte strings.

Property theorems only (helper lemmas: Sth/Lemmas/*).  The theorems are about the physical model of
Sth/Model/Store.lean driven through Sth/Model/Machine.lean — the very functions the driver replays the
real code's traces with — and hold for EVERY legal configuration (both primaries, both immutability
modes, every index bit size 8..31, every index/primary file-size limit from 1 byte — "every record starts
a new file" — to 1 GiB), EVERY finite call sequence with flushes at arbitrary positions and arbitrary
flush orders, EVERY key set satisfying the property's premise and EVERY value including the empty one.

STATUS.  The full statement below is FALSE for the model when `kind = .cid`: `cid.CidFromBytes` accepts
trailing bytes after the CID, `IndexKey` ignores them, but once the record is read back from the file
`readNode` splits the stored bytes at the end of the CID, so the trailing bytes of the key come back as
the beginning of the value (`C01_counterexample_cid_trailing_bytes`, machine-checked below).  What is
proved instead, with the excluded case named by an explicit hypothesis:

  * `C01_store_refines_map_partial_exactKeys` — both primaries, under the additional premise `KeysExact`
    (every well-formed key is exactly one multihash / CID: no trailing bytes);
  * `C01_store_refines_map_partial_mh` — the multihash primary under the original premises alone
    (`KeysExact` is automatic there: `multihash.Decode` rejects trailing bytes).
-/
import Sth.Lemmas.C01

namespace Sth

/- full statement, not yet proved (and refuted for `kind = .cid`, see `C01_counterexample_cid_trailing_bytes`):

/-- C01, main theorem: every call returns what the same call returns on an in-memory map. -/
theorem C01_store_refines_map (c : Cfg) (hc : c.Legal) (ops : List SOp) (ha : ∀ op ∈ ops, op.isC01 = true)
    (hk : KeysOK c.kind ops) (hs : SizesOK ops) (s : SState) (hi : initS c = some s) :
    (runS s ops).2 = (specRun c.kind c.imm [] ops).2 :=
  store_refines_map c hc ops ha hk hs s hi
-/

/-- C01 under the additional premise that no well-formed key carries trailing bytes (`KeysExact`):
    every call returns what the same call returns on an in-memory map.  Both primaries. -/
theorem C01_store_refines_map_partial_exactKeys (c : Cfg) (hc : c.Legal) (ops : List SOp)
    (ha : ∀ op ∈ ops, op.isC01 = true) (hk : KeysOK c.kind ops) (hx : KeysExact c.kind ops)
    (hs : SizesOK ops) (s : SState) (hi : initS c = some s) :
    (runS s ops).2 = (specRun c.kind c.imm [] ops).2 :=
  store_refines_map_exact c hc ops ha hk hx hs s hi

/-- C01 for the multihash primary, under the property's premises alone. -/
theorem C01_store_refines_map_partial_mh (c : Cfg) (hc : c.Legal) (hkind : c.kind = .mh) (ops : List SOp)
    (ha : ∀ op ∈ ops, op.isC01 = true) (hk : KeysOK c.kind ops) (hs : SizesOK ops) (s : SState)
    (hi : initS c = some s) :
    (runS s ops).2 = (specRun c.kind c.imm [] ops).2 :=
  store_refines_map_mh c hc hkind ops ha hk hs s hi

/-- every legal configuration opens -/
theorem C01_init (c : Cfg) (hc : c.Legal) : ∃ s, initS c = some s :=
  init_exists c hc

/-! Non-vacuity: a legal configuration with 1-byte files, and a call sequence over three keys sharing a
    bucket and leading digest bytes, with an empty value, an overwrite, a removal and flushes. -/

def exCfg : Cfg := { kind := .mh, bits := 8, ifs := 1, pfs := 1, imm := false }
def exOps01 : List SOp :=
  [.put [18, 6, 1, 2, 3, 4, 5, 6] [7], .put [18, 6, 1, 2, 3, 4, 5, 7] [], .flush [1], .get [18, 6, 1, 2, 3, 4, 5, 7],
   .put [18, 6, 1, 2, 3, 4, 5, 6] [8, 9], .rm [18, 6, 1, 2, 3, 4, 5, 7], .put [18, 6, 1, 2, 9, 9, 9, 9] [1], .flush [],
   .get [18, 6, 1, 2, 3, 4, 5, 6], .has [18, 6, 1, 2, 3, 4, 5, 7], .size [18, 6, 1, 2, 9, 9, 9, 9], .iter []]

example : exCfg.Legal := by decide
example : exCfg.kind = .mh := rfl
example : (∀ op ∈ exOps01, op.isC01 = true) ∧ KeysOK exCfg.kind exOps01 ∧ SizesOK exOps01 := by
  refine ⟨by decide, ?_, ?_⟩
  · unfold KeysOK; decide
  · unfold SizesOK; decide

/-! Non-vacuity of the `KeysExact` variant on the CID primary: CIDv1 (raw codec, sha2-256 code, 6-byte
    digests) and a CIDv0-shaped key, same call pattern. -/

def exCfgCid : Cfg := { kind := .cid, bits := 8, ifs := 1, pfs := 1, imm := false }
def exOps01Cid : List SOp :=
  [.put [1, 85, 18, 6, 1, 2, 3, 4, 5, 6] [7], .put [1, 85, 18, 6, 1, 2, 3, 4, 5, 7] [], .flush [1],
   .get [1, 85, 18, 6, 1, 2, 3, 4, 5, 7], .put [1, 85, 18, 6, 1, 2, 3, 4, 5, 6] [8, 9],
   .rm [1, 85, 18, 6, 1, 2, 3, 4, 5, 7], .put [1, 85, 18, 6, 1, 2, 9, 9, 9, 9] [1], .flush [],
   .put (18 :: 32 :: List.replicate 32 5) [3], .flush [],
   .get [1, 85, 18, 6, 1, 2, 3, 4, 5, 6], .has [1, 85, 18, 6, 1, 2, 3, 4, 5, 7],
   .size [1, 85, 18, 6, 1, 2, 9, 9, 9, 9], .get (18 :: 32 :: List.replicate 32 5), .iter []]

example : exCfgCid.Legal := by decide
example : (∀ op ∈ exOps01Cid, op.isC01 = true) ∧ KeysOK exCfgCid.kind exOps01Cid ∧
    KeysExact exCfgCid.kind exOps01Cid ∧ SizesOK exOps01Cid := by
  refine ⟨by decide, ?_, ?_, ?_⟩
  · unfold KeysOK; decide
  · unfold KeysExact; decide
  · unfold SizesOK; decide

/-! The counterexample to the full statement: a CID key with one trailing byte.  After the record has
    left the primary's pools (two flushes with a put in between), `Get` returns the trailing byte
    followed by the value: the model answers `found [99, 7]`, the map `found [7]`. -/

def cexCfg : Cfg := { kind := .cid, bits := 8, ifs := 1024, pfs := 1024, imm := false }
def cexOps : List SOp :=
  [.put [1, 85, 18, 4, 1, 2, 3, 4, 99] [7], .flush [], .put [1, 85, 18, 4, 9, 2, 3, 4] [8], .flush [],
   .get [1, 85, 18, 4, 1, 2, 3, 4, 99]]

theorem C01_counterexample_cid_trailing_bytes :
    cexCfg.Legal ∧ (∀ op ∈ cexOps, op.isC01 = true) ∧ KeysOK cexCfg.kind cexOps ∧ SizesOK cexOps ∧
    ∃ s, initS cexCfg = some s ∧
      (runS s cexOps).2 = [.ok, .ok, .ok, .ok, .found [99, 7]] ∧
      (specRun cexCfg.kind cexCfg.imm [] cexOps).2 = [.ok, .ok, .ok, .ok, .found [7]] := by
  refine ⟨by decide, by decide, ?_, ?_, _, rfl, ?_, ?_⟩
  · unfold KeysOK; decide
  · unfold SizesOK; decide
  · decide
  · decide

/-- hence the full statement does not hold for the model as it stands -/
theorem C01_full_statement_refuted :
    ¬ (∀ (c : Cfg) (_ : c.Legal) (ops : List SOp) (_ : ∀ op ∈ ops, op.isC01 = true)
        (_ : KeysOK c.kind ops) (_ : SizesOK ops) (s : SState) (_ : initS c = some s),
        (runS s ops).2 = (specRun c.kind c.imm [] ops).2) := by
  intro h
  obtain ⟨h1, h2, h3, h4, s, h5, h6, h7⟩ := C01_counterexample_cid_trailing_bytes
  have := h cexCfg h1 cexOps h2 h3 h4 s h5
  rw [h6, h7] at this
  revert this
  decide

end Sth
