/-
C01 — The store behaves exactly like a map from keys to byte strings.

Property theorems only (helper lemmas: Sth/Lemmas/*).  The theorems are about the physical model of
Sth/Model/Store.lean driven through Sth/Model/Machine.lean — the very functions the driver replays the
real code's traces with — and hold for EVERY legal configuration (both primaries, both immutability
modes, every index bit size 8..31, every index/primary file-size limit from 1 byte — "every record starts
a new file" — to 1 GiB), EVERY finite call sequence with flushes at arbitrary positions and arbitrary
flush orders, EVERY key set satisfying the property's premise and EVERY value including the empty one.

STATUS.  The full statement `C01_store_refines_map` is proved, with no hypothesis beyond the property's
premises.  The first proof attempt found defect D30 (see /verif/KNOWN_FINDINGS.txt): the CID primary
accepted keys with bytes after the CID (`cid.CidFromBytes` is lenient and `IndexKey` ignored the rest),
and once such a record had left the primary's pools `readNode` split the stored bytes at the end of the
CID, so `Get` returned the trailing key bytes as the beginning of the value — the refinement theorem was
false for `kind = .cid`.  The defect was repaired in the code (`CIDPrimary.IndexKey` rejects trailing
bytes) and the model follows the repaired code; `C01_trailing_bytes_rejected`,
`C01_d30_input_now_agrees` and `C01_d30_mechanism` below record what the repair does on the input that
exposed it.
-/
import Sth.Lemmas.C01

namespace Sth

/-- C01, main theorem: every call returns what the same call returns on an in-memory map. -/
theorem C01_store_refines_map (c : Cfg) (hc : c.Legal) (ops : List SOp) (ha : ∀ op ∈ ops, op.isC01 = true)
    (hk : KeysOK c.kind ops) (hs : SizesOK ops) (s : SState) (hi : initS c = some s) :
    (runS s ops).2 = (specRun c.kind c.imm [] ops).2 :=
  store_refines_map c hc ops ha hk hs s hi

/-- no well-formed key carries trailing bytes (what the repair of D30 guarantees; for the multihash
    primary `multihash.Decode` always did): parsing a key as a stored record gives the key back -/
theorem C01_keys_exact (kind : PKind) (ops : List SOp) : KeysExact kind ops :=
  keysExact_all kind ops

/-- every legal configuration opens -/
theorem C01_init (c : Cfg) (hc : c.Legal) : ∃ s, initS c = some s :=
  init_exists c hc

/-! Non-vacuity: a legal configuration with 1-byte files, and a call sequence over three keys sharing a
    bucket and leading digest bytes, with an empty value, an overwrite, a removal and flushes. -/

def exCfg : Cfg := { kind := .mh, bits := 8, ifs := 1, pfs := 1, imm := false }
def exOps01 : List SOp :=
  [.put [18, 6, 1, 2, 3, 4, 5, 6] [7], .put [18, 6, 1, 2, 3, 4, 5, 7] [], .flush [1], .get [18, 6, 1, 2, 3, 4, 5, 7],
   .put [18, 6, 1, 2, 3, 4, 5, 6] [8, 9], .rm [18, 6, 1, 2, 3, 4, 5, 7], .put [18, 6, 1, 2, 9, 9, 9, 9] [1], .flush [],
   .get [18, 6, 1, 2, 3, 4, 5, 6], .has [18, 6, 1, 2, 3, 4, 5, 7], .size [18, 6, 1, 2, 9, 9, 9, 9], .iter []]

example : exCfg.Legal := by decide
example : exCfg.kind = .mh := rfl
example : (∀ op ∈ exOps01, op.isC01 = true) ∧ KeysOK exCfg.kind exOps01 ∧ SizesOK exOps01 := by
  refine ⟨by decide, ?_, ?_⟩
  · unfold KeysOK; decide
  · unfold SizesOK; decide

/-! Non-vacuity on the CID primary: CIDv1 (raw codec, sha2-256 code, 6-byte digests) and a CIDv0-shaped
    key, same call pattern; every key of the sequence is well-formed for the repaired `IndexKey`. -/

def exCfgCid : Cfg := { kind := .cid, bits := 8, ifs := 1, pfs := 1, imm := false }
def exOps01Cid : List SOp :=
  [.put [1, 85, 18, 6, 1, 2, 3, 4, 5, 6] [7], .put [1, 85, 18, 6, 1, 2, 3, 4, 5, 7] [], .flush [1],
   .get [1, 85, 18, 6, 1, 2, 3, 4, 5, 7], .put [1, 85, 18, 6, 1, 2, 3, 4, 5, 6] [8, 9],
   .rm [1, 85, 18, 6, 1, 2, 3, 4, 5, 7], .put [1, 85, 18, 6, 1, 2, 9, 9, 9, 9] [1], .flush [],
   .put (18 :: 32 :: List.replicate 32 5) [3], .flush [],
   .get [1, 85, 18, 6, 1, 2, 3, 4, 5, 6], .has [1, 85, 18, 6, 1, 2, 3, 4, 5, 7],
   .size [1, 85, 18, 6, 1, 2, 9, 9, 9, 9], .get (18 :: 32 :: List.replicate 32 5), .iter []]

example : exCfgCid.Legal := by decide
example : (∀ op ∈ exOps01Cid, op.isC01 = true) ∧ KeysOK exCfgCid.kind exOps01Cid ∧
    KeysExact exCfgCid.kind exOps01Cid ∧ SizesOK exOps01Cid := by
  refine ⟨by decide, ?_, ?_, ?_⟩
  · unfold KeysOK; decide
  · unfold KeysExact; decide
  · unfold SizesOK; decide
example : (digestsOf exCfgCid.kind exOps01Cid).length = 11 := by decide

/-! Defect D30, after the repair.  The input that refuted the first version of the theorem: a CIDv1 key
    with one trailing byte, put, pushed out of the primary's pools by two flushes with a put in between,
    and read back.  Before the repair the code (and the model) answered `found [99, 7]` where the map
    answers `found [7]`. -/

def d30Cfg : Cfg := { kind := .cid, bits := 8, ifs := 1024, pfs := 1024, imm := false }
def d30Key : Bytes := [1, 85, 18, 4, 1, 2, 3, 4, 99]
def d30Ops : List SOp :=
  [.put d30Key [7], .flush [], .put [1, 85, 18, 4, 9, 2, 3, 4] [8], .flush [], .get d30Key]

/-- the repaired `IndexKey` rejects the key with a trailing byte … -/
theorem C01_trailing_bytes_rejected : indexKeyOf .cid d30Key = none := by decide

/-- … while the same CID without the trailing byte is accepted -/
theorem C01_exact_cid_accepted : indexKeyOf .cid [1, 85, 18, 4, 1, 2, 3, 4] = some [1, 2, 3, 4] := by decide

/-- on the D30 input store and map now agree: the malformed key is refused by both -/
theorem C01_d30_input_now_agrees :
    d30Cfg.Legal ∧ (∀ op ∈ d30Ops, op.isC01 = true) ∧ KeysOK d30Cfg.kind d30Ops ∧ SizesOK d30Ops ∧
    ∃ s, initS d30Cfg = some s ∧
      (runS s d30Ops).2 = [.err .badKey, .ok, .ok, .ok, .err .badKey] ∧
      (specRun d30Cfg.kind d30Cfg.imm [] d30Ops).2 = [.err .badKey, .ok, .ok, .ok, .err .badKey] := by
  refine ⟨by decide, by decide, ?_, ?_, _, rfl, ?_, ?_⟩
  · unfold KeysOK; decide
  · unfold SizesOK; decide
  · decide
  · decide

/-- the index key function as it was before the repair: whatever `cid.CidFromBytes` parses, trailing
    bytes ignored (only used to record the mechanism of D30) -/
def indexKeyOfLenient (kind : PKind) (key : Bytes) : Option Bytes :=
  match kind with
  | .mh => mhDecode key
  | .cid =>
    match cidRead key with
    | some (_, dig, _) => some dig
    | none => none

/-- the mechanism of D30: the lenient index key accepted the key with the trailing byte and indexed it
    under the digest of the CID, but the stored record `key ‖ value` parses back as the CID without the
    trailing byte and the value `[99, 7]` instead of `[7]` -/
theorem C01_d30_mechanism :
    indexKeyOfLenient .cid d30Key = some [1, 2, 3, 4] ∧
    readNode .cid (d30Key ++ [7]) = some ([1, 85, 18, 4, 1, 2, 3, 4], [99, 7]) := by
  refine ⟨by decide, by decide⟩

end Sth
