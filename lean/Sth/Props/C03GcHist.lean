/-
C03 — A crash at any point loses at most unflushed work: histories WITH GC cycles.

Property theorems only (helper lemmas: Sth/Lemmas/C03Defs4, C03Stream4, C03Scan4, C03Idx4, C03Pri4,
C03Flush4, C03Recover4, C03Inv4, C03K3 on top of the C03 and C04 developments).  These are the theorems
of Sth/Props/C03.lean (`C03_flush_crash_recovers`, `C03_flush_crash_against_map`,
`C03_recovered_store_keeps_working_partial`) re-based on C04's run theorem: the history `ops` before the
interrupted flush is now ANY finite sequence of Put / Get / Has / GetSize / Remove / Flush / iteration /
Close+reopen calls AND index GC cycles AND primary GC cycles (each complete or cut short at any poll,
any `scanFree`, any `lowUse`), for any legal configuration.  The file families on disk therefore no
longer start at file 0 (`first` of either header may have advanced, files may have been removed or
truncated, records relocated and buckets re-pointed); the crash analysis of the flush was redone over
C04's span logs.

Premises beyond C03's, on multihash stores only (CID stores need neither: `_cid` variants):

* `GcCountersOK s0 (ops ++ [.flush ord])` — C04's premise: the file counters stay below 2^28 along the run
  (decidable; `C04_countersOK_of_budget` gives it from a bound on the calls alone).

* `PgcFromClean s0 ops` — C07's premise (Sth/Props/C07G.lean): every primary GC cycle of the history STARTS
  WITH AN EMPTY INDEX POOL (decidable; `C07_pgcFromClean_of_afterFlush` gives it from the calls alone:
  `pgcAfterFlush true ops` — every primary GC cycle follows a Flush / iteration / Close+reopen with only
  reads and index GC cycles in between).  This premise is
  NECESSARY — known finding D11: a primary GC cycle started with a dirty index pool reaps / relocates
  primary records that the index ON DISK still names, so a crash after it (before the next completed
  flush) loses a value that was durable.  Witness below by `decide`: after
  `put k [1,1]; flush; put k [3]; pgc`, the crash images of the next flush read `absent` for `k` —
  neither the flushed `[1,1]` nor the current `[3]`.  (Sth/Props/C03Gc.lean has the same defect for a
  crash DURING the cycle.)  The primary pool may be dirty when a cycle starts; that is harmless.

Durable points: `lastDurable4` is `lastDurable` of C03 where, on a multihash store, a primary GC cycle also
counts (it flushes the primary pool; started with an empty index pool everything accepted so far is then
on disk).  `C03_lastDurable4_spec` characterises it; without primary GC cycles in the history (or on a CID
store) it IS `lastDurable` (`C03_lastDurable4_eq`).

`C03_crash_after_gc_history`: for EVERY event count `k` and rollover variant `early` the crash image of
the flush reopens, and EVERY byte string reads old (what it reads after recovering the disk as it was
before the flush) or new (what it reads after the flush) — per key, never anything else.

`C03_crash_after_gc_history_against_map`: the same against the specification map (`lastDurable4` or now),
malformed keys refused as ever.

`C03_crash_after_gc_history_keeps_working_partial`: the store recovered from ANY image keeps working: every
continuation of Put / Get / Has / GetSize / Remove / Flush / iteration / Close+reopen calls AND index GC
cycles answers exactly like a map that has, for every digest, the durable entry or the current entry.
"Partial": (1) factor 2 on the bytes put before the crash (as in C03); (2) the continuation excludes
primary GC cycles on multihash stores (`isC04a`): junk left in the primary tail by a cut append is exactly
what a later primary GC cycle would parse — known finding D12; the recovered state satisfies C01's and
C04's index-side invariants (`Inv`, `YInv`) but not the primary-log clause of the GC invariant.  On CID
stores (no primary GC) the continuation is unrestricted.

Nothing new was found false in the model.
-/
import Sth.Lemmas.C03K3
import Sth.Props.C03Gc

namespace Sth

/-- C03 with GC cycles in the history: every crash image of a flush of a reachable state reopens, and
    every key reads old or new. -/
theorem C03_crash_after_gc_history (c : Cfg) (hc : c.Legal) (ops : List SOp)
    (hk : KeysOK c.kind ops) (hs : SizesOK ops) (s0 : SState) (hi : initS c = some s0)
    (ord : List Nat) (hb : GcCountersOK s0 (ops ++ [.flush ord])) (hp : PgcFromClean s0 ops)
    (k : Nat) (early : Bool) :
    let s := (runS s0 ops).1
    ∃ m' d', storeFlush s.m s.d (fixOrder ord s.m.inext.keys) = some (m', d') ∧
      ∃ dOld mOld, openStoreR c s.d = (dOld, .ok mOld) ∧
      ∃ dr mr, openStoreR c (crashImage s.d (appendStream s.d d') k early) = (dr, .ok mr) ∧
        ∀ key, (storeGet mr dr key).2 = (storeGet mOld dOld key).2 ∨
          (storeGet mr dr key).2 = (storeGet m' d' key).2 := by
  intro s
  have hU := univ_of_keysOK hk (keysExact_all c.kind ops)
  obtain ⟨hb1, hb2, _⟩ := GcCountersOK.append ops [.flush ord] s0 hb
  obtain ⟨_, _, _, m', d', f1, dOld, mOld, o1, dr, mr, r1, hget, _⟩ :=
    crash_after_gc c hc _ hU ops (fun op ho k hkey dig hcls => mem_digestsOf ho hkey hcls) hs s0 hi
      (fun _ => ⟨hb1, hb2⟩) (fun _ => hp) ord k early
  exact ⟨m', d', f1, dOld, mOld, o1, dr, mr, r1, hget⟩

/-- the same on a CID store, where neither premise on the GC cycles is needed -/
theorem C03_crash_after_gc_history_cid (c : Cfg) (hc : c.Legal) (hcid : c.kind = .cid)
    (ops : List SOp) (hk : KeysOK c.kind ops) (hs : SizesOK ops) (s0 : SState)
    (hi : initS c = some s0) (ord : List Nat) (k : Nat) (early : Bool) :
    let s := (runS s0 ops).1
    ∃ m' d', storeFlush s.m s.d (fixOrder ord s.m.inext.keys) = some (m', d') ∧
      ∃ dOld mOld, openStoreR c s.d = (dOld, .ok mOld) ∧
      ∃ dr mr, openStoreR c (crashImage s.d (appendStream s.d d') k early) = (dr, .ok mr) ∧
        ∀ key, (storeGet mr dr key).2 = (storeGet mOld dOld key).2 ∨
          (storeGet mr dr key).2 = (storeGet m' d' key).2 := by
  intro s
  have hU := univ_of_keysOK hk (keysExact_all c.kind ops)
  have hno : ¬ c.kind = .mh := by rw [hcid]; intro h; cases h
  obtain ⟨_, _, _, m', d', f1, dOld, mOld, o1, dr, mr, r1, hget, _⟩ :=
    crash_after_gc c hc _ hU ops (fun op ho k hkey dig hcls => mem_digestsOf ho hkey hcls) hs s0 hi
      (fun h => absurd h hno) (fun h => absurd h hno) ord k early
  exact ⟨m', d', f1, dOld, mOld, o1, dr, mr, r1, hget⟩

/-- against the map, any store: `hgc` carries the two premises for multihash stores -/
theorem C03_crash_after_gc_history_against_map_any (c : Cfg) (hc : c.Legal) (ops : List SOp)
    (hs : SizesOK ops) (s0 : SState) (hi : initS c = some s0) (ord : List Nat)
    (hgc : c.kind = .mh → GcCountersOK s0 (ops ++ [.flush ord]) ∧ PgcFromClean s0 ops)
    (k : Nat) (early : Bool) :
    let s := (runS s0 ops).1
    ∀ m' d', storeFlush s.m s.d (fixOrder ord s.m.inext.keys) = some (m', d') →
    ∀ dr mr, openStoreR c (crashImage s.d (appendStream s.d d') k early) = (dr, .ok mr) →
    ∀ key, KeysOK c.kind (ops ++ [.get key]) →
      match keyClass c.kind key with
      | .error e => (storeGet mr dr key).2 = .err e
      | .ok dig =>
        (storeGet mr dr key).2 = getResOf (Spec.get (lastDurable4 c.kind c.imm [] [] ops) dig) ∨
        (storeGet mr dr key).2 = getResOf (Spec.get (specRun c.kind c.imm [] ops).1 dig) := by
  intro s m' d' hf dr mr hr key hk
  have hU := univ_of_keysOK hk (keysExact_all c.kind _)
  obtain ⟨_, _, _, m'', d'', f1, dOld, mOld, _, dr', mr', r1, hb, hmap, herr, _⟩ :=
    crash_after_gc c hc _ hU ops
      (fun op ho k hkey dig hcls => mem_digestsOf (List.mem_append_left _ ho) hkey hcls) hs s0 hi
      (fun h => by
        obtain ⟨hb1, hb2, _⟩ := GcCountersOK.append ops [.flush ord] s0 (hgc h).1
        exact ⟨hb1, hb2⟩)
      (fun h => (hgc h).2) ord k early
  have e1 : storeFlush s.m s.d (fixOrder ord s.m.inext.keys) = some (m'', d'') := f1
  rw [hf] at e1
  simp only [Option.some.injEq, Prod.mk.injEq] at e1
  obtain ⟨rfl, rfl⟩ := e1
  have e2 : openStoreR c (crashImage s.d (appendStream s.d d') k early) = (dr', .ok mr') := r1
  rw [hr] at e2
  simp only [Prod.mk.injEq, Except.ok.injEq] at e2
  obtain ⟨rfl, rfl⟩ := e2
  cases hcls : keyClass c.kind key with
  | error e => exact herr key e hcls
  | ok dig =>
    have hmem : (key, dig) ∈ digestsOf c.kind (ops ++ [.get key]) :=
      mem_digestsOf (op := .get key) (List.mem_append_right _ (List.mem_singleton_self _)) rfl hcls
    obtain ⟨h1, h2⟩ := hmap key dig hmem
    simp only
    rcases hb key with h | h
    · left; rw [h, h1]
    · right; rw [h, h2]

/-- C03 with GC cycles in the history, against the map: in the store recovered from any crash image, a
    key that respects the premise on keys reads its value at the last durable point or its value now
    (`absent` when it is not in that map); a malformed key gets its usual error. -/
theorem C03_crash_after_gc_history_against_map (c : Cfg) (hc : c.Legal) (ops : List SOp)
    (hs : SizesOK ops) (s0 : SState) (hi : initS c = some s0) (ord : List Nat)
    (hb : GcCountersOK s0 (ops ++ [.flush ord])) (hp : PgcFromClean s0 ops) (k : Nat) (early : Bool) :
    let s := (runS s0 ops).1
    ∀ m' d', storeFlush s.m s.d (fixOrder ord s.m.inext.keys) = some (m', d') →
    ∀ dr mr, openStoreR c (crashImage s.d (appendStream s.d d') k early) = (dr, .ok mr) →
    ∀ key, KeysOK c.kind (ops ++ [.get key]) →
      match keyClass c.kind key with
      | .error e => (storeGet mr dr key).2 = .err e
      | .ok dig =>
        (storeGet mr dr key).2 = getResOf (Spec.get (lastDurable4 c.kind c.imm [] [] ops) dig) ∨
        (storeGet mr dr key).2 = getResOf (Spec.get (specRun c.kind c.imm [] ops).1 dig) :=
  C03_crash_after_gc_history_against_map_any c hc ops hs s0 hi ord (fun _ => ⟨hb, hp⟩) k early

/-- the same on a CID store, without the premises on the GC cycles -/
theorem C03_crash_after_gc_history_against_map_cid (c : Cfg) (hc : c.Legal) (hcid : c.kind = .cid)
    (ops : List SOp) (hs : SizesOK ops) (s0 : SState) (hi : initS c = some s0) (ord : List Nat)
    (k : Nat) (early : Bool) :
    let s := (runS s0 ops).1
    ∀ m' d', storeFlush s.m s.d (fixOrder ord s.m.inext.keys) = some (m', d') →
    ∀ dr mr, openStoreR c (crashImage s.d (appendStream s.d d') k early) = (dr, .ok mr) →
    ∀ key, KeysOK c.kind (ops ++ [.get key]) →
      match keyClass c.kind key with
      | .error e => (storeGet mr dr key).2 = .err e
      | .ok dig =>
        (storeGet mr dr key).2 = getResOf (Spec.get (lastDurable4 c.kind c.imm [] [] ops) dig) ∨
        (storeGet mr dr key).2 = getResOf (Spec.get (specRun c.kind c.imm [] ops).1 dig) :=
  C03_crash_after_gc_history_against_map_any c hc ops hs s0 hi ord
    (fun h => by rw [hcid] at h; cases h) k early

/-- a value that was durable and not changed since is read back after recovery from any crash image,
    whatever GC cycles the history contains -/
theorem C03_flushed_unchanged_survives_gc (c : Cfg) (hc : c.Legal) (ops : List SOp)
    (hs : SizesOK ops) (s0 : SState) (hi : initS c = some s0) (ord : List Nat)
    (hb : GcCountersOK s0 (ops ++ [.flush ord])) (hp : PgcFromClean s0 ops) (k : Nat) (early : Bool)
    (key dig k1 k2 v : Bytes) (hk : KeysOK c.kind (ops ++ [.get key]))
    (hcls : keyClass c.kind key = .ok dig)
    (h1 : Spec.get (lastDurable4 c.kind c.imm [] [] ops) dig = some (k1, v))
    (h2 : Spec.get (specRun c.kind c.imm [] ops).1 dig = some (k2, v)) :
    let s := (runS s0 ops).1
    ∀ m' d', storeFlush s.m s.d (fixOrder ord s.m.inext.keys) = some (m', d') →
    ∀ dr mr, openStoreR c (crashImage s.d (appendStream s.d d') k early) = (dr, .ok mr) →
      (storeGet mr dr key).2 = .found v := by
  intro s m' d' hf dr mr hr
  have := C03_crash_after_gc_history_against_map c hc ops hs s0 hi ord hb hp k early m' d' hf dr mr hr
    key hk
  rw [hcls] at this
  simp only [h1, h2] at this
  rcases this with h | h <;> exact h

/-- a key absent at the last durable point and absent now is absent after recovery from any crash image,
    whatever GC cycles the history contains (no reaped or relocated record comes back) -/
theorem C03_removed_flushed_stays_absent_gc (c : Cfg) (hc : c.Legal) (ops : List SOp)
    (hs : SizesOK ops) (s0 : SState) (hi : initS c = some s0) (ord : List Nat)
    (hb : GcCountersOK s0 (ops ++ [.flush ord])) (hp : PgcFromClean s0 ops) (k : Nat) (early : Bool)
    (key dig : Bytes) (hk : KeysOK c.kind (ops ++ [.get key]))
    (hcls : keyClass c.kind key = .ok dig)
    (h1 : Spec.get (lastDurable4 c.kind c.imm [] [] ops) dig = none)
    (h2 : Spec.get (specRun c.kind c.imm [] ops).1 dig = none) :
    let s := (runS s0 ops).1
    ∀ m' d', storeFlush s.m s.d (fixOrder ord s.m.inext.keys) = some (m', d') →
    ∀ dr mr, openStoreR c (crashImage s.d (appendStream s.d d') k early) = (dr, .ok mr) →
      (storeGet mr dr key).2 = .absent := by
  intro s m' d' hf dr mr hr
  have := C03_crash_after_gc_history_against_map c hc ops hs s0 hi ord hb hp k early m' d' hf dr mr hr
    key hk
  rw [hcls] at this
  simp only [h1, h2] at this
  rcases this with h | h <;> exact h

/-- `lastDurable4` is the map after the longest prefix of the calls that ends in a durable call (Flush /
    iteration / Close+reopen, and a primary GC cycle on a multihash store); the empty map if there is
    none -/
theorem C03_lastDurable4_spec (kind : PKind) (imm : Bool) (ops : List SOp) :
    ((∀ op ∈ ops, op.isDurable4 kind = false) ∧ lastDurable4 kind imm [] [] ops = []) ∨
    ∃ pre op post, ops = pre ++ op :: post ∧ op.isDurable4 kind = true ∧
      (∀ o ∈ post, o.isDurable4 kind = false) ∧
      lastDurable4 kind imm [] [] ops = (specRun kind imm [] (pre ++ [op])).1 := by
  by_cases h : ∃ op ∈ ops, op.isDurable4 kind = true
  · exact Or.inr (lastDurable4_some kind imm ops [] [] h)
  · left
    have hno : ∀ o ∈ ops, o.isDurable4 kind = false := by
      intro o ho
      cases hd : o.isDurable4 kind with
      | false => rfl
      | true => exact absurd ⟨o, ho, hd⟩ h
    exact ⟨hno, lastDurable4_none kind imm ops [] [] hno⟩

/-- without primary GC cycles in the history, or on a CID store, the durable points are those of C03 -/
theorem C03_lastDurable4_eq (kind : PKind) (imm : Bool) (ops : List SOp)
    (h : kind = .cid ∨ ∀ op ∈ ops, op.isC04a = true) :
    lastDurable4 kind imm [] [] ops = lastDurable kind imm [] [] ops := by
  apply lastDurable4_eq
  intro op ho
  rcases h with rfl | h
  · exact isDurable4_cid op
  · exact isDurable4_of_c04a (h op ho)

/-- C03 with GC cycles in the history, the recovered store keeps working: the state recovered from ANY
    crash image behaves, for every continuation `ops'` of Put / Get / Has / GetSize / Remove / Flush /
    iteration / Close+reopen calls and index GC cycles, exactly like the map `specR` that holds for every
    digest its entry at the last durable point or its entry now.  "Partial": the factor 2 on the bytes
    put before the crash (as in C03); the continuation has no primary GC cycle (`isC04a`; known finding
    D12: the cycle would parse the junk a cut append left in the primary tail); and the number of calls
    of the continuation is bounded by 3·2^28 minus the calls before (the file counters may stand at 2^28
    at the crash). -/
theorem C03_crash_after_gc_history_keeps_working_partial (c : Cfg) (hc : c.Legal)
    (ops ops' : List SOp) (ha : ∀ op ∈ ops', op.isC04a = true) (hk : KeysOK c.kind (ops ++ ops'))
    (hs : SizesOK ops)
    (hs' : ops.length + ops'.length < 805306368 ∧
      2 * (ops.map SOp.bytes).sum + (ops'.map SOp.bytes).sum < two31)
    (s0 : SState) (hi : initS c = some s0) (ord : List Nat)
    (hb : GcCountersOK s0 (ops ++ [.flush ord])) (hp : PgcFromClean s0 ops) (k : Nat) (early : Bool) :
    let s := (runS s0 ops).1
    ∀ m' d', storeFlush s.m s.d (fixOrder ord s.m.inext.keys) = some (m', d') →
    ∀ dr mr, openStoreR c (crashImage s.d (appendStream s.d d') k early) = (dr, .ok mr) →
    ∃ specR : Spec,
      (∀ dig, Spec.get specR dig = Spec.get (lastDurable4 c.kind c.imm [] [] ops) dig ∨
        Spec.get specR dig = Spec.get (specRun c.kind c.imm [] ops).1 dig) ∧
      (runS ⟨c, mr, dr⟩ ops').2 = (specRun c.kind c.imm specR ops').2 := by
  intro s m' d' hf dr mr hr
  have hU := univ_of_keysOK hk (keysExact_all c.kind _)
  obtain ⟨hb1, hb2, _⟩ := GcCountersOK.append ops [.flush ord] s0 hb
  obtain ⟨n, hn1, hn2, m'', d'', f1, dOld, mOld, _, dr', mr', r1, _, _, _, specR, hmix, hI', hY', _⟩ :=
    crash_after_gc c hc _ hU ops
      (fun op ho k hkey dig hcls => mem_digestsOf (List.mem_append_left _ ho) hkey hcls) hs s0 hi
      (fun _ => ⟨hb1, hb2⟩) (fun _ => hp) ord k early
  have e1 : storeFlush s.m s.d (fixOrder ord s.m.inext.keys) = some (m'', d'') := f1
  rw [hf] at e1
  simp only [Option.some.injEq, Prod.mk.injEq] at e1
  obtain ⟨rfl, rfl⟩ := e1
  have e2 : openStoreR c (crashImage s.d (appendStream s.d d') k early) = (dr', .ok mr') := r1
  rw [hr] at e2
  simp only [Prod.mk.injEq, Except.ok.injEq] at e2
  obtain ⟨rfl, rfl⟩ := e2
  refine ⟨specR, hmix, ?_⟩
  have hn : n + ops'.length < 1073741824 := by
    rcases (by cases c.kind <;> simp : c.kind = .mh ∨ c.kind = .cid) with h | h
    · have := hn1 h; have := hs'.1; omega
    · have := hn2 h; have := hs'.1; omega
  exact (run_ok4a hc hU ops' ⟨c, mr, dr⟩ specR _ _ hI' hY' ha
    (fun op ho k hkey dig hcls => mem_digestsOf (List.mem_append_right _ ho) hkey hcls)
    hn (by have := hs'.2; omega)).1

/-- the same on a CID store: no premise on the GC cycles before the crash, and ANY continuation -/
theorem C03_crash_after_gc_history_keeps_working_cid_partial (c : Cfg) (hc : c.Legal)
    (hcid : c.kind = .cid) (ops ops' : List SOp) (hk : KeysOK c.kind (ops ++ ops'))
    (hs : SizesOK ops)
    (hs' : ops.length + ops'.length < 1073741824 ∧
      2 * (ops.map SOp.bytes).sum + (ops'.map SOp.bytes).sum < two31)
    (s0 : SState) (hi : initS c = some s0) (ord : List Nat) (k : Nat) (early : Bool) :
    let s := (runS s0 ops).1
    ∀ m' d', storeFlush s.m s.d (fixOrder ord s.m.inext.keys) = some (m', d') →
    ∀ dr mr, openStoreR c (crashImage s.d (appendStream s.d d') k early) = (dr, .ok mr) →
    ∃ specR : Spec,
      (∀ dig, Spec.get specR dig = Spec.get (lastDurable4 c.kind c.imm [] [] ops) dig ∨
        Spec.get specR dig = Spec.get (specRun c.kind c.imm [] ops).1 dig) ∧
      (runS ⟨c, mr, dr⟩ ops').2 = (specRun c.kind c.imm specR ops').2 := by
  intro s m' d' hf dr mr hr
  have hU := univ_of_keysOK hk (keysExact_all c.kind _)
  have hno : ¬ c.kind = .mh := by rw [hcid]; intro h; cases h
  obtain ⟨n, _, hn2, m'', d'', f1, dOld, mOld, _, dr', mr', r1, _, _, _, specR, hmix, hI', hY', _⟩ :=
    crash_after_gc c hc _ hU ops
      (fun op ho k hkey dig hcls => mem_digestsOf (List.mem_append_left _ ho) hkey hcls) hs s0 hi
      (fun h => absurd h hno) (fun h => absurd h hno) ord k early
  have e1 : storeFlush s.m s.d (fixOrder ord s.m.inext.keys) = some (m'', d'') := f1
  rw [hf] at e1
  simp only [Option.some.injEq, Prod.mk.injEq] at e1
  obtain ⟨rfl, rfl⟩ := e1
  have e2 : openStoreR c (crashImage s.d (appendStream s.d d') k early) = (dr', .ok mr') := r1
  rw [hr] at e2
  simp only [Prod.mk.injEq, Except.ok.injEq] at e2
  obtain ⟨rfl, rfl⟩ := e2
  refine ⟨specR, hmix, ?_⟩
  exact (run_cid hc hcid hU ops' ⟨c, mr, dr⟩ specR _ _ hI' hY'
    (fun op ho k hkey dig hcls => mem_digestsOf (List.mem_append_right _ ho) hkey hcls)
    (by have := hn2 hcid; have := hs'.1; omega) (by have := hs'.2; omega)).1

/-! Non-vacuity.  A history on a multihash store with 1-byte file limits (every record starts a new
    file) that contains two flushes, a complete primary GC cycle with `lowUse = 100` (it retires primary
    file 0, which holds the overwritten record of key 1: the primary header's `first` advances to 1) and a
    complete index GC cycle (it removes index file 0: the index header's `first` advances to 1), then an
    unflushed new key and an unflushed removal.  All premises hold by evaluation; ALL crash images of
    the next flush (82 events, both rollover variants) are recovered by evaluation and the distinct
    outcomes for the three keys listed: old, new, and one mixture. -/

def gcHist03 : List SOp :=
  [.put ex03K1 [1, 1], .put ex03K2 [2], .flush [], .put ex03K1 [3], .flush [], .pgc 100 none,
   .igc true none, .put ex03K3 [4, 4, 4], .rm ex03K2]

/-- the state the example histories start from -/
def gcHistS0 (c : Cfg) : SState := (initS c).getD ⟨c, openMem c [] 0 0 0 0, {}⟩

example : initS exCfg03b = some (gcHistS0 exCfg03b) := by
  have h : (initS exCfg03b).isSome = true := by decide +kernel
  unfold gcHistS0
  cases hi : initS exCfg03b with
  | none => rw [hi] at h; cases h
  | some s => rfl

set_option maxRecDepth 100000 in
example : KeysOK exCfg03b.kind gcHist03 ∧ SizesOK gcHist03 ∧
    GcCountersOK (gcHistS0 exCfg03b) (gcHist03 ++ [.flush []]) ∧
    PgcFromClean (gcHistS0 exCfg03b) gcHist03 ∧ pgcAfterFlush true gcHist03 = true ∧
    (∀ key ∈ [ex03K1, ex03K2, ex03K3], KeysOK exCfg03b.kind (gcHist03 ++ [.get key])) := by
  refine ⟨?_, ?_, by decide +kernel, by decide +kernel, by decide, ?_⟩
  · unfold KeysOK; decide
  · unfold SizesOK; decide
  · unfold KeysOK; decide

set_option maxRecDepth 100000 in
/-- both file families of the state before the interrupted flush start at file 1 -/
example : (let s := (runS (gcHistS0 exCfg03b) gcHist03).1
    (s.d.phdr.map (·.first), s.d.ihdr.map (·.first), s.d.pfiles.map (·.1), s.d.ifiles.map (·.1))) =
    (some 1, some 1, [1, 2], [1, 2]) := by decide +kernel

set_option maxRecDepth 100000 in
example : crashOutcomes exCfg03b gcHist03 [] [ex03K1, ex03K2, ex03K3] =
    some (82, [[some (some [3]), some (some [2]), some none],
      [some (some [3]), some (some [2]), some (some [4, 4, 4])],
      [some (some [3]), some none, some (some [4, 4, 4])]]) := by decide +kernel

example : lastDurable4 .mh false [] [] gcHist03 =
    [([170, 1, 0, 0, 0, 1], ex03K1, [3]), ([187, 1, 0, 0, 0, 1], ex03K2, [2])] := by decide

/-! The recovered store keeps working, index GC cycles included: from image 10 (the cut is inside a
    primary record, with the early-created next file) and from image 65 (bucket 170 is new, bucket 187
    still old) a continuation with reads, index GC cycles, a put, a removal, a flush, a reopen by
    rescan and an iteration answers exactly like the old map resp. the mixed map. -/

def gcCont03 : List SOp :=
  [.get ex03K3, .get ex03K1, .igc true none, .put ex03K3 [7], .rm ex03K1, .flush [], .igc false none,
   .get ex03K3, .get ex03K2, .put ex03K2 [5, 5], .reopen [] false, .iter []]

def gcOldMap03 : Spec :=
  [([0xbb, 1, 0, 0, 0, 1], ex03K2, [2]), ([0xaa, 1, 0, 0, 0, 1], ex03K1, [3])]
def gcMixMap03 : Spec :=
  [([0xaa, 1, 0, 0, 0, 1], ex03K1, [3]), ([0xaa, 1, 0, 0, 0, 2], ex03K3, [4, 4, 4]),
   ([0xbb, 1, 0, 0, 0, 1], ex03K2, [2])]

example : (∀ op ∈ gcCont03, op.isC04a = true) ∧ KeysOK exCfg03b.kind (gcHist03 ++ gcCont03) ∧
    (gcHist03.length + gcCont03.length < 805306368 ∧
      2 * (gcHist03.map SOp.bytes).sum + (gcCont03.map SOp.bytes).sum < two31) := by
  refine ⟨by decide, ?_, by decide⟩
  unfold KeysOK; decide

set_option maxRecDepth 100000 in
example : exAfter exCfg03b gcHist03 [] 10 true gcCont03 =
    some (specRun exCfg03b.kind exCfg03b.imm gcOldMap03 gcCont03).2 := by decide +kernel

set_option maxRecDepth 100000 in
example : exAfter exCfg03b gcHist03 [] 65 false gcCont03 =
    some (specRun exCfg03b.kind exCfg03b.imm gcMixMap03 gcCont03).2 := by decide +kernel

/-! The premise `PgcFromClean` is necessary (known finding D11).  `put k [1,1]; flush; put k [3]; pgc`: the
    primary GC cycle starts with the index entry of `[3]` still in the pool, flushes the primary, and
    reaps the record `[1,1]` that the index on disk still names.  `PgcFromClean` fails; the last durable
    value of `k` is `[1,1]` (or `[3]` if the cycle is counted as a durable point), the current one `[3]`;
    the crash images of the next flush (22 events) read `[3]` — or `absent`: the durable value is lost. -/

set_option maxRecDepth 100000 in
example : ¬ PgcFromClean (gcHistS0 d11Cfg) (d11Ops ++ [.pgc 0 none]) ∧
    lastDurable4 .mh false [] [] (d11Ops ++ [.pgc 0 none]) = [([170, 1, 0, 0, 0, 1], ex03K1, [3])] ∧
    lastDurable .mh false [] [] (d11Ops ++ [.pgc 0 none]) = [([170, 1, 0, 0, 0, 1], ex03K1, [1, 1])] ∧
    crashOutcomes d11Cfg (d11Ops ++ [.pgc 0 none]) [] [ex03K1] =
      some (22, [[some none], [some (some [3])]]) := by
  refine ⟨by decide +kernel, by decide, by decide, by decide +kernel⟩

end Sth
