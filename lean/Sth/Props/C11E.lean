/-
C11 P2 at loop level (Q3b): what a complete index GC cycle WITHOUT the free-file scan (`igc false none`,
the loop of Index.gc over the files with reapIndexRecords) reaches.

`LiveResume s` (decidable): the resume point `gcResume` left by an interrupted earlier cycle, if there is
one, names a file from the header's first file on and below the current file.  `StaleResume s`
(decidable): there is a resume point, it lies BELOW the header's first file (the file has been unlinked
since), and there is at least one non-current file.

  * `C11_index_cycle_visits_all`: in every reachable state with a live resume point (in particular with
    none), ONE complete cycle without the scan ends `ok` and has visited every file from the header's
    first file up to the current one — start point … last, then first … start point, each once
    (`Sth/Lemmas/C11E3.lean`) — so every non-current file no bucket points into (`IdxFileFree`) that is
    shorter than 2^31 bytes is released by it (length zero or unlinked): reapIndexRecords finds every
    record not busy, merges everything into one deleted span from offset 0 and truncates there
    (`C11_index_reap_free_file`), and no later visit of the same cycle touches it again.
    So P2 holds for the cycle the collector actually runs, not only for the scan variant.
    (2^31: beyond that the merged span is split, as on the real code, and the file is not emptied.)
  * `C11_index_cycle_stale_resume`: with a stale resume point the cycle fails AT ONCE — the file it is to
    start at does not exist, reapIndexRecords cannot stat it, outcome `err` — the disk is not touched
    and the resume point is cleared; the state after it has no resume point, so the NEXT complete cycle
    is a cycle of the first kind: it ends `ok` and releases every free file.  (Finding 1 of
    Sth/Props/C11.lean is the same failure inside one `igc true` cycle: scan unlinks, loop fails.)

HOW A STALE RESUME POINT ARISES AT THE START OF A CYCLE.  Every cycle that gets past its scan clears the
resume point before the loop, so a resume point can only survive the unlinking of its file when the
unlinking is done by a free-file scan that is ITSELF cut short (the cycle then returns before it reaches
the loop): interrupted loop at file r, files up to r become free, `igc true` with a deadline during the
scan.  `exOps11s` below is such a run (checked by `decide`).

NOT PROVED: that a resume point is always below the current file (`r < ifileNum`, second half of
`LiveResume`).  It holds in every run evaluated (the resume point is a file below the current one when
recorded, the current file number never decreases, a reopen clears the resume point) but it is a further
invariant over all calls and is taken here as part of the decidable premise.
-/
import Sth.Lemmas.C11E4

namespace Sth

open C11 C11E

/-- what reachability provides for the index collector (either primary kind) -/
theorem C11E.reach_idx (c : Cfg) (hc : c.Legal) (ops : List SOp) (hk : KeysOK c.kind ops)
    (hs : SizesOK ops) (s0 : SState) (hi : initS c = some s0) (op : SOp)
    (hb : GcCountersOK s0 (ops ++ [op])) :
    YInv c (runS s0 ops).1 ∧ 1 ≤ (runS s0 ops).1.m.imax ∧ (runS s0 ops).1.m.ifileNum < two32 ∧
    ∀ f, (runS s0 ops).1.m.ifileNum < f → (runS s0 ops).1.d.ifiles.get? f = none := by
  obtain ⟨hb1, hb2, _⟩ := GcCountersOK.append ops [op] s0 hb
  rcases (by cases c.kind <;> simp : c.kind = .mh ∨ c.kind = .cid) with hkind | hkind
  · have hG := reach_ginv c hc hkind ops hk hs s0 hi hb1
    refine ⟨hG.y, hG.i.imax, ?_, hG.i.noFiles⟩
    have h1 := hG.cntI
    unfold two32; omega
  · have hU := univ_of_keysOK hk (keysExact_all c.kind ops)
    obtain ⟨_, hI, hY⟩ := run_cid hc hkind hU ops s0 [] 0 0 (inv_init c hc _ s0 hi)
      (yinv_init c hc s0 hi) (fun op ho k hkey dig hcls => mem_digestsOf ho hkey hcls)
      (by have := hs.1; omega) (by have := hs.2.1; omega)
    refine ⟨hY, hI.i.imax, ?_, hI.i.noFiles⟩
    have h1 := hI.cnt.idx
    have h2 := hs.1
    unfold two32; omega

/-- Q3b, first half.  From a reachable state with a live resume point (or none), one complete index GC
    cycle without the free-file scan ends `ok` and releases every free non-current file. -/
theorem C11_index_cycle_visits_all (c : Cfg) (hc : c.Legal) (ops : List SOp) (hk : KeysOK c.kind ops)
    (hs : SizesOK ops) (s0 : SState) (hi : initS c = some s0)
    (hb : GcCountersOK s0 (ops ++ [.igc false none])) (hlive : LiveResume (runS s0 ops).1) :
    let s := (runS s0 ops).1
    (indexGC s.m s.d false none).1 = .ok ∧
    ∀ f, f < s.m.ifileNum → IdxFileFree s.m f → (fileOf s.d.ifiles f).length < two31 →
      Released (stepS s (.igc false none)).1.d.ifiles f := by
  obtain ⟨hY, hp1, hN, hno⟩ := C11E.reach_idx c hc ops hk hs s0 hi _ hb
  intro s
  have := igc_visits_inv hY hp1 hN hno hlive
  rw [stepS_igc_disk]
  exact this

/-- Q3b, second half.  From a reachable state with a stale resume point the cycle fails at once, leaves
    the disk alone and clears the resume point; the next complete cycle ends `ok` and releases every
    free non-current file. -/
theorem C11_index_cycle_stale_resume (c : Cfg) (hc : c.Legal) (ops : List SOp)
    (hk : KeysOK c.kind ops) (hs : SizesOK ops) (s0 : SState) (hi : initS c = some s0)
    (hb : GcCountersOK s0 (ops ++ [.igc false none])) (hst : StaleResume (runS s0 ops).1) :
    let s := (runS s0 ops).1
    let s' := (stepS s (.igc false none)).1
    (indexGC s.m s.d false none).1 = .err ∧
    s' = ⟨s.cfg, { s.m with gcResume := none }, s.d⟩ ∧
    (indexGC s'.m s'.d false none).1 = .ok ∧
    ∀ f, f < s.m.ifileNum → IdxFileFree s.m f → (fileOf s.d.ifiles f).length < two31 →
      Released (stepS s' (.igc false none)).1.d.ifiles f := by
  obtain ⟨hY, hp1, hN, hno⟩ := C11E.reach_idx c hc ops hk hs s0 hi _ hb
  intro s s'
  have h1 := igc_stale_inv hY hst
  have h1' : indexGC s.m s.d false none = (.err, { s.m with gcResume := none }, s.d, none) := h1
  have e : s' = ⟨s.cfg, { s.m with gcResume := none }, s.d⟩ := by
    show (⟨s.cfg, (indexGC s.m s.d false none).2.1, (indexGC s.m s.d false none).2.2.1⟩ : SState) = _
    rw [h1']
  refine ⟨by rw [h1'], e, ?_⟩
  rw [e]
  have h2 := igc_visits_inv (s := ⟨s.cfg, { s.m with gcResume := none }, s.d⟩) (yinv_gcResume hY none)
    hp1 hN hno (by unfold LiveResume; trivial)
  rw [stepS_igc_disk]
  exact h2

/-! ### non-vacuity

1-byte index files (`exCfg11i`): every flushed bucket record has its own file. -/

/-- what the examples look at: resume point, first file, current file, and for the files below `n`
    whether no bucket points into them and their length -/
def exIdx11e (s : SState) (n : Nat) :=
  (s.m.gcResume, s.d.ihdr.map IdxHeader.first, s.m.ifileNum,
   (List.range n).map fun f => (decide (IdxFileFree s.m f), (s.d.ifiles.get? f).map List.length))

/-- live resume point: after `exOps11x` (Sth/Props/C11.lean) a cycle was interrupted in file 2, files
    0..2 are free, seven files; the complete cycle without the scan starts at 2, wraps around, and
    releases all three (0 and 1 unlinked after the wrap-around, 2 emptied) -/
example : ∃ s, initS exCfg11i = some s ∧ LiveResume (runS s exOps11x).1 ∧
    exIdx11e (runS s exOps11x).1 3 =
      (some 2, some 0, 7, [(true, some 22), (true, some 22), (true, some 22)]) ∧
    exIdx11e (runS s (exOps11x ++ [.igc false none])).1 3 =
      (none, some 2, 7, [(true, none), (true, none), (true, some 0)]) :=
  ⟨_, rfl, by decide, by decide, by decide⟩

example : ∃ s, initS exCfg11i = some s ∧ GcCountersOK s (exOps11x ++ [.igc false none]) ∧
    KeysOK exCfg11i.kind exOps11x ∧ SizesOK exOps11x :=
  ⟨_, rfl, by decide, by unfold KeysOK; decide, by unfold SizesOK; decide⟩

/-- the theorem's instance on that run -/
example : ∃ s, initS exCfg11i = some s ∧
    Released (stepS (runS s exOps11x).1 (.igc false none)).1.d.ifiles 2 :=
  ⟨_, rfl, (C11_index_cycle_visits_all exCfg11i (by decide) exOps11x (by unfold KeysOK; decide)
    (by unfold SizesOK; decide) _ rfl (by decide) (by decide)).2 2 (by decide) (by decide) (by decide)⟩

/-- stale resume point at the start of a cycle: `exOps11r` (a cycle interrupted in file 1, files 1..3
    free), then a cycle WITH the scan whose deadline falls in the scan after it has unlinked file 1 -/
def exOps11s : List SOp := exOps11r ++ [.igc true (some 1)]

example : KeysOK exCfg11i.kind exOps11s ∧ SizesOK exOps11s := by
  refine ⟨?_, ?_⟩
  · unfold KeysOK; decide
  · unfold SizesOK; decide

/-- resume point 1 below first file 2: the cycle fails, nothing changes but the resume point; the next
    cycle releases files 2 and 3 -/
example : ∃ s, initS exCfg11i = some s ∧ GcCountersOK s (exOps11s ++ [.igc false none]) ∧
    StaleResume (runS s exOps11s).1 ∧
    (indexGC (runS s exOps11s).1.m (runS s exOps11s).1.d false none).1 = GcOut.err ∧
    exIdx11e (runS s exOps11s).1 4 =
      (some 1, some 2, 6, [(true, none), (true, none), (true, some 22), (true, some 22)]) ∧
    exIdx11e (runS s (exOps11s ++ [.igc false none])).1 4 =
      (none, some 2, 6, [(true, none), (true, none), (true, some 22), (true, some 22)]) ∧
    exIdx11e (runS s (exOps11s ++ [.igc false none, .igc false none])).1 4 =
      (none, some 4, 6, [(true, none), (true, none), (true, none), (true, none)]) :=
  ⟨_, rfl, by decide, by decide, by decide, by decide, by decide, by decide⟩

end Sth
