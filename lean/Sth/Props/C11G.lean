/-
C11 P1 with premises on the configuration and the calls only (Q3c).

`C11_primary_file_released_unconditional` (Sth/Props/C13H.lean) had two premises on the reached state left:
`file.length < 2^31` and `VisitedStable s f`.  Here both are DERIVED, from two decidable premises on
(c, ops):

  `RecBoundOK c ops`   c.pfs + 4 + maxRec ops ≤ 2^31 — the primary file limit plus the largest record put
                       by the calls (key and value, `maxRec`, with its 4-byte size word) stays within
                       2^31.  Static: it looks at the configuration and the arguments of the puts.
  `PassesOK s0 ops`    no primary GC cycle of the history is cut short INSIDE its hand-over passes
                       (`PassesFine`: neither `freelistPass` of the cycle ends `deadline`).  It is
                       run-dependent in the same way as `GcCountersOK` (decidable by running the calls).
                       A cycle may be cut short anywhere in its loop over the files — which is where the
                       real code starts its time limit.  On the code as it was when these theorems were written
                       the premise could not be dropped (a run on which it fails, `VisitedStable` is false and
                       P1 is false: defect D33, Sth/Props/C11F.lean).  On the repaired code and model it is no
                       longer needed: Sth/Props/C11P.lean proves the same three statements without it.

THE INVARIANT (`BInv R`, R = maxRec ops; Sth/Lemmas/C11B1.lean … C11B9.lean), in every reachable state:
  * every pooled record has a body of at most R bytes (put: the record put; relocation: a byte-for-byte
    copy of a record span),
  * every record span of every primary file has a body of at most R bytes (spans are written from the
    pool by the flush; the collectors only mark, merge deleted spans, and cut),
  * every primary file is shorter than c.pfs + 4 + R (a record is appended only to a file shorter than
    the limit; the collectors never lengthen a file) — `C11_primary_files_short`,
  * every file of the visited set is closed and stable: without a record span it is empty
    (`C11_visited_stable`).  This is where the passes matter: deleteRecords takes record spans away from
    visited files, and only the END of the second pass takes the affected files out of the visited set.
    (It is also where 2^31 matters: reapRecords empties an all-deleted file only if it is shorter than
    2^31, otherwise the merged span is split and the file stays.)
It is threaded through every call: put/remove/get (memory only), flush and iteration (a pure fold over
the pool), index GC (does not touch the primary), reopen (flush, then a fresh visited set), and the
primary GC cycle (passes: `pass_b0`, any outcome; loop: `pgcGo_b`, complete or cut short).

`C11_primary_file_released_closed` is P1 with these premises: reachable multihash state, flushed, `f` an
existing non-current file that no index entry points into: ONE complete cycle releases it, and unlinks
it when it is the first file and the cycle visits it.
-/
import Sth.Lemmas.C11B9
import Sth.Props.C11F

namespace Sth

open C11 C13H C11B

/-- in every reachable state of a history without a cycle cut short inside its passes, every primary
    file is shorter than file limit + 4 + largest record -/
theorem C11_primary_files_short (c : Cfg) (hc : c.Legal) (hmh : c.kind = .mh) (ops : List SOp)
    (hk : KeysOK c.kind ops) (hs : SizesOK ops) (s0 : SState) (hi : initS c = some s0)
    (hb : GcCountersOK s0 ops) (hrec : RecBoundOK c ops) (hp : PassesOK s0 ops) (g : Nat)
    (file : Bytes) (hfile : (runS s0 ops).1.d.pfiles.get? g = some file) :
    file.length < c.pfs + 4 + maxRec ops := by
  have hI := binv_reachable c hc hmh ops hk hs s0 hi hb hrec hp
  have hG := reach_ginv c hc hmh ops hk hs s0 hi hb
  have hpm : (runS s0 ops).1.m.pmax = c.pfs := by
    have := hG.y.pmax
    unfold hdrPfs at this
    rw [hG.kmh] at this
    exact this
  have := hI.fl g
  rw [fileOf_some hfile, hpm] at this
  exact this

/-- … and every file of the visited set is stable -/
theorem C11_visited_stable (c : Cfg) (hc : c.Legal) (hmh : c.kind = .mh) (ops : List SOp)
    (hk : KeysOK c.kind ops) (hs : SizesOK ops) (s0 : SState) (hi : initS c = some s0)
    (hb : GcCountersOK s0 ops) (hrec : RecBoundOK c ops) (hp : PassesOK s0 ops) (f : Nat) :
    VisitedStable (runS s0 ops).1 f := by
  have hI := binv_reachable c hc hmh ops hk hs s0 hi hb hrec hp
  intro hv file hfile hl
  have := (hI.vs f hv).2
  unfold C11D.lv at this
  rw [fileOf_some hfile] at this
  exact this hl

/-- Q3c.  C11 P1 with premises on the configuration and the calls only. -/
theorem C11_primary_file_released_closed (c : Cfg) (hc : c.Legal) (hmh : c.kind = .mh)
    (ops : List SOp) (hk : KeysOK c.kind ops) (hs : SizesOK ops) (s0 : SState)
    (hi : initS c = some s0) (lowUse : Nat) (hb : GcCountersOK s0 (ops ++ [.pgc lowUse none]))
    (hrec : RecBoundOK c ops) (hp : PassesOK s0 ops)
    (f : Nat) (hfile : (runS s0 ops).1.d.pfiles.get? f ≠ none)
    (hf : f < (runS s0 ops).1.m.pfileNum) (hflushed : (runS s0 ops).1.m.pnext = [])
    (hno : NoEntryIn (runS s0 ops).1 f) :
    let s := (runS s0 ops).1
    let s' := (stepS s (.pgc lowUse none)).1
    Released s'.d.pfiles f ∧
    (s.d.phdr.map PriHeader.first = some f → WillVisit s f → s'.d.pfiles.get? f = none) := by
  obtain ⟨hb1, _⟩ := GcCountersOK.append ops [.pgc lowUse none] s0 hb
  cases hfile' : (runS s0 ops).1.d.pfiles.get? f with
  | none => exact absurd hfile' hfile
  | some file =>
    have hlen := C11_primary_files_short c hc hmh ops hk hs s0 hi hb1 hrec hp f file hfile'
    have hvis := C11_visited_stable c hc hmh ops hk hs s0 hi hb1 hrec hp f
    have hrec' : c.pfs + 4 + maxRec ops ≤ two31 := hrec
    exact C11_primary_file_released_unconditional c hc hmh ops hk hs s0 hi lowUse hb f file hfile' hf
      (by omega) hflushed hno hvis

/-! ### non-vacuity, and the finding's run against the premise -/

/-- the premises hold on `exOps11v` (Sth/Props/C11F.lean: puts, removes, flushes, a complete cycle) … -/
example : ∃ s, initS exCfg11v = some s ∧ GcCountersOK s (exOps11v ++ [.pgc 101 none]) ∧
    RecBoundOK exCfg11v exOps11v ∧ PassesOK s exOps11v ∧ maxRec exOps11v = 28 :=
  ⟨_, rfl, by decide +kernel, by decide, by decide +kernel, by decide⟩

/-- … and the theorem's instance: file 0 (its last record just removed) is unlinked by one cycle -/
example : ∃ s, initS exCfg11v = some s ∧
    Released (stepS (runS s exOps11v).1 (.pgc 101 none)).1.d.pfiles 0 :=
  ⟨_, rfl, (C11_primary_file_released_closed exCfg11v (by decide) rfl exOps11v
    (by unfold KeysOK; decide) (by unfold SizesOK; decide) _ rfl 101 (by decide +kernel) (by decide)
    (by decide +kernel) 0 (by decide +kernel) (by decide +kernel) (by decide +kernel)
    (by decide +kernel)).1⟩

/-- a cycle cut short in its LOOP is within the premise (`some 2`: both polls of the pass succeed, the
    poll after the first file expires); the cycle of the finding, cut short inside the pass, is not -/
example : ∃ s, initS exCfg11v = some s ∧
    PassesOK s (exOps11v ++ [.pgc 101 (some 2)]) ∧
    ((primaryGC (runS s exOps11v).1.m (runS s exOps11v).1.d 101 (some 2)).map fun r => r.1.out) =
      some GcOut.deadline ∧
    ¬ PassesOK s (exOps11v ++ [.pgc 101 (some 1)]) :=
  ⟨_, rfl, by decide +kernel, by decide +kernel, by decide +kernel⟩

end Sth
