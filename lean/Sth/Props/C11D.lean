/-
C11 P3, the drain bound by induction (Q3a).

THE STATEMENT.  `C11_low_use_drained_bound`: in a reachable, flushed multihash state let `f` be a closed
(non-current) primary file shorter than 2^31 bytes with `n = (inUse s f).length` record spans in use (an
index entry names the span's block).  Let the collector's loop run R = ⌈n/2⌉ = (n+1)/2 rounds
`[.pgc l none, .flush ord_i]` (`drainSched l ords`, a complete cycle with threshold `l` followed by the
flush the real loop performs; `ord_i` is the order in which that flush writes the buckets — any) and
then ONE more complete cycle `.pgc l none`.  If
  (V) the first cycle visits the file (`WillVisitD`: `f` is not in the visited set — e.g. after a
      restart, which clears the set — or one of its record spans is not in use any more, so that the
      cycle's hand-over passes apply a freelist entry to it and the file counts as affected), and
  (L) at the visit of EACH of the R rounds the file is low-use by the collector's own measure
      (`LowAlong`, see below),
then after these ⌈n/2⌉ + 1 cycles the file is released (unlinked or empty).  Per round
(`C11_low_use_round`): the number of record spans in use drops by exactly min 2 (in use), the file does
not grow, (V) holds again for the next cycle (the spans relocated in this round are recorded on the
freelist, so the next cycle's passes mark them and the file is affected), and all invariants are kept.
The last cycle needs neither (L) nor anything else: no span is in use, (V) holds, and P1 applies
(`pgc_releases_core`, coverage from C13's `CovS`).

WHAT IS ASSUMED ABOUT THE MEASURE, PRECISELY.  `LowAt s f l` is
    LowUse (bytes of file f in `afterPasses s.m s.d`) l,
i.e.  100 * totalFree ≥ l * (totalFree + totalBusy)  where totalFree / totalBusy are the sums reapRecords'
scan (`scanOf` = reapPriLoop over the whole file) accumulates: body bytes of deleted spans / of record
spans, size words not counted,
  * on the file AS THE VISIT FINDS IT, that is after the cycle's two hand-over passes have marked every
    recorded span deleted (`afterPasses`; in particular the spans relocated by the previous round and the
    records removed since count as free, which they do not on the bytes at rest: in the examples below
    `LowUse` of the resting bytes is false at the start while `LowAt` is true), and
  * BEFORE that visit merges adjacent deleted spans and cuts the trailing deleted span: the trailing free
    bytes the visit is about to cut count as free in the visit's own measure and are gone at the next.
`LowAlong l f s ords` is `LowAt` at the state before each round.  Nothing else is assumed about the
measure; it is decidable on (s, ords).  It is needed for each of the ⌈n/2⌉ rounds (each still has a span
in use), not for the last cycle.

THE REST STATE (reachable in the model = what was seen on the real code).  (L) can fail after a round
although it held at that round's visit, and then the file comes to rest: `exOps11q` (150-byte files,
threshold 60): file 0 = [D free 20][A in use 28][B in use 9][C in use 9][E free 100] (body bytes).
Visit 1 measures 120/166 = 72 % free ≥ 60 %: B and C are relocated, E is cut (186 → 82 bytes).  Visit 2
measures (20+9+9)/66 = 57.6 % < 60 %: nothing is relocated, the dead B, C are cut (→ 56 bytes), and the
file rests at 20/48 = 41.7 % free with one record in use: it is in the visited set with every span in use
(`WillVisitD` false), further rounds change nothing; a restart clears the visited set, the next cycle
visits it, measures 41.7 % again and leaves it.  All checked by `decide` below.  The premise (L) is
exactly what excludes it: `LowAlong 60 0 _ [[], []]` is false on that run (second conjunct).

NON-VACUITY: `exOps11l` of Sth/Props/C11.lean (three records in use, threshold 60): all premises hold with
R = 2, so the theorem gives the release after 3 cycles that `decide` had shown there.
-/
import Sth.Lemmas.C11D5

namespace Sth

open C11 C13H C13X C11D

theorem C11D.runS_append1 : ∀ (l1 l2 : List SOp) (s : SState),
    (runS s (l1 ++ l2)).1 = (runS (runS s l1).1 l2).1
  | [], _, _ => rfl
  | op :: l1, l2, s => by
    show (runS s (op :: (l1 ++ l2))).1 = (runS (runS s (op :: l1)).1 l2).1
    rw [runS_cons1, runS_cons1]; exact C11D.runS_append1 l1 l2 _

/-- what reachability provides for the rounds -/
theorem C11D.rinv_reachable (c : Cfg) (hc : c.Legal) (hmh : c.kind = .mh) (ops : List SOp)
    (hk : KeysOK c.kind ops) (hs : SizesOK ops) (s0 : SState) (hi : initS c = some s0)
    (hb : GcCountersOK s0 ops) : RInv c (digestsOf c.kind ops) (runS s0 ops).1 :=
  ⟨⟨_, _, reach_ginv c hc hmh ops hk hs s0 hi hb, by have := hs.2.1; omega⟩,
    covS_reachable c hc hmh ops hk hs s0 hi hb, (xinv_reachable c hc hmh ops hk hs s0 hi hb).nodup⟩

/-- Q3a.  C11 P3 with the bound: ⌈n/2⌉ rounds of the collector's loop and one more complete cycle
    release a low-use closed file with n record spans in use (see the header for (V) and (L)). -/
theorem C11_low_use_drained_bound (c : Cfg) (hc : c.Legal) (hmh : c.kind = .mh) (ops : List SOp)
    (hk : KeysOK c.kind ops) (hs : SizesOK ops) (s0 : SState) (hi : initS c = some s0) (l : Nat)
    (ords : List (List Nat))
    (hb : GcCountersOK s0 (ops ++ (drainSched l ords ++ [.pgc l none])))
    (f : Nat) (hfile : (runS s0 ops).1.d.pfiles.get? f ≠ none)
    (hf : f < (runS s0 ops).1.m.pfileNum)
    (hlen : (fileOf (runS s0 ops).1.d.pfiles f).length < two31)
    (hflushed : (runS s0 ops).1.m.pnext = []) (hv : WillVisitD (runS s0 ops).1 f)
    (hn : ords.length = ((inUse (runS s0 ops).1 f).length + 1) / 2)
    (hlow : LowAlong l f (runS s0 ops).1 ords) :
    Released (runS s0 (ops ++ (drainSched l ords ++ [.pgc l none]))).1.d.pfiles f := by
  obtain ⟨hb1, hb2⟩ := GcCountersOK.append ops _ s0 hb
  have hU := univ_of_keysOK hk (keysExact_all c.kind ops)
  rw [C11D.runS_append1]
  cases hfile' : (runS s0 ops).1.d.pfiles.get? f with
  | none => exact absurd hfile' hfile
  | some file =>
    rw [fileOf_some hfile'] at hlen
    exact drain_rounds hc hU l f ords _ (C11D.rinv_reachable c hc hmh ops hk hs s0 hi hb1) hb2 hflushed
      hf ⟨file, hfile', hlen⟩ hv hn hlow

/-- one round of the loop on a low-use closed file with record spans in use: min 2 (in use) fewer spans
    are in use afterwards, the next cycle visits the file again, the store is flushed, the file still
    exists and is not longer than before -/
theorem C11_low_use_round (c : Cfg) (hc : c.Legal) (hmh : c.kind = .mh) (ops : List SOp)
    (hk : KeysOK c.kind ops) (hs : SizesOK ops) (s0 : SState) (hi : initS c = some s0) (l : Nat)
    (ord : List Nat) (hb : GcCountersOK s0 (ops ++ [.pgc l none, .flush ord]))
    (f : Nat) (hf : f < (runS s0 ops).1.m.pfileNum) (hflushed : (runS s0 ops).1.m.pnext = [])
    (hv : WillVisitD (runS s0 ops).1 f) (hu : inUse (runS s0 ops).1 f ≠ [])
    (hlow : LowAt (runS s0 ops).1 f l) :
    let s := (runS s0 ops).1
    let s' := (runS s0 (ops ++ [.pgc l none, .flush ord])).1
    s'.m.pnext = [] ∧ f < s'.m.pfileNum ∧ WillVisitD s' f ∧
    (inUse s' f).length = (inUse s f).length - min 2 (inUse s f).length ∧
    lv s'.d f ≠ [] ∧ (fileOf s'.d.pfiles f).length ≤ (fileOf s.d.pfiles f).length := by
  obtain ⟨hb1, hb2, hb3, _⟩ := GcCountersOK.append ops _ s0 hb
  have hU := univ_of_keysOK hk (keysExact_all c.kind ops)
  intro s s'
  have e : s' = (stepS (stepS s (.pgc l none)).1 (.flush ord)).1 := by
    show (runS s0 (ops ++ [.pgc l none, .flush ord])).1 = _
    rw [C11D.runS_append1]; rfl
  rw [e]
  exact (round_step hc hU (C11D.rinv_reachable c hc hmh ops hk hs s0 hi hb1) hb2 l hb3 hflushed hf hv hu
    ord hlow).2

/-! ### non-vacuity: the full drain of `exOps11l` (Sth/Props/C11.lean) is an instance -/

/-- what the examples look at: sizes of the primary files, record spans of file 0 in use, (V), (L),
    low-use on the bytes at rest, visited set -/
def exInfo11q (s : SState) (l : Nat) :=
  (s.d.pfiles.map (fun p => (p.1, p.2.length)), (inUse s 0).length, decide (WillVisitD s 0),
   decide (LowAt s 0 l), decide (LowUse (fileOf s.d.pfiles 0) l), s.m.visited)

example : ∃ s, initS exCfg11l = some s ∧
    exInfo11q (runS s exOps11l).1 60 = ([(0, 103), (1, 13)], 3, true, true, false, []) ∧
    exInfo11q (runS s (exOps11l ++ drainSched 60 [[]])).1 60 =
      ([(0, 103), (1, 39)], 1, true, true, true, [0]) :=
  ⟨_, rfl, by decide +kernel, by decide +kernel⟩

example : ∃ s, initS exCfg11l = some s ∧
    exInfo11q (runS s (exOps11l ++ drainSched 60 [[], []])).1 60 =
      ([(0, 45), (1, 52)], 0, true, true, true, [0]) := ⟨_, rfl, by decide +kernel⟩

/-- the theorem's instance: three spans in use, two rounds and one cycle -/
example : ∃ s, initS exCfg11l = some s ∧
    Released (runS s (exOps11l ++ (drainSched 60 [[], []] ++ [.pgc 60 none]))).1.d.pfiles 0 :=
  ⟨_, rfl, C11_low_use_drained_bound exCfg11l (by decide) rfl exOps11l (by unfold KeysOK; decide)
    (by unfold SizesOK; decide) _ rfl 60 [[], []] (by decide +kernel) 0 (by decide +kernel)
    (by decide +kernel) (by decide +kernel) (by decide +kernel) (by decide +kernel)
    (by decide +kernel) (by decide +kernel)⟩

/-! ### the rest state -/

def exCfg11q : Cfg := { kind := .mh, bits := 8, ifs := 64, pfs := 150, imm := false }
def exOps11q : List SOp :=
  [.put (exK11 8 1) [6, 6, 6, 6, 6, 6, 6, 6, 6, 6, 6, 6], .put (exK11 1 1) [1, 1, 1, 1, 1, 1, 1, 1, 1, 1, 1, 1, 1, 1, 1, 1, 1, 1, 1, 1], .put (exK11 2 1) [8], .put (exK11 3 1) [9],
   .put (exK11 9 1) [7, 7, 7, 7, 7, 7, 7, 7, 7, 7, 7, 7, 7, 7, 7, 7, 7, 7, 7, 7, 7, 7, 7, 7, 7, 7, 7, 7, 7, 7, 7, 7, 7, 7, 7, 7, 7, 7, 7, 7, 7, 7, 7, 7, 7, 7, 7, 7, 7, 7, 7, 7, 7, 7, 7, 7, 7, 7, 7, 7, 7, 7, 7, 7, 7, 7, 7, 7, 7, 7, 7, 7, 7, 7, 7, 7, 7, 7, 7, 7, 7, 7, 7, 7, 7, 7, 7, 7, 7, 7, 7, 7],
   .flush [], .put (exK11 4 1) [1], .flush [], .rm (exK11 8 1), .rm (exK11 9 1), .flush []]

example : exCfg11q.Legal := by decide
example : KeysOK exCfg11q.kind exOps11q ∧ SizesOK exOps11q := by
  refine ⟨?_, ?_⟩
  · unfold KeysOK; decide
  · unfold SizesOK; decide

/-- (free, busy) as the visit of the next complete cycle measures file 0 -/
def exShare11q (s : SState) : Nat × Nat :=
  ((scanOf (fileOf (afterPasses s.m s.d).pfiles 0)).totalFree,
   (scanOf (fileOf (afterPasses s.m s.d).pfiles 0)).totalBusy)

/-- round 1: low-use at the visit (120 free / 46 in use), two of three records relocated -/
example : ∃ s, initS exCfg11q = some s ∧
    exInfo11q (runS s exOps11q).1 60 = ([(0, 186), (1, 13)], 3, true, true, false, []) ∧
    exShare11q (runS s exOps11q).1 = (120, 46) ∧
    exInfo11q (runS s (exOps11q ++ drainSched 60 [[]])).1 60 =
      ([(0, 82), (1, 39)], 1, true, false, false, [0]) ∧
    exShare11q (runS s (exOps11q ++ drainSched 60 [[]])).1 = (38, 28) :=
  ⟨_, rfl, by decide +kernel, by decide +kernel, by decide +kernel, by decide +kernel⟩

/-- round 2 finds the file NOT low-use (38 free / 28 in use), cuts it and leaves it; round 3 changes
    nothing: the file rests with one record in use at 20 free / 28 in use, visited, every span in use -/
example : ∃ s, initS exCfg11q = some s ∧
    exInfo11q (runS s (exOps11q ++ drainSched 60 [[], []])).1 60 =
      ([(0, 56), (1, 39)], 1, false, false, false, [0]) ∧
    exShare11q (runS s (exOps11q ++ drainSched 60 [[], []])).1 = (20, 28) ∧
    exInfo11q (runS s (exOps11q ++ drainSched 60 [[], [], []])).1 60 =
      ([(0, 56), (1, 39)], 1, false, false, false, [0]) :=
  ⟨_, rfl, by decide +kernel, by decide +kernel, by decide +kernel⟩

/-- a restart clears the visited set; the next round visits the file, measures the same share and
    leaves it again -/
example : ∃ s, initS exCfg11q = some s ∧
    exInfo11q (runS s (exOps11q ++ drainSched 60 [[], []] ++ [.reopen [] false])).1 60 =
      ([(0, 56), (1, 39)], 1, true, false, false, []) ∧
    exInfo11q (runS s (exOps11q ++ drainSched 60 [[], []] ++ [.reopen [] false] ++
      drainSched 60 [[]])).1 60 = ([(0, 56), (1, 39)], 1, false, false, false, [0]) :=
  ⟨_, rfl, by decide +kernel, by decide +kernel⟩

/-- premise (L) of the theorem is what fails on this run: it holds at the first visit, not at the
    second; every other premise holds -/
example : ∃ s, initS exCfg11q = some s ∧
    GcCountersOK s (exOps11q ++ (drainSched 60 [[], []] ++ [.pgc 60 none])) ∧
    WillVisitD (runS s exOps11q).1 0 ∧ (runS s exOps11q).1.m.pnext = [] ∧
    LowAlong 60 0 (runS s exOps11q).1 [[]] ∧ ¬ LowAlong 60 0 (runS s exOps11q).1 [[], []] ∧
    ¬ Released (runS s (exOps11q ++ (drainSched 60 [[], []] ++ [.pgc 60 none]))).1.d.pfiles 0 :=
  ⟨_, rfl, by decide +kernel, by decide +kernel, by decide +kernel, by decide +kernel,
    by decide +kernel, by decide +kernel⟩

end Sth
