/-
C08 — Prefix-compressed record lists always resolve each key to its own entry.

ONLY property theorems live here (helper lemmas: Sth/Lemmas/*).  The statements are about the
index-level machine of Sth/Model/IndexLevel.lean, which mirrors `index.Index.Put/Update/Remove/Get`
for one bucket over the in-memory primary, and are proved for EVERY operation sequence over EVERY
key universe in which no key is a proper prefix of another (equal-length distinct keys are the
special case the property names) — no bound on alphabet, key length or history length.
-/
import Sth.Lemmas.C08

namespace Sth

/-- C08, invariant clause: after every disciplined operation sequence the stored key prefixes are
    sorted, pairwise prefix-free, each a non-empty prefix of its own full key (read back through the
    primary), and entries name distinct locations. -/
theorem C08_inv (U : List Key) (hU : Universe U) (ops : List IxOp)
    (hk : ∀ op ∈ ops, op.key ∈ U) (hd : Disciplined IxSpec.empty 0 ops) :
    RLInv (IxState.run {} ops) :=
  (reach_inv U hU ops hk hd).1

/-- C08, lookup clause: a present key resolves to exactly the location most recently associated
    with it (by the Put that inserted it or the latest Update). -/
theorem C08_lookup (U : List Key) (hU : Universe U) (ops : List IxOp)
    (hk : ∀ op ∈ ops, op.key ∈ U) (hd : Disciplined IxSpec.empty 0 ops)
    (k : Key) (b : Block) (hp : IxSpec.run IxSpec.empty 0 ops k = some b) :
    (IxState.run {} ops).get k = some b :=
  lookup_present U hU ops hk hd k b hp

/-- C08, absent clause: for an absent key of the universe the index returns nothing, or the
    location of some OTHER present key (which the store then rejects by full-key comparison). -/
theorem C08_absent (U : List Key) (hU : Universe U) (ops : List IxOp)
    (hk : ∀ op ∈ ops, op.key ∈ U) (hd : Disciplined IxSpec.empty 0 ops)
    (k : Key) (hkU : k ∈ U) (ha : IxSpec.run IxSpec.empty 0 ops k = none) :
    (IxState.run {} ops).get k = none ∨
      ∃ k', k' ≠ k ∧ IxSpec.run IxSpec.empty 0 ops k' = (IxState.run {} ops).get k ∧
        ((IxState.run {} ops).get k).isSome :=
  lookup_absent U hU ops hk hd k hkU ha

/-- C08, frame clause for Update: re-pointing a present key rewrites exactly that key's entry
    (same stored prefix, new location); every other entry is untouched, position by position. -/
theorem C08_frame_update (U : List Key) (hU : Universe U) (ops : List IxOp)
    (hk : ∀ op ∈ ops, op.key ∈ U) (hd : Disciplined IxSpec.empty 0 ops)
    (k : Key) (hkU : k ∈ U) (hp : (IxSpec.run IxSpec.empty 0 ops k).isSome) :
    let s := IxState.run {} ops
    ∃ i e, s.entries[i]? = some e ∧ owner s e = some k ∧
      (s.step (.upd k)).entries = s.entries.set i ⟨e.pfx, s.nextLoc⟩ :=
  frame_update U hU ops hk hd k hkU hp

/-- C08, frame clause for Remove: removing a present key erases exactly that key's entry. -/
theorem C08_frame_remove (U : List Key) (hU : Universe U) (ops : List IxOp)
    (hk : ∀ op ∈ ops, op.key ∈ U) (hd : Disciplined IxSpec.empty 0 ops)
    (k : Key) (hkU : k ∈ U) (hp : (IxSpec.run IxSpec.empty 0 ops k).isSome) :
    let s := IxState.run {} ops
    ∃ i e, s.entries[i]? = some e ∧ owner s e = some k ∧
      (s.step (.rm k)).entries = s.entries.eraseIdx i :=
  frame_remove U hU ops hk hd k hkU hp

/-- C08, codec clause: the byte encoding of a well-formed record list decodes to itself
    (stored prefix < 256 bytes — the one-byte length field — and field widths respected). -/
theorem C08_codec (rl : RecordList) (h : RLWF rl) : decodeRL (encodeRL rl) = (rl, true) :=
  decode_encode rl h

/-- The one-byte length field is a real limit: a 256-byte stored prefix does not survive the codec
    (negative witness for D16; kernel evaluation). -/
theorem C08_codec_limit_witness :
    decodeRL (encodeRL [⟨List.replicate 256 7, ⟨0, 1⟩⟩]) ≠ ([⟨List.replicate 256 7, ⟨0, 1⟩⟩], true) := by
  decide +kernel

/-! Non-vacuity: a concrete universe and a disciplined sequence that exercises the
    "previous is a prefix" branch, an insertion between neighbours, an update and a removal. -/

def exU : List Key := [[1,2,3,4], [1,2,3,5], [1,2,9,9], [1,0,0,0], [2,2,2,2]]
def exOps : List IxOp :=
  [.put [1,2,3,4], .put [1,2,3,5], .put [2,2,2,2], .put [1,0,0,0], .put [1,2,9,9],
   .upd [1,2,3,4], .rm [1,2,3,5], .put [1,2,3,5]]

example : Universe exU := by
  constructor
  · decide
  · decide

example : (∀ op ∈ exOps, op.key ∈ exU) ∧ Disciplined IxSpec.empty 0 exOps := by
  constructor
  · decide
  · simp [exOps, Disciplined, IxSpec.step, IxSpec.empty, IxOp.grows]

example : (IxState.run {} exOps).entries.length = 5 := by decide

end Sth
