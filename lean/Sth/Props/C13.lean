/-
C13 — The freelist records exactly the primary locations that stopped being current (sequential core).

"Each primary location that stops being current because its key was overwritten or removed is recorded on
the freelist exactly once; nothing is recorded for a Put of a new key, a rejected Put (immutable mode /
identical value / malformed key), or a Remove of an absent key; no location that is still current is ever
recorded."

Property theorems only (definitions and helper lemmas: Sth/Lemmas/C13.lean).  The theorems are about the
physical model of Sth/Model/Store.lean driven through Sth/Model/Machine.lean and hold, like C01, for
EVERY legal configuration, EVERY finite sequence of C01 calls (Put/Get/Has/GetSize/Remove/Flush/iteration)
with flushes at arbitrary positions and EVERY key set satisfying the premises `KeysOK` / `SizesOK`.

  `recorded s`     = entries of the freelist file (parsed with the model's `parseFreeList`) followed by the
                     freelist's memory pool: everything recorded so far, in order of recording.
  `currentOf s d`  = the block `Index.Get` names for digest `d`; for a key of the specification map it is the
                     block of the key's current record (`C13_current_is_current`).
  `delta c spec s op` = `[currentOf s dig]` when `op` overwrites (mutable store, different value) or removes
                     a key present in `spec`, `[]` in every other case.
  `superseded`     = the concatenation of the `delta`s along a run.

STATUS.  All four statements are proved in full, with no hypothesis beyond the premises of C01.
-/
import Sth.Lemmas.C13

namespace Sth

/-! ### (1) one call appends exactly `delta` -/

/-- C13 (1): after any legal run `ops`, one more call `op` appends to the freelist exactly `delta`:
    the old current block for an overwrite / a removal of a present key, nothing otherwise. -/
theorem C13_step (c : Cfg) (hc : c.Legal) (ops : List SOp) (op : SOp)
    (ha : ∀ o ∈ ops ++ [op], o.isC01 = true) (hk : KeysOK c.kind (ops ++ [op]))
    (hs : SizesOK (ops ++ [op])) (s0 : SState) (hi : initS c = some s0) :
    recorded (stepS (runS s0 ops).1 op).1 =
      recorded (runS s0 ops).1 ++ delta c (specRun c.kind c.imm [] ops).1 (runS s0 ops).1 op := by
  obtain ⟨hI, hF, _⟩ := c13_reach c hc (ops ++ [op]) hk hs ops (fun o ho => by simp [ho]) (by simp)
    (by simp) (fun o ho => ha o (by simp [ho])) s0 hi
  have hU := univ_of_keysOK hk (keysExact_all c.kind (ops ++ [op]))
  have h1 := hs.1
  have h2 := hs.2.1
  simp only [List.length_append, List.length_cons, List.length_nil, List.map_append, List.map_cons,
    List.map_nil, List.sum_append, List.sum_cons, List.sum_nil] at h1 h2
  exact (fstep hU hI hF op (ha op (by simp))
    (fun k hkey dig hcls => mem_digestsOf (by simp) hkey hcls) (by omega) (by omega)).2

/-- the index names, for every key of the specification map, the block holding the key's current
    record, and that block is an entry of the key's bucket: `currentOf` is "the current location" -/
theorem C13_current_is_current (c : Cfg) (hc : c.Legal) (ops : List SOp)
    (ha : ∀ o ∈ ops, o.isC01 = true) (hk : KeysOK c.kind ops) (hs : SizesOK ops)
    (s0 : SState) (hi : initS c = some s0) (dig key val : Bytes)
    (hp : (specRun c.kind c.imm [] ops).1.get dig = some (key, val)) :
    ∃ blk, currentOf (runS s0 ops).1 dig = some blk ∧
      priGet (runS s0 ops).1.m (runS s0 ops).1.d blk = .got key val ∧
      ∃ b rl, bucketOfKey (runS s0 ops).1.m.bits dig = some b ∧
        idxRecords (runS s0 ops).1.m (runS s0 ops).1.d b = .ok (some rl) ∧ ∃ e ∈ rl, e.blk = blk := by
  obtain ⟨hI, _, _⟩ := c13_reach c hc ops hk hs ops (fun _ h => h) (Nat.le_refl _) (Nat.le_refl _) ha s0 hi
  exact currentOf_present (univ_of_keysOK hk (keysExact_all c.kind ops)) hI hp

section cases
variable (c : Cfg) (hc : c.Legal) (ops : List SOp) (op : SOp)
  (ha : ∀ o ∈ ops ++ [op], o.isC01 = true) (hk : KeysOK c.kind (ops ++ [op]))
  (hs : SizesOK (ops ++ [op])) (s0 : SState) (hi : initS c = some s0)
include hc ha hk hs hi

/-- the specification-map premise of `C13_current_is_current` for the prefix `ops` of `ops ++ [op]` -/
theorem C13_current_prefix (dig key val : Bytes)
    (hp : (specRun c.kind c.imm [] ops).1.get dig = some (key, val)) :
    ∃ blk, currentOf (runS s0 ops).1 dig = some blk ∧
      priGet (runS s0 ops).1.m (runS s0 ops).1.d blk = .got key val := by
  obtain ⟨hI, _, _⟩ := c13_reach c hc (ops ++ [op]) hk hs ops (fun o ho => by simp [ho]) (by simp)
    (by simp) (fun o ho => ha o (by simp [ho])) s0 hi
  obtain ⟨blk, h1, h2, _⟩ :=
    currentOf_present (univ_of_keysOK hk (keysExact_all c.kind (ops ++ [op]))) hI hp
  exact ⟨blk, h1, h2⟩

/-- overwrite: a Put of a present key with a different value in a mutable store records exactly the
    block that was current for the key (the one holding the old value) -/
theorem C13_step_overwrite (k v dig k0 old : Bytes) (hop : op = .put k v)
    (hcls : keyClass c.kind k = .ok dig)
    (hp : (specRun c.kind c.imm [] ops).1.get dig = some (k0, old))
    (himm : c.imm = false) (hne : old ≠ v) :
    ∃ blk, currentOf (runS s0 ops).1 dig = some blk ∧
      priGet (runS s0 ops).1.m (runS s0 ops).1.d blk = .got k0 old ∧
      recorded (stepS (runS s0 ops).1 op).1 = recorded (runS s0 ops).1 ++ [blk] := by
  obtain ⟨blk, h1, h2⟩ := C13_current_prefix c hc ops op ha hk hs s0 hi dig k0 old hp
  refine ⟨blk, h1, h2, ?_⟩
  rw [C13_step c hc ops op ha hk hs s0 hi, hop]
  simp only [delta, hcls, hp]
  simp only [himm, hne, h1, Bool.false_eq_true, if_false, Option.toList_some]

/-- removal: a Remove of a present key records exactly the block that was current for the key -/
theorem C13_step_remove (k dig k0 old : Bytes) (hop : op = .rm k)
    (hcls : keyClass c.kind k = .ok dig)
    (hp : (specRun c.kind c.imm [] ops).1.get dig = some (k0, old)) :
    ∃ blk, currentOf (runS s0 ops).1 dig = some blk ∧
      priGet (runS s0 ops).1.m (runS s0 ops).1.d blk = .got k0 old ∧
      recorded (stepS (runS s0 ops).1 op).1 = recorded (runS s0 ops).1 ++ [blk] := by
  obtain ⟨blk, h1, h2⟩ := C13_current_prefix c hc ops op ha hk hs s0 hi dig k0 old hp
  refine ⟨blk, h1, h2, ?_⟩
  rw [C13_step c hc ops op ha hk hs s0 hi, hop]
  simp only [delta, hcls, hp, h1, Option.toList_some]

/-- a Put of a key that is not in the map records nothing -/
theorem C13_step_new_key (k v dig : Bytes) (hop : op = .put k v)
    (hcls : keyClass c.kind k = .ok dig) (hp : (specRun c.kind c.imm [] ops).1.get dig = none) :
    recorded (stepS (runS s0 ops).1 op).1 = recorded (runS s0 ops).1 := by
  rw [C13_step c hc ops op ha hk hs s0 hi, hop]
  simp only [delta, hcls, hp, List.append_nil]

/-- a Put in immutable mode records nothing (whether the key exists or not) -/
theorem C13_step_immutable (k v : Bytes) (hop : op = .put k v) (himm : c.imm = true) :
    recorded (stepS (runS s0 ops).1 op).1 = recorded (runS s0 ops).1 := by
  rw [C13_step c hc ops op ha hk hs s0 hi, hop]
  cases hcls : keyClass c.kind k with
  | error e => simp only [delta, hcls, List.append_nil]
  | ok dig =>
    cases hp : (specRun c.kind c.imm [] ops).1.get dig with
    | none => simp only [delta, hcls, hp, List.append_nil]
    | some kv =>
      simp only [delta, hcls, hp]
      simp only [himm, if_true, List.append_nil]

/-- a Put of the value the key already has records nothing -/
theorem C13_step_same_value (k v dig k0 : Bytes) (hop : op = .put k v)
    (hcls : keyClass c.kind k = .ok dig)
    (hp : (specRun c.kind c.imm [] ops).1.get dig = some (k0, v)) :
    recorded (stepS (runS s0 ops).1 op).1 = recorded (runS s0 ops).1 := by
  rw [C13_step c hc ops op ha hk hs s0 hi, hop]
  simp only [delta, hcls, hp, if_true, ite_self, List.append_nil]

/-- a Put or Remove of a malformed (or too short) key records nothing -/
theorem C13_step_malformed (k v : Bytes) (e : Err) (hop : op = .put k v ∨ op = .rm k)
    (hcls : keyClass c.kind k = .error e) :
    recorded (stepS (runS s0 ops).1 op).1 = recorded (runS s0 ops).1 := by
  rw [C13_step c hc ops op ha hk hs s0 hi]
  rcases hop with hop | hop <;> rw [hop] <;> simp only [delta, hcls, List.append_nil]

/-- a Remove of a key that is not in the map records nothing -/
theorem C13_step_remove_absent (k dig : Bytes) (hop : op = .rm k)
    (hcls : keyClass c.kind k = .ok dig) (hp : (specRun c.kind c.imm [] ops).1.get dig = none) :
    recorded (stepS (runS s0 ops).1 op).1 = recorded (runS s0 ops).1 := by
  rw [C13_step c hc ops op ha hk hs s0 hi, hop]
  simp only [delta, hcls, hp, List.append_nil]

/-- Get / Has / GetSize / Flush / iteration record nothing; in particular a flush only moves entries from
    the pool to the file: `recorded` is unchanged as a list -/
theorem C13_step_other (hop : ∀ k v, op ≠ .put k v ∧ op ≠ .rm k) :
    recorded (stepS (runS s0 ops).1 op).1 = recorded (runS s0 ops).1 := by
  rw [C13_step c hc ops op ha hk hs s0 hi]
  cases op with
  | put k v => exact absurd rfl (hop k v).1
  | rm k => exact absurd rfl (hop k []).2
  | _ => simp only [delta, List.append_nil]

end cases

/-! ### (2) no current location is ever recorded -/

/-- C13 (2): in every reachable state no recorded block is named by any index entry. -/
theorem C13_recorded_not_current (c : Cfg) (hc : c.Legal) (ops : List SOp)
    (ha : ∀ o ∈ ops, o.isC01 = true) (hk : KeysOK c.kind ops) (hs : SizesOK ops)
    (s0 : SState) (hi : initS c = some s0) (b : Nat) (rl : RecordList)
    (hr : idxRecords (runS s0 ops).1.m (runS s0 ops).1.d b = .ok (some rl)) :
    ∀ e ∈ rl, e.blk ∉ recorded (runS s0 ops).1 := by
  obtain ⟨_, hF, _⟩ := c13_reach c hc ops hk hs ops (fun _ h => h) (Nat.le_refl _) (Nat.le_refl _) ha s0 hi
  exact hF.notcur b rl hr

/-- … in particular the current block of a key of the specification map is not recorded -/
theorem C13_current_not_recorded (c : Cfg) (hc : c.Legal) (ops : List SOp)
    (ha : ∀ o ∈ ops, o.isC01 = true) (hk : KeysOK c.kind ops) (hs : SizesOK ops)
    (s0 : SState) (hi : initS c = some s0) (dig key val : Bytes)
    (hp : (specRun c.kind c.imm [] ops).1.get dig = some (key, val)) (blk : Block)
    (hb : currentOf (runS s0 ops).1 dig = some blk) : blk ∉ recorded (runS s0 ops).1 := by
  obtain ⟨blk', h1, _, b, rl, _, h3, e, he, heq⟩ :=
    C13_current_is_current c hc ops ha hk hs s0 hi dig key val hp
  rw [hb] at h1
  cases h1
  rw [← heq]
  exact C13_recorded_not_current c hc ops ha hk hs s0 hi b rl h3 e he

/-! ### (3) exactly once -/

/-- C13 (3): no location is recorded twice. -/
theorem C13_exactly_once (c : Cfg) (hc : c.Legal) (ops : List SOp)
    (ha : ∀ o ∈ ops, o.isC01 = true) (hk : KeysOK c.kind ops) (hs : SizesOK ops)
    (s0 : SState) (hi : initS c = some s0) : (recorded (runS s0 ops).1).Nodup := by
  obtain ⟨_, hF, _⟩ := c13_reach c hc ops hk hs ops (fun _ h => h) (Nat.le_refl _) (Nat.le_refl _) ha s0 hi
  exact hF.nodup

/-! ### (4) the run -/

/-- C13 (4): after a run the freelist holds exactly the superseded locations, in order: the
    concatenation of the per-call `delta`s. -/
theorem C13_run (c : Cfg) (hc : c.Legal) (ops : List SOp)
    (ha : ∀ o ∈ ops, o.isC01 = true) (hk : KeysOK c.kind ops) (hs : SizesOK ops)
    (s0 : SState) (hi : initS c = some s0) :
    recorded (runS s0 ops).1 = superseded c [] s0 ops :=
  (c13_reach c hc ops hk hs ops (fun _ h => h) (Nat.le_refl _) (Nat.le_refl _) ha s0 hi).2.2

/-- the freelist file itself is always a whole number of well-formed entries -/
theorem C13_file_well_formed (c : Cfg) (hc : c.Legal) (ops : List SOp)
    (ha : ∀ o ∈ ops, o.isC01 = true) (hk : KeysOK c.kind ops) (hs : SizesOK ops)
    (s0 : SState) (hi : initS c = some s0) :
    (runS s0 ops).1.d.free.getD [] = (flEntries (runS s0 ops).1.d).flatMap blockBytes := by
  obtain ⟨_, hF, _⟩ := c13_reach c hc ops hk hs ops (fun _ h => h) (Nat.le_refl _) (Nat.le_refl _) ha s0 hi
  exact hF.file

/-! ### non-vacuity

Three keys in one bucket, 32-byte primary files.  Calls 0–3 (two new keys, an identical-value Put, a Remove
of an absent key) record nothing; call 4 overwrites `kA` and records the block of its first record
(offset 0); call 5 is a flush (the entry moves from the pool to the file, the list is unchanged); call 6
removes `kB` and records its block (offset 13); a malformed Put, a Get, a new key and an iteration record
nothing; the final Remove of `kA` records the block of its second record (offset 26). -/

def c13Cfg : Cfg := { kind := .mh, bits := 8, ifs := 64, pfs := 32, imm := false }
def c13A : Bytes := [18, 6, 1, 2, 3, 4, 5, 6]
def c13B : Bytes := [18, 6, 1, 2, 3, 4, 5, 7]
def c13C : Bytes := [18, 6, 1, 2, 9, 9, 9, 9]
def c13Ops : List SOp :=
  [.put c13A [7], .put c13B [1], .put c13A [7], .rm c13C, .put c13A [8, 9], .flush [], .rm c13B,
   .put [1, 2, 3] [1], .get c13A, .put c13C [], .iter [], .rm c13A]

/-- (freelist file entries, freelist pool, `recorded`) after a run from the fresh store -/
def c13After (c : Cfg) (ops : List SOp) : Option (List Block × List Block × List Block) :=
  (initS c).map fun s => (flEntries (runS s ops).1.d, (runS s ops).1.m.flpool, recorded (runS s ops).1)

example : c13Cfg.Legal := by decide
example : (∀ op ∈ c13Ops, op.isC01 = true) ∧ KeysOK c13Cfg.kind c13Ops ∧ SizesOK c13Ops := by
  refine ⟨by decide, ?_, ?_⟩
  · unfold KeysOK; decide
  · unfold SizesOK; decide

/-- new key, new key, identical value, absent-key removal: nothing recorded -/
example : c13After c13Cfg (c13Ops.take 4) = some ([], [], []) := by decide
/-- the overwrite adds exactly the old block of `c13A` (to the pool) -/
example : c13After c13Cfg (c13Ops.take 5) = some ([], [⟨0, 9⟩], [⟨0, 9⟩]) := by decide
/-- the flush moves it to the file; `recorded` is the same list -/
example : c13After c13Cfg (c13Ops.take 6) = some ([⟨0, 9⟩], [], [⟨0, 9⟩]) := by decide
/-- the removal adds exactly the block of `c13B` -/
example : c13After c13Cfg (c13Ops.take 7) = some ([⟨0, 9⟩], [⟨13, 9⟩], [⟨0, 9⟩, ⟨13, 9⟩]) := by decide
/-- malformed Put, Get, new key: nothing; the iteration flushes the pool -/
example : c13After c13Cfg (c13Ops.take 11) = some ([⟨0, 9⟩, ⟨13, 9⟩], [], [⟨0, 9⟩, ⟨13, 9⟩]) := by decide
/-- removing `c13A` records the block of its second record, not the first one again -/
example : c13After c13Cfg c13Ops =
    some ([⟨0, 9⟩, ⟨13, 9⟩], [⟨26, 10⟩], [⟨0, 9⟩, ⟨13, 9⟩, ⟨26, 10⟩]) := by decide
/-- the run-level summary on the example -/
example : (initS c13Cfg).map (fun s => superseded c13Cfg [] s c13Ops) =
    some [⟨0, 9⟩, ⟨13, 9⟩, ⟨26, 10⟩] := by decide

/-- immutable mode: the rejected Put of an existing key records nothing -/
def c13CfgImm : Cfg := { c13Cfg with imm := true }
def c13OpsImm : List SOp := [.put c13A [7], .put c13A [8], .flush [], .put c13A [7]]
example : (initS c13CfgImm).map (fun s => (runS s c13OpsImm).2) =
    some [.ok, .err .keyExists, .ok, .err .keyExists] := by decide
example : c13After c13CfgImm c13OpsImm = some ([], [], []) := by decide

end Sth
