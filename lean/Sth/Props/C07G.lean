/-
C07 with garbage collection — the on-disk files stay mutually consistent along histories with GC cycles.

G1 (this section): histories of Put / Get / Has / GetSize / Remove / Flush / iteration / Close+reopen AND
index GC cycles (`igc scanFree budget`: complete, or cut short by the time limit at ANY poll, with or
without the free-file scan) at arbitrary positions — `SOp.isC04a`, everything but primary GC.  In EVERY
reachable state the executable check `fsck` of the disk against the live bucket table is clean, and a
rescan of the index log (from the header's first file, which index GC advances, skipping the spans it
marked deleted) still rebuilds the live table.

Helper lemmas: Sth/Lemmas/C07GIdx.lean (an index GC cycle leaves every record list the table points at
in place byte for byte: `GK`, threaded through `truncateFreeFiles` and the reap loop next to C04's
`GI`), Sth/Lemmas/C07GInv.lean (the invariant `CInvY` = C07's `CInv` over C04's `YInv`, preserved by
every call except primary GC: `ystep`, `ystep_igc`).  Nothing was found false for G1.
-/
import Sth.Lemmas.C07GInv
import Sth.Props.C07
import Sth.Props.C04

namespace Sth

/-- C07 with index GC, main theorem: in every state reachable by calls other than primary GC — index GC
    cycles complete or cut at any poll, scanFree true/false, anywhere in the history — the executable
    consistency check of the disk against the live bucket table reports no violated clause. -/
theorem C07_fsck_clean_igc (c : Cfg) (hc : c.Legal) (ops : List SOp)
    (ha : ∀ op ∈ ops, op.isC04a = true) (hk : KeysOK c.kind ops) (hs : SizesOK ops) (s0 : SState)
    (hi : initS c = some s0) :
    let s := (runS s0 ops).1
    fsck c.kind s.d s.m.buckets = [] :=
  fsck_of_diskOK (c07y_reach c hc ops ha hk hs s0 hi).ok

/-- the same as a proposition: every clause of the check holds -/
theorem C07_disk_consistent_igc (c : Cfg) (hc : c.Legal) (ops : List SOp)
    (ha : ∀ op ∈ ops, op.isC04a = true) (hk : KeysOK c.kind ops) (hs : SizesOK ops) (s0 : SState)
    (hi : initS c = some s0) :
    let s := (runS s0 ops).1
    DiskOK c.kind s.d s.m.buckets :=
  (c07y_reach c hc ops ha hk hs s0 hi).ok

/-- all clauses for one bucket, for the record list the checker reads -/
theorem C07_bucket_clauses_igc (c : Cfg) (hc : c.Legal) (ops : List SOp)
    (ha : ∀ op ∈ ops, op.isC04a = true) (hk : KeysOK c.kind ops) (hs : SizesOK ops) (s0 : SState)
    (hi : initS c = some s0) {ih : IdxHeader} {b pos : Nat} {rl : RecordList}
    (hih : (runS s0 ops).1.d.ihdr = some ih) (hb : (b, pos) ∈ (runS s0 ops).1.m.buckets) (hp : pos ≠ 0)
    (hrl : fsckBucket (runS s0 ops).1.d ih.max ih.first b pos = .ok rl) :
    BucketOK c.kind (runS s0 ops).1.d ih b pos rl := by
  obtain ⟨rl', h⟩ := (c07y_reach c hc ops ha hk hs s0 hi).ok.buckets ih hih b pos hb hp
  rw [fsckBucket_of_at h.loc] at hrl
  cases hrl
  exact h

/-- The bucket table a reopen would reconstruct is the live one, also after index GC cycles: between
    calls the directory holds no snapshot, `recoveredBuckets` rescans the index log from the header's
    first file (skipping deleted spans), and in every reachable state the table it builds has the
    non-zero entries of the live table. -/
theorem C07_recovered_table_igc (c : Cfg) (hc : c.Legal) (ops : List SOp)
    (ha : ∀ op ∈ ops, op.isC04a = true) (hk : KeysOK c.kind ops) (hs : SizesOK ops) (s0 : SState)
    (hi : initS c = some s0) :
    let s := (runS s0 ops).1
    s.d.snap = none ∧
    ∃ T, recoveredBuckets s.d = some T ∧ T.filter (·.2 ≠ 0) = s.m.buckets.filter (·.2 ≠ 0) := by
  have h := c07y_reach c hc ops ha hk hs s0 hi
  exact ⟨h.snap, recovered_rescan_y h.inv h.y h.snap⟩

/-- the same two facts right after a Close + reopen step (with or without the snapshot) from any such
    state -/
theorem C07_reopen_igc (c : Cfg) (hc : c.Legal) (ops : List SOp)
    (ha : ∀ op ∈ ops, op.isC04a = true) (hk : KeysOK c.kind ops) (hs : SizesOK ops) (s0 : SState)
    (hi : initS c = some s0) (ord : List Nat) (useSnapshot : Bool) :
    let s' := (stepS (runS s0 ops).1 (.reopen ord useSnapshot)).1
    fsck c.kind s'.d s'.m.buckets = [] ∧
    ∃ T, recoveredBuckets s'.d = some T ∧ T.filter (·.2 ≠ 0) = s'.m.buckets.filter (·.2 ≠ 0) := by
  have h := c07y_reach c hc ops ha hk hs s0 hi
  have hU := univ_of_keysOK hk (keysExact_all c.kind ops)
  have h' := ystep_reopen hc hU h (by have := hs.1; omega) (by have := hs.2.1; omega) ord useSnapshot
  exact ⟨fsck_of_diskOK h'.ok, recovered_rescan_y h'.inv h'.y h'.snap⟩

/-- and right after one more index GC cycle from any such state (the cycle need not be part of `ops`) -/
theorem C07_after_igc (c : Cfg) (hc : c.Legal) (ops : List SOp)
    (ha : ∀ op ∈ ops, op.isC04a = true) (hk : KeysOK c.kind ops) (hs : SizesOK ops) (s0 : SState)
    (hi : initS c = some s0) (scanFree : Bool) (budget : Budget) :
    let s' := (stepS (runS s0 ops).1 (.igc scanFree budget)).1
    fsck c.kind s'.d s'.m.buckets = [] ∧
    ∃ T, recoveredBuckets s'.d = some T ∧ T.filter (·.2 ≠ 0) = s'.m.buckets.filter (·.2 ≠ 0) := by
  have h := c07y_reach c hc ops ha hk hs s0 hi
  have h' := ystep_igc h (by have := hs.1; omega) scanFree budget
  exact ⟨fsck_of_diskOK h'.ok, recovered_rescan_y h'.inv h'.y h'.snap⟩

/-! Non-vacuity: the run `exOps04a` of Sth/Props/C04.lean (1-byte files, overwrites and removals that
    leave stale index records, index GC cycles with and without the free-file scan, complete and with
    the deadline after 0, 1, 2 and 3 polls, reopens by snapshot and by rescan; the index header's first
    file advances to 3): the hypotheses hold (checked there), and by evaluation the check is clean and
    the rescan rebuilds the live table in every one of its 25 states. -/

theorem C07_example_igc_clean_everywhere :
    (initS exCfg04).map (fun s0 => (List.range (exOps04a.length + 1)).all fun i =>
      (fsck .mh (runS s0 (exOps04a.take i)).1.d (runS s0 (exOps04a.take i)).1.m.buckets).isEmpty) =
      some true := by decide

theorem C07_example_igc_recovered_everywhere :
    (initS exCfg04).map (fun s0 => (List.range (exOps04a.length + 1)).all fun i =>
      (recoveredBuckets (runS s0 (exOps04a.take i)).1.d).map (·.filter (·.2 ≠ 0)) ==
        some ((runS s0 (exOps04a.take i)).1.m.buckets.filter (·.2 ≠ 0))) = some true := by decide

/-- in that run index GC really rewrites the files the check reads: at the end the header's first file
    is 3, two index files remain, and the live table points into them -/
theorem C07_example_igc_final :
    (initS exCfg04).map (fun s0 =>
      ((runS s0 exOps04a).1.d.ihdr.map IdxHeader.first, (runS s0 exOps04a).1.d.ifiles.map (·.1),
        (runS s0 exOps04a).1.m.buckets)) = some (some 3, [3, 4], [(1, 7), (2, 8)]) := by decide

end Sth
