/-
C07 with garbage collection — the on-disk files stay mutually consistent along histories with GC cycles.

G1 (this section): histories of Put / Get / Has / GetSize / Remove / Flush / iteration / Close+reopen AND
index GC cycles (`igc scanFree budget`: complete, or cut short by the time limit at ANY poll, with or
without the free-file scan) at arbitrary positions — `SOp.isC04a`, everything but primary GC.  In EVERY
reachable state the executable check `fsck` of the disk against the live bucket table is clean, and a
rescan of the index log (from the header's first file, which index GC advances, skipping the spans it
marked deleted) still rebuilds the live table.

Helper lemmas: Sth/Lemmas/C07GIdx.lean (an index GC cycle leaves every record list the table points at
in place byte for byte: `GK`, threaded through `truncateFreeFiles` and the reap loop next to C04's
`GI`), Sth/Lemmas/C07GInv.lean (the invariant `CInvY` = C07's `CInv` over C04's `YInv`, preserved by
every call except primary GC: `ystep`, `ystep_igc`).  Nothing was found false for G1.
-/
import Sth.Lemmas.C07GInv
import Sth.Lemmas.C07GG
import Sth.Props.C07
import Sth.Props.C04

namespace Sth

/-- C07 with index GC, main theorem: in every state reachable by calls other than primary GC — index GC
    cycles complete or cut at any poll, scanFree true/false, anywhere in the history — the executable
    consistency check of the disk against the live bucket table reports no violated clause. -/
theorem C07_fsck_clean_igc (c : Cfg) (hc : c.Legal) (ops : List SOp)
    (ha : ∀ op ∈ ops, op.isC04a = true) (hk : KeysOK c.kind ops) (hs : SizesOK ops) (s0 : SState)
    (hi : initS c = some s0) :
    let s := (runS s0 ops).1
    fsck c.kind s.d s.m.buckets = [] :=
  fsck_of_diskOK (c07y_reach c hc ops ha hk hs s0 hi).ok

/-- the same as a proposition: every clause of the check holds -/
theorem C07_disk_consistent_igc (c : Cfg) (hc : c.Legal) (ops : List SOp)
    (ha : ∀ op ∈ ops, op.isC04a = true) (hk : KeysOK c.kind ops) (hs : SizesOK ops) (s0 : SState)
    (hi : initS c = some s0) :
    let s := (runS s0 ops).1
    DiskOK c.kind s.d s.m.buckets :=
  (c07y_reach c hc ops ha hk hs s0 hi).ok

/-- all clauses for one bucket, for the record list the checker reads -/
theorem C07_bucket_clauses_igc (c : Cfg) (hc : c.Legal) (ops : List SOp)
    (ha : ∀ op ∈ ops, op.isC04a = true) (hk : KeysOK c.kind ops) (hs : SizesOK ops) (s0 : SState)
    (hi : initS c = some s0) {ih : IdxHeader} {b pos : Nat} {rl : RecordList}
    (hih : (runS s0 ops).1.d.ihdr = some ih) (hb : (b, pos) ∈ (runS s0 ops).1.m.buckets) (hp : pos ≠ 0)
    (hrl : fsckBucket (runS s0 ops).1.d ih.max ih.first b pos = .ok rl) :
    BucketOK c.kind (runS s0 ops).1.d ih b pos rl := by
  obtain ⟨rl', h⟩ := (c07y_reach c hc ops ha hk hs s0 hi).ok.buckets ih hih b pos hb hp
  rw [fsckBucket_of_at h.loc] at hrl
  cases hrl
  exact h

/-- The bucket table a reopen would reconstruct is the live one, also after index GC cycles: between
    calls the directory holds no snapshot, `recoveredBuckets` rescans the index log from the header's
    first file (skipping deleted spans), and in every reachable state the table it builds has the
    non-zero entries of the live table. -/
theorem C07_recovered_table_igc (c : Cfg) (hc : c.Legal) (ops : List SOp)
    (ha : ∀ op ∈ ops, op.isC04a = true) (hk : KeysOK c.kind ops) (hs : SizesOK ops) (s0 : SState)
    (hi : initS c = some s0) :
    let s := (runS s0 ops).1
    s.d.snap = none ∧
    ∃ T, recoveredBuckets s.d = some T ∧ T.filter (·.2 ≠ 0) = s.m.buckets.filter (·.2 ≠ 0) := by
  have h := c07y_reach c hc ops ha hk hs s0 hi
  exact ⟨h.snap, recovered_rescan_y h.inv h.y h.snap⟩

/-- the same two facts right after a Close + reopen step (with or without the snapshot) from any such
    state -/
theorem C07_reopen_igc (c : Cfg) (hc : c.Legal) (ops : List SOp)
    (ha : ∀ op ∈ ops, op.isC04a = true) (hk : KeysOK c.kind ops) (hs : SizesOK ops) (s0 : SState)
    (hi : initS c = some s0) (ord : List Nat) (useSnapshot : Bool) :
    let s' := (stepS (runS s0 ops).1 (.reopen ord useSnapshot)).1
    fsck c.kind s'.d s'.m.buckets = [] ∧
    ∃ T, recoveredBuckets s'.d = some T ∧ T.filter (·.2 ≠ 0) = s'.m.buckets.filter (·.2 ≠ 0) := by
  have h := c07y_reach c hc ops ha hk hs s0 hi
  have hU := univ_of_keysOK hk (keysExact_all c.kind ops)
  have h' := ystep_reopen hc hU h (by have := hs.1; omega) (by have := hs.2.1; omega) ord useSnapshot
  exact ⟨fsck_of_diskOK h'.ok, recovered_rescan_y h'.inv h'.y h'.snap⟩

/-- and right after one more index GC cycle from any such state (the cycle need not be part of `ops`) -/
theorem C07_after_igc (c : Cfg) (hc : c.Legal) (ops : List SOp)
    (ha : ∀ op ∈ ops, op.isC04a = true) (hk : KeysOK c.kind ops) (hs : SizesOK ops) (s0 : SState)
    (hi : initS c = some s0) (scanFree : Bool) (budget : Budget) :
    let s' := (stepS (runS s0 ops).1 (.igc scanFree budget)).1
    fsck c.kind s'.d s'.m.buckets = [] ∧
    ∃ T, recoveredBuckets s'.d = some T ∧ T.filter (·.2 ≠ 0) = s'.m.buckets.filter (·.2 ≠ 0) := by
  have h := c07y_reach c hc ops ha hk hs s0 hi
  have h' := ystep_igc h (by have := hs.1; omega) scanFree budget
  exact ⟨fsck_of_diskOK h'.ok, recovered_rescan_y h'.inv h'.y h'.snap⟩

/-! Non-vacuity: the run `exOps04a` of Sth/Props/C04.lean (1-byte files, overwrites and removals that
    leave stale index records, index GC cycles with and without the free-file scan, complete and with
    the deadline after 0, 1, 2 and 3 polls, reopens by snapshot and by rescan; the index header's first
    file advances to 3): the hypotheses hold (checked there), and by evaluation the check is clean and
    the rescan rebuilds the live table in every one of its 25 states. -/

theorem C07_example_igc_clean_everywhere :
    (initS exCfg04).map (fun s0 => (List.range (exOps04a.length + 1)).all fun i =>
      (fsck .mh (runS s0 (exOps04a.take i)).1.d (runS s0 (exOps04a.take i)).1.m.buckets).isEmpty) =
      some true := by decide

theorem C07_example_igc_recovered_everywhere :
    (initS exCfg04).map (fun s0 => (List.range (exOps04a.length + 1)).all fun i =>
      (recoveredBuckets (runS s0 (exOps04a.take i)).1.d).map (·.filter (·.2 ≠ 0)) ==
        some ((runS s0 (exOps04a.take i)).1.m.buckets.filter (·.2 ≠ 0))) = some true := by decide

/-- in that run index GC really rewrites the files the check reads: at the end the header's first file
    is 3, two index files remain, and the live table points into them -/
theorem C07_example_igc_final :
    (initS exCfg04).map (fun s0 =>
      ((runS s0 exOps04a).1.d.ihdr.map IdxHeader.first, (runS s0 exOps04a).1.d.ifiles.map (·.1),
        (runS s0 exOps04a).1.m.buckets)) = some (some 3, [3, 4], [(1, 7), (2, 8)]) := by decide


/-! ## G2: histories with primary GC cycles too

The full statement

    theorem C07_fsck_clean_gc (c : Cfg) (hc : c.Legal) (ops : List SOp) (hk : KeysOK c.kind ops)
        (hs : SizesOK ops) (s0 : SState) (hi : initS c = some s0) (hb : GcCountersOK s0 ops) :
        let s := (runS s0 ops).1
        fsck c.kind s.d s.m.buckets = []

is FALSE for multihash stores (`C07_d11_witness`, `C07_d11_relocation_witness` below, both by
evaluation of the model):

 * D11.  A primary GC cycle hands the freelist over and applies it while index updates are still
   unflushed: `put k v; flush; put k v'; pgc` — the overwrite put the old record on the freelist and
   re-pointed the entry IN THE POOL; the cycle flushes the freelist and the primary, marks the old
   record deleted, and the on-disk record list of the (still dirty) bucket names a deleted record.
 * D11, relocation variant (found here).  No user write is needed: `…; flush; pgc; pgc`.  The first
   cycle relocates the live records of a sparsely used file — primary.Put + Index.Relocate + freelist.Put
   of the old location, i.e. the entry is re-pointed in the index POOL and nothing flushes it; the
   second cycle hands the freelist over, marks the old copies deleted, finds the file empty, unlinks it
   and advances the primary header's first file, while the on-disk index still names that file.  So a
   primary GC cycle leaves the index pool dirty, and two cycles in a row — the normal mode of operation
   of a periodic collector — leave the directory inconsistent until the next Flush (a crash in that
   window loses the relocated records: the recovered index points into an unlinked file).

The statement is proved under the one extra, decidable premise `PgcFromClean s0 ops`: every primary GC
cycle of the run starts from a state whose index pool is empty (`C07_fsck_clean_gc_partial`);
`pgcAfterFlush true ops` is a sufficient condition on the calls alone (each `pgc` preceded by a Flush /
iteration / Close+reopen with only index GC cycles and reads in between;
`C07_fsck_clean_gc_afterFlush`).  CID stores need no premise at all (`C07_fsck_clean_gc_cid`: primary GC
does nothing there).  In every such history the check is clean in EVERY state — also right after a cycle
that relocated (the on-disk index then names the old copies, which are intact until the NEXT cycle's
hand-over, and by then the premise has forced a flush), after cycles cut short at any poll, with the
hand-over file `.gc` left behind by an interrupted cycle, and between the two hand-over passes. -/

/-- C07 with both collectors (multihash store): under `GcCountersOK` (C04's bound on the file
    counters) and `PgcFromClean` (every primary GC cycle starts with an empty index pool), in every
    reachable state the check of the disk against the live bucket table is clean. -/
theorem C07_fsck_clean_gc_partial (c : Cfg) (hc : c.Legal) (hmh : c.kind = .mh) (ops : List SOp)
    (hk : KeysOK c.kind ops) (hs : SizesOK ops) (s0 : SState) (hi : initS c = some s0)
    (hb : GcCountersOK s0 ops) (hp : PgcFromClean s0 ops) :
    let s := (runS s0 ops).1
    fsck c.kind s.d s.m.buckets = [] := by
  obtain ⟨n', h⟩ := c07g_reach c hc hmh ops hk hs s0 hi hb hp
  rw [hmh]
  exact fsck_of_diskOK h.ok

/-- the same as a proposition -/
theorem C07_disk_consistent_gc_partial (c : Cfg) (hc : c.Legal) (hmh : c.kind = .mh) (ops : List SOp)
    (hk : KeysOK c.kind ops) (hs : SizesOK ops) (s0 : SState) (hi : initS c = some s0)
    (hb : GcCountersOK s0 ops) (hp : PgcFromClean s0 ops) :
    let s := (runS s0 ops).1
    DiskOK .mh s.d s.m.buckets := by
  obtain ⟨n', h⟩ := c07g_reach c hc hmh ops hk hs s0 hi hb hp
  exact h.ok

/-- the premise stated on the calls alone is sufficient -/
theorem C07_pgcFromClean_of_afterFlush (c : Cfg) (hc : c.Legal) (hmh : c.kind = .mh) (ops : List SOp)
    (hk : KeysOK c.kind ops) (hs : SizesOK ops) (s0 : SState) (hi : initS c = some s0)
    (hb : GcCountersOK s0 ops) (hp : pgcAfterFlush true ops = true) : PgcFromClean s0 ops := by
  have hU := univ_of_keysOK hk (keysExact_all c.kind ops)
  have h0 : CInvG c (digestsOf c.kind ops) s0 [] 0 0 := cinvG_init hc hmh hi
  have hin : s0.m.inext = [] := by
    have hi' := hi
    rw [initS_mh c hc hmh] at hi'
    cases hi'
    rfl
  refine pgcFromClean_of_afterFlush hc hU ops s0 [] 0 0 true h0 (fun _ => hin) ?_ hb hp ?_
  · intro op ho k hkey dig hcls
    exact mem_digestsOf ho hkey hcls
  · have := hs.2.1; omega

/-- C07 with both collectors, the premise on the calls alone: every `pgc` is preceded by a Flush /
    iteration / Close+reopen with only index GC cycles and Get / Has / GetSize in between -/
theorem C07_fsck_clean_gc_afterFlush (c : Cfg) (hc : c.Legal) (hmh : c.kind = .mh) (ops : List SOp)
    (hk : KeysOK c.kind ops) (hs : SizesOK ops) (s0 : SState) (hi : initS c = some s0)
    (hb : GcCountersOK s0 ops) (hp : pgcAfterFlush true ops = true) :
    let s := (runS s0 ops).1
    fsck c.kind s.d s.m.buckets = [] :=
  C07_fsck_clean_gc_partial c hc hmh ops hk hs s0 hi hb
    (C07_pgcFromClean_of_afterFlush c hc hmh ops hk hs s0 hi hb hp)

/-- CID stores: the full statement holds as it stands — every history, GC cycles of both kinds anywhere
    (primary GC does nothing on a CID store) — and the rescan rebuilds the live table -/
theorem C07_fsck_clean_gc_cid (c : Cfg) (hc : c.Legal) (hcid : c.kind = .cid) (ops : List SOp)
    (hk : KeysOK c.kind ops) (hs : SizesOK ops) (s0 : SState) (hi : initS c = some s0) :
    let s := (runS s0 ops).1
    fsck c.kind s.d s.m.buckets = [] ∧
    ∃ T, recoveredBuckets s.d = some T ∧ T.filter (·.2 ≠ 0) = s.m.buckets.filter (·.2 ≠ 0) := by
  have h := c07y_reach_cid c hc hcid ops hk hs s0 hi
  exact ⟨fsck_of_diskOK h.ok, recovered_rescan_y h.inv h.y h.snap⟩

/-- one primary GC cycle from ANY state of a multihash store that satisfies the invariant and has an
    empty index pool keeps the invariant — complete, or cut short at any poll, any `lowUse` -/
theorem C07_primaryGC_keeps_consistency {c : Cfg} {U : List (Bytes × Bytes)} {s : SState} {spec : Spec}
    {k B : Nat} (hU : Univ c.kind U) (h : CInvG c U s spec k B) (hk : 3 * k < 1073741824)
    (hin : s.m.inext = []) (lowUse : Nat) (budget : Budget) :
    let s' := (stepS s (.pgc lowUse budget)).1
    fsck .mh s'.d s'.m.buckets = [] := by
  obtain ⟨k', g1, _⟩ := pgc_c07g hU h hk hin lowUse budget
  exact fsck_of_diskOK g1.ok

/-! Non-vacuity of G2: 40-byte primary files (`exCfg04b` of Sth/Props/C04.lean); overwrites and a
    removal leave dead records in closed files; primary GC cycles with `lowUse = 0` (relocate from every
    file) and `50`, complete and cut short after 3 and 5 polls (the hand-over file is left behind), index
    GC cycles, reopens by rescan and by snapshot; every `pgc` is preceded by a Flush / iteration /
    reopen.  At the end the primary header's first file is 4 and one primary file remains. -/

def exOps07g : List SOp :=
  [.put exK1 [7], .put exK2 [1, 2, 3], .put exK3 [4], .flush [], .put exK4 [5, 5],
   .put exK2 [3, 3, 3, 3], .put exK4 [6, 6], .flush [], .put exK4 [7, 7], .flush [],
   .pgc 0 none, .get exK1, .get exK2, .get exK3, .igc true none, .flush [], .pgc 0 (some 3),
   .put exK1 [9], .flush [1], .igc false (some 2), .pgc 0 none, .get exK4, .reopen [] false,
   .pgc 50 none, .get exK1, .rm exK3, .iter [], .pgc 0 (some 5), .reopen [] true, .pgc 0 none,
   .has exK2, .size exK3, .iter []]

example : exCfg04b.Legal ∧ exCfg04b.kind = .mh := ⟨by decide, rfl⟩
example : KeysOK exCfg04b.kind exOps07g ∧ SizesOK exOps07g := by
  refine ⟨?_, ?_⟩
  · unfold KeysOK; decide
  · unfold SizesOK; decide
example : pgcAfterFlush true exOps07g = true := by decide
example : ∃ s, initS exCfg04b = some s ∧ GcCountersOK s exOps07g ∧ PgcFromClean s exOps07g :=
  ⟨_, rfl, by decide, by decide⟩

/-- by evaluation: clean in every one of the 34 states of that run (as the theorem says) -/
theorem C07_example_gc_clean_everywhere :
    (initS exCfg04b).map (fun s0 => (List.range (exOps07g.length + 1)).all fun i =>
      (fsck .mh (runS s0 (exOps07g.take i)).1.d (runS s0 (exOps07g.take i)).1.m.buckets).isEmpty) =
      some true := by decide

/-- primary GC really works on the files the check reads: the first cycle relocates (three pooled
    records, two dirty buckets, three freed blocks right after it), at the end the primary header's
    first file is 4 and a single primary file remains -/
theorem C07_example_gc_final :
    (initS exCfg04b).map (fun s0 =>
      (((runS s0 (exOps07g.take 11)).1.m.pnext.length, (runS s0 (exOps07g.take 11)).1.m.inext.length,
          (runS s0 (exOps07g.take 11)).1.m.flpool.length),
        (runS s0 exOps07g).1.d.phdr, (runS s0 exOps07g).1.d.pfiles.map (·.1))) =
      some ((3, 2, 3), some ⟨40, 4⟩, [4]) := by decide

/-! The witnesses that the premise cannot be dropped (known finding D11). -/

def exOpsD11 : List SOp := [.put exK1 [7], .flush [], .put exK1 [8], .pgc 0 none]

/-- D11 in the model: every hypothesis of the full statement holds, the index pool is dirty when the
    cycle starts (`PgcFromClean` fails), and after the cycle the on-disk record list of the dirty
    bucket names a record the cycle has just marked deleted -/
theorem C07_d11_witness :
    exCfg04b.Legal ∧ KeysOK exCfg04b.kind exOpsD11 ∧ SizesOK exOpsD11 ∧
    ∃ s0, initS exCfg04b = some s0 ∧ GcCountersOK s0 exOpsD11 ∧ ¬ PgcFromClean s0 exOpsD11 ∧
      (fsck .mh (runS s0 (exOpsD11.take 3)).1.d (runS s0 (exOpsD11.take 3)).1.m.buckets = [] ∧
       (fsck .mh (runS s0 exOpsD11).1.d (runS s0 exOpsD11).1.m.buckets).length = 1) := by
  refine ⟨by decide, ?_, ?_, _, rfl, by decide, by decide, by decide, by decide⟩
  · unfold KeysOK; decide
  · unfold SizesOK; decide

def exOpsD11r : List SOp :=
  [.put exK1 [7], .put exK2 [1, 2, 3], .put exK3 [4], .flush [], .put exK2 [3, 3, 3, 3], .flush [],
   .pgc 0 none, .pgc 0 none]

/-- D11, relocation variant: no user write between the last Flush and the cycles.  The first cycle
    starts from an empty index pool, relocates two records (two dirty buckets afterwards) and leaves a
    consistent directory; the second cycle starts from the pool the first one dirtied, unlinks primary
    file 0 and advances the header's first file to 1 while the on-disk index still names file 0: two
    violated clauses -/
theorem C07_d11_relocation_witness :
    exCfg04b.Legal ∧ KeysOK exCfg04b.kind exOpsD11r ∧ SizesOK exOpsD11r ∧
    ∃ s0, initS exCfg04b = some s0 ∧ GcCountersOK s0 exOpsD11r ∧
      PgcFromClean s0 (exOpsD11r.take 7) ∧ ¬ PgcFromClean s0 exOpsD11r ∧
      (runS s0 (exOpsD11r.take 7)).1.m.inext.length = 2 ∧
      fsck .mh (runS s0 (exOpsD11r.take 7)).1.d (runS s0 (exOpsD11r.take 7)).1.m.buckets = [] ∧
      (runS s0 exOpsD11r).1.d.phdr = some ⟨40, 1⟩ ∧
      (fsck .mh (runS s0 exOpsD11r).1.d (runS s0 exOpsD11r).1.m.buckets).length = 2 := by
  refine ⟨by decide, ?_, ?_, _, rfl, by decide, by decide, by decide, by decide, by decide, by decide,
    by decide⟩
  · unfold KeysOK; decide
  · unfold SizesOK; decide

end Sth
