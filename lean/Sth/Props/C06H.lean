/-
C06 — Garbage collectors running concurrently with callers never disturb them: THE HAND-OVER WINDOWS of
primary GC (hook points `primary.gc.tgc_done` and `primary.gc.flushed`).

One hand-over pass of `primaryGC.gc` is three steps with two windows:
    hand-over   FreeList.ToGC: flush the pool into the freelist file, rename it to `.gc`, start a NEW
                empty freelist file (an existing `.gc` is returned as it is) — `toGC`
    window 1    whole calls of other threads
    flush       Primary.Flush — `priFlush`
    window 2    whole calls of other threads
    apply       processFreeList: mark the records the entries of `.gc` name as deleted, remove `.gc`
                — `passApply` (Sth/Model/GCSplit.lean)
`C06_handover_split` ties the split to `freelistPass`, the function the correspondence run compares with
the code.

What makes the windows safe (`C06_handover_window_invisible`), for every reachable state of a multihash
store, every two lists of window calls (Put / Get / Has / GetSize / Remove / Flush / iteration):
  (a) every window call returns what the in-memory map returns;
  (b) NO window call writes the hand-over file: what a window call frees goes to the pool and, at a
      Flush, to the NEW freelist file — `.gc` at the apply is exactly what the hand-over produced;
  (c) after the collector's flush no entry of `.gc` names a pooled record, and this STAYS true in window
      2 although window calls pool new records: those are allocated at the frontier, beyond everything a
      freelist entry names (`NotPooled`).  Hence at the apply every entry names a location of the files
      on disk — the reason for the flush — and none is consumed without effect;
  (d) the apply, in a state WITH pooled records, keeps the GC invariant `GInv` for the map after both
      windows, whatever its outcome (deadline at either poll, completion); on completion `.gc` is
      removed and EXACTLY the record spans its entries name (offset and size) are marked deleted, nothing
      else (`Kills`, C11);
  (e) the apply writes neither the freelist file nor the pool (the result state is the state before the
      apply with only the primary files and `.gc` changed): everything the window calls recorded is
      still recorded afterwards, once, and is handed over by the next pass (the second pass of the same
      cycle when this one was the first).
By evaluation (`C06_handover_window_example`): three locations freed in the windows are in the new file
after the apply and consumed by the next pass.
-/
import Sth.Lemmas.C06H3
import Sth.Props.C06W

namespace Sth

open C11 C13H C13X C06W

/-- the split is `freelistPass`: hand-over, flush and apply with nothing in between -/
theorem C06_handover_split (m : Mem) (d : Disk) (budget : Budget) :
    freelistPass m d budget =
      match priFlush (toGC m d).1 (toGC m d).2 with
      | none => (.flushErr, (toGC m d).1, (toGC m d).2, budget, [])
      | some (m1, d1) => passApply m1 d1 budget :=
  freelistPass_split m d budget

/-- C06, the hand-over windows (statement in the header).  `s` is the state the history `ops` reaches,
    `win1` the calls between the hand-over and the collector's flush, `(m2, d2)` what that flush returns
    (it never fails: `C06_handover_flush_succeeds`), `win2` the calls between the flush and the apply.
    The counter hypotheses are those of C04, on every piece of the run. -/
theorem C06_handover_window_invisible (c : Cfg) (hc : c.Legal) (hmh : c.kind = .mh)
    (ops win1 win2 : List SOp) (hk : KeysOK c.kind (ops ++ (win1 ++ win2)))
    (hs : SizesOK (ops ++ (win1 ++ win2))) (s0 : SState) (hi : initS c = some s0)
    (hb : GcCountersOK s0 ops)
    (hw1 : ∀ op ∈ win1, isWin op = true) (hw2 : ∀ op ∈ win2, isWin op = true)
    (hb1 : GcCountersOK ⟨(runS s0 ops).1.cfg, (toGC (runS s0 ops).1.m (runS s0 ops).1.d).1,
      (toGC (runS s0 ops).1.m (runS s0 ops).1.d).2⟩ win1)
    (hf1 : gcCnt (runS ⟨(runS s0 ops).1.cfg, (toGC (runS s0 ops).1.m (runS s0 ops).1.d).1,
      (toGC (runS s0 ops).1.m (runS s0 ops).1.d).2⟩ win1).1 < 268435456)
    {m2 : Mem} {d2 : Disk}
    (hfl : priFlush (runS ⟨(runS s0 ops).1.cfg, (toGC (runS s0 ops).1.m (runS s0 ops).1.d).1,
        (toGC (runS s0 ops).1.m (runS s0 ops).1.d).2⟩ win1).1.m
      (runS ⟨(runS s0 ops).1.cfg, (toGC (runS s0 ops).1.m (runS s0 ops).1.d).1,
        (toGC (runS s0 ops).1.m (runS s0 ops).1.d).2⟩ win1).1.d = some (m2, d2))
    (hb2 : GcCountersOK ⟨(runS s0 ops).1.cfg, m2, d2⟩ win2)
    (hf2 : gcCnt (runS ⟨(runS s0 ops).1.cfg, m2, d2⟩ win2).1 < 268435456) :
    let s := (runS s0 ops).1
    let spec := (specRun c.kind c.imm [] ops).1
    let s1 : SState := ⟨s.cfg, (toGC s.m s.d).1, (toGC s.m s.d).2⟩
    let r1 := runS s1 win1
    let r2 := runS ⟨s.cfg, m2, d2⟩ win2
    let spec1 := (specRun c.kind c.imm spec win1).1
    -- (a)
    r1.2 = (specRun c.kind c.imm spec win1).2 ∧ r2.2 = (specRun c.kind c.imm spec1 win2).2 ∧
    -- (b)
    r1.1.d.freeGc = s1.d.freeGc ∧ d2.freeGc = s1.d.freeGc ∧ r2.1.d.freeGc = s1.d.freeGc ∧
    -- (c)
    m2.pnext = [] ∧ (∀ fb ∈ flGcEntries s1.d, NotPooled r2.1.m fb) ∧
    -- (d), (e)
    ∀ budget, ApplyOut c (digestsOf c.kind (ops ++ (win1 ++ win2))) s1.d.freeGc r2.1
      (specRun c.kind c.imm spec1 win2).1
      (0 + (ops.map SOp.bytes).sum + (win1.map SOp.bytes).sum + (win2.map SOp.bytes).sum) budget := by
  have hU := univ_of_keysOK hk (keysExact_all c.kind (ops ++ (win1 ++ win2)))
  have hsum : ((ops ++ (win1 ++ win2)).map SOp.bytes).sum =
      (ops.map SOp.bytes).sum + (win1.map SOp.bytes).sum + (win2.map SOp.bytes).sum := by
    simp only [List.map_append, List.sum_append]; omega
  have hB := hs.2.1
  rw [hsum] at hB
  have hkeys : ∀ op ∈ ops, ∀ k, op.keyOf = some k → ∀ dig, keyClass c.kind k = .ok dig →
      (k, dig) ∈ digestsOf c.kind (ops ++ (win1 ++ win2)) :=
    fun op ho k hkey dig hcls => mem_digestsOf (List.mem_append_left _ ho) hkey hcls
  have hk1 : ∀ op ∈ win1, ∀ k, op.keyOf = some k → ∀ dig, keyClass c.kind k = .ok dig →
      (k, dig) ∈ digestsOf c.kind (ops ++ (win1 ++ win2)) :=
    fun op ho k hkey dig hcls =>
      mem_digestsOf (List.mem_append_right _ (List.mem_append_left _ ho)) hkey hcls
  have hk2 : ∀ op ∈ win2, ∀ k, op.keyOf = some k → ∀ dig, keyClass c.kind k = .ok dig →
      (k, dig) ∈ digestsOf c.kind (ops ++ (win1 ++ win2)) :=
    fun op ho k hkey dig hcls =>
      mem_digestsOf (List.mem_append_right _ (List.mem_append_right _ ho)) hkey hcls
  obtain ⟨_, n0, hG⟩ := run_g hc hU ops s0 [] 0 0 (ginv_init hc hmh hi) hkeys hb (by omega)
  obtain ⟨a1, a2, m2', d2', a3, a4, a5, a6⟩ := handover_g hc hU hG win1 win2 hw1 hw2 hk1 hk2
    (by omega) hb1 hf1
  rw [hfl] at a3
  simp only [Option.some.injEq, Prod.mk.injEq] at a3
  obtain ⟨rfl, rfl⟩ := a3
  obtain ⟨b1, _, b3, b4, b5⟩ := a6 hb2 hf2
  exact ⟨a1, b1, a2, a4, b3, a5, b4, b5⟩

/-- the collector's flush after window 1 never fails -/
theorem C06_handover_flush_succeeds (c : Cfg) (hc : c.Legal) (hmh : c.kind = .mh)
    (ops win1 : List SOp) (hk : KeysOK c.kind (ops ++ win1)) (hs : SizesOK (ops ++ win1))
    (s0 : SState) (hi : initS c = some s0) (hb : GcCountersOK s0 ops)
    (hw1 : ∀ op ∈ win1, isWin op = true)
    (hb1 : GcCountersOK ⟨(runS s0 ops).1.cfg, (toGC (runS s0 ops).1.m (runS s0 ops).1.d).1,
      (toGC (runS s0 ops).1.m (runS s0 ops).1.d).2⟩ win1)
    (hf1 : gcCnt (runS ⟨(runS s0 ops).1.cfg, (toGC (runS s0 ops).1.m (runS s0 ops).1.d).1,
      (toGC (runS s0 ops).1.m (runS s0 ops).1.d).2⟩ win1).1 < 268435456) :
    ∃ m2 d2, priFlush (runS ⟨(runS s0 ops).1.cfg, (toGC (runS s0 ops).1.m (runS s0 ops).1.d).1,
        (toGC (runS s0 ops).1.m (runS s0 ops).1.d).2⟩ win1).1.m
      (runS ⟨(runS s0 ops).1.cfg, (toGC (runS s0 ops).1.m (runS s0 ops).1.d).1,
        (toGC (runS s0 ops).1.m (runS s0 ops).1.d).2⟩ win1).1.d = some (m2, d2) := by
  have hU := univ_of_keysOK hk (keysExact_all c.kind (ops ++ win1))
  have hsum : ((ops ++ win1).map SOp.bytes).sum = (ops.map SOp.bytes).sum + (win1.map SOp.bytes).sum := by
    simp
  have hB := hs.2.1
  rw [hsum] at hB
  have hkeys : ∀ op ∈ ops, ∀ k, op.keyOf = some k → ∀ dig, keyClass c.kind k = .ok dig →
      (k, dig) ∈ digestsOf c.kind (ops ++ win1) :=
    fun op ho k hkey dig hcls => mem_digestsOf (List.mem_append_left _ ho) hkey hcls
  have hk1 : ∀ op ∈ win1, ∀ k, op.keyOf = some k → ∀ dig, keyClass c.kind k = .ok dig →
      (k, dig) ∈ digestsOf c.kind (ops ++ win1) :=
    fun op ho k hkey dig hcls => mem_digestsOf (List.mem_append_right _ ho) hkey hcls
  obtain ⟨_, n0, hG⟩ := run_g hc hU ops s0 [] 0 0 (ginv_init hc hmh hi) hkeys hb (by omega)
  obtain ⟨_, _, m2, d2, a3, _⟩ := handover_g hc hU hG win1 [] hw1 (fun _ h => by cases h) hk1
    (fun _ h => by cases h) (by simp only [List.map_nil, List.sum_nil]; omega) hb1 hf1
  exact ⟨m2, d2, a3⟩

/-! ### by evaluation -/

def handPre : List SOp :=
  [.put exK1 [7], .put exK2 [1, 2, 3], .put exK3 [4], .flush [], .put exK1 [8]]

/-- what `handSchedule` reports: outputs of `win1`, outputs of `win2`, entries of `.gc` at the apply,
    entries of the new freelist file at the apply, outcome of the apply, everything recorded after the
    apply, everything recorded after the second pass, outputs of `after` -/
structure HandRes where
  out1 : List SOut
  out2 : List SOut
  gc : List Block
  free : List Block
  outcome : FlOut
  rec3 : List Block
  rec4 : List Block
  after : List SOut
deriving DecidableEq, Repr

/-- hand-over, `win1`, flush, `win2`, apply (no deadline), a whole second pass, then the calls `after` -/
def handSchedule (win1 win2 after : List SOp) : Option HandRes :=
  match initS exCfg04b with
  | none => none
  | some s0 =>
    let s := (runS s0 handPre).1
    let r1 := runS ⟨s.cfg, (toGC s.m s.d).1, (toGC s.m s.d).2⟩ win1
    match priFlush r1.1.m r1.1.d with
    | none => none
    | some (m2, d2) =>
      let r2 := runS ⟨s.cfg, m2, d2⟩ win2
      let a := passApply r2.1.m r2.1.d none
      let s3 : SState := ⟨s.cfg, a.2.1, a.2.2.1⟩
      let p2 := freelistPass s3.m s3.d none
      let s4 : SState := ⟨s.cfg, p2.2.1, p2.2.2.1⟩
      some ⟨r1.2, r2.2, flGcEntries r2.1.d, flEntries r2.1.d, a.1, recordedG s3, recordedG s4,
        (runS s4 after).2⟩

/-- the hand-over file holds the location `⟨0, 9⟩` freed before the cycle; the window calls free three
    more (an overwrite in window 1, an overwrite and a Remove in window 2): they are in the NEW freelist
    file, still recorded after the apply, and consumed by the next pass; every call returns the map's
    answer -/
theorem C06_handover_window_example :
    handSchedule [.put exK2 [9], .get exK1] [.put exK3 [5], .rm exK2, .flush [], .put exK4 [1]]
        [.get exK1, .get exK2, .get exK3, .get exK4] =
      some ⟨[.ok, .found [8]], [.ok, .bool true, .ok, .ok], [⟨0, 9⟩],
        [⟨13, 11⟩, ⟨28, 10⟩, ⟨53, 9⟩], .ok, [⟨13, 11⟩, ⟨28, 10⟩, ⟨53, 9⟩], [],
        [.found [8], .absent, .found [5], .found [1]]⟩ := by decide +kernel

/-! ### The hypotheses of `C06_handover_window_invisible` are satisfiable -/

def handWin1 : List SOp := [.put exK2 [9], .get exK1]
def handWin2 : List SOp := [.put exK3 [5], .rm exK2, .flush [], .put exK4 [1]]

def handFactsB (s0 : SState) : Bool :=
  let s := (runS s0 handPre).1
  let s1 : SState := ⟨s.cfg, (toGC s.m s.d).1, (toGC s.m s.d).2⟩
  decide (GcCountersOK s0 handPre) && decide (GcCountersOK s1 handWin1) &&
  decide (gcCnt (runS s1 handWin1).1 < 268435456) &&
  (priFlush (runS s1 handWin1).1.m (runS s1 handWin1).1.d).any (fun p =>
    decide (GcCountersOK ⟨s.cfg, p.1, p.2⟩ handWin2) &&
    decide (gcCnt (runS ⟨s.cfg, p.1, p.2⟩ handWin2).1 < 268435456))

theorem handFacts : ∃ s0, initS exCfg04b = some s0 ∧ handFactsB s0 = true := ⟨_, rfl, by decide +kernel⟩

/-- every hypothesis of `C06_handover_window_invisible` holds for the history `handPre` and the windows
    `handWin1`, `handWin2` -/
theorem C06_handover_example_hypotheses :
    exCfg04b.Legal ∧ exCfg04b.kind = .mh ∧ KeysOK exCfg04b.kind (handPre ++ (handWin1 ++ handWin2)) ∧
    SizesOK (handPre ++ (handWin1 ++ handWin2)) ∧ (∀ op ∈ handWin1, isWin op = true) ∧
    (∀ op ∈ handWin2, isWin op = true) ∧
    ∃ s0, initS exCfg04b = some s0 ∧ GcCountersOK s0 handPre ∧
      GcCountersOK ⟨(runS s0 handPre).1.cfg, (toGC (runS s0 handPre).1.m (runS s0 handPre).1.d).1,
        (toGC (runS s0 handPre).1.m (runS s0 handPre).1.d).2⟩ handWin1 ∧
      gcCnt (runS ⟨(runS s0 handPre).1.cfg, (toGC (runS s0 handPre).1.m (runS s0 handPre).1.d).1,
        (toGC (runS s0 handPre).1.m (runS s0 handPre).1.d).2⟩ handWin1).1 < 268435456 ∧
      ∃ m2 d2,
        priFlush (runS ⟨(runS s0 handPre).1.cfg, (toGC (runS s0 handPre).1.m (runS s0 handPre).1.d).1,
            (toGC (runS s0 handPre).1.m (runS s0 handPre).1.d).2⟩ handWin1).1.m
          (runS ⟨(runS s0 handPre).1.cfg, (toGC (runS s0 handPre).1.m (runS s0 handPre).1.d).1,
            (toGC (runS s0 handPre).1.m (runS s0 handPre).1.d).2⟩ handWin1).1.d = some (m2, d2) ∧
        GcCountersOK ⟨(runS s0 handPre).1.cfg, m2, d2⟩ handWin2 ∧
        gcCnt (runS ⟨(runS s0 handPre).1.cfg, m2, d2⟩ handWin2).1 < 268435456 := by
  have hK : KeysOK exCfg04b.kind (handPre ++ (handWin1 ++ handWin2)) := by unfold KeysOK; decide
  have hS : SizesOK (handPre ++ (handWin1 ++ handWin2)) := by unfold SizesOK; decide
  obtain ⟨s0, hi, hf⟩ := handFacts
  refine ⟨by decide, rfl, hK, hS, by decide, by decide, s0, hi, ?_⟩
  simp only [handFactsB, Bool.and_eq_true, decide_eq_true_eq] at hf
  obtain ⟨⟨⟨f1, f2⟩, f3⟩, f4⟩ := hf
  refine ⟨f1, f2, f3, ?_⟩
  cases hp : priFlush (runS ⟨(runS s0 handPre).1.cfg, (toGC (runS s0 handPre).1.m (runS s0 handPre).1.d).1,
      (toGC (runS s0 handPre).1.m (runS s0 handPre).1.d).2⟩ handWin1).1.m
    (runS ⟨(runS s0 handPre).1.cfg, (toGC (runS s0 handPre).1.m (runS s0 handPre).1.d).1,
      (toGC (runS s0 handPre).1.m (runS s0 handPre).1.d).2⟩ handWin1).1.d with
  | none => rw [hp] at f4; cases f4
  | some p =>
    rw [hp] at f4
    simp only [Option.any, Bool.and_eq_true, decide_eq_true_eq] at f4
    exact ⟨p.1, p.2, rfl, f4.1, f4.2⟩

end Sth
