/-
C06 — Garbage collectors running concurrently with callers never disturb them: THE RELOCATION WINDOW of
primary GC.

The collector relocates a record of a low-use closed file in two steps with a window in between
(hook point `primary.gc.reloc.put`):
    copy      Primary.Put(key, value) — `relocCopy` (Sth/Model/GCSplit.lean)
    window    whole calls of other threads: Put / Get / Has / GetSize / Remove / Flush / iteration
    finish    Index.Relocate(key, old, new): re-point ONLY IF the index still names `old`; on refusal
              free the copy; free `old` — `relocFinish`
`C06_relocate_split` ties the split to `relocate`, the function the correspondence run compares with the
code; the cooperative scheduler's "window schedules" (collector alone except one window in which other
threads run whole calls) are instances of the sequentialised statement below.

`C06_relocation_window_invisible`.  For every state `s` reachable by ANY history of a multihash store
(Put / Get / Has / GetSize / Remove / Flush / iteration / Close+reopen / index GC / primary GC cycles,
complete or cut short; C04's premises KeysOK / SizesOK / GcCountersOK on the whole run including the
window calls), every record span of a closed primary file — CURRENT (named by an index entry) or not —
and every list `win` of window calls:
  (a) every call of `win` returns what the in-memory map returns;
  (b) after `relocFinish` the state satisfies the GC invariant `GInv` for the map AFTER `win`: a key
      overwritten or removed inside the window keeps its new value / stays absent — the old value is NOT
      resurrected (`C06_window_reads_after_finish`: every later read returns what the map after `win`
      returns) — and, by `FinOut`, exactly one of two things happened:
        moved    the index still named `old`: it now names the copy (`idxGet … = some l.loc`);
        refused  no index entry has even `old`'s offset any more (the key was overwritten or removed in
                 the window, or the span was superseded before the copy): no record list changes;
  (c) freelist accounting (`recordedG` = freelist file ++ hand-over file ++ pool, C13G/C13H):
        moved    `old` is appended, and the list still has no duplicates — `old` was an index entry's
                 block until the finish, hence recorded nowhere: EXACTLY ONCE; moreover the whole of
                 copy + window + finish relates to the state before the copy as one step of C13H's
                 exactly-once development does (`Rel`), so its invariant `XInv` (nothing recorded twice,
                 nothing consumed by a cycle ever recorded or current again) holds afterwards
                 (`C06_window_exactly_once_moved`);
        refused  the copy and `old` are appended; the copy was recorded nowhere: exactly once.  Nothing
                 is lost.  FOUND: `old` is then recorded a SECOND time — the window call that superseded
                 it (Put / Remove) has already recorded it (`C06_refused_path_records_old_twice`, by
                 evaluation).  Harmless for the data (the second application of the entry finds the
                 deleted bit set, locations are never reused) but "exactly once" does not hold on the
                 refused path; C13H notes the same and shows the path unreachable WITHOUT a window.
Which calls may run in the window: the proof covers Put / Get / Has / GetSize / Remove / Flush /
iteration (`isWin`).  An index GC cycle could be allowed at no cost (it touches neither the primary files
nor anything the argument tracks); Close+reopen too in principle (= a flush, after which the copy is a
record span and the pools are empty), but a reopen while a collector is inside a cycle is not a schedule
the code allows, so it is left out; a second PRIMARY GC cycle in the window is excluded by the code (one
collector) and would not be safe: the copy is named by no index entry and no freelist entry, nothing
protects or accounts for it.

R3 (`C06_window_unconditional_repoint_resurrects`, `C06_window_weak_compare_resurrects`): with the
re-pointing unconditional (`Index.Update`: D29 before its repair) or with the comparison weakened to
"refuse only when offset AND size differ", a Put inside the window is overwritten by the OLD value at the
finish — by evaluation, next to the correct finish on the same schedule.
-/
import Sth.Lemmas.C06W3
import Sth.Props.C13H

namespace Sth

open C11 C13H C13X C06W

/-- the split is `relocate`: finishing right after the copy, with nothing in between -/
theorem C06_relocate_split (m : Mem) (d : Disk) (fnum : Nat) (file : Bytes) (at_ busySize : Nat) :
    relocate m d fnum file at_ busySize =
      (relocCopy m fnum file at_ busySize).map (fun p => relocFinish p.1 d p.2) :=
  relocate_split m d fnum file at_ busySize

/-- C06, the relocation window (statement in the header).  `s` is the state the history `ops` reaches,
    `(at_, body)` a record span of the closed file `fnum` in the span log `psp` of its primary files,
    `(m1, l)` what the copy step returns, `win` the window calls; the last two hypotheses bound the file
    counters inside the window and when the collector comes back, as `GcCountersOK` does elsewhere. -/
theorem C06_relocation_window_invisible (c : Cfg) (hc : c.Legal) (hmh : c.kind = .mh)
    (ops win : List SOp) (hk : KeysOK c.kind (ops ++ win)) (hs : SizesOK (ops ++ win)) (s0 : SState)
    (hi : initS c = some s0) (hb : GcCountersOK s0 ops)
    (hcnt : gcCnt (runS s0 ops).1 + 1 < 268435456)
    {pf : Nat} {psp : Nat → List GSpan}
    (zh : (runS s0 ops).1.d.phdr = some ⟨(runS s0 ops).1.m.pmax, pf⟩)
    (zl : PriLog (runS s0 ops).1.m (runS s0 ops).1.d pf psp) {fnum at_ : Nat} {body : Bytes}
    (h1 : pf ≤ fnum) (h2 : fnum < (runS s0 ops).1.m.pfileNum) (hx : (at_, body) ∈ liveAt 0 (psp fnum))
    {m1 : Mem} {l : RelocLocal}
    (hcopy : relocCopy (runS s0 ops).1.m fnum (gbytes (psp fnum)) at_ body.length = some (m1, l))
    (hw : ∀ op ∈ win, isWin op = true)
    (hbw : GcCountersOK ⟨(runS s0 ops).1.cfg, m1, (runS s0 ops).1.d⟩ win)
    (hfin : gcCnt (runS ⟨(runS s0 ops).1.cfg, m1, (runS s0 ops).1.d⟩ win).1 < 268435456) :
    let s := (runS s0 ops).1
    let spec := (specRun c.kind c.imm [] ops).1
    let s1 : SState := ⟨s.cfg, m1, s.d⟩
    let s2 := (runS s1 win).1
    let s3 : SState := { s2 with m := relocFinish s2.m s2.d l }
    -- (a)
    (runS s1 win).2 = (specRun c.kind c.imm spec win).2 ∧
    -- (b), (c)
    ∃ n', GInv c (digestsOf c.kind (ops ++ win)) s3 (specRun c.kind c.imm spec win).1 n'
        (0 + (ops.map SOp.bytes).sum + (win.map SOp.bytes).sum) ∧
      FinOut s2 l ∧ (IsEnt s2.m s2.d l.old → Rel s.cfg s.m s.d s3.m s3.d) := by
  have hU := univ_of_keysOK hk (keysExact_all c.kind (ops ++ win))
  have hsum : ((ops ++ win).map SOp.bytes).sum = (ops.map SOp.bytes).sum + (win.map SOp.bytes).sum := by
    simp
  have hB := hs.2.1
  rw [hsum] at hB
  have hkeys : ∀ op ∈ ops, ∀ k, op.keyOf = some k → ∀ dig, keyClass c.kind k = .ok dig →
      (k, dig) ∈ digestsOf c.kind (ops ++ win) :=
    fun op ho k hkey dig hcls => mem_digestsOf (List.mem_append_left _ ho) hkey hcls
  have hkeysw : ∀ op ∈ win, ∀ k, op.keyOf = some k → ∀ dig, keyClass c.kind k = .ok dig →
      (k, dig) ∈ digestsOf c.kind (ops ++ win) :=
    fun op ho k hkey dig hcls => mem_digestsOf (List.mem_append_right _ ho) hkey hcls
  obtain ⟨_, n0, hG⟩ := run_g hc hU ops s0 [] 0 0 (ginv_init hc hmh hi) hkeys hb (by omega)
  have hX := run_x hc hU ops s0 [] 0 0 [] (ginv_init hc hmh hi) (covS_init c hc hmh hi)
    (C13X.xinv_init c hc hmh hi) hkeys hb (by omega)
  rw [runX_state] at hX
  obtain ⟨a1, n', a2, a3, a4⟩ := window_g hc hU hG.tight hX.nodup hcnt zh zl h1 h2 hx hcopy win hw
    hkeysw hbw (by omega) hfin
  exact ⟨a1, n', a2, a3, a4⟩

/-- (b) spelled out: after the finish every read returns what the map AFTER the window calls returns —
    nothing the window wrote is lost, nothing it removed is resurrected -/
theorem C06_window_reads_after_finish {c : Cfg} {U : List (Bytes × Bytes)} {s3 : SState} {spec2 : Spec}
    {n B : Nat} (hU : Univ c.kind U) (hG : GInv c U s3 spec2 n B) (op : SOp)
    (hop : (∃ k, op = .get k) ∨ (∃ k, op = .has k) ∨ (∃ k, op = .size k))
    (hkey : ∀ k, op.keyOf = some k → ∀ dig, keyClass c.kind k = .ok dig → (k, dig) ∈ U) :
    (stepS s3 op).2 = (specStep c.kind c.imm spec2 op).2 := by
  rw [(step_read_g hU hG op hop hkey).1]

/-- (c) on the moved path: C13H's exactly-once invariant, with the ghost list of consumed blocks, holds
    after copy + window + finish whenever it held before the copy -/
theorem C06_window_exactly_once_moved {c : Cfg} {U : List (Bytes × Bytes)} {s s3 : SState} {spec : Spec}
    {n B : Nat} {cons : List Block} (hG : GInv c U s spec n B) (hX : C13X.XInv s cons)
    (hcfg : s3.cfg = s.cfg) (hR : Rel s.cfg s.m s.d s3.m s3.d) :
    C13X.XInv s3 (cons ++ consumedBy s s3) :=
  hX.step hG hcfg hR

/-! ### by evaluation: one schedule, four finishes

`exCfg04b` (40-byte primary files).  After `winPre` file 0 is closed and holds the records of exK1
(`[7]`, at offset 0), exK2 (superseded) and exK3; the collector relocates the record at offset 0. -/

def winPre : List SOp :=
  [.put exK1 [7], .put exK2 [1, 2, 3], .put exK3 [4], .flush [], .put exK2 [3, 3, 3, 3], .flush []]

/-- copy at (file 0, offset 0, size 9), window calls `win`, finish `fin`, then the calls `after`:
    (outputs of the window calls, outputs of the calls after the finish, the freelist pool) -/
def winSchedule (fin : Mem → Disk → RelocLocal → Mem) (win after : List SOp) :
    Option (List SOut × List SOut × List Block) :=
  match initS exCfg04b with
  | none => none
  | some s0 =>
    let s := (runS s0 winPre).1
    match relocCopy s.m 0 ((s.d.pfiles.get? 0).getD []) 0 9 with
    | none => none
    | some (m1, l) =>
      let r := runS ⟨s.cfg, m1, s.d⟩ win
      let s3 : SState := { r.1 with m := fin r.1.m r.1.d l }
      some (r.2, (runS s3 after).2, s3.m.flpool)

/-- the correct finish, a Put of the relocated key in the window: the Put's value survives the finish
    (refused path: the copy at 56 and the old location 0 go to the freelist) -/
theorem C06_window_put_survives :
    winSchedule relocFinish [.put exK1 [8]] [.get exK1, .flush [], .get exK1] =
      some ([.ok], [.found [8], .ok, .found [8]], [⟨0, 9⟩, ⟨56, 9⟩, ⟨0, 9⟩]) := by decide +kernel

/-- the correct finish, a Remove in the window: the key stays absent -/
theorem C06_window_remove_stays_removed :
    winSchedule relocFinish [.rm exK1] [.get exK1, .has exK1, .flush [], .get exK1] =
      some ([.bool true], [.absent, .bool false, .ok, .absent], [⟨0, 9⟩, ⟨56, 9⟩, ⟨0, 9⟩]) := by
  decide +kernel

/-- the correct finish, window calls that do not touch the key (a read, a Put of another key, a Flush):
    the index is moved to the copy, the key still reads `[7]`, the old location is recorded once -/
theorem C06_window_untouched_key_moved :
    winSchedule relocFinish [.get exK2, .put exK4 [5], .flush [], .has exK1]
        [.get exK1, .flush [], .get exK1, .get exK4] =
      some ([.found [3, 3, 3, 3], .ok, .ok, .bool true], [.found [7], .ok, .found [7], .found [5]],
        [⟨0, 9⟩]) := by decide +kernel

/-- R3, DEFECT 1 — unconditional re-pointing (`Index.Update`; D29 before its repair): the Put in the
    window is overwritten by the OLD value at the finish -/
theorem C06_window_unconditional_repoint_resurrects :
    winSchedule relocFinishUncond [.put exK1 [8]] [.get exK1, .flush [], .get exK1] =
      some ([.ok], [.found [7], .ok, .found [7]], [⟨0, 9⟩, ⟨0, 9⟩]) := by decide +kernel

/-- R3, DEFECT 2 — weakened comparison (refuse only when offset AND size differ): a Put of a SAME-LENGTH
    value in the window is overwritten by the old value … -/
theorem C06_window_weak_compare_resurrects :
    winSchedule relocFinishWeak [.put exK1 [8]] [.get exK1, .flush [], .get exK1] =
      some ([.ok], [.found [7], .ok, .found [7]], [⟨0, 9⟩, ⟨0, 9⟩]) := by decide +kernel

/-- … while a Put of a value of another length still survives it (which is why the seeded change is
    only caught by a window schedule with a same-length overwrite) -/
theorem C06_window_weak_compare_other_length :
    winSchedule relocFinishWeak [.put exK1 [8, 8]] [.get exK1, .flush [], .get exK1] =
      some ([.ok], [.found [8, 8], .ok, .found [8, 8]], [⟨0, 9⟩, ⟨56, 9⟩, ⟨0, 9⟩]) := by decide +kernel

/-- FOUND, (c) on the refused path: the old location `⟨0, 9⟩` is in the freelist pool TWICE after the
    finish — once from the window's Put, once from the finish (see the header) -/
theorem C06_refused_path_records_old_twice :
    (winSchedule relocFinish [.put exK1 [8]] []).map (fun r => r.2.2.count ⟨0, 9⟩) = some 2 := by
  decide +kernel

/-! ### The hypotheses of `C06_relocation_window_invisible` are satisfiable

A reachable mh store (history `winPre`), the first record of closed file 0 (a current entry), and a window of
five calls: every hypothesis of the theorem holds. -/

def winCalls : List SOp := [.put exK1 [8], .get exK1, .flush [], .rm exK3, .put exK4 [5]]
def winFile0 : Bytes := [9, 0, 0, 0, 18, 6, 1, 2, 3, 4, 5, 6, 7, 11, 0, 0, 0, 18, 6, 1, 2, 3, 4, 5, 7, 1, 2, 3, 10, 0, 0, 0, 18, 7, 2, 2, 9, 9, 9, 9, 1, 4]

def winFactsB (s0 : SState) : Bool :=
  let s := (runS s0 winPre).1
  decide (GcCountersOK s0 winPre) && decide (gcCnt s + 1 < 268435456) && s.m.pnext.isEmpty &&
  decide (s.m.pmax = 40) && decide (s.m.pfileNum = 1) && decide (s.d.pfiles.get? 0 = some winFile0) &&
  (match idxRecords s.m s.d 1 with
    | .ok (some rl) => decide (rl = [⟨[2, 3, 4, 5, 6], ⟨0, 9⟩⟩, ⟨[2, 3, 4, 5, 7], ⟨40, 12⟩⟩])
    | _ => false) &&
  (relocCopy s.m 0 winFile0 0 9).any (fun p =>
    decide (GcCountersOK ⟨s.cfg, p.1, s.d⟩ winCalls) &&
    decide (gcCnt (runS ⟨s.cfg, p.1, s.d⟩ winCalls).1 < 268435456))

theorem winFacts : ∃ s0, initS exCfg04b = some s0 ∧ winFactsB s0 = true := ⟨_, rfl, by decide +kernel⟩

/-- every hypothesis of `C06_relocation_window_invisible` holds for the history `winPre`, the record at
offset 0 of file 0 and the window `winCalls` -/
theorem C06_window_example_hypotheses :
    exCfg04b.Legal ∧ exCfg04b.kind = .mh ∧ KeysOK exCfg04b.kind (winPre ++ winCalls) ∧
    SizesOK (winPre ++ winCalls) ∧ (∀ op ∈ winCalls, isWin op = true) ∧
    ∃ s0, initS exCfg04b = some s0 ∧ GcCountersOK s0 winPre ∧
      gcCnt (runS s0 winPre).1 + 1 < 268435456 ∧
      ∃ pf psp body m1 l,
        (runS s0 winPre).1.d.phdr = some ⟨(runS s0 winPre).1.m.pmax, pf⟩ ∧
        PriLog (runS s0 winPre).1.m (runS s0 winPre).1.d pf psp ∧ pf ≤ 0 ∧
        0 < (runS s0 winPre).1.m.pfileNum ∧ (0, body) ∈ liveAt 0 (psp 0) ∧
        relocCopy (runS s0 winPre).1.m 0 (gbytes (psp 0)) 0 body.length = some (m1, l) ∧
        GcCountersOK ⟨(runS s0 winPre).1.cfg, m1, (runS s0 winPre).1.d⟩ winCalls ∧
        gcCnt (runS ⟨(runS s0 winPre).1.cfg, m1, (runS s0 winPre).1.d⟩ winCalls).1 < 268435456 := by
  have hK : KeysOK exCfg04b.kind (winPre ++ winCalls) := by unfold KeysOK; decide
  have hS : SizesOK (winPre ++ winCalls) := by unfold SizesOK; decide
  have hK0 : KeysOK exCfg04b.kind winPre := by unfold KeysOK; decide
  have hS0 : SizesOK winPre := by unfold SizesOK; decide
  obtain ⟨s0, hi, hf⟩ := winFacts
  refine ⟨by decide, rfl, hK, hS, by decide, s0, hi, ?_⟩
  simp only [winFactsB, Bool.and_eq_true, decide_eq_true_eq, List.isEmpty_iff] at hf
  obtain ⟨⟨⟨⟨⟨⟨⟨f1, f2⟩, f3⟩, f4⟩, f5⟩, f6⟩, f7⟩, f8⟩ := hf
  refine ⟨f1, f2, ?_⟩
  obtain ⟨_, n', hG⟩ := store_refines_map_gc_mh exCfg04b (by decide) rfl winPre hK0 hS0 s0 hi f1
  obtain ⟨pf, psp, zh, zl, ze, zf⟩ := hG.z
  have hrec : idxRecords (runS s0 winPre).1.m (runS s0 winPre).1.d 1 =
      .ok (some [⟨[2, 3, 4, 5, 6], ⟨0, 9⟩⟩, ⟨[2, 3, 4, 5, 7], ⟨40, 12⟩⟩]) := by
    split at f7
    · rename_i rl heq
      rw [heq, of_decide_eq_true f7]
    · cases f7
  obtain ⟨key, val, g1, g2⟩ := ze ⟨0, 9⟩ ⟨1, _, ⟨[2, 3, 4, 5, 6], ⟨0, 9⟩⟩, hrec, List.mem_cons_self, rfl⟩
  have hod : OnDisk (runS s0 winPre).1.m pf psp ⟨0, 9⟩ (key ++ val) := by
    rcases g2 with ⟨r, hr, _⟩ | h
    · rw [f3] at hr; cases hr
    · exact h
  obtain ⟨f, lp, y1, y2, y3, y4, y5⟩ := hod
  have hlp : lp < (runS s0 winPre).1.m.pmax := zl.starts f y2 y3 _ y4
  rw [f4] at hlp y1
  simp only at y1
  have hf0 : f = 0 := by omega
  have hl0 : lp = 0 := by omega
  subst hf0 hl0
  have hfile : gbytes (psp 0) = winFile0 := by
    have := zl.files 0 y2 y3
    rw [f6] at this
    exact (Option.some.inj this).symm
  have hlen : (key ++ val).length = 9 := y5.symm
  cases hp : relocCopy (runS s0 winPre).1.m 0 winFile0 0 9 with
  | none => rw [hp] at f8; cases f8
  | some p =>
    rw [hp] at f8
    simp only [Option.any, Bool.and_eq_true, decide_eq_true_eq] at f8
    exact ⟨pf, psp, key ++ val, p.1, p.2, zh, zl, y2, by rw [f5]; decide, y4, by rw [hfile, hlen]; exact hp, f8.1, f8.2⟩

end Sth
