/-
C06F — the index collector never frees a record that is, or is about to become, the record its bucket points to,
under EVERY interleaving of index Flush, the mutators and the collector (concurrent, section-level model).

Model: Sth/Model/IgcConc.lean — mutators (`mut b`: one exclusive bucketLk section writing nextPool[b]), flushers
(`Index.Flush`: S1 swap under bucketLk, S2 `flushBucket` per bucket with flushLock only — ONE STEP PER BUCKET, any
write order, any roll-over pattern —, S3 publication under bucketLk; flushLock held throughout) and collectors
(`Index.gc`: G0 reads `fileNum` under flushLock; per record of the files below it G1 `busy` verdict, G2 mark; any
resume file, any cut by the time limit; `truncateFreeFiles`: F0 like G0, F1 the bucket table read bucket by bucket,
F2, F3 truncate each file no bucket was seen pointing into).  `step s i` runs the next section of thread `i`; a
section that needs `flushLock` while another thread holds it is not enabled; `run s sched` folds a schedule (thread
numbers, disabled steps skipped).  Any number of threads, any programs, any schedule.

STATUS.  All statements proved in full for every list of programs and every schedule, by an invariant
(Sth/Lemmas/C06F1.lean `Inv`) preserved by every section (C06F3 `step_inv`).  No premise on the programs is needed: in
particular the theorems hold for SEVERAL collector threads, not only one (each works with its own `lastFileNum`).
The key facts (`C06_igc_flush_collector_below_flush`, `C06_igc_flush_free_verdict_stable`): what a Flush has written
and not yet published lies in files at or above the `lastFileNum` of every cycle in progress — because G0 holds
flushLock, no Flush is between S1 and S3 at G0, and whatever is written later goes to files ≥ the `fileNum` read —
so every record a cycle looks at was written by a COMPLETED Flush, and the verdict "free" for it is stable: S3 only
ever re-points a bucket to a position its Flush has just written.
Negative witness, evaluated by `decide`: with G0 reading `fileNum` WITHOUT flushLock (`stepNoLock`, the change an
independent reviewer seeded: "reads the current-file number under bucketLk instead of flushLock") a record written by
a Flush in progress is marked and then published (`C06_igc_needs_flushlock`); the same mistake in
`truncateFreeFiles` truncates the file holding such a record (`C06_igc_free_scan_needs_flushlock`).
The list of records a cycle takes at G0 is what `reapIndexRecords` reads later: the files below `lastFileNum` are
closed, nothing is appended there by anyone (`C06_igc_flush_closed_files_fixed`).
`C06_igc_flush_replay_never_frees_published` is statement 1 for `IgcConc.replay` (recorded events, no programs).

SCOPE.  (a) Lookups are covered per SECTION (`C06_igc_flush_lookup_total`: the position `readBucketInfo` returns names
a live record at the time of the section).  `Index.Get` reads the file in a LATER section (after
`index.get.info_read`, outside bucketLk): a position held across sections can be superseded, and its record reaped,
in between — that is the known finding D18a, not contradicted here.  (b) Marking / truncating a whole file is the
destructive act; merging of marked spans, truncation of a marked tail and unlinking the first file only touch records
that are marked (C04).  (c) `fileNum` does not wrap (uint32 in the code).
-/
import Sth.Lemmas.C06F5

namespace Sth
open IgcConc

/-! ### (1) no record the table points at, or a Flush is about to publish, is ever marked -/

/-- C06F (1).  In every state of every schedule of every list of programs: no record of the index log that `buckets`
    points at is marked deleted, and no record written by a Flush in progress (S2 running or done, S3 not yet run:
    `inFlight` = the `blks` of the Flush) is marked deleted. -/
theorem C06_igc_flush_never_frees_published (progs : List (List Op)) (sched : List Nat) :
    let s := run (init progs) sched
    (∀ r ∈ s.log, s.buckets.lookup r.bucket = some r.pos → r.deleted = false) ∧
    (∀ r ∈ s.log, (r.bucket, r.pos) ∈ inFlight s → r.deleted = false) :=
  (run_inv (init_inv progs) sched).safe

/-- C06F (1'), the positions are not dangling either: every position the table holds, and every position a Flush in
    progress is about to publish, names exactly one record of the log; it is a record of that bucket and it is not
    marked deleted. -/
theorem C06_igc_flush_positions_live (progs : List (List Op)) (sched : List Nat) :
    let s := run (init progs) sched
    (∀ b p, s.buckets.lookup b = some p →
      ∃ r ∈ s.log, r.bucket = b ∧ r.pos = p ∧ r.deleted = false ∧ ∀ r' ∈ s.log, r'.pos = p → r' = r) ∧
    (∀ bp ∈ inFlight s,
      ∃ r ∈ s.log, r.bucket = bp.1 ∧ r.pos = bp.2 ∧ r.deleted = false ∧ ∀ r' ∈ s.log, r'.pos = bp.2 → r' = r) :=
  ⟨fun _ _ hb => (run_inv (init_inv progs) sched).published hb,
   fun _ hbp => (run_inv (init_inv progs) sched).inflight hbp⟩

/-- C06F (1''), the key invariant.  Whatever a Flush has written and not yet published lies in a file at or above the
    `lastFileNum` of every collector cycle (and free-file scan) in progress; `lastFileNum ≤ fileNum`; and a cycle
    only has records of files below its `lastFileNum` on its list. -/
theorem C06_igc_flush_collector_below_flush (progs : List (List Op)) (sched : List Nat) (i : Nat) (t : Thread)
    (l : Nat) (hi : (run (init progs) sched).threads[i]? = some t) (hl : t.pc.bound = some l) :
    let s := run (init progs) sched
    l ≤ s.fileNum ∧ (∀ bp ∈ inFlight s, l ≤ bp.2.1) ∧
    (∀ x todo, t.pc = .gcScan l todo ∨ (∃ y, t.pc = .gcMark l y todo) → x ∈ todo → x.file < l) := by
  intro s
  have hinv := run_inv (init_inv progs) sched
  have hthr := hinv.thr i t hi
  refine ⟨hthr.bound_le hl, ?_, ?_⟩
  · intro bp hbp
    obtain ⟨j, u, hj, hd⟩ := mem_inFlight hbp
    exact hinv.cross i j t u l hi hj hl bp hd
  · intro x todo hp hx
    rcases hp with hp | ⟨y, hp⟩
    · rw [hp] at hthr; exact hthr.2 x hx
    · rw [hp] at hthr; exact hthr.2.1 x hx
/-- C06F (1'''), the verdict "free" is stable.  Between the verdict (G1) and the mark (G2) of a record `x` — whatever
    ran in between — the table does not point at `x` and no Flush in progress is about to make it point at `x`. -/
theorem C06_igc_flush_free_verdict_stable (progs : List (List Op)) (sched : List Nat) (i : Nat) (t : Thread)
    (l : Nat) (x : Rec) (todo : List Rec) (hi : (run (init progs) sched).threads[i]? = some t)
    (hp : t.pc = .gcMark l x todo) :
    let s := run (init progs) sched
    s.buckets.lookup x.bucket ≠ some x.pos ∧ (x.bucket, x.pos) ∉ inFlight s ∧ x.file < l ∧ l ≤ s.fileNum := by
  intro s
  have hinv := run_inv (init_inv progs) sched
  have hthr := hinv.thr i t hi
  rw [hp] at hthr
  refine ⟨hthr.2.2.2, ?_, hthr.2.2.1, hthr.1⟩
  intro hfl
  obtain ⟨j, u, hj, hd⟩ := mem_inFlight hfl
  have := hinv.cross i j t u l hi hj (by rw [hp]; rfl) _ hd
  have := hthr.2.2.1
  simp [Rec.pos] at *
  omega

/-- the same for the free-file scan: a file about to be truncated is below `lastFileNum`, no bucket points into it and
    no Flush in progress has written into it -/
theorem C06_igc_flush_free_file_stable (progs : List (List Op)) (sched : List Nat) (i : Nat) (t : Thread)
    (l : Nat) (files : List Nat) (hi : (run (init progs) sched).threads[i]? = some t)
    (hp : t.pc = .freeTrunc l files) :
    let s := run (init progs) sched
    ∀ f ∈ files, f < l ∧ (∀ b p, s.buckets.lookup b = some p → p.1 ≠ f) ∧ ∀ bp ∈ inFlight s, bp.2.1 ≠ f := by
  intro s f hf
  have hinv := run_inv (init_inv progs) sched
  have hthr := hinv.thr i t hi
  rw [hp] at hthr
  refine ⟨(hthr.2 f hf).1, (hthr.2 f hf).2, ?_⟩
  intro bp hbp
  obtain ⟨j, u, hj, hd⟩ := mem_inFlight hbp
  have := hinv.cross i j t u l hi hj (by rw [hp]; rfl) _ hd
  have := (hthr.2 f hf).1
  omega

/-- C06F (1⁗), why the list of records taken at G0 is what `reapIndexRecords` reads later, file by file: the files
    below the `lastFileNum` of a cycle in progress are CLOSED — whatever runs afterwards (`more`), their records stay
    the same, deleted flags aside; nothing is ever appended there (so the truncation of a marked tail of such a file
    cannot cut a record a Flush is appending).  `closedKeys log l` = the (file, bucket, id) of the records of the
    files below `l`, in order. -/
theorem C06_igc_flush_closed_files_fixed (progs : List (List Op)) (sched more : List Nat) (i : Nat) (t : Thread)
    (l : Nat) (hi : (run (init progs) sched).threads[i]? = some t) (hl : t.pc.bound = some l) :
    closedKeys (run (run (init progs) sched) more).log l = closedKeys (run (init progs) sched).log l :=
  (run_closed more (((run_inv (init_inv progs) sched).thr i t hi).bound_le hl)).1

/-- a cycle that is not cut short looks at every record of every file below `lastFileNum`, each once, whatever file
    it resumes at -/
theorem C06_igc_flush_full_cycle_covers (log : List Rec) (last resumeAt limit : Nat) (h : log.length ≤ limit) :
    (workList log last resumeAt limit).Perm (log.filter fun r => decide (r.file < last)) :=
  workList_full log last resumeAt limit h

/-- `flushLock` is exclusive: at most one thread is inside a Flush (has swapped the pool and not yet published) -/
theorem C06_igc_flush_lock_exclusive (progs : List (List Op)) (sched : List Nat) (i j : Nat) (ti tj : Thread)
    (hi : (run (init progs) sched).threads[i]? = some ti) (hj : (run (init progs) sched).threads[j]? = some tj)
    (hhi : ti.pc.holds = true) (hhj : tj.pc.holds = true) :
    i = j ∧ (run (init progs) sched).flushLock = some i := by
  have hinv := run_inv (init_inv progs) sched
  have h1 := (hinv.lock i ti hi).1 hhi
  have h2 := (hinv.lock j tj hj).1 hhj
  rw [h1] at h2
  exact ⟨by simpa using h2, h1⟩

/-! ### (2) lookups -/

/-- C06F (2).  At every state, for every bucket: when the record list a lookup would use comes from the log (the bucket
    is neither in nextPool nor in curPool, `readBucketInfo` returns the position in `buckets`), that position names
    exactly one record of the log, of that bucket, not marked deleted.  (The conclusion does not depend on the pools:
    it holds for the position in `buckets` whenever there is one, see (1').) -/
theorem C06_igc_flush_lookup_total (progs : List (List Op)) (sched : List Nat) (b : Bucket) (p : Pos) :
    let s := run (init progs) sched
    lookupSrc s b = .log p →
      ∃ r ∈ s.log, r.bucket = b ∧ r.pos = p ∧ r.deleted = false ∧ ∀ r' ∈ s.log, r'.pos = p → r' = r := by
  intro s hsrc
  have hb : s.buckets.lookup b = some p := by
    unfold lookupSrc at hsrc
    split at hsrc
    · cases hsrc
    · split at hsrc
      · cases hsrc
      · split at hsrc
        · rename_i q hq; cases hsrc; exact hq
        · cases hsrc
  exact (run_inv (init_inv progs) sched).published hb

/-! ### (3) negative witness: why G0 takes `flushLock` -/

/-- a mutator of buckets 0 and 1, a flusher (the second Flush rolls over before its second bucket), the collector -/
def c06fNoLockProgs : List (List Op) :=
  [[.mut 0, .mut 0, .mut 1], [.flush [] [], .flush [] [false, true]], [.gc 0 100]]

/-- bucket 0 is flushed and published at (0,0).  Buckets 0 and 1 are dirtied; the second Flush swaps (S1), writes
    bucket 0 at (0,1), rolls over, writes bucket 1 at (1,2) — fileNum is 1 — and pauses before S3.  The collector's G0
    reads lastFileNum = 1 and gets file 0 to look at; (0,0) is in use; for (0,1) `buckets[0]` still says (0,0):
    verdict FREE; mark.  The Flush publishes: `buckets[0]` = (0,1), a deleted record. -/
def c06fNoLockSched : List Nat := [0, 1, 1, 1, 0, 0, 1, 1, 1, 2, 2, 2, 2, 1, 2]

/-- the state the collector's G0 runs in: the Flush has written and not published; without the lock G0 is enabled and
    reads 1, with the lock it is not enabled -/
example :
    let s := runNoLock (init c06fNoLockProgs) (c06fNoLockSched.take 9)
    s.fileNum = 1 ∧ s.flushLock = some 1 ∧ inFlight s = [(0, (0, 1)), (1, (1, 2))] ∧
    s.buckets.lookup 0 = some (0, 0) ∧ step s 2 = none ∧
    (stepNoLock s 2).map (fun s' => s'.threads[2]?.map (·.pc)) =
      some (some (.gcScan 1 [⟨0, 0, 0, false⟩, ⟨0, 0, 1, false⟩])) := by decide

/-- C06F (3).  With G0 reading `idx.fileNum` without `flushLock` (`runNoLock`) statement (1) fails: in the final state
    — all programs finished — `buckets[0]` points at the record (file 0, bucket 0, id 1) and that record is marked
    deleted.  On the same schedule the real protocol (`run`) keeps the collector out until the Flush has published,
    and nothing the table points at is marked. -/
theorem C06_igc_needs_flushlock :
    let s := runNoLock (init c06fNoLockProgs) c06fNoLockSched
    Quiescent s ∧ s.buckets.lookup 0 = some (0, 1) ∧ (⟨0, 0, 1, true⟩ : Rec) ∈ s.log ∧
    (∃ r ∈ s.log, s.buckets.lookup r.bucket = some r.pos ∧ r.deleted = true) ∧
    ¬ (∀ r ∈ s.log, s.buckets.lookup r.bucket = some r.pos → r.deleted = false) ∧
    (let s' := run (init c06fNoLockProgs) c06fNoLockSched
     (∀ r ∈ s'.log, s'.buckets.lookup r.bucket = some r.pos → r.deleted = false) ∧
     s'.buckets.lookup 0 = some (0, 1) ∧ (⟨0, 0, 1, false⟩ : Rec) ∈ s'.log) := by decide

/-- the same violation one step earlier, on the second conjunct of (1): the record is marked while the Flush that
    wrote it has not yet published it -/
example :
    let s := runNoLock (init c06fNoLockProgs) (c06fNoLockSched.take 13)
    (0, (0, 1)) ∈ inFlight s ∧ (⟨0, 0, 1, true⟩ : Rec) ∈ s.log ∧
    ¬ (∀ r ∈ s.log, (r.bucket, r.pos) ∈ inFlight s → r.deleted = false) := by decide

/-- the sibling mistake, in `truncateFreeFiles`: the second Flush rolls over before EACH of its two buckets -/
def c06fNoLockFreeProgs : List (List Op) :=
  [[.mut 0, .mut 0, .mut 1], [.flush [] [], .flush [] [true, true]], [.gcFree]]

/-- bucket 0 is flushed and published at (0,0).  The second Flush swaps, rolls over and writes bucket 0 at (1,1), rolls
    over and writes bucket 1 at (2,2) — fileNum is 2 — and pauses before S3.  The scan's F0 reads lastFileNum = 2,
    reads the table: bucket 0 points into file 0; no bucket points into file 1: file 1 is truncated.  The Flush
    publishes: `buckets[0]` = (1,1), in the truncated file. -/
def c06fNoLockFreeSched : List Nat := [0, 1, 1, 1, 0, 0, 1, 1, 1, 2, 2, 2, 2, 1, 2]

/-- C06F (3').  With F0 (`truncateFreeFiles`) reading `idx.fileNum` without `flushLock` (`runNoLockFree`) statement
    (1) fails the same way; with the lock the scan is kept out until the Flush has published. -/
theorem C06_igc_free_scan_needs_flushlock :
    let s := runNoLockFree (init c06fNoLockFreeProgs) c06fNoLockFreeSched
    Quiescent s ∧ s.buckets.lookup 0 = some (1, 1) ∧ (⟨1, 0, 1, true⟩ : Rec) ∈ s.log ∧
    ¬ (∀ r ∈ s.log, s.buckets.lookup r.bucket = some r.pos → r.deleted = false) ∧
    (let s' := run (init c06fNoLockFreeProgs) c06fNoLockFreeSched
     (∀ r ∈ s'.log, s'.buckets.lookup r.bucket = some r.pos → r.deleted = false) ∧
     s'.buckets.lookup 0 = some (1, 1) ∧ (⟨1, 0, 1, false⟩ : Rec) ∈ s'.log) := by decide

/-! ### (4) non-vacuity: a concrete interleaving -/

/-- two mutators, a flusher whose second Flush rolls over before its second bucket, the collector running two cycles
    and a free-file scan -/
def c06fProgs : List (List Op) :=
  [[.mut 0, .mut 0], [.mut 1, .mut 1], [.flush [] [], .flush [] [false, true]], [.gc 0 100, .gc 0 100, .gcFree]]

/-- both buckets dirtied, flushed and published in file 0; first cycle of the collector (lastFileNum 0: nothing to
    look at); both buckets dirtied again; the second Flush swaps; the collector's G0 is not enabled while that Flush
    runs (entries 11, 13, 15 are skipped); the Flush writes bucket 0 at (0,2), rolls over, writes bucket 1 at (1,3),
    publishes; the second cycle reads lastFileNum 1, finds the superseded records (0,0) and (0,1) free and marks them,
    finds (0,2) in use; the free-file scan finds file 0 pointed into -/
def c06fSched : List Nat :=
  [0, 1, 2, 2, 2, 2, 3, 3, 0, 1, 2, 3, 2, 3, 2, 3, 2, 3, 3, 3, 3, 3, 3, 3, 3, 3, 3, 3, 3, 3]

/-- after 11 steps: the second Flush holds the lock; the collector's second G0 is not enabled -/
example :
    let s := run (init c06fProgs) (c06fSched.take 11)
    s.flushLock = some 2 ∧ s.curPool = [0, 1] ∧ step s 3 = none ∧
    (s.threads[3]?.map (·.prog)) = some [.gc 0 100, .gcFree] := by decide

/-- after 16 steps: written, not yet published: the new records are in flight, the table still names the old ones -/
example :
    let s := run (init c06fProgs) (c06fSched.take 16)
    inFlight s = [(0, (0, 2)), (1, (1, 3))] ∧ s.fileNum = 1 ∧ s.buckets.lookup 0 = some (0, 0) ∧
    s.buckets.lookup 1 = some (0, 1) ∧ step s 3 = none := by decide

/-- after 19 steps: the second cycle stands between the verdict "free" for (file 0, bucket 0, id 0) and the mark -/
example :
    let s := run (init c06fProgs) (c06fSched.take 19)
    (s.threads[3]?.map (·.pc)) = some (.gcMark 1 ⟨0, 0, 0, false⟩ [⟨0, 1, 1, false⟩, ⟨0, 0, 2, false⟩]) := by
  decide

/-- C06F (4).  The whole schedule: every program finished; the two superseded records ARE marked deleted, the three
    current ones are not; statement (1) holds. -/
theorem C06_igc_flush_example :
    let s := run (init c06fProgs) c06fSched
    Quiescent s ∧
    s.log = [⟨0, 0, 0, true⟩, ⟨0, 1, 1, true⟩, ⟨0, 0, 2, false⟩, ⟨1, 1, 3, false⟩] ∧
    s.buckets.lookup 0 = some (0, 2) ∧ s.buckets.lookup 1 = some (1, 3) ∧ s.fileNum = 1 ∧
    s.flushLock = none ∧ inFlight s = [] ∧ lookupSrc s 0 = .cur ∧
    (∃ r ∈ s.log, r.deleted = true) ∧
    (∀ r ∈ s.log, s.buckets.lookup r.bucket = some r.pos → r.deleted = false) ∧
    (∀ r ∈ s.log, (r.bucket, r.pos) ∈ inFlight s → r.deleted = false) := by decide

/-- the free-file scan at work: bucket 0 flushed into file 0, then again after a roll-over into file 1; the scan reads
    lastFileNum 1, sees bucket 0 pointing into file 1, and truncates file 0 -/
def c06fFreeProgs : List (List Op) := [[.mut 0, .mut 0], [.flush [] [], .flush [] [true]], [.gcFree]]
def c06fFreeSched : List Nat := [0, 1, 1, 1, 0, 1, 1, 1, 2, 2, 2, 2, 2]

theorem C06_igc_flush_example_free_files :
    let s := run (init c06fFreeProgs) c06fFreeSched
    Quiescent s ∧ s.log = [⟨0, 0, 0, true⟩, ⟨1, 0, 1, false⟩] ∧ s.buckets.lookup 0 = some (1, 1) ∧
    (∀ r ∈ s.log, s.buckets.lookup r.bucket = some r.pos → r.deleted = false) := by decide

/-! ### (5) replay of recorded events -/

/-- C06F (5), event level.  For every list of events on which the replay succeeds from the empty index: statement (1),
    and (1'). -/
theorem C06_igc_flush_replayFrom_never_frees_published (evs : List (Nat × Ev)) (s : State)
    (hs : replayFrom replayInit evs = some s) :
    (∀ r ∈ s.log, s.buckets.lookup r.bucket = some r.pos → r.deleted = false) ∧
    (∀ r ∈ s.log, (r.bucket, r.pos) ∈ inFlight s → r.deleted = false) ∧
    (∀ b p, s.buckets.lookup b = some p →
      ∃ r ∈ s.log, r.bucket = b ∧ r.pos = p ∧ r.deleted = false ∧ ∀ r' ∈ s.log, r'.pos = p → r' = r) := by
  have hinv := replayFrom_inv evs replayInit_inv hs
  exact ⟨hinv.safe.1, hinv.safe.2, fun _ _ hb => hinv.published hb⟩

/-- C06F (5).  The same for the textual events `IgcConc.replay` takes (thread, "mut:<bucket>" | "flush.swapped" |
    "flush.empty" | "flush.written:<0/1 per bucket written: rolled over before it>[:<bucket>,…  the write order]" |
    "flush.published" | "gc.start" | "gc.busy:<file>:<bucket>:<id>" | "gc.free:<file>:<bucket>:<id>" | "gc.marked" |
    "gc.end" | "gcfree.start" | "gcfree.read:<n>" | "gcfree.scanned" | "gcfree.truncated:<file>" | "gcfree.end"):
    whenever the replay of a recorded schedule succeeds, no record the table points at and no record of a Flush in
    progress is marked deleted, and every position in the table names a live record of its bucket. -/
theorem C06_igc_flush_replay_never_frees_published (events : List (Nat × String)) (s : State)
    (hs : replay events = some s) :
    (∀ r ∈ s.log, s.buckets.lookup r.bucket = some r.pos → r.deleted = false) ∧
    (∀ r ∈ s.log, (r.bucket, r.pos) ∈ inFlight s → r.deleted = false) ∧
    (∀ b p, s.buckets.lookup b = some p →
      ∃ r ∈ s.log, r.bucket = b ∧ r.pos = p ∧ r.deleted = false ∧ ∀ r' ∈ s.log, r'.pos = p → r' = r) := by
  have hinv := replay_inv hs
  exact ⟨hinv.safe.1, hinv.safe.2, fun _ _ hb => hinv.published hb⟩

/-- every replayed event is a run of sections of its thread in the small-step machine (`IgcConc.replayEv_is_steps`),
    so a successful replay IS a schedule of the model; in particular a recorded schedule in which a free verdict is
    reported for a record the model's table points at, or a G0 while a Flush holds the lock, is refused -/
theorem C06_igc_flush_replay_is_run {s s' : State} {e : Nat × Ev} (hs : replayEv s e = some s') :
    ∃ s1 n, stepN s1 e.1 n = some s' ∧ shared s1 = shared s ∧
      ∀ j, j ≠ e.1 → j < s.threads.length → s1.threads[j]? = s.threads[j]? :=
  replayEv_is_steps hs

/-- the events of the schedule of `C06_igc_flush_example`, as the hooks of the real code report them (the collector's
    blocked attempts to take the lock are no events; already-marked records are passed over silently) -/
def c06fEvents : List (Nat × String) :=
  [(0, "mut:0"), (1, "mut:1"), (2, "flush.swapped"), (2, "flush.written:00"), (2, "flush.published"),
   (3, "gc.start"), (3, "gc.end"),
   (0, "mut:0"), (1, "mut:1"), (2, "flush.swapped"), (2, "flush.written:01"), (2, "flush.published"),
   (3, "gc.start"), (3, "gc.free:0:0:0"), (3, "gc.marked"), (3, "gc.free:0:1:1"), (3, "gc.marked"),
   (3, "gc.busy:0:0:2"), (3, "gc.end"),
   (3, "gcfree.start"), (3, "gcfree.read:2"), (3, "gcfree.scanned"), (3, "gcfree.end")]

/-- the replay succeeds and ends in the same shared state as the small-step run -/
theorem C06_igc_flush_example_replay :
    (replay c06fEvents).map shared = some (shared (run (init c06fProgs) c06fSched)) := by decide

/-- the free-file scan of `C06_igc_flush_example_free_files`, replayed -/
example :
    (replay [(0, "mut:0"), (1, "flush.swapped"), (1, "flush.written:0"), (1, "flush.published"),
             (0, "mut:0"), (1, "flush.swapped"), (1, "flush.written:1"), (1, "flush.published"),
             (2, "gcfree.start"), (2, "gcfree.read:1"), (2, "gcfree.scanned"), (2, "gcfree.truncated:0"),
             (2, "gcfree.end")]).map shared = some (shared (run (init c06fFreeProgs) c06fFreeSched)) := by decide

/-- events that are not enabled in the model are refused: a G0 while a Flush holds the lock; a free verdict for the
    record the table points at; a mark without a verdict; a publication before the write; a record of the current
    file; a truncation of a file a bucket points into; an unknown event -/
example : replay [(0, "mut:0"), (2, "flush.swapped"), (3, "gc.start")] = none := by decide
example : replay [(0, "mut:0"), (2, "flush.swapped"), (2, "flush.written:1"), (2, "flush.published"),
                  (3, "gc.start"), (3, "gc.free:1:0:0")] = none := by decide
example : replay [(0, "mut:0"), (2, "flush.swapped"), (2, "flush.written:0"), (2, "flush.published"),
                  (0, "mut:0"), (2, "flush.swapped"), (2, "flush.written:1"), (2, "flush.published"),
                  (3, "gc.start"), (3, "gc.busy:0:0:0")] = none := by decide
example : replay [(0, "mut:0"), (2, "flush.swapped"), (2, "flush.written:0"), (2, "flush.published"),
                  (0, "mut:0"), (2, "flush.swapped"), (2, "flush.written:1"), (2, "flush.published"),
                  (3, "gc.start"), (3, "gc.free:0:0:0"), (3, "gc.marked")] ≠ none := by decide
example : replay [(3, "gc.start"), (3, "gc.marked")] = none := by decide
example : replay [(0, "mut:0"), (2, "flush.swapped"), (2, "flush.published")] = none := by decide
example : replay [(0, "mut:0"), (2, "flush.swapped"), (2, "flush.written:0"), (2, "flush.published"),
                  (3, "gcfree.start"), (3, "gcfree.read:1"), (3, "gcfree.scanned"), (3, "gcfree.truncated:0")] =
    none := by decide
example : replay [(0, "mut:x")] = none := by decide
example : replay [(0, "flush.written:2")] = none := by decide

/-- the write order is part of the event when it is not the pool order: buckets 0 and 1 dirtied in that order, written
    1 first -/
example :
    (replay [(0, "mut:0"), (0, "mut:1"), (1, "flush.swapped"), (1, "flush.written:01:1,0"),
             (1, "flush.published")]).map (·.log) = some [⟨0, 1, 0, false⟩, ⟨1, 0, 1, false⟩] := by decide

/-- `pickOrder` writes exactly the pool: every order is a permutation of it -/
theorem C06_igc_flush_write_order_perm (order pool : List Bucket) : (pickOrder order pool).Perm pool :=
  pickOrder_perm order pool

end Sth
