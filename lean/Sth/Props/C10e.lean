/-
C10 widened — U3: the configured bit size differs from the legacy index's.

The real OpenStore upgrades with the legacy header's bit size and then runs translateIndex to the
configured one (see Sth/Lemmas/C10Tr.lean for the exact sequence and why the composition below models it).
Sth/Model/UpgradeBytes.lean's `upgradeOpen c` is `none` for the mismatching `c` itself (the model stops
where index.Open answers ErrIndexWrongBitSize); the flow is

    upgradeOpen { c with bits := C.bits } C.dir order        -- up to translateIndex's open of the old index
    openStoreT c (that directory) order'                      -- translateIndex + the final index.Open

C09's `translate_open` needs the invariants of a quiesced state, NOT a history from a fresh store
(`C09.Closed`); the upgraded state satisfies them (`C10X.closed_of_quiesced`), so C09 applies as it is.

`C10_upgrade_translate`: well-formed legacy store.  `C10_upgrade_translate_bad`: with unmappable entries,
multi-chunk case, any flush order of the removal pool.  Premises: as C10b / C10c for the configuration
with the legacy bit size, the configured bit size legal and different, and (C09's premise `spec.length ≤ n`)
the number of contents counted in the size bound.  `KeysOK` is needed for the ORIGINAL digests only (C09).
-/
import Sth.Lemmas.C10Tr
import Sth.Props.C10c

namespace Sth

open LegacyC C10B C10X

theorem C10_upgrade_translate (c : Cfg) (hc : c.Legal) (hk : c.kind = .mh) (C : LegacyC)
    (hb8 : 8 ≤ C.bits) (hb31 : C.bits ≤ 31) (hbits : c.bits ≠ C.bits)
    (hwf : LegacyWF { c with bits := C.bits } C)
    (ops : List SOp) (ha : ∀ op ∈ ops, op.isC02 = true) (hkeys : KeysOK .mh (C.keyOps ++ ops))
    (hn : C.recs.length + C.gens.length + 1 + C.spec.length + ops.length < 1073741824)
    (hB : specW C.spec + (ops.map SOp.bytes).sum < two31) (order : List Nat) :
    ∃ d0 m0, upgradeOpen { c with bits := C.bits } C.dir [] = some (d0, m0) ∧
      ∃ m' d' keys, openStoreT c d0 order = (d', .ok m', keys) ∧
        (runS ⟨c, m', d'⟩ ops).2 = (specRun .mh c.imm C.spec ops).2 ∧
        d'.pfiles = d0.pfiles ∧ d'.free = d0.free ∧ d'.phdr = d0.phdr ∧
        d'.ihdr = some ⟨c.bits, c.ifs, 0, c.pfs⟩ := by
  have hc0 : ({ c with bits := C.bits } : Cfg).Legal := ⟨hb8, hb31, hc.2.2.1, hc.2.2.2.1, hc.2.2.2.2.1, hc.2.2.2.2.2⟩
  have hk0 : ({ c with bits := C.bits } : Cfg).kind = .mh := hk
  obtain ⟨ifs, _, h1, _, _, x, _⟩ := upgrade_ctx hc0 hk0 hwf ops hkeys (by omega) (by omega)
  have hk' : ∀ op ∈ ops, ∀ k, op.keyOf = some k → ∀ dig, keyClass .mh k = .ok dig →
      (k, dig) ∈ digestsOf .mh (C.keyOps ++ ops) :=
    fun op ho k hkey dig hcls => mem_digestsOf (List.mem_append_right _ ho) hkey hcls
  have hI := (inv_U x).mono (n' := C.recs.length + C.gens.length + 1 + C.spec.length) (B' := specW C.spec)
    (by omega) (Nat.le_refl _)
  obtain ⟨m', d', keys, t1, t2, t3, t4, t5, t6⟩ :=
    translate_quiesced (c := c) (c0 := { c with bits := C.bits }) hc0 hc hk0 rfl rfl rfl hbits x.hU hI (xinv_U x)
      rfl rfl rfl rfl (by omega) ops ha hk' hn hB order
  exact ⟨_, _, h1, m', d', keys, t1, t2, t3, t4, t5, t6⟩

theorem C10_upgrade_translate_bad (c : Cfg) (hc : c.Legal) (hk : c.kind = .mh) (C : LegacyC)
    (hb8 : 8 ≤ C.bits) (hb31 : C.bits ≤ 31) (hbits : c.bits ≠ C.bits)
    (hwf : LegacyWFBad { c with bits := C.bits } C) (hmulti : c.pfs ≤ (legacyPrimary C.recs).length)
    (ops : List SOp) (ha : ∀ op ∈ ops, op.isC02 = true) (hkeys : KeysOK .mh (C.keyOps ++ ops))
    (hn : C.recs.length + 2 * C.gens.length + 1 + C.spec.length + ops.length < 1073741824)
    (hB : specW C.spec + (ops.map SOp.bytes).sum < two31) (order order' : List Nat) :
    ∃ d0 m0, upgradeOpen { c with bits := C.bits } C.dir order = some (d0, m0) ∧
      ∃ m' d' keys, openStoreT c d0 order' = (d', .ok m', keys) ∧
        (runS ⟨c, m', d'⟩ ops).2 = (specRun .mh c.imm C.spec ops).2 ∧
        d'.pfiles = d0.pfiles ∧ d'.free = d0.free ∧ d'.phdr = d0.phdr ∧
        d'.ihdr = some ⟨c.bits, c.ifs, 0, c.pfs⟩ := by
  have hc0 : ({ c with bits := C.bits } : Cfg).Legal := ⟨hb8, hb31, hc.2.2.1, hc.2.2.2.1, hc.2.2.2.2.1, hc.2.2.2.2.2⟩
  have hk0 : ({ c with bits := C.bits } : Cfg).kind = .mh := hk
  have hU : Univ .mh (digestsOf .mh (C.keyOps ++ ops)) := univ_of_keysOK hkeys (keysExact_all .mh _)
  have hwfU := wfBadU_of_wfBad hwf ops
  have hnr := needRemap_of_le { c with bits := C.bits } C hmulti
  obtain ⟨ifs, h1, h2, h3⟩ := upgradeOpen_stateF hc0 hk0 hwfU (by omega) (by omega) hnr order
  have x : CtxB { c with bits := C.bits } (digestsOf .mh (C.keyOps ++ ops)) C ifs :=
    ⟨hc0, hk0, hU, hwfU, by omega, by omega, h2, h3, hnr⟩
  obtain ⟨hC, hfree, _, hin, hpn⟩ := cinv_F x order (by omega) (by omega)
  have hk' : ∀ op ∈ ops, ∀ k, op.keyOf = some k → ∀ dig, keyClass .mh k = .ok dig →
      (k, dig) ∈ digestsOf .mh (C.keyOps ++ ops) :=
    fun op ho k hkey dig hcls => mem_digestsOf (List.mem_append_right _ ho) hkey hcls
  have hI := hC.inv.mono (n' := C.recs.length + 2 * C.gens.length + 1 + C.spec.length) (B' := specW C.spec)
    (by omega) (Nat.le_refl _)
  obtain ⟨m', d', keys, t1, t2, t3, t4, t5, t6⟩ :=
    translate_quiesced (c := c) (c0 := { c with bits := C.bits }) hc0 hc hk0 rfl rfl rfl hbits hU hI hC.x
      hin hpn hfree hC.snap (by omega) ops ha hk' hn hB order'
  exact ⟨_, _, h1, m', d', keys, t1, t2, t3, t4, t5, t6⟩

/-! Non-vacuity: the store of C10b (legacy bit size 8) opened with bit size 12; the model refuses the
    mismatching configuration itself, the composition gives every key its value. -/

def exCfg12 : Cfg := { exCfg10 with bits := 12 }

example : exCfg12.Legal ∧ exCfg12.bits ≠ exC10.bits := by decide
example : ({ exCfg12 with bits := exC10.bits } : Cfg) = exCfg10 := rfl
example : upgradeOpen exCfg12 exC10.dir [] = none := by decide +kernel
example : (upgradeStore exCfg10 exC10.dir).map (fun d0 =>
      match openStoreT exCfg12 d0 [] with
      | (d', .ok m', _) => (d'.ihdr, exRecs10.map fun kv => match (storeGet m' d' kv.1).2 with
          | .found v => some v
          | _ => none)
      | _ => (none, [])) =
    some (some ⟨12, 60, 0, 30⟩,
      [some [7, 7, 7], some [], some [1, 2], none, some [8, 8, 8, 8], some [6, 6], some [6, 6]]) := by
  decide +kernel

end Sth
