/-
C09 / C03 — crashes WHILE THE RE-BUCKETING RUNS (store.go `translateIndex` + `index.MoveFiles`): the step
list, the steps that are safe, and the window that is not (known finding D13).

Property theorems only (helper lemmas: Sth/Lemmas/C03Translate.lean, namespace `Sth.C03O`, on top of the
C03 "crash during OpenStore" development and of C09; step list: Sth/Model/CrashImageOpen.lean
`translateSteps`).

The steps.  When index.Open answers "wrong bit size", OpenStore opens the old index with its own bit size
(the snapshot file is removed by `loadBucketState`, or the scan cuts torn tails), builds the new index in a
temporary directory `new_index*` inside the index directory, closes the new index (`newClosed`), closes the
old index (`oldClosed`: its table is saved as a snapshot AGAIN), and swaps the files with two
`index.MoveFiles`, one `os.Rename` at a time:

    oldFileMoved n (n ascending from the header's first file)   hook movefiles.file_moved
    oldHeaderMoved                                              hook movefiles.header_moved
    oldMoved       (old snapshot moved: first MoveFiles done)   hook translate.old_moved
    newFileMoved n (n ascending from 0)                         hook movefiles.file_moved
    newHeaderMoved                                              hook movefiles.header_moved
    newMoved       (new snapshot moved: second MoveFiles done)  hook translate.new_moved
    oldRemoved     (temporary directories removed)              hook translate.old_removed

`translateSteps kind pmax pfn plen newBits ifsArg d order` lists `(step, ⟨main, newTmp, oldTmp⟩)` after each
of them (and after `oldOpened` = hook translate.copied, `newClosed`, `oldClosed`), the two temporary
directories as separate components; the last `main` holds the files, header and snapshot of the directory
`translateIndex` returns.

(b) The safe steps — `C09_translate_crash_safe_steps`, for the cleanly closed directory of ANY reachable
state (histories and configurations of `C09_translate_preserves_contents`):
  * before the first move (`oldOpened`, `newClosed`, `oldClosed`) the index directory IS the closed
    directory, without or with its snapshot (`closedDisk … false` / `closedDisk … true`, EQUAL as
    directories): the old store is intact and the theorems of C09 apply to it verbatim — the next OpenStore
    re-buckets it from scratch with the contents preserved (the leftover `new_index*` directory is not
    looked at: every translation makes a fresh temporary directory);
  * from the arrival of the new header on (`newHeaderMoved`, `newMoved`, `oldRemoved`) the new store is
    complete: OpenStore recovers from the index directory EXACTLY what it recovers from the directory
    `translateIndex` returns (`RecoversSame`) — at `newHeaderMoved` the new snapshot is still in the
    temporary directory and the open rescans the new files, which gives the table of the snapshot; the
    leftovers in `old_index*` / `new_index*` are not looked at;
  * every other step is in the window `TransStep.inWindow`.

(c) The window = `oldFileMoved _`, `oldHeaderMoved`, `oldMoved`, `newFileMoved _` (`C09_d13_window`).
What the next OpenStore does there (witnesses (a) below, by evaluation):
  * `oldFileMoved n`: header and (re-saved) snapshot still there, the log has a hole: the re-bucketing
    loads the snapshot and fails on the first bucket that points into a moved file — the open is REFUSED
    (`.error .other`), unless no live bucket points into the moved files (then it succeeds with all keys:
    in the example the records of file 0 are all superseded);
  * `oldHeaderMoved`, `oldMoved`, `newFileMoved n`: no header: the open writes a fresh header for the new
    bit size, does not scan (no header existed), and succeeds with ZERO keys although the primary holds
    every record.
Against the recogniser of the harness (Driver/Crash.lean: image taken inside the re-bucketing whose index
directory has no header, or taken at a point movefiles.file_moved / movefiles.header_moved /
translate.old_moved): it covers every step of the window (`C09_d13_recogniser_covers_window`: not too
narrow), and it is TOO WIDE by exactly one step: `newHeaderMoved` — the hook `movefiles.header_moved` fires
in BOTH calls of MoveFiles, and after the second one the new store is complete and safe
(`C09_d13_recogniser_extra_step`).  A failure at that image would be tagged as the known finding although
it is not in the window; the recogniser should tell the two calls of MoveFiles apart (for instance: the
image has no header, or its header still has the OLD bit size — which drops `newHeaderMoved` and keeps the
whole window).
-/
import Sth.Lemmas.C03Translate
import Sth.Props.C03Open
import Sth.Props.C09

namespace Sth

open C03O

/-- (b) the safe steps of the re-bucketing, on the closed directory of any reachable state -/
theorem C09_translate_crash_safe_steps (c : Cfg) (hc : c.Legal) (c' : Cfg) (hc' : c'.Legal)
    (hkind : c'.kind = c.kind) (hifs : c'.ifs = c.ifs) (hpfs : c.kind = .mh → c'.pfs = c.pfs)
    (ops : List SOp) (ha : ∀ op ∈ ops, op.isC02 = true) (hk : KeysOK c.kind ops) (hs : SizesOK ops)
    (s0 : SState) (hi : initS c = some s0) (ord order : List Nat) (us : Bool) :
    ∃ d dF dS pfn plen dT keys,
      C09.closedDisk (runS s0 ops).1 ord us = some d ∧
      C09.closedDisk (runS s0 ops).1 ord false = some dF ∧
      C09.closedDisk (runS s0 ops).1 ord true = some dS ∧
      openFreelist d = d ∧ openPrimary c' d = .ok (d, hdrPfs c', pfn, plen) ∧
      translateIndex c'.kind (hdrPfs c') pfn plen c'.bits c'.ifs d order = .ok (dT, keys) ∧
      translateSteps c'.kind (hdrPfs c') pfn plen c'.bits c'.ifs d order ≠ [] ∧
      ∀ st td, (st, td) ∈ translateSteps c'.kind (hdrPfs c') pfn plen c'.bits c'.ifs d order →
        st.inWindow = true ∨
        ((st = .oldOpened ∨ st = .newClosed ∨ st = .oldClosed) ∧ (td.main = dF ∨ td.main = dS)) ∨
        ((st = .newHeaderMoved ∨ st = .newMoved ∨ st = .oldRemoved) ∧
          RecoversSame c' dT td.main) :=
  translate_steps_reach c hc c' hc' hkind hifs hpfs ops ha hk hs s0 hi ord order us

/-- (c) the D13 window, as a list of step names -/
theorem C09_d13_window (st : TransStep) :
    st.inWindow = true ↔
      ((∃ n, st = .oldFileMoved n) ∨ st = .oldHeaderMoved ∨ st = .oldMoved ∨
        (∃ n, st = .newFileMoved n)) := by
  cases st <;> simp [TransStep.inWindow]

/-- the recogniser of the harness for D13, on a step and the index directory after it -/
def d13Recognised (st : TransStep) (main : Disk) : Bool :=
  main.ihdr.isNone || st.point == "movefiles.file_moved" || st.point == "movefiles.header_moved" ||
    st.point == "translate.old_moved"

/-- the recogniser covers the window (it is not too narrow) -/
theorem C09_d13_recogniser_covers_window (st : TransStep) (main : Disk) (h : st.inWindow = true) :
    d13Recognised st main = true := by
  cases st <;> simp [d13Recognised, TransStep.point, TransStep.inWindow] at h ⊢

/-- the recogniser is too wide by exactly one step: outside the window, on a directory that has a header,
    it fires at `newHeaderMoved` and nowhere else -/
theorem C09_d13_recogniser_extra_step (st : TransStep) (main : Disk) (hs : st.inWindow = false)
    (hh : main.ihdr.isNone = false) : d13Recognised st main = true ↔ st = .newHeaderMoved := by
  cases st <;> simp [d13Recognised, TransStep.point, TransStep.inWindow, hh] at hs ⊢

/-! (a) Witnesses on a concrete store: the history, keys and configuration of the examples of
    Sth/Props/C03.lean (8 bits, 33-byte file limits: three old index files), closed cleanly and reopened
    with 9 bits.  For every step: is it in the window, does the recogniser fire, and what does the next
    OpenStore (with 9 bits) answer on the index directory the step leaves — `none`: refused; otherwise what
    the three keys read (the history left key 1 = [3], key 2 removed, key 3 = [4,4,4]; the primary holds
    all of it throughout). -/

def ex09Cfg : Cfg := { exCfg03 with bits := 9 }

/-- the steps of the re-bucketing when the closed directory of the history is reopened with `c'` -/
def ex09Steps (c c' : Cfg) (ops : List SOp) (ord order : List Nat) (us : Bool) :
    List (TransStep × TransDir) :=
  match initS c with
  | none => []
  | some s0 =>
    match C09.closedDisk (runS s0 ops).1 ord us with
    | none => []
    | some d =>
      match openPrimary c' (openFreelist d) with
      | .error _ => []
      | .ok (d1, pmax, pfn, plen) => translateSteps c'.kind pmax pfn plen c'.bits c'.ifs d1 order

/-- OpenStore with `c'` on the directory: refused (`none`), or what the keys read -/
def ex09Reopen (c' : Cfg) (d : Disk) (keys : List Bytes) : Option (List (Option (Option Bytes))) :=
  match openStoreT c' d [] with
  | (dr, .ok mr, _) => some (keys.map fun key => getCode (storeGet mr dr key).2)
  | (_, .error _, _) => none

/-- does the last step leave the directory the model's OpenStore ends with, before its final index.Open? -/
def ex09LastOK (c c' : Cfg) (ops : List SOp) (ord order : List Nat) (us : Bool) : Bool :=
  match initS c with
  | none => false
  | some s0 =>
    match C09.closedDisk (runS s0 ops).1 ord us with
    | none => false
    | some d =>
      match openPrimary c' (openFreelist d) with
      | .error _ => false
      | .ok (d1, pmax, pfn, plen) =>
        match translateIndex c'.kind pmax pfn plen c'.bits c'.ifs d1 order with
        | .error _ => false
        | .ok (dT, _) =>
          ((translateSteps c'.kind pmax pfn plen c'.bits c'.ifs d1 order).getLast?.map (·.2.main)) ==
            some dT

example : ex09Cfg.Legal ∧ ex09Cfg.kind = exCfg03.kind ∧ ex09Cfg.ifs = exCfg03.ifs ∧
    ex09Cfg.pfs = exCfg03.pfs ∧ ex09Cfg.bits ≠ exCfg03.bits := by decide

set_option maxRecDepth 100000 in
/-- (step, in the window?, recognised?) — snapshot kept by the Close -/
example : (ex09Steps exCfg03 ex09Cfg exOps03 [] [] true).map (fun p =>
      (p.1, p.1.inWindow, d13Recognised p.1 p.2.main)) =
    [(.oldOpened, false, false), (.newClosed, false, false), (.oldClosed, false, false),
     (.oldFileMoved 0, true, true), (.oldFileMoved 1, true, true), (.oldFileMoved 2, true, true),
     (.oldHeaderMoved, true, true), (.oldMoved, true, true), (.newFileMoved 0, true, true),
     (.newHeaderMoved, false, true), (.newMoved, false, false), (.oldRemoved, false, false)] ∧
    ex09LastOK exCfg03 ex09Cfg exOps03 [] [] true = true := by
  refine ⟨by decide +kernel, by decide +kernel⟩

set_option maxRecDepth 100000 in
/-- what the next OpenStore answers on the index directory each of these twelve steps leaves: all keys
    before the first move; all keys after `oldFileMoved 0` by luck (no live bucket in file 0); REFUSED after
    `oldFileMoved 1` and `oldFileMoved 2`; ZERO keys after `oldHeaderMoved`, `oldMoved`, `newFileMoved 0`;
    all keys from `newHeaderMoved` on -/
example : (ex09Steps exCfg03 ex09Cfg exOps03 [] [] true).map (fun p =>
      ex09Reopen ex09Cfg p.2.main [ex03K1, ex03K2, ex03K3]) =
    [some [some (some [3]), some none, some (some [4, 4, 4])],
     some [some (some [3]), some none, some (some [4, 4, 4])],
     some [some (some [3]), some none, some (some [4, 4, 4])],
     some [some (some [3]), some none, some (some [4, 4, 4])],
     none,
     none,
     some [some none, some none, some none],
     some [some none, some none, some none],
     some [some none, some none, some none],
     some [some (some [3]), some none, some (some [4, 4, 4])],
     some [some (some [3]), some none, some (some [4, 4, 4])],
     some [some (some [3]), some none, some (some [4, 4, 4])]] := by decide +kernel

set_option maxRecDepth 100000 in
/-- the same with the snapshot dropped after the Close (the old index is rescanned): same steps, same
    answers -/
example : (ex09Steps exCfg03 ex09Cfg exOps03 [] [] false).map (fun p => (p.1, p.1.inWindow)) =
      (ex09Steps exCfg03 ex09Cfg exOps03 [] [] true).map (fun p => (p.1, p.1.inWindow)) ∧
    (ex09Steps exCfg03 ex09Cfg exOps03 [] [] false).map (fun p =>
      ex09Reopen ex09Cfg p.2.main [ex03K1, ex03K2, ex03K3]) =
    (ex09Steps exCfg03 ex09Cfg exOps03 [] [] true).map (fun p =>
      ex09Reopen ex09Cfg p.2.main [ex03K1, ex03K2, ex03K3]) ∧
    ex09LastOK exCfg03 ex09Cfg exOps03 [] [] false = true := by
  refine ⟨by decide +kernel, by decide +kernel, by decide +kernel⟩

end Sth
