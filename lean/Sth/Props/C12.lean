/-
C12 — Rate-limited writers are always released (no lost wake-up).

Property theorems only.  They are about the small-step machine of Sth/Model/Rate.lean (the lock sections
and channel operations of flushTick / Flush / run), for ANY number of writers and explicit Flush callers
and EVERY schedule (list of thread steps, not-enabled steps skipped), with the waiting decision an
arbitrary oracle per writer step.
-/
import Sth.Lemmas.C12

namespace Sth.Rate

/-- C12, registration invariant: a writer that has registered for (and possibly already waits on) a notice
    that is not yet closed holds exactly the store's current notice — so whoever closes the current notice
    releases it.  Every reachable state, both code variants. -/
theorem C12_registered_is_current (nW nF : Nat) (fix : Bool) (sched : List Step) (i c : Nat) :
    let s := run (init nW nF fix) sched
    (s.writers[i]? = some (.signal c) ∨ s.writers[i]? = some (.wait c)) → c ∉ s.closed → s.notice = some c :=
  registered_is_current nW nF fix sched i c

/-- C12, release: in the repaired code, ANY Flush that completes (by its normal exit or by its
    no-outstanding-work exit) after a writer began to wait leaves that writer's notice closed, i.e. the
    writer's next step is enabled.  `j` is the flusher taking its completing step in state `s`. -/
theorem C12_release (nW nF : Nat) (sched : List Step) (i c j : Nat) :
    let s := run (init nW nF true) sched
    s.writers[i]? = some (.wait c) →
    (s.flushers[j]? = some .finish ∨ (s.flushers[j]? = some .check ∧ s.work = false)) →
    ∃ s', step s (.f j) = some s' ∧ c ∈ s'.closed ∧ (step s' (.w i false)).isSome :=
  release nW nF sched i c j

/-- C12, no lost signal: in the repaired code, whenever a writer is parked on an unclosed notice, a flush
    is guaranteed to come: the flushNow channel holds a token or some Flush is in progress (and by
    C12_release its completion releases the writer).  Every reachable state. -/
theorem C12_signal (nW nF : Nat) (sched : List Step) (i c : Nat) :
    let s := run (init nW nF true) sched
    s.writers[i]? = some (.wait c) → c ∉ s.closed → s.flushNow = true ∨ flushInProgress s :=
  signal_pending nW nF sched i c

/-- C12, the flusher is never permanently disabled: the ticker's step is always enabled, after it the
    flusher goroutine (when idle) can start a flush, and every step inside Flush is enabled. -/
theorem C12_enabled (s : State) (h0 : s.flushers ≠ []) :
    (step s .tick).isSome ∧
    (∀ s', step s .tick = some s' → s'.flushers[0]? = some .idle → (step s' (.f 0)).isSome) ∧
    (∀ j pc, s.flushers[j]? = some pc → pc ≠ .idle → (step s (.f j)).isSome) :=
  enabled s h0

/-- D6, negative witness for the code as it was: with the early-return path NOT closing the notice there is
    a schedule (one writer, one explicit Flush caller) after which the writer is parked on an unclosed
    notice, no token is pending, no flush is in progress — and a flush HAS completed after the wait began. -/
theorem C12_lost_wakeup_witness :
    let sched : List Step := [.w 0 true, .w 0 true, .w 0 true,         -- write, measure, decide: will wait
                              .f 1, .f 1, .f 1, .f 1, .f 1,             -- an explicit Flush writes everything, finishes
                              .w 0 true, .w 0 true,                     -- register, signal
                              .f 0, .w 0 true, .f 0, .f 0]              -- flusher takes the token; writer waits; flush finds no work
    let s := run (init 1 1 false) sched
    s.writers[0]? = some (.wait 0) ∧ 0 ∉ s.closed ∧ s.flushNow = false ∧ ¬ flushInProgress s ∧ s.flushesDone = 2 := by
  decide

/-- the same schedule on the repaired code releases the writer -/
theorem C12_repaired_on_witness :
    let sched : List Step := [.w 0 true, .w 0 true, .w 0 true, .f 1, .f 1, .f 1, .f 1, .f 1,
                              .w 0 true, .w 0 true, .f 0, .w 0 true, .f 0, .f 0]
    let s := run (init 1 1 true) sched
    s.writers[0]? = some (.wait 0) ∧ 0 ∈ s.closed := by
  decide

end Sth.Rate
