/-
C15 — The blockstore adapter honours the blockstore contract.

Property theorems only (helper lemmas: Sth/Lemmas/C15.lean; executable definitions:
Sth/Model/Adapter.lean — the adapter methods of storethehash.go — and Sth/Model/AdapterMachine.lean — the
adapter as a machine `bsStepM`/`bsRun`, the contract `bsSpecStep`/`bsSpecRun`, the translation to store
calls).

The contract is a finite map from multihash DIGESTS to block bytes plus the hash-on-read flag:
Put/PutMany insert when the digest is absent and are silent otherwise (the store is opened immutable:
first Put wins), Get answers the stored bytes UNDER THE REQUESTED CID (so CIDs that differ in version or
codec but share the multihash address the same block), Has/GetSize agree with Get, DeleteBlock removes
the digest, a cancelled context is answered `errCtx` before anything is touched, a CID that is not
well-formed is answered `errOther`, and with hash-on-read enabled Get answers `wrongHash` exactly when
the hash function rejects the stored bytes (`hm = false`; the hash verdict is a parameter of the call).

All theorems are COROLLARIES OF C01 (`C01_store_refines_map`): adapter calls are translated to store
calls on the multihash `cidHash c` (`bsTranslate`), the adapter's answers are shown to be the store's
answers on the translated calls under an explicit output mapping (`mapOuts`, stage A), C01 replaces the
store by its map specification (stage B), and the map specification in immutable mode is shown to answer
through the same mapping what the contract answers (stage C).  They hold for EVERY legal configuration
(index bits 8..31, index/primary file limits 1 B .. 1 GiB), EVERY finite call sequence — cancelled
contexts, malformed CIDs, PutMany batches that stop at a refused block, HashOnRead toggles, arbitrary
hash verdicts — whose well-formed multihashes satisfy the premise of C01 (`BsKeysOK`: digests of distinct
multihashes distinct and prefix-free, at most 255 bytes; distinct CIDs with the same multihash are
allowed, that is the aliasing clause) and the size bound of C01 (`BsSizesOK`).

"Reachable state" in the clause theorems = the state after an arbitrary call sequence `pre` on a fresh
blockstore; a clause speaks about the answers `(bsRun s0 (pre ++ calls)).2.drop pre.length` to the calls
made after `pre`.
-/
import Sth.Lemmas.C15

namespace Sth

/-- C15, main theorem: over a fresh store, every blockstore call returns what the contract returns. -/
theorem C15_adapter_refines_contract (bits ifs pfs : Nat) (hc : (bsCfg bits ifs pfs).Legal)
    (ops : List BsOp) (hk : BsKeysOK ops) (hs : BsSizesOK ops)
    (s0 : BS) (hi : bsInit bits ifs pfs = some s0) :
    (bsRun s0 ops).2 = (bsSpecRun ops).2 :=
  adapter_refines_contract bits ifs pfs hc ops hk hs s0 hi

/-- every legal configuration opens a blockstore -/
theorem C15_init (bits ifs pfs : Nat) (hc : (bsCfg bits ifs pfs).Legal) : ∃ s0, bsInit bits ifs pfs = some s0 :=
  bsInit_exists bits ifs pfs hc

/-- the route through C01, stage A with C01 discharged: the adapter's answers are the store machine's
    answers to the translated calls (which are all calls C01 covers) under the output mapping
    ok ↦ ok, key-exists ↦ ok, found v ↦ found c v / wrongHash, absent ↦ notFound, bool ↦ bool,
    sizeOf ↦ size, other errors ↦ errOther -/
theorem C15_adapter_calls_store (bits ifs pfs : Nat) (hc : (bsCfg bits ifs pfs).Legal)
    (ops : List BsOp) (hk : BsKeysOK ops) (hs : BsSizesOK ops)
    (s0 : BS) (hi : bsInit bits ifs pfs = some s0) :
    ∃ s, initS (bsCfg bits ifs pfs) = some s ∧ (∀ op ∈ bsTranslate ops, op.isC01 = true) ∧
      (bsRun s0 ops).2 = mapOuts false ops (runS s (bsTranslate ops)).2 := by
  obtain ⟨s, hs0, hsim, hf⟩ := bsInit_some hi
  refine ⟨s, hs0, bsTranslate_isC01 ops, ?_⟩
  rw [← hf]
  exact adapter_sim ops s0 s [] hsim
    (C01_store_refines_map (bsCfg bits ifs pfs) hc (bsTranslate ops) (bsTranslate_isC01 ops) hk hs s hs0)

/-- stage C: the map specification of the immutable store answers, under the same output mapping, what the
    contract answers -/
theorem C15_map_is_contract (ops : List BsOp) :
    mapOuts false ops (specRun .mh true [] (bsTranslate ops)).2 = (bsSpecRun ops).2 :=
  spec_sim ops [] {} (fun _ => rfl)

/-! ### the clauses of the contract, on reachable states -/

section clauses

variable (bits ifs pfs : Nat) (hc : (bsCfg bits ifs pfs).Legal) (s0 : BS) (hi : bsInit bits ifs pfs = some s0)
include hc hi

/-- Put then Get: a block that was not there is returned under the same CID with the same bytes (and a
    block that was there is kept, see `C15_duplicate_put_silent`) -/
theorem C15_put_then_get (pre : List BsOp) (c dig d : Bytes) (hd : cidDigest c = some dig)
    (hk : BsKeysOK (pre ++ [.has true c, .put true c d, .get true c true]))
    (hs : BsSizesOK (pre ++ [.has true c, .put true c d, .get true c true])) :
    (bsRun s0 (pre ++ [.has true c, .put true c d, .get true c true])).2.drop pre.length =
        [.bool false, .ok, .found c d] ∨
    ∃ d0, (bsRun s0 (pre ++ [.has true c, .put true c d, .get true c true])).2.drop pre.length =
        [.bool true, .ok, .found c d0] := by
  rw [adapter_suffix bits ifs pfs hc pre _ hk hs s0 hi]
  exact spec_put_then_get _ hd d

/-- Has and GetSize agree with Get: present ⇔ Has answers true ⇔ GetSize answers the length of the bytes
    Get returns -/
theorem C15_has_size_agree_with_get (pre : List BsOp) (c dig : Bytes) (hd : cidDigest c = some dig)
    (hk : BsKeysOK (pre ++ [.get true c true, .has true c, .size true c]))
    (hs : BsSizesOK (pre ++ [.get true c true, .has true c, .size true c])) :
    (∃ d0, (bsRun s0 (pre ++ [.get true c true, .has true c, .size true c])).2.drop pre.length =
        [.found c d0, .bool true, .size d0.length]) ∨
    (bsRun s0 (pre ++ [.get true c true, .has true c, .size true c])).2.drop pre.length =
        [.notFound, .bool false, .notFound] := by
  rw [adapter_suffix bits ifs pfs hc pre _ hk hs s0 hi]
  exact spec_has_size_get _ hd

/-- DeleteBlock succeeds (present or not) and afterwards the block is not found, whatever the hash
    verdict -/
theorem C15_delete_not_found (pre : List BsOp) (c dig : Bytes) (hd : cidDigest c = some dig) (hm : Bool)
    (hk : BsKeysOK (pre ++ [.del true c, .get true c hm, .has true c, .size true c]))
    (hs : BsSizesOK (pre ++ [.del true c, .get true c hm, .has true c, .size true c])) :
    (bsRun s0 (pre ++ [.del true c, .get true c hm, .has true c, .size true c])).2.drop pre.length =
      [.ok, .notFound, .bool false, .notFound] := by
  rw [adapter_suffix bits ifs pfs hc pre _ hk hs s0 hi]
  exact spec_delete _ hd hm

/-- a duplicate Put is accepted silently and does not change the bytes, even with different data -/
theorem C15_duplicate_put_silent (pre : List BsOp) (c dig d d' : Bytes) (hd : cidDigest c = some dig)
    (hk : BsKeysOK (pre ++ [.put true c d, .get true c true, .put true c d', .get true c true]))
    (hs : BsSizesOK (pre ++ [.put true c d, .get true c true, .put true c d', .get true c true])) :
    ∃ d0, (bsRun s0 (pre ++ [.put true c d, .get true c true, .put true c d', .get true c true])).2.drop
        pre.length = [.ok, .found c d0, .ok, .found c d0] := by
  rw [adapter_suffix bits ifs pfs hc pre _ hk hs s0 hi]
  exact spec_duplicate_put _ hd d d'

/-- a CID whose digest no earlier call put (in particular: any CID on the fresh blockstore) is not found -/
theorem C15_unknown_cid_not_found (pre : List BsOp) (c dig : Bytes) (hd : cidDigest c = some dig) (hm : Bool)
    (hn : ∀ op ∈ pre, op.puts dig = false)
    (hk : BsKeysOK (pre ++ [.get true c hm, .has true c, .size true c]))
    (hs : BsSizesOK (pre ++ [.get true c hm, .has true c, .size true c])) :
    (bsRun s0 (pre ++ [.get true c hm, .has true c, .size true c])).2.drop pre.length =
      [.notFound, .bool false, .notFound] := by
  rw [adapter_suffix bits ifs pfs hc pre _ hk hs s0 hi]
  exact spec_unknown _ hd (bsSpecRunFrom_absent pre {} rfl hn) hm

/-- alias CIDs (same multihash digest, e.g. different version or codec) address the same block: what is
    put under one is found, with the same bytes, under the other — each Get under the CID it was asked for -/
theorem C15_alias_same_block (pre : List BsOp) (c1 c2 dig d : Bytes)
    (h1 : cidDigest c1 = some dig) (h2 : cidDigest c2 = some dig)
    (hk : BsKeysOK (pre ++ [.put true c1 d, .get true c1 true, .get true c2 true, .has true c2, .size true c2]))
    (hs : BsSizesOK (pre ++ [.put true c1 d, .get true c1 true, .get true c2 true, .has true c2, .size true c2])) :
    ∃ d0, (bsRun s0 (pre ++ [.put true c1 d, .get true c1 true, .get true c2 true, .has true c2,
        .size true c2])).2.drop pre.length =
      [.ok, .found c1 d0, .found c2 d0, .bool true, .size d0.length] := by
  rw [adapter_suffix bits ifs pfs hc pre _ hk hs s0 hi]
  exact spec_alias _ h1 h2 d

/-- … and deleting through one alias deletes the block of the other -/
theorem C15_alias_delete (pre : List BsOp) (c1 c2 dig d : Bytes) (hm : Bool)
    (h1 : cidDigest c1 = some dig) (h2 : cidDigest c2 = some dig)
    (hk : BsKeysOK (pre ++ [.put true c1 d, .del true c2, .get true c1 hm, .has true c1]))
    (hs : BsSizesOK (pre ++ [.put true c1 d, .del true c2, .get true c1 hm, .has true c1])) :
    (bsRun s0 (pre ++ [.put true c1 d, .del true c2, .get true c1 hm, .has true c1])).2.drop pre.length =
      [.ok, .ok, .notFound, .bool false] := by
  rw [adapter_suffix bits ifs pfs hc pre _ hk hs s0 hi]
  exact spec_alias_delete _ h1 h2 d hm

/-- hash-on-read, in general: for a present block Get answers `wrongHash` exactly when the flag set by the
    last HashOnRead call (`bsFlagAfter false pre`, off initially) is on and the hash verdict is negative -/
theorem C15_hash_on_read (pre : List BsOp) (c dig : Bytes) (hd : cidDigest c = some dig) (hm : Bool)
    (hk : BsKeysOK (pre ++ [.has true c, .get true c hm]))
    (hs : BsSizesOK (pre ++ [.has true c, .get true c hm])) :
    (bsRun s0 (pre ++ [.has true c, .get true c hm])).2.drop pre.length = [.bool false, .notFound] ∨
    ∃ d0, (bsRun s0 (pre ++ [.has true c, .get true c hm])).2.drop pre.length =
      [.bool true, if bsFlagAfter false pre && !hm then .wrongHash else .found c d0] := by
  rw [adapter_suffix bits ifs pfs hc pre _ hk hs s0 hi]
  have := spec_hash_on_read (bsSpecRun pre).1 hd hm
  rwa [bsSpecRun, bsSpecRunFrom_flag] at this

/-- hash-on-read enabled: a present block is answered `wrongHash` iff the hash verdict is negative -/
theorem C15_hash_on_read_enabled (pre : List BsOp) (c dig : Bytes) (hd : cidDigest c = some dig) (hm : Bool)
    (hf : bsFlagAfter false pre = true)
    (hk : BsKeysOK (pre ++ [.has true c, .get true c hm]))
    (hs : BsSizesOK (pre ++ [.has true c, .get true c hm])) :
    (bsRun s0 (pre ++ [.has true c, .get true c hm])).2.drop pre.length = [.bool false, .notFound] ∨
    ∃ d0, (bsRun s0 (pre ++ [.has true c, .get true c hm])).2.drop pre.length =
      [.bool true, if hm then .found c d0 else .wrongHash] := by
  rcases C15_hash_on_read bits ifs pfs hc s0 hi pre c dig hd hm hk hs with h | ⟨d0, h⟩
  · exact Or.inl h
  · refine Or.inr ⟨d0, ?_⟩
    rw [h, hf]; cases hm <;> rfl

/-- hash-on-read disabled: Get never answers `wrongHash`, whatever the hash verdict -/
theorem C15_hash_on_read_disabled (pre : List BsOp) (c dig : Bytes) (hd : cidDigest c = some dig) (hm : Bool)
    (hf : bsFlagAfter false pre = false)
    (hk : BsKeysOK (pre ++ [.has true c, .get true c hm]))
    (hs : BsSizesOK (pre ++ [.has true c, .get true c hm])) :
    (bsRun s0 (pre ++ [.has true c, .get true c hm])).2.drop pre.length = [.bool false, .notFound] ∨
    ∃ d0, (bsRun s0 (pre ++ [.has true c, .get true c hm])).2.drop pre.length =
      [.bool true, .found c d0] := by
  rcases C15_hash_on_read bits ifs pfs hc s0 hi pre c dig hd hm hk hs with h | ⟨d0, h⟩
  · exact Or.inl h
  · refine Or.inr ⟨d0, ?_⟩
    rw [h, hf]; rfl

/-- a call on a CID that is not well-formed (does not parse, malformed multihash, digest shorter than
    4 bytes) is answered `errOther`, and every later answer is what it would be without the call -/
theorem C15_malformed_cid (pre post : List BsOp) (op : BsOp) (hop : op.malformed = true)
    (hk : BsKeysOK (pre ++ op :: post)) (hs : BsSizesOK (pre ++ op :: post))
    (hk' : BsKeysOK (pre ++ post)) (hs' : BsSizesOK (pre ++ post)) :
    (bsRun s0 (pre ++ op :: post)).2.drop pre.length =
      .errOther :: (bsRun s0 (pre ++ post)).2.drop pre.length := by
  rw [adapter_suffix bits ifs pfs hc pre _ hk hs s0 hi, adapter_suffix bits ifs pfs hc pre _ hk' hs' s0 hi,
    bsSpecRunFrom_cons, bsSpecStep_malformed _ _ hop]

end clauses

/-- the flag after a HashOnRead call is its argument -/
theorem C15_flag_after_toggle (pre : List BsOp) (enabled : Bool) :
    bsFlagAfter false (pre ++ [.hashOnRead enabled]) = enabled := by
  rw [bsFlagAfter_append]; rfl

/-- cancelled context, single step, EVERY adapter state (reachable or not, no premise on keys): the call
    answers `errCtx` and the state — memory, disk and flag — is unchanged -/
theorem C15_cancelled_ctx (s : BS) (op : BsOp) (h : op.cancelled = true) : bsStepM s op = (s, .errCtx) :=
  bsStepM_cancelled s op h

/-- cancelled context inside a run: the call answers `errCtx`; all other answers and the final state are
    those of the run without the call -/
theorem C15_cancelled_ctx_run (s : BS) (pre post : List BsOp) (op : BsOp) (h : op.cancelled = true) :
    bsRun s (pre ++ op :: post) =
      ((bsRun s (pre ++ post)).1,
       (bsRun s pre).2 ++ .errCtx :: (bsRun s (pre ++ post)).2.drop pre.length) :=
  bsRun_cancelled s pre post op h

/-- the contract does the same with a cancelled call -/
theorem C15_cancelled_ctx_contract (st : BsSpec) (op : BsOp) (h : op.cancelled = true) :
    bsSpecStep st op = (st, .errCtx) :=
  bsSpecStep_cancelled st op h

/-! ### Non-vacuity

CIDv1 raw (codec 85) and dag-pb (codec 112) over sha2-256-shaped multihashes with 4-byte digests, a
CIDv0 (`18 :: 32 ::` 32 digest bytes) and its CIDv1 dag-pb alias, a CID whose multihash is truncated and
one whose digest has 3 bytes; 1-byte index and primary files ("every record starts a new file"). -/

def exC1 : Bytes := [1, 85, 18, 4, 1, 2, 3, 4]
def exC1alias : Bytes := [1, 112, 18, 4, 1, 2, 3, 4]
def exC2 : Bytes := [1, 85, 18, 4, 9, 2, 3, 4]
def exV0 : Bytes := 18 :: 32 :: List.replicate 32 7
def exV0alias : Bytes := 1 :: 112 :: 18 :: 32 :: List.replicate 32 7
def exTrunc : Bytes := [1, 85, 18, 4, 1, 2, 3]
def exShort : Bytes := [1, 85, 18, 3, 1, 2, 3]

example : cidHash exC1 = some [18, 4, 1, 2, 3, 4] ∧ cidDigest exC1 = some [1, 2, 3, 4] := by decide
example : exC1 ≠ exC1alias ∧ cidDigest exC1alias = cidDigest exC1 := by decide
example : exV0 ≠ exV0alias ∧ cidHash exV0 = some exV0 ∧ cidHash exV0alias = some exV0 ∧
    cidDigest exV0alias = some (List.replicate 32 7) := by decide
example : cidDigest exTrunc = none ∧ cidDigest exShort = none ∧ cidDigest [] = none ∧ cidDigest [2, 85, 18, 4, 1, 2, 3, 4] = none := by
  decide

def exOps15 : List BsOp :=
  [.get true exC1 true, .put true exC1 [5, 6], .get true exC1alias true, .put true exC1alias [7],
   .get true exC1 false, .hashOnRead true, .get true exC1 false, .get true exC1 true, .get false exC1 true,
   .has true exC1alias, .size true exC1,
   .putMany true [(exC2, [1]), (exV0, [2, 3]), (exTrunc, [9]), (exC1, [3])], .get true exV0alias true,
   .has true exTrunc, .size true exShort, .put true exShort [1], .del true exShort,
   .putMany true [(exC2, []), (exShort, [2, 3]), (exC1, [3])], .putMany false [(exC2, [4])], .hashOnRead false,
   .del true exC1alias, .get true exC1 false, .has true exC1, .size true exC1, .del true exC1,
   .putMany true [], .put true exC1 [], .get true exC1alias false, .del false exC1, .size true exC1alias]

example : (bsCfg 8 1 1).Legal := by decide
example : BsKeysOK exOps15 ∧ BsSizesOK exOps15 := by
  refine ⟨?_, ?_⟩
  · unfold BsKeysOK KeysOK; decide
  · unfold BsSizesOK SizesOK; decide
example : (bsTranslate exOps15).length = 27 ∧ (digestsOf .mh (bsTranslate exOps15)).length = 21 := by decide

/-- the adapter model and the contract on the example: aliases, first Put wins, hash-on-read, a cancelled
    context, malformed CIDs, PutMany stopping at the refused block (its first block stays), deletion -/
example : ∃ s0, bsInit 8 1 1 = some s0 ∧
    (bsRun s0 exOps15).2 =
      [.notFound, .ok, .found exC1alias [5, 6], .ok,
       .found exC1 [5, 6], .ok, .wrongHash, .found exC1 [5, 6], .errCtx,
       .bool true, .size 2,
       .errOther, .found exV0alias [2, 3],
       .errOther, .errOther, .errOther, .errOther,
       .errOther, .errCtx, .ok,
       .ok, .notFound, .bool false, .notFound, .ok,
       .ok, .ok, .found exC1alias [], .errCtx, .size 0] ∧
    (bsSpecRun exOps15).2 = (bsRun s0 exOps15).2 := by
  refine ⟨_, rfl, ?_, ?_⟩
  · decide
  · decide

/-! the premises of the clause theorems are satisfiable on a non-trivial reachable state -/

def exPre15 : List BsOp :=
  [.put true exC2 [1], .putMany true [(exV0, [2, 3]), (exC1, [4])], .hashOnRead true, .del true exC2]

example : BsKeysOK (exPre15 ++ [.put true exC1 [8], .get true exC1 true, .get true exC1alias true,
      .has true exC1alias, .size true exC1alias]) ∧
    BsSizesOK (exPre15 ++ [.put true exC1 [8], .get true exC1 true, .get true exC1alias true,
      .has true exC1alias, .size true exC1alias]) ∧
    cidDigest exC1 = some [1, 2, 3, 4] ∧ cidDigest exC1alias = some [1, 2, 3, 4] := by
  refine ⟨?_, ?_, by decide, by decide⟩
  · unfold BsKeysOK KeysOK; decide
  · unfold BsSizesOK SizesOK; decide

example : bsFlagAfter false exPre15 = true ∧ (∀ op ∈ exPre15, op.puts [9, 9, 9, 9] = false) ∧
    BsOp.cancelled (.putMany false [(exC1, [1])]) = true ∧ BsOp.malformed (.has true exTrunc) = true := by decide

end Sth
