/-
C13 with garbage collection — the freelist along histories with GC cycles.

 * `C13_gc_nothing_current_recorded` (multihash stores, every history with index GC cycles, primary GC
   cycles and reopens anywhere, under C04's `GcCountersOK` — NO premise on where the primary GC cycles
   stand): in every reachable state no block on the freelist — freelist file, hand-over file `.gc`,
   memory pool — has the offset of a record that a current index entry names.  (Offsets, not just
   blocks: stronger than C13's `notcur`.)  `C13_gc_nothing_current_recorded_cid`: CID stores, every
   history, no premise (blocks; primary GC does nothing there).
 * `C13_gc_consumes`: a primary GC cycle that completes on a multihash store — in ANY state, no
   invariant needed — consumes everything recorded before it: afterwards the freelist file is empty,
   there is no hand-over file, and all that is recorded is the memory pool, which was empty after the
   second hand-over pass and holds exactly what the cycle's own relocations appended
   (`C13_gc_pool_after`).
NOT PROVED here: "nothing is recorded twice" along GC histories (it needs a history variable: an offset
consumed by a cycle must never be recorded again, which follows from the monotone allocator but is not
part of C04's `GInv`).
-/
import Sth.Lemmas.C13G
import Sth.Props.C07G

namespace Sth

/-- multihash stores: in every state reachable by ANY history — GC cycles of both kinds and reopens at
    arbitrary positions — nothing current is recorded -/
theorem C13_gc_nothing_current_recorded (c : Cfg) (hc : c.Legal) (hmh : c.kind = .mh) (ops : List SOp)
    (hk : KeysOK c.kind ops) (hs : SizesOK ops) (s0 : SState) (hi : initS c = some s0)
    (hb : GcCountersOK s0 ops) :
    let s := (runS s0 ops).1
    ∀ bkt rl, idxRecords s.m s.d bkt = .ok (some rl) → ∀ e ∈ rl, ∀ fb ∈ recordedG s,
      fb.off ≠ e.blk.off := by
  obtain ⟨_, n', hG⟩ := store_refines_map_gc_mh c hc hmh ops hk hs s0 hi hb
  exact ginv_notcur hG

/-- CID stores: every history, no premise -/
theorem C13_gc_nothing_current_recorded_cid (c : Cfg) (hc : c.Legal) (hcid : c.kind = .cid)
    (ops : List SOp) (hk : KeysOK c.kind ops) (hs : SizesOK ops) (s0 : SState)
    (hi : initS c = some s0) :
    let s := (runS s0 ops).1
    s.d.freeGc = none ∧
    ∀ bkt rl, idxRecords s.m s.d bkt = .ok (some rl) → ∀ e ∈ rl, e.blk ∉ recorded s := by
  have h := c07y_reach_cid c hc hcid ops hk hs s0 hi
  exact ⟨h.gc, h.f.notcur⟩

/-- A complete primary GC cycle consumes everything recorded before it.  For ANY state `s` of a
    multihash store: if the cycle runs (`primaryGC … = some res`, i.e. no flush error) and completes
    (`res.1.out = .ok`, not cut short by the deadline), then in the state after the step the freelist
    file is empty, there is no hand-over file, both parse to nothing, and all that is recorded is the
    memory pool. -/
theorem C13_gc_consumes (s : SState) (hk : s.m.kind = .mh) (lowUse : Nat) (budget : Budget)
    {res : PgcRes × Mem × Disk × Budget} (hres : primaryGC s.m s.d lowUse budget = some res)
    (hok : res.1.out = .ok) :
    let s' := (stepS s (.pgc lowUse budget)).1
    s'.d.free = some [] ∧ s'.d.freeGc = none ∧ flEntries s'.d = [] ∧ flGcEntries s'.d = [] ∧
      recordedG s' = s'.m.flpool := by
  obtain ⟨h1, h2⟩ := primaryGC_consumes hk lowUse budget hres hok
  have hs' : (stepS s (.pgc lowUse budget)).1 = { s with m := res.2.1, d := res.2.2.1 } := by
    simp only [stepS, hk, hres]
  rw [hs']
  have e1 : flEntries res.2.2.1 = [] := by unfold flEntries; rw [h1]; simp [parseFreeList]
  have e2 : flGcEntries res.2.2.1 = [] := flGcEntries_none h2
  refine ⟨h1, h2, e1, e2, ?_⟩
  unfold recordedG
  show flEntries res.2.2.1 ++ flGcEntries res.2.2.1 ++ res.2.1.flpool = res.2.1.flpool
  rw [e1, e2]
  rfl

/-- … and the pool afterwards holds exactly what the cycle's own relocations appended: the cycle's
    result is the loop over the closed files started from a state with an EMPTY pool, an empty freelist
    file and no hand-over file (and that loop only appends to the pool: `pgcGo_free`) -/
theorem C13_gc_pool_after (s : SState) (hk : s.m.kind = .mh) (lowUse : Nat) (budget : Budget)
    {res : PgcRes × Mem × Disk × Budget} (hres : primaryGC s.m s.d lowUse budget = some res)
    (hok : res.1.out = .ok) :
    ∃ (m2 : Mem) (d2 : Disk) (b2 : Budget) (h : PriHeader) (vis : List Nat),
      res = primaryGC.go lowUse (m2.pfileNum - h.first + 1) h.first h { m2 with visited := vis } d2 b2 0 ∧
      m2.flpool = [] ∧ d2.free = some [] ∧ d2.freeGc = none :=
  primaryGC_pool_after hk lowUse budget hres hok

/-! Non-vacuity, by evaluation on the run `exOps07g` of Sth/Props/C07G.lean: before its first primary GC
    cycle (call 10, `pgc 0 none`, complete) three blocks are recorded in the freelist file; after it the
    file is empty, there is no hand-over file, and the pool holds the three blocks the cycle's
    relocations recorded.  The cycle cut short after 3 polls (call 16) leaves the hand-over file
    behind. -/

theorem C13_example_gc_consumes :
    (initS exCfg04b).map (fun s0 =>
      ((flEntries (runS s0 (exOps07g.take 10)).1.d).length,
        (runS s0 (exOps07g.take 10)).1.m.flpool.length,
        (primaryGC (runS s0 (exOps07g.take 10)).1.m (runS s0 (exOps07g.take 10)).1.d 0 none).map
          (·.1.out))) = some (3, 0, some .ok) ∧
    (initS exCfg04b).map (fun s0 =>
      ((runS s0 (exOps07g.take 11)).1.d.free, (runS s0 (exOps07g.take 11)).1.d.freeGc,
        (runS s0 (exOps07g.take 11)).1.m.flpool.length,
        (recordedG (runS s0 (exOps07g.take 11)).1).length)) = some (some [], none, 3, 3) :=
  ⟨by decide, by decide⟩

theorem C13_example_gc_interrupted :
    (initS exCfg04b).map (fun s0 =>
      ((primaryGC (runS s0 (exOps07g.take 16)).1.m (runS s0 (exOps07g.take 16)).1.d 0 (some 3)).map
          (·.1.out),
        (runS s0 (exOps07g.take 17)).1.d.freeGc.map List.length)) =
      some (some .deadline, some 36) := by decide

end Sth
