/-
C07 — The on-disk files are mutually consistent (the fsck invariant).

"In every state reachable by any history and then quiesced (flushed), the on-disk files are mutually
consistent: every bucket of the table points at a complete, non-deleted record list tagged with that
bucket inside an existing index file at or above the header's first file; stored prefixes in a record
list are sorted, prefix-free, no two entries name the same location; every entry names a complete,
non-deleted primary record of exactly the recorded size whose key falls in that bucket and extends the
stored prefix; no location named by a live entry is on the freelist; the bucket table a reopen would
reconstruct (snapshot or rescan) is the live one."

Property theorems only (helper lemmas: Sth/Lemmas/C07Sem.lean — the clauses as propositions and the
soundness of the executable checker against them; C07Flush.lean — where the flushes put the bytes;
C07Inv.lean — the state invariant `CInv` and its preservation by every call; C07Rec.lean — the
reconstructed table).  The checker is `fsck` of Sth/Model/Fsck.lean, an independent reader of the
on-disk formats that returns the list of violated clauses, and `recoveredBuckets`.

The theorems are about the physical model of Sth/Model/Store.lean driven through Sth/Model/Machine.lean
and hold for every legal configuration (both primaries, both immutability modes, bits 8..31, file
limits 1 B .. 1 GiB), every finite sequence of Put / Get / Has / GetSize / Remove / Flush / iteration /
Close+reopen calls (histories with GC cycles are C04's), every key set satisfying C01's premise and every
value.

STRENGTH.  `C07_fsck_clean` needs no "after a flush" hypothesis: in the sequential model the disk and the
bucket table change only inside flush / close steps, and only together, so the live table is consistent
with the disk in EVERY reachable state, also with records still in the write pools (the pools are then
simply ahead of the disk).  The proof is by a state invariant `CInv` (Sth/Lemmas/C07Inv.lean) preserved
by each call (`cstep`): calls that write nothing to the disk keep the disk-side clauses verbatim
(`CInv.of_mem_step`), calls that end in a quiesced state re-derive them from the other invariants
(`diskOK_of_quiesced`) — the shape in which it can be re-proved for GC steps.

Nothing was found false.  One lemma of the C02 development was strengthened (Sth/Lemmas/C02.lean:
`step_reopen_full` exports the relation `Reopened` between the flushed and the reopened state and what
became of the freelist; `step_reopen` is now its corollary, statement unchanged).
-/
import Sth.Lemmas.C07Rec

namespace Sth

/-- C07, main theorem: in every reachable state the executable consistency check of the disk against
    the live bucket table reports no violated clause. -/
theorem C07_fsck_clean (c : Cfg) (hc : c.Legal) (ops : List SOp) (ha : ∀ op ∈ ops, op.isC02 = true)
    (hk : KeysOK c.kind ops) (hs : SizesOK ops) (s0 : SState) (hi : initS c = some s0) :
    let s := (runS s0 ops).1
    fsck c.kind s.d s.m.buckets = [] :=
  fsck_of_diskOK (c07_reach c hc ops ha hk hs s0 hi).ok

/-- the same as a proposition: every clause of the check holds (`DiskOK`, Sth/Lemmas/C07Sem.lean) -/
theorem C07_disk_consistent (c : Cfg) (hc : c.Legal) (ops : List SOp) (ha : ∀ op ∈ ops, op.isC02 = true)
    (hk : KeysOK c.kind ops) (hs : SizesOK ops) (s0 : SState) (hi : initS c = some s0) :
    let s := (runS s0 ops).1
    DiskOK c.kind s.d s.m.buckets :=
  (c07_reach c hc ops ha hk hs s0 hi).ok

/-- The bucket table a reopen would reconstruct is the live one — rescan.  Between calls the directory
    holds no bucket snapshot (OpenStore deletes it), so `recoveredBuckets` rescans the index log from
    the header's first file; in EVERY reachable state (in particular after a flush, and after a reopen
    either way) the table it builds has the non-zero entries of the live table. -/
theorem C07_recovered_table (c : Cfg) (hc : c.Legal) (ops : List SOp) (ha : ∀ op ∈ ops, op.isC02 = true)
    (hk : KeysOK c.kind ops) (hs : SizesOK ops) (s0 : SState) (hi : initS c = some s0) :
    let s := (runS s0 ops).1
    s.d.snap = none ∧
    ∃ T, recoveredBuckets s.d = some T ∧ T.filter (·.2 ≠ 0) = s.m.buckets.filter (·.2 ≠ 0) := by
  have h := c07_reach c hc ops ha hk hs s0 hi
  exact ⟨h.snap, recovered_rescan hc h.inv h.x h.snap⟩

/-- the same, spelled out for the state right after a Close + reopen step (with or without the
    snapshot) from any reachable state -/
theorem C07_recovered_table_reopen (c : Cfg) (hc : c.Legal) (ops : List SOp)
    (ha : ∀ op ∈ ops, op.isC02 = true) (hk : KeysOK c.kind ops) (hs : SizesOK ops) (s0 : SState)
    (hi : initS c = some s0) (ord : List Nat) (useSnapshot : Bool) :
    let s' := (stepS (runS s0 ops).1 (.reopen ord useSnapshot)).1
    ∃ T, recoveredBuckets s'.d = some T ∧ T.filter (·.2 ≠ 0) = s'.m.buckets.filter (·.2 ≠ 0) := by
  have h := c07_reach c hc ops ha hk hs s0 hi
  have hU := univ_of_keysOK hk (keysExact_all c.kind ops)
  have h' := cstep_reopen hc hU h (by have := hs.1; omega) (by have := hs.2.1; omega) ord useSnapshot
  exact recovered_rescan hc h'.inv h'.x h'.snap

/-- and the check passes right after such a step, too (the step need not be part of `ops`) -/
theorem C07_fsck_clean_reopen (c : Cfg) (hc : c.Legal) (ops : List SOp)
    (ha : ∀ op ∈ ops, op.isC02 = true) (hk : KeysOK c.kind ops) (hs : SizesOK ops) (s0 : SState)
    (hi : initS c = some s0) (ord : List Nat) (useSnapshot : Bool) :
    let s' := (stepS (runS s0 ops).1 (.reopen ord useSnapshot)).1
    fsck c.kind s'.d s'.m.buckets = [] := by
  have h := c07_reach c hc ops ha hk hs s0 hi
  have hU := univ_of_keysOK hk (keysExact_all c.kind ops)
  exact fsck_of_diskOK
    (cstep_reopen hc hU h (by have := hs.1; omega) (by have := hs.2.1; omega) ord useSnapshot).ok

/-- The bucket table a reopen would reconstruct is the live one — snapshot.  From every reachable state
    a clean Close succeeds and leaves a directory with a bucket snapshot; `recoveredBuckets` of that
    directory is the snapshot `T`; `recoveredBuckets` of the same directory with the snapshot dropped
    (the rescan) agrees with `T` on the non-zero entries; and so does the table of the store reopened
    from it, with or without the snapshot. -/
theorem C07_recovered_table_after_close (c : Cfg) (hc : c.Legal) (ops : List SOp)
    (ha : ∀ op ∈ ops, op.isC02 = true) (hk : KeysOK c.kind ops) (hs : SizesOK ops) (s0 : SState)
    (hi : initS c = some s0) (ord : List Nat) :
    let s := (runS s0 ops).1
    ∃ st T, storeClose { disk := s.d, mem := some s.m } (fixOrder ord s.m.inext.keys) = some st ∧
      (∃ sn, st.disk.snap = some sn ∧ sn.nz = T) ∧
      recoveredBuckets st.disk = some T ∧
      (∃ T', recoveredBuckets { st.disk with snap := none } = some T' ∧
        T'.filter (·.2 ≠ 0) = T.filter (·.2 ≠ 0)) ∧
      ∀ us, (stepS s (.reopen ord us)).1.m.buckets.filter (·.2 ≠ 0) = T.filter (·.2 ≠ 0) := by
  have h := c07_reach c hc ops ha hk hs s0 hi
  have hU := univ_of_keysOK hk (keysExact_all c.kind ops)
  exact recovered_after_close hc hU h.inv h.x (by have := hs.1; omega) (by have := hs.2.1; omega) ord

/-! ### the clauses, one by one

In each of them `s` is any reachable state, `ih` the index header on disk, `b ↦ pos` a non-empty bucket
of the live table and `rl` the record list the checker reads at `pos` (`fsckBucket … = .ok rl`; the
first corollary says that there is one). -/

section
variable (c : Cfg) (hc : c.Legal) (ops : List SOp) (ha : ∀ op ∈ ops, op.isC02 = true)
  (hk : KeysOK c.kind ops) (hs : SizesOK ops) (s0 : SState) (hi : initS c = some s0)
include hc ha hk hs hi

/-- all clauses for one bucket, for the record list the checker reads -/
theorem C07_bucket_clauses {ih : IdxHeader} {b pos : Nat} {rl : RecordList}
    (hih : (runS s0 ops).1.d.ihdr = some ih) (hb : (b, pos) ∈ (runS s0 ops).1.m.buckets) (hp : pos ≠ 0)
    (hrl : fsckBucket (runS s0 ops).1.d ih.max ih.first b pos = .ok rl) :
    BucketOK c.kind (runS s0 ops).1.d ih b pos rl := by
  obtain ⟨rl', h⟩ := (c07_reach c hc ops ha hk hs s0 hi).ok.buckets ih hih b pos hb hp
  rw [fsckBucket_of_at h.loc] at hrl
  cases hrl
  exact h

/-- Every bucket of the table points at a complete, non-deleted record list tagged with that bucket
    inside an existing index file at or above the header's first file: the file `f ≥ ih.first` exists
    and holds, at local offset `len < ih.max` with `pos = f * ih.max + len + 4`, the bytes
    `[u32 size][u32 b][record list]` with `size` below the deleted bit — and the checker reads it. -/
theorem C07_bucket_points_at_own_record_list {b pos : Nat}
    (hb : (b, pos) ∈ (runS s0 ops).1.m.buckets) (hp : pos ≠ 0) :
    let s := (runS s0 ops).1
    ∃ ih rl, s.d.ihdr = some ih ∧ fsckBucket s.d ih.max ih.first b pos = .ok rl ∧
      ∃ f len F g, ih.first ≤ f ∧ len < ih.max ∧ pos = f * ih.max + len + 4 ∧
        s.d.ifiles.get? f =
          some (F ++ (le32 ((encodeRL rl).length + 4) ++ le32 b ++ encodeRL rl) ++ g) ∧
        F.length = len ∧ (encodeRL rl).length + 4 < two31 := by
  have h := (c07_reach c hc ops ha hk hs s0 hi).ok
  cases hih : (runS s0 ops).1.d.ihdr with
  | none => exact absurd hih h.ihdr
  | some ih =>
    obtain ⟨rl, hok⟩ := h.buckets ih hih b pos hb hp
    obtain ⟨f, len, F, g, _, g2, _, g4, g5, g6, g7, _, g9, _⟩ := hok.loc
    exact ⟨ih, rl, hih, fsckBucket_of_at hok.loc, f, len, F, g, g4, g2, g5, g6, g7, g9⟩

/-- Stored prefixes in a record list are sorted, prefix-free, and no two entries name the same
    location. -/
theorem C07_entries_sorted_prefix_free_distinct {ih : IdxHeader} {b pos : Nat} {rl : RecordList}
    (hih : (runS s0 ops).1.d.ihdr = some ih) (hb : (b, pos) ∈ (runS s0 ops).1.m.buckets) (hp : pos ≠ 0)
    (hrl : fsckBucket (runS s0 ops).1.d ih.max ih.first b pos = .ok rl) :
    (rl.map (·.pfx)).Pairwise klt ∧ (rl.map (·.pfx)).Pairwise apart ∧
      (rl.map (·.blk.off)).Nodup := by
  have h := C07_bucket_clauses c hc ops ha hk hs s0 hi hih hb hp hrl
  exact ⟨h.sorted, h.prefixFree, h.distinct⟩

/-- Every entry names a complete, non-deleted primary record of exactly the recorded size whose key
    falls in that bucket and extends the stored (non-empty) prefix: the record `[u32 size][key][value]`
    with `size = e.blk.size` below the deleted bit sits at `e.blk.off` (`RecAt`; for the multihash
    primary inside an existing file at or above the header's first file), the digest of `key` has the
    bucket's bits and, stripped of the bucket prefix, extends `e.pfx` — and the checker accepts it. -/
theorem C07_entry_names_live_matching_primary_record {ih : IdxHeader} {b pos : Nat} {rl : RecordList}
    (hih : (runS s0 ops).1.d.ihdr = some ih) (hb : (b, pos) ∈ (runS s0 ops).1.m.buckets) (hp : pos ≠ 0)
    (hrl : fsckBucket (runS s0 ops).1.d ih.max ih.first b pos = .ok rl) :
    let s := (runS s0 ops).1
    ∀ e ∈ rl,
      (∃ key val dig, RecAt c.kind (hdrPmax s.d) (hdrPfirst s.d) s.d e.blk key val ∧
        e.blk.size = key.length + val.length ∧ indexKeyOf c.kind key = some dig ∧
        bucketOfKey ih.bits dig = some b ∧ e.pfx ≠ [] ∧ pfx e.pfx (dig.drop (ih.bits / 8))) ∧
      fsckEntry c.kind s.d ih.bits (hdrPmax s.d) (hdrPfirst s.d) b e = none := by
  have h := C07_bucket_clauses c hc ops ha hk hs s0 hi hih hb hp hrl
  intro s e he
  obtain ⟨key, val, dig, g1, g2, g3, g4, g5⟩ := h.entries e he
  exact ⟨⟨key, val, dig, g1, g1.1, g2, g3, g4, g5⟩, fsckEntry_of_at g1 g2 g3 g4 g5⟩

/-- No location named by a live entry is on the freelist (the freelist file or the GC's work file). -/
theorem C07_freelist_disjoint_from_live {ih : IdxHeader} {b pos : Nat} {rl : RecordList}
    (hih : (runS s0 ops).1.d.ihdr = some ih) (hb : (b, pos) ∈ (runS s0 ops).1.m.buckets) (hp : pos ≠ 0)
    (hrl : fsckBucket (runS s0 ops).1.d ih.max ih.first b pos = .ok rl) :
    let s := (runS s0 ops).1
    ∀ e ∈ rl, ∀ fb ∈ flEntries s.d ++ flGcEntries s.d, fb.off ≠ e.blk.off :=
  (C07_bucket_clauses c hc ops ha hk hs s0 hi hih hb hp hrl).notFree

/-- the blocks on the freelist are moreover exactly the superseded ones of C13 and none of them is named
    by the index as it stands in memory either (pools first): the C13 invariant holds along C02
    histories too -/
theorem C07_recorded_never_current :
    let s := (runS s0 ops).1
    ∀ bkt rl, idxRecords s.m s.d bkt = .ok (some rl) → ∀ e ∈ rl, e.blk ∉ recorded s :=
  (c07_reach c hc ops ha hk hs s0 hi).f.notcur

end

/-! ### non-vacuity

1-byte file limits (every record and every record list starts a new file), four keys over three buckets
(two sharing a bucket and two leading digest bytes), an empty value, an overwrite, a removal, a key
re-put after a reopen, flushes with explicit orders, a reopen from the snapshot. -/

def exCfg07 : Cfg := { kind := .mh, bits := 8, ifs := 1, pfs := 1, imm := false }
def exOps07 : List SOp :=
  [.put [18, 6, 1, 2, 3, 4, 5, 6] [7], .put [18, 6, 2, 2, 3, 4, 5, 7] [],
   .put [18, 6, 3, 0, 0, 0, 0, 1] [1, 2, 3], .flush [2, 1, 3],
   .put [18, 6, 1, 2, 3, 4, 5, 6] [8, 9], .rm [18, 6, 2, 2, 3, 4, 5, 7],
   .put [18, 6, 1, 2, 9, 9, 9, 9] [1], .get [18, 6, 3, 0, 0, 0, 0, 1], .flush [],
   .put [18, 7, 2, 2, 9, 9, 9, 9, 1] [4], .reopen [] true, .put [18, 6, 3, 0, 0, 0, 0, 1] [5],
   .flush [3]]

example : exCfg07.Legal := by decide
example : (∀ op ∈ exOps07, op.isC02 = true) ∧ KeysOK exCfg07.kind exOps07 ∧ SizesOK exOps07 := by
  refine ⟨by decide, ?_, ?_⟩
  · unfold KeysOK; decide
  · unfold SizesOK; decide

/-- the directory the example run leaves: seven index files, seven primary files, three freed
    locations (0, 1, 2) -/
def exDisk07 : Disk :=
  { ihdr := some { bits := 8, max := 1, first := 0, pfs := 1 },
    ifiles := [(0, [18, 0, 0, 0, 2, 0, 0, 0, 1, 0, 0, 0, 0, 0, 0, 0, 8, 0, 0, 0, 1, 2]),
               (1, [18, 0, 0, 0, 1, 0, 0, 0, 0, 0, 0, 0, 0, 0, 0, 0, 9, 0, 0, 0, 1, 2]),
               (2, [18, 0, 0, 0, 3, 0, 0, 0, 2, 0, 0, 0, 0, 0, 0, 0, 11, 0, 0, 0, 1, 0]),
               (3, [34, 0, 0, 0, 1, 0, 0, 0, 3, 0, 0, 0, 0, 0, 0, 0, 10, 0, 0, 0, 2, 2, 3,
                    4, 0, 0, 0, 0, 0, 0, 0, 9, 0, 0, 0, 2, 2, 9]),
               (4, [4, 0, 0, 0, 2, 0, 0, 0]),
               (5, [18, 0, 0, 0, 2, 0, 0, 0, 5, 0, 0, 0, 0, 0, 0, 0, 10, 0, 0, 0, 1, 2]),
               (6, [18, 0, 0, 0, 3, 0, 0, 0, 6, 0, 0, 0, 0, 0, 0, 0, 9, 0, 0, 0, 1, 0])],
    snap := none,
    phdr := some { max := 1, first := 0 },
    pfiles := [(0, [9, 0, 0, 0, 18, 6, 1, 2, 3, 4, 5, 6, 7]),
               (1, [8, 0, 0, 0, 18, 6, 2, 2, 3, 4, 5, 7]),
               (2, [11, 0, 0, 0, 18, 6, 3, 0, 0, 0, 0, 1, 1, 2, 3]),
               (3, [10, 0, 0, 0, 18, 6, 1, 2, 3, 4, 5, 6, 8, 9]),
               (4, [9, 0, 0, 0, 18, 6, 1, 2, 9, 9, 9, 9, 1]),
               (5, [10, 0, 0, 0, 18, 7, 2, 2, 9, 9, 9, 9, 1, 4]),
               (6, [9, 0, 0, 0, 18, 6, 3, 0, 0, 0, 0, 1, 5])],
    cidfile := none,
    free := some [0, 0, 0, 0, 0, 0, 0, 0, 9, 0, 0, 0, 1, 0, 0, 0, 0, 0, 0, 0, 8, 0, 0, 0,
                  2, 0, 0, 0, 0, 0, 0, 0, 11, 0, 0, 0],
    freeGc := none }

def exBuckets07 : NMap Nat := [(1, 7), (2, 9), (3, 10)]

/-- the example run reaches that directory and that table … -/
theorem C07_example_run :
    (initS exCfg07).map (fun s0 => ((runS s0 exOps07).1.d, (runS s0 exOps07).1.m.buckets)) =
      some (exDisk07, exBuckets07) := by decide

/-- … the check passes on it (by evaluation, as `C07_fsck_clean` says it must) … -/
theorem C07_example_clean : fsck .mh exDisk07 exBuckets07 = [] := by decide

/-- … in every intermediate state of the run as well … -/
theorem C07_example_clean_everywhere :
    (initS exCfg07).map (fun s0 => (List.range (exOps07.length + 1)).all fun i =>
      (fsck .mh (runS s0 (exOps07.take i)).1.d (runS s0 (exOps07.take i)).1.m.buckets).isEmpty) =
      some true := by decide

/-- … and the rescan reconstructs the live table. -/
theorem C07_example_recovered : recoveredBuckets exDisk07 = some exBuckets07 := by decide

/-! The CID primary (one primary file, CIDv1 and CIDv0-shaped keys, 12 index bits, 40-byte index
    files, reopens with and without the snapshot): the check passes in every state of the run. -/

def exCfg07Cid : Cfg := { kind := .cid, bits := 12, ifs := 40, pfs := 1, imm := false }
def exOps07Cid : List SOp :=
  [.put [1, 85, 18, 6, 1, 2, 3, 4, 5, 6] [7], .put [1, 85, 18, 6, 1, 2, 3, 4, 5, 7] [], .reopen [] true,
   .get [1, 85, 18, 6, 1, 2, 3, 4, 5, 7], .put [1, 85, 18, 6, 1, 2, 3, 4, 5, 6] [8, 9],
   .rm [1, 85, 18, 6, 1, 2, 3, 4, 5, 7], .put (18 :: 32 :: List.replicate 32 5) [3], .flush [],
   .put [1, 85, 18, 6, 9, 2, 3, 4, 5, 6] [1], .reopen [] false,
   .get [1, 85, 18, 6, 1, 2, 3, 4, 5, 6], .get (18 :: 32 :: List.replicate 32 5), .iter []]

example : exCfg07Cid.Legal := by decide
example : (∀ op ∈ exOps07Cid, op.isC02 = true) ∧ KeysOK exCfg07Cid.kind exOps07Cid ∧
    SizesOK exOps07Cid := by
  refine ⟨by decide, ?_, ?_⟩
  · unfold KeysOK; decide
  · unfold SizesOK; decide

theorem C07_example_cid_clean_everywhere :
    (initS exCfg07Cid).map (fun s0 => (List.range (exOps07Cid.length + 1)).all fun i =>
      (fsck .cid (runS s0 (exOps07Cid.take i)).1.d (runS s0 (exOps07Cid.take i)).1.m.buckets).isEmpty) =
      some true := by decide

/-- the final table of that run has three non-empty buckets and two freed locations -/
theorem C07_example_cid_final :
    (initS exCfg07Cid).map (fun s0 => ((runS s0 exOps07Cid).1.m.buckets, flEntries (runS s0 exOps07Cid).1.d)) =
      some ([(513, 44), (521, 84), (1285, 70)], [⟨0, 11⟩, ⟨15, 10⟩]) := by decide

/-! The checker is not vacuous: concrete corruptions of that directory are reported. -/

/-- flip the deleted bit of the live primary record at location 6 (size field `[9,0,0,0]` →
    `[9,0,0,128]`): the entry of bucket 3 names a deleted record -/
theorem C07_negative_deleted_record :
    (fsck .mh { exDisk07 with pfiles := exDisk07.pfiles.set 6 [9, 0, 0, 128, 18, 6, 3, 0, 0, 0, 0, 1, 5] }
      exBuckets07).length = 1 := by decide

/-- point bucket 1 at the record list of bucket 3: the tag does not match -/
theorem C07_negative_wrong_bucket :
    (fsck .mh exDisk07 [(1, 10), (2, 9), (3, 10)]).length = 1 := by decide

/-- point bucket 2 at a superseded record list of its own (position 4, written by the first flush): it
    is tagged 2 and parses, but its entry names location 1, which is on the freelist -/
theorem C07_negative_stale_record_list :
    (fsck .mh exDisk07 [(1, 7), (2, 4), (3, 10)]).length = 1 := by decide

/-- truncate the index file holding bucket 1's record list: the record list is incomplete -/
theorem C07_negative_torn_record_list :
    (fsck .mh { exDisk07 with ifiles := exDisk07.ifiles.set 3 [34, 0, 0, 0, 1, 0, 0, 0, 3, 0, 0] }
      exBuckets07).length = 1 := by decide

/-- put a live location (6) on the freelist -/
theorem C07_negative_live_on_freelist :
    (fsck .mh { exDisk07 with free := some [6, 0, 0, 0, 0, 0, 0, 0, 9, 0, 0, 0] } exBuckets07).length = 1 := by
  decide

/-- lose an index file: the rescan no longer reconstructs the live table (bucket 3 falls back to its
    superseded record list) -/
theorem C07_negative_recovered :
    recoveredBuckets { exDisk07 with ifiles := exDisk07.ifiles.filter (·.1 ≠ 6) } =
      some [(1, 7), (2, 9), (3, 6)] := by decide

end Sth
