/-
C03 (GC) — a crash after a GC cycle that was cut at any poll loses nothing that was durable.

Property theorems only (helper lemmas: Sth/Lemmas/C03Gc*.lean on top of the C03 and C04 developments).
`s` is ANY state reachable by a history of Put / Get / Has / GetSize / Remove / Flush / iteration /
Close+reopen calls WITH index GC cycles and primary GC cycles (complete or cut at any poll) at arbitrary
positions, under C04's premises (`KeysOK`, `SizesOK`, and `GcCountersOK` up to and including the state
the interrupted cycle starts from).  A GC cycle with an arbitrary budget (`none` = it ran to the end,
`some b` = the deadline hit at the poll after `b` successful ones) takes the disk `s.d` to `d'`; then the
process dies: the memory state is lost, there is no Close.  Recovery = `openStoreR c d'`.

GRANULARITY.  The model can be cut at polls only.  The individual file-system steps between two polls
(the 4-byte deleted mark, a merge write, a truncate, the header rename, an unlink) are each atomic and are
covered by the crash engine's images of the real directory, not by these theorems.

`C03_igc_interrupted_crash_recovers` — index GC, UNCONDITIONAL (any reachable state, dirty pools
included, any `scanFree`, any budget): `openStoreR c d'` succeeds and EVERY byte string reads exactly what
it reads after recovering the disk before the cycle (`openStoreR c s.d`): the cycle only flips / merges /
cuts records the bucket table does not point at, the rescan rebuilds the same table, every read through
it is unchanged.

`C03_pgc_interrupted_crash_recovers` — primary GC (multihash stores; CID stores have none), under the
decidable premise that the cycle starts with an EMPTY INDEX POOL (`s.m.inext = []`; the primary pool may
be dirty: the cycle flushes it before it touches the freelist): `openStoreR c d'` succeeds and every key
reads what the store itself answered before the cycle — the value in the specification map now — so
nothing acknowledged is lost, a fortiori nothing durable.  `C03_pgc_crash_vs_old_disk`: when both pools
are empty (the state after a Flush) this is also what recovery of the disk before the cycle reads.

`C03_d11_pgc_dirty_index_pool_loses_durable_value` — known finding D11, in the model, without the
premise: put k v; flush; put k v'; primary GC; crash — k reads ABSENT although v was durable (the cycle
hands the freed record of v to the freelist and marks it deleted while the on-disk index still names it).
-/
import Sth.Lemmas.C03GcRun
import Sth.Props.C03

namespace Sth

/-- C03, index GC interrupted at any poll, then a crash -/
theorem C03_igc_interrupted_crash_recovers (c : Cfg) (hc : c.Legal) (ops : List SOp)
    (hk : KeysOK c.kind ops) (hs : SizesOK ops) (s0 : SState) (hi : initS c = some s0)
    (scanFree : Bool) (budget : Budget) (hb : GcCountersOK s0 (ops ++ [.igc scanFree budget])) :
    let s := (runS s0 ops).1
    let d' := (indexGC s.m s.d scanFree budget).2.2.1
    d' = (stepS s (.igc scanFree budget)).1.d ∧
    ∃ dOld mOld, openStoreR c s.d = (dOld, .ok mOld) ∧
    ∃ dr mr, openStoreR c d' = (dr, .ok mr) ∧
      ∀ key, (storeGet mr dr key).2 = (storeGet mOld dOld key).2 := by
  intro s d'
  have hU := univ_of_keysOK hk (keysExact_all c.kind ops)
  obtain ⟨hb1, hb2⟩ := GcCountersOK.append ops [.igc scanFree budget] s0 hb
  obtain ⟨_, hS, hlt, hcid, _⟩ := reachable_gc c hc _ hU ops
    (fun op ho k hkey dig hcls => mem_digestsOf ho hkey hcls) hs s0 hi hb1
  have hN : s.m.ifileNum < two32 := by
    apply hlt
    rcases (by cases c.kind <;> simp : c.kind = .mh ∨ c.kind = .cid) with hkind | hkind
    · exact Or.inr hb2.1
    · exact Or.inl (hcid hkind)
  obtain ⟨_, dOld, mOld, dr, mr, o1, o2, o3⟩ := igc_crash hc hS hN scanFree budget
  exact ⟨rfl, dOld, mOld, o1, dr, mr, o2, o3⟩

/-- the recovered state after an interrupted primary GC cycle, for any key universe that covers the
    history -/
theorem pgc_crash_reachable (c : Cfg) (hc : c.Legal) (hmh : c.kind = .mh) (ops : List SOp)
    (hs : SizesOK ops) (s0 : SState) (hi : initS c = some s0) (lowUse : Nat) (budget : Budget)
    (hb : GcCountersOK s0 (ops ++ [.pgc lowUse budget]))
    (hin : (runS s0 ops).1.m.inext = []) (U : List (Bytes × Bytes)) (hU : Univ c.kind U)
    (hkeys : ∀ op ∈ ops, ∀ k, op.keyOf = some k → ∀ dig, keyClass c.kind k = .ok dig → (k, dig) ∈ U) :
    ∃ dr mr, openStoreR c (stepS (runS s0 ops).1 (.pgc lowUse budget)).1.d = (dr, .ok mr) ∧
      SInv U mr dr (specRun c.kind c.imm [] ops).1 ∧ mr.kind = c.kind ∧ mr.bits = c.bits := by
  obtain ⟨hb1, hb2⟩ := GcCountersOK.append ops [.pgc lowUse budget] s0 hb
  obtain ⟨hD, _, _, _, hG⟩ := reachable_gc c hc U hU ops hkeys hs s0 hi hb1
  have hG' := hG hmh
  have hcnt : gcCnt (runS s0 ops).1 < 268435456 := hb2.1
  have hkind : (runS s0 ops).1.m.kind = .mh := hG'.kind
  obtain ⟨res, hp⟩ := primaryGC_some (cfg := (runS s0 ops).1.cfg) hU hG' (by omega) lowUse budget
  have hd' : (stepS (runS s0 ops).1 (.pgc lowUse budget)).1.d = res.2.2.1 := by
    simp only [stepS, hkind, hp]
  rw [hd']
  exact pgc_crash hc hU (cfg := (runS s0 ops).1.cfg) hG' (by omega) hin hD lowUse budget hp

/-- C03, primary GC that starts with an empty index pool, interrupted at any poll, then a crash -/
theorem C03_pgc_interrupted_crash_recovers (c : Cfg) (hc : c.Legal) (hmh : c.kind = .mh)
    (ops : List SOp) (hk : KeysOK c.kind ops) (hs : SizesOK ops) (s0 : SState)
    (hi : initS c = some s0) (lowUse : Nat) (budget : Budget)
    (hb : GcCountersOK s0 (ops ++ [.pgc lowUse budget])) :
    let s := (runS s0 ops).1
    let d' := (stepS s (.pgc lowUse budget)).1.d
    s.m.inext = [] →
    ∃ dr mr, openStoreR c d' = (dr, .ok mr) ∧
      ∀ key, KeysOK c.kind (ops ++ [.get key]) →
        match keyClass c.kind key with
        | .error e => (storeGet mr dr key).2 = .err e
        | .ok dig =>
          (storeGet mr dr key).2 = getResOf (Spec.get (specRun c.kind c.imm [] ops).1 dig) := by
  intro s d' hin
  obtain ⟨dr, mr, o1, _, hkr, _⟩ := pgc_crash_reachable c hc hmh ops hs s0 hi lowUse budget hb hin _
    (univ_of_keysOK hk (keysExact_all c.kind ops))
    (fun op ho k hkey dig hcls => mem_digestsOf ho hkey hcls)
  refine ⟨dr, mr, o1, ?_⟩
  intro key hk'
  have hU' := univ_of_keysOK hk' (keysExact_all c.kind _)
  obtain ⟨dr', mr', o1', hA, hkr', hbr'⟩ := pgc_crash_reachable c hc hmh ops hs s0 hi lowUse budget hb
    hin _ hU' (fun op ho k hkey dig hcls => mem_digestsOf (List.mem_append_left _ ho) hkey hcls)
  have e : openStoreR c d' = (dr', .ok mr') := o1'
  rw [o1] at e
  simp only [Prod.mk.injEq, Except.ok.injEq] at e
  obtain ⟨rfl, rfl⟩ := e
  cases hcls : keyClass c.kind key with
  | error e =>
    simp only
    rw [storeGet_bad (by rw [hkr]; exact hcls)]
  | ok dig =>
    have hmem : (key, dig) ∈ digestsOf c.kind (ops ++ [.get key]) :=
      mem_digestsOf (op := .get key) (List.mem_append_right _ (List.mem_singleton_self _)) rfl hcls
    simp only
    rw [storeGet_ok (by rw [hkr]; exact hU') (by rw [hbr']; exact hc.2.1) hA hmem]
    exact getResOf_eq _

/-- with both pools empty, recovery of the disk before the cycle reads the same -/
theorem C03_pgc_crash_vs_old_disk (c : Cfg) (hc : c.Legal) (hmh : c.kind = .mh)
    (ops : List SOp) (hk : KeysOK c.kind ops) (hs : SizesOK ops) (s0 : SState)
    (hi : initS c = some s0) (lowUse : Nat) (budget : Budget)
    (hb : GcCountersOK s0 (ops ++ [.pgc lowUse budget])) :
    let s := (runS s0 ops).1
    let d' := (stepS s (.pgc lowUse budget)).1.d
    outstanding s.m = false →
    ∃ dOld mOld, openStoreR c s.d = (dOld, .ok mOld) ∧
    ∃ dr mr, openStoreR c d' = (dr, .ok mr) ∧
      ∀ key, KeysOK c.kind (ops ++ [.get key]) →
        (storeGet mr dr key).2 = (storeGet mOld dOld key).2 := by
  intro s d' hout
  have hclean : s.m.inext = [] ∧ s.m.pnext = [] := by
    unfold outstanding at hout
    simp only [Bool.or_eq_false_iff, Bool.not_eq_false'] at hout
    exact ⟨List.isEmpty_iff.mp hout.1, List.isEmpty_iff.mp hout.2⟩
  -- recovery of the old disk, for any universe
  have hold : ∀ (U : List (Bytes × Bytes)), Univ c.kind U →
      (∀ op ∈ ops, ∀ k, op.keyOf = some k → ∀ dig, keyClass c.kind k = .ok dig → (k, dig) ∈ U) →
      ∃ dOld mOld, openStoreR c s.d = (dOld, .ok mOld) ∧
        SInv U mOld dOld (specRun c.kind c.imm [] ops).1 ∧ mOld.kind = c.kind ∧ mOld.bits = c.bits := by
    intro U hU hkeys
    obtain ⟨hb1, hb2⟩ := GcCountersOK.append ops [.pgc lowUse budget] s0 hb
    obtain ⟨hD, _, _, _, hG⟩ := reachable_gc c hc U hU ops hkeys hs s0 hi hb1
    have hcnt : gcCnt (runS s0 ops).1 < 268435456 := hb2.1
    exact clean_recover_g (cfg := s.cfg) hc hU (hG hmh) (by omega) hclean.1 hclean.2 hD.snap
  obtain ⟨dOld, mOld, o1, _, hkO, _⟩ := hold _ (univ_of_keysOK hk (keysExact_all c.kind ops))
    (fun op ho k hkey dig hcls => mem_digestsOf ho hkey hcls)
  obtain ⟨dr, mr, r1, hnew⟩ := C03_pgc_interrupted_crash_recovers c hc hmh ops hk hs s0 hi lowUse
    budget hb hclean.1
  refine ⟨dOld, mOld, o1, dr, mr, r1, ?_⟩
  intro key hk'
  have hU' := univ_of_keysOK hk' (keysExact_all c.kind _)
  obtain ⟨dOld', mOld', o1', hA, hkO', hbO'⟩ := hold _ hU'
    (fun op ho k hkey dig hcls => mem_digestsOf (List.mem_append_left _ ho) hkey hcls)
  have e : openStoreR c s.d = (dOld', .ok mOld') := o1'
  rw [o1] at e
  simp only [Prod.mk.injEq, Except.ok.injEq] at e
  obtain ⟨rfl, rfl⟩ := e
  have hn := hnew key hk'
  cases hcls : keyClass c.kind key with
  | error e =>
    rw [hcls] at hn
    rw [hn, storeGet_bad (by rw [hkO]; exact hcls)]
  | ok dig =>
    rw [hcls] at hn
    have hmem : (key, dig) ∈ digestsOf c.kind (ops ++ [.get key]) :=
      mem_digestsOf (op := .get key) (List.mem_append_right _ (List.mem_singleton_self _)) rfl hcls
    simp only at hn
    rw [hn, storeGet_ok (by rw [hkO]; exact hU') (by rw [hbO']; exact hc.2.1) hA hmem]
    exact (getResOf_eq _).symm

/-! Non-vacuity and the witness of known finding D11. -/

def d11Cfg : Cfg := { kind := .mh, imm := false, bits := 8, ifs := 1024, pfs := 1024 }
/-- put k v; flush; put k v' — the index pool is dirty -/
def d11Ops : List SOp := [.put ex03K1 [1, 1], .flush [], .put ex03K1 [3]]

/-- what `keys` read (i) after recovering the disk before a primary GC cycle and (ii) after recovering
    the disk the cycle leaves -/
def afterPgc (c : Cfg) (ops : List SOp) (lowUse : Nat) (bud : Budget) (keys : List Bytes) :
    Option (List (Option (Option Bytes) × Option (Option Bytes))) :=
  match initS c with
  | none => none
  | some s0 =>
    let s := (runS s0 ops).1
    let d' := (stepS s (.pgc lowUse bud)).1.d
    match openStoreR c s.d, openStoreR c d' with
    | (dO, .ok mO), (dr, .ok mr) =>
      some (keys.map fun key => (getCode (storeGet mO dO key).2, getCode (storeGet mr dr key).2))
    | _, _ => none

example : d11Cfg.Legal ∧ KeysOK d11Cfg.kind d11Ops ∧ SizesOK d11Ops ∧
    GcCountersOK ((initS d11Cfg).getD ⟨d11Cfg, (openMem d11Cfg [] 0 0 0 0), {}⟩)
      (d11Ops ++ [.pgc 0 none]) := by
  refine ⟨by decide, ?_, ?_, by decide⟩
  · unfold KeysOK; decide
  · unfold SizesOK; decide

/-- known finding D11 in the model: the premise `s.m.inext = []` of
    `C03_pgc_interrupted_crash_recovers` fails for this history, and after the cycle and a crash the
    key reads ABSENT although `[1, 1]` was durable (what recovery of the disk before the cycle reads);
    already when the cycle is cut after its first poll -/
theorem C03_d11_pgc_dirty_index_pool_loses_durable_value :
    afterPgc d11Cfg d11Ops 0 none [ex03K1] = some [(some (some [1, 1]), some none)] ∧
    afterPgc d11Cfg d11Ops 0 (some 1) [ex03K1] = some [(some (some [1, 1]), some none)] ∧
    afterPgc d11Cfg d11Ops 0 (some 0) [ex03K1] = some [(some (some [1, 1]), some (some [1, 1]))] := by
  refine ⟨by decide +kernel, by decide +kernel, by decide +kernel⟩

/-- with the index pool flushed first the same cycle is harmless -/
example : afterPgc d11Cfg (d11Ops ++ [.flush []]) 0 none [ex03K1] =
    some [(some (some [3]), some (some [3]))] := by decide +kernel

/-! Non-vacuity for index GC: a history with overwrites, removals and three flushes under 1-byte file
    limits (every record its own index file); the cycle is cut at each of its first 40 polls and run to
    the end, with and without `scanFree`: 40 of the 41 disks differ from the disk before the cycle, and
    all of them recover to the same reads. -/

def igcOps03 : List SOp :=
  exOps03 ++ [.flush [], .put ex03K1 [5], .put ex03K2 [6], .flush [], .put ex03K3 [7], .rm ex03K1]

/-- over the budgets `some 0 … some (maxB-1), none`: how many disks the cycle leaves differ from the disk
    before it, and whether all of them recover to the reads of the disk before it -/
def afterIgc (c : Cfg) (ops : List SOp) (sf : Bool) (keys : List Bytes) (maxB : Nat) :
    Option (Nat × Bool) :=
  match initS c with
  | none => none
  | some s0 =>
    let s := (runS s0 ops).1
    match openStoreR c s.d with
    | (dO, .ok mO) =>
      let old := keys.map fun key => getCode (storeGet mO dO key).2
      let res := (List.range (maxB + 1)).map fun b =>
        let d' := (indexGC s.m s.d sf (if b = maxB then none else some b)).2.2.1
        match openStoreR c d' with
        | (dr, .ok mr) =>
          (decide (d' = s.d), decide ((keys.map fun key => getCode (storeGet mr dr key).2) = old))
        | _ => (true, false)
      some ((res.filter (fun x => !x.1)).length, res.all (·.2))
    | _ => none

example : KeysOK exCfg03b.kind igcOps03 ∧ SizesOK igcOps03 ∧
    GcCountersOK ((initS exCfg03b).getD ⟨exCfg03b, (openMem exCfg03b [] 0 0 0 0), {}⟩)
      (igcOps03 ++ [.igc true none]) := by
  refine ⟨?_, ?_, by decide⟩
  · unfold KeysOK; decide
  · unfold SizesOK; decide

set_option maxRecDepth 100000 in
example : afterIgc exCfg03b igcOps03 true [ex03K1, ex03K2, ex03K3] 40 = some (40, true) ∧
    afterIgc exCfg03b igcOps03 false [ex03K1, ex03K2, ex03K3] 40 = some (40, true) := by
  refine ⟨by decide +kernel, by decide +kernel⟩

end Sth
