/-
C04 — GC cycles are invisible: for every history of Put / Get / Has / GetSize / Remove / Flush /
iteration / Close+reopen with index GC cycles and primary GC cycles (complete, or cut short by the time
limit at ANY poll) at arbitrary positions, every call returns what it returns without the GC cycles.

Property theorems only (helper lemmas: Sth/Lemmas/GcSpan.lean, Sth/Lemmas/C04*.lean, on top of the
C01 / C02 development).  `igc scanFree budget` and `pgc lowUse budget` are the steps of `stepS`
(Sth/Model/Machine.lean) built from `indexGC` and `primaryGC` of Sth/Model/GC.lean; `budget` is the
number of successful `ctx.Err()` polls before the deadline (`none` = no deadline).  The specification
treats both as no-ops, so refinement means the GC cycles stutter.

STATUS (milestone 3).  Proved:
  * `C04_store_refines_map` / `C02_store_refines_map_gc` — the full statement for EVERY history (index
    GC cycles, primary GC cycles and reopens at arbitrary positions) under one extra explicit, decidable
    hypothesis `GcCountersOK s ops` on the run: the file counters stay below 2^28 (see below why a bound
    of this kind cannot be dropped); `C04_store_refines_map_budget` — the same with the bound stated on
    the calls alone (`GcBudgetOK 0 ops`); `C04_store_refines_map_cid` — CID stores need no extra bound
    (primary GC does nothing there).
  * `C04_indexGC_stutters`, `C04_store_refines_map_partial_igc`, `C04_reopen_after_igc` (milestone 1:
    histories without primary GC cycles need `SizesOK` only).
  * `C04_primaryGC_stutters` (milestone 2: one primary GC cycle on a state satisfying the GC invariant
    `GInv`, Sth/Lemmas/C04G.lean), `C04_primaryGC_stutters_reachable`, `C04_gc_cycles_invisible`,
    `C04_gc_idempotent_on_contents` (milestone 4, multihash stores).
-/
import Sth.Lemmas.C04M1
import Sth.Lemmas.C04M4

namespace Sth

/- The unrestricted statement

theorem C04_store_refines_map (c : Cfg) (hc : c.Legal) (ops : List SOp)
    (hk : KeysOK c.kind ops) (hs : SizesOK ops) (s : SState) (hi : initS c = some s) :
    (runS s ops).2 = (specRun c.kind c.imm [] ops).2

is proved below with ONE more hypothesis, `GcCountersOK s ops`.  Why `SizesOK` alone is not enough once
primary GC cycles are in the history: `SizesOK` bounds the number of calls (< 2^30) and of put bytes
(< 2^31); without relocation that bounds every file number by the number of calls, which is how C01 and
C02 (and milestone 1 here) get by with `SizesOK`.  Relocation breaks the link between calls and file
numbers.  With N live records in 1-byte primary files, one cycle with `lowUse = 0` relocates all N
records into N new files (reapRecords relocates the last two live records of every unvisited closed
file; the hand-over pass of the next cycle marks the old copies, the files are revisited, found empty
and unlinked, and the relocated copies — unvisited files again — are relocated once more).  So the
primary file number grows by N per cycle: 2^20 puts followed by 2^12 cycles satisfy `SizesOK` and push
the file number past 2^32, where `localizePri` (the real code's uint32 file number) wraps and a Get
reads the wrong file.  The unrestricted statement is therefore (almost certainly) false in the model
exactly where the real store breaks too; the history is far too long to evaluate (about 4·10^9 file
creations), so no `#eval` counterexample is given.  `GcCountersOK s ops` (Sth/Lemmas/C04M3.lean) says
what is needed, on the reached states: in every state the run passes through, `precFileNum` and
`ifileNum + |inext|` are below 2^28 (2^28 rather than 2^32 keeps every counter inside a cycle, which
can triple them, below the 2^30 the C01 lemmas work with).  It is decidable (`decide` evaluates it on
the example below), and `GcBudgetOK 0 ops` is a sufficient condition on the calls alone (budget: +1
per call, ×3 per primary GC cycle, below 2^28 before every call).
-/

/-- C04, the full statement: every history of Put / Get / Has / GetSize / Remove / Flush / iteration /
    Close+reopen (snapshot or rescan) with index GC cycles and primary GC cycles — complete, or cut
    short by the time limit at ANY poll, with any `scanFree` / `lowUse` — at arbitrary positions returns
    exactly what the in-memory map returns (the specification treats GC cycles and reopens as no-ops).
    `hb` is the explicit bound on the file counters along the run discussed above. -/
theorem C04_store_refines_map (c : Cfg) (hc : c.Legal) (ops : List SOp)
    (hk : KeysOK c.kind ops) (hs : SizesOK ops) (s : SState) (hi : initS c = some s)
    (hb : GcCountersOK s ops) :
    (runS s ops).2 = (specRun c.kind c.imm [] ops).2 :=
  store_refines_map_gc c hc ops hk hs s hi hb

/-- the same theorem under C02's name: C02's statement with GC cycles of both kinds among the calls -/
theorem C02_store_refines_map_gc (c : Cfg) (hc : c.Legal) (ops : List SOp)
    (hk : KeysOK c.kind ops) (hs : SizesOK ops) (s : SState) (hi : initS c = some s)
    (hb : GcCountersOK s ops) :
    (runS s ops).2 = (specRun c.kind c.imm [] ops).2 :=
  C04_store_refines_map c hc ops hk hs s hi hb

/-- the full statement with the bound on the calls alone: `GcBudgetOK 0 ops` starts a budget at 0, adds
    one per call, triples it at every primary GC cycle, and asks that it is below 2^28 before every
    call -/
theorem C04_store_refines_map_budget (c : Cfg) (hc : c.Legal) (ops : List SOp)
    (hk : KeysOK c.kind ops) (hs : SizesOK ops) (s : SState) (hi : initS c = some s)
    (hb : GcBudgetOK 0 ops) :
    (runS s ops).2 = (specRun c.kind c.imm [] ops).2 :=
  store_refines_map_gc_budget c hc ops hk hs s hi hb

/-- the budget is a sufficient condition for the bound on the run -/
theorem C04_countersOK_of_budget (c : Cfg) (hc : c.Legal) (hmh : c.kind = .mh) (ops : List SOp)
    (hk : KeysOK c.kind ops) (hs : SizesOK ops) (s : SState) (hi : initS c = some s)
    (hb : GcBudgetOK 0 ops) : GcCountersOK s ops :=
  gcCountersOK_of_budget c hc hmh ops hk hs s hi hb

/-- CID stores: the unrestricted statement holds as it stands (primary GC is a no-op on them) -/
theorem C04_store_refines_map_cid (c : Cfg) (hc : c.Legal) (hcid : c.kind = .cid) (ops : List SOp)
    (hk : KeysOK c.kind ops) (hs : SizesOK ops) (s : SState) (hi : initS c = some s) :
    (runS s ops).2 = (specRun c.kind c.imm [] ops).2 :=
  store_refines_map_gc_cid c hc hcid ops hk hs s hi

/-- C04 without primary GC cycles: index GC cycles (complete or cut short at any poll, with or without
    the free-file scan) and Close+reopen (snapshot or rescan) at arbitrary positions among the calls;
    every call returns what it returns on an in-memory map.  The hypothesis `isC04a` excludes exactly
    the `pgc` steps. -/
theorem C04_store_refines_map_partial_igc (c : Cfg) (hc : c.Legal) (ops : List SOp)
    (ha : ∀ op ∈ ops, op.isC04a = true) (hk : KeysOK c.kind ops) (hs : SizesOK ops) (s : SState)
    (hi : initS c = some s) :
    (runS s ops).2 = (specRun c.kind c.imm [] ops).2 :=
  (store_refines_map_igc c hc ops ha hk hs s hi).1

/-- the same theorem under C02's name: C02's statement with index GC cycles among the calls -/
theorem C02_store_refines_map_igc (c : Cfg) (hc : c.Legal) (ops : List SOp)
    (ha : ∀ op ∈ ops, op.isC04a = true) (hk : KeysOK c.kind ops) (hs : SizesOK ops) (s : SState)
    (hi : initS c = some s) :
    (runS s ops).2 = (specRun c.kind c.imm [] ops).2 :=
  C04_store_refines_map_partial_igc c hc ops ha hk hs s hi

/-- In every state reachable by calls other than primary GC, an index GC cycle — for every `scanFree`
    and every budget, i.e. with the deadline at any poll — outputs nothing the specification looks at,
    changes the memory state only in the resume point, leaves every bucket's record list and every
    primary read unchanged, and does not touch the primary files, the primary header or the freelist
    files.  (Marking records deleted, merging deleted spans, truncating deleted tails, emptying and
    unlinking files and advancing the header's first file all happen inside the index files.) -/
theorem C04_indexGC_stutters (c : Cfg) (hc : c.Legal) (ops : List SOp)
    (ha : ∀ op ∈ ops, op.isC04a = true) (hk : KeysOK c.kind ops) (hs : SizesOK ops) (s0 : SState)
    (hi : initS c = some s0) (scanFree : Bool) (budget : Budget) :
    let s := (runS s0 ops).1
    let s' := (stepS s (.igc scanFree budget)).1
    (stepS s (.igc scanFree budget)).2 = .gc ∧
      (∃ g, s'.m = { s.m with gcResume := g }) ∧
      (∀ b, idxRecords s'.m s'.d b = idxRecords s.m s.d b) ∧
      (∀ blk, priGet s'.m s'.d blk = priGet s.m s.d blk) ∧
      s'.d.pfiles = s.d.pfiles ∧ s'.d.cidfile = s.d.cidfile ∧ s'.d.phdr = s.d.phdr ∧
      s'.d.free = s.d.free ∧ s'.d.freeGc = s.d.freeGc := by
  obtain ⟨_, hI, hX⟩ := store_refines_map_igc c hc ops ha hk hs s0 hi
  exact igc_stutters hI hX (by have := hs.1; omega) scanFree budget

/-- After any such history — in particular after index GC cycles have marked records deleted, merged
    spans, truncated and unlinked files — a reopen succeeds with the snapshot and by rescanning the
    index log (which skips the deleted spans), and both leave every bucket's record list and every
    readable primary record unchanged; hence they agree with each other. -/
theorem C04_reopen_after_igc (c : Cfg) (hc : c.Legal) (ops : List SOp)
    (ha : ∀ op ∈ ops, op.isC04a = true) (hk : KeysOK c.kind ops) (hs : SizesOK ops) (s0 : SState)
    (hi : initS c = some s0) (ord : List Nat) (useSnapshot : Bool) :
    let s := (runS s0 ops).1
    let s' := (stepS s (.reopen ord useSnapshot)).1
    (stepS s (.reopen ord useSnapshot)).2 = .gc ∧
      (∀ b, idxRecords s'.m s'.d b = idxRecords s.m s.d b) ∧
      (∀ blk k v, priGet s.m s.d blk = .got k v → priGet s'.m s'.d blk = .got k v) := by
  obtain ⟨_, hI, hX⟩ := store_refines_map_igc c hc ops ha hk hs s0 hi
  have hU := univ_of_keysOK hk (keysExact_all c.kind ops)
  exact reopen_observations4 hc hU hI hX (by have := hs.1; omega) (by have := hs.2.1; omega) ord
    useSnapshot

/-- A primary GC cycle on a multihash store in a state satisfying the GC invariant for the
    specification map `spec` — two hand-over passes (freelist rotation, primary flush, deleteRecords),
    reapRecords on every unvisited closed file (merging deleted spans, truncating deleted tails,
    relocating the last two records of a sparsely used file, unlinking an emptied first file), cut short
    by the deadline at ANY poll or by a flush error —
    (a) keeps the invariant for the SAME map (`k` bounds the file counters; every relocation may open
        one more file, hence `3 * k`),
    (b) leaves the result of every Get / Has / GetSize unchanged, and
    (c) leaves every key of the map with an index entry whose record is readable: no live record was
        marked deleted, truncated or lost in a relocation. -/
theorem C04_primaryGC_stutters {c : Cfg} {U : List (Bytes × Bytes)} {s : SState} {spec : Spec}
    {k B : Nat} (hU : Univ c.kind U) (hG : GInv c U s spec k B) (hk : 3 * k < 1073741824)
    (lowUse : Nat) (budget : Budget) :
    (stepS s (.pgc lowUse budget)).2 = .gc ∧
    (∃ k', GInv c U (stepS s (.pgc lowUse budget)).1 spec k' B ∧ k' ≤ 3 * k) ∧
    (∀ op : SOp, ((∃ key, op = .get key) ∨ (∃ key, op = .has key) ∨ (∃ key, op = .size key)) →
      (∀ key, op.keyOf = some key → ∀ dig, keyClass c.kind key = .ok dig → (key, dig) ∈ U) →
      (stepS (stepS s (.pgc lowUse budget)).1 op).2 = (stepS s op).2 ∧
      (stepS (stepS s (.pgc lowUse budget)).1 op).1 = (stepS s (.pgc lowUse budget)).1) ∧
    (∀ dig key val, Spec.get spec dig = some (key, val) →
      ∃ blk, IsEnt (stepS s (.pgc lowUse budget)).1.m (stepS s (.pgc lowUse budget)).1.d blk ∧
        priGet (stepS s (.pgc lowUse budget)).1.m (stepS s (.pgc lowUse budget)).1.d blk =
          .got key val) :=
  primaryGC_stutters hU hG hk lowUse budget

/-- On a multihash store, after ANY history, a primary GC cycle changes the answer of no read. -/
theorem C04_primaryGC_stutters_reachable (c : Cfg) (hc : c.Legal) (hmh : c.kind = .mh)
    (ops : List SOp) (op : SOp) (lowUse : Nat) (budget : Budget)
    (hop : (∃ key, op = .get key) ∨ (∃ key, op = .has key) ∨ (∃ key, op = .size key))
    (hk : KeysOK c.kind (ops ++ [op])) (hs : SizesOK (ops ++ [op])) (s0 : SState)
    (hi : initS c = some s0) (hb : GcCountersOK s0 (ops ++ [.pgc lowUse budget])) :
    (stepS (stepS (runS s0 ops).1 (.pgc lowUse budget)).1 op).2 = (stepS (runS s0 ops).1 op).2 :=
  pgc_stutters_reachable c hc hmh ops op lowUse budget hop hk hs s0 hi hb

/-- On a multihash store, after ANY history, ANY sequence of GC cycles (`isGC`: index and primary, each
    complete or cut short at any poll) changes the answer of no read: GC is idempotent on the contents,
    a cycle resumed after an interrupted one loses nothing, and what is reclaimed is never something a
    read can see. -/
theorem C04_gc_cycles_invisible (c : Cfg) (hc : c.Legal) (hmh : c.kind = .mh) (ops gcs : List SOp)
    (op : SOp) (hg : ∀ g ∈ gcs, g.isGC = true)
    (hop : (∃ key, op = .get key) ∨ (∃ key, op = .has key) ∨ (∃ key, op = .size key))
    (hk : KeysOK c.kind (ops ++ [op])) (hs : SizesOK (ops ++ [op])) (s0 : SState)
    (hi : initS c = some s0) (hb : GcCountersOK s0 (ops ++ gcs)) :
    (stepS (runS (runS s0 ops).1 gcs).1 op).2 = (stepS (runS s0 ops).1 op).2 :=
  gc_cycles_invisible c hc hmh ops gcs op hg hop hk hs s0 hi hb

/-- GC is idempotent on the contents: after any history, a GC cycle of either kind run twice leaves
    every read with the same answer as the cycle run once. -/
theorem C04_gc_idempotent_on_contents (c : Cfg) (hc : c.Legal) (hmh : c.kind = .mh) (ops : List SOp)
    (g op : SOp) (hg : g.isGC = true)
    (hop : (∃ key, op = .get key) ∨ (∃ key, op = .has key) ∨ (∃ key, op = .size key))
    (hk : KeysOK c.kind (ops ++ [op])) (hs : SizesOK (ops ++ [op])) (s0 : SState)
    (hi : initS c = some s0) (hb : GcCountersOK s0 (ops ++ [g, g])) :
    (stepS (runS (runS s0 ops).1 [g, g]).1 op).2 = (stepS (runS (runS s0 ops).1 [g]).1 op).2 :=
  gc_idempotent_on_contents c hc hmh ops g op hg hop hk hs s0 hi hb

/-! Non-vacuity: 1-byte files (every record its own file, so index GC empties, unlinks and advances
    the first file), overwrites and removals that leave stale index records, index GC cycles with and
    without the free-file scan, complete and with the deadline after 0, 1, 2 and 3 polls, reopens by
    snapshot and by rescan after them. -/

def exCfg04 : Cfg := { kind := .mh, bits := 8, ifs := 1, pfs := 1, imm := false }
def exOps04a : List SOp :=
  [.put [18, 6, 1, 2, 3, 4, 5, 6] [7], .flush [], .put [18, 6, 1, 2, 3, 4, 5, 7] [], .flush [],
   .put [18, 6, 1, 2, 3, 4, 5, 6] [8, 9], .flush [], .rm [18, 6, 1, 2, 3, 4, 5, 7], .flush [],
   .igc false (some 1), .get [18, 6, 1, 2, 3, 4, 5, 6], .igc true (some 0), .igc true (some 2),
   .reopen [] false, .get [18, 6, 1, 2, 3, 4, 5, 6], .put [18, 7, 2, 2, 9, 9, 9, 9, 1] [4], .flush [],
   .igc true none, .igc false (some 3), .reopen [] true, .igc true none, .reopen [] false,
   .has [18, 6, 1, 2, 3, 4, 5, 7], .size [18, 7, 2, 2, 9, 9, 9, 9, 1], .iter []]

example : exCfg04.Legal := by decide
example : (∀ op ∈ exOps04a, op.isC04a = true) ∧ KeysOK exCfg04.kind exOps04a ∧ SizesOK exOps04a := by
  refine ⟨by decide, ?_, ?_⟩
  · unfold KeysOK; decide
  · unfold SizesOK; decide

/-- in this run index GC really works on the files: the index header's first file has advanced to 3
    (of 5 files) -/
example : ∃ s, initS exCfg04 = some s ∧
    ((runS s exOps04a).1.d.ihdr.map IdxHeader.first, (runS s exOps04a).1.m.ifileNum) = (some 3, 4) := by
  refine ⟨_, rfl, ?_⟩
  decide

/-! Non-vacuity of the full statement: 40-byte primary files; overwrites and a removal leave dead
    records in closed files; the first primary GC cycle (`lowUse = 0`: relocate from every file) hands
    the freelist over, marks the dead records, truncates the dead tail of file 1 (44 → 30 bytes) and
    relocates three live records (three pooled records, three old blocks on the in-memory freelist);
    the next cycle is cut short after 3 polls with the hand-over file still in place; later cycles,
    between reopens by rescan and by snapshot, free the relocated records' old places, empty and unlink
    files, and advance the primary header's first file to 4. -/

def exCfg04b : Cfg := { kind := .mh, bits := 8, ifs := 64, pfs := 40, imm := false }
def exK1 : Bytes := [18, 6, 1, 2, 3, 4, 5, 6]
def exK2 : Bytes := [18, 6, 1, 2, 3, 4, 5, 7]
def exK3 : Bytes := [18, 7, 2, 2, 9, 9, 9, 9, 1]
def exK4 : Bytes := [18, 6, 3, 2, 3, 4, 5, 8]
def exOps04 : List SOp :=
  [.put exK1 [7], .put exK2 [1, 2, 3], .put exK3 [4], .flush [], .put exK4 [5, 5],
   .put exK2 [3, 3, 3, 3], .put exK4 [6, 6], .flush [], .put exK4 [7, 7], .flush [],
   .pgc 0 none, .get exK1, .get exK2, .get exK3, .igc true none, .flush [], .pgc 0 (some 3),
   .pgc 0 none, .get exK4, .reopen [] false, .pgc 50 none, .get exK1, .rm exK3, .pgc 0 (some 5),
   .reopen [] true, .pgc 0 none, .has exK2, .size exK3, .iter []]

example : exCfg04b.Legal := by decide
example : KeysOK exCfg04b.kind exOps04 ∧ SizesOK exOps04 := by
  refine ⟨?_, ?_⟩
  · unfold KeysOK; decide
  · unfold SizesOK; decide

/-- the extra hypothesis of the full statement holds on this run, and so does the budget on the calls -/
example : ∃ s, initS exCfg04b = some s ∧ GcCountersOK s exOps04 := ⟨_, rfl, by decide⟩
example : GcBudgetOK 0 exOps04 := by decide

/-- the first primary GC cycle relocates: three pooled records, three freed blocks, file 1 truncated -/
example : ∃ s, initS exCfg04b = some s ∧
    (let m := (runS s (exOps04.take 11)).1.m
     let d := (runS s (exOps04.take 11)).1.d
     (m.pnext.length, m.flpool.length, m.precFileNum, d.pfiles.map fun p => (p.1, p.2.length))) =
      (3, 3, 3, [(0, 42), (1, 30), (2, 14)]) := ⟨_, rfl, by decide⟩

/-- the cycle cut short after 3 polls leaves the hand-over file behind; at the end the first primary
    file is 4 -/
example : ∃ s, initS exCfg04b = some s ∧
    ((runS s (exOps04.take 17)).1.d.freeGc.map List.length,
      (runS s exOps04).1.d.phdr.map PriHeader.first, (runS s exOps04).1.m.pfileNum) =
      (some 36, some 4, 4) := ⟨_, rfl, by decide⟩

end Sth
