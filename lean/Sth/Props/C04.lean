/-
C04 — GC cycles are invisible: for every history of Put / Get / Has / GetSize / Remove / Flush /
iteration / Close+reopen with index GC cycles and primary GC cycles (complete, or cut short by the time
limit at ANY poll) at arbitrary positions, every call returns what it returns without the GC cycles.

Property theorems only (helper lemmas: Sth/Lemmas/GcSpan.lean, Sth/Lemmas/C04*.lean, on top of the
C01 / C02 development).  `igc scanFree budget` and `pgc lowUse budget` are the steps of `stepS`
(Sth/Model/Machine.lean) built from `indexGC` and `primaryGC` of Sth/Model/GC.lean; `budget` is the
number of successful `ctx.Err()` polls before the deadline (`none` = no deadline).  The specification
treats both as no-ops, so refinement means the GC cycles stutter.

STATUS (milestone 1).  Proved: index GC cycles stutter — `C04_indexGC_stutters`,
`C04_store_refines_map_partial_igc` (the full refinement statement for every history WITHOUT primary GC
cycles: index GC cycles and reopens — snapshot and rescan — at arbitrary positions) and
`C04_reopen_after_igc`.  The full statement, with primary GC cycles, is kept below as a comment.

STATUS (milestone 2).  Proved: a primary GC cycle stutters on every multihash state that satisfies the
GC invariant `GInv` (Sth/Lemmas/C04G.lean) — `C04_primaryGC_stutters`.  `GInv` is kept by put / remove /
reads / flush / index GC / reopen (Sth/Lemmas/C04GStep.lean … C04GIgc.lean); the run theorem that
threads it through whole histories is milestone 3.
-/
import Sth.Lemmas.C04M1
import Sth.Lemmas.C04M2

namespace Sth

/- full statement, not yet proved (primary GC cycles are the open part):

theorem C04_store_refines_map (c : Cfg) (hc : c.Legal) (ops : List SOp)
    (hk : KeysOK c.kind ops) (hs : SizesOK ops) (s : SState) (hi : initS c = some s) :
    (runS s ops).2 = (specRun c.kind c.imm [] ops).2
-/

/-- C04 without primary GC cycles: index GC cycles (complete or cut short at any poll, with or without
    the free-file scan) and Close+reopen (snapshot or rescan) at arbitrary positions among the calls;
    every call returns what it returns on an in-memory map.  The hypothesis `isC04a` excludes exactly
    the `pgc` steps. -/
theorem C04_store_refines_map_partial_igc (c : Cfg) (hc : c.Legal) (ops : List SOp)
    (ha : ∀ op ∈ ops, op.isC04a = true) (hk : KeysOK c.kind ops) (hs : SizesOK ops) (s : SState)
    (hi : initS c = some s) :
    (runS s ops).2 = (specRun c.kind c.imm [] ops).2 :=
  (store_refines_map_igc c hc ops ha hk hs s hi).1

/-- the same theorem under C02's name: C02's statement with index GC cycles among the calls -/
theorem C02_store_refines_map_igc (c : Cfg) (hc : c.Legal) (ops : List SOp)
    (ha : ∀ op ∈ ops, op.isC04a = true) (hk : KeysOK c.kind ops) (hs : SizesOK ops) (s : SState)
    (hi : initS c = some s) :
    (runS s ops).2 = (specRun c.kind c.imm [] ops).2 :=
  C04_store_refines_map_partial_igc c hc ops ha hk hs s hi

/-- In every state reachable by calls other than primary GC, an index GC cycle — for every `scanFree`
    and every budget, i.e. with the deadline at any poll — outputs nothing the specification looks at,
    changes the memory state only in the resume point, leaves every bucket's record list and every
    primary read unchanged, and does not touch the primary files, the primary header or the freelist
    files.  (Marking records deleted, merging deleted spans, truncating deleted tails, emptying and
    unlinking files and advancing the header's first file all happen inside the index files.) -/
theorem C04_indexGC_stutters (c : Cfg) (hc : c.Legal) (ops : List SOp)
    (ha : ∀ op ∈ ops, op.isC04a = true) (hk : KeysOK c.kind ops) (hs : SizesOK ops) (s0 : SState)
    (hi : initS c = some s0) (scanFree : Bool) (budget : Budget) :
    let s := (runS s0 ops).1
    let s' := (stepS s (.igc scanFree budget)).1
    (stepS s (.igc scanFree budget)).2 = .gc ∧
      (∃ g, s'.m = { s.m with gcResume := g }) ∧
      (∀ b, idxRecords s'.m s'.d b = idxRecords s.m s.d b) ∧
      (∀ blk, priGet s'.m s'.d blk = priGet s.m s.d blk) ∧
      s'.d.pfiles = s.d.pfiles ∧ s'.d.cidfile = s.d.cidfile ∧ s'.d.phdr = s.d.phdr ∧
      s'.d.free = s.d.free ∧ s'.d.freeGc = s.d.freeGc := by
  obtain ⟨_, hI, hX⟩ := store_refines_map_igc c hc ops ha hk hs s0 hi
  exact igc_stutters hI hX (by have := hs.1; omega) scanFree budget

/-- After any such history — in particular after index GC cycles have marked records deleted, merged
    spans, truncated and unlinked files — a reopen succeeds with the snapshot and by rescanning the
    index log (which skips the deleted spans), and both leave every bucket's record list and every
    readable primary record unchanged; hence they agree with each other. -/
theorem C04_reopen_after_igc (c : Cfg) (hc : c.Legal) (ops : List SOp)
    (ha : ∀ op ∈ ops, op.isC04a = true) (hk : KeysOK c.kind ops) (hs : SizesOK ops) (s0 : SState)
    (hi : initS c = some s0) (ord : List Nat) (useSnapshot : Bool) :
    let s := (runS s0 ops).1
    let s' := (stepS s (.reopen ord useSnapshot)).1
    (stepS s (.reopen ord useSnapshot)).2 = .gc ∧
      (∀ b, idxRecords s'.m s'.d b = idxRecords s.m s.d b) ∧
      (∀ blk k v, priGet s.m s.d blk = .got k v → priGet s'.m s'.d blk = .got k v) := by
  obtain ⟨_, hI, hX⟩ := store_refines_map_igc c hc ops ha hk hs s0 hi
  have hU := univ_of_keysOK hk (keysExact_all c.kind ops)
  exact reopen_observations4 hc hU hI hX (by have := hs.1; omega) (by have := hs.2.1; omega) ord
    useSnapshot

/-- A primary GC cycle on a multihash store in a state satisfying the GC invariant for the
    specification map `spec` — two hand-over passes (freelist rotation, primary flush, deleteRecords),
    reapRecords on every unvisited closed file (merging deleted spans, truncating deleted tails,
    relocating the last two records of a sparsely used file, unlinking an emptied first file), cut short
    by the deadline at ANY poll or by a flush error —
    (a) keeps the invariant for the SAME map (`k` bounds the file counters; every relocation may open
        one more file, hence `3 * k`),
    (b) leaves the result of every Get / Has / GetSize unchanged, and
    (c) leaves every key of the map with an index entry whose record is readable: no live record was
        marked deleted, truncated or lost in a relocation. -/
theorem C04_primaryGC_stutters {c : Cfg} {U : List (Bytes × Bytes)} {s : SState} {spec : Spec}
    {k B : Nat} (hU : Univ c.kind U) (hG : GInv c U s spec k B) (hk : 3 * k < 1073741824)
    (lowUse : Nat) (budget : Budget) :
    (stepS s (.pgc lowUse budget)).2 = .gc ∧
    (∃ k', GInv c U (stepS s (.pgc lowUse budget)).1 spec k' B ∧ k' ≤ 3 * k) ∧
    (∀ op : SOp, ((∃ key, op = .get key) ∨ (∃ key, op = .has key) ∨ (∃ key, op = .size key)) →
      (∀ key, op.keyOf = some key → ∀ dig, keyClass c.kind key = .ok dig → (key, dig) ∈ U) →
      (stepS (stepS s (.pgc lowUse budget)).1 op).2 = (stepS s op).2 ∧
      (stepS (stepS s (.pgc lowUse budget)).1 op).1 = (stepS s (.pgc lowUse budget)).1) ∧
    (∀ dig key val, Spec.get spec dig = some (key, val) →
      ∃ blk, IsEnt (stepS s (.pgc lowUse budget)).1.m (stepS s (.pgc lowUse budget)).1.d blk ∧
        priGet (stepS s (.pgc lowUse budget)).1.m (stepS s (.pgc lowUse budget)).1.d blk =
          .got key val) :=
  primaryGC_stutters hU hG hk lowUse budget

/-! Non-vacuity: 1-byte files (every record its own file, so index GC empties, unlinks and advances
    the first file), overwrites and removals that leave stale index records, index GC cycles with and
    without the free-file scan, complete and with the deadline after 0, 1, 2 and 3 polls, reopens by
    snapshot and by rescan after them. -/

def exCfg04 : Cfg := { kind := .mh, bits := 8, ifs := 1, pfs := 1, imm := false }
def exOps04a : List SOp :=
  [.put [18, 6, 1, 2, 3, 4, 5, 6] [7], .flush [], .put [18, 6, 1, 2, 3, 4, 5, 7] [], .flush [],
   .put [18, 6, 1, 2, 3, 4, 5, 6] [8, 9], .flush [], .rm [18, 6, 1, 2, 3, 4, 5, 7], .flush [],
   .igc false (some 1), .get [18, 6, 1, 2, 3, 4, 5, 6], .igc true (some 0), .igc true (some 2),
   .reopen [] false, .get [18, 6, 1, 2, 3, 4, 5, 6], .put [18, 7, 2, 2, 9, 9, 9, 9, 1] [4], .flush [],
   .igc true none, .igc false (some 3), .reopen [] true, .igc true none, .reopen [] false,
   .has [18, 6, 1, 2, 3, 4, 5, 7], .size [18, 7, 2, 2, 9, 9, 9, 9, 1], .iter []]

example : exCfg04.Legal := by decide
example : (∀ op ∈ exOps04a, op.isC04a = true) ∧ KeysOK exCfg04.kind exOps04a ∧ SizesOK exOps04a := by
  refine ⟨by decide, ?_, ?_⟩
  · unfold KeysOK; decide
  · unfold SizesOK; decide

/-- in this run index GC really works on the files: the index header's first file has advanced to 3
    (of 5 files) -/
example : ∃ s, initS exCfg04 = some s ∧
    ((runS s exOps04a).1.d.ihdr.map IdxHeader.first, (runS s exOps04a).1.m.ifileNum) = (some 3, 4) := by
  refine ⟨_, rfl, ?_⟩
  decide

end Sth
