/-
C10 widened — U2: torn tails of the legacy files.

PRIMARY.  chunkOldPrimary reads `[u32 size]`, then `size` bytes, and stops — silently, the upgrade goes
on — at the first read that comes back short.  The repaired code (D31) writes a record's size prefix
only after its data has been read, so nothing of a torn last record is copied: for EVERY torn tail `t`
(`C10T.TornP`: fewer than 4 bytes, or a complete size prefix below the deleted bit with less data than it
announces — i.e. every proper prefix of a well-framed record, `tornP_of_prefix`) the upgrading open is
EXACTLY the one of the store without the tail (`C10_torn_primary`), so every theorem of C10b / C10c / C10e
applies.  An index entry naming the torn record carries the offset "length of the whole records", which
is unmappable in the sense of C10c (`C10_torn_record_offset_bad`: `LegacyC.badOff`) for every torn tail —
so such entries are the unmappable entries of U1.

Before repair D31 the size prefix was written BEFORE the data was read: with the prefix complete and the
data short, the 4 bytes of the prefix were kept at the end of the last primary file (whenever that file
held a record), new records were appended after them, the entry naming the torn record was mappable (to
the stray bytes), and primary GC's sequential scan misframed everything behind the stray prefix and
truncated live records written after the upgrade (this was D12 entering through the upgrade; found by
this development, replayed on the real code, repaired).  `C10_D31_regression` keeps the store and the
history that exposed it.

INDEX.  chunkOldIndex answers a torn tail with an error, index.Open fails, OpenStore fails
(`C10_torn_index_refused`) — AFTER mhprimary.Open has converted the primary: numbered primary files and
header written, old primary REMOVED, freelist applied and removed; plus the numbered index files written
so far (`C10T.refusedDir`).  No index header is written, the old index is untouched, so nothing is lost;
but every later OpenStore is refused the same way (`refused_again`), and the previous library version can
no longer open the directory either (its primary file is gone): the store stays unusable until the torn
tail is cut off the old index file by hand, after which the next open completes the upgrade with the
full contents (`C10_torn_index_repaired`).  (The new-format index scan, in contrast, truncates a torn tail
and goes on.)  For the findings list: "upgrade refuses a torn legacy index tail after the irreversible
conversion of the primary; not self-healing, unlike scanIndexFile".
-/
import Sth.Lemmas.C10Torn
import Sth.Props.C10c

namespace Sth

open LegacyC C10T

/-- torn primary: for every torn tail the same upgrade as without the tail -/
theorem C10_torn_primary (c : Cfg) (hc : c.Legal) (C : LegacyC) (hwf : LegacyWFBad c C)
    (hn : C.recs.length < 1073741824) (t : Bytes) (ht : TornP t) (order : List Nat) :
    upgradeOpen c { C.dir with data := C.dir.data ++ t } order = upgradeOpen c C.dir order :=
  upgradeOpen_torn c hc C hwf.recSize hwf.freedOK hn t ht order

/-- every proper prefix of a well-framed record `[u32 size][key][value]` is a torn tail -/
theorem C10_torn_prefix (k v : Bytes) (hs : k.length + v.length < two31) (j : Nat)
    (hj : j < 4 + (k.length + v.length)) : TornP ((le32 (k.length + v.length) ++ (k ++ v)).take j) :=
  tornP_of_prefix k v hs j hj

/-- … and an entry naming the torn record (whatever is left of it) is unmappable -/
theorem C10_torn_record_offset_bad (C : LegacyC) (hn : C.recs.length < 1073741824)
    (hsz : ∀ kv ∈ C.recs, recSize kv < two31) : C.badOff (legacyPrimary C.recs).length := by
  refine ⟨Nat.le_refl _, ?_⟩
  have h2 := C.data_length hsz
  have h3 : C.recs.length * (two31 + 4) ≤ 1073741824 * (two31 + 4) := Nat.mul_le_mul_right _ (by omega)
  unfold two64 two31 at *
  omega

/-- torn index: refused, and refused again on every later open of the directory it leaves -/
theorem C10_torn_index_refused (c : Cfg) (C : LegacyC) (hwf : LegacyWFBad c C) (t : Bytes) (ht : TornTail t)
    (order forder : List Nat) :
    upgradeOpen c { C.dir with index := C.dir.index ++ t } order = none ∧
    openU c (refusedDir c C t) order forder = none :=
  ⟨upgradeOpen_torn_index c C t ht (fun r hr => (hwf.gensOK r hr).2.2) order,
   refused_again c C t ht (fun r hr => (hwf.gensOK r hr).2.2) order forder⟩

/-- torn index, repaired by hand (tail cut off the old index file): the next open completes the upgrade,
    and the store refines the legacy contents -/
theorem C10_torn_index_repaired (c : Cfg) (hc : c.Legal) (hk : c.kind = .mh) (C : LegacyC)
    (hwf : LegacyWF c C) (ops : List SOp) (ha : ∀ op ∈ ops, op.isC02 = true)
    (hkeys : KeysOK .mh (C.keyOps ++ ops))
    (hn : C.recs.length + C.gens.length + 1 + ops.length < 1073741824)
    (hB : specW C.spec + (ops.map SOp.bytes).sum < two31) (t : Bytes) :
    ∃ d m, openU c { refusedDir c C t with index := some C.dir.index } [] [] = some ({ disk := d }, m) ∧
      (runS ⟨c, m, d⟩ ops).2 = (specRun .mh c.imm C.spec ops).2 ∧ fsck .mh d m.buckets = [] := by
  have hU : Univ .mh (digestsOf .mh (C.keyOps ++ ops)) := univ_of_keysOK hkeys (keysExact_all .mh _)
  have hwfU := wfU_of_wf hwf ops
  obtain ⟨ifs, h1, h2, h3⟩ := repaired hc hk hwfU (by omega) (by omega) t
  have x : Ctx c (digestsOf .mh (C.keyOps ++ ops)) C ifs := ⟨hc, hk, hU, hwfU, by omega, by omega, h2, h3⟩
  have hk' : ∀ op ∈ ops, ∀ k, op.keyOf = some k → ∀ dig, keyClass .mh k = .ok dig →
      (k, dig) ∈ digestsOf .mh (C.keyOps ++ ops) :=
    fun op ho k hkey dig hcls => mem_digestsOf (List.mem_append_right _ ho) hkey hcls
  exact ⟨C.diskU c ifs, C.memU c ifs, h1, run_U x ops ha hk' hn hB, fsck_U x⟩

/-! ### Witnesses -/

/-- one whole record, then a record torn after 3 of its 12 data bytes; the index names both -/
def tornC10 : LegacyC :=
  { bits := 8, recs := [([18, 6, 1, 2, 3, 4, 5, 6], [7])],
    gens := [(1, [⟨[2, 3, 4, 5, 6], ⟨0, 9⟩⟩, ⟨[9, 9, 9, 9, 9], ⟨13, 12⟩⟩])], freed := none }
def tornL10 : LegacyDir := { tornC10.dir with data := tornC10.dir.data ++ (le32 12 ++ [18, 6, 1]) }
def tornCfg10 : Cfg := { kind := .mh, bits := 8, ifs := 1000, pfs := 60, imm := false }

/-- after the upgrade: four keys are put (the first three fill primary file 0 — before D31 behind a stray prefix —, the
    fourth starts file 1), flushed and read back; then primary GC runs and the store is reopened -/
def tornOps10 : List SOp :=
  [.put [18, 6, 2, 2, 2, 2, 2, 2] [255, 255, 255, 255, 1], .put [18, 6, 3, 3, 3, 3, 3, 3] [9, 9, 9],
   .put [18, 6, 4, 4, 4, 4, 4, 4] [8, 8, 8], .put [18, 6, 5, 5, 5, 5, 5, 5] [6], .flush [],
   .get [18, 6, 2, 2, 2, 2, 2, 2], .get [18, 6, 3, 3, 3, 3, 3, 3], .get [18, 6, 4, 4, 4, 4, 4, 4],
   .pgc 0 none, .reopen [] false,
   .get [18, 6, 1, 2, 3, 4, 5, 6], .get [18, 6, 2, 2, 2, 2, 2, 2], .get [18, 6, 3, 3, 3, 3, 3, 3],
   .get [18, 6, 4, 4, 4, 4, 4, 4], .get [18, 6, 5, 5, 5, 5, 5, 5]]

/-- Regression for D31 (model evaluation).  Before the repair, primary file 0 after the upgrade ended in
    the stray size prefix `[12,0,0,0]`, the entry naming the torn record stayed in the index at the stray
    bytes, and the three keys put and flushed after the upgrade were ABSENT after primary GC and a reopen.
    With the repaired code: (1) primary file 0 is the whole record and nothing else; (2) the entry naming
    the torn record is unmappable and gone from the index (the store is a single chunk: it stays in the
    list and is refused by the primary; `Get` answers absent) — here: `Get` of a key in its bucket with its
    prefix answers absent; (3) after the same history every key is found with its value. -/
theorem C10_D31_regression :
    (upgradeOpen tornCfg10 tornL10 []).map (fun dm => dm.1.pfiles) =
      some [(0, [9, 0, 0, 0, 18, 6, 1, 2, 3, 4, 5, 6, 7])] ∧
    upgradeOpen tornCfg10 tornL10 [] = upgradeOpen tornCfg10 tornC10.dir [] ∧
    (upgradeOpen tornCfg10 tornL10 []).map (fun dm => (storeGet dm.2 dm.1 [18, 6, 1, 9, 9, 9, 9, 9]).2 matches .absent) =
      some true ∧
    (upgradeOpen tornCfg10 tornL10 []).map (fun dm => (runS ⟨tornCfg10, dm.2, dm.1⟩ tornOps10).2) =
      some [.ok, .ok, .ok, .ok, .ok, .found [255, 255, 255, 255, 1], .found [9, 9, 9], .found [8, 8, 8],
            .gc, .gc, .found [7], .found [255, 255, 255, 255, 1], .found [9, 9, 9], .found [8, 8, 8],
            .found [6]] := by
  refine ⟨by decide +kernel, ?_, by decide +kernel, by decide +kernel⟩
  exact upgradeOpen_torn tornCfg10 (by decide) tornC10 (by decide) (by intro l h; cases h) (by decide) _
    (Or.inr ⟨12, [18, 6, 1], rfl, by decide, by decide⟩) []

/-- torn index, evaluated: the store of Sth/Props/C10b.lean with 5 stray bytes after its index (a size
    prefix announcing 9 bytes and one byte of them) and 30-byte index files: refused; the directory left
    behind (`refusedDir`: two completed index chunks and an empty third file, no index header, primary
    converted) is refused again; with the tail cut off it opens and every key reads its value -/
example : TornTail (le32 9 ++ [1]) := Or.inr ⟨9, [1], rfl, by decide, by decide⟩
example : upgradeOpen { exCfg10 with ifs := 30 } { exC10.dir with index := exC10.dir.index ++ (le32 9 ++ [1]) } [] =
    none := by decide +kernel
example : ((refusedDir { exCfg10 with ifs := 30 } exC10 (le32 9 ++ [1])).disk.ifiles.map (·.2.length),
      (refusedDir { exCfg10 with ifs := 30 } exC10 (le32 9 ++ [1])).disk.ihdr.isNone,
      (refusedDir { exCfg10 with ifs := 30 } exC10 (le32 9 ++ [1])).disk.pfiles.map (·.2.length)) =
    ([70, 52, 0], true, [41, 42, 14]) := by decide +kernel
example : (openU { exCfg10 with ifs := 30 }
      { refusedDir { exCfg10 with ifs := 30 } exC10 (le32 9 ++ [1]) with index := some exC10.dir.index } [] []).map
      (fun um => exRecs10.map fun kv => match (storeGet um.2 um.1.disk kv.1).2 with
        | .found v => some v
        | _ => none) =
    some [some [7, 7, 7], some [], some [1, 2], none, some [8, 8, 8, 8], some [6, 6], some [6, 6]] := by
  decide +kernel

end Sth
