/-
C09 with garbage collection in the history — "any pair of bit sizes and any contents" includes stores
whose index log has been collected (records marked deleted, deleted spans merged, files truncated,
emptied and unlinked, the header's first file advanced, cycles cut short at any poll leaving a resume
point) and whose primary has relocated records.

Property theorems only (helper lemmas: Sth/Lemmas/C09G*.lean — the C09 development re-based on the C04
invariants `YInv` / `IdxLog` and `GInv`).  As in Sth/Props/C09.lean the theorems are about `openStoreT`
(Sth/Model/Translate.lean) on the directory `C09.closedDisk s ord us` that a clean Close of a reachable
state `s` leaves, with the bucket snapshot kept (`us = true`) or dropped (`us = false`: `translateIndex`
rescans the old index log from the header's first file and skips the deleted spans).

PART 1 — index GC cycles (`SOp.isC04a`: every call except primary GC; both primaries).  The history
BEFORE the bit-size change and the history AFTER it may contain index GC cycles, complete or cut short
at any poll, with or without the free-file scan, and reopens, at arbitrary positions; `SizesOK` and
`KeysOK` are the only premises, exactly as in C09.  The iteration of the old index skips nothing and
reads no deleted span: every non-zero entry of the loaded bucket table is the position of a live record
(`IdxLog.t1`), so `entries_ok` of the C09 development applies to the reference state unchanged.

PART 2 — primary GC cycles as well (every call; C04's `GInv` for the multihash primary, nothing to do for
the CID primary where primary GC is a no-op).  Relocation changes the blocks the index names, but
`translateIndex` re-inserts `(GetIndexKey(block), block)` for the blocks the index names AT THE CLOSE, and
every one of them is readable (C04's `EntOK`); the new index names the same blocks, so the primary's part
of the GC invariant carries over to the reopened state and GC cycles of both kinds keep working after
the translation.  The extra premise is C04's counter bound, stated on the run up to and including the
Close (`GcCountersOK s0 (ops ++ [.reopen ord us])`: the reopen stands for Close + OpenStore) and on the
run after the translation (`GcCountersOK ⟨c', m', d'⟩ ops2`); see Sth/Props/C04.lean for why a bound of
this kind cannot be dropped once primary GC is in the history.
NO premise of the kind `PgcFromClean` (known finding D11: a primary GC cycle started with a dirty index
pool leaves an on-disk index that is inconsistent until the next flush) is needed: D11 is about crash
images; here the bit-size change follows a clean Close, which flushes the primary and the index before
the snapshot is written, and the proof goes through `GInv` — maintained by EVERY primary GC cycle, clean
pool or not — for the fully flushed state.  The second example below ends with a cut-short primary GC
cycle that leaves two relocated records in the primary pool and their index updates in the index pool.
-/
import Sth.Lemmas.C09GGc
import Sth.Props.C09

namespace Sth

open C09 C09G

/-- C09 with index GC, main theorem: C09_translate_preserves_contents with index GC cycles (complete or
    cut at any poll) anywhere in the history before the bit-size change and anywhere after it. -/
theorem C09_translate_preserves_contents_igc (c : Cfg) (hc : c.Legal) (c' : Cfg) (hc' : c'.Legal)
    (hkind : c'.kind = c.kind) (hifs : c'.ifs = c.ifs) (hpfs : c.kind = .mh → c'.pfs = c.pfs)
    (hbits : c'.bits ≠ c.bits)
    (ops ops2 : List SOp) (ha : ∀ op ∈ ops, op.isC04a = true) (ha2 : ∀ op ∈ ops2, op.isC04a = true)
    (hk : KeysOK c.kind (ops ++ ops2)) (hs : SizesOK (ops ++ ops2)) (s0 : SState)
    (hi : initS c = some s0) (ord order : List Nat) (us : Bool) :
    ∃ d m' d' keys, C09.closedDisk (runS s0 ops).1 ord us = some d ∧
      openStoreT c' d order = (d', .ok m', keys) ∧
      (runS ⟨c', m', d'⟩ ops2).2 =
        (specRun c.kind c'.imm (specRun c.kind c.imm [] ops).1 ops2).2 ∧
      d'.pfiles = d.pfiles ∧ d'.cidfile = d.cidfile ∧ d'.free = d.free ∧ d'.phdr = d.phdr ∧
      d'.freeGc = d.freeGc ∧ d'.ihdr = some ⟨c'.bits, c'.ifs, 0, hdrPfs c'⟩ :=
  translate_refines_igc c hc c' hc' hkind hifs hpfs hbits ops ops2 ha ha2 hk hs s0 hi ord order us

/-- per key, with index GC in the history: Get / Has / GetSize of EVERY key answer after the translation
    what they answered on the state before the Close -/
theorem C09_reads_preserved_igc (c : Cfg) (hc : c.Legal) (c' : Cfg) (hc' : c'.Legal)
    (hkind : c'.kind = c.kind) (hifs : c'.ifs = c.ifs) (hpfs : c.kind = .mh → c'.pfs = c.pfs)
    (hbits : c'.bits ≠ c.bits) (ops : List SOp) (ha : ∀ op ∈ ops, op.isC04a = true) (k : Bytes)
    (hk : KeysOK c.kind (ops ++ [.get k, .has k, .size k]))
    (hs : SizesOK (ops ++ [.get k, .has k, .size k])) (s0 : SState)
    (hi : initS c = some s0) (ord order : List Nat) (us : Bool) :
    ∃ d m' d' keys, C09.closedDisk (runS s0 ops).1 ord us = some d ∧
      openStoreT c' d order = (d', .ok m', keys) ∧
      (runS ⟨c', m', d'⟩ [.get k, .has k, .size k]).2 =
        (runS (runS s0 ops).1 [.get k, .has k, .size k]).2 :=
  translate_reads_igc c hc c' hc' hkind hifs hpfs hbits ops ha k hk hs s0 hi ord order us

/-- index file-size limit not specified (`ifs = 0`), with index GC in the history (see
    C09_unspecified_ifs) -/
theorem C09_unspecified_ifs_igc (c : Cfg) (hc : c.Legal) (c' : Cfg) (hc' : c'.Legal)
    (hkind : c'.kind = c.kind) (hifs : c'.ifs = defaultMax) (hpfs : c.kind = .mh → c'.pfs = c.pfs)
    (hbits : c'.bits ≠ c.bits)
    (ops ops2 : List SOp) (ha : ∀ op ∈ ops, op.isC04a = true) (ha2 : ∀ op ∈ ops2, op.isC04a = true)
    (hk : KeysOK c.kind (ops ++ ops2)) (hs : SizesOK (ops ++ ops2)) (s0 : SState)
    (hi : initS c = some s0) (ord order : List Nat) (us : Bool) :
    ∃ d m' d' keys, C09.closedDisk (runS s0 ops).1 ord us = some d ∧
      openStoreT { c' with ifs := 0 } d order = (d', .ok m', keys) ∧
      (runS ⟨c', m', d'⟩ ops2).2 =
        (specRun c.kind c'.imm (specRun c.kind c.imm [] ops).1 ops2).2 ∧
      d'.ihdr = some ⟨c'.bits, defaultMax, 0, hdrPfs c'⟩ := by
  obtain ⟨d, m', d', keys, h1, h2, h3, _, _, _, _, _, h9⟩ :=
    translate_refines_igc_arg c hc c' hc' hkind (Or.inl ⟨rfl, hifs⟩) hpfs hbits ops ops2 ha ha2 hk hs
      s0 hi ord order us
  rw [hifs] at h9
  exact ⟨d, m', d', keys, h1, h2, h3, h9⟩

/-- C09 refusals on a directory whose index has been collected (C09_mismatch_refused for histories with
    index GC): the header's first file may have advanced; the refusals do not depend on it. -/
theorem C09_mismatch_refused_igc (c : Cfg) (hc : c.Legal) (ops : List SOp)
    (ha : ∀ op ∈ ops, op.isC04a = true) (hk : KeysOK c.kind ops) (hs : SizesOK ops) (s0 : SState)
    (hi : initS c = some s0) (ord : List Nat) (us : Bool) :
    ∃ d, C09.closedDisk (runS s0 ops).1 ord us = some d ∧ openFreelist d = d ∧
      (∀ (c' : Cfg) (order : List Nat), c'.Legal → c'.kind = c.kind →
        (c.kind = .mh → c'.pfs = c.pfs) → c'.ifs ≠ c.ifs →
        openStoreT c' d order = (d, .error .wrongIndexFileSize, [])) ∧
      (∀ (c' : Cfg) (order : List Nat), c'.Legal → c'.kind = c.kind → c.kind = .mh →
        c'.pfs ≠ c.pfs →
        openStoreT c' d order = (d, .error .wrongPrimaryFileSize, [])) :=
  mismatch_refused_igc c hc ops ha hk hs s0 hi ord us

/-- C09_same_bits_no_translation for histories with index GC -/
theorem C09_same_bits_no_translation_igc (c : Cfg) (hc : c.Legal) (ops : List SOp)
    (ha : ∀ op ∈ ops, op.isC04a = true) (hk : KeysOK c.kind ops) (hs : SizesOK ops) (s0 : SState)
    (hi : initS c = some s0) (ord order : List Nat) (us : Bool) :
    ∃ d m' d', C09.closedDisk (runS s0 ops).1 ord us = some d ∧
      openStoreT c d order = (d', .ok m', []) ∧
      stepS (runS s0 ops).1 (.reopen ord us) = (⟨c, m', d'⟩, .gc) ∧
      ∀ (c' : Cfg) (order' : List Nat), c'.bits = c.bits →
        openStoreT c' d order' = ((openStore c' d).1, (openStore c' d).2, []) :=
  same_bits_igc c hc ops ha hk hs s0 hi ord order us

/-! Non-vacuity, collected index.  (a) Multihash primary, 1-byte files: overwrites and a removal leave
    stale index records; index GC cycles (cut after 0, 1, 2, 3 polls and complete, with and without the
    free-file scan) and a reopen by rescan empty and unlink files — at the Close the index header's first
    file is 4 of the files 0..5; translated 8 → 16 bits with the snapshot and by rescan; afterwards more
    index GC cycles, a reopen and an iteration on the new index. -/

def exCfg09g : Cfg := { kind := .mh, bits := 8, ifs := 1, pfs := 1, imm := false }
def exCfg09h : Cfg := { kind := .mh, bits := 16, ifs := 1, pfs := 1, imm := false }
def exOps09g : List SOp :=
  [.put [18, 6, 1, 2, 3, 4, 5, 6] [7], .flush [], .put [18, 6, 1, 2, 3, 4, 5, 7] [], .flush [],
   .put [18, 6, 1, 2, 3, 4, 5, 6] [8, 9], .flush [], .rm [18, 6, 1, 2, 3, 4, 5, 7], .flush [],
   .igc false (some 1), .get [18, 6, 1, 2, 3, 4, 5, 6], .igc true (some 0), .igc true (some 2),
   .reopen [] false, .put [18, 7, 2, 2, 9, 9, 9, 9, 1] [4], .put [18, 6, 1, 3, 3, 4, 5, 6] [5], .flush [],
   .igc true none, .igc false (some 3)]
def exOps09g' : List SOp :=
  [.get [18, 6, 1, 2, 3, 4, 5, 6], .get [18, 6, 1, 2, 3, 4, 5, 7], .size [18, 7, 2, 2, 9, 9, 9, 9, 1],
   .put [18, 6, 1, 3, 3, 4, 5, 6] [6], .flush [], .igc true none, .reopen [] false, .igc true (some 2),
   .iter []]

example : exCfg09g.Legal ∧ exCfg09h.Legal ∧ (∀ op ∈ exOps09g, op.isC04a = true) ∧
    (∀ op ∈ exOps09g', op.isC04a = true) ∧ KeysOK exCfg09g.kind (exOps09g ++ exOps09g') ∧
    SizesOK (exOps09g ++ exOps09g') := by
  refine ⟨by decide, by decide, by decide, by decide, ?_, ?_⟩
  · unfold KeysOK; decide
  · unfold SizesOK; decide

/-- the index really has been collected: first file 4, last file 5, and the closed directory holds
    exactly the files 4 and 5 -/
example : ∃ s, initS exCfg09g = some s ∧
    ((runS s exOps09g).1.d.ihdr.map IdxHeader.first, (runS s exOps09g).1.m.ifileNum,
      (C09.closedDisk (runS s exOps09g).1 [] true).map fun d => d.ifiles.map (·.1)) =
      (some 4, 5, some [4, 5]) := ⟨_, rfl, by decide⟩

example : ∀ us ∈ [true, false],
    exTranslate exCfg09g exCfg09h exOps09g exOps09g' us [] =
      some ([.found [8, 9], .absent, .sizeOf 1, .ok, .ok, .gc, .gc, .gc,
        .items [([18, 6, 1, 2, 3, 4, 5, 6], [8, 9]), ([18, 6, 1, 3, 3, 4, 5, 6], [6]),
          ([18, 7, 2, 2, 9, 9, 9, 9, 1], [4])]], [513, 514, 769], 3) := by decide

example : (specRun exCfg09g.kind exCfg09h.imm (specRun exCfg09g.kind exCfg09g.imm [] exOps09g).1
      exOps09g').2 =
    [.found [8, 9], .absent, .sizeOf 1, .ok, .ok, .gc, .gc, .gc,
      .items [([18, 6, 1, 2, 3, 4, 5, 6], [8, 9]), ([18, 6, 1, 3, 3, 4, 5, 6], [6]),
        ([18, 7, 2, 2, 9, 9, 9, 9, 1], [4])]] := by decide

/-- refusals on the collected directory: other index limit with and without another bit size, other
    primary limit; directory untouched -/
example : ∀ us ∈ [true, false],
    exRefuse exCfg09g { exCfg09g with ifs := 2 } exOps09g us = some (some .wrongIndexFileSize, true, []) ∧
    exRefuse exCfg09g { exCfg09h with ifs := 2 } exOps09g us = some (some .wrongIndexFileSize, true, []) ∧
    exRefuse exCfg09g { exCfg09h with pfs := 2 } exOps09g us = some (some .wrongPrimaryFileSize, true, []) :=
  by decide

/-! (b) CID primary, 70-byte index files (two records per file): an overwrite makes the first record of
    file 0 stale; a cycle cut after 2 polls marks it deleted and leaves the resume point `some 0`, the
    complete cycle then truncates / merges (file 0: 88 → 66 bytes, starting with a deleted span, size
    word `[18, 0, 0, 128]`); the first file stays 0.  Translated 8 → 12 bits. -/

def exCfg09i : Cfg := { kind := .cid, bits := 8, ifs := 70, pfs := 1, imm := false }
def exCfg09j : Cfg := { kind := .cid, bits := 12, ifs := 70, pfs := 9, imm := false }
def exOps09i : List SOp :=
  [.put [1, 85, 18, 6, 1, 2, 3, 4, 5, 6] [7], .put [1, 85, 18, 6, 2, 2, 3, 4, 5, 7] [], .flush [],
   .put [1, 85, 18, 6, 1, 2, 3, 4, 5, 6] [8, 9], .put [1, 85, 18, 6, 3, 2, 3, 4, 5, 7] [1], .flush [],
   .put [1, 85, 18, 6, 3, 3, 3, 4, 5, 7] [2], .flush [], .put [1, 85, 18, 6, 4, 3, 3, 4, 5, 7] [3],
   .flush [], .igc true (some 2), .igc true none]
def exOps09i' : List SOp :=
  [.get [1, 85, 18, 6, 1, 2, 3, 4, 5, 6], .get [1, 85, 18, 6, 2, 2, 3, 4, 5, 7],
   .has [1, 85, 18, 6, 3, 2, 3, 4, 5, 7], .igc true none, .iter []]

example : exCfg09i.Legal ∧ exCfg09j.Legal ∧ (∀ op ∈ exOps09i, op.isC04a = true) ∧
    (∀ op ∈ exOps09i', op.isC04a = true) ∧ KeysOK exCfg09i.kind (exOps09i ++ exOps09i') ∧
    SizesOK (exOps09i ++ exOps09i') := by
  refine ⟨by decide, by decide, by decide, by decide, ?_, ?_⟩
  · unfold KeysOK; decide
  · unfold SizesOK; decide

/-- the cut cycle leaves a resume point; at the Close file 0 starts with a deleted span and has shrunk -/
example : ∃ s, initS exCfg09i = some s ∧
    ((runS s (exOps09i.take 11)).1.m.gcResume,
      (runS s (exOps09i.take 11)).1.d.ifiles.map (fun p => (p.1, p.2.length)),
      (runS s exOps09i).1.d.ifiles.map (fun p => (p.1, p.2.length, p.2.take 4))) =
      (some 0, [(0, 88), (1, 58)], [(0, 66, [18, 0, 0, 128]), (1, 58, [32, 0, 0, 0])]) :=
  ⟨_, rfl, by decide⟩

example : ∀ us ∈ [true, false], ∀ order ∈ [[], [772, 771, 515, 514, 513]],
    exTranslate exCfg09i exCfg09j exOps09i exOps09i' us order =
      some ([.found [8, 9], .found [], .bool true, .gc,
        .items [([1, 85, 18, 6, 1, 2, 3, 4, 5, 6], [8, 9]), ([1, 85, 18, 6, 2, 2, 3, 4, 5, 7], []),
          ([1, 85, 18, 6, 3, 2, 3, 4, 5, 7], [1]), ([1, 85, 18, 6, 3, 3, 3, 4, 5, 7], [2]),
          ([1, 85, 18, 6, 4, 3, 3, 4, 5, 7], [3])]], [513, 514, 515, 771, 772], 2) := by decide +kernel

/-! ## Part 2: primary GC cycles as well -/

/-- C09 with garbage collection of both kinds, main theorem (both primaries): `ops` and `ops2` are
    arbitrary histories — Put / Get / Has / GetSize / Remove / Flush / iteration / Close+reopen, index GC
    cycles and primary GC cycles, complete or cut short at any poll, at arbitrary positions.  `hb` is
    C04's counter bound on the run up to the Close; the conclusion about `ops2` holds whenever the same
    bound holds on the run after the translation. -/
theorem C09_translate_preserves_contents_gc (c : Cfg) (hc : c.Legal) (c' : Cfg) (hc' : c'.Legal)
    (hkind : c'.kind = c.kind) (hifs : c'.ifs = c.ifs) (hpfs : c.kind = .mh → c'.pfs = c.pfs)
    (hbits : c'.bits ≠ c.bits)
    (ops ops2 : List SOp) (hk : KeysOK c.kind (ops ++ ops2)) (hs : SizesOK (ops ++ ops2)) (s0 : SState)
    (hi : initS c = some s0) (ord order : List Nat) (us : Bool)
    (hb : GcCountersOK s0 (ops ++ [.reopen ord us])) :
    ∃ d m' d' keys, C09.closedDisk (runS s0 ops).1 ord us = some d ∧
      openStoreT c' d order = (d', .ok m', keys) ∧
      (GcCountersOK ⟨c', m', d'⟩ ops2 →
        (runS ⟨c', m', d'⟩ ops2).2 =
          (specRun c.kind c'.imm (specRun c.kind c.imm [] ops).1 ops2).2) ∧
      d'.pfiles = d.pfiles ∧ d'.cidfile = d.cidfile ∧ d'.free = d.free ∧ d'.phdr = d.phdr ∧
      d'.freeGc = d.freeGc ∧ d'.ihdr = some ⟨c'.bits, c'.ifs, 0, hdrPfs c'⟩ :=
  translate_refines_gc_all c hc c' hc' hkind (Or.inr ⟨rfl, hifs⟩) hpfs hbits ops ops2 hk hs s0 hi ord
    order us hb

/-- the CID primary needs no counter bound -/
theorem C09_translate_preserves_contents_gc_cid (c : Cfg) (hc : c.Legal) (hcid : c.kind = .cid)
    (c' : Cfg) (hc' : c'.Legal) (hkind : c'.kind = c.kind) (hifs : c'.ifs = c.ifs)
    (hbits : c'.bits ≠ c.bits)
    (ops ops2 : List SOp) (hk : KeysOK c.kind (ops ++ ops2)) (hs : SizesOK (ops ++ ops2)) (s0 : SState)
    (hi : initS c = some s0) (ord order : List Nat) (us : Bool) :
    ∃ d m' d' keys, C09.closedDisk (runS s0 ops).1 ord us = some d ∧
      openStoreT c' d order = (d', .ok m', keys) ∧
      (runS ⟨c', m', d'⟩ ops2).2 =
        (specRun c.kind c'.imm (specRun c.kind c.imm [] ops).1 ops2).2 ∧
      d'.pfiles = d.pfiles ∧ d'.cidfile = d.cidfile ∧ d'.free = d.free ∧ d'.phdr = d.phdr ∧
      d'.freeGc = d.freeGc ∧ d'.ihdr = some ⟨c'.bits, c'.ifs, 0, hdrPfs c'⟩ :=
  translate_refines_gc_cid_arg c hc hcid c' hc' hkind (Or.inr ⟨rfl, hifs⟩) hbits ops ops2 hk hs s0 hi
    ord order us

/-- the reopened multihash store satisfies C04's GC invariant for the NEW configuration with the map the
    first run left (so every C04 theorem stated on `GInv` applies to it, e.g. C04_primaryGC_stutters) -/
theorem C09_translate_keeps_gc_invariant (c : Cfg) (hc : c.Legal) (hmh : c.kind = .mh) (c' : Cfg)
    (hc' : c'.Legal) (hkind : c'.kind = c.kind) (hifs : c'.ifs = c.ifs) (hpfs : c'.pfs = c.pfs)
    (hbits : c'.bits ≠ c.bits) (ops : List SOp) (hk : KeysOK c.kind ops) (hs : SizesOK ops)
    (s0 : SState) (hi : initS c = some s0) (ord order : List Nat) (us : Bool)
    (hb : GcCountersOK s0 (ops ++ [.reopen ord us])) :
    ∃ d m' d' keys n, C09.closedDisk (runS s0 ops).1 ord us = some d ∧
      openStoreT c' d order = (d', .ok m', keys) ∧
      GInv c' (digestsOf c.kind ops) ⟨c', m', d'⟩ (specRun c.kind c.imm [] ops).1 n
        (0 + (ops.map SOp.bytes).sum) := by
  have hU := univ_of_keysOK hk (keysExact_all c.kind ops)
  obtain ⟨hb1, hb2, _⟩ := (gcCountersOK_append ops [.reopen ord us] s0).mp hb
  obtain ⟨n, hG, hn, hsl⟩ := reach_g hc hmh hU ops
    (fun op ho k hkey dig hcls => mem_digestsOf ho hkey hcls)
    (by have := hs.1; omega) (by have := hs.2.1; omega) s0 hi hb1 hb2
  obtain ⟨d, P, first, pfn, plen, N, ifiles, bk, h1, _, hR, hGR⟩ :=
    ref_of_ginv hc' hkind hpfs hU hG hn (by have := hs.2.1; omega) ord us
  obtain ⟨m', d', keys, t1, hG', _⟩ :=
    translate_ginv hc' hkind (Or.inr ⟨rfl, hifs⟩) hpfs hbits hU hR hGR hsl hn
      (by have := hs.2.1; omega) order
  exact ⟨d, m', d', keys, n, h1, t1, hG'⟩

/-- refusals after histories with GC of both kinds (multihash primary): relocated records, advanced
    first files and a handed-over freelist do not matter -/
theorem C09_mismatch_refused_gc (c : Cfg) (hc : c.Legal) (hmh : c.kind = .mh) (ops : List SOp)
    (hk : KeysOK c.kind ops) (hs : SizesOK ops) (s0 : SState)
    (hi : initS c = some s0) (ord : List Nat) (us : Bool)
    (hb : GcCountersOK s0 (ops ++ [.reopen ord us])) :
    ∃ d, C09.closedDisk (runS s0 ops).1 ord us = some d ∧ openFreelist d = d ∧
      (∀ (c' : Cfg) (order : List Nat), c'.Legal → c'.kind = c.kind →
        c'.pfs = c.pfs → c'.ifs ≠ c.ifs →
        openStoreT c' d order = (d, .error .wrongIndexFileSize, [])) ∧
      (∀ (c' : Cfg) (order : List Nat), c'.Legal → c'.kind = c.kind →
        c'.pfs ≠ c.pfs →
        openStoreT c' d order = (d, .error .wrongPrimaryFileSize, [])) :=
  mismatch_refused_gc c hc hmh ops hk hs s0 hi ord us hb

/-- the unchanged bit size after histories with GC of both kinds (multihash primary) -/
theorem C09_same_bits_no_translation_gc (c : Cfg) (hc : c.Legal) (hmh : c.kind = .mh) (ops : List SOp)
    (hk : KeysOK c.kind ops) (hs : SizesOK ops) (s0 : SState)
    (hi : initS c = some s0) (ord order : List Nat) (us : Bool)
    (hb : GcCountersOK s0 (ops ++ [.reopen ord us])) :
    ∃ d m' d', C09.closedDisk (runS s0 ops).1 ord us = some d ∧
      openStoreT c d order = (d', .ok m', []) ∧
      stepS (runS s0 ops).1 (.reopen ord us) = (⟨c, m', d'⟩, .gc) ∧
      ∀ (c' : Cfg) (order' : List Nat), c'.bits = c.bits →
        openStoreT c' d order' = ((openStore c' d).1, (openStore c' d).2, []) :=
  same_bits_gc c hc hmh ops hk hs s0 hi ord order us hb

/-! Non-vacuity, relocated records.  40-byte primary files, 64-byte index files; overwrites and a removal
    leave dead records; primary GC cycles with `lowUse = 0` (complete, cut after 3 and after 5 polls)
    relocate live records, truncate and unlink files; index GC cycles collect the stale index records.
    At the Close: primary header's first file 3 (files 3, 4), index header's first file 2 (last file 4),
    two relocated records still in the primary pool and two old blocks on the in-memory freelist (the last
    primary GC cycle ran with a dirty index pool, cf. D11 — harmless here).  Translated 8 → 16 bits with
    the snapshot and by rescan; afterwards reads, a put, GC cycles of both kinds, a reopen, an
    iteration. -/

def exCfg09p : Cfg := { kind := .mh, bits := 8, ifs := 64, pfs := 40, imm := false }
def exCfg09q : Cfg := { kind := .mh, bits := 16, ifs := 64, pfs := 40, imm := false }
def exK09a : Bytes := [18, 6, 1, 2, 3, 4, 5, 6]
def exK09b : Bytes := [18, 6, 1, 2, 3, 4, 5, 7]
def exK09c : Bytes := [18, 7, 2, 2, 9, 9, 9, 9, 1]
def exK09d : Bytes := [18, 6, 3, 2, 3, 4, 5, 8]
def exOps09p : List SOp :=
  [.put exK09a [7], .put exK09b [1, 2, 3], .put exK09c [4], .flush [], .put exK09d [5, 5],
   .put exK09b [3, 3, 3, 3], .put exK09d [6, 6], .flush [], .put exK09d [7, 7], .flush [],
   .pgc 0 none, .get exK09a, .igc true none, .flush [], .pgc 0 (some 3),
   .pgc 0 none, .reopen [] false, .pgc 50 none, .rm exK09c, .pgc 0 (some 5), .igc true none]
def exOps09p' : List SOp :=
  [.get exK09a, .get exK09b, .get exK09c, .get exK09d, .put exK09c [9], .pgc 0 none, .igc true none,
   .reopen [] true, .pgc 0 none, .iter []]

example : exCfg09p.Legal ∧ exCfg09q.Legal ∧ KeysOK exCfg09p.kind (exOps09p ++ exOps09p') ∧
    SizesOK (exOps09p ++ exOps09p') := by
  refine ⟨by decide, by decide, ?_, ?_⟩
  · unfold KeysOK; decide
  · unfold SizesOK; decide

example : ∃ s, initS exCfg09p = some s ∧ GcCountersOK s (exOps09p ++ [.reopen [] true]) :=
  ⟨_, rfl, by decide⟩

/-- the state at the Close: both first files advanced (primary: 3 of 3..4, index: 2 of 2..4), two
    relocated records in the primary pool, three buckets in the index pool, two blocks on the freelist -/
example : ∃ s, initS exCfg09p = some s ∧
    ((runS s exOps09p).1.d.phdr.map PriHeader.first, (runS s exOps09p).1.m.pfileNum,
      (runS s exOps09p).1.d.ihdr.map IdxHeader.first, (runS s exOps09p).1.m.ifileNum) =
      (some 3, 4, some 2, 4) ∧
    ((runS s exOps09p).1.m.pnext.length, (runS s exOps09p).1.m.inext.length,
      (runS s exOps09p).1.m.flpool.length,
      (runS s exOps09p).1.d.pfiles.map fun p => (p.1, p.2.length)) =
      (2, 3, 2, [(3, 29), (4, 14)]) := ⟨_, rfl, by decide⟩

/-- outputs after the translation, translated buckets, number of index files, and the counter bound on
    the second run -/
def exTranslateG (c c' : Cfg) (ops ops2 : List SOp) (us : Bool) (order : List Nat) :
    Option (List SOut × List Nat × Nat × Bool) :=
  match initS c with
  | none => none
  | some s0 =>
    match C09.closedDisk (runS s0 ops).1 [] us with
    | none => none
    | some d =>
      match openStoreT c' d order with
      | (d', .ok m', keys) =>
        some ((runS ⟨c', m', d'⟩ ops2).2, keys, d'.ifiles.length, decide (GcCountersOK ⟨c', m', d'⟩ ops2))
      | _ => none

example : ∀ us ∈ [true, false],
    exTranslateG exCfg09p exCfg09q exOps09p exOps09p' us [] =
      some ([.found [7], .found [3, 3, 3, 3], .absent, .found [7, 7], .ok, .gc, .gc, .gc, .gc,
        .items [(exK09a, [7]), (exK09b, [3, 3, 3, 3]), (exK09d, [7, 7]), (exK09c, [9])]],
        [513, 515], 1, true) := by decide +kernel

example : (specRun exCfg09p.kind exCfg09q.imm (specRun exCfg09p.kind exCfg09p.imm [] exOps09p).1
      exOps09p').2 =
    [.found [7], .found [3, 3, 3, 3], .absent, .found [7, 7], .ok, .gc, .gc, .gc, .gc,
      .items [(exK09a, [7]), (exK09b, [3, 3, 3, 3]), (exK09d, [7, 7]), (exK09c, [9])]] := by decide

/-- refusals on this directory -/
example : ∀ us ∈ [true, false],
    exRefuse exCfg09p { exCfg09p with ifs := 65 } exOps09p us = some (some .wrongIndexFileSize, true, []) ∧
    exRefuse exCfg09p { exCfg09q with ifs := 65 } exOps09p us = some (some .wrongIndexFileSize, true, []) ∧
    exRefuse exCfg09p { exCfg09q with pfs := 41 } exOps09p us = some (some .wrongPrimaryFileSize, true, []) :=
  by decide +kernel

end Sth
