/-
C05 (pools layer) — the two-pool protocol of the index under concurrent Flush implements one atomic register per
bucket.  Model: Sth/Model/ConcPools.lean PART 1 (read its header: the sections are the stretches between the hook
points of store/index/index.go).  Lemmas: Sth/Lemmas/C05Pools.lean, C05PoolsLin.lean.

This is the layer between the exact-key index of Sth/Model/Conc.lean (Index.Get/Put/Update/Remove atomic) and the
code, where a bucket's record list lives in nextPool, curPool or the append-only file (through the bucket table)
and is moved by Flush while calls run.  `view s b = nextPool[b] ?? curPool[b] ?? file[table[b]]` is what every
lookup of the code computes.  The theorems hold for EVERY interpretation `ap` of the mutators, EVERY initial state
satisfying the invariant (`Init`; `init progs` is one), EVERY number of threads with ANY programs mixing mutators,
readers and flushes, and EVERY schedule.

  L1  `C05_pools_view_invariant`, `C05_pools_section_effect`, `C05_pools_register`
  L2  `C05_pools_read_your_writes`
  L3  `C05_pools_refines_conc_section`, `C05_pools_refines_conc_read`, `C05_pools_refines_conc_run` : the layer
      implements the atomic `lookup` / `setIdx` / `delIdx` of Sth/Model/Conc.lean
  L4  `C05_pools_lockAfterSwap_*`, `C05_pools_skipPools_stale` : the two seeded defects that lived here
      (C05-r3 flushLock after the swap, C05-r2 reader skipping the pools), evaluated on the model by `decide`.
  L5  `C05_pools_primary_*` : the pools of the multihash primary (PART 2 of the model).  NOT the same shape: no
      table and no publish section — the location IS the file position, so the invariant is a layout invariant
      (file ++ unwritten curPool ++ nextPool = all records in allocation order) and the registers are write-once.
-/
import Sth.Lemmas.C05PoolsRef
import Sth.Lemmas.C05PoolsPri

namespace Sth
open ConcPools

variable {U V : Type}

/-! ### L1: the views are the abstract registers -/

/-- L1, step form.  In every reachable state of the correct protocol a mutator section is ONE atomic
    read-modify-write of the view of its bucket (`applyU ap u r = (ap u r).or r`) and EVERY other section — the
    reader's two sections and the four sections of a flush: swap, append, publish, release — changes no view. -/
theorem C05_pools_section_effect (ap : U → Option V → Option V) (s0 : State U V) (h0 : Init s0)
    (sched : List Nat) (i : Nat) (t : Thread U V) (s' : State U V)
    (ht : (run ap s0 sched).threads[i]? = some t) (hstep : step ap (run ap s0 sched) i = some s') (b' : Bucket) :
    view s' b' =
      match t.pc, t.prog with
      | .idle, .upd b u :: _ =>
        if b' = b then applyU ap u (view (run ap s0 sched) b) else view (run ap s0 sched) b'
      | _, _ => view (run ap s0 sched) b' := by
  have hI := inv_run (ap := ap) h0.inv sched
  obtain ⟨t1, ht1, hsec⟩ := step_secC hI.fl1 hI.fl2 hstep
  rw [ht] at ht1; cases ht1
  exact view_sec hI ht hsec b'

/-- L1.  For every schedule of the correct protocol:
    (a) the ghost log (a mutator is logged by its only section, a read by its INFO section with the view at that
        moment, a flush when it returns) is a legal sequential history of the register map — one atomic register
        per bucket, `specStep` — started from the initial views; it ends in the views of the final state: `view s b`
        IS the result of applying, in the order of their sections, all updates of `b` so far;
    (b) the log restricted to a thread lists the calls of its program in program order, each logged between its
        invocation and its return;
    (c) the results the calls returned are the logged ones: in particular a completed read returns the view at its
        info section (the value read from the file later is the one the position named then: append-only). -/
theorem C05_pools_view_invariant (ap : U → Option V → Option V) (s0 : State U V) (h0 : Init s0)
    (sched : List Nat) :
    specRun ap (view s0) ((runL ap s0 sched).2.map (·.2.1)) =
        (view (run ap s0 sched), (runL ap s0 sched).2.map (·.2.2)) ∧
    ∀ (i : Nat) (t : Thread U V), (run ap s0 sched).threads[i]? = some t →
      ∃ t0, s0.threads[i]? = some t0 ∧
        (logOf i (runL ap s0 sched).2).map (·.1) = t0.prog.take (logOf i (runL ap s0 sched).2).length ∧
        t.prog = t0.prog.drop t.out.length ∧
        t.out.length ≤ (logOf i (runL ap s0 sched).2).length ∧
        (logOf i (runL ap s0 sched).2).length ≤ t.out.length + (if t.pc.running then 1 else 0) ∧
        t.out = ((logOf i (runL ap s0 sched).2).map (·.2)).take t.out.length ∧
        (t.pc = .idle → t.out = (logOf i (runL ap s0 sched).2).map (·.2)) := by
  have hg := good_runLFrom (ap := ap) h0.good sched
  have hfst : (runLFrom ap (s0, []) sched).1 = run ap s0 sched := runLFrom_fst _ _
  refine ⟨?_, ?_⟩
  · have := hg.spec
    rw [hfst] at this
    exact this
  · intro i t ht
    obtain ⟨p, hp, h1, h2, h3, h4, h5⟩ := hg.lin.facts (i := i) (t := t) (by rw [hfst]; exact ht)
    obtain ⟨p', hp', hd⟩ := progInv_run (ap := ap) h0.inv h0.progInv sched i t ht
    rw [hp] at hp'; cases hp'
    simp only [List.getElem?_map, Option.map_eq_some_iff] at hp
    obtain ⟨t0, ht0, rfl⟩ := hp
    exact ⟨t0, ht0, h1, hd, h2, h3, h4, h5⟩

/-- the invariant behind L1, for every schedule: the table names positions of the file, a flushing thread holds
    flushLock, and curPool is clean (every entry is in the file and named by the table) whenever flushLock is free -/
theorem C05_pools_invariant (ap : U → Option V → Option V) (s0 : State U V) (h0 : Init s0) (sched : List Nat) :
    Inv (run ap s0 sched) := inv_run h0.inv sched

/-! ### L4: the seeded defects of this layer -/

/-- one writer (bucket 1, then bucket 2), two flushers, one reader of bucket 1 -/
def ConcPools.wA (lockAfterSwap : Bool) : State Upd (List Nat) :=
  { lockAfterSwap := lockAfterSwap,
    threads := [{ prog := [.upd 1 (.set [11]), .upd 2 (.set [22])] }, { prog := [.flush] }, { prog := [.flush] },
                { prog := [.read 1] }] }

/-- W upd 1 | F1 swap | W upd 2 | F2 swap (replaces curPool = {1} before F1 wrote it) | F1 append, publish, release
    (ranges over the FIELD: writes {2}) | F2 append, publish, release | R info, read -/
def ConcPools.schedLost : List Nat := [0, 1, 0, 2, 1, 1, 1, 2, 2, 2, 3, 3]

/-- L4 (i), lost for good.  With flushLock taken after the swap: the update of bucket 1 completed, both flushes
    completed, and bucket 1 is in neither pool, not in the file, not in the table: the read returns nothing, and
    (every thread has finished) no later section can bring it back. -/
theorem C05_pools_lockAfterSwap_lost_for_good :
    let s := run Upd.ap (wA true) schedLost
    s.threads.map (·.out) = [[.updated none, .updated none], [.flushed], [.flushed], [.got none]] ∧
    s.threads.map (fun t => (t.prog, t.pc)) = [([], .idle), ([], .idle), ([], .idle), ([], .idle)] ∧
    view s 1 = none ∧ s.next = [] ∧ s.cur = [(2, [22])] ∧ s.file = [(2, [22]), (2, [22])] ∧ s.table = [(2, 1)] ∧
    s.flushLock = none := by
  refine ⟨by decide, by decide, by decide, by decide, by decide, by decide, by decide, by decide⟩

/-- the same schedule with the correct locking: the second flusher is blocked until the first has released; the
    read returns the value -/
theorem C05_pools_same_schedule_correct :
    let s := run Upd.ap (wA false) schedLost
    (s.threads.map (·.out))[3]? = some [.got (some [11])] ∧ view s 1 = some [11] ∧ view s 2 = some [22] := by
  refine ⟨by decide, by decide, by decide⟩

/-- one writer, two flushers, a reader that reads bucket 1 twice -/
def ConcPools.wB (lockAfterSwap : Bool) : State Upd (List Nat) :=
  { lockAfterSwap := lockAfterSwap,
    threads := [{ prog := [.upd 1 (.set [11]), .upd 2 (.set [22])] }, { prog := [.flush] }, { prog := [.flush] },
                { prog := [.read 1, .read 1] }] }

/-- W upd 1 | F1 swap, append | W upd 2 | F2 swap (curPool = {1} replaced after it was written, before it is
    published) | R reads bucket 1 | F1 publish, release | R reads bucket 1 again | F2 append, publish, release -/
def ConcPools.schedTemp : List Nat := [0, 1, 1, 0, 2, 3, 3, 1, 1, 3, 3, 2, 2, 2]

/-- L4 (i), invisible temporarily: between the second swap and the first flush's publish the completed update is
    in no view (the first read returns nothing); after the publish it is back (the second read finds it). -/
theorem C05_pools_lockAfterSwap_temporarily_invisible :
    view (run Upd.ap (wB true) (schedTemp.take 5)) 1 = none ∧
    (run Upd.ap (wB true) schedTemp).threads.map (·.out) =
      [[.updated none, .updated none], [.flushed], [.flushed], [.got none, .got (some [11])]] ∧
    view (run Upd.ap (wB true) schedTemp) 1 = some [11] := by
  refine ⟨by decide, by decide, by decide⟩

/-- a writer appending 1 then (bucket 2) then 2 to bucket 1: a read-modify-write -/
def ConcPools.wC (lockAfterSwap : Bool) : State Upd (List Nat) :=
  { lockAfterSwap := lockAfterSwap,
    threads := [{ prog := [.upd 1 (.app 1), .upd 2 (.set [22]), .upd 1 (.app 2)] }, { prog := [.flush] },
                { prog := [.flush] }] }

/-- L4 (i), the temporary window made permanent by a mutator: inside the window the second mutator of bucket 1 builds
    its record list from the stale (empty) one: the first append is dropped for good (correct result: [1, 2]). -/
theorem C05_pools_lockAfterSwap_rmw_on_stale :
    view (run Upd.ap (wC true) [0, 1, 1, 0, 2, 0, 1, 1, 2, 2, 2]) 1 = some [2] ∧
    view (run Upd.ap (wC false) [0, 1, 1, 0, 2, 0, 1, 1, 2, 2, 2]) 1 = some [1, 2] := by
  refine ⟨by decide, by decide⟩

/-- one writer, one flusher, a reader that reads bucket 1 twice; readers skip the pools when nothing is
    outstanding -/
def ConcPools.wD (skipPools : Bool) : State Upd (List Nat) :=
  { skipPools := skipPools,
    threads := [{ prog := [.upd 1 (.set [11])] }, { prog := [.flush] }, { prog := [.read 1, .read 1] }] }

/-- L4 (ii).  A reader that skips the pools while nothing is outstanding (nextPool empty) reads, between the swap
    and the publish of a SINGLE flush, the stale file (here: nothing) although the update completed; with the
    correct lookup order the same schedule returns the value twice. -/
theorem C05_pools_skipPools_stale :
    (run Upd.ap (wD true) [0, 1, 2, 2, 1, 1, 1, 2, 2]).threads.map (·.out) =
      [[.updated none], [.flushed], [.got none, .got (some [11])]] ∧
    (run Upd.ap (wD false) [0, 1, 2, 2, 1, 1, 1, 2, 2]).threads.map (·.out) =
      [[.updated none], [.flushed], [.got (some [11]), .got (some [11])]] := by
  refine ⟨by decide, by decide⟩

/-! ### non-vacuity -/

/-- two writers (one a read-modify-write), two flushers, two readers -/
def ConcPools.exP : State Upd (List Nat) :=
  init [[.upd 1 (.app 1), .upd 2 (.set [20]), .upd 1 (.app 2), .upd 2 .del],
        [.upd 1 (.app 3), .upd 3 .del],
        [.flush, .flush], [.flush, .flush],
        [.read 1, .read 2, .read 1], [.read 3, .read 1]]

def ConcPools.schedP : List Nat :=
  [0, 2, 4, 1, 2, 0, 3, 5, 2, 4, 2, 3, 0, 3, 4, 5, 3, 1, 3, 4, 0, 2, 5, 4, 2, 3, 2, 5, 4, 4, 2, 3, 3, 3, 3]

example : Init exP := init_Init _

example :
    (run Upd.ap exP schedP).threads.map (·.out) =
      [[.updated none, .updated none, .updated (some [1, 3]), .updated (some [20])],
       [.updated (some [1]), .updated none],
       [.flushed, .flushed], [.flushed, .flushed],
       [.got (some [1]), .got (some [20]), .got (some [1, 3, 2])], [.got none, .got (some [1, 3, 2])]] ∧
    (run Upd.ap exP schedP).threads.map (fun t => (t.prog, t.pc)) =
      [([], .idle), ([], .idle), ([], .idle), ([], .idle), ([], .idle), ([], .idle)] ∧
    view (run Upd.ap exP schedP) 1 = some [1, 3, 2] ∧ view (run Upd.ap exP schedP) 2 = some [] ∧
    view (run Upd.ap exP schedP) 3 = none := by
  refine ⟨by decide +kernel, by decide +kernel, by decide +kernel, by decide +kernel, by decide +kernel⟩

/-! ### L1/L2: the abstract register, read your writes -/

/-- L1, register form.  Along every schedule the view of bucket `b` is the fold of all mutators applied to `b`
    (`updsOn`: the codes of the mutator sections on `b`, in the order of the schedule) over the initial view —
    however many flushes run in between and wherever they stand. -/
theorem C05_pools_register (ap : U → Option V → Option V) (s0 : State U V) (h0 : Init s0) (sched : List Nat)
    (b : Bucket) :
    view (run ap s0 sched) b = (updsOn ap b s0 sched).foldl (fun r u => applyU ap u r) (view s0 b) :=
  view_run h0.inv sched b

/-- L2.  After schedule `a` thread `i` runs a mutator section on bucket `bk` that stores `v`; then ANY schedule `b`
    (any number of flushes, other mutators, readers); then thread `j`, idle, starts a read of `bk`; then ANY
    continuation `c`.  Right after the mutator the view is `v`; when the read starts the view is `v` with the later
    mutators of `bk` applied in order ("that value or a later one"); and thread `j` is waiting to return exactly that
    view or has returned it. -/
theorem C05_pools_read_your_writes (ap : U → Option V → Option V) (s0 : State U V) (h0 : Init s0)
    (a b c : List Nat) (i j : Nat) (bk : Bucket) (u : U) (v : V) (rest : List (Op U)) (rest' : List (Op U))
    (ti : Thread U V) (hti : (run ap s0 a).threads[i]? = some ti) (hpc : ti.pc = .idle)
    (hp : ti.prog = .upd bk u :: rest) (hap : ap u (view (run ap s0 a) bk) = some v)
    (tj : Thread U V) (htj : (run ap s0 (a ++ i :: b)).threads[j]? = some tj) (hidle : tj.pc = .idle)
    (hprog : tj.prog = .read bk :: rest') :
    view (run ap s0 (a ++ [i])) bk = some v ∧
    view (run ap s0 (a ++ i :: b)) bk =
      (updsOn ap bk (run ap s0 (a ++ [i])) b).foldl (fun r u => applyU ap u r) (some v) ∧
    ∃ t, (run ap s0 (a ++ i :: b ++ j :: c)).threads[j]? = some t ∧
      ((∃ b' inf, t.pc = .readInfo b' inf ∧ t.out = tj.out ∧
          infoVal (run ap s0 (a ++ i :: b ++ j :: c)).file inf = view (run ap s0 (a ++ i :: b)) bk) ∨
       (∃ more, t.out = tj.out ++ .got (view (run ap s0 (a ++ i :: b)) bk) :: more)) := by
  have hI1 := inv_run (ap := ap) h0.inv a
  have h1 : view (run ap s0 (a ++ [i])) bk = some v := by
    rw [run_append, run_cons, run_nil, view_stepD hI1 i bk, hti]
    simp [updOf, hpc, hp, applyU, hap]
  have hI2 := inv_run (ap := ap) h0.inv (a ++ [i])
  have hsplit : run ap s0 (a ++ i :: b) = run ap (run ap s0 (a ++ [i])) b := by
    rw [← run_append]; simp
  refine ⟨h1, ?_, ?_⟩
  · rw [hsplit, view_run hI2 b bk, h1]
  · have hI3 := inv_run (ap := ap) h0.inv (a ++ i :: b)
    have hsee := readSees_info (ap := ap) hI3 htj hidle hprog
    have hrun : run ap s0 (a ++ i :: b ++ j :: c) = run ap (stepD ap (run ap s0 (a ++ i :: b)) j) c := by
      rw [show a ++ i :: b ++ j :: c = (a ++ i :: b) ++ j :: c by simp, run_append, run_cons]
    obtain ⟨t, ht, hc⟩ := readSees_run (inv_stepD hI3 j) hsee c
    rw [← hrun] at ht hc
    refine ⟨t, ht, ?_⟩
    rcases hc with ⟨b', inf, h2, h3, h4, _⟩ | hm
    · exact Or.inl ⟨b', inf, h2, h3, h4⟩
    · exact Or.inr hm

/-! ### L3: refinement to the atomic index of Sth/Model/Conc.lean -/

/-- L3, one section.  Instance: a bucket's value is the part of Conc's exact-key index in the bucket, the mutators are
    Conc's index sections (`IdxOp.put` / `update` / `remove`; `IdxOp.conc` = the expressions of `Conc.step` on Conc's
    `idx`), `bk` is any bucket function, `Rel bk s idx` = Conc's `lookup idx k` is `Conc.lookup (view s (bk k)) k` for
    every key.  In every reachable state related to `idx`: a mutator section on the bucket of its key is EXACTLY one
    Conc index section (the new state is related to `u.conc idx`, and the record list it found answers Conc's
    presence test); every other section — reader, swap, append, publish, release — is a stutter. -/
theorem C05_pools_refines_conc_section (bk : Conc.Key → Bucket) (s0 : State IdxOp IV) (h0 : Init s0)
    (sched : List Nat) (i : Nat) (t : Thread IdxOp IV) (s' : State IdxOp IV) (idx : List (Conc.Key × Nat))
    (ht : (run IdxOp.ap s0 sched).threads[i]? = some t) (hstep : step IdxOp.ap (run IdxOp.ap s0 sched) i = some s')
    (hr : Rel bk (run IdxOp.ap s0 sched) idx) :
    match t.pc, t.prog with
    | .idle, .upd b u :: _ =>
      b = bk u.key → Rel bk s' (u.conc idx) ∧
        (Conc.lookup idx u.key).isSome =
          (Conc.lookup ((view (run IdxOp.ap s0 sched) b).getD []) u.key).isSome
    | _, _ => Rel bk s' idx := by
  have hI := inv_run (ap := IdxOp.ap) h0.inv sched
  obtain ⟨t1, ht1, hsec⟩ := step_secC hI.fl1 hI.fl2 hstep
  rw [ht] at ht1; cases ht1
  exact refine_sec bk hI ht hsec hr

/-- L3, reads: an Index.Get of `k` whose info section runs in a state related to `idx` returns (whenever it
    completes — L1 (c)) a record list in which `k` looks up exactly as in Conc's `lookup idx k` at that moment. -/
theorem C05_pools_refines_conc_read (bk : Conc.Key → Bucket) (s : State IdxOp IV) (idx : List (Conc.Key × Nat))
    (hr : Rel bk s idx) (k : Conc.Key) :
    Conc.lookup ((infoVal s.file (infoOf s (bk k))).getD []) k = Conc.lookup idx k := refine_read bk hr k

/-- L3, whole run: along every schedule the pools state is related to Conc's index after the same index sections in
    the same order (`updsAll`) -/
theorem C05_pools_refines_conc_run (bk : Conc.Key → Bucket) (s0 : State IdxOp IV) (h0 : Init s0)
    (hw : WellBucketed bk s0) (idx0 : List (Conc.Key × Nat)) (hr : Rel bk s0 idx0) (sched : List Nat) :
    Rel bk (run IdxOp.ap s0 sched) ((updsAll IdxOp.ap s0 sched).foldl (fun idx u => u.conc idx) idx0) :=
  refine_run bk h0.inv hw hr sched

/-- the empty pools state is related to the empty Conc index -/
example (bk : Conc.Key → Bucket) (progs : List (List (Op IdxOp))) : Rel bk (init progs) [] := by
  intro k; rfl

/-- non-vacuity of L3: two index writers on keys sharing bucket 7 (Put, Update) and bucket 8 (Put, Remove), two
    flushes, a reader; the bucket of a key is its first byte -/
def ConcPools.exI : State IdxOp IV :=
  init [[.upd 7 (.put [7, 1] 0), .upd 7 (.update [7, 1] 3), .upd 8 (.remove [8, 1]), .upd 7 (.update [7, 9] 5)],
        [.upd 7 (.put [7, 2] 1), .upd 8 (.put [8, 1] 2), .upd 7 (.put [7, 2] 4)],
        [.flush, .flush], [.read 7, .read 8]]

def ConcPools.bkI (k : Conc.Key) : Bucket := k.headD 0

def ConcPools.schedI : List Nat := [0, 1, 2, 1, 2, 3, 0, 2, 2, 3, 0, 2, 1, 2, 2, 3, 2, 0, 3, 2]

example : Init exI := init_Init _
example : WellBucketed bkI exI := wellBucketed_of_B _ _ (by decide)

/-- every schedule of `exI` refines Conc's index … -/
example (sched : List Nat) :
    Rel bkI (run IdxOp.ap exI sched) ((updsAll IdxOp.ap exI sched).foldl (fun idx u => u.conc idx) []) :=
  C05_pools_refines_conc_run bkI exI (init_Init _) (wellBucketed_of_B _ _ (by decide)) [] (fun _ => rfl) sched

/-- … and on one of them: the index sections in schedule order, Conc's index after them, and the pools state's
    answers (through nextPool, curPool and the file: two flushes completed) -/
example :
    updsAll IdxOp.ap exI schedI =
      [.put [7, 1] 0, .put [7, 2] 1, .put [8, 1] 2, .update [7, 1] 3, .remove [8, 1], .put [7, 2] 4,
       .update [7, 9] 5] ∧
    (updsAll IdxOp.ap exI schedI).foldl (fun idx u => u.conc idx) [] = [([7, 1], 3), ([7, 2], 1)] ∧
    absLookup bkI (run IdxOp.ap exI schedI) [7, 1] = some 3 ∧
    absLookup bkI (run IdxOp.ap exI schedI) [7, 2] = some 1 ∧
    absLookup bkI (run IdxOp.ap exI schedI) [8, 1] = none ∧
    absLookup bkI (run IdxOp.ap exI schedI) [7, 9] = none ∧
    (run IdxOp.ap exI schedI).file.length = 3 := by
  refine ⟨by decide +kernel, by decide +kernel, by decide +kernel, by decide +kernel, by decide +kernel,
    by decide +kernel, by decide +kernel⟩

/-! ### L5: the pools of the multihash primary -/

variable {R : Type}

/-- L5, step form.  In every reachable state of the correct protocol a Put section gives the fresh location `recPos`
    (the location it returns) its record and changes no other view; every other section — Get's two sections and
    the three sections of a flush: swap, append in allocation order, release — changes no view. -/
theorem C05_pools_primary_section_effect (s0 : Pri.State R) (h0 : Pri.Init s0) (sched : List Nat) (i : Nat)
    (t : Pri.Thread R) (s' : Pri.State R) (ht : (Pri.run s0 sched).threads[i]? = some t)
    (hstep : Pri.step (Pri.run s0 sched) i = some s') (l : Nat) :
    Pri.view s' l =
      match t.pc, t.prog with
      | .idle, .put r :: _ => if l = (Pri.run s0 sched).recPos then some r else Pri.view (Pri.run s0 sched) l
      | _, _ => Pri.view (Pri.run s0 sched) l := by
  have hI := Pri.pinv_run h0.inv sched
  obtain ⟨t1, ht1, hsec⟩ := Pri.step_secC hI.fl1 hI.fl2 hstep
  rw [ht] at ht1; cases ht1
  exact Pri.view_sec hI ht hsec l

/-- L5: a location is visible exactly when Put has handed it out; and it keeps its record for ever (write-once),
    across any number of flushes -/
theorem C05_pools_primary_write_once (s0 : Pri.State R) (h0 : Pri.Init s0) (a b : List Nat) (l : Nat) :
    ((Pri.view (Pri.run s0 a) l).isSome ↔ l < (Pri.run s0 a).recPos) ∧
    (l < (Pri.run s0 a).recPos → Pri.view (Pri.run s0 (a ++ b)) l = Pri.view (Pri.run s0 a) l) := by
  have hI := Pri.pinv_run h0.inv a
  refine ⟨Pri.view_isSome_iff hI l, fun hl => ?_⟩
  rw [Pri.run_append]; exact Pri.view_stable hI b hl

/-- L5: a Get of a location that has been handed out (its Put returned) finds the record: after its first section
    and ANY continuation `c`, the thread still waits at the file read with the record on file at that location,
    or has returned `got (the record)` — never EOF, never ErrOutOfBounds, never another record. -/
theorem C05_pools_primary_get (s0 : Pri.State R) (h0 : Pri.Init s0) (a c : List Nat) (j : Nat) (l : Nat)
    (rest : List (Pri.Op R)) (tj : Pri.Thread R) (htj : (Pri.run s0 a).threads[j]? = some tj)
    (hidle : tj.pc = .idle) (hprog : tj.prog = .get l :: rest) (hl : l < (Pri.run s0 a).recPos) :
    ∃ r, Pri.view (Pri.run s0 a) l = some r ∧
      ∃ t, (Pri.run s0 (a ++ j :: c)).threads[j]? = some t ∧
        ((t.pc = .getChecked l ∧ t.out = tj.out ∧ (Pri.run s0 (a ++ j :: c)).file[l]? = some r) ∨
         (∃ more, t.out = tj.out ++ .got (some r) :: more)) := by
  have hI := Pri.pinv_run h0.inv a
  obtain ⟨hsome, hsee⟩ := Pri.get_first hI htj hidle hprog hl
  obtain ⟨r, hr⟩ := Option.isSome_iff_exists.1 hsome
  refine ⟨r, hr, ?_⟩
  obtain ⟨t, ht, hc⟩ := Pri.getSees_run (Pri.pinv_stepD hI j) hsee c
  have hrun : Pri.run s0 (a ++ j :: c) = Pri.run (Pri.stepD (Pri.run s0 a) j) c := by
    rw [Pri.run_append, Pri.run_cons]
  rw [← hrun] at ht hc
  refine ⟨t, ht, ?_⟩
  rw [hr] at hc
  rcases hc with ⟨h1, h2, h3, _⟩ | hm
  · exact Or.inl ⟨h1, h2, h3⟩
  · exact Or.inr hm

/-- one writer, one flusher, a reader of location 0 (twice) -/
def ConcPools.pD (skipPools : Bool) : Pri.State Nat :=
  { skipPools := skipPools, threads := [{ prog := [.put 100] }, { prog := [.flush] }, { prog := [.get 0, .get 0] }] }

/-- L4 (ii) where it was seeded (C05-r2, getCached skipping the pools when nothing is outstanding): between the swap
    and the append of a single flush the record exists only in curPool; the Get goes to the file and reads nothing
    (EOF) although the Put returned; the correct getCached returns the record both times. -/
theorem C05_pools_primary_skipPools_eof :
    (Pri.run (pD true) [0, 1, 2, 2, 1, 1, 2, 2]).threads.map (·.out) =
      [[.loc 0], [.flushed], [.got none, .got (some 100)]] ∧
    (Pri.run (pD false) [0, 1, 2, 2, 1, 1, 2, 2]).threads.map (·.out) =
      [[.loc 0], [.flushed], [.got (some 100), .got (some 100)]] := by
  refine ⟨by decide, by decide⟩

/-- one writer (two records), two flushers, a reader of both locations -/
def ConcPools.pA (lockAfterSwap : Bool) : Pri.State Nat :=
  { lockAfterSwap := lockAfterSwap,
    threads := [{ prog := [.put 100, .put 101] }, { prog := [.flush] }, { prog := [.flush] },
                { prog := [.get 0, .get 1] }] }

/-- L5, why the flushLock discipline matters even more in the primary (the seeded change C05-r3 transplanted): with
    flushLock taken after the swap the first pool is never written and the second is written twice, so the file no
    longer holds location `l` at position `l`: Get(0) returns the record of location 1.  Correct locking: both
    records, at their locations. -/
theorem C05_pools_primary_lockAfterSwap_wrong_record :
    (Pri.run (pA true) [0, 1, 0, 2, 1, 1, 2, 2, 3, 3, 3, 3]).file = [101, 101] ∧
    ((Pri.run (pA true) [0, 1, 0, 2, 1, 1, 2, 2, 3, 3, 3, 3]).threads.map (·.out))[3]? =
      some [.got (some 101), .got (some 101)] ∧
    (Pri.run (pA false) [0, 1, 0, 2, 1, 1, 2, 2, 2, 3, 3, 3, 3]).file = [100, 101] ∧
    ((Pri.run (pA false) [0, 1, 0, 2, 1, 1, 2, 2, 2, 3, 3, 3, 3]).threads.map (·.out))[3]? =
      some [.got (some 100), .got (some 101)] := by
  refine ⟨by decide, by decide, by decide, by decide⟩

example (progs : List (List (Pri.Op Nat))) : Pri.Init (Pri.init progs) := Pri.init_Init progs

end Sth
