/-
C05 (pools layer) — the two-pool protocol of the index under concurrent Flush implements one atomic register per
bucket.  Model: Sth/Model/ConcPools.lean PART 1 (read its header: the sections are the stretches between the hook
points of store/index/index.go).  Lemmas: Sth/Lemmas/C05Pools.lean, C05PoolsLin.lean.

This is the layer between the exact-key index of Sth/Model/Conc.lean (Index.Get/Put/Update/Remove atomic) and the
code, where a bucket's record list lives in nextPool, curPool or the append-only file (through the bucket table)
and is moved by Flush while calls run.  `view s b = nextPool[b] ?? curPool[b] ?? file[table[b]]` is what every
lookup of the code computes.  The theorems hold for EVERY interpretation `ap` of the mutators, EVERY initial state
satisfying the invariant (`Init`; `init progs` is one), EVERY number of threads with ANY programs mixing mutators,
readers and flushes, and EVERY schedule.

  L1  `C05_pools_view_invariant`, `C05_pools_section_effect`
  L4  `C05_pools_lockAfterSwap_*`, `C05_pools_skipPools_stale` : the two seeded defects that lived here
      (C05-r3 flushLock after the swap, C05-r2 reader skipping the pools), evaluated on the model by `decide`.
-/
import Sth.Lemmas.C05PoolsLin

namespace Sth
open ConcPools

variable {U V : Type}

/-! ### L1: the views are the abstract registers -/

/-- L1, step form.  In every reachable state of the correct protocol a mutator section is ONE atomic
    read-modify-write of the view of its bucket (`applyU ap u r = (ap u r).or r`) and EVERY other section — the
    reader's two sections and the four sections of a flush: swap, append, publish, release — changes no view. -/
theorem C05_pools_section_effect (ap : U → Option V → Option V) (s0 : State U V) (h0 : Init s0)
    (sched : List Nat) (i : Nat) (t : Thread U V) (s' : State U V)
    (ht : (run ap s0 sched).threads[i]? = some t) (hstep : step ap (run ap s0 sched) i = some s') (b' : Bucket) :
    view s' b' =
      match t.pc, t.prog with
      | .idle, .upd b u :: _ =>
        if b' = b then applyU ap u (view (run ap s0 sched) b) else view (run ap s0 sched) b'
      | _, _ => view (run ap s0 sched) b' := by
  have hI := inv_run (ap := ap) h0.inv sched
  obtain ⟨t1, ht1, hsec⟩ := step_secC hI.fl1 hI.fl2 hstep
  rw [ht] at ht1; cases ht1
  exact view_sec hI ht hsec b'

/-- L1.  For every schedule of the correct protocol:
    (a) the ghost log (a mutator is logged by its only section, a read by its INFO section with the view at that
        moment, a flush when it returns) is a legal sequential history of the register map — one atomic register
        per bucket, `specStep` — started from the initial views; it ends in the views of the final state: `view s b`
        IS the result of applying, in the order of their sections, all updates of `b` so far;
    (b) the log restricted to a thread lists the calls of its program in program order, each logged between its
        invocation and its return;
    (c) the results the calls returned are the logged ones: in particular a completed read returns the view at its
        info section (the value read from the file later is the one the position named then: append-only). -/
theorem C05_pools_view_invariant (ap : U → Option V → Option V) (s0 : State U V) (h0 : Init s0)
    (sched : List Nat) :
    specRun ap (view s0) ((runL ap s0 sched).2.map (·.2.1)) =
        (view (run ap s0 sched), (runL ap s0 sched).2.map (·.2.2)) ∧
    ∀ (i : Nat) (t : Thread U V), (run ap s0 sched).threads[i]? = some t →
      ∃ t0, s0.threads[i]? = some t0 ∧
        (logOf i (runL ap s0 sched).2).map (·.1) = t0.prog.take (logOf i (runL ap s0 sched).2).length ∧
        t.prog = t0.prog.drop t.out.length ∧
        t.out.length ≤ (logOf i (runL ap s0 sched).2).length ∧
        (logOf i (runL ap s0 sched).2).length ≤ t.out.length + (if t.pc.running then 1 else 0) ∧
        t.out = ((logOf i (runL ap s0 sched).2).map (·.2)).take t.out.length ∧
        (t.pc = .idle → t.out = (logOf i (runL ap s0 sched).2).map (·.2)) := by
  have hg := good_runLFrom (ap := ap) h0.good sched
  have hfst : (runLFrom ap (s0, []) sched).1 = run ap s0 sched := runLFrom_fst _ _
  refine ⟨?_, ?_⟩
  · have := hg.spec
    rw [hfst] at this
    exact this
  · intro i t ht
    obtain ⟨p, hp, h1, h2, h3, h4, h5⟩ := hg.lin.facts (i := i) (t := t) (by rw [hfst]; exact ht)
    obtain ⟨p', hp', hd⟩ := progInv_run (ap := ap) h0.inv h0.progInv sched i t ht
    rw [hp] at hp'; cases hp'
    simp only [List.getElem?_map, Option.map_eq_some_iff] at hp
    obtain ⟨t0, ht0, rfl⟩ := hp
    exact ⟨t0, ht0, h1, hd, h2, h3, h4, h5⟩

/-- the invariant behind L1, for every schedule: the table names positions of the file, a flushing thread holds
    flushLock, and curPool is clean (every entry is in the file and named by the table) whenever flushLock is free -/
theorem C05_pools_invariant (ap : U → Option V → Option V) (s0 : State U V) (h0 : Init s0) (sched : List Nat) :
    Inv (run ap s0 sched) := inv_run h0.inv sched

/-! ### L4: the seeded defects of this layer -/

/-- one writer (bucket 1, then bucket 2), two flushers, one reader of bucket 1 -/
def ConcPools.wA (lockAfterSwap : Bool) : State Upd (List Nat) :=
  { lockAfterSwap := lockAfterSwap,
    threads := [{ prog := [.upd 1 (.set [11]), .upd 2 (.set [22])] }, { prog := [.flush] }, { prog := [.flush] },
                { prog := [.read 1] }] }

/-- W upd 1 | F1 swap | W upd 2 | F2 swap (replaces curPool = {1} before F1 wrote it) | F1 append, publish, release
    (ranges over the FIELD: writes {2}) | F2 append, publish, release | R info, read -/
def ConcPools.schedLost : List Nat := [0, 1, 0, 2, 1, 1, 1, 2, 2, 2, 3, 3]

/-- L4 (i), lost for good.  With flushLock taken after the swap: the update of bucket 1 completed, both flushes
    completed, and bucket 1 is in neither pool, not in the file, not in the table: the read returns nothing, and
    (every thread has finished) no later section can bring it back. -/
theorem C05_pools_lockAfterSwap_lost_for_good :
    let s := run Upd.ap (wA true) schedLost
    s.threads.map (·.out) = [[.updated none, .updated none], [.flushed], [.flushed], [.got none]] ∧
    s.threads.map (fun t => (t.prog, t.pc)) = [([], .idle), ([], .idle), ([], .idle), ([], .idle)] ∧
    view s 1 = none ∧ s.next = [] ∧ s.cur = [(2, [22])] ∧ s.file = [(2, [22]), (2, [22])] ∧ s.table = [(2, 1)] ∧
    s.flushLock = none := by
  refine ⟨by decide, by decide, by decide, by decide, by decide, by decide, by decide, by decide⟩

/-- the same schedule with the correct locking: the second flusher is blocked until the first has released; the
    read returns the value -/
theorem C05_pools_same_schedule_correct :
    let s := run Upd.ap (wA false) schedLost
    (s.threads.map (·.out))[3]? = some [.got (some [11])] ∧ view s 1 = some [11] ∧ view s 2 = some [22] := by
  refine ⟨by decide, by decide, by decide⟩

/-- one writer, two flushers, a reader that reads bucket 1 twice -/
def ConcPools.wB (lockAfterSwap : Bool) : State Upd (List Nat) :=
  { lockAfterSwap := lockAfterSwap,
    threads := [{ prog := [.upd 1 (.set [11]), .upd 2 (.set [22])] }, { prog := [.flush] }, { prog := [.flush] },
                { prog := [.read 1, .read 1] }] }

/-- W upd 1 | F1 swap, append | W upd 2 | F2 swap (curPool = {1} replaced after it was written, before it is
    published) | R reads bucket 1 | F1 publish, release | R reads bucket 1 again | F2 append, publish, release -/
def ConcPools.schedTemp : List Nat := [0, 1, 1, 0, 2, 3, 3, 1, 1, 3, 3, 2, 2, 2]

/-- L4 (i), invisible temporarily: between the second swap and the first flush's publish the completed update is
    in no view (the first read returns nothing); after the publish it is back (the second read finds it). -/
theorem C05_pools_lockAfterSwap_temporarily_invisible :
    view (run Upd.ap (wB true) (schedTemp.take 5)) 1 = none ∧
    (run Upd.ap (wB true) schedTemp).threads.map (·.out) =
      [[.updated none, .updated none], [.flushed], [.flushed], [.got none, .got (some [11])]] ∧
    view (run Upd.ap (wB true) schedTemp) 1 = some [11] := by
  refine ⟨by decide, by decide, by decide⟩

/-- a writer appending 1 then (bucket 2) then 2 to bucket 1: a read-modify-write -/
def ConcPools.wC (lockAfterSwap : Bool) : State Upd (List Nat) :=
  { lockAfterSwap := lockAfterSwap,
    threads := [{ prog := [.upd 1 (.app 1), .upd 2 (.set [22]), .upd 1 (.app 2)] }, { prog := [.flush] },
                { prog := [.flush] }] }

/-- L4 (i), the temporary window made permanent by a mutator: inside the window the second mutator of bucket 1 builds
    its record list from the stale (empty) one: the first append is dropped for good (correct result: [1, 2]). -/
theorem C05_pools_lockAfterSwap_rmw_on_stale :
    view (run Upd.ap (wC true) [0, 1, 1, 0, 2, 0, 1, 1, 2, 2, 2]) 1 = some [2] ∧
    view (run Upd.ap (wC false) [0, 1, 1, 0, 2, 0, 1, 1, 2, 2, 2]) 1 = some [1, 2] := by
  refine ⟨by decide, by decide⟩

/-- one writer, one flusher, a reader that reads bucket 1 twice; readers skip the pools when nothing is
    outstanding -/
def ConcPools.wD (skipPools : Bool) : State Upd (List Nat) :=
  { skipPools := skipPools,
    threads := [{ prog := [.upd 1 (.set [11])] }, { prog := [.flush] }, { prog := [.read 1, .read 1] }] }

/-- L4 (ii).  A reader that skips the pools while nothing is outstanding (nextPool empty) reads, between the swap
    and the publish of a SINGLE flush, the stale file (here: nothing) although the update completed; with the
    correct lookup order the same schedule returns the value twice. -/
theorem C05_pools_skipPools_stale :
    (run Upd.ap (wD true) [0, 1, 2, 2, 1, 1, 1, 2, 2]).threads.map (·.out) =
      [[.updated none], [.flushed], [.got none, .got (some [11])]] ∧
    (run Upd.ap (wD false) [0, 1, 2, 2, 1, 1, 1, 2, 2]).threads.map (·.out) =
      [[.updated none], [.flushed], [.got (some [11]), .got (some [11])]] := by
  refine ⟨by decide, by decide⟩

/-! ### non-vacuity -/

/-- two writers (one a read-modify-write), two flushers, two readers -/
def ConcPools.exP : State Upd (List Nat) :=
  init [[.upd 1 (.app 1), .upd 2 (.set [20]), .upd 1 (.app 2), .upd 2 .del],
        [.upd 1 (.app 3), .upd 3 .del],
        [.flush, .flush], [.flush, .flush],
        [.read 1, .read 2, .read 1], [.read 3, .read 1]]

def ConcPools.schedP : List Nat :=
  [0, 2, 4, 1, 2, 0, 3, 5, 2, 4, 2, 3, 0, 3, 4, 5, 3, 1, 3, 4, 0, 2, 5, 4, 2, 3, 2, 5, 4, 4, 2, 3, 3, 3, 3]

example : Init exP := init_Init _

example :
    (run Upd.ap exP schedP).threads.map (·.out) =
      [[.updated none, .updated none, .updated (some [1, 3]), .updated (some [20])],
       [.updated (some [1]), .updated none],
       [.flushed, .flushed], [.flushed, .flushed],
       [.got (some [1]), .got (some [20]), .got (some [1, 3, 2])], [.got none, .got (some [1, 3, 2])]] ∧
    (run Upd.ap exP schedP).threads.map (fun t => (t.prog, t.pc)) =
      [([], .idle), ([], .idle), ([], .idle), ([], .idle), ([], .idle), ([], .idle)] ∧
    view (run Upd.ap exP schedP) 1 = some [1, 3, 2] ∧ view (run Upd.ap exP schedP) 2 = some [] ∧
    view (run Upd.ap exP schedP) 3 = none := by
  refine ⟨by decide +kernel, by decide +kernel, by decide +kernel, by decide +kernel, by decide +kernel⟩

end Sth
