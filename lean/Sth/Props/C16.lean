/-
C16 — No data races: soundness of the lockset discipline.

Property theorems only.  They are about the lock-trace model of Sth/Model/LockTrace.lean: ANY trace (any
number of threads, locks, variables, any interleaving) that respects mutual exclusion (`WellFormed`), with
happens-before the Go memory model's relation (program order, Unlock/RUnlock → later Lock, Unlock → later
RLock, `go` → goroutine, goroutine → join; NOT RUnlock → RLock).  "Race free" = every two conflicting
accesses (same variable, different threads, at least one write) are ordered by happens-before.

What the theorems do NOT say: that the Go code follows the discipline.  That is the finite obligation over
the extracted access table (one `guarded` fact per access, checkable by `disciplineB`), cross-checked by
the race detector.
-/
import Sth.Lemmas.C16

namespace Sth.Race

/-- C16, lockset soundness: two conflicting accesses that are both performed holding a common lock `l`
    (the write side exclusively, a read side at least shared) are ordered by happens-before. -/
theorem C16_lockset_sound (tr : Trace) (wf : WellFormed tr) (i j l : Nat)
    (hc : conflict tr i j) (gi : guarded tr i l) (gj : guarded tr j l) : hb tr i j :=
  lockset_sound tr wf i j l hc gi gj

/-- C16, lockset soundness in its sharpest form (the pairwise rule of Sth/Obligations/Table.lean, `pairOK`):
    the threads of two conflicting accesses both hold `l` at their access, at least ONE of them exclusively
    — whichever of the two is the write. -/
theorem C16_lockset_sound_modes (tr : Trace) (wf : WellFormed tr) (i j l : Nat) (m m' : Mode)
    (hc : conflict tr i j) (hi : holds tr i l m) (hj : holds tr j l m') (hm : m = .w ∨ m' = .w) : hb tr i j :=
  lockset_sound_modes tr wf i j l m m' hc hi hj hm

/-- C16, guard table: if every access of every variable `x` is performed holding `guard x` (writes
    exclusively), the trace is race free. -/
theorem C16_discipline_race_free (tr : Trace) (wf : WellFormed tr) (guard : Nat → Nat)
    (h : ∀ i t x w, accessAt tr i t x w → guarded tr i (guard x)) :
    ∀ i j, conflict tr i j → hb tr i j :=
  discipline_race_free tr wf guard h

/-- C16, guard table with phases: a conflicting pair is exempt from the lock when it is ordered by the
    fork/join structure alone (`hbFJ`: program order, `go`, join — no lock edges), e.g. initialisation
    before the goroutines start, or teardown after they were joined. -/
theorem C16_discipline_phased (tr : Trace) (wf : WellFormed tr) (guard : Nat → Nat)
    (h : ∀ i j t t' x w w', accessAt tr i t x w → accessAt tr j t' x w' → conflict tr i j →
      (guarded tr i (guard x) ∧ guarded tr j (guard x)) ∨ hbFJ tr i j) :
    ∀ i j, conflict tr i j → hb tr i j :=
  discipline_phased tr wf guard h

/-- the one-step, purely syntactic form of the exemption: the earlier access's thread forks the later
    one's thread in between, or the later one's thread joins the earlier one's in between -/
theorem C16_fork_join_ordered (tr : Trace) (i j : Nat) (h : forkJoinOrdered tr i j) : hbFJ tr i j :=
  forkJoinOrdered_hbFJ h

/-- C16, guard SETS (e.g. `Index.curPool`: written under `flushLock` and `bucketLk`, read under either):
    writes hold every lock of the variable's non-empty set exclusively, reads hold at least one. -/
theorem C16_discipline_locksets (tr : Trace) (wf : WellFormed tr) (guards : Nat → List Nat)
    (hw : ∀ i t x, accessAt tr i t x true → guards x ≠ [] ∧ ∀ l, l ∈ guards x → guarded tr i l)
    (hr : ∀ i t x, accessAt tr i t x false → ∃ l, l ∈ guards x ∧ guarded tr i l) :
    ∀ i j, conflict tr i j → hb tr i j :=
  discipline_locksets tr wf guards hw hr

/-- C16, the most general form: every conflicting pair holds SOME common lock, one side exclusively, or
    is fork/join ordered. -/
theorem C16_pairwise_race_free (tr : Trace) (wf : WellFormed tr)
    (h : ∀ i j, conflict tr i j →
      (∃ l m m', holds tr i l m ∧ holds tr j l m' ∧ (m = .w ∨ m' = .w)) ∨ hbFJ tr i j) :
    ∀ i j, conflict tr i j → hb tr i j :=
  pairwise_race_free tr wf h

/-- happens-before respects the trace order … -/
theorem C16_hb_irrefl_or_order (tr : Trace) (i j : Nat) (h : hb tr i j) : i < j :=
  hb_lt h

/-- … hence it is a strict partial order on positions (in particular "ordered" in the theorems above is
    never vacuous or circular) -/
theorem C16_hb_strict_order (tr : Trace) :
    (∀ i, ¬ hb tr i i) ∧ (∀ i j, hb tr i j → ¬ hb tr j i) ∧ (∀ i k j, hb tr i k → hb tr k j → hb tr i j) :=
  ⟨hb_irrefl, fun _ _ => hb_asymm, fun _ _ _ => hb.trans⟩

/-- the executable checks decide the notions of the model (what a driver may run on a recorded trace) -/
theorem C16_checkers (tr : Trace) (guard : Nat → Nat) :
    (wellFormedB tr = true ↔ WellFormed tr) ∧
    (disciplineB tr guard = true ↔ ∀ i t x w, accessAt tr i t x w → guarded tr i (guard x)) ∧
    (raceFreeB tr = true ↔ ∀ i j, conflict tr i j → hb tr i j) :=
  ⟨wellFormedB_iff, disciplineB_iff, raceFreeB_iff⟩

/-! ### negative witness (the shape of D9: `flushTick` logs `flushRate` outside `rateLk`) -/

/-- thread 1 writes x=7 under Lock(0); thread 2 reads it with no lock, while thread 1 is inside its
    critical section.  Well formed, conflicting, the write is guarded, the read is not — and the two
    accesses are NOT ordered by happens-before, in either direction: a data race. -/
theorem C16_unguarded_race_witness :
    let tr : Trace := [.acq 1 0 .w, .wr 1 7, .rd 2 7, .rel 1 0 .w]
    WellFormed tr ∧ conflict tr 1 2 ∧ guarded tr 1 0 ∧ ¬ guarded tr 2 0 ∧ ¬ hb tr 1 2 ∧ ¬ hb tr 2 1 := by
  decide

/-- the same with the unguarded read AFTER the critical section, and with the read before it: no lock
    edge reaches an access that takes no lock -/
theorem C16_unguarded_race_witness' :
    let tr : Trace := [.acq 1 0 .w, .wr 1 7, .rel 1 0 .w, .rd 2 7]
    let tr' : Trace := [.rd 2 7, .acq 1 0 .w, .wr 1 7, .rel 1 0 .w]
    (WellFormed tr ∧ conflict tr 1 3 ∧ ¬ hb tr 1 3 ∧ ¬ hb tr 3 1) ∧
    (WellFormed tr' ∧ conflict tr' 0 2 ∧ ¬ hb tr' 0 2 ∧ ¬ hb tr' 2 0) := by
  decide

/-- read locks on both sides are not enough for a write: RUnlock → RLock is not a happens-before edge -/
theorem C16_write_under_rlock_witness :
    let tr : Trace := [.acq 1 0 .r, .wr 1 7, .rel 1 0 .r, .acq 2 0 .r, .rd 2 7, .rel 2 0 .r]
    WellFormed tr ∧ conflict tr 1 4 ∧ ¬ guarded tr 1 0 ∧ guarded tr 4 0 ∧ ¬ hb tr 1 4 := by
  decide

/-! ### non-vacuity -/

/-- Lock; wr x; Unlock ‖ RLock; rd x; RUnlock — writer first -/
def exWR : Trace := [.acq 1 0 .w, .wr 1 7, .rel 1 0 .w, .acq 2 0 .r, .rd 2 7, .rel 2 0 .r]

/-- the same two critical sections, reader first -/
def exRW : Trace := [.acq 2 0 .r, .rd 2 7, .rel 2 0 .r, .acq 1 0 .w, .wr 1 7, .rel 1 0 .w]

/-- the hypotheses of `C16_lockset_sound` hold of both -/
example : WellFormed exWR ∧ conflict exWR 1 4 ∧ guarded exWR 1 0 ∧ guarded exWR 4 0 := by decide
example : WellFormed exRW ∧ conflict exRW 1 4 ∧ guarded exRW 1 0 ∧ guarded exRW 4 0 := by decide

/-- … so the theorem applies (and its conclusion agrees with the checker) -/
example : hb exWR 1 4 := C16_lockset_sound exWR (by decide) 1 4 0 (by decide) (by decide) (by decide)
example : hb exRW 1 4 := C16_lockset_sound exRW (by decide) 1 4 0 (by decide) (by decide) (by decide)
example : hbB exWR 1 4 = true ∧ hbB exRW 1 4 = true := by decide

/-- the guard table {7 ↦ lock 0} is respected by both, hence both are race free -/
example : ∀ i j, conflict exWR i j → hb exWR i j :=
  C16_discipline_race_free exWR (by decide) (fun _ => 0) (disciplineB_iff.mp (by decide))
example : ∀ i j, conflict exRW i j → hb exRW i j :=
  C16_discipline_race_free exRW (by decide) (fun _ => 0) (disciplineB_iff.mp (by decide))

/-- the sharper rule: a read under the exclusive lock against a write under the shared one is ordered too
    (the write is not `guarded`, so only `C16_lockset_sound_modes` applies) -/
example :
    let tr : Trace := [.acq 1 0 .r, .wr 1 7, .rel 1 0 .r, .acq 2 0 .w, .rd 2 7, .rel 2 0 .w]
    WellFormed tr ∧ conflict tr 1 4 ∧ ¬ guarded tr 1 0 ∧ holds tr 1 0 .r ∧ holds tr 4 0 .w ∧ hb tr 1 4 := by
  decide

/-- `WellFormed` is a real constraint: a reader cannot get in while a writer holds the lock (nor the
    converse), two readers can -/
example : ¬ WellFormed [.acq 1 0 .w, .acq 2 0 .r, .rel 2 0 .r, .rel 1 0 .w] := by decide
example : ¬ WellFormed [.acq 2 0 .r, .acq 1 0 .w, .rel 1 0 .w, .rel 2 0 .r] := by decide
example : WellFormed [.acq 1 0 .r, .acq 2 0 .r, .rd 1 7, .rd 2 7, .rel 1 0 .r, .rel 2 0 .r] := by decide

/-- phases: thread 0 initialises x=7 with no lock, starts goroutine 1 which reads it under RLock(0), later
    writes it under Lock(0), joins the goroutine and reads it with no lock.  The unlocked accesses are
    exempt by fork / join; the locked pair by the lock. -/
def exPhase : Trace :=
  [.wr 0 7, .fork 0 1, .acq 1 0 .r, .rd 1 7, .rel 1 0 .r, .acq 0 0 .w, .wr 0 7, .rel 0 0 .w, .join 0 1, .rd 0 7]

example : WellFormed exPhase ∧ conflict exPhase 0 3 ∧ ¬ guarded exPhase 0 0 ∧
    conflict exPhase 3 6 ∧ guarded exPhase 3 0 ∧ guarded exPhase 6 0 := by decide
example : forkJoinOrdered exPhase 0 3 :=
  ⟨1, .wr 0 7, .rd 1 7, 0, 1, by decide, by decide, rfl, rfl, Or.inl ⟨rfl, rfl, rfl⟩⟩
example : forkJoinOrdered exPhase 3 9 :=
  ⟨8, .rd 1 7, .rd 0 7, 0, 1, by decide, by decide, rfl, rfl, Or.inr ⟨rfl, rfl, rfl⟩⟩
example : raceFree exPhase := by decide

end Sth.Race
