/-
C11 P1, finding for Q3c: `VisitedStable` is NOT a consequence of reachability.

`C11_primary_file_released_unconditional` (Sth/Props/C13H.lean) assumes on the reached state
  `VisitedStable s f`:  f in the visited set and without a record span  ⇒  f is empty.
This cannot be derived from premises on the configuration and the calls alone: it is FALSE in a reachable
state, and then P1 itself fails — a closed file no index entry points into is never released, by any
number of complete cycles, until a restart clears the visited set.

HOW.  A primary GC cycle that is cut short INSIDE its hand-over passes — after deleteRecords has marked
the spans named by the hand-over file, before the affected files are taken out of the visited set —
returns with the visited set unchanged and the hand-over file `.gc` still in place
(`freelistPass` of Sth/Model/GC.lean: the second poll; on the real code, store/primary/multihash/gc.go:
`processFreeList` applies the batch in the iteration that reads the last entry and returns `ctx.Err()`
at the top of the next one, `gc()` returns at once, the `affected` map is dropped).  The next cycle gets
the same `.gc` file back from ToGC and applies it again, but deleteRecords counts only spans it marks
NEWLY, so the file is not "affected", stays in the visited set, and the loop skips it.

THE RUN (`exOps11v`, 40-byte primary files, threshold 101 so that nothing is ever relocated):
file 0 = [A][B] is closed, B is removed, a complete cycle cuts B off and puts file 0 (13 bytes, A in use)
into the visited set; A is removed and flushed; `pgc 101 (some 1)` — one poll succeeds, the second
expires — marks A deleted and returns.  Now file 0 is visited, has no record span, 13 bytes:
`VisitedStable` is false, every other premise of P1 holds, and two complete cycles leave it as it is;
after a reopen one complete cycle unlinks it.  With `some 2` the same cycle gets past its passes and
releases the file.  All by `decide`.

ON THE REAL CODE the time limit of a cycle is started AFTER the passes (`context.WithTimeout` follows
them), so the passes are only cut short by the cancellation of the collector's own context, i.e. at
Close, after which the collector (and its visited set) is discarded.  The model's `pgc l (some k)`
followed by further calls without a reopen has no counterpart in the real store's own loop; it has one
for a caller that drives `gc` with a context of its own.  So: an observation about the function, not a
defect of the store as shipped.

CONSEQUENCE FOR THE STATEMENT.  The premise that restores P1 is run-dependent, like `GcCountersOK`:
no cycle of the history is cut short inside its hand-over passes (`PassesOK`, Sth/Props/C11G.lean).
-/
import Sth.Props.C13H

namespace Sth

open C11 C13H

def exCfg11v : Cfg := { kind := .mh, bits := 8, ifs := 64, pfs := 40, imm := false }
def exK11v (i : Nat) : Bytes := [18, 6, i, 1, 3, 4, 5, 6]
def exOps11v : List SOp :=
  [.put (exK11v 1) [7], .put (exK11v 2) [1, 1, 1, 1, 1, 1, 1, 1, 1, 1, 1, 1, 1, 1, 1, 1, 1, 1, 1, 1], .flush [],
   .put (exK11v 3) [9], .flush [], .rm (exK11v 2), .flush [], .pgc 101 none, .rm (exK11v 1), .flush []]

example : exCfg11v.Legal := by decide
example : KeysOK exCfg11v.kind exOps11v ∧ SizesOK exOps11v := by
  refine ⟨?_, ?_⟩
  · unfold KeysOK; decide
  · unfold SizesOK; decide

/-- sizes of the primary files, visited set, first file, pooled records, hand-over file, record spans
    of file 0, and the premises of P1 for file 0: no entry points into it / VisitedStable -/
def exInfo11v (s : SState) :=
  ((s.d.pfiles.map (fun p => (p.1, p.2.length)), s.m.visited, s.d.phdr.map PriHeader.first,
    s.m.pnext.length, s.d.freeGc.map List.length),
   ((liveAt 0 (spansOf (fileOf s.d.pfiles 0))).length, decide (NoEntryIn s 0),
    decide (VisitedStable s 0)))

/-- before the interrupted cycle: file 0 visited, one record span (A, just removed: recorded, no entry) -/
example : ∃ s, initS exCfg11v = some s ∧
    GcCountersOK s (exOps11v ++ [.pgc 101 (some 1), .pgc 101 none, .pgc 101 none]) ∧
    exInfo11v (runS s exOps11v).1 = (([(0, 13), (1, 13)], [0], some 0, 0, none), (1, true, true)) :=
  ⟨_, rfl, by decide +kernel, by decide +kernel⟩

/-- the cycle cut short inside the hand-over pass: A is marked, file 0 stays visited, `.gc` stays -/
example : ∃ s, initS exCfg11v = some s ∧
    exInfo11v (runS s (exOps11v ++ [.pgc 101 (some 1)])).1 =
      (([(0, 13), (1, 13)], [0], some 0, 0, some 12), (0, true, false)) :=
  ⟨_, rfl, by decide +kernel⟩

/-- complete cycles do not release file 0 … -/
example : ∃ s, initS exCfg11v = some s ∧
    exInfo11v (runS s (exOps11v ++ [.pgc 101 (some 1), .pgc 101 none])).1 =
      (([(0, 13), (1, 13)], [0], some 0, 0, none), (0, true, false)) ∧
    exInfo11v (runS s (exOps11v ++ [.pgc 101 (some 1), .pgc 101 none, .pgc 101 none])).1 =
      (([(0, 13), (1, 13)], [0], some 0, 0, none), (0, true, false)) ∧
    ¬ Released (runS s (exOps11v ++ [.pgc 101 (some 1), .pgc 101 none, .pgc 101 none])).1.d.pfiles 0 :=
  ⟨_, rfl, by decide +kernel, by decide +kernel, by decide +kernel⟩

/-- … until a restart; and a cycle that gets past its passes (one more poll) releases it at once -/
example : ∃ s, initS exCfg11v = some s ∧
    exInfo11v (runS s (exOps11v ++ [.pgc 101 (some 1), .reopen [] false, .pgc 101 none])).1 =
      (([(1, 13)], [0], some 1, 0, none), (0, true, true)) ∧
    exInfo11v (runS s (exOps11v ++ [.pgc 101 (some 2)])).1 =
      (([(1, 13)], [0], some 1, 0, none), (0, true, true)) :=
  ⟨_, rfl, by decide +kernel, by decide +kernel⟩

end Sth
