/-
C11 P1, a cycle cut short inside its hand-over passes (defect D33, repaired in /repo by 552b64c).

`C11_primary_file_released_unconditional` (Sth/Props/C13H.lean) assumes on the reached state
  `VisitedStable s f`:  f in the visited set and without a record span  ⇒  f is empty.

BEFORE THE REPAIR this was false in a reachable state, and P1 itself failed there: a primary GC cycle cut short
INSIDE its hand-over passes — after deleteRecords had marked the spans named by the hand-over file, before the
affected files were taken out of the visited set — returned with the visited set unchanged and the hand-over file
`.gc` still in place (store/primary/multihash/gc.go: `processFreeList` applies the batch in the iteration that reads
the last entry and returns `ctx.Err()` at the top of the next one; `gc()` returned at once and the `affected` map was
dropped).  The next cycle got the same `.gc` file back from ToGC and applied it again, but deleteRecords counts only
spans it marks NEWLY, so the file was not "affected", stayed in the visited set, and no number of complete cycles
released it until a restart cleared the visited set.  This file recorded that run by `decide` on the model; the
sequential engine then reproduced it on the real code through the exported `MultihashPrimary.GC(ctx, …)` with a
context that expires inside the pass (corpus/seq/d33-cut-handover-pass-file-never-revisited.ops).

THE REPAIR: `processFreeList` returns the files affected so far together with the error, and `gc()` takes them (and
those of the first pass) out of the visited set before it returns the error.  The model follows (`unvisit` in
`primaryGC`, Sth/Model/GC.lean), and the examples below now record the repaired run.

THE RUN (`exOps11v`, 40-byte primary files, threshold 101 so that nothing is ever relocated):
file 0 = [A][B] is closed, B is removed, a complete cycle cuts B off and puts file 0 (13 bytes, A in use)
into the visited set; A is removed and flushed; `pgc 101 (some 1)` — one poll succeeds, the second
expires — marks A deleted, takes file 0 out of the visited set and returns with `.gc` still in place:
`VisitedStable` holds, and the next complete cycle unlinks the file.

The theorems of Sth/Props/C11G.lean still carry the run-dependent premise `PassesOK` (no cycle of the history is cut
short inside its hand-over passes): they were proved against the model before the repair, and the premise is now
stronger than needed.
-/
import Sth.Props.C13H

namespace Sth

open C11 C13H

def exCfg11v : Cfg := { kind := .mh, bits := 8, ifs := 64, pfs := 40, imm := false }
def exK11v (i : Nat) : Bytes := [18, 6, i, 1, 3, 4, 5, 6]
def exOps11v : List SOp :=
  [.put (exK11v 1) [7], .put (exK11v 2) [1, 1, 1, 1, 1, 1, 1, 1, 1, 1, 1, 1, 1, 1, 1, 1, 1, 1, 1, 1], .flush [],
   .put (exK11v 3) [9], .flush [], .rm (exK11v 2), .flush [], .pgc 101 none, .rm (exK11v 1), .flush []]

example : exCfg11v.Legal := by decide
example : KeysOK exCfg11v.kind exOps11v ∧ SizesOK exOps11v := by
  refine ⟨?_, ?_⟩
  · unfold KeysOK; decide
  · unfold SizesOK; decide

/-- sizes of the primary files, visited set, first file, pooled records, hand-over file, record spans
    of file 0, and the premises of P1 for file 0: no entry points into it / VisitedStable -/
def exInfo11v (s : SState) :=
  ((s.d.pfiles.map (fun p => (p.1, p.2.length)), s.m.visited, s.d.phdr.map PriHeader.first,
    s.m.pnext.length, s.d.freeGc.map List.length),
   ((liveAt 0 (spansOf (fileOf s.d.pfiles 0))).length, decide (NoEntryIn s 0),
    decide (VisitedStable s 0)))

/-- before the interrupted cycle: file 0 visited, one record span (A, just removed: recorded, no entry) -/
example : ∃ s, initS exCfg11v = some s ∧
    GcCountersOK s (exOps11v ++ [.pgc 101 (some 1), .pgc 101 none, .pgc 101 none]) ∧
    exInfo11v (runS s exOps11v).1 = (([(0, 13), (1, 13)], [0], some 0, 0, none), (1, true, true)) :=
  ⟨_, rfl, by decide +kernel, by decide +kernel⟩

/-- the cycle cut short inside the hand-over pass: A is marked, `.gc` stays, and file 0 LEAVES the visited set -/
example : ∃ s, initS exCfg11v = some s ∧
    exInfo11v (runS s (exOps11v ++ [.pgc 101 (some 1)])).1 =
      (([(0, 13), (1, 13)], [], some 0, 0, some 12), (0, true, true)) :=
  ⟨_, rfl, by decide +kernel⟩

/-- the next complete cycle releases file 0 (before the repair: never, see the header) -/
theorem C11_cut_handover_pass_file_released : ∃ s, initS exCfg11v = some s ∧
    exInfo11v (runS s (exOps11v ++ [.pgc 101 (some 1), .pgc 101 none])).1 =
      (([(1, 13)], [0], some 1, 0, none), (0, true, true)) ∧
    Released (runS s (exOps11v ++ [.pgc 101 (some 1), .pgc 101 none])).1.d.pfiles 0 :=
  ⟨_, rfl, by decide +kernel, by decide +kernel⟩

/-- the same end state as after a restart, and as after a cycle that gets past its passes (one more poll) -/
example : ∃ s, initS exCfg11v = some s ∧
    exInfo11v (runS s (exOps11v ++ [.pgc 101 (some 1), .reopen [] false, .pgc 101 none])).1 =
      (([(1, 13)], [0], some 1, 0, none), (0, true, true)) ∧
    exInfo11v (runS s (exOps11v ++ [.pgc 101 (some 2)])).1 =
      (([(1, 13)], [0], some 1, 0, none), (0, true, true)) :=
  ⟨_, rfl, by decide +kernel, by decide +kernel⟩

end Sth
