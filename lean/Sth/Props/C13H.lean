/-
C13 along GC histories — completeness: "superseded ⇒ recorded", and C11 P1 without its coverage
hypothesis.

Helper lemmas: Sth/Lemmas/C13H1.lean … C13H10.lean (namespace `Sth.C13H`), on top of C04's `GInv`, the
span machinery of C11 and C13G's `recordedG` (freelist file ++ hand-over file `.gc` ++ pool).

Status of a primary location, made explicit: a record span (a span whose size word does not carry the
deleted bit) of any primary file, closed or current, and likewise a pooled record not yet flushed, is
  CURRENT   — an index entry (pools first, then disk) names its block (offset and size), or
  RECORDED  — its block is on the freelist: freelist file, hand-over file `.gc`, or memory pool;
a span that a primary GC cycle has applied is DELETED (deleted bit set): no record span any more, it is
merged, truncated and unlinked by reapRecords.  `CoveredAll s` says: every record span and every pooled
record is current or recorded.  C13G's `C13_gc_nothing_current_recorded` says the two are exclusive.

Q1.  `C13_gc_covered`: `CoveredAll` holds in EVERY state reachable from `initS` by ANY history of a
multihash store — Put, Get, Has, GetSize, Remove, Flush, iteration, Close+reopen, index GC cycles and
primary GC cycles, complete or cut short at any poll, anywhere — under C04's premises (KeysOK, SizesOK,
GcCountersOK).  How each step keeps it (Sth/Lemmas/C13H2 … C13H8):
  put of a new key        the new pooled record is current;
  overwrite / remove      the old block leaves the index and is appended to the pool freelist: recorded;
  flush                   every record span after the primary flush is a span from before or the copy of a
                          pooled record at the pooled record's block (`pfold_span2`); the index flush and
                          the freelist flush change no status (the pool moves into the freelist file);
  reopen                  = flush, then the same files, record lists and freelist;
  index GC                touches nothing coverage looks at;
  primary GC  hand-over   pool + file → `.gc`: still recorded;
              apply       a recorded record span becomes DELETED; only when the whole hand-over file has
                          been applied is it dropped, and then none of its entries names a record span
                          (`Kills.dead`) — at a deadline the file stays, nothing is lost;
              reapRecords merging / truncating touches deleted spans only;
              relocation  the copy is pooled and current (or recorded, had the index refused), the old
                          span's block is recorded (`relocate_g3`);
              unlink      only a file without record spans.
`C11_primary_file_released_unconditional`: C11's P1 with the hypothesis `Covered` removed.  REMAINING
hypotheses on the reached state: `file.length < 2^31` and `VisitedStable s f`.  They are not derivable
from the C04 premises: SizesOK allows one record of almost 2^31 bytes and Cfg.Legal a file limit of
2^30, so a primary file can exceed 2^31 bytes, the merge of deleted spans then stops at the 2^31 limit of
one size word and reapRecords leaves an all-deleted, visited file non-empty — `VisitedStable` is false
there.  Under an extra bound (file limit + largest record < 2^31) both would be invariants; that is not
threaded through here.
-/
import Sth.Lemmas.C13H10
import Sth.Props.C04

namespace Sth

open C11 C13H

/-- Q1.  Completeness of the freelist along GC histories: in every reachable state of a multihash
    store every record span of every primary file and every pooled record is current (named by an index
    entry) or recorded (freelist file, hand-over file, pool). -/
theorem C13_gc_covered (c : Cfg) (hc : c.Legal) (hmh : c.kind = .mh) (ops : List SOp)
    (hk : KeysOK c.kind ops) (hs : SizesOK ops) (s0 : SState) (hi : initS c = some s0)
    (hb : GcCountersOK s0 ops) : CoveredAll (runS s0 ops).1 :=
  coveredAll_of_covS (reach_ginv c hc hmh ops hk hs s0 hi hb)
    (covS_reachable c hc hmh ops hk hs s0 hi hb)

/-- C11 P1 without the coverage hypothesis (see Sth/Props/C11.lean for the statement's terms). -/
theorem C11_primary_file_released_unconditional (c : Cfg) (hc : c.Legal) (hmh : c.kind = .mh)
    (ops : List SOp) (hk : KeysOK c.kind ops) (hs : SizesOK ops) (s0 : SState)
    (hi : initS c = some s0) (lowUse : Nat) (hb : GcCountersOK s0 (ops ++ [.pgc lowUse none]))
    (f : Nat) (file : Bytes) (hfile : (runS s0 ops).1.d.pfiles.get? f = some file)
    (hf : f < (runS s0 ops).1.m.pfileNum) (hlen : file.length < two31)
    (hflushed : (runS s0 ops).1.m.pnext = []) (hno : NoEntryIn (runS s0 ops).1 f)
    (hvis : VisitedStable (runS s0 ops).1 f) :
    let s := (runS s0 ops).1
    let s' := (stepS s (.pgc lowUse none)).1
    Released s'.d.pfiles f ∧
    (s.d.phdr.map PriHeader.first = some f → WillVisit s f → s'.d.pfiles.get? f = none) :=
  primary_file_released_unc c hc hmh ops hk hs s0 hi lowUse hb f file hfile hf hlen hflushed hno hvis

/-- non-vacuity: the premises hold on C04's example history (relocation, cycles cut short, reopens) -/
example : ∃ s, initS exCfg04b = some s ∧ CoveredAll (runS s exOps04).1 :=
  ⟨_, rfl, C13_gc_covered exCfg04b (by decide) rfl exOps04 (by unfold KeysOK; decide)
    (by unfold SizesOK; decide) _ rfl (by decide)⟩

end Sth
