/-
C13 along GC histories — completeness: "superseded ⇒ recorded", and C11 P1 without its coverage
hypothesis.

Helper lemmas: Sth/Lemmas/C13H1.lean … C13H10.lean (namespace `Sth.C13H`), on top of C04's `GInv`, the
span machinery of C11 and C13G's `recordedG` (freelist file ++ hand-over file `.gc` ++ pool).

Status of a primary location, made explicit: a record span (a span whose size word does not carry the
deleted bit) of any primary file, closed or current, and likewise a pooled record not yet flushed, is
  CURRENT   — an index entry (pools first, then disk) names its block (offset and size), or
  RECORDED  — its block is on the freelist: freelist file, hand-over file `.gc`, or memory pool;
a span that a primary GC cycle has applied is DELETED (deleted bit set): no record span any more, it is
merged, truncated and unlinked by reapRecords.  `CoveredAll s` says: every record span and every pooled
record is current or recorded.  C13G's `C13_gc_nothing_current_recorded` says the two are exclusive.

Q1.  `C13_gc_covered`: `CoveredAll` holds in EVERY state reachable from `initS` by ANY history of a
multihash store — Put, Get, Has, GetSize, Remove, Flush, iteration, Close+reopen, index GC cycles and
primary GC cycles, complete or cut short at any poll, anywhere — under C04's premises (KeysOK, SizesOK,
GcCountersOK).  How each step keeps it (Sth/Lemmas/C13H2 … C13H8):
  put of a new key        the new pooled record is current;
  overwrite / remove      the old block leaves the index and is appended to the pool freelist: recorded;
  flush                   every record span after the primary flush is a span from before or the copy of a
                          pooled record at the pooled record's block (`pfold_span2`); the index flush and
                          the freelist flush change no status (the pool moves into the freelist file);
  reopen                  = flush, then the same files, record lists and freelist;
  index GC                touches nothing coverage looks at;
  primary GC  hand-over   pool + file → `.gc`: still recorded;
              apply       a recorded record span becomes DELETED; only when the whole hand-over file has
                          been applied is it dropped, and then none of its entries names a record span
                          (`Kills.dead`) — at a deadline the file stays, nothing is lost;
              reapRecords merging / truncating touches deleted spans only;
              relocation  the copy is pooled and current (or recorded, had the index refused), the old
                          span's block is recorded (`relocate_g3`);
              unlink      only a file without record spans.
`C11_primary_file_released_unconditional`: C11's P1 with the hypothesis `Covered` removed.  REMAINING
hypotheses on the reached state: `file.length < 2^31` and `VisitedStable s f`.  They are not derivable
from the C04 premises: SizesOK allows one record of almost 2^31 bytes and Cfg.Legal a file limit of
2^30, so a primary file can exceed 2^31 bytes, the merge of deleted spans then stops at the 2^31 limit of
one size word and reapRecords leaves an all-deleted, visited file non-empty — `VisitedStable` is false
there.  Under an extra bound (file limit + largest record < 2^31) both would be invariants; that is not
threaded through here.

Q2.  `C13_gc_exactly_once`: exactly once, with GC.  The history variable is the ghost list
`consumedAlong s0 ops` (Sth/Lemmas/C13X9.lean): after every step, the blocks that were recorded before
the step and are not recorded after it are appended — these are exactly the entries of a hand-over file
that a primary GC pass applied completely and then dropped.  In every reachable state of a multihash
store:
  * the list freelist file ++ hand-over file ++ pool (`recordedG`) has no duplicates,
  * the consumed list has no duplicates and is disjoint from it,
  * no recorded and no consumed block has the offset of a record a current index entry names
    (recorded: C13G's `C13_gc_nothing_current_recorded`; consumed: here).
Together with Q1: a record span or pooled record that is not current is recorded exactly once; after a
cycle has applied its entry it is deleted, its block is in `consumed` exactly once, and that block is
never recorded, consumed or current again.
The proof (Sth/Lemmas/C13X1 … C13X9) relates every state inside a step to the state before the step
(`Rel`: the allocator only moves forward; index entries are old ones or name blocks allocated since;
recorded blocks were recorded before, were index entries' blocks before, or were allocated since), so
that whatever is newly recorded was current until then — hence neither recorded (C13G) nor consumed.
RELOCATION'S REFUSED PATH (`Index.Relocate` refuses → the copy AND the old location are freed): it would
record an old location a second time when the writer had already recorded it.  In the model it CANNOT be
reached by any history of `runS`: the loop over the files runs only after BOTH hand-over passes have
completed, at which point nothing at all is recorded, and during the loop the only blocks recorded are
the old locations of spans relocated earlier in it — so (`LInv`, `reapRecords_x`) no recorded block names
a record span of a file still to be visited, every relocated span is covered (Q1) and therefore current,
and `relocate_g4` shows that relocating a current span always ends with the index moved and the old
location recorded once.  (With concurrent writers — D17/D18, not in `runS` — the refused path is the
intended answer to a record superseded between scan and relocation.)  No `decide` run exists.
-/
import Sth.Lemmas.C13H10
import Sth.Lemmas.C13X9
import Sth.Props.C04

namespace Sth

open C11 C13H C13X

/-- Q1.  Completeness of the freelist along GC histories: in every reachable state of a multihash
    store every record span of every primary file and every pooled record is current (named by an index
    entry) or recorded (freelist file, hand-over file, pool). -/
theorem C13_gc_covered (c : Cfg) (hc : c.Legal) (hmh : c.kind = .mh) (ops : List SOp)
    (hk : KeysOK c.kind ops) (hs : SizesOK ops) (s0 : SState) (hi : initS c = some s0)
    (hb : GcCountersOK s0 ops) : CoveredAll (runS s0 ops).1 :=
  coveredAll_of_covS (reach_ginv c hc hmh ops hk hs s0 hi hb)
    (covS_reachable c hc hmh ops hk hs s0 hi hb)

/-- C11 P1 without the coverage hypothesis (see Sth/Props/C11.lean for the statement's terms). -/
theorem C11_primary_file_released_unconditional (c : Cfg) (hc : c.Legal) (hmh : c.kind = .mh)
    (ops : List SOp) (hk : KeysOK c.kind ops) (hs : SizesOK ops) (s0 : SState)
    (hi : initS c = some s0) (lowUse : Nat) (hb : GcCountersOK s0 (ops ++ [.pgc lowUse none]))
    (f : Nat) (file : Bytes) (hfile : (runS s0 ops).1.d.pfiles.get? f = some file)
    (hf : f < (runS s0 ops).1.m.pfileNum) (hlen : file.length < two31)
    (hflushed : (runS s0 ops).1.m.pnext = []) (hno : NoEntryIn (runS s0 ops).1 f)
    (hvis : VisitedStable (runS s0 ops).1 f) :
    let s := (runS s0 ops).1
    let s' := (stepS s (.pgc lowUse none)).1
    Released s'.d.pfiles f ∧
    (s.d.phdr.map PriHeader.first = some f → WillVisit s f → s'.d.pfiles.get? f = none) :=
  primary_file_released_unc c hc hmh ops hk hs s0 hi lowUse hb f file hfile hf hlen hflushed hno hvis

/-- non-vacuity: the premises hold on C04's example history (relocation, cycles cut short, reopens) -/
example : ∃ s, initS exCfg04b = some s ∧ CoveredAll (runS s exOps04).1 :=
  ⟨_, rfl, C13_gc_covered exCfg04b (by decide) rfl exOps04 (by unfold KeysOK; decide)
    (by unfold SizesOK; decide) _ rfl (by decide)⟩

/-- Q2.  Exactly once along GC histories: nothing is recorded twice, nothing consumed by a cycle is
    consumed twice, recorded again or current again. -/
theorem C13_gc_exactly_once (c : Cfg) (hc : c.Legal) (hmh : c.kind = .mh) (ops : List SOp)
    (hk : KeysOK c.kind ops) (hs : SizesOK ops) (s0 : SState) (hi : initS c = some s0)
    (hb : GcCountersOK s0 ops) :
    let s := (runS s0 ops).1
    let consumed := consumedAlong s0 ops
    (recordedG s).Nodup ∧ consumed.Nodup ∧ (∀ b ∈ consumed, b ∉ recordedG s) ∧
    (∀ b ∈ recordedG s ++ consumed, ∀ bkt rl, idxRecords s.m s.d bkt = .ok (some rl) →
      ∀ e ∈ rl, e.blk.off ≠ b.off) := by
  have hX := xinv_reachable c hc hmh ops hk hs s0 hi hb
  have hG := reach_ginv c hc hmh ops hk hs s0 hi hb
  refine ⟨hX.nodup, hX.cnodup, hX.disj, ?_⟩
  intro b hbm bkt rl hr e he hoff
  rw [List.mem_append] at hbm
  rcases hbm with h | h
  · exact ginv_notcur hG bkt rl hr e he b h hoff.symm
  · exact hX.cnot b h e.blk ⟨bkt, rl, e, hr, he, rfl⟩ hoff

/-- non-vacuity on C04's example history: its cycles consume twelve blocks, nothing is left recorded -/
example : ∃ s, initS exCfg04b = some s ∧
    ((consumedAlong s exOps04).map (fun b => b.off), recordedG (runS s exOps04).1) =
      ([13, 40, 70, 28, 0, 54, 108, 94, 80, 149, 136, 120], []) := ⟨_, rfl, by decide +kernel⟩

end Sth
