/-
C03 (Close) — A crash at any point of Store.Close loses at most unflushed work.

Property theorems only (helper lemmas: Sth/Lemmas/C03Close.lean on top of the C03 development).  The
crash images of Close are those of Sth/Model/CrashImageClose.lean: `storeClose` = primary flush, index
flush, snapshot save (temporary file + atomic rename), freelist flush, so a crash leaves

  * `ClosePoint.flush k early` — the first `k` events of the append stream of the primary + index flush
    (each append cut at any byte, either rollover variant), no snapshot; or
  * `ClosePoint.saved k` — both flushes complete, the snapshot in place, the first `k` events of the
    freelist append.

`s` is ANY reachable state (legal configuration, any sequence of Put / Get / Has / GetSize / Remove /
Flush / iteration / Close+reopen calls, C01's premise on keys), `ord` any map-iteration order.

`C03_close_crash_recovers`: every image reopens without error (`openStoreR`), every byte string reads
what it reads after recovering the disk of the last durable point or what it reads after reopening the
cleanly closed store; and once the snapshot is in place every key reads the NEW contents: OpenStore takes
the snapshot path (`snap_recover`, Sth/Lemmas/C03Close.lean: the saved table is the table of the flushed
state and `findLast` finds the file that state was writing) — usable exactly because the snapshot is only
ever present together with the COMPLETE index flush.  `C03_snapshot_needs_complete_index` shows by
evaluation what a snapshot next to an incomplete index flush would do (Get fails with an I/O error): the
order "index flush, then rename" in Close is load-bearing.

`C03_close_crash_against_map`: the same against the specification map (value at the last durable point
or now; `absent` when absent there; malformed keys get their usual error).

`C03_close_recovered_store_keeps_working_partial`: the store recovered from any image of Close answers
every continuation exactly like a map holding, per digest, the entry of the last durable point or the
entry now (same factor 2 in the byte premise as for Flush).

`C03_close_images_recover`: the same for every member of the list `closeCrashImages`.
-/
import Sth.Lemmas.C03Close
import Sth.Props.C03

namespace Sth

/-- C03 for Close, main theorem -/
theorem C03_close_crash_recovers (c : Cfg) (hc : c.Legal) (ops : List SOp)
    (ha : ∀ op ∈ ops, op.isC02 = true) (hk : KeysOK c.kind ops) (hs : SizesOK ops) (s0 : SState)
    (hi : initS c = some s0) (ord : List Nat) (pt : ClosePoint) :
    let s := (runS s0 ops).1
    ∃ d2 sn dC, closeParts s.m s.d (fixOrder ord s.m.inext.keys) = some (d2, sn, dC) ∧
      storeClose { disk := s.d, mem := some s.m } (fixOrder ord s.m.inext.keys) =
        some { disk := dC, mem := none } ∧
      ∃ dOld mOld, openStoreR c s.d = (dOld, .ok mOld) ∧
      ∃ dNew mNew, openStoreR c dC = (dNew, .ok mNew) ∧
      ∃ dr mr, openStoreR c (closeCrashImage s.d d2 sn dC pt) = (dr, .ok mr) ∧
        (∀ key, (storeGet mr dr key).2 = (storeGet mOld dOld key).2 ∨
          (storeGet mr dr key).2 = (storeGet mNew dNew key).2) ∧
        (∀ k, pt = .saved k → ∀ key, (storeGet mr dr key).2 = (storeGet mNew dNew key).2) := by
  intro s
  have hU := univ_of_keysOK hk (keysExact_all c.kind ops)
  obtain ⟨hI, hX, hD, hDur, hW⟩ := reachable_c03 c hc _ hU ops ha
    (fun op ho k hkey dig hcls => mem_digestsOf ho hkey hcls) hs s0 hi
  obtain ⟨d2, sn, dC, c1, c2, dOld, mOld, o1, dNew, mNew, o2, dr, mr, r1, h1, h2, _⟩ :=
    close_recovers hc hU hI hX hD hDur hW (by have := hs.1; omega) (by have := hs.2.1; omega) ord pt
  exact ⟨d2, sn, dC, c1, c2, dOld, mOld, o1, dNew, mNew, o2, dr, mr, r1, h1, h2⟩

/-- C03 for Close against the map -/
theorem C03_close_crash_against_map (c : Cfg) (hc : c.Legal) (ops : List SOp)
    (ha : ∀ op ∈ ops, op.isC02 = true) (hs : SizesOK ops) (s0 : SState)
    (hi : initS c = some s0) (ord : List Nat) (pt : ClosePoint) :
    let s := (runS s0 ops).1
    ∀ d2 sn dC, closeParts s.m s.d (fixOrder ord s.m.inext.keys) = some (d2, sn, dC) →
    ∀ dr mr, openStoreR c (closeCrashImage s.d d2 sn dC pt) = (dr, .ok mr) →
    ∀ key, KeysOK c.kind (ops ++ [.get key]) →
      match keyClass c.kind key with
      | .error e => (storeGet mr dr key).2 = .err e
      | .ok dig =>
        (storeGet mr dr key).2 = getResOf (Spec.get (lastDurable c.kind c.imm [] [] ops) dig) ∨
        (storeGet mr dr key).2 = getResOf (Spec.get (specRun c.kind c.imm [] ops).1 dig) := by
  intro s d2 sn dC hcp dr mr hr key hk
  have hU := univ_of_keysOK hk (keysExact_all c.kind _)
  obtain ⟨hI, hX, hD, hDur, hW⟩ := reachable_c03 c hc _ hU ops ha
    (fun op ho k hkey dig hcls => mem_digestsOf (List.mem_append_left _ ho) hkey hcls) hs s0 hi
  obtain ⟨d2', sn', dC', c1, _, dOld, mOld, _, dNew, mNew, _, dr', mr', r1, hb, _, hmap, herr, _⟩ :=
    close_recovers hc hU hI hX hD hDur hW (by have := hs.1; omega) (by have := hs.2.1; omega) ord pt
  have e1 : closeParts s.m s.d (fixOrder ord s.m.inext.keys) = some (d2', sn', dC') := c1
  rw [hcp] at e1
  simp only [Option.some.injEq, Prod.mk.injEq] at e1
  obtain ⟨rfl, rfl, rfl⟩ := e1
  have e2 : openStoreR c (closeCrashImage s.d d2 sn dC pt) = (dr', .ok mr') := r1
  rw [hr] at e2
  simp only [Prod.mk.injEq, Except.ok.injEq] at e2
  obtain ⟨rfl, rfl⟩ := e2
  cases hcls : keyClass c.kind key with
  | error e => exact herr key e hcls
  | ok dig =>
    have hmem : (key, dig) ∈ digestsOf c.kind (ops ++ [.get key]) :=
      mem_digestsOf (op := .get key) (List.mem_append_right _ (List.mem_singleton_self _)) rfl hcls
    obtain ⟨h1, h2⟩ := hmap key dig hmem
    simp only
    rcases hb key with h | h
    · left; rw [h, h1]
    · right; rw [h, h2]

/-- C03 for Close, the recovered store keeps working -/
theorem C03_close_recovered_store_keeps_working_partial (c : Cfg) (hc : c.Legal) (ops ops' : List SOp)
    (ha : ∀ op ∈ ops ++ ops', op.isC02 = true) (hk : KeysOK c.kind (ops ++ ops')) (hs : SizesOK ops)
    (hs' : ops.length + ops'.length < 1073741824 ∧
      2 * (ops.map SOp.bytes).sum + (ops'.map SOp.bytes).sum < two31)
    (s0 : SState) (hi : initS c = some s0) (ord : List Nat) (pt : ClosePoint) :
    let s := (runS s0 ops).1
    ∀ d2 sn dC, closeParts s.m s.d (fixOrder ord s.m.inext.keys) = some (d2, sn, dC) →
    ∀ dr mr, openStoreR c (closeCrashImage s.d d2 sn dC pt) = (dr, .ok mr) →
    ∃ specR : Spec,
      (∀ dig, Spec.get specR dig = Spec.get (lastDurable c.kind c.imm [] [] ops) dig ∨
        Spec.get specR dig = Spec.get (specRun c.kind c.imm [] ops).1 dig) ∧
      (runS ⟨c, mr, dr⟩ ops').2 = (specRun c.kind c.imm specR ops').2 := by
  intro s d2 sn dC hcp dr mr hr
  have hU := univ_of_keysOK hk (keysExact_all c.kind _)
  obtain ⟨hI, hX, hD, hDur, hW⟩ := reachable_c03 c hc _ hU ops
    (fun op ho => ha op (List.mem_append_left _ ho))
    (fun op ho k hkey dig hcls => mem_digestsOf (List.mem_append_left _ ho) hkey hcls) hs s0 hi
  obtain ⟨d2', sn', dC', c1, _, dOld, mOld, _, dNew, mNew, _, dr', mr', r1, _, _, _, _, specR, hmix,
    hI', hX'⟩ :=
    close_recovers hc hU hI hX hD hDur hW (by have := hs.1; omega) (by have := hs.2.1; omega) ord pt
  have e1 : closeParts s.m s.d (fixOrder ord s.m.inext.keys) = some (d2', sn', dC') := c1
  rw [hcp] at e1
  simp only [Option.some.injEq, Prod.mk.injEq] at e1
  obtain ⟨rfl, rfl, rfl⟩ := e1
  have e2 : openStoreR c (closeCrashImage s.d d2 sn dC pt) = (dr', .ok mr') := r1
  rw [hr] at e2
  simp only [Prod.mk.injEq, Except.ok.injEq] at e2
  obtain ⟨rfl, rfl⟩ := e2
  refine ⟨specR, hmix, ?_⟩
  exact (run_ok2 hc hU ops' ⟨c, mr, dr⟩ specR _ _ hI' hX'
    (fun op ho => ha op (List.mem_append_right _ ho))
    (fun op ho k hkey dig hcls => mem_digestsOf (List.mem_append_right _ ho) hkey hcls)
    (by have := hs'.1; omega) (by have := hs'.2; omega)).1

/-- every member of `closeCrashImages` is the image of a crash point -/
theorem closeCrashImages_mem {d d2 dC img : Disk} {sn : Snap} (h : img ∈ closeCrashImages d d2 sn dC) :
    ∃ pt, img = closeCrashImage d d2 sn dC pt := by
  unfold closeCrashImages at h
  rw [List.mem_append] at h
  rcases h with h | h
  · obtain ⟨k, _, hk⟩ := List.mem_flatMap.mp h
    simp only [List.mem_cons, List.not_mem_nil, or_false] at hk
    rcases hk with rfl | rfl
    · exact ⟨_, rfl⟩
    · exact ⟨_, rfl⟩
  · obtain ⟨k, _, rfl⟩ := List.mem_map.mp h
    exact ⟨_, rfl⟩

/-- C03 for Close over the list of all images -/
theorem C03_close_images_recover (c : Cfg) (hc : c.Legal) (ops : List SOp)
    (ha : ∀ op ∈ ops, op.isC02 = true) (hk : KeysOK c.kind ops) (hs : SizesOK ops) (s0 : SState)
    (hi : initS c = some s0) (ord : List Nat) :
    let s := (runS s0 ops).1
    ∃ d2 sn dC, closeParts s.m s.d (fixOrder ord s.m.inext.keys) = some (d2, sn, dC) ∧
      ∃ dOld mOld, openStoreR c s.d = (dOld, .ok mOld) ∧
      ∃ dNew mNew, openStoreR c dC = (dNew, .ok mNew) ∧
      ∀ img ∈ closeCrashImages s.d d2 sn dC,
        ∃ dr mr, openStoreR c img = (dr, .ok mr) ∧
          ∀ key, (storeGet mr dr key).2 = (storeGet mOld dOld key).2 ∨
            (storeGet mr dr key).2 = (storeGet mNew dNew key).2 := by
  intro s
  obtain ⟨d2, sn, dC, c1, _, dOld, mOld, o1, dNew, mNew, o2, _⟩ :=
    C03_close_crash_recovers c hc ops ha hk hs s0 hi ord (.saved 0)
  refine ⟨d2, sn, dC, c1, dOld, mOld, o1, dNew, mNew, o2, ?_⟩
  intro img himg
  obtain ⟨pt, rfl⟩ := closeCrashImages_mem himg
  obtain ⟨d2', sn', dC', c1', _, dOld', mOld', o1', dNew', mNew', o2', dr, mr, r1, h1, _⟩ :=
    C03_close_crash_recovers c hc ops ha hk hs s0 hi ord pt
  have e1 : closeParts s.m s.d (fixOrder ord s.m.inext.keys) = some (d2', sn', dC') := c1'
  rw [c1] at e1
  simp only [Option.some.injEq, Prod.mk.injEq] at e1
  obtain ⟨rfl, rfl, rfl⟩ := e1
  have e2 : openStoreR c s.d = (dOld', .ok mOld') := o1'
  rw [o1] at e2
  simp only [Prod.mk.injEq, Except.ok.injEq] at e2
  obtain ⟨rfl, rfl⟩ := e2
  have e3 : openStoreR c dC = (dNew', .ok mNew') := o2'
  rw [o2] at e3
  simp only [Prod.mk.injEq, Except.ok.injEq] at e3
  obtain ⟨rfl, rfl⟩ := e3
  exact ⟨dr, mr, r1, h1⟩

/-! Non-vacuity, on the concrete histories of Sth/Props/C03.lean (two buckets, an overwrite, a new key
    and a removal after a first flush; 33-byte resp. 1-byte file limits): ALL images of Close are
    recovered by evaluation and the distinct outcomes for the three keys listed. -/

/-- the number of crash images of the Close after `ops` and what `keys` read in the store recovered
    from each of them, without repetitions; `none` if anything fails -/
def closeOutcomes (c : Cfg) (ops : List SOp) (ord : List Nat) (keys : List Bytes) :
    Option (Nat × List (List (Option (Option Bytes)))) :=
  match initS c with
  | none => none
  | some s0 =>
    let s := (runS s0 ops).1
    match closeParts s.m s.d (fixOrder ord s.m.inext.keys) with
    | none => none
    | some (d2, sn, dC) =>
      let imgs := closeCrashImages s.d d2 sn dC
      let outs := imgs.map fun img =>
        match openStoreR c img with
        | (dr, .ok mr) => some (keys.map fun key => getCode (storeGet mr dr key).2)
        | (_, .error _) => none
      if outs.all (·.isSome) then some (imgs.length, (outs.filterMap id).eraseDups) else none

set_option maxRecDepth 100000 in
example : closeOutcomes exCfg03 exOps03 [] [ex03K1, ex03K2, ex03K3] =
    some (193, [[some (some [1, 1]), some (some [2]), some none],
      [some (some [3]), some (some [2]), some (some [4, 4, 4])],
      [some (some [3]), some none, some (some [4, 4, 4])]]) := by decide +kernel

set_option maxRecDepth 100000 in
example : closeOutcomes exCfg03b exOps03 [187, 170] [ex03K1, ex03K2, ex03K3] =
    some (195, [[some (some [1, 1]), some (some [2]), some none],
      [some (some [1, 1]), some none, some none],
      [some (some [3]), some none, some (some [4, 4, 4])]]) := by decide +kernel

/-- what the keys would read if the snapshot of Close were in place while the index flush has not
    happened (NOT an image of Close) -/
def snapTooEarly (c : Cfg) (ops : List SOp) (ord : List Nat) (keys : List Bytes) :
    Option (List (Option (Option Bytes))) :=
  match initS c with
  | none => none
  | some s0 =>
    let s := (runS s0 ops).1
    match closeParts s.m s.d (fixOrder ord s.m.inext.keys) with
    | none => none
    | some (_, sn, _) =>
      match openStoreR c { s.d with snap := some sn } with
      | (dr, .ok mr) => some (keys.map fun key => getCode (storeGet mr dr key).2)
      | (_, .error _) => none

set_option maxRecDepth 100000 in
/-- the order "index flush, then snapshot rename" is load-bearing: with the snapshot next to the old
    index files the store opens, takes the snapshot path, and all three keys fail with an error (the
    saved table names records that are not in the files) -/
theorem C03_snapshot_needs_complete_index :
    snapTooEarly exCfg03 exOps03 [] [ex03K1, ex03K2, ex03K3] = some [none, none, none] := by
  decide +kernel

end Sth
