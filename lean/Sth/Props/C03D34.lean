/-
C03, known finding D34 as a witness on the model: nothing excludes writers from `Store.commit`, so a Put can be acknowledged INSIDE
a Flush. The model's `commit` is `priFlush; idxFlush; flFlush` (Sth/Model/Store.lean); the two composites below put the model's own
`storePut` between its parts, which is what the real code does when a writer runs next to the flusher (reproduced on the real code
by the crash engine's operation `flushput`, corpus/crash/d34-put-inside-flush.ops).

  (a) Put after the primary's flush, before the index's: this Flush writes the index entry of a record it does not write.
      After a crash the key, which HAD a durable value, reads absent.
  (b) Put after the index's flush, before the freelist's: this Flush writes the freelist entry of the key's OLD record while the
      on-disk index still names it. After a crash the key reads its old value - until a primary GC cycle applies the entry.
-/
import Sth.Props.C03Gc

namespace Sth

/-- Store.Flush with `Put key val` acknowledged between primary.Flush and index.Flush -/
def flushPutAfterPrimary (m : Mem) (d : Disk) (key val : Bytes) : Option (Mem × Disk) :=
  match priFlush m d with
  | none => none
  | some (m, d) =>
    let m := (storePut m d key val).1
    let (m, d) := idxFlush m d m.inext.keys
    some (flFlush m d)

/-- Store.Flush with `Put key val` acknowledged between index.Flush and freelist.Flush -/
def flushPutAfterIndex (m : Mem) (d : Disk) (key val : Bytes) : Option (Mem × Disk) :=
  match priFlush m d with
  | none => none
  | some (m, d) =>
    let (m, d) := idxFlush m d m.inext.keys
    let m := (storePut m d key val).1
    some (flFlush m d)

/-- what `key` reads after recovering the disk (i) before the flush, (ii) after it, (iii) after it and one complete primary GC
    cycle + flush on the recovered store -/
def d34Reads (c : Cfg) (ops : List SOp) (fl : Mem → Disk → Option (Mem × Disk)) (key : Bytes) :
    Option (Option (Option Bytes) × Option (Option Bytes) × Option (Option Bytes)) :=
  match initS c with
  | none => none
  | some s0 =>
    let s := (runS s0 ops).1
    match fl s.m s.d with
    | none => none
    | some (_, d') =>
      match openStoreR c s.d, openStoreR c d' with
      | (dO, .ok mO), (dr, .ok mr) =>
        let s2 := (runS ⟨c, mr, dr⟩ [.pgc 0 none, .flush [], .pgc 0 none, .flush []]).1
        some (getCode (storeGet mO dO key).2, getCode (storeGet mr dr key).2, getCode (storeGet s2.m s2.d key).2)
      | _, _ => none

/-- the history: the key has a durable value, another key is pending (so that the flush has work) -/
def d34Ops : List SOp := [.put ex03K1 [1, 1], .flush [], .put ex03K2 [9]]

/-- D34 (a): the value `[1, 1]` was durable; the Put of `[2]` is acknowledged inside the Flush, after the primary's part; after a
    crash the key reads ABSENT (neither the durable value nor the acknowledged one) -/
theorem C03_d34_put_after_primary_flush_loses_durable_value :
    d34Reads d11Cfg d34Ops (fun m d => flushPutAfterPrimary m d ex03K1 [2]) ex03K1 =
      some (some (some [1, 1]), some none, some none) := by decide +kernel

/-- D34 (b): acknowledged after the index's part: the key still reads its durable value after the crash, and is gone after the
    collector has applied the freelist entry this Flush wrote -/
theorem C03_d34_put_after_index_flush_frees_durable_value :
    d34Reads d11Cfg d34Ops (fun m d => flushPutAfterIndex m d ex03K1 [2]) ex03K1 =
      some (some (some [1, 1]), some (some [1, 1]), some none) := by decide +kernel

/-- the same Put before or after the whole Flush is harmless -/
example : d34Reads d11Cfg (d34Ops ++ [.put ex03K1 [2]]) (fun m d => commit m d m.inext.keys) ex03K1 =
    some (some (some [1, 1]), some (some [2]), some (some [2])) := by decide +kernel

end Sth
