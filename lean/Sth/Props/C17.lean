/-
C17 — Close stops all background activity (the goroutine / file-system part of the property).

Property theorems only.  They are about the small-step machine of Sth/Model/Lifecycle.lean (the channel operations,
lock sections and file-system steps of Store.Close / Index.Close / MultihashPrimary.Close, the flusher goroutine
Store.run and the two collectors with their cycle goroutines), for EVERY configuration (flusher started or not,
index collector enabled or not, primary collector enabled or not) and EVERY schedule: a list of thread steps in
which not-enabled steps are skipped, so Close may be issued at any point, with a flush and collector cycles parked
anywhere, and every `select` may take any ready case.  `run s more` continues a run: `run (run s a) b = run s (a ++ b)` (run_append).
-/
import Sth.Lemmas.C17

namespace Sth.Life

/-- C17, quiescence: when the closer's Close has returned, every background goroutine — the flusher, both collector
    loops, both cycle goroutines — has terminated (or never existed). -/
theorem C17_close_quiescent (cfg : Config) (sched : List Step) :
    let s := run (init cfg) sched
    s.closer = .returned → bg s = [] :=
  fun hr => quiescent (reach_inv cfg sched) hr

/-- the ghost `closeReturnedAt` is set exactly when the closer has returned -/
theorem C17_returned_recorded (cfg : Config) (sched : List Step) :
    let s := run (init cfg) sched
    s.closer = .returned ↔ ∃ r, s.closeReturnedAt = some r :=
  returned_recorded (reach_inv cfg sched)

/-- C17, no file-system step after Close: every logged file-system step (by any thread) has a step index smaller
    than the index at which Close returned, and in EVERY continuation of the run the log stays what it was and no
    background goroutine comes to life. -/
theorem C17_no_fs_after_close (cfg : Config) (sched : List Step) (r : Nat) :
    let s := run (init cfg) sched
    s.closeReturnedAt = some r →
      (∀ e ∈ s.fs, e.2 < r) ∧
      ∀ more : List Step, (run s more).fs = s.fs ∧ bg (run s more) = [] ∧ (run s more).closeReturnedAt = some r :=
  no_fs_after_close (reach_inv cfg sched) r

/-- C17, Close is idempotent: after Close has returned, a further Close call — by the same thread (`closer`) or by
    another one (`close2`) — is enabled (does not block), performs no file-system step and changes nothing but the
    ghost step counter; so do any number of them.  A Close call by another thread WHILE the closer's Close is still
    in progress (any state in which `close2` is enabled) likewise changes nothing: it does not help, it does not
    wait (A-close2 in the model). -/
theorem C17_close_idempotent (cfg : Config) (sched : List Step) :
    let s := run (init cfg) sched
    (s.closer = .returned →
      step s .closer = some { s with clock := s.clock + 1 } ∧
      step s .close2 = some { s with clock := s.clock + 1 } ∧
      ∀ n, run s (List.replicate n .closer) = { s with clock := s.clock + n }) ∧
    (∀ s', step s .close2 = some s' → s' = { s with clock := s.clock + 1 }) :=
  close_idempotent (reach_inv cfg sched)

/-- C17, Close waits: while a collector cycle is running Close has not returned (the harness' `closedEarly = 0`). -/
theorem C17_close_waits (cfg : Config) (sched : List Step) :
    let s := run (init cfg) sched
    s.igc.cycle = .running ∨ s.pgc.cycle = .running → s.closer ≠ .returned :=
  close_waits (reach_inv cfg sched)

/-- C17, the order inside Close (sharper than `C17_close_waits`): the closer reaches the primary's final flush
    (its first file-system step) only when the flusher and the primary collector (loop and cycle) are gone, and
    the index's final flush only when the index collector is gone too: `close(stop); <-done` precedes every file
    operation of the respective Close. -/
theorem C17_handshake_before_files (cfg : Config) (sched : List Step) :
    let s := run (init cfg) sched
    (CPc.primaryFlush.rank ≤ s.closer.rank →
      s.flusher.live = false ∧ s.pgc.loop.live = false ∧ s.pgc.cycle.live = false) ∧
    (CPc.indexFlush.rank ≤ s.closer.rank → s.igc.loop.live = false ∧ s.igc.cycle.live = false) :=
  handshake_before_files (reach_inv cfg sched)

/-- Negative witness, why the loop's `<-gcDone` matters: in the variant whose collector loop returns on stop WITHOUT
    waiting for the running cycle (`waitForCycle = false`), there is a schedule (index collector only) after which
    Close has returned, the cycle goroutine is still alive, and it logs a file-system step AFTER the return. -/
theorem C17_no_wait_witness :
    let sched : List Step := [.gc .index .timer,                     -- the loop spawns a cycle
                              .closer, .closer, .closer,             -- Close: lock; (no primary GC); primary flush
                              .closer,                               -- Index.Close: close(gcStop)
                              .gc .index .stop, .gc .index .exit,    -- loop: cancel(); return without <-gcDone
                              .closer, .closer, .closer, .closer,    -- <-gcDone passes; index flush, snapshot, freelist
                              .closer,                               -- Close returns (step 11)
                              .gc .index .fs]                        -- the cycle truncates a file (step 12)
    let s := run (init { indexGC := true } (waitForCycle := false)) sched
    s.closer = .returned ∧ s.closeReturnedAt = some 11 ∧ (Thread.igcCycle, 12) ∈ s.fs ∧ bg s = [.igcCycle] := by
  decide

/-- the same schedule on the code as it is: the loop's exit and hence Close are blocked behind the running cycle -/
theorem C17_wait_on_witness :
    let sched : List Step := [.gc .index .timer, .closer, .closer, .closer, .closer, .gc .index .stop,
                              .gc .index .exit, .closer, .closer, .closer, .closer, .closer, .gc .index .fs]
    let s := run (init { indexGC := true }) sched
    s.closer = .waitIgc ∧ s.igc.loop = .stopping ∧ s.closeReturnedAt = none ∧ step s .closer = none ∧
      step s (.gc .index .exit) = none := by
  decide

/-- Negative witness for assumption A-start: `Store.Start` does not look at `s.open`.  If Start is called while
    Close is in progress (after Close read `running = false`) — or after it — the flusher it spawns is never told to
    stop: Close returns with the flusher alive, and a later flush logs a file-system step. -/
theorem C17_late_start_witness :
    let sched : List Step := [.closer,                               -- Close: open := false, running was false
                              .start,                                -- Start: running := true; go s.run()
                              .closer, .closer, .closer, .closer, .closer, .closer,
                              .closer,                               -- Close returns (step 8)
                              .tick, .fl .take, .fl .fs]             -- the flusher flushes (step 11)
    let s := run (init {} (lateStart := true)) sched
    s.closer = .returned ∧ s.closeReturnedAt = some 8 ∧ (Thread.flusher, 11) ∈ s.fs ∧ bg s = [.flusher] := by
  decide

/-! ### non-vacuity -/

set_option maxRecDepth 2048 in
/-- Close issued while a flush and both collectors' cycles are in progress: the closer blocks three times
    (behind the flush, behind the primary cycle, behind the index cycle), each goroutine finishes, Close returns
    with nothing alive and all nine file-system steps before the return. -/
example :
    let sched : List Step := [
      .gc .index .timer, .gc .index .fs, .gc .primary .timer, .tick, .fl .take, .fl .fs,   -- everybody is busy
      .closer, .closer,                        -- Close: lock, close(closing)
      .closer,                                 -- <-closed: blocked (skipped)
      .fl .exit,                               -- the flusher cannot exit inside Flush (skipped)
      .fl .fs, .fl .done, .fl .exit,           -- Flush finishes; flusher sees closing, close(closed)
      .closer, .closer,                        -- <-closed passes; Primary.Close: close(stop)
      .closer,                                 -- <-done: blocked (skipped)
      .gc .primary .stop, .gc .primary .exit,  -- loop: cancel(); <-gcDone: blocked (skipped)
      .gc .primary .fs, .gc .primary .poll,    -- the cycle ends its file, polls ctx, returns: close(gcDone)
      .gc .primary .exit,                      -- loop returns: close(done)
      .closer, .closer, .closer,               -- <-done passes; primary flush; Index.Close: close(gcStop)
      .gc .index .stop, .gc .index .exit,      -- loop: cancel(); blocked behind its cycle (skipped)
      .closer,                                 -- <-gcDone: blocked (skipped)
      .gc .index .fs, .gc .index .finish, .gc .index .exit,
      .closer, .closer, .closer, .closer, .closer]
    let mid := run (init ⟨true, true, true⟩) (sched.take 27)
    let s := run (init ⟨true, true, true⟩) sched
    (mid.closer = .waitIgc ∧ mid.igc.cycle = .running ∧ step mid .closer = none ∧ bg mid = [.igcLoop, .igcCycle]) ∧
    s.closer = .returned ∧ bg s = [] ∧ s.closeReturnedAt = some 28 ∧ s.fs.length = 9 ∧
      (Thread.igcCycle, 21) ∈ s.fs ∧ (Thread.pgcCycle, 14) ∈ s.fs ∧ (Thread.flusher, 8) ∈ s.fs := by
  decide

/-- in every configuration Close can return: one fixed schedule drains the idle machine -/
example :
    let drain : List Step := [.closer, .closer, .fl .exit, .closer, .closer, .gc .primary .stop, .gc .primary .exit,
      .closer, .closer, .closer, .gc .index .stop, .gc .index .exit, .closer, .closer, .closer, .closer, .closer]
    ∀ started indexGC primaryGC : Bool,
      (run (init ⟨started, indexGC, primaryGC⟩) drain).closer = .returned := by
  decide

/-- a second Close racing with the first returns before the first has finished (A-close2): `close2` is enabled as
    soon as `open` is false, while the flusher is still alive -/
example :
    let s := run (init { started := true }) [.closer]
    (step s .close2).isSome ∧ bg s = [.flusher] ∧ s.closer = .signalFlusher := by
  decide

/-- a collector loop may still spawn a cycle after its stop channel was closed (`select` takes any ready case,
    A-sel); Close then waits for that cycle too -/
example :
    let s := run (init { indexGC := true }) [.closer, .closer, .closer, .closer, .gc .index .timer, .gc .index .stop]
    s.igc.stop = true ∧ s.igc.cycle = .running ∧ s.closer = .waitIgc ∧ step s .closer = none ∧
      step s (.gc .index .exit) = none := by
  decide

end Sth.Life
