/-
C03 — A crash at any point loses at most unflushed work.

Property theorems only (helper lemmas: Sth/Lemmas/C03*.lean on top of the C01/C02 development).  The
theorems are about the physical model of Sth/Model/Store.lean driven through Sth/Model/Machine.lean, the
crash images of Sth/Model/CrashImage.lean and the recovery `openStoreR` of Sth/Model/Recover.lean
(freelist repair + OpenStore; the index log is rescanned by `scanIndex`/`scanFile`, which cut a torn tail).

Setting.  `s` is ANY reachable state: any legal configuration (both primaries, both immutability modes,
bits 8..31, file limits 1 B .. 1 GiB), any finite sequence of Put / Get / Has / GetSize / Remove / Flush /
iteration / Close+reopen calls at arbitrary positions, any key set satisfying C01's premise, any values.
A Store.Flush with an arbitrary map-iteration order `ord` takes the disk `s.d` to `d'`.  A process crash
during that flush leaves the image `crashImage s.d (appendStream s.d d') k early` for some number `k` of
events (file creations and single appended bytes, in the order primary files → CID file → index files →
freelist, each append cut at ANY byte) and either variant `early` of the rollover (the next file already
created, empty, while the file being left is still short of bytes).  `k = 0` is a crash before the flush
(the disk of the last completed flush: between two flushes the process writes nothing), `k ≥ streamLength`
is a crash after it.

`C03_flush_crash_recovers`: for EVERY `k` and `early` the image reopens without error, and EVERY byte
string `key` reads, in the recovered store, what it reads after recovering the disk of the last completed
flush, or what it reads in the store after the interrupted flush — old or new, per key, never anything
else.

`C03_flush_crash_against_map`: the same against the specification map: a well-formed key reads the value
it has in the map at the last durable point (`lastDurable`: after the longest prefix of the calls ending
in a Flush / iteration / reopen) or in the map now, or `absent` if it is absent from that map; never an
error.  A malformed key is refused with the same error as ever.  In particular a key removed and flushed
stays absent (`C03_removed_flushed_stays_absent`), and a flushed value is never lost
(`C03_flushed_unchanged_survives`).

`C03_recovered_store_keeps_working_partial`: the store recovered from ANY image keeps working — every
continuation of Put / Get / Has / GetSize / Remove / Flush / iteration / Close+reopen calls on it answers
exactly like a map that has, for every digest, the entry of the last durable point or the entry now
(the recovered state satisfies the full invariants of C01 and C02 for that map, and its disk is again
well-formed, so the crash analysis applies to it again).  "Partial" only in a factor 2 in the premise on
the total number of bytes (an artefact of re-basing the byte accounting on the mixed map).  Junk left in
the primary tail by a cut append breaks no clause of those invariants; it is the primary GC, not among
these calls, that would later parse it (known finding D12).

`C03_image_zero` / `C03_image_full`: `k = 0` (no early creation) gives the old disk, `k ≥ streamLength`
gives an image with the files of `d'`.

Everything is proved for all configurations / histories / orders / cut points; no hypothesis beyond the
property's premises.  Nothing was found false in the model: the scan truncates a torn record in a
non-last index file exactly as in the last one, and an early-created empty next file is picked as current
by `findLast`/`scanIndex` with the table of the whole records before it.
-/
import Sth.Lemmas.C03Keep

namespace Sth

/-- C03, main theorem: every crash image of a flush of a reachable state reopens, and every key reads
    old or new. -/
theorem C03_flush_crash_recovers (c : Cfg) (hc : c.Legal) (ops : List SOp)
    (ha : ∀ op ∈ ops, op.isC02 = true) (hk : KeysOK c.kind ops) (hs : SizesOK ops) (s0 : SState)
    (hi : initS c = some s0) (ord : List Nat) (k : Nat) (early : Bool) :
    let s := (runS s0 ops).1
    ∃ m' d', storeFlush s.m s.d (fixOrder ord s.m.inext.keys) = some (m', d') ∧
      ∃ dOld mOld, openStoreR c s.d = (dOld, .ok mOld) ∧
      ∃ dr mr, openStoreR c (crashImage s.d (appendStream s.d d') k early) = (dr, .ok mr) ∧
        ∀ key, (storeGet mr dr key).2 = (storeGet mOld dOld key).2 ∨
          (storeGet mr dr key).2 = (storeGet m' d' key).2 := by
  intro s
  have hU := univ_of_keysOK hk (keysExact_all c.kind ops)
  obtain ⟨hI, hX, hD, hDur, _⟩ := reachable_c03 c hc _ hU ops ha
    (fun op ho k hkey dig hcls => mem_digestsOf ho hkey hcls) hs s0 hi
  obtain ⟨m', d', f1, dOld, mOld, o1, dr, mr, r1, hb, _, _⟩ :=
    crash_recovers hc hU hI hX hD hDur (by have := hs.1; omega) (by have := hs.2.1; omega) ord k early
  exact ⟨m', d', f1, dOld, mOld, o1, dr, mr, r1, hb⟩

/-- C03 against the map: in the store recovered from any crash image, a key that respects the premise on
    keys reads its value at the last durable point or its value now (`absent` when it is not in that
    map); a malformed key gets its usual error. -/
theorem C03_flush_crash_against_map (c : Cfg) (hc : c.Legal) (ops : List SOp)
    (ha : ∀ op ∈ ops, op.isC02 = true) (hs : SizesOK ops) (s0 : SState)
    (hi : initS c = some s0) (ord : List Nat) (k : Nat) (early : Bool) :
    let s := (runS s0 ops).1
    ∀ m' d', storeFlush s.m s.d (fixOrder ord s.m.inext.keys) = some (m', d') →
    ∀ dr mr, openStoreR c (crashImage s.d (appendStream s.d d') k early) = (dr, .ok mr) →
    ∀ key, KeysOK c.kind (ops ++ [.get key]) →
      match keyClass c.kind key with
      | .error e => (storeGet mr dr key).2 = .err e
      | .ok dig =>
        (storeGet mr dr key).2 = getResOf (Spec.get (lastDurable c.kind c.imm [] [] ops) dig) ∨
        (storeGet mr dr key).2 = getResOf (Spec.get (specRun c.kind c.imm [] ops).1 dig) := by
  intro s m' d' hf dr mr hr key hk
  have hU := univ_of_keysOK hk (keysExact_all c.kind _)
  obtain ⟨hI, hX, hD, hDur, _⟩ := reachable_c03 c hc _ hU ops ha
    (fun op ho k hkey dig hcls => mem_digestsOf (List.mem_append_left _ ho) hkey hcls) hs s0 hi
  obtain ⟨m'', d'', f1, dOld, mOld, _, dr', mr', r1, hb, hmap, herr⟩ :=
    crash_recovers hc hU hI hX hD hDur (by have := hs.1; omega) (by have := hs.2.1; omega) ord k early
  have e1 : storeFlush s.m s.d (fixOrder ord s.m.inext.keys) = some (m'', d'') := f1
  rw [hf] at e1
  simp only [Option.some.injEq, Prod.mk.injEq] at e1
  obtain ⟨rfl, rfl⟩ := e1
  have e2 : openStoreR c (crashImage s.d (appendStream s.d d') k early) = (dr', .ok mr') := r1
  rw [hr] at e2
  simp only [Prod.mk.injEq, Except.ok.injEq] at e2
  obtain ⟨rfl, rfl⟩ := e2
  cases hcls : keyClass c.kind key with
  | error e => exact herr key e hcls
  | ok dig =>
    have hmem : (key, dig) ∈ digestsOf c.kind (ops ++ [.get key]) :=
      mem_digestsOf (op := .get key) (List.mem_append_right _ (List.mem_singleton_self _)) rfl hcls
    obtain ⟨h1, h2⟩ := hmap key dig hmem
    simp only
    rcases hb key with h | h
    · left; rw [h, h1]
    · right; rw [h, h2]

/-- a key that is absent at the last durable point and absent now — removed and flushed, and not put
    again — is absent after recovery from any crash image -/
theorem C03_removed_flushed_stays_absent (c : Cfg) (hc : c.Legal) (ops : List SOp)
    (ha : ∀ op ∈ ops, op.isC02 = true) (hs : SizesOK ops) (s0 : SState)
    (hi : initS c = some s0) (ord : List Nat) (k : Nat) (early : Bool) (key dig : Bytes)
    (hk : KeysOK c.kind (ops ++ [.get key])) (hcls : keyClass c.kind key = .ok dig)
    (h1 : Spec.get (lastDurable c.kind c.imm [] [] ops) dig = none)
    (h2 : Spec.get (specRun c.kind c.imm [] ops).1 dig = none) :
    let s := (runS s0 ops).1
    ∀ m' d', storeFlush s.m s.d (fixOrder ord s.m.inext.keys) = some (m', d') →
    ∀ dr mr, openStoreR c (crashImage s.d (appendStream s.d d') k early) = (dr, .ok mr) →
      (storeGet mr dr key).2 = .absent := by
  intro s m' d' hf dr mr hr
  have := C03_flush_crash_against_map c hc ops ha hs s0 hi ord k early m' d' hf dr mr hr key hk
  rw [hcls] at this
  simp only [h1, h2] at this
  rcases this with h | h <;> exact h

/-- a value that was flushed and not changed since is read back after recovery from any crash image -/
theorem C03_flushed_unchanged_survives (c : Cfg) (hc : c.Legal) (ops : List SOp)
    (ha : ∀ op ∈ ops, op.isC02 = true) (hs : SizesOK ops) (s0 : SState)
    (hi : initS c = some s0) (ord : List Nat) (k : Nat) (early : Bool) (key dig k1 k2 v : Bytes)
    (hk : KeysOK c.kind (ops ++ [.get key])) (hcls : keyClass c.kind key = .ok dig)
    (h1 : Spec.get (lastDurable c.kind c.imm [] [] ops) dig = some (k1, v))
    (h2 : Spec.get (specRun c.kind c.imm [] ops).1 dig = some (k2, v)) :
    let s := (runS s0 ops).1
    ∀ m' d', storeFlush s.m s.d (fixOrder ord s.m.inext.keys) = some (m', d') →
    ∀ dr mr, openStoreR c (crashImage s.d (appendStream s.d d') k early) = (dr, .ok mr) →
      (storeGet mr dr key).2 = .found v := by
  intro s m' d' hf dr mr hr
  have := C03_flush_crash_against_map c hc ops ha hs s0 hi ord k early m' d' hf dr mr hr key hk
  rw [hcls] at this
  simp only [h1, h2] at this
  rcases this with h | h <;> exact h

/-- `lastDurable` is the map after the longest prefix of the calls that ends in a durable call
    (Flush / iteration / Close+reopen); the empty map if there is none -/
theorem C03_lastDurable_spec (kind : PKind) (imm : Bool) (ops : List SOp) :
    ((∀ op ∈ ops, op.isDurable = false) ∧ lastDurable kind imm [] [] ops = []) ∨
    ∃ pre op post, ops = pre ++ op :: post ∧ op.isDurable = true ∧
      (∀ o ∈ post, o.isDurable = false) ∧
      lastDurable kind imm [] [] ops = (specRun kind imm [] (pre ++ [op])).1 := by
  by_cases h : ∃ op ∈ ops, op.isDurable = true
  · exact Or.inr (lastDurable_some kind imm ops [] [] h)
  · left
    have hno : ∀ o ∈ ops, o.isDurable = false := by
      intro o ho
      cases hd : o.isDurable with
      | false => rfl
      | true => exact absurd ⟨o, ho, hd⟩ h
    exact ⟨hno, lastDurable_none kind imm ops [] [] hno⟩

/-- sanity: no event (and no early creation) is the old disk -/
theorem C03_image_zero (d d' : Disk) : crashImage d (appendStream d d') 0 false = d :=
  crashImage_zero d _

/-- sanity: all events give an image with the files of the flushed disk (and nothing else changed) -/
theorem C03_image_full (c : Cfg) (hc : c.Legal) (ops : List SOp)
    (ha : ∀ op ∈ ops, op.isC02 = true) (hk : KeysOK c.kind ops) (hs : SizesOK ops) (s0 : SState)
    (hi : initS c = some s0) (ord : List Nat) (k : Nat) (early : Bool) :
    let s := (runS s0 ops).1
    ∀ m' d', storeFlush s.m s.d (fixOrder ord s.m.inext.keys) = some (m', d') →
    streamLength (appendStream s.d d') ≤ k →
    let img := crashImage s.d (appendStream s.d d') k early
    (∀ f, img.pfiles.get? f = d'.pfiles.get? f) ∧ (∀ f, img.ifiles.get? f = d'.ifiles.get? f) ∧
      img.cidfile = d'.cidfile ∧ img.free = d'.free ∧ img.ihdr = d'.ihdr ∧ img.phdr = d'.phdr ∧
      img.snap = d'.snap ∧ img.freeGc = d'.freeGc := by
  intro s m' d' hf hlen
  have hU := univ_of_keysOK hk (keysExact_all c.kind ops)
  obtain ⟨hI, hX, hD, _⟩ := reachable_c03 c hc _ hU ops ha
    (fun op ho k hkey dig hcls => mem_digestsOf ho hkey hcls) hs s0 hi
  exact crash_image_full hU hI hX hD (by have := hs.1; omega) (by have := hs.2.1; omega) ord hf k early
    hlen

/-- C03, the recovered store keeps working: the state recovered from ANY crash image (torn index tail,
    torn primary tail, early-created empty files — all of them) behaves, for every continuation `ops'`
    of Put / Get / Has / GetSize / Remove / Flush / iteration / Close+reopen calls, exactly like the map
    `specR` that holds for every digest its entry at the last durable point or its entry now.
    "Partial" only in the size premise: the byte accounting of the invariant is re-based on the recovered
    map, whose weight is bounded by the old map's plus the new map's, hence the factor 2 on the bytes put
    before the crash.  (Junk left in the primary tail by a cut append breaks NO clause of the invariants
    of C01/C02: it lies below the recovered allocation point and no index entry names it; it is the
    primary GC — not among the calls of this theorem — that would later parse it, known finding D12.) -/
theorem C03_recovered_store_keeps_working_partial (c : Cfg) (hc : c.Legal) (ops ops' : List SOp)
    (ha : ∀ op ∈ ops ++ ops', op.isC02 = true) (hk : KeysOK c.kind (ops ++ ops')) (hs : SizesOK ops)
    (hs' : ops.length + ops'.length < 1073741824 ∧
      2 * (ops.map SOp.bytes).sum + (ops'.map SOp.bytes).sum < two31)
    (s0 : SState) (hi : initS c = some s0) (ord : List Nat) (k : Nat) (early : Bool) :
    let s := (runS s0 ops).1
    ∀ m' d', storeFlush s.m s.d (fixOrder ord s.m.inext.keys) = some (m', d') →
    ∀ dr mr, openStoreR c (crashImage s.d (appendStream s.d d') k early) = (dr, .ok mr) →
    ∃ specR : Spec,
      (∀ dig, Spec.get specR dig = Spec.get (lastDurable c.kind c.imm [] [] ops) dig ∨
        Spec.get specR dig = Spec.get (specRun c.kind c.imm [] ops).1 dig) ∧
      (runS ⟨c, mr, dr⟩ ops').2 = (specRun c.kind c.imm specR ops').2 := by
  intro s m' d' hf dr mr hr
  have hU := univ_of_keysOK hk (keysExact_all c.kind _)
  obtain ⟨hI, hX, hD, hDur, hW⟩ := reachable_c03 c hc _ hU ops
    (fun op ho => ha op (List.mem_append_left _ ho))
    (fun op ho k hkey dig hcls => mem_digestsOf (List.mem_append_left _ ho) hkey hcls) hs s0 hi
  obtain ⟨m'', d'', f1, dr', mr', specR, r1, hmix, hI', hX', _⟩ :=
    crash_keeps_working hc hU hI hX hD hDur hW (by have := hs.1; omega) (by have := hs.2.1; omega)
      ord k early
  have e1 : storeFlush s.m s.d (fixOrder ord s.m.inext.keys) = some (m'', d'') := f1
  rw [hf] at e1
  simp only [Option.some.injEq, Prod.mk.injEq] at e1
  obtain ⟨rfl, rfl⟩ := e1
  have e2 : openStoreR c (crashImage s.d (appendStream s.d d') k early) = (dr', .ok mr') := r1
  rw [hr] at e2
  simp only [Prod.mk.injEq, Except.ok.injEq] at e2
  obtain ⟨rfl, rfl⟩ := e2
  refine ⟨specR, hmix, ?_⟩
  exact (run_ok2 hc hU ops' ⟨c, mr, dr⟩ specR _ _ hI' hX'
    (fun op ho => ha op (List.mem_append_right _ ho))
    (fun op ho k hkey dig hcls => mem_digestsOf (List.mem_append_right _ ho) hkey hcls)
    (by have := hs'.1; omega) (by have := hs'.2; omega)).1

/-! Non-vacuity.  A concrete flush with two buckets (keys 1 and 3 share bucket 170, key 2 is in bucket
    187), an overwrite (key 1), a new key (key 3) and a removal (key 2) after a first flush, with
    33-byte file limits (both the primary and the index roll over during the flush; with 1-byte limits
    every record starts a new file) — ALL crash images (every event count, both rollover variants) are
    recovered by evaluation and the distinct outcomes for the three keys listed: the old contents, the
    new contents, and exactly one mixture (which one depends on the order in which the flush writes the
    two buckets). -/

def exCfg03 : Cfg := { kind := .mh, imm := false, bits := 8, ifs := 33, pfs := 33 }
def ex03K1 : Bytes := [0x12, 6, 0xaa, 1, 0, 0, 0, 1]
def ex03K2 : Bytes := [0x12, 6, 0xbb, 1, 0, 0, 0, 1]
def ex03K3 : Bytes := [0x12, 6, 0xaa, 1, 0, 0, 0, 2]
def exOps03 : List SOp :=
  [.put ex03K1 [1, 1], .put ex03K2 [2], .flush [], .put ex03K1 [3], .put ex03K3 [4, 4, 4], .rm ex03K2]

example : exCfg03.Legal := by decide
example : (∀ op ∈ exOps03, op.isC02 = true) ∧ KeysOK exCfg03.kind exOps03 ∧ SizesOK exOps03 ∧
    (∀ key ∈ [ex03K1, ex03K2, ex03K3], KeysOK exCfg03.kind (exOps03 ++ [.get key])) := by
  refine ⟨by decide, ?_, ?_, ?_⟩
  · unfold KeysOK; decide
  · unfold SizesOK; decide
  · unfold KeysOK; decide

/-- Get's answer as data: `some (some v)` found, `some none` absent, `none` error -/
def getCode : GetRes → Option (Option Bytes)
  | .found v => some (some v)
  | .absent => some none
  | .err _ => none

/-- the number of events of the flush after `ops`, and what `keys` read in the store recovered from each
    of its crash images, without repetitions; `none` if the initial open, the flush or any recovery
    fails -/
def crashOutcomes (c : Cfg) (ops : List SOp) (ord : List Nat) (keys : List Bytes) :
    Option (Nat × List (List (Option (Option Bytes)))) :=
  match initS c with
  | none => none
  | some s0 =>
    let s := (runS s0 ops).1
    match storeFlush s.m s.d (fixOrder ord s.m.inext.keys) with
    | none => none
    | some (_, d') =>
      let st := appendStream s.d d'
      let outs := (List.range (streamLength st + 1)).flatMap fun k => [false, true].map fun e =>
        match openStoreR c (crashImage s.d st k e) with
        | (dr, .ok mr) => some (keys.map fun key => getCode (storeGet mr dr key).2)
        | (_, .error _) => none
      if outs.all (·.isSome) then some (streamLength st, (outs.filterMap id).eraseDups) else none

set_option maxRecDepth 100000 in
/-- 107 events; bucket 170 is written first: old, new, or "keys 1 and 3 new, key 2 still there" -/
example : crashOutcomes exCfg03 exOps03 [] [ex03K1, ex03K2, ex03K3] =
    some (107, [[some (some [1, 1]), some (some [2]), some none],
      [some (some [3]), some (some [2]), some (some [4, 4, 4])],
      [some (some [3]), some none, some (some [4, 4, 4])]]) := by decide +kernel

def exCfg03b : Cfg := { kind := .mh, imm := false, bits := 8, ifs := 1, pfs := 1 }

set_option maxRecDepth 100000 in
/-- 1-byte file limits (every record starts a new file), bucket 187 written first: old, new, or
    "key 2 already removed, keys 1 and 3 still old" -/
example : crashOutcomes exCfg03b exOps03 [187, 170] [ex03K1, ex03K2, ex03K3] =
    some (108, [[some (some [1, 1]), some (some [2]), some none],
      [some (some [1, 1]), some none, some none],
      [some (some [3]), some none, some (some [4, 4, 4])]]) := by decide +kernel

/-! The CID primary, the first durable point being a Close + reopen (rescan). -/

def exCfg03c : Cfg := { kind := .cid, imm := false, bits := 8, ifs := 40, pfs := 1 }
def ex03C1 : Bytes := [1, 85, 18, 6, 0xaa, 1, 0, 0, 0, 1]
def ex03C2 : Bytes := [1, 85, 18, 6, 0xbb, 1, 0, 0, 0, 1]
def ex03C3 : Bytes := [1, 85, 18, 6, 0xaa, 1, 0, 0, 0, 2]
def exOps03c : List SOp :=
  [.put ex03C1 [1, 1], .put ex03C2 [2], .reopen [] false, .put ex03C1 [3], .put ex03C3 [4, 4, 4], .rm ex03C2]

example : exCfg03c.Legal := by decide
example : (∀ op ∈ exOps03c, op.isC02 = true) ∧ KeysOK exCfg03c.kind exOps03c ∧ SizesOK exOps03c ∧
    (∀ key ∈ [ex03C1, ex03C2, ex03C3], KeysOK exCfg03c.kind (exOps03c ++ [.get key])) := by
  refine ⟨by decide, ?_, ?_, ?_⟩
  · unfold KeysOK; decide
  · unfold SizesOK; decide
  · unfold KeysOK; decide

set_option maxRecDepth 100000 in
example : crashOutcomes exCfg03c exOps03c [] [ex03C1, ex03C2, ex03C3] =
    some (110, [[some (some [1, 1]), some (some [2]), some none],
      [some (some [3]), some (some [2]), some (some [4, 4, 4])],
      [some (some [3]), some none, some (some [4, 4, 4])]]) := by decide +kernel

/-! The recovered store keeps working, concretely: after recovery from image 20 of the first flush
    above (the cut is inside a primary record; with the early-created next primary file) and from image
    78 (the cut is inside the second index record: bucket 170 is new, bucket 187 still old), a
    continuation with reads, a put, a removal, a flush, a reopen by rescan and an iteration answers
    exactly like the old map resp. the mixed map. -/

def exCont03 : List SOp :=
  [.get ex03K1, .put ex03K3 [7], .rm ex03K1, .flush [], .get ex03K3, .get ex03K2, .put ex03K2 [5, 5],
   .reopen [] false, .iter []]

def exOldMap03 : Spec :=
  [([0xbb, 1, 0, 0, 0, 1], ex03K2, [2]), ([0xaa, 1, 0, 0, 0, 1], ex03K1, [1, 1])]
def exMixMap03 : Spec :=
  [([0xaa, 1, 0, 0, 0, 1], ex03K1, [3]), ([0xaa, 1, 0, 0, 0, 2], ex03K3, [4, 4, 4]),
   ([0xbb, 1, 0, 0, 0, 1], ex03K2, [2])]

example : (∀ op ∈ exOps03 ++ exCont03, op.isC02 = true) ∧ KeysOK exCfg03.kind (exOps03 ++ exCont03) ∧
    SizesOK exOps03 ∧ (exOps03.length + exCont03.length < 1073741824 ∧
      2 * (exOps03.map SOp.bytes).sum + (exCont03.map SOp.bytes).sum < two31) := by
  refine ⟨by decide, ?_, ?_, by decide⟩
  · unfold KeysOK; decide
  · unfold SizesOK; decide

/-- the outputs of `ops'` on the store recovered from image `k` (variant `early`) of the flush after
    `ops` -/
def exAfter (c : Cfg) (ops : List SOp) (ord : List Nat) (k : Nat) (early : Bool) (ops' : List SOp) :
    Option (List SOut) :=
  match initS c with
  | none => none
  | some s0 =>
    let s := (runS s0 ops).1
    match storeFlush s.m s.d (fixOrder ord s.m.inext.keys) with
    | none => none
    | some (_, d') =>
      match openStoreR c (crashImage s.d (appendStream s.d d') k early) with
      | (dr, .ok mr) => some (runS ⟨c, mr, dr⟩ ops').2
      | (_, .error _) => none

set_option maxRecDepth 100000 in
example : exAfter exCfg03 exOps03 [] 20 true exCont03 =
    some (specRun exCfg03.kind exCfg03.imm exOldMap03 exCont03).2 := by decide +kernel

set_option maxRecDepth 100000 in
example : exAfter exCfg03 exOps03 [] 78 false exCont03 =
    some (specRun exCfg03.kind exCfg03.imm exMixMap03 exCont03).2 := by decide +kernel

end Sth
