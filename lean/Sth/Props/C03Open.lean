/-
C03 — A crash at any point loses at most unflushed work: crashes WHILE OpenStore RUNS.

Property theorems only (helper lemmas: Sth/Lemmas/C03OpenSteps, C03OpenShape, C03OpenIdem, C03OpenClass,
C03Open on top of the C03 development, all in the namespace `Sth.C03O`, which also holds the predicates
`RecoversSame`, `OpenRestarts`, `DiskSame`, `MemSame` of the statements; step lists:
Sth/Model/CrashImageOpen.lean).

Setting.  `openSteps c d` (Sth/Model/CrashImageOpen.lean) lists the directory after each file-system step
of `openStoreR c d` in code order (freelist created / cut to whole entries, primary header written, last
primary file created, index header written, snapshot file removed, index files truncated one by one where
the scan finds a torn tail, last index file created); each step is atomic with respect to a process crash,
so these are exactly the directories a crash during the open can leave.  `C03_openSteps_last`: when the
open succeeds, the last entry is the directory the model's open returns.

`C03_open_crash_recovers`: let `d` be the disk of ANY reachable state or ANY crash image of its Flush
(`crashImage … k early`, every event count, both rollover variants; `k = 0, early = false` is the disk
itself) — the histories are those of `C03_flush_crash_recovers`.  Then for EVERY `di ∈ openSteps c d`,
OpenStore succeeds on `di` and recovers exactly what it recovers from `d` (`RecoversSame`): the same
directory (up to the representation of the index file map), the same memory state (up to the
representation of the bucket table), the same record list for every bucket, the same primary record for
every block, the same answer to every Get.  OpenStore is idempotent on its own partial results.
`C03_open_crash_recovers_close`: the same for every crash image of Close (`closeCrashImage`, K1) — in
particular the images WITH the snapshot.  `…_restarted`: the same when the open is interrupted and
restarted ANY number of times (`OpenRestarts`: each restart may again stop at any step).  `…_gc`: the
same for histories with index and primary GC cycles (the histories and premises of
`C03_crash_after_gc_history`; the file families then no longer start at file 0).
`C03_open_crash_old_or_new`: together with the Flush theorem — in the store recovered after a crash during
the flush AND a crash during the recovery, every key reads old or new.

The two danger spots.  (1) The snapshot file is REMOVED after it has been loaded (deferred `os.Remove` in
`loadBucketState`), before the open has finished: a crash right after the removal leaves no snapshot, and
the next open falls back to the rescan.  It gives the same table because a snapshot only ever exists
together with a complete index log whose scan table it is (the snapshot is renamed into place after the
index flush of Close, and removed by the next open; `OpenShape.snap`).  (2) The scan truncates a torn
tail; a crash after the truncation leaves the log without that tail, and the rescan of the truncated log
goes through the same whole records (the files already gone through are the whole-record prefixes the
first scan computed).  Both are covered by the theorems for all images; the examples below evaluate them
on concrete images.

Nothing was found false in the model.
-/
import Sth.Lemmas.C03Open
import Sth.Props.C03Close
import Sth.Props.C03GcHist

namespace Sth

open C03O

/-- the step list ends in the directory the model's open returns -/
theorem C03_openSteps_last (c : Cfg) (d dr : Disk) (mr : Mem) (h : openStoreR c d = (dr, .ok mr)) :
    (openSteps c d).getLast? = some dr :=
  openSteps_last h

/-- C03, crash during OpenStore: from every directory an open of a durable disk, or of a crash image of a
    Flush, passes through, OpenStore succeeds and recovers the same. -/
theorem C03_open_crash_recovers (c : Cfg) (hc : c.Legal) (ops : List SOp)
    (ha : ∀ op ∈ ops, op.isC02 = true) (hk : KeysOK c.kind ops) (hs : SizesOK ops) (s0 : SState)
    (hi : initS c = some s0) (ord : List Nat) (k : Nat) (early : Bool) :
    let s := (runS s0 ops).1
    ∀ m' d', storeFlush s.m s.d (fixOrder ord s.m.inext.keys) = some (m', d') →
    ∀ di ∈ openSteps c (crashImage s.d (appendStream s.d d') k early),
      RecoversSame c (crashImage s.d (appendStream s.d d') k early) di := by
  intro s m' d' hf di hdi
  exact recoversSame_of_shape hc
    (flush_images_shape (openReady_c02 c hc ops ha hk hs s0 hi) ord hf k early) (.single hdi)

/-- the same for an open interrupted and restarted any number of times -/
theorem C03_open_crash_recovers_restarted (c : Cfg) (hc : c.Legal) (ops : List SOp)
    (ha : ∀ op ∈ ops, op.isC02 = true) (hk : KeysOK c.kind ops) (hs : SizesOK ops) (s0 : SState)
    (hi : initS c = some s0) (ord : List Nat) (k : Nat) (early : Bool) :
    let s := (runS s0 ops).1
    ∀ m' d', storeFlush s.m s.d (fixOrder ord s.m.inext.keys) = some (m', d') →
    ∀ di, OpenRestarts c (crashImage s.d (appendStream s.d d') k early) di →
      RecoversSame c (crashImage s.d (appendStream s.d d') k early) di := by
  intro s m' d' hf di hdi
  exact recoversSame_of_shape hc
    (flush_images_shape (openReady_c02 c hc ops ha hk hs s0 hi) ord hf k early) hdi

/-- the durable disk itself (no flush under way) -/
theorem C03_open_crash_recovers_durable (c : Cfg) (hc : c.Legal) (ops : List SOp)
    (ha : ∀ op ∈ ops, op.isC02 = true) (hk : KeysOK c.kind ops) (hs : SizesOK ops) (s0 : SState)
    (hi : initS c = some s0) :
    let s := (runS s0 ops).1
    ∀ di, OpenRestarts c s.d di → RecoversSame c s.d di := by
  intro s di hdi
  exact recoversSame_of_shape hc (state_disk_shape (openReady_c02 c hc ops ha hk hs s0 hi)) hdi

/-- C03, crash during OpenStore after a crash during Close: every crash image of Close — before the
    snapshot, and with the snapshot in place — and every directory an open of it passes through (any number
    of restarts) -/
theorem C03_open_crash_recovers_close (c : Cfg) (hc : c.Legal) (ops : List SOp)
    (ha : ∀ op ∈ ops, op.isC02 = true) (hk : KeysOK c.kind ops) (hs : SizesOK ops) (s0 : SState)
    (hi : initS c = some s0) (ord : List Nat) (pt : ClosePoint) :
    let s := (runS s0 ops).1
    ∀ d2 sn dC, closeParts s.m s.d (fixOrder ord s.m.inext.keys) = some (d2, sn, dC) →
    ∀ di, OpenRestarts c (closeCrashImage s.d d2 sn dC pt) di →
      RecoversSame c (closeCrashImage s.d d2 sn dC pt) di := by
  intro s d2 sn dC hcl di hdi
  exact recoversSame_of_shape hc
    (close_images_shape (openReady_c02 c hc ops ha hk hs s0 hi) ord hcl pt) hdi

/-- histories with GC cycles: Flush images -/
theorem C03_open_crash_recovers_gc (c : Cfg) (hc : c.Legal) (ops : List SOp)
    (hk : KeysOK c.kind ops) (hs : SizesOK ops) (s0 : SState) (hi : initS c = some s0)
    (ord : List Nat)
    (hgc : c.kind = .mh → GcCountersOK s0 (ops ++ [.flush ord]) ∧ PgcFromClean s0 ops)
    (k : Nat) (early : Bool) :
    let s := (runS s0 ops).1
    ∀ m' d', storeFlush s.m s.d (fixOrder ord s.m.inext.keys) = some (m', d') →
    ∀ di, OpenRestarts c (crashImage s.d (appendStream s.d d') k early) di →
      RecoversSame c (crashImage s.d (appendStream s.d d') k early) di := by
  intro s m' d' hf di hdi
  have hR : OpenReady c s := openReady_gc c hc ops hk hs s0 hi
    (fun h => by
      obtain ⟨hb1, hb2, _⟩ := GcCountersOK.append ops [.flush ord] s0 (hgc h).1
      exact ⟨hb1, hb2⟩)
    (fun h => (hgc h).2)
  exact recoversSame_of_shape hc (flush_images_shape hR ord hf k early) hdi

/-- histories with GC cycles: Close images -/
theorem C03_open_crash_recovers_close_gc (c : Cfg) (hc : c.Legal) (ops : List SOp)
    (hk : KeysOK c.kind ops) (hs : SizesOK ops) (s0 : SState) (hi : initS c = some s0)
    (ord : List Nat)
    (hgc : c.kind = .mh → GcCountersOK s0 (ops ++ [.flush ord]) ∧ PgcFromClean s0 ops)
    (pt : ClosePoint) :
    let s := (runS s0 ops).1
    ∀ d2 sn dC, closeParts s.m s.d (fixOrder ord s.m.inext.keys) = some (d2, sn, dC) →
    ∀ di, OpenRestarts c (closeCrashImage s.d d2 sn dC pt) di →
      RecoversSame c (closeCrashImage s.d d2 sn dC pt) di := by
  intro s d2 sn dC hcl di hdi
  have hR : OpenReady c s := openReady_gc c hc ops hk hs s0 hi
    (fun h => by
      obtain ⟨hb1, hb2, _⟩ := GcCountersOK.append ops [.flush ord] s0 (hgc h).1
      exact ⟨hb1, hb2⟩)
    (fun h => (hgc h).2)
  exact recoversSame_of_shape hc (close_images_shape hR ord hcl pt) hdi

/-- a crash during the flush, then a crash during the recovery (any number of times): every key still reads
    old or new -/
theorem C03_open_crash_old_or_new (c : Cfg) (hc : c.Legal) (ops : List SOp)
    (ha : ∀ op ∈ ops, op.isC02 = true) (hk : KeysOK c.kind ops) (hs : SizesOK ops) (s0 : SState)
    (hi : initS c = some s0) (ord : List Nat) (k : Nat) (early : Bool) :
    let s := (runS s0 ops).1
    ∃ m' d', storeFlush s.m s.d (fixOrder ord s.m.inext.keys) = some (m', d') ∧
      ∃ dOld mOld, openStoreR c s.d = (dOld, .ok mOld) ∧
      ∀ di, OpenRestarts c (crashImage s.d (appendStream s.d d') k early) di →
      ∃ dr mr, openStoreR c di = (dr, .ok mr) ∧
        ∀ key, (storeGet mr dr key).2 = (storeGet mOld dOld key).2 ∨
          (storeGet mr dr key).2 = (storeGet m' d' key).2 := by
  intro s
  obtain ⟨m', d', f1, dOld, mOld, o1, dr, mr, r1, hget⟩ :=
    C03_flush_crash_recovers c hc ops ha hk hs s0 hi ord k early
  refine ⟨m', d', f1, dOld, mOld, o1, ?_⟩
  intro di hdi
  obtain ⟨dr', mr', dri, mri, e1, e2, _, _, _, _, hsame⟩ :=
    C03_open_crash_recovers_restarted c hc ops ha hk hs s0 hi ord k early m' d' f1 di hdi
  have e1' : openStoreR c (crashImage s.d (appendStream s.d d') k early) = (dr', .ok mr') := e1
  have r1' : openStoreR c (crashImage s.d (appendStream s.d d') k early) = (dr, .ok mr) := r1
  rw [r1'] at e1'
  simp only [Prod.mk.injEq, Except.ok.injEq] at e1'
  obtain ⟨rfl, rfl⟩ := e1'
  refine ⟨dri, mri, e2, ?_⟩
  intro key
  rw [hsame key]
  exact hget key

/-- the very first open (empty directory): every directory it passes through opens to EXACTLY the state
    and directory of the uninterrupted first open, which is the initial state of the histories -/
theorem C03_open_crash_first_open (c : Cfg) (hc : c.Legal) :
    (∀ di ∈ openSteps c {}, openStoreR c di = openStoreR c {}) ∧
    ∀ s0, initS c = some s0 → openStoreR c {} = (s0.d, .ok s0.m) := by
  refine ⟨open_fresh c hc, ?_⟩
  intro s0 hi
  have e : openStoreR c {} = openStore c {} := by
    unfold openStoreR openStore openFreelist
    rfl
  rw [e]
  unfold initS at hi
  split at hi
  · rename_i d m he
    cases hi
    exact he
  · cases hi

/-! Non-vacuity, and the two danger spots on concrete images (the history, keys and configuration of the
    examples of Sth/Props/C03.lean: 33-byte file limits, three index files after the flush). -/

/-- the crash image `k`, `early` of the flush after `ops` -/
def ex03FlushImg (c : Cfg) (ops : List SOp) (ord : List Nat) (k : Nat) (early : Bool) : Option Disk :=
  match initS c with
  | none => none
  | some s0 =>
    let s := (runS s0 ops).1
    match storeFlush s.m s.d (fixOrder ord s.m.inext.keys) with
    | none => none
    | some (_, d') => some (crashImage s.d (appendStream s.d d') k early)

/-- the crash image `pt` of the Close after `ops` -/
def ex03CloseImg (c : Cfg) (ops : List SOp) (ord : List Nat) (pt : ClosePoint) : Option Disk :=
  match initS c with
  | none => none
  | some s0 =>
    let s := (runS s0 ops).1
    match closeParts s.m s.d (fixOrder ord s.m.inext.keys) with
    | none => none
    | some (d2, sn, dC) => some (closeCrashImage s.d d2 sn dC pt)

/-- what tells the directories of an open apart: the sizes of the index files, the size of the freelist
    file, whether the snapshot file is there -/
def ex03DirView (d : Disk) : List (Nat × Nat) × Option Nat × Bool :=
  (d.ifiles.map fun p => (p.1, p.2.length), d.free.map (·.length), d.snap.isSome)

/-- do all (distinct) directories an open of `d` passes through, and all directories an open of THOSE
    passes through, reopen to the very directory and the very answers for `keys` that `d` reopens to?
    (the number of directories checked; `none` if one of them does not) -/
def ex03OpenCrashCheck (c : Cfg) (d : Disk) (keys : List Bytes) : Option Nat :=
  match openStoreR c d with
  | (_, .error _) => none
  | (dr, .ok mr) =>
    let ref := keys.map fun key => getCode (storeGet mr dr key).2
    let same (di : Disk) : Bool :=
      match openStoreR c di with
      | (dri, .ok mri) =>
        decide (dri = dr) && (keys.map fun key => getCode (storeGet mri dri key).2) == ref
      | (_, .error _) => false
    let l1 := (openSteps c d).eraseDups
    let l2 := (l1.flatMap (openSteps c)).eraseDups
    if (l1 ++ l2).all same then some (l1 ++ l2).length else none

set_option maxRecDepth 100000 in
/-- danger spot (2): image 50 with the early-created next file — index file 1 (NOT the last one) ends in
    20 bytes of a torn record, file 2 exists, empty.  The open passes through 7 directories: the first five
    are the image (nothing to do for the freelist and the primary, no snapshot to remove, file 0 scanned
    and left alone), then file 1 is truncated to 0 bytes; all of them, and the directories of an open
    restarted from them, reopen to the same directory and the same answers -/
example : (ex03FlushImg exCfg03 exOps03 [] 50 true).map (fun d => (openSteps exCfg03 d).map ex03DirView) =
      some [([(0, 44), (1, 20), (2, 0)], some 0, false), ([(0, 44), (1, 20), (2, 0)], some 0, false),
        ([(0, 44), (1, 20), (2, 0)], some 0, false), ([(0, 44), (1, 20), (2, 0)], some 0, false),
        ([(0, 44), (1, 20), (2, 0)], some 0, false), ([(0, 44), (1, 0), (2, 0)], some 0, false),
        ([(0, 44), (1, 0), (2, 0)], some 0, false)] ∧
    (ex03FlushImg exCfg03 exOps03 [] 50 true).bind
      (fun d => ex03OpenCrashCheck exCfg03 d [ex03K1, ex03K2, ex03K3]) = some 4 := by
  refine ⟨by decide +kernel, by decide +kernel⟩

set_option maxRecDepth 100000 in
/-- danger spot (1): the Close image with the snapshot in place and 5 bytes of a freelist entry.  The open
    cuts the freelist back, then removes the snapshot (fourth entry on) before anything else happens to
    the index; every directory reopens to the same directory and answers — with the snapshot through the
    snapshot, without it through the rescan -/
example : (ex03CloseImg exCfg03 exOps03 [] (.saved 5)).map (fun d => (openSteps exCfg03 d).map ex03DirView) =
      some [([(0, 44), (1, 44), (2, 8)], some 5, true), ([(0, 44), (1, 44), (2, 8)], some 0, true),
        ([(0, 44), (1, 44), (2, 8)], some 0, true), ([(0, 44), (1, 44), (2, 8)], some 0, false),
        ([(0, 44), (1, 44), (2, 8)], some 0, false)] ∧
    (ex03CloseImg exCfg03 exOps03 [] (.saved 5)).bind
      (fun d => ex03OpenCrashCheck exCfg03 d [ex03K1, ex03K2, ex03K3]) = some 6 := by
  refine ⟨by decide +kernel, by decide +kernel⟩

end Sth
