/-
C10 — Legacy single-file stores upgrade with identical contents: the BYTE-LEVEL end-to-end theorems.

Model.  Sth/Model/UpgradeBytes.lean: `upgradeOpen c L order` is the upgrading `OpenStore` (multihash
primary) on a directory holding the three legacy files — freelist.Open, mhprimary.Open with upgradePrimary
(ToGC, applyFreeList, chunkOldPrimary, header, removal of the old file), index.Open with upgradeIndex
(readOldHeader, chunkOldIndex, header), the scan of the chunked index, remapIndex (work copy, in-place
rewrite, marker, rename, header stamp, marker removal) and the flush of the removal pool inside Open —
returning the directory AND the live memory state; `upgradeStore` is its directory, `upgradeStoreFlushed`
the directory after the first `Store.Flush`.  (Sth/Props/C10.lean has the pure core: `chunk`, `remapOffset`.)

Statements.  They are about ABSTRACT legacy contents `C : LegacyC` — the list of primary records
(key, value), the list of index records (bucket, record list) in file order with every superseded
generation, and the freelist as a list of record numbers — written out as bytes by `C.dir`
(`[u32 size][key][value]…`, `[2,0,0,0,2,bits][u32 size][u32 bucket][record list]…`,
`[u64 offset][u32 size]…`).  `LegacyWF c C` is what the legacy writer guarantees (Sth/Lemmas/C10Defs.lean;
`LegacyC.wfCheck` is its executable form, `wf_of_check`); nothing is assumed about superseded
generations, about records no current entry names ("gone"), about the order of buckets or how often a
bucket was rewritten.  `C.spec` is the map the legacy store holds: digest ↦ (key, value) for every record
named by an entry of a CURRENT record list and not on the freelist.  The theorems hold for EVERY legal
configuration with the multihash primary (bits 8..31 equal to the legacy index's, file-size limits
1 B .. 1 GiB — so for every way the files can be cut into chunks), every well-formed `C`, every later
call sequence with flushes, iteration and Close+reopen at arbitrary positions.

Premises on sizes (as in C01/C02): fewer than 2^30 records + index records + later calls, fewer than 2^31
bytes of keys (+17 each) in the contents plus bytes put later; `KeysOK` over the legacy keys and the keys
of the later calls (distinct digests, none a prefix of another, ≤ 255 bytes).

What the model says the code does and a reader might not expect (all covered by the theorems, see
`C10_upgrade_records_whole`):
  * a FREED record keeps its place and size in the numbered primary file, its size prefix gets the
    deleted bit, but its BODY is not copied: chunkOldPrimary writes the bytes its scratch buffer happens
    to hold (zeros, or parts of earlier records);
  * only the CURRENT record list of a bucket is rewritten by remapIndex; superseded generations keep
    their linear offsets;
  * when the whole legacy primary fits one file below the limit, there is no remapper: offsets are kept
    (they are already right).
Out of scope of these theorems (the model handles them, the harness compares them byte for byte):
entries whose offset lies outside the legacy primary ("bad": rewritten to 0 in place, removed through a
pool that index.Open flushes itself; NOT removed in the single-file case), torn tails, a bit size that
differs from the legacy header's (continues with translateIndex).
Interrupted upgrades: last section (`C10_upgrade_resume_partial`, the D14 witnesses).
-/
import Sth.Lemmas.C10Whole
import Sth.Lemmas.C10Resume

namespace Sth

open LegacyC

/-- C10, main theorem (contents).  The upgrading open of a well-formed legacy directory succeeds; the
    store it returns — and equally the store a later plain `openStoreR` of the upgraded directory loads —
    refines the map `C.spec`: EVERY later run (Put / Get / Has / GetSize / Remove / Flush / iteration /
    Close+reopen) returns exactly what it returns on the in-memory map holding the legacy contents minus
    the freed records.  The first `Store.Flush` after the upgrade changes nothing on disk. -/
theorem C10_upgrade_contents (c : Cfg) (hc : c.Legal) (hk : c.kind = .mh) (C : LegacyC)
    (hwf : LegacyWF c C) (ops : List SOp) (ha : ∀ op ∈ ops, op.isC02 = true)
    (hkeys : KeysOK .mh (C.keyOps ++ ops))
    (hn : C.recs.length + C.gens.length + 1 + ops.length < 1073741824)
    (hB : specW C.spec + (ops.map SOp.bytes).sum < two31) :
    ∃ d m, upgradeOpen c C.dir [] = some (d, m) ∧ upgradeStore c C.dir = some d ∧
      upgradeStoreFlushed c C.dir = some d ∧
      (runS ⟨c, m, d⟩ ops).2 = (specRun .mh c.imm C.spec ops).2 ∧
      ∃ dr mr, openStoreR c d = (dr, .ok mr) ∧
        (runS ⟨c, mr, dr⟩ ops).2 = (specRun .mh c.imm C.spec ops).2 := by
  obtain ⟨ifs, files', h1, h2, _, x, x'⟩ := upgrade_ctx hc hk hwf ops hkeys (by omega) (by omega)
  have hk' : ∀ op ∈ ops, ∀ k, op.keyOf = some k → ∀ dig, keyClass .mh k = .ok dig →
      (k, dig) ∈ digestsOf .mh (C.keyOps ++ ops) :=
    fun op ho k hkey dig hcls => mem_digestsOf (List.mem_append_right _ ho) hkey hcls
  refine ⟨C.diskU c ifs, C.memU c ifs, h1, ?_, ?_, run_U x ops ha hk' hn hB,
    C.diskU c files', C.memU c files', h2, run_U x' ops ha hk' hn hB⟩
  · unfold upgradeStore upgradeStoreWith; rw [h1]; rfl
  · unfold upgradeStoreFlushed; rw [h1]; rfl

theorem specStep_get_fst (kind : PKind) (imm : Bool) (m : Spec) (k : Bytes) :
    (specStep kind imm m (.get k)).1 = m := by
  simp only [specStep]
  split
  · rfl
  · split <;> rfl

theorem specStep_has_fst (kind : PKind) (imm : Bool) (m : Spec) (k : Bytes) :
    (specStep kind imm m (.has k)).1 = m := by
  simp only [specStep]
  split <;> rfl

theorem specRun_reads (kind : PKind) (imm : Bool) (m : Spec) (k : Bytes) :
    (specRun kind imm m [.get k, .has k, .size k]).2 =
      [(specStep kind imm m (.get k)).2, (specStep kind imm m (.has k)).2,
       (specStep kind imm m (.size k)).2] := by
  have e1 := specStep_get_fst kind imm m k
  have e2 := specStep_has_fst kind imm m k
  show [(specStep kind imm m (.get k)).2,
        (specStep kind imm (specStep kind imm m (.get k)).1 (.has k)).2,
        (specStep kind imm (specStep kind imm (specStep kind imm m (.get k)).1 (.has k)).1 (.size k)).2] = _
  rw [e1, e2]

/-- C10, read-only form: after the upgrade (and after reopening the upgraded directory) every key reads
    its legacy value, a freed or never stored key is absent, a malformed key gets its error — `Get`, `Has`
    and `GetSize` answer what the map `C.spec` answers. -/
theorem C10_upgrade_reads (c : Cfg) (hc : c.Legal) (hk : c.kind = .mh) (C : LegacyC)
    (hwf : LegacyWF c C) (k : Bytes) (hkeys : KeysOK .mh (C.keyOps ++ [.get k, .has k, .size k]))
    (hn : C.recs.length + C.gens.length + 4 < 1073741824) (hB : specW C.spec < two31) :
    ∃ d m dr mr, upgradeOpen c C.dir [] = some (d, m) ∧ openStoreR c d = (dr, .ok mr) ∧
      (runS ⟨c, m, d⟩ [.get k, .has k, .size k]).2 =
        [(specStep .mh c.imm C.spec (.get k)).2, (specStep .mh c.imm C.spec (.has k)).2,
         (specStep .mh c.imm C.spec (.size k)).2] ∧
      (runS ⟨c, mr, dr⟩ [.get k, .has k, .size k]).2 =
        [(specStep .mh c.imm C.spec (.get k)).2, (specStep .mh c.imm C.spec (.has k)).2,
         (specStep .mh c.imm C.spec (.size k)).2] := by
  have ha : ∀ op ∈ [SOp.get k, .has k, .size k], op.isC02 = true := by
    intro op ho
    simp only [List.mem_cons, List.not_mem_nil, or_false] at ho
    rcases ho with rfl | rfl | rfl <;> rfl
  obtain ⟨d, m, h1, _, _, h4, dr, mr, h5, h6⟩ := C10_upgrade_contents c hc hk C hwf _ ha hkeys
    (by simp only [List.length_cons, List.length_nil]; omega)
    (by simp only [List.map_cons, List.map_nil, List.sum_cons, List.sum_nil, SOp.bytes]; omega)
  refine ⟨d, m, dr, mr, h1, h5, ?_, ?_⟩
  · rw [h4, specRun_reads]
  · rw [h6, specRun_reads]

/-- C10, every record stays whole.  For the directory `d` and state `m` of the upgrading open:
    (1) the numbered primary files are exactly the files `chunkFiles` cuts from the record sequence
        `C.out`, whose chunks concatenate to `C.out`: no record is split, none lost or reordered;
    (2) `C.out` is the legacy record sequence record for record: same number, same lengths, and every record
        that is not freed is byte-identical to the legacy record `[u32 size][key][value]`;
    (3) (non-empty store) the file sizes are `chunkFileSizes` of the legacy records — the function the
        harness compares the real directory with;
    (4) every bucket with a current legacy list `rl` reads, from the upgraded index, `rl` with each
        offset replaced by `remapOffset` (over the chunk sizes of the legacy records) of the legacy offset,
        which is defined for each of them; a bucket without a list reads nothing;
    (5) each such entry resolves through the upgraded primary to the key and value of the legacy record it
        named (ties to `C10_remap_correct`). -/
theorem C10_upgrade_records_whole (c : Cfg) (hc : c.Legal) (hk : c.kind = .mh) (C : LegacyC)
    (hwf : LegacyWF c C) (hkeys : KeysOK .mh C.keyOps)
    (hn : C.recs.length + C.gens.length + 1 < 1073741824) :
    ∃ d m, upgradeOpen c C.dir [] = some (d, m) ∧
      (∀ n, d.pfiles.get? n = (chunkFiles c.pfs C.out [])[n]?) ∧
      (chunk c.pfs C.out).flatten = C.out ∧
      C.out.map List.length = C.recBytesL.map List.length ∧
      (∀ i, C.isFreed i = false → i < C.recs.length → C.out[i]? = C.recBytesL[i]?) ∧
      (C.recs ≠ [] → (chunkFiles c.pfs C.out []).map List.length = chunkFileSizes c.pfs C.recBytesL) ∧
      (∀ b, C.table.get? b = none → idxRecords m d b = .ok none) ∧
      (∀ b rl, C.table.get? b = some rl →
        idxRecords m d b = .ok (some (rl.map fun e =>
          ⟨e.pfx, ⟨(remapOffset 0 c.pfs (chunkSizes c.pfs C.recBytesL) e.blk.off).getD 0, e.blk.size⟩⟩)) ∧
        ∀ e ∈ rl, (remapOffset 0 c.pfs (chunkSizes c.pfs C.recBytesL) e.blk.off).isSome = true ∧
          ∃ i key val, C.recs[i]? = some (key, val) ∧ e.blk = C.blockOf i ∧
            priGet m d ⟨(remapOffset 0 c.pfs (chunkSizes c.pfs C.recBytesL) e.blk.off).getD 0, e.blk.size⟩ =
              .got key val) := by
  have hkeys' : KeysOK .mh (C.keyOps ++ []) := by rw [List.append_nil]; exact hkeys
  obtain ⟨ifs, files', h1, _, _, x, _⟩ := upgrade_ctx hc hk hwf [] hkeys' (by omega) (by omega)
  refine ⟨C.diskU c ifs, C.memU c ifs, h1, ?_, chunk_flatten _ _, ?_, ?_, ?_, ?_, ?_⟩
  · intro n
    show (setFiles [] 0 (C.pfilesL c.pfs)).get? n = _
    rw [setFiles_get?]
    by_cases hlt : n < (C.pfilesL c.pfs).length
    · rw [if_pos ⟨Nat.zero_le _, by omega⟩]; rfl
    · rw [if_neg (by omega)]
      have : (chunkFiles c.pfs C.out [])[n]? = none := List.getElem?_eq_none (by unfold pfilesL at hlt; omega)
      rw [this]; rfl
  · rw [C.out_lengths, C.recBytesL_lengths]
  · intro i hf hi
    have hkv : C.recs[i]? = some C.recs[i] := List.getElem?_eq_getElem hi
    rw [C.out_get i _ hkv hf]
    unfold recBytesL
    rw [List.getElem?_map, hkv]
    rfl
  · intro hne
    exact C.pfilesL_sizes c.pfs hne
  · intro b hb
    rcases bucket_reads x b with ⟨_, h2⟩ | ⟨rl, pos, h1', _⟩
    · exact h2
    · rw [hb] at h1'; cases h1'
  · intro b rl hb
    have hrem := fun e he => remapC_eq x.hc x.hU x.hwf x.hn1 b rl hb e he
    rcases bucket_reads x b with ⟨h0, _⟩ | ⟨rl', pos, t1, _, _, t4⟩
    · rw [hb] at h0; cases h0
    · rw [hb] at t1
      cases t1
      refine ⟨?_, ?_⟩
      · rw [t4]
        unfold newRL remapRL
        congr 2
        apply List.map_congr_left
        intro e he
        rw [(hrem e he).1]
      · intro e he
        refine ⟨(hrem e he).2, ?_⟩
        obtain ⟨i, key, val, dig, _, _, _, g1, g2, _, _, _, _, _, _, _, q⟩ :=
          entry_full x.hc x.hU x.hwf x.hn1 b rl hb e he
        obtain ⟨key', val', dig', p1, _, _, _, _, _, _, p8, _, _⟩ := priGet_U x b rl hb e he
        refine ⟨i, key, val, g1, g2, ?_⟩
        rw [← (hrem e he).1, p1]
        rw [q] at p8
        simp only [Option.some.injEq, Prod.mk.injEq] at p8
        rw [p8.2.1, p8.2.2]

/-- C10, consistency.  The executable consistency check of Sth/Model/Fsck.lean (the independent reader of
    the on-disk formats of C07) finds nothing wrong with the upgraded directory — against the live bucket
    table of the upgrading open and against the table a later `openStoreR` rebuilds by scanning — and
    keeps finding nothing after every later run: every bucket points at a complete record list tagged
    with its bucket, sorted and prefix-free, every entry names a complete, non-deleted primary record of
    exactly the recorded size whose key falls in the bucket and extends the stored prefix, and no named
    location is on the freelist. -/
theorem C10_upgrade_fsck (c : Cfg) (hc : c.Legal) (hk : c.kind = .mh) (C : LegacyC)
    (hwf : LegacyWF c C) (ops : List SOp) (ha : ∀ op ∈ ops, op.isC02 = true)
    (hkeys : KeysOK .mh (C.keyOps ++ ops))
    (hn : C.recs.length + C.gens.length + 1 + ops.length < 1073741824)
    (hB : specW C.spec + (ops.map SOp.bytes).sum < two31) :
    ∃ d m dr mr, upgradeOpen c C.dir [] = some (d, m) ∧ openStoreR c d = (dr, .ok mr) ∧
      fsck .mh d m.buckets = [] ∧ fsck .mh dr mr.buckets = [] ∧ mr.buckets = m.buckets ∧
      fsck .mh (runS ⟨c, m, d⟩ ops).1.d (runS ⟨c, m, d⟩ ops).1.m.buckets = [] ∧
      fsck .mh (runS ⟨c, mr, dr⟩ ops).1.d (runS ⟨c, mr, dr⟩ ops).1.m.buckets = [] := by
  obtain ⟨ifs, files', h1, h2, _, x, x'⟩ := upgrade_ctx hc hk hwf ops hkeys (by omega) (by omega)
  have hk' : ∀ op ∈ ops, ∀ k, op.keyOf = some k → ∀ dig, keyClass .mh k = .ok dig →
      (k, dig) ∈ digestsOf .mh (C.keyOps ++ ops) :=
    fun op ho k hkey dig hcls => mem_digestsOf (List.mem_append_right _ ho) hkey hcls
  exact ⟨C.diskU c ifs, C.memU c ifs, C.diskU c files', C.memU c files', h1, h2, fsck_U x, fsck_U x', rfl,
    fsck_run_U x ops ha hk' hn hB, fsck_run_U x' ops ha hk' hn hB⟩

/-! ### Non-vacuity

A legacy store with seven records — two keys sharing a bucket and four digest bytes, an empty value, a
freed record (number 3), a superseded value of a key (number 5, "gone": in the primary only; number 6 is
the current one) — an index with a superseded generation of bucket 1, cut with 30-byte primary and
60-byte index files into three primary and two index chunks (plus the empty third index file the chunker
has already created).  It is exactly what the harness's `writeLegacyStore` writes (`legacyOf`). -/

def exCfg10 : Cfg := { kind := .mh, bits := 8, ifs := 60, pfs := 30, imm := false }

def exRecs10 : List (Bytes × Bytes) :=
  [([18, 6, 1, 2, 3, 4, 5, 6], [7, 7, 7]), ([18, 6, 1, 2, 3, 4, 5, 7], []), ([18, 6, 2, 2, 9, 9, 9, 9], [1, 2]),
   ([18, 6, 1, 9, 9, 9, 9, 9], [5]), ([18, 6, 3, 1, 1, 1, 1, 1], [8, 8, 8, 8]), ([18, 6, 4, 4, 4, 4, 4, 4], [9]),
   ([18, 6, 4, 4, 4, 4, 4, 4], [6, 6])]

def exC10 : LegacyC :=
  { bits := 8, recs := exRecs10,
    gens := [(1, [⟨[2, 3, 4, 5, 6], ⟨0, 11⟩⟩]),
             (1, [⟨[2, 3, 4, 5, 6], ⟨0, 11⟩⟩, ⟨[2, 3, 4, 5, 7], ⟨15, 8⟩⟩]),
             (2, [⟨[2, 9, 9, 9, 9], ⟨27, 10⟩⟩]),
             (3, [⟨[1, 1, 1, 1, 1], ⟨54, 12⟩⟩]),
             (4, [⟨[4, 4, 4, 4, 4], ⟨83, 10⟩⟩])],
    freed := some [3] }

def exOps10 : List SOp :=
  [.get [18, 6, 1, 2, 3, 4, 5, 7], .get [18, 6, 1, 9, 9, 9, 9, 9], .put [18, 6, 1, 2, 3, 4, 5, 6] [1],
   .rm [18, 6, 2, 2, 9, 9, 9, 9], .put [18, 6, 5, 5, 5, 5, 5, 5] [2, 2], .flush [], .reopen [] false, .iter []]

example : exCfg10.Legal ∧ exCfg10.kind = .mh := by decide
example : exC10.dir = legacyOf 8 exRecs10 [3] [] [5] true := by decide
example : LegacyWF exCfg10 exC10 := wf_of_check (by decide)
example : exC10.spec =
    [([1, 2, 3, 4, 5, 6], [18, 6, 1, 2, 3, 4, 5, 6], [7, 7, 7]), ([1, 2, 3, 4, 5, 7], [18, 6, 1, 2, 3, 4, 5, 7], []),
     ([2, 2, 9, 9, 9, 9], [18, 6, 2, 2, 9, 9, 9, 9], [1, 2]), ([3, 1, 1, 1, 1, 1], [18, 6, 3, 1, 1, 1, 1, 1], [8, 8, 8, 8]),
     ([4, 4, 4, 4, 4, 4], [18, 6, 4, 4, 4, 4, 4, 4], [6, 6])] := by decide
example : (∀ op ∈ exOps10, op.isC02 = true) ∧ KeysOK .mh (exC10.keyOps ++ exOps10) ∧
    exC10.recs.length + exC10.gens.length + 1 + exOps10.length < 1073741824 ∧
    specW exC10.spec + (exOps10.map SOp.bytes).sum < two31 := by
  refine ⟨by decide, ?_, by decide, by decide⟩
  unfold KeysOK; decide

/-- the example evaluated: three primary chunks (41, 42 and 14 bytes: records are not split), the freed
    record marked deleted, index chunks of 70 and 78 bytes and the empty third file, the bucket table;
    every key reads its legacy value after the upgrade and after reopening the upgraded directory, the
    freed key is absent; the first flush changes nothing -/
example : (upgradeStore exCfg10 exC10.dir).map (fun d => d.pfiles.map (·.2.length)) = some [41, 42, 14] := by
  decide +kernel
example : (upgradeStore exCfg10 exC10.dir).map (fun d => d.ifiles.map (·.2.length)) = some [70, 78, 0] := by
  decide +kernel
example : (upgradeStore exCfg10 exC10.dir).map (fun d => (d.ihdr, d.phdr)) =
    some (some ⟨8, 60, 0, 30⟩, some ⟨30, 0⟩) := by decide +kernel
example : (upgradeStore exCfg10 exC10.dir).map (fun d => (d.free, d.freeGc, d.snap.isNone)) =
    some (some [], none, true) := by decide +kernel
example : upgradeStoreFlushed exCfg10 exC10.dir = upgradeStore exCfg10 exC10.dir := by decide +kernel
example : (upgradeOpen exCfg10 exC10.dir []).map (fun dm => dm.2.buckets) =
    some [(1, 30), (2, 64), (3, 90), (4, 116)] := by decide +kernel
example : (upgradeStore exCfg10 exC10.dir).map (fun d => (d.pfiles.get? 1).map (·.take 4)) =
    some (some [9, 0, 0, 128]) := by decide +kernel
example : (upgradeStore exCfg10 exC10.dir).map (fun d =>
      match openStoreR exCfg10 d with
      | (dr, .ok mr) => exRecs10.map fun kv => match (storeGet mr dr kv.1).2 with
        | .found v => some v
        | _ => none
      | _ => []) =
    some [some [7, 7, 7], some [], some [1, 2], none, some [8, 8, 8, 8], some [6, 6], some [6, 6]] := by
  decide +kernel

/-! ### Interrupted upgrades (M4)

`upgradeSteps c L` (Sth/Lemmas/C10Steps.lean) lists the directories an upgrading OpenStore goes through,
one per point where it can be interrupted between two file-system operations (the verifhook points);
`openU c ud` is OpenStore on ANY such directory (legacy files, numbered files, `.tmp` work copies and
`.remapped` markers).  `resumeCheck c L` opens every intermediate directory again and compares with the
uninterrupted upgrade.

The full claim "interrupted at any step, opening again completes it with the same result" is FALSE in
the code (known finding D14), so the general theorem is the partial one below; the windows where it
fails are exhibited on concrete stores by evaluation. -/

/-- C10, resume (partial; the full statement — for EVERY element of `upgradeSteps c C.dir` — is false, see
    the D14 witnesses below).  For every well-formed legacy store, opening again
    (a) after the primary phase (numbered primary files and header written), with the old primary file
        already removed (`dl = none`) or still there (`dl = some _`: interrupted between writing the header
        and removing the file — it then stays forever, `ud'.data = dl`), the old index untouched;
    (b) after the index was chunked and its header written, with the old index file already removed or still
        there (`il`; it is chunked again into the same files);
    ends in the same memory state and the same directory as the uninterrupted upgrade (index files equal
    file by file), and the resumed store refines the same map `C.spec`.
    (c) Once both headers exist and the index header carries the primary file size, OpenStore is the ordinary
        open whatever work files, markers or legacy primary are left (`openU_plain`). -/
theorem C10_upgrade_resume_partial (c : Cfg) (hc : c.Legal) (hk : c.kind = .mh) (C : LegacyC)
    (hwf : LegacyWF c C) (ops : List SOp) (ha : ∀ op ∈ ops, op.isC02 = true)
    (hkeys : KeysOK .mh (C.keyOps ++ ops))
    (hn : C.recs.length + C.gens.length + 1 + ops.length < 1073741824)
    (hB : specW C.spec + (ops.map SOp.bytes).sum < two31)
    (dl il : Option Bytes) (hil : il = none ∨ il = some C.dir.index) :
    ∃ d m, upgradeOpen c C.dir [] = some (d, m) ∧
      ∀ ud, (ud = C.afterPrimary c dl ∨ ud = C.afterIndexChunked c dl il) →
        ∃ d', openU c ud [] [] = some ({ data := dl, disk := d' }, m) ∧
          d' = { d with ifiles := d'.ifiles } ∧ (∀ f, d'.ifiles.get? f = d.ifiles.get? f) ∧
          (runS ⟨c, m, d'⟩ ops).2 = (specRun .mh c.imm C.spec ops).2 := by
  obtain ⟨ifs, files', h1, _, _, x, _⟩ := upgrade_ctx hc hk hwf ops hkeys (by omega) (by omega)
  have hk' : ∀ op ∈ ops, ∀ k, op.keyOf = some k → ∀ dig, keyClass .mh k = .ok dig →
      (k, dig) ∈ digestsOf .mh (C.keyOps ++ ops) :=
    fun op ho k hkey dig hcls => mem_digestsOf (List.mem_append_right _ ho) hkey hcls
  refine ⟨C.diskU c ifs, C.memU c ifs, h1, ?_⟩
  intro ud hud
  have key : ∃ ifs', openU c ud [] [] = some ({ data := dl, disk := C.diskU c ifs' }, C.memU c ifs') ∧
      (∀ f, f ≤ C.lastI c → ifs'.get? f = some (logBytes (C.lgU c f))) ∧
      (∀ f, C.lastI c < f → ifs'.get? f = none) := by
    rcases hud with rfl | rfl
    · exact resume_after_primary hc hk x.hwf x.hn1 x.hn2 dl
    · exact resume_after_index_chunked hc hk x.hwf x.hn1 x.hn2 dl il hil
  obtain ⟨ifs', g1, g2, g3⟩ := key
  have heq := ifs_unique x.hifs x.hno g2 g3
  have x' : Ctx c (digestsOf .mh (C.keyOps ++ ops)) C ifs' :=
    ⟨x.hc, x.hk, x.hU, x.hwf, x.hn1, x.hn2, g2, g3⟩
  refine ⟨C.diskU c ifs', ?_, rfl, heq, ?_⟩
  · rw [g1, memU_congr heq]
  · have := run_U x' ops ha hk' hn hB
    rw [← memU_congr heq]
    exact this

/-- (c) as a property theorem -/
theorem C10_completed_opens_plainly (c : Cfg) (hk : c.kind = .mh) (ud : UDir) (order forder : List Nat)
    (hidx : ud.index = none) (ph : PriHeader) (hph : ud.disk.phdr = some ph)
    (ih : IdxHeader) (hih : ud.disk.ihdr = some ih) (hpfs : ih.pfs ≠ 0) :
    openU c ud order forder =
      match openStoreR c ud.disk with
      | (d', .ok m) => some ({ ud with disk := d' }, m)
      | (_, .error _) => none :=
  openU_plain c hk ud order forder hidx ph hph ih hih hpfs

/-- the intermediate directory tagged `n` -/
def stepNamed (c : Cfg) (L : LegacyDir) (n : String) : Option UDir :=
  ((upgradeSteps c L).find? (·.1 == n)).map (·.2)

/-- the steps where opening again fails or does not end in the store of the uninterrupted upgrade -/
def resumeFailures (c : Cfg) (L : LegacyDir) : List String :=
  ((resumeCheck c L).filter fun r => !(r.2.1 && r.2.2.1)).map (·.1)

/-! On the well-formed example (27 intermediate directories): the directories of the theorem are
    intermediate directories; every step resumes to the same store EXCEPT the window between creating
    the `.remapped` marker of index file 1 and renaming its rewritten copy (D14, first half): the resumed
    open skips the file, stamps the header, and the entries of that file keep their LINEAR offsets — three
    of the five live keys are lost (file 0 is not affected only because its records sit in primary file 0,
    where linear and new offsets coincide). -/

example : (upgradeSteps exCfg10 exC10.dir).length = 27 := by decide +kernel
example : stepNamed exCfg10 exC10.dir "upgrade.primary.header_written" =
    some (exC10.afterPrimary exCfg10 (some (mdata exC10.marked))) := by decide +kernel
example : stepNamed exCfg10 exC10.dir "upgrade.primary.old_removed" = some (exC10.afterPrimary exCfg10 none) := by
  decide +kernel
example : stepNamed exCfg10 exC10.dir "upgrade.index.header_written" =
    some (exC10.afterIndexChunked exCfg10 none (some exC10.dir.index)) := by decide +kernel
example : stepNamed exCfg10 exC10.dir "upgrade.index.old_removed" =
    some (exC10.afterIndexChunked exCfg10 none none) := by decide +kernel
example : (upgradeSteps exCfg10 exC10.dir).getLast?.map (·.2.disk) = upgradeStore exCfg10 exC10.dir := by
  decide +kernel

/-- D14 (marker before rename), witness -/
theorem C10_D14_marker_window :
    resumeFailures exCfg10 exC10.dir = ["remap.marker_created 1"] ∧
    ((stepNamed exCfg10 exC10.dir "remap.marker_created 1").bind fun ud => openU exCfg10 ud [] []).map
      (fun um => exRecs10.map fun kv => match (storeGet um.2 um.1.disk kv.1).2 with
        | .found v => some v
        | _ => none) =
      some [some [7, 7, 7], some [], some [1, 2], none, none, none, none] := by
  refine ⟨by decide +kernel, by decide +kernel⟩

/-- interrupted between writing the primary header and removing the old primary, the resumed open is
    correct but never removes `storethehash.data` (space leak; `leftovers.1`) -/
example : ((resumeCheck exCfg10 exC10.dir).find? (·.1 == "upgrade.primary.header_written")).map
    (fun r => r.2.1 && r.2.2.1 && r.2.2.2.1) = some true := by decide +kernel

/-! A store with an entry whose offset lies outside the legacy primary (record 5, "bad"; not covered by
    `LegacyWF`).  The uninterrupted upgrade rewrites the entry to offset 0 in place and removes it through
    the pool that index.Open flushes before it returns.  Interrupted anywhere between the rename of that
    file and the end of Open (D14, second half), the pool is lost: the resumed open skips the file (or finds
    the header already stamped) and the entry stays, pointing at offset 0 — the first record of the store. -/

def exBadRecs10 : List (Bytes × Bytes) :=
  [([18, 6, 1, 2, 3, 4, 5, 6], [7, 7, 7]), ([18, 6, 1, 2, 3, 4, 5, 7], []), ([18, 6, 2, 2, 9, 9, 9, 9], [1, 2]),
   ([18, 6, 1, 9, 9, 9, 9, 9], [5]), ([18, 6, 3, 1, 1, 1, 1, 1], [8, 8, 8, 8]), ([18, 6, 1, 3, 3, 3, 3, 3], [4]),
   ([18, 6, 4, 4, 4, 4, 4, 4], [6, 6])]
def exBad10 : LegacyDir := legacyOf 8 exBadRecs10 [3] [5] [] true

/-- D14 (removal pool lost), witness -/
theorem C10_D14_pool_lost :
    resumeFailures exCfg10 exBad10 =
      ["remap.marker_created 0", "remap.renamed 0", "remap.copied 1", "remap.rewritten 1",
       "remap.marker_created 1", "remap.renamed 1", "remap.header_written", "remap.markers_removed"] ∧
    -- uninterrupted: the bad entry is gone from the index
    (upgradeOpen exCfg10 exBad10 []).map (fun dm => match idxGet dm.2 dm.1 [1, 3, 3, 3, 3, 3] with
      | .ok r => some r
      | .error _ => none) = some (some none) ∧
    -- interrupted after the rename of file 0: it stays, re-pointed at offset 0
    ((stepNamed exCfg10 exBad10 "remap.renamed 0").bind fun ud => openU exCfg10 ud [] []).map
      (fun um => match idxGet um.2 um.1.disk [1, 3, 3, 3, 3, 3] with
        | .ok r => some r
        | .error _ => none) = some (some (some ⟨0, 9⟩)) := by
  refine ⟨by decide +kernel, by decide +kernel, by decide +kernel⟩

end Sth
