/-
C09 — Reopening with a different index bit size re-buckets the index without changing the contents;
a mismatching index / primary file-size limit is refused with the specific error and leaves the
directory untouched.

Property theorems only (helper lemmas: Sth/Lemmas/C09*.lean on top of the C01/C02 development).  The
theorems are about `openStoreT` of Sth/Model/Translate.lean (OpenStore = freelist repair, primary open,
index open, and `translateIndex` when the index answers "wrong bit size") applied to the directory that
a clean Close (`storeClose`, arbitrary index flush order `ord`) of ANY reachable state leaves — every
legal configuration, every finite sequence of Put / Get / Has / GetSize / Remove / Flush / iteration /
Close+reopen calls satisfying C01's premises — with the bucket snapshot kept (`us = true`: translateIndex
loads the saved table) or dropped (`us = false`: it rescans the old index log).
`C09.closedDisk s ord us` is that directory; `order` is the Go-map order in which the NEW index's pool
is flushed (arbitrary).

Which configurations are accepted (c = the configuration the store was created with, c' = the one it
is reopened with, both legal, same primary kind):
  * c'.pfs ≠ c.pfs (multihash primary)  → refused, `wrongPrimaryFileSize`   (C09_mismatch_refused)
  * c'.ifs ≠ c.ifs                      → refused, `wrongIndexFileSize`, with or without a bit-size
                                           change                             (C09_mismatch_refused)
  * c'.ifs = c.ifs, c'.bits = c.bits    → plain open, nothing translated     (C09_same_bits_no_translation)
  * c'.ifs = c.ifs, c'.bits ≠ c.bits    → translated, contents preserved     (C09_translate_preserves_contents)
  * the non-legal value `ifs = 0` ("not specified") with c'.bits ≠ c.bits is accepted too: the old index
    is read with its own limit and — a quirk of the code the model follows — the NEW index is created
    with the 1 GiB default, not with the old index's limit                   (C09_unspecified_ifs)

KeysOK across bit sizes: the premise on the ORIGINAL digests suffices for every bit size.  A well-formed
key has a digest of at least 4 bytes (`keyClass`), a bit size ≤ 31 strips at most 3 whole bytes
(`stripKey`), so no key is ever "too short" for either index (C09_strip_total), and digests that fall
into one bucket for a bit size share the stripped bytes, so prefix-freeness survives stripping
(`strip_apart`).  No extra hypothesis is needed and none is made.
-/
import Sth.Lemmas.C09

namespace Sth

open C09

/-- C09, refusals.  On the closed directory `d` of any reachable state:
    * the freelist repair of OpenStore is the identity;
    * a configuration whose index file-size limit differs from the one the index was created with is
      refused with `wrongIndexFileSize` — also when the bit size differs as well (translation is NOT
      attempted; this is the case a seeded defect broke in the Go code) — and the directory returned is
      `d` itself, no key is translated;
    * (multihash primary) a configuration whose primary file-size limit differs is refused with
      `wrongPrimaryFileSize`, whatever its bit size and index limit are, directory untouched.
    Which limits are accepted: `c'.ifs` must be the limit in the index header (`c.ifs`); `c'.pfs` must
    be the limit in the primary header (`c.pfs`) for the multihash primary and is ignored by the CID
    primary.  (The model also accepts the non-legal value 0 = "not specified" for either limit.) -/
theorem C09_mismatch_refused (c : Cfg) (hc : c.Legal) (ops : List SOp)
    (ha : ∀ op ∈ ops, op.isC02 = true) (hk : KeysOK c.kind ops) (hs : SizesOK ops) (s0 : SState)
    (hi : initS c = some s0) (ord : List Nat) (us : Bool) :
    ∃ d, closedDisk (runS s0 ops).1 ord us = some d ∧ openFreelist d = d ∧
      (∀ (c' : Cfg) (order : List Nat), c'.Legal → c'.kind = c.kind →
        (c.kind = .mh → c'.pfs = c.pfs) → c'.ifs ≠ c.ifs →
        openStoreT c' d order = (d, .error .wrongIndexFileSize, [])) ∧
      (∀ (c' : Cfg) (order : List Nat), c'.Legal → c'.kind = c.kind → c.kind = .mh →
        c'.pfs ≠ c.pfs →
        openStoreT c' d order = (d, .error .wrongPrimaryFileSize, [])) := by
  obtain ⟨_, hI, hX⟩ := store_refines_map_c02 c hc ops ha hk hs s0 hi
  have hU := univ_of_keysOK hk (keysExact_all c.kind ops)
  have hD := reach_shape c hc ops ha hk hs s0 hi
  obtain ⟨m2, d2, d, h1, hC, _⟩ := closed_of_reach hU hI hX hD (by have := hs.1; omega)
    (by have := hs.2.1; omega) ord us
  refine ⟨d, h1, openFreelist_id hC.shape, ?_, ?_⟩
  · intro c' order hc' hkind hp hne
    exact hC.refuse_ifs hc' hkind hp hne order
  · intro c' order hc' hkind hmh hne
    exact hC.refuse_pfs hkind hmh hc'.2.2.2.2.1 hc'.2.2.2.2.2 hne order

/-- C09, unchanged bit size.  Reopening the closed directory of a reachable state with the same
    configuration through `openStoreT` does not translate: it returns no translated keys and exactly the
    state of the machine's reopen step (`openStore`), whose contents C02 shows unchanged; and for any
    configuration with the header's bit size `openStoreT` is `openStore`. -/
theorem C09_same_bits_no_translation (c : Cfg) (hc : c.Legal) (ops : List SOp)
    (ha : ∀ op ∈ ops, op.isC02 = true) (hk : KeysOK c.kind ops) (hs : SizesOK ops) (s0 : SState)
    (hi : initS c = some s0) (ord order : List Nat) (us : Bool) :
    ∃ d m' d', closedDisk (runS s0 ops).1 ord us = some d ∧
      openStoreT c d order = (d', .ok m', []) ∧
      stepS (runS s0 ops).1 (.reopen ord us) = (⟨c, m', d'⟩, .gc) ∧
      ∀ (c' : Cfg) (order' : List Nat), c'.bits = c.bits →
        openStoreT c' d order' = ((openStore c' d).1, (openStore c' d).2, []) := by
  obtain ⟨_, hI, hX⟩ := store_refines_map_c02 c hc ops ha hk hs s0 hi
  have hU := univ_of_keysOK hk (keysExact_all c.kind ops)
  have hD := reach_shape c hc ops ha hk hs s0 hi
  have hn : 0 + ops.length < 1073741824 := by have := hs.1; omega
  have hB : 0 + (ops.map SOp.bytes).sum < two31 := by have := hs.2.1; omega
  obtain ⟨d, m', d', h1, h2, h3⟩ := reopen_same hc hU hI hX hD hn hB ord order us
  obtain ⟨m2, d2, d0, g1, hC, _⟩ := closed_of_reach hU hI hX hD hn hB ord us
  rw [h1] at g1
  cases g1
  exact ⟨d, m', d', h1, h2, h3, fun c' order' hb => hC.same_bits hb order'⟩

/-- C09, main theorem.  Let `ops` be any run from a fresh store with the legal configuration `c`, and
    `c'` a legal configuration with the same primary and the same file-size limits but ANOTHER bit size
    (`imm` arbitrary).  Closing (flush order `ord`, snapshot kept or dropped) and OpenStore with `c'`
    (new pool flushed in the arbitrary order `order`) succeeds with some memory state `m'` and directory
    `d'`, and the reopened store refines the SAME map: every later run `ops2` (with reopens, flushes,
    iteration, …) returns exactly what it returns on the in-memory map that `ops` left — every key readable
    before is readable after with the same value, absent keys stay absent, malformed keys get the same
    error, and later calls behave as on a store created with the new bit size.  The primary files, the
    freelist and the primary header are untouched; the index header now records the new bit size. -/
theorem C09_translate_preserves_contents (c : Cfg) (hc : c.Legal) (c' : Cfg) (hc' : c'.Legal)
    (hkind : c'.kind = c.kind) (hifs : c'.ifs = c.ifs) (hpfs : c.kind = .mh → c'.pfs = c.pfs)
    (hbits : c'.bits ≠ c.bits)
    (ops ops2 : List SOp) (ha : ∀ op ∈ ops, op.isC02 = true) (ha2 : ∀ op ∈ ops2, op.isC02 = true)
    (hk : KeysOK c.kind (ops ++ ops2)) (hs : SizesOK (ops ++ ops2)) (s0 : SState)
    (hi : initS c = some s0) (ord order : List Nat) (us : Bool) :
    ∃ d m' d' keys, closedDisk (runS s0 ops).1 ord us = some d ∧
      openStoreT c' d order = (d', .ok m', keys) ∧
      (runS ⟨c', m', d'⟩ ops2).2 =
        (specRun c.kind c'.imm (specRun c.kind c.imm [] ops).1 ops2).2 ∧
      d'.pfiles = d.pfiles ∧ d'.cidfile = d.cidfile ∧ d'.free = d.free ∧ d'.phdr = d.phdr ∧
      d'.ihdr = some ⟨c'.bits, c'.ifs, 0, hdrPfs c'⟩ :=
  translate_refines c hc c' hc' hkind hifs hpfs hbits ops ops2 ha ha2 hk hs s0 hi ord order us

/-- C09, per key: for EVERY key `k` (well-formed or not; if well-formed, compatible with the keys of
    `ops` in the sense of C01's premise) Get, Has and GetSize answer after the translation exactly what
    they answered on the state before the Close. -/
theorem C09_reads_preserved (c : Cfg) (hc : c.Legal) (c' : Cfg) (hc' : c'.Legal)
    (hkind : c'.kind = c.kind) (hifs : c'.ifs = c.ifs) (hpfs : c.kind = .mh → c'.pfs = c.pfs)
    (hbits : c'.bits ≠ c.bits) (ops : List SOp) (ha : ∀ op ∈ ops, op.isC02 = true) (k : Bytes)
    (hk : KeysOK c.kind (ops ++ [.get k, .has k, .size k]))
    (hs : SizesOK (ops ++ [.get k, .has k, .size k])) (s0 : SState)
    (hi : initS c = some s0) (ord order : List Nat) (us : Bool) :
    ∃ d m' d' keys, closedDisk (runS s0 ops).1 ord us = some d ∧
      openStoreT c' d order = (d', .ok m', keys) ∧
      (runS ⟨c', m', d'⟩ [.get k, .has k, .size k]).2 =
        (runS (runS s0 ops).1 [.get k, .has k, .size k]).2 :=
  translate_reads c hc c' hc' hkind hifs hpfs hbits ops ha k hk hs s0 hi ord order us

/-- C09, index file-size limit not specified (`ifs = 0`, not a legal configuration of the machine but
    accepted by OpenStore): with another bit size the translation goes through as well, the old index is
    read with its own limit `c.ifs`, and the NEW index is created with the 1 GiB default — the reopened
    store refines the same map and behaves as one created with `{ c' with ifs := defaultMax }`. -/
theorem C09_unspecified_ifs (c : Cfg) (hc : c.Legal) (c' : Cfg) (hc' : c'.Legal)
    (hkind : c'.kind = c.kind) (hifs : c'.ifs = defaultMax) (hpfs : c.kind = .mh → c'.pfs = c.pfs)
    (hbits : c'.bits ≠ c.bits)
    (ops ops2 : List SOp) (ha : ∀ op ∈ ops, op.isC02 = true) (ha2 : ∀ op ∈ ops2, op.isC02 = true)
    (hk : KeysOK c.kind (ops ++ ops2)) (hs : SizesOK (ops ++ ops2)) (s0 : SState)
    (hi : initS c = some s0) (ord order : List Nat) (us : Bool) :
    ∃ d m' d' keys, closedDisk (runS s0 ops).1 ord us = some d ∧
      openStoreT { c' with ifs := 0 } d order = (d', .ok m', keys) ∧
      (runS ⟨c', m', d'⟩ ops2).2 =
        (specRun c.kind c'.imm (specRun c.kind c.imm [] ops).1 ops2).2 ∧
      d'.ihdr = some ⟨c'.bits, defaultMax, 0, hdrPfs c'⟩ := by
  obtain ⟨d, m', d', keys, h1, h2, h3, _, _, _, _, h8⟩ :=
    translate_refines_arg c hc c' hc' hkind (Or.inl ⟨rfl, hifs⟩) hpfs hbits ops ops2 ha ha2 hk hs s0 hi
      ord order us
  rw [hifs] at h8
  exact ⟨d, m', d', keys, h1, h2, h3, h8⟩

/-- no well-formed key is too short for any bit size: stripping the bucket prefix always succeeds and
    leaves a non-empty key, so KeysOK on the original digests is all either index needs -/
theorem C09_strip_total (kind : PKind) (k dig : Bytes) (bits : Nat) (h31 : bits ≤ 31)
    (h : keyClass kind k = .ok dig) :
    (∃ b, bucketOfKey bits dig = some b) ∧ stripKey bits dig = some (dig.drop (bits / 8)) ∧
      dig.drop (bits / 8) ≠ [] := by
  obtain ⟨b, hb⟩ := bucketOfKey_isSome (bits := bits) (keyClass_ok h).2
  have := stripKey_of_bucket bits h31 dig b hb
  exact ⟨⟨b, hb⟩, this.1, this.2.1⟩

/-! Non-vacuity and concrete translations.  1-byte index files (every bucket record starts a new file),
    five keys of which four share the 8-bit bucket 1 and three share leading digest bytes (they spread
    over the 16-bit buckets 513, 769 and 770), an empty value, an overwrite, a removal, a flush in the
    middle; translated 8 → 16 and 16 → 8 bits, with the snapshot and by rescan. -/

def exCfg09a : Cfg := { kind := .mh, bits := 8, ifs := 1, pfs := 64, imm := false }
def exCfg09b : Cfg := { kind := .mh, bits := 16, ifs := 1, pfs := 64, imm := true }
def exOps09 : List SOp :=
  [.put [18, 6, 1, 2, 3, 4, 5, 6] [7], .put [18, 6, 1, 2, 3, 4, 5, 7] [], .flush [1],
   .put [18, 6, 1, 2, 9, 9, 9, 9] [1], .put [18, 6, 1, 3, 9, 9, 9, 9] [2], .put [18, 5, 2, 3, 9, 9, 9] [3],
   .rm [18, 6, 1, 2, 3, 4, 5, 7], .put [18, 6, 1, 2, 3, 4, 5, 6] [8, 9]]
def exOps09' : List SOp :=
  [.get [18, 6, 1, 2, 3, 4, 5, 6], .get [18, 6, 1, 2, 3, 4, 5, 7], .size [18, 6, 1, 2, 9, 9, 9, 9],
   .has [18, 6, 1, 3, 9, 9, 9, 9], .put [18, 5, 2, 3, 9, 9, 9] [4], .put [18, 6, 1, 2, 3, 4, 5, 7] [5],
   .reopen [] false, .iter []]

example : exCfg09a.Legal ∧ exCfg09b.Legal ∧ exCfg09b.kind = exCfg09a.kind ∧ exCfg09b.ifs = exCfg09a.ifs ∧
    exCfg09b.pfs = exCfg09a.pfs ∧ exCfg09b.bits ≠ exCfg09a.bits := by decide
example : (∀ op ∈ exOps09, op.isC02 = true) ∧ (∀ op ∈ exOps09', op.isC02 = true) ∧
    KeysOK exCfg09a.kind (exOps09 ++ exOps09') ∧ SizesOK (exOps09 ++ exOps09') := by
  refine ⟨by decide, by decide, ?_, ?_⟩
  · unfold KeysOK; decide
  · unfold SizesOK; decide

/-- run `ops` with `c`, close, reopen with `c'`, run `ops2`: the outputs of `ops2`, the buckets the
    translation wrote, and the number of index files right after the open -/
def exTranslate (c c' : Cfg) (ops ops2 : List SOp) (us : Bool) (order : List Nat) :
    Option (List SOut × List Nat × Nat) :=
  match initS c with
  | none => none
  | some s0 =>
    match closedDisk (runS s0 ops).1 [] us with
    | none => none
    | some d =>
      match openStoreT c' d order with
      | (d', .ok m', keys) => some ((runS ⟨c', m', d'⟩ ops2).2, keys, d'.ifiles.length)
      | _ => none

/-- 8 → 16 bits (immutable afterwards: the second put of an existing key is refused), with the snapshot
    and by rescan, two flush orders of the new pool: three new buckets, contents as on the map -/
example : ∀ us ∈ [true, false], ∀ order ∈ [[], [770, 513, 769]],
    exTranslate exCfg09a exCfg09b exOps09 exOps09' us order =
      some ([.found [8, 9], .absent, .sizeOf 1, .bool true, .err .keyExists, .ok, .gc,
        .items [([18, 5, 2, 3, 9, 9, 9], [3]), ([18, 6, 1, 2, 3, 4, 5, 6], [8, 9]),
          ([18, 6, 1, 2, 3, 4, 5, 7], [5]), ([18, 6, 1, 2, 9, 9, 9, 9], [1]),
          ([18, 6, 1, 3, 9, 9, 9, 9], [2])]], [513, 769, 770], 3) := by decide

/-- the map's answers for the same calls -/
example : (specRun exCfg09a.kind exCfg09b.imm (specRun exCfg09a.kind exCfg09a.imm [] exOps09).1 exOps09').2 =
    [.found [8, 9], .absent, .sizeOf 1, .bool true, .err .keyExists, .ok, .gc,
      .items [([18, 5, 2, 3, 9, 9, 9], [3]), ([18, 6, 1, 2, 3, 4, 5, 6], [8, 9]),
        ([18, 6, 1, 2, 3, 4, 5, 7], [5]), ([18, 6, 1, 2, 9, 9, 9, 9], [1]),
        ([18, 6, 1, 3, 9, 9, 9, 9], [2])]] := by decide

/-- 16 → 8 bits (mutable afterwards: the overwrite goes through): the three 16-bit buckets merge into
    the 8-bit buckets 1 and 2 -/
example : ∀ us ∈ [true, false],
    exTranslate { exCfg09b with imm := false } exCfg09a exOps09 exOps09' us [] =
      some ([.found [8, 9], .absent, .sizeOf 1, .bool true, .ok, .ok, .gc,
        .items [([18, 5, 2, 3, 9, 9, 9], [4]), ([18, 6, 1, 2, 3, 4, 5, 6], [8, 9]),
          ([18, 6, 1, 2, 3, 4, 5, 7], [5]), ([18, 6, 1, 2, 9, 9, 9, 9], [1]),
          ([18, 6, 1, 3, 9, 9, 9, 9], [2])]], [1, 2], 2) := by decide

/-- what a refused open returns, on the same run: error and whether the directory is unchanged -/
def exRefuse (c c' : Cfg) (ops : List SOp) (us : Bool) : Option (Option OpenErr × Bool × List Nat) :=
  match initS c with
  | none => none
  | some s0 =>
    match closedDisk (runS s0 ops).1 [] us with
    | none => none
    | some d =>
      match openStoreT c' d [] with
      | (d', .ok _, keys) => some (none, decide (d' = d), keys)
      | (d', .error e, keys) => some (some e, decide (d' = d), keys)

/-- other index limit with the same bit size; other index limit AND other bit size (the case the seeded
    defect broke: no translation is attempted); other primary limit: refused, directory untouched; same bit
    size and limits (only `imm` differs): opens, nothing translated -/
example : ∀ us ∈ [true, false],
    exRefuse exCfg09a { exCfg09a with ifs := 2 } exOps09 us = some (some .wrongIndexFileSize, true, []) ∧
    exRefuse exCfg09a { exCfg09b with ifs := 2 } exOps09 us = some (some .wrongIndexFileSize, true, []) ∧
    exRefuse exCfg09a { exCfg09b with pfs := 65 } exOps09 us = some (some .wrongPrimaryFileSize, true, []) ∧
    (exRefuse exCfg09a { exCfg09a with imm := true } exOps09 us).map (fun r => (r.1, r.2.2)) =
      some (none, []) := by decide

/-! The CID primary (12 → 24 bits; the primary file-size limit is ignored by this primary, so it may
    differ), CIDv1 and CIDv0-shaped keys, a reopen inside the first run, a malformed key afterwards. -/

def exCfg09c : Cfg := { kind := .cid, bits := 12, ifs := 40, pfs := 1, imm := false }
def exCfg09d : Cfg := { kind := .cid, bits := 24, ifs := 40, pfs := 7, imm := false }
def exOps09c : List SOp :=
  [.put [1, 85, 18, 6, 1, 2, 3, 4, 5, 6] [7], .put [1, 85, 18, 6, 1, 2, 3, 4, 5, 7] [], .reopen [] true,
   .put [1, 85, 18, 6, 1, 2, 3, 4, 5, 6] [8, 9], .rm [1, 85, 18, 6, 1, 2, 3, 4, 5, 7],
   .put (18 :: 32 :: List.replicate 32 5) [3], .put [1, 85, 18, 6, 1, 2, 4, 4, 5, 7] [6]]
def exOps09c' : List SOp :=
  [.get [1, 85, 18, 6, 1, 2, 3, 4, 5, 6], .get (18 :: 32 :: List.replicate 32 5),
   .get [1, 85, 18, 6, 1, 2, 3, 4, 5, 7], .get [1, 2], .iter []]

example : exCfg09c.Legal ∧ exCfg09d.Legal ∧ (∀ op ∈ exOps09c, op.isC02 = true) ∧
    (∀ op ∈ exOps09c', op.isC02 = true) ∧ KeysOK exCfg09c.kind (exOps09c ++ exOps09c') ∧
    SizesOK (exOps09c ++ exOps09c') := by
  refine ⟨by decide, by decide, by decide, by decide, ?_, ?_⟩
  · unfold KeysOK; decide
  · unfold SizesOK; decide

example : ∀ us ∈ [true, false],
    exTranslate exCfg09c exCfg09d exOps09c exOps09c' us [] =
      some ([.found [8, 9], .found [3], .absent, .err .badKey,
        .items [([1, 85, 18, 6, 1, 2, 3, 4, 5, 6], [8, 9]), ([1, 85, 18, 6, 1, 2, 4, 4, 5, 7], [6]),
          (18 :: 32 :: List.replicate 32 5, [3])]], [197121, 262657, 328965], 2) := by decide

/-- the index header after a translation: with the limit given it is kept; with the limit not specified
    (`ifs = 0`) the new index gets the 1 GiB default although the old index had a 1-byte limit -/
def exHdr (c c' : Cfg) (ops : List SOp) : Option (Option IdxHeader) :=
  match initS c with
  | none => none
  | some s0 =>
    match closedDisk (runS s0 ops).1 [] true with
    | none => none
    | some d => some (openStoreT c' d []).1.ihdr

example : exHdr exCfg09a exCfg09b exOps09 = some (some ⟨16, 1, 0, 64⟩) ∧
    exHdr exCfg09a { exCfg09b with ifs := 0 } exOps09 = some (some ⟨16, 1073741824, 0, 64⟩) := by decide

end Sth
