/-
C05 — Concurrent calls are linearizable and keys do not interfere (section-level model).

"Concurrent calls are linearizable and keys do not interfere: every concurrent history of
Put/Get/Has/GetSize/Remove is equivalent to some sequential order consistent with real time; a lookup that
starts after a Put of its key returned sees that value or a later one; an operation on one key never changes or
hides another key, even when both live in the same bucket and share stored prefix bytes."

Property theorems only (definitions and lemmas: Sth/Lemmas/C05.lean, C05Lin.lean, C05FL.lean, C05Own.lean).
The theorems are about the section-level model Sth/Model/Conc.lean: `Conc.step s i` runs the next LOCK SECTION of
thread `i`; `Conc.run s sched` runs a schedule (a list of thread numbers).  They hold for EVERY initial contents,
EVERY list of programs, both modes (`imm`) and EVERY schedule satisfying the stated premise.

  `Init s0`            the initial state: index well-formed over the primary (`WF`: every entry names a position of
                       the primary holding that key, at most one entry per key), all threads idle, nothing returned.
                       `Conc.init imm progs` is one (`init_Init`); any pre-filled store is another.
  `NoOverlap s`        no two distinct threads are in the middle of a mutator (Put/Remove, from its lookup to its
                       return) of the same key.  `NoOverlapAlong s0 sched` : every state along the run satisfies it
                       (decidable; `noOverlapRun` is the Bool; `noOverlapAlong_iff` : = every prefix of the schedule).
  `OwnedKeys progs`    each key is mutated by at most one thread's program: a property of the PROGRAMS that implies
                       `NoOverlapAlong` for EVERY schedule (`owned_noOverlapAlong`).
  `runL s0 sched`      the run instrumented with the ghost linearization log `List (thread × Op × Res)`;
                       `(runL s0 sched).1 = run s0 sched` (`runL_fst`).  A call is appended by the section that is
                       its linearization point, `linPoint s i = (threads[i]).bind (linOf s)`, with a result that is
                       a function of the state at that point only:
                         Put     : the index section (putStored → …); an early return (ErrKeyExists / same value):
                                   the lookup section;
                         Remove  : the Index.Remove section; the lookup when the key is absent;
                         Get/Has/GetSize : the lookup section.
  `specStep imm m op`  the sequential map specification (Put on a present key in immutable mode = keyExists, same
                       value = ok without change); `specRun` runs it over a list of calls.
  `logOf i log`        the entries of thread `i`, in order, as (Op × Res).

STATUS.  All statements proved in full; the negative witnesses (D17: overlapping mutators of one key) are
evaluated on the model by `decide`.  Only (1a), (2) and (4) need the no-overlap premise; (1b), (1c), (3) and the
well-formedness invariant hold for every schedule.  (4) is proved in both directions: nothing current is recorded
and nothing is recorded twice (`C05_freelist_exactly_once`), and nothing is leaked (`C05_no_leak`,
`C05_quiescent_exactly_once`); the witnesses (4)/(5ii) show a double record and a leak under overlap.
-/
import Sth.Lemmas.C05Own

namespace Sth
open Conc

/-! ### (0) the well-formedness invariant, for every schedule -/

/-- every index entry names a position of the primary holding that key and there is at most one entry per key,
    in every state of every schedule (no premise on overlap) -/
theorem C05_wf_invariant (s0 : State) (h0 : Init s0) (sched : List Nat) : WF (run s0 sched) :=
  (inv0_run h0.inv0 sched).wf

/-! ### (1) linearizability -/

/-- C05 (1).  For every initial state, every programs and EVERY schedule without overlapping mutators of one key:
    (a) the ghost log is a legal sequential history of the map specification started from the initial contents:
        it yields exactly the logged results, and ends in the contents of the final state;
    (b) the log restricted to thread `i` lists the calls of thread `i`'s program, in program order
        (`= t0.prog.take …`); what remains to run is the program minus the returned calls; and a call's entry is
        in the log no earlier than the call's invocation and no later than its return
        (`#returned ≤ #logged ≤ #returned + [a call is running]`; the statement holds for every prefix of the
        schedule, because a prefix of a schedule without overlap is one) — the entry is appended by a section of the
        call itself (`C05_entry_during_call`);
    (c) the results the calls RETURNED (`out`) are their results in the log. -/
theorem C05_linearizable (s0 : State) (h0 : Init s0) (sched : List Nat) (hno : NoOverlapAlong s0 sched) :
    specRun s0.imm (contents s0) ((runL s0 sched).2.map (·.2.1)) =
        (contents (run s0 sched), (runL s0 sched).2.map (·.2.2)) ∧
    ∀ (i : Nat) (t : Thread), (run s0 sched).threads[i]? = some t →
      ∃ t0, s0.threads[i]? = some t0 ∧
        (logOf i (runL s0 sched).2).map (·.1) = t0.prog.take (logOf i (runL s0 sched).2).length ∧
        t.prog = t0.prog.drop t.out.length ∧
        t.out.length ≤ (logOf i (runL s0 sched).2).length ∧
        (logOf i (runL s0 sched).2).length ≤ t.out.length + (if t.pc = .idle then 0 else 1) ∧
        t.out = ((logOf i (runL s0 sched).2).map (·.2)).take t.out.length ∧
        (t.pc = .idle → t.out = (logOf i (runL s0 sched).2).map (·.2)) := by
  have hg := good_runLFrom h0.good sched hno
  have hfst : (runLFrom (s0, []) sched).1 = run s0 sched := runLFrom_fst _ _
  have hpi := progInv_run h0.progInv sched
  refine ⟨?_, ?_⟩
  · have := hg.spec
    rw [hfst, run_imm] at this
    exact this
  · intro i t ht
    obtain ⟨p, hp, h1, h2, h3, h4, h5⟩ := hg.lin.facts (i := i) (t := t) (by rw [hfst]; exact ht)
    obtain ⟨p', hp', hd⟩ := hpi.2 i t ht
    rw [hp] at hp'; cases hp'
    simp only [List.getElem?_map, Option.map_eq_some_iff] at hp
    obtain ⟨t0, ht0, rfl⟩ := hp
    exact ⟨t0, ht0, h1, hd, h2, h3, h4, h5⟩

/-- parts (b) and (c) need no premise on the schedule: the log is a faithful record of the calls and of the
    results they return along EVERY schedule (what overlap breaks is (a), the legality of the history) -/
theorem C05_log_faithful (s0 : State) (h0 : Init s0) (sched : List Nat) :
    ∀ (i : Nat) (t : Thread), (run s0 sched).threads[i]? = some t →
      ∃ t0, s0.threads[i]? = some t0 ∧
        (logOf i (runL s0 sched).2).map (·.1) = t0.prog.take (logOf i (runL s0 sched).2).length ∧
        t.prog = t0.prog.drop t.out.length ∧
        t.out.length ≤ (logOf i (runL s0 sched).2).length ∧
        (logOf i (runL s0 sched).2).length ≤ t.out.length + (if t.pc = .idle then 0 else 1) ∧
        t.out = ((logOf i (runL s0 sched).2).map (·.2)).take t.out.length ∧
        (t.pc = .idle → t.out = (logOf i (runL s0 sched).2).map (·.2)) := by
  intro i t ht
  obtain ⟨p, hp, h1, h2, h3, h4, h5⟩ := (lin_runL h0 sched).facts ht
  obtain ⟨p', hp', hd⟩ := (progInv_run h0.progInv sched).2 i t ht
  rw [hp] at hp'; cases hp'
  simp only [List.getElem?_map, Option.map_eq_some_iff] at hp
  obtain ⟨t0, ht0, rfl⟩ := hp
  exact ⟨t0, ht0, h1, hd, h2, h3, h4, h5⟩

/-- (1b) an entry `(j, op, r)` is appended only by a section of thread `j` itself, taken while `op` is the call
    thread `j` is running (the head of its remaining program: invoked by this section or earlier, not returned
    before it) -/
theorem C05_entry_during_call (s0 : State) (h0 : Init s0) (sched : List Nat) (i j : Nat) (op : Op) (r : Res)
    (h : (j, op, r) ∈ linEntry (run s0 sched) i) :
    j = i ∧ ∃ t, (run s0 sched).threads[i]? = some t ∧ t.prog.head? = some op :=
  linEntry_own (inv0_run h0.inv0 sched) h

/-- (1b) REAL-TIME ORDER.  If after the prefix `p1` of the schedule call number `n` of thread `i` has returned and
    call number `m` of thread `j` has not been invoked yet, then in the log of the whole schedule `p1 ++ p2` the
    entry of the first call precedes the entry of the second: the log splits as `a ++ b` with the first entry in `a`
    (`n < #entries of i in a`) and the second not in `a` (`#entries of j in a ≤ m`). -/
theorem C05_real_time (s0 : State) (h0 : Init s0) (p1 p2 : List Nat) (i j n m : Nat) (ti tj : Thread)
    (hti : (run s0 p1).threads[i]? = some ti) (htj : (run s0 p1).threads[j]? = some tj)
    (hA : n < ti.out.length) (hB : tj.out.length + (if tj.pc = .idle then 0 else 1) ≤ m) :
    ∃ b, (runL s0 (p1 ++ p2)).2 = (runL s0 p1).2 ++ b ∧
      n < (logOf i (runL s0 p1).2).length ∧ (logOf j (runL s0 p1).2).length ≤ m :=
  real_time h0 p1 p2 hti htj hA hB

/-- owned keys (each key is mutated by at most one thread's program) exclude overlap under EVERY schedule -/
theorem C05_owned_keys_no_overlap (s0 : State) (h0 : Init s0) (ho : OwnedKeys (s0.threads.map (·.prog)))
    (sched : List Nat) : NoOverlapAlong s0 sched := owned_noOverlapAlong h0 ho sched

/-- C05 (1) for programs with owned keys: EVERY schedule is linearizable -/
theorem C05_linearizable_owned (s0 : State) (h0 : Init s0) (ho : OwnedKeys (s0.threads.map (·.prog)))
    (sched : List Nat) :
    specRun s0.imm (contents s0) ((runL s0 sched).2.map (·.2.1)) =
        (contents (run s0 sched), (runL s0 sched).2.map (·.2.2)) ∧
    ∀ (i : Nat) (t : Thread), (run s0 sched).threads[i]? = some t →
      ∃ t0, s0.threads[i]? = some t0 ∧
        (logOf i (runL s0 sched).2).map (·.1) = t0.prog.take (logOf i (runL s0 sched).2).length ∧
        t.prog = t0.prog.drop t.out.length ∧
        t.out.length ≤ (logOf i (runL s0 sched).2).length ∧
        (logOf i (runL s0 sched).2).length ≤ t.out.length + (if t.pc = .idle then 0 else 1) ∧
        t.out = ((logOf i (runL s0 sched).2).map (·.2)).take t.out.length ∧
        (t.pc = .idle → t.out = (logOf i (runL s0 sched).2).map (·.2)) :=
  C05_linearizable s0 h0 sched (owned_noOverlapAlong h0 ho sched)

/-! ### (2) read your writes -/

/-- C05 (2), on the model: from a reachable state without overlap, the index section of a Put(k,v) is the
    linearization point of the call with result `ok`, and after it `contents _ k = some v` -/
theorem C05_put_index_publishes (s0 : State) (h0 : Init s0) (a : List Nat) (hno : NoOverlapAlong s0 a)
    (i : Nat) (t : Thread) (k : Key) (v : Val) (prev : Option Nat) (loc : Nat)
    (ht : (run s0 a).threads[i]? = some t) (hpc : t.pc = .putStored k v prev loc) :
    contents (run s0 (a ++ [i])) k = some v ∧ linPoint (run s0 a) i = some (.put k v, .ok) := by
  obtain ⟨hI, hA⟩ := reach_inv h0 a hno
  obtain ⟨s', hs'⟩ := step_putStored_isSome ht hpc
  have := put_index_publishes hI hA ht hpc hs'
  rw [run_append, run_cons, run_nil]
  simpa [stepD, hs'] using this

/-- C05 (2), end to end.  Schedule `a` (no overlap) brings thread `i` to the index section of its Put(k,v); it runs
    it; schedule `b` contains no index section on `k` (no mutator of `k` takes effect after the Put); thread `j`,
    idle, then starts Get(k); `c` is ANY continuation.  Then `k ↦ v` when the Get starts, and thread `j` either
    still waits to read a location holding `v` (`GetSees`, first case) or its Get has returned `found v`:
    its results are `tj.out ++ found v :: more`. -/
theorem C05_read_your_writes (s0 : State) (h0 : Init s0) (a b c : List Nat) (i j : Nat)
    (hno : NoOverlapAlong s0 a) (k : Key) (v : Val) (prev : Option Nat) (loc : Nat) (rest : List Op)
    (ti : Thread) (hti : (run s0 a).threads[i]? = some ti) (hpc : ti.pc = .putStored k v prev loc)
    (hb : NoIndexSectionOn k (stepD (run s0 a) i) b)
    (tj : Thread) (htj : (run s0 (a ++ i :: b)).threads[j]? = some tj) (hidle : tj.pc = .idle)
    (hprog : tj.prog = .get k :: rest) :
    contents (run s0 (a ++ i :: b)) k = some v ∧
    ∃ t, (run s0 (a ++ i :: b ++ j :: c)).threads[j]? = some t ∧
      ((∃ loc', t.pc = .readLooked (.get k) loc' ∧ t.out = tj.out ∧
          readRes (run s0 (a ++ i :: b ++ j :: c)).pri (.get k) loc' = .found v) ∨
       (∃ more, t.out = tj.out ++ .found v :: more)) := by
  obtain ⟨h1, t, ht, hc⟩ := read_your_writes h0 a b c i j hno hti hpc hb htj hidle hprog
  refine ⟨h1, t, ht, ?_⟩
  rcases hc with ⟨loc', h2, h3, _, h5⟩ | hm
  · exact Or.inl ⟨loc', h2, h3, h5⟩
  · exact Or.inr hm

/-- C05 (2): the lookup section of a Get(k) taken where `contents _ k = some v` linearizes the call with result
    `found v` (so by (1c) that is what it returns) -/
theorem C05_get_sees_contents (s0 : State) (h0 : Init s0) (sched : List Nat) (j : Nat) (t : Thread) (k : Key)
    (v : Val) (rest : List Op) (ht : (run s0 sched).threads[j]? = some t) (hpc : t.pc = .idle)
    (hp : t.prog = .get k :: rest) (hc : contents (run s0 sched) k = some v) :
    linPoint (run s0 sched) j = some (.get k, .found v) :=
  (get_lookup (inv0_run h0.inv0 sched) ht hpc hp hc).1

/-! ### (3) keys do not interfere -/

/-- C05 (3) FRAME, unconditional: in every state of every schedule, a section of a call on key `k` leaves the
    value of every other key `k'` unchanged (it neither changes nor hides it) — whatever the other threads are
    doing, overlap included.  `curKey t` is the key of the call thread `t` is running (or about to start);
    in reachable states it is the key of the head of the thread's program. -/
theorem C05_keys_do_not_interfere (s0 : State) (h0 : Init s0) (sched : List Nat) (i : Nat) (t : Thread)
    (s' : State) (ht : (run s0 sched).threads[i]? = some t) (hstep : step (run s0 sched) i = some s')
    (k k' : Key) (hk : curKey t = some k) (hne : k' ≠ k) :
    contents s' k' = contents (run s0 sched) k' ∧ curKey t = t.prog.head?.map Op.key := by
  obtain ⟨t1, ht1, hsec⟩ := step_sec hstep
  rw [ht] at ht1; cases ht1
  have hI := inv0_run h0.inv0 sched
  exact ⟨frame_sec hI.wf hsec hk hne, curKey_eq_head (hI.thr i t ht)⟩

/-- the frame on an arbitrary well-formed state (no reachability needed) -/
theorem C05_frame_step (s s' : State) (hwf : WF s) (i : Nat) (t : Thread) (ht : s.threads[i]? = some t)
    (hstep : step s i = some s') (k k' : Key) (hk : curKey t = some k) (hne : k' ≠ k) :
    contents s' k' = contents s k' := by
  obtain ⟨t1, ht1, hsec⟩ := step_sec hstep
  rw [ht] at ht1; cases ht1
  exact frame_sec hwf hsec hk hne

/-! ### (4) the freelist (C13 at this level) -/

/-- C05 (4).  Started from a freelist without duplicates that names no current location (`InitFL`; the empty
    freelist is one), along EVERY schedule without overlap the freelist has no duplicates and no location on it is
    current. -/
theorem C05_freelist_exactly_once (s0 : State) (h0 : Init s0) (hfl : InitFL s0) (sched : List Nat)
    (hno : NoOverlapAlong s0 sched) :
    (run s0 sched).fl.Nodup ∧
      ∀ k loc, lookup (run s0 sched).idx k = some loc → loc ∉ (run s0 sched).fl := by
  obtain ⟨_, _, hf⟩ := flInv_run h0.inv0 h0.acc (hfl.flInv h0) sched hno
  exact ⟨hf.nodup, fun k loc hl hm => hf.notCur loc hm k hl⟩

/-- C05 (4), completeness (no leak).  Along EVERY schedule without overlap every location allocated during the
    run is accounted for: it is current, or on the freelist, or held by a running mutator (stored and about to be
    published, or superseded / removed and about to be recorded). -/
theorem C05_no_leak (s0 : State) (h0 : Init s0) (sched : List Nat) (hno : NoOverlapAlong s0 sched) :
    ∀ l, s0.pri.length ≤ l → l < (run s0 sched).pri.length → Accounted (run s0 sched) l :=
  accounted_run h0.acc (fun l h1 h2 => absurd h2 (by omega)) sched hno

/-- C05 (4) at quiescence: when no call is running, every location allocated during the run is either current and
    not on the freelist, or not current and on the freelist exactly once. -/
theorem C05_quiescent_exactly_once (s0 : State) (h0 : Init s0) (hfl : InitFL s0) (sched : List Nat)
    (hno : NoOverlapAlong s0 sched) (hq : ∀ t ∈ (run s0 sched).threads, t.pc = .idle) :
    ∀ l, s0.pri.length ≤ l → l < (run s0 sched).pri.length →
      ((∃ k, lookup (run s0 sched).idx k = some l) ∧ (run s0 sched).fl.count l = 0) ∨
      ((∀ k, lookup (run s0 sched).idx k ≠ some l) ∧ (run s0 sched).fl.count l = 1) := by
  intro l h1 h2
  obtain ⟨_, _, hf⟩ := flInv_run h0.inv0 h0.acc (hfl.flInv h0) sched hno
  rcases C05_no_leak s0 h0 sched hno l h1 h2 with ⟨k, hk⟩ | hm | ⟨j, u, hu, hh⟩
  · refine Or.inl ⟨⟨k, hk⟩, ?_⟩
    rw [List.count_eq_zero]
    exact fun hm => hf.notCur l hm k hk
  · refine Or.inr ⟨hf.notCur l hm, ?_⟩
    have h1 := List.nodup_iff_count.1 hf.nodup l
    have h2 := List.count_pos_iff.2 hm
    omega
  · have := hq u (List.mem_of_getElem? hu)
    simp [this, holdsLoc] at hh

/-- the store of the negative witnesses: key [1] present at location 0 -/
def Conc.cxStore (progs : List (List Op)) : State :=
  { imm := false, idx := [([1], 0)], pri := [([1], [10])], fl := [],
    threads := progs.map fun p => { prog := p } }

/-- C05 (4), the premise is needed (D17): two overlapping update-Puts of one key both read location 0 as the
    previous location and both record it: location 0 is on the freelist twice. -/
theorem C05_double_free_without_premise :
    let s0 := cxStore [[.put [1] [11]], [.put [1] [12]]]
    let sched := [0, 1, 0, 1, 0, 1, 0, 1, 0, 1]
    Init s0 ∧ InitFL s0 ∧ ¬ NoOverlapAlong s0 sched ∧
      (run s0 sched).fl = [0, 0] ∧
      (run s0 sched).threads.map (·.out) = [[.ok], [.ok]] := by
  refine ⟨⟨⟨?_, by decide⟩, by decide⟩, ⟨by decide, fun l hl => (by cases hl), by decide⟩, by decide, by decide, by decide⟩
  intro k loc hm
  simp only [cxStore, List.mem_singleton, Prod.mk.injEq] at hm
  obtain ⟨rfl, rfl⟩ := hm
  exact ⟨[10], rfl⟩

/-! ### (5) negative witnesses: the no-overlap premise is needed (known finding D17) -/

/-- C05 (5i): an update-Put overlapping a Remove of the same key returns an error (Index.Update finds the key
    gone); sequentially a Put never fails. -/
theorem C05_overlap_put_remove_errs :
    let s0 := cxStore [[.put [1] [11]], [.rm [1]]]
    let sched := [0, 1, 1, 1, 0, 0, 0, 1]
    ¬ NoOverlapAlong s0 sched ∧
      (run s0 sched).threads.map (·.out) = [[.err], [.bool true]] ∧
      (run s0 sched).threads.map (·.pc) = [.idle, .idle] := by
  refine ⟨by decide, by decide, by decide⟩

/-- C05 (5ii): two Puts of one NEW key overlap: both return ok, the second value is lost (the key maps to the
    first one), and the lost record's location 1 is neither current nor on the freelist (a leak). -/
theorem C05_overlap_new_puts_lose_one :
    let s0 := init false [[.put [1] [11]], [.put [1] [12]]]
    let sched := [0, 1, 0, 1, 0, 1, 0, 1]
    ¬ NoOverlapAlong s0 sched ∧
      (run s0 sched).threads.map (·.out) = [[.ok], [.ok]] ∧
      (run s0 sched).threads.map (·.pc) = [.idle, .idle] ∧
      contents (run s0 sched) [1] = some [11] ∧
      (run s0 sched).pri = [([1], [11]), ([1], [12])] ∧
      (run s0 sched).idx = [([1], 0)] ∧ (run s0 sched).fl = [] := by
  refine ⟨by decide, by decide, by decide, by decide, by decide, by decide, by decide⟩

/-- no sequential order explains (5ii): in both orders of the two Puts the LAST value wins, or the first record's
    location is recorded on the freelist — here the first value wins and nothing is recorded.  For the map alone:
    the ghost log of this schedule is NOT a legal history ((1a) fails): -/
theorem C05_overlap_new_puts_not_legal :
    let s0 := init false [[.put [1] [11]], [.put [1] [12]]]
    let sched := [0, 1, 0, 1, 0, 1, 0, 1]
    (runL s0 sched).2 = [(0, .put [1] [11], .ok), (1, .put [1] [12], .ok)] ∧
      (specRun false (contents s0) ((runL s0 sched).2.map (·.2.1))).1 [1] = some [12] ∧
      contents (run s0 sched) [1] = some [11] := by
  refine ⟨by decide, by decide, by decide⟩

/-! ### (6) the premises are satisfiable: a concrete 3-thread run -/

/-- three threads, each the only mutator of its key ([7,1], [7,2], [7,3] share the prefix 7); they read each
    other's keys -/
def Conc.ex3 : State :=
  { imm := false, idx := [([7, 1], 0), ([7, 2], 1)], pri := [([7, 1], [10]), ([7, 2], [20])], fl := [],
    threads := [{ prog := [.put [7, 1] [11], .get [7, 2], .rm [7, 1], .has [7, 1]] },
                { prog := [.put [7, 2] [21], .put [7, 2] [21], .size [7, 3], .get [7, 1]] },
                { prog := [.put [7, 3] [30], .rm [7, 3], .rm [7, 3], .get [7, 2], .put [7, 3] [31]] }] }

def Conc.sched3 : List Nat :=
  [0, 1, 2, 2, 1, 0, 0, 1, 2, 2, 1, 0, 0, 1, 2, 0, 1, 2, 2, 1, 0, 0, 0, 1, 1, 2, 2, 0, 1, 2, 0, 1, 2, 2, 2, 2, 1,
   0, 2, 2]

theorem Conc.ex3_Init : Init ex3 := by
  refine ⟨⟨?_, by decide⟩, by decide⟩
  intro k loc hm
  simp only [ex3, List.mem_cons, Prod.mk.injEq, List.not_mem_nil, or_false] at hm
  rcases hm with ⟨rfl, rfl⟩ | ⟨rfl, rfl⟩
  · exact ⟨[10], rfl⟩
  · exact ⟨[20], rfl⟩

example : OwnedKeys (ex3.threads.map (·.prog)) := by decide
example : NoOverlapAlong ex3 sched3 := by decide
example : noOverlapRun ex3 sched3 = true := by decide
example : InitFL ex3 := ⟨by decide, fun l hl => (by cases hl), by decide⟩

/-- the run is complete (every thread idle, program exhausted), the three threads interleave inside their calls,
    and the outcome: results per thread, final index, freelist and the ghost log -/
example :
    (run ex3 sched3).threads.map (fun t => (t.prog, t.pc)) = [([], .idle), ([], .idle), ([], .idle)] ∧
    (run ex3 sched3).threads.map (·.out) =
      [[.ok, .found [21], .bool true, .bool false],
       [.ok, .ok, .absent, .found [11]],
       [.ok, .bool true, .bool false, .found [21], .ok]] ∧
    (run ex3 sched3).idx = [([7, 3], 5), ([7, 2], 3)] ∧
    (run ex3 sched3).fl = [0, 1, 4, 2] ∧
    (runL ex3 sched3).2.map (·.1) = [2, 1, 0, 0, 1, 2, 1, 1, 2, 0, 2, 0, 2] := by
  refine ⟨by decide +kernel, by decide +kernel, by decide +kernel, by decide +kernel, by decide +kernel⟩

/-- the theorems applied to the example -/
example :
    specRun false (contents ex3) ((runL ex3 sched3).2.map (·.2.1)) =
      (contents (run ex3 sched3), (runL ex3 sched3).2.map (·.2.2)) :=
  (C05_linearizable ex3 ex3_Init sched3 (by decide)).1

/-- an overlapping pair in a schedule with owned keys does not exist: EVERY schedule of `ex3` is linearizable -/
example (sched : List Nat) :
    specRun false (contents ex3) ((runL ex3 sched).2.map (·.2.1)) =
      (contents (run ex3 sched), (runL ex3 sched).2.map (·.2.2)) :=
  (C05_linearizable_owned ex3 ex3_Init (by decide) sched).1

end Sth
