/-
C11 — Garbage collection actually reclaims space, in bounded cycles.

Property theorems only (helper lemmas: Sth/Lemmas/C11*.lean, on top of the C04 development: the
invariants `YInv` / `GInv` hold in every state reachable by ANY history — puts, removes, reads,
flushes, iterations, reopens, index GC and primary GC cycles, complete or cut short — under the
hypotheses of `C04_store_refines_map`).  `igc scanFree budget` / `pgc lowUse budget` are the steps of
`stepS` built from `indexGC` / `primaryGC` (Sth/Model/GC.lean); `budget := none` is a complete cycle.
`Released files f` = file `f` is unlinked or has length zero.

P2 (index side).
  * `C11_index_file_released`: in every reachable state, a non-current index file `f` that no bucket
    of the table points into (`IdxFileFree`, the very busy-set truncateFreeFiles computes) is released
    by ONE complete cycle with the free-file scan (`igc true none`): it has length zero or is unlinked;
    it is unlinked in that same cycle when it and every file before it, from the header's first file
    on, is free (the first file advances with the scan — "the oldest file at the time it is visited").
    A free file that was not the oldest when visited stays as a zero-length file and is unlinked by the
    first later cycle (of either kind) that visits it as the oldest file; so: 1 cycle to release every
    byte, 1 more cycle after the files before it have been released to unlink it.
  * `C11_index_released_stays`: no index GC cycle (any `scanFree`, any budget) ever makes a released
    index file hold bytes again or re-creates an unlinked one.
  * `C11_index_reap_free_file`: what `igc false none` does when it visits such a file (no free-file
    scan: the records have to fail the busy check one by one): reapIndexRecords marks every record
    deleted, merges them into one span from offset 0 and truncates the file to length zero (`stale`),
    after which the cycle unlinks it if it is the first file.  (Stated per file; that a cycle WITHOUT
    the scan reaches every file is not proved here — it does not when the resume point of an earlier
    interrupted cycle has been unlinked in the meantime, see the finding below.)

P1 (primary side).
  * `C11_primary_file_released`: a reachable multihash state, flushed (`pnext = []`); `f` an existing
    non-current primary file (shorter than 2^31 bytes) that no index entry points into (`NoEntryIn`).
    ONE complete primary GC cycle (`pgc lowUse none`, every threshold) leaves `f` unlinked or with length
    zero; and unlinked when `f` is the header's first file and the cycle visits it (`WillVisit`).
    One cycle is enough in every case, because the repaired cycle (D28) makes TWO hand-over passes — a
    hand-over file left by an interrupted cycle is applied by the first, what was recorded since by the
    second — and removes every affected file from the visited set before the loop over the files: no
    `decide` example "1 cycle is not enough" exists for releasing the bytes.  What can take arbitrarily
    long is the UNLINK (see the remark below).
    Two hypotheses on the reached state are ASSUMED, not derived from reachability (both are decidable
    and checked by `decide` on the example):
      `Covered s`        every record span of every closed file is named by an index entry or recorded on
                         the freelist (file, hand-over file `.gc`, pool) — "superseded ⇒ recorded".  C13
                         proves the recording along C01 histories (`FInv`) and C13G "nothing current is
                         recorded" along GC histories; the converse inclusion needed here (every span not
                         current IS recorded, also after GC cycles have consumed and relocated) is a
                         further invariant over all calls and was not threaded through.
      `VisitedStable s f` a visited file without a record span is empty (what reapRecords leaves behind).
    Everything else comes from reachability (C04's `GInv`): the hand-over passes apply every recorded
    entry exactly (`Sth/Lemmas/C11Pri1.lean`, `C11Pri2.lean`), relocation out of the files visited
    before `f` cannot fail (after the passes every record span left is an index entry's record), the
    loop reaches `f` (`C11Pri4.lean`), and reapRecords truncates an all-deleted file to length zero.
  * REMARK (conceded by the property, made precise here): a file that was released while it was NOT the
    oldest stays in the visited set as a zero-length file; when the files before it are unlinked later it
    becomes the header's first file, but the loop skips visited files, so it is never unlinked and the
    first file never advances past it — every later file can only be truncated to length zero — until a
    reopen clears the visited set.  `exOps11p` below shows it (checked by `decide`).

P4 (no growth).  Pure facts about the collectors, for EVERY state (no invariant, no reachability):
  * `C11_no_growth_index`: no index GC cycle (any `scanFree`, any budget, complete or interrupted) makes
    any index file longer; files are only rewritten in place, truncated, emptied or unlinked.
  * `C11_no_growth_primary`: on a flushed primary (`pnext = []`), no primary GC cycle (any threshold, any
    budget) makes any primary file longer.  On an unflushed primary the cycle first flushes what was
    pending BEFORE it (the flush inside the hand-over pass) — user data, not GC's — and nothing else
    grows.  The records a cycle relocates are not written by the cycle: they are pooled
    (`C11_relocation_pools_a_copy`: one relocation pools exactly one record, byte for byte the span it
    copies, 4 + size bytes; `C11_reap_pools_at_most_two`) and reach the files with the next flush.  So at
    flushed states: files after a cycle ≤ files before, pointwise, and files after [cycle, flush] ≤ files
    before + the bytes of the relocated records.
  * REMARK on the reported sizes (`indexStorage` / `primaryStorage` of Sth/Model/Store.lean = header bytes
    + the lengths of the files from the header's first file on): the sum of the file lengths never grows
    (above), but the header text contains FirstFile in decimal, so a cycle that advances FirstFile from 9
    to 10 (99 to 100, …) by unlinking a zero-length file makes the reported size grow by one byte.  The
    corollary for the reported sizes is therefore "reported − header bytes never grows"; it is not
    stated as a theorem here (it needs the range structure of the files, i.e. reachability).

P5 (fixed point).
  * `C11_fixed_point_primary`: in a reachable multihash state, after a primary GC cycle that completed
    (`out = .ok`) and left both pools empty (it relocated nothing, so nothing is waiting to be written),
    ANOTHER cycle — any threshold, any budget — is the identity on the whole state (disk and memory).
    (All closed files are in the visited set, the freelist is empty, the hand-over pass has nothing to
    hand over.)  When the first cycle relocated records the premise fails by design: the relocated
    records are pooled, the next flush writes them, the cycle after that frees their old places, and
    the fixed point is reached once a cycle relocates nothing.
  * FINDING (index side, P5 is FALSE in one shape; model = real code): a complete index cycle that
    STARTED AT A RESUME POINT r of an interrupted earlier cycle visits r … last−1 first and first … r−1
    after the wrap-around.  If file r is stale (emptied) when visited it is kept because it is not the
    first file; the files before it are then unlinked after the wrap-around, FirstFile advances to r,
    and the loop stops at r without revisiting it.  The next complete cycle unlinks file r: it writes
    (header + unlink) although nothing happened in between.  So after a resumed cycle the fixed point
    needs one more cycle ("fixed point by the second round").  `exOps11x` below is the concrete run
    (checked by `decide`).  For cycles that start fresh the second cycle writes nothing in all runs
    evaluated; the general proof (it needs "reapIndexRecords is idempotent on its own output") is not
    done here.

P3 (low-use files).
  * `C11_low_use_visit`: the one-visit step.  In a reachable multihash state, a visit of reapRecords to a
    closed file with at least one record span, whose record spans are well-formed records (`RecSpan`:
    they are whenever they are index entries' records, as after the hand-over passes) and whose free share
    is at or above the threshold AS reapRecords MEASURES IT (`LowUse`: bytes of deleted spans against bytes
    of record spans over the whole scan, i.e. before the trailing deleted span is cut): the result is
    `kept`; the LAST record span and, if there is one, the one BEFORE it are relocated — each is then
    `Drained`: its location (offset, size) is on the freelist pool, and no index entry points at it; one
    copy per relocated span is pooled (1 or 2 records); no index entry pointing into a file is created;
    the record spans themselves are still in the file (they are marked by the next cycle's hand-over
    pass, which also puts the file into the affected set, so it is visited again).  Hence the number of
    index entries pointing into the file drops by min 2 (busy) per visit.
  * The drain bound ⌈busy/2⌉ + 1 cycles (with the store's flush between cycles) is NOT proved by
    induction here (each round needs the whole-cycle analysis of P1 — passes, affected set, loop — with
    the low-use test re-established after every cut, which can fail: `[A][B][C][free 85 %]` → `[A]` is
    100 % in use and is left alone, as the property's text concedes).  `exOps11l` below is a full
    drain checked by `decide`: a file with three records in use is released by exactly 3 = ⌈3/2⌉ + 1
    cycles (relocate 2 / cut the tail and relocate 1 / unlink), every read unchanged.

FINDING (index GC, stale resume point; model = real code, store/index/gc.go).  A cycle cut short by the
time limit records `gcResumeAt = n`.  If the files up to `n` become free, the next cycle's
truncateFreeFiles unlinks them and advances FirstFile past `n`, and the reap loop then starts at the
unlinked file `n`: `reapIndexRecords` fails ("cannot stat index file"), the cycle ends with an error
("GC failed") and the reap phase is skipped for that cycle; the resume point is cleared, so the next
cycle is normal.  Nothing is lost (the free files WERE released by the scan) but one cycle is wasted and
an error is logged.  `exOps11r` below is a concrete run (checked by `decide`).
-/
import Sth.Lemmas.C11Reach
import Sth.Lemmas.C11IdxReap
import Sth.Lemmas.C11Pri6
import Sth.Lemmas.C11Fix
import Sth.Lemmas.C11Low

namespace Sth

open C11

/-- P2.  In every reachable state, one complete index GC cycle with the free-file scan releases every
    non-current index file no bucket points into; it unlinks it when every file from the header's
    first file up to it is free. -/
theorem C11_index_file_released (c : Cfg) (hc : c.Legal) (ops : List SOp) (hk : KeysOK c.kind ops)
    (hs : SizesOK ops) (s0 : SState) (hi : initS c = some s0) (hb : GcCountersOK s0 ops) (f : Nat)
    (hf : f < (runS s0 ops).1.m.ifileNum) (hfree : IdxFileFree (runS s0 ops).1.m f) :
    let s := (runS s0 ops).1
    let s' := (stepS s (.igc true none)).1
    Released s'.d.ifiles f ∧
    (∀ first, s.d.ihdr.map IdxHeader.first = some first →
      (∀ g, first ≤ g → g ≤ f → IdxFileFree s.m g) → s'.d.ifiles.get? f = none) :=
  index_file_released_inv (reach_yinv c hc ops hk hs s0 hi hb) hf hfree

/-- Index GC never un-releases: for every state, every `scanFree` and every budget, a released index
    file stays released and an unlinked one stays unlinked. -/
theorem C11_index_released_stays (s : SState) (scanFree : Bool) (budget : Budget) (f : Nat) :
    (Released s.d.ifiles f → Released (stepS s (.igc scanFree budget)).1.d.ifiles f) ∧
    (s.d.ifiles.get? f = none → (stepS s (.igc scanFree budget)).1.d.ifiles.get? f = none) :=
  igc_keeps_released s scanFree budget f

/-- What a cycle without the free-file scan does when it visits a free file (shorter than 2^31 bytes,
    the largest span one size word can describe): every record fails the busy check, is marked deleted
    and merged, and the file is truncated to length zero with result `stale`. -/
theorem C11_index_reap_free_file (c : Cfg) (hc : c.Legal) (ops : List SOp) (hk : KeysOK c.kind ops)
    (hs : SizesOK ops) (s0 : SState) (hi : initS c = some s0) (hb : GcCountersOK s0 ops) (f : Nat)
    (file : Bytes) (hfile : (runS s0 ops).1.d.ifiles.get? f = some file)
    (hf : f < (runS s0 ops).1.m.ifileNum) (hfree : IdxFileFree (runS s0 ops).1.m f)
    (hlen : file.length < two31) :
    reapIndexRecords (runS s0 ops).1.m f file none = (.stale, [], none) := by
  obtain ⟨first, sp, _, hl⟩ := (reach_yinv c hc ops hk hs s0 hi hb).ilog
  have h1 : first ≤ f := by
    cases Nat.lt_or_ge f first with
    | inl h => rw [hl.gone f h] at hfile; cases hfile
    | inr h => exact h
  have := hl.files f h1 (by omega)
  rw [this] at hfile
  cases hfile
  exact reapIndexRecords_free hfree (sp f) (hl.ok f h1 (by omega)) hlen

/-! Non-vacuity (1-byte index files: every flushed bucket record has its own file).  After `exOps11i`
    files 0..3 exist, the table points into 0, 2, 3; file 1 (the overwritten bucket of `exK2`) is free
    but not the oldest: one cycle empties it, it stays as a zero-length file.  After file 0 has become
    free too, the next cycle unlinks both and the first file is 2. -/

def exCfg11i : Cfg := { kind := .mh, bits := 8, ifs := 1, pfs := 1000, imm := false }
def exK11a : Bytes := [18, 6, 1, 2, 3, 4, 5, 6]
def exK11b : Bytes := [18, 6, 2, 2, 3, 4, 5, 7]
def exK11c : Bytes := [18, 7, 3, 2, 9, 9, 9, 9, 1]
def exOps11i : List SOp :=
  [.put exK11a [7], .flush [], .put exK11b [1], .flush [], .put exK11c [4], .flush [], .put exK11b [8],
   .flush []]

example : exCfg11i.Legal := by decide
example : KeysOK exCfg11i.kind exOps11i ∧ SizesOK exOps11i := by
  refine ⟨?_, ?_⟩
  · unfold KeysOK; decide
  · unfold SizesOK; decide

/-- the hypotheses hold for file 1 and not for file 0; before the cycle file 1 has 22 bytes -/
example : ∃ s, initS exCfg11i = some s ∧ GcCountersOK s exOps11i ∧
    1 < (runS s exOps11i).1.m.ifileNum ∧ IdxFileFree (runS s exOps11i).1.m 1 ∧
    ¬ IdxFileFree (runS s exOps11i).1.m 0 ∧ ¬ Released (runS s exOps11i).1.d.ifiles 1 ∧
    ((runS s exOps11i).1.d.ifiles.get? 1).map List.length = some 22 := ⟨_, rfl, by decide⟩

/-- one cycle (with or without the scan) empties file 1 and keeps it as a zero-length file -/
example : ∃ s, initS exCfg11i = some s ∧
    (runS s (exOps11i ++ [.igc true none])).1.d.ifiles.map (fun p => (p.1, p.2.length)) =
      [(0, 22), (1, 0), (2, 22), (3, 22)] ∧
    (runS s (exOps11i ++ [.igc false none])).1.d.ifiles.map (fun p => (p.1, p.2.length)) =
      [(0, 22), (1, 0), (2, 22), (3, 22)] := ⟨_, rfl, by decide⟩

/-- once file 0 is free as well, one more cycle unlinks both; the first file is 2 -/
example : ∃ s, initS exCfg11i = some s ∧
    (let r := (runS s (exOps11i ++ [.igc true none, .put exK11a [9], .flush [], .igc true none])).1
     (r.d.ihdr.map IdxHeader.first, r.d.ifiles.map (fun p => (p.1, p.2.length)))) =
      (some 2, [(2, 22), (3, 22), (4, 22)]) := ⟨_, rfl, by decide⟩

/-- the finding: a cycle interrupted in file 1 (`igc false (some 2)`), files 1..3 become free, the next
    complete cycle unlinks them in the scan and then fails at the stale resume point -/
def exOps11r : List SOp :=
  [.put exK11a [7], .flush [], .put exK11b [1], .flush [], .put exK11c [4], .flush [], .put exK11a [8],
   .flush [], .igc false (some 2), .put exK11b [2], .flush [], .put exK11c [5], .flush [], .put exK11a [9],
   .flush []]

example : ∃ s, initS exCfg11i = some s ∧
    (let r := (runS s exOps11r).1
     (r.m.gcResume, r.d.ihdr.map IdxHeader.first, (indexGC r.m r.d true none).1,
       (indexGC r.m r.d true none).2.2.1.ihdr.map IdxHeader.first)) =
      (some 1, some 1, GcOut.err, some 4) := ⟨_, rfl, by decide⟩

/-! ### P1: a primary file without current records is released by one complete cycle -/

/-- P1.  See the header for the hypotheses `Covered` and `VisitedStable` (assumed on the reached
    state, decidable).  `hb` is C04's counter bound for the history followed by the cycle. -/
theorem C11_primary_file_released (c : Cfg) (hc : c.Legal) (hmh : c.kind = .mh) (ops : List SOp)
    (hk : KeysOK c.kind ops) (hs : SizesOK ops) (s0 : SState) (hi : initS c = some s0) (lowUse : Nat)
    (hb : GcCountersOK s0 (ops ++ [.pgc lowUse none])) (f : Nat) (file : Bytes)
    (hfile : (runS s0 ops).1.d.pfiles.get? f = some file) (hf : f < (runS s0 ops).1.m.pfileNum)
    (hlen : file.length < two31) (hflushed : (runS s0 ops).1.m.pnext = [])
    (hcov : Covered (runS s0 ops).1) (hno : NoEntryIn (runS s0 ops).1 f)
    (hvis : VisitedStable (runS s0 ops).1 f) :
    let s := (runS s0 ops).1
    let s' := (stepS s (.pgc lowUse none)).1
    Released s'.d.pfiles f ∧
    (s.d.phdr.map PriHeader.first = some f → WillVisit s f → s'.d.pfiles.get? f = none) :=
  primary_file_released c hc hmh ops hk hs s0 hi lowUse hb f file hfile hf hlen hflushed hcov hno hvis

/-! Non-vacuity (40-byte primary files).  After `exOps11p` files 0, 1 are closed and 2 is current; every
    key stored in file 1 has been overwritten, file 0 still holds the record of `exK11a`.  One cycle
    truncates file 1 to length zero (it is not the oldest, so it stays) and cuts the deleted tail off
    file 0 (42 → 13 bytes). -/

def exCfg11p : Cfg := { kind := .mh, bits := 8, ifs := 64, pfs := 40, imm := false }
def exK11d : Bytes := [18, 6, 3, 2, 3, 4, 5, 8]
def exK11e : Bytes := [18, 6, 1, 2, 3, 4, 5, 7]
def exOps11p : List SOp :=
  [.put exK11a [7], .put exK11e [1, 2, 3], .put exK11c [4], .flush [], .put exK11d [5, 5],
   .put exK11e [3, 3, 3, 3], .put exK11c [6, 6], .flush [], .put exK11d [7, 7], .put exK11e [1], .put exK11c [1],
   .flush []]

example : exCfg11p.Legal := by decide
example : KeysOK exCfg11p.kind exOps11p ∧ SizesOK exOps11p := by
  refine ⟨?_, ?_⟩
  · unfold KeysOK; decide
  · unfold SizesOK; decide

/-- all hypotheses of P1 hold for file 1 (and `NoEntryIn` fails for file 0) -/
example : ∃ s, initS exCfg11p = some s ∧ GcCountersOK s (exOps11p ++ [.pgc 85 none]) ∧
    (let r := (runS s exOps11p).1
     r.m.pfileNum = 2 ∧ r.m.pnext = [] ∧ (r.d.pfiles.get? 1).map List.length = some 45 ∧
     Covered r ∧ NoEntryIn r 1 ∧ ¬ NoEntryIn r 0 ∧ VisitedStable r 1) := ⟨_, rfl, by decide⟩

/-- the cycle: file 1 has length zero, file 0 lost its deleted tail, the first file is still 0 -/
example : ∃ s, initS exCfg11p = some s ∧
    (let r := (runS s (exOps11p ++ [.pgc 85 none])).1
     (r.d.phdr.map PriHeader.first, r.d.pfiles.map (fun p => (p.1, p.2.length)), r.m.visited)) =
      (some 0, [(0, 13), (1, 0), (2, 41)], [0, 1]) := ⟨_, rfl, by decide⟩

/-- the remark: once file 0 is unlinked too, the zero-length visited file 1 is the first file and is
    never unlinked by further cycles; a reopen (which clears the visited set) lets the next cycle unlink
    it -/
example : ∃ s, initS exCfg11p = some s ∧
    (let r2 := (runS s (exOps11p ++ [.pgc 85 none, .rm exK11a, .flush [], .pgc 85 none, .pgc 85 none,
        .pgc 85 none])).1
     let r3 := (runS s (exOps11p ++ [.pgc 85 none, .rm exK11a, .flush [], .pgc 85 none, .reopen [] true,
        .pgc 85 none])).1
     (r2.d.phdr.map PriHeader.first, r2.d.pfiles.map (fun p => (p.1, p.2.length)),
      r3.d.phdr.map PriHeader.first, r3.d.pfiles.map (fun p => (p.1, p.2.length)))) =
      (some 1, [(1, 0), (2, 41)], some 2, [(2, 41)]) := ⟨_, rfl, by decide⟩

/-! ### P4: no growth -/

/-- P4, index side: for every state, every `scanFree` and every budget, no index file is longer after
    the cycle than before (an absent file counts as empty). -/
theorem C11_no_growth_index (s : SState) (scanFree : Bool) (budget : Budget) (g : Nat) :
    (fileOf (stepS s (.igc scanFree budget)).1.d.ifiles g).length ≤ (fileOf s.d.ifiles g).length := by
  rw [stepS_igc_disk]
  exact indexGC_shrinks s.m s.d scanFree budget g

/-- P4, primary side: for every state with a flushed primary, every threshold and every budget, no
    primary file is longer after the cycle than before. -/
theorem C11_no_growth_primary (s : SState) (hpn : s.m.pnext = []) (lowUse : Nat) (budget : Budget)
    (g : Nat) :
    (fileOf (stepS s (.pgc lowUse budget)).1.d.pfiles g).length ≤ (fileOf s.d.pfiles g).length := by
  cases hk : s.m.kind with
  | cid =>
    have : stepS s (.pgc lowUse budget) = (s, .gc) := by simp only [stepS, hk]
    rw [this]; exact Nat.le_refl _
  | mh =>
    cases hp : primaryGC s.m s.d lowUse budget with
    | none =>
      have : stepS s (.pgc lowUse budget) = (s, .gc) := by simp only [stepS, hk, hp]
      rw [this]; exact Nat.le_refl _
    | some res =>
      have : (stepS s (.pgc lowUse budget)).1.d = res.2.2.1 := by simp only [stepS, hk, hp]
      rw [this]
      exact primaryGC_shrinks hpn lowUse budget hp g

/-- one relocation pools exactly one record — a copy, byte for byte, of the span it relocates (`size`
    is the span's size word, `r.key ++ r.val` its body) — and writes nothing -/
theorem C11_relocation_pools_a_copy {m m' : Mem} {d : Disk} {fnum at_ bs : Nat} {file : Bytes}
    (h : relocate m d fnum file at_ bs = some m') :
    ∃ size r, readU32 file at_ = some size ∧ readAt file (at_ + 4) size = some (r.key ++ r.val) ∧
      m'.pnext = m.pnext ++ [r] ∧ C11.recBytes r = 4 + size :=
  relocate_pool h

/-- a visit of one file pools at most two records -/
theorem C11_reap_pools_at_most_two (m : Mem) (d : Disk) (n lowUse : Nat) :
    ∃ L : List PRec, (reapRecords m d n lowUse).2.1.pnext = m.pnext ++ L ∧ L.length ≤ 2 :=
  reapRecords_pool m d n lowUse

/-! ### P5: fixed point -/

/-- P5, primary side.  `hres`/`hok`: the first cycle ran and completed; `hpn`/`hfl`: it left both pools
    empty.  Then a further cycle is the identity. -/
theorem C11_fixed_point_primary (c : Cfg) (hc : c.Legal) (hmh : c.kind = .mh) (ops : List SOp)
    (hk : KeysOK c.kind ops) (hs : SizesOK ops) (s0 : SState) (hi : initS c = some s0)
    (lowUse : Nat) (budget : Budget) (hb : GcCountersOK s0 (ops ++ [.pgc lowUse budget]))
    {res : PgcRes × Mem × Disk × Budget}
    (hres : primaryGC (runS s0 ops).1.m (runS s0 ops).1.d lowUse budget = some res)
    (hok : res.1.out = .ok)
    (hpn : (stepS (runS s0 ops).1 (.pgc lowUse budget)).1.m.pnext = [])
    (hfl : (stepS (runS s0 ops).1 (.pgc lowUse budget)).1.m.flpool = [])
    (lowUse' : Nat) (b' : Budget) :
    stepS (stepS (runS s0 ops).1 (.pgc lowUse budget)).1 (.pgc lowUse' b') =
      ((stepS (runS s0 ops).1 (.pgc lowUse budget)).1, .gc) :=
  pgc_fixed_point c hc hmh ops hk hs s0 hi lowUse budget hb hres hok hpn hfl lowUse' b'

/-- non-vacuity of P5: on `exOps11p` the cycle with threshold 85 completes and leaves the pools empty -/
example : ∃ s, initS exCfg11p = some s ∧
    (let r := (runS s exOps11p).1
     (primaryGC r.m r.d 85 none).map (fun x => x.1.out) = some GcOut.ok ∧
     (stepS r (.pgc 85 none)).1.m.pnext = [] ∧ (stepS r (.pgc 85 none)).1.m.flpool = []) :=
  ⟨_, rfl, by decide⟩

/-- P4 on the same run: 42 + 45 + 41 bytes before, 13 + 0 + 41 after -/
example : ∃ s, initS exCfg11p = some s ∧
    ((runS s exOps11p).1.d.pfiles.map (fun p => p.2.length),
     (runS s (exOps11p ++ [.pgc 85 none])).1.d.pfiles.map (fun p => p.2.length)) =
      ([42, 45, 41], [13, 0, 41]) := ⟨_, rfl, by decide⟩

/-- the index-side finding for P5: a cycle interrupted in file 2, files 0..2 become free, a COMPLETE
    cycle leaves the emptied file 2 as first file, the next complete cycle unlinks it -/
def exK11 (i j : Nat) : Bytes := [18, 6, i, j, 3, 4, 5, 6]
def exOps11x : List SOp :=
  [.put (exK11 1 1) [7], .flush [], .put (exK11 2 1) [1], .flush [], .put (exK11 3 1) [4], .flush [],
   .put (exK11 4 1) [2], .flush [], .put (exK11 5 1) [2], .flush [], .igc false (some 5),
   .put (exK11 1 2) [1], .flush [], .put (exK11 2 2) [1], .flush [], .put (exK11 3 2) [1], .flush []]

example : ∃ s, initS exCfg11i = some s ∧
    ((runS s exOps11x).1.m.gcResume,
     (runS s (exOps11x ++ [.igc false none])).1.m.gcResume,
     (runS s (exOps11x ++ [.igc false none])).1.d.ihdr.map IdxHeader.first,
     ((runS s (exOps11x ++ [.igc false none])).1.d.ifiles.get? 2).map List.length,
     (runS s (exOps11x ++ [.igc false none, .igc false none])).1.d.ihdr.map IdxHeader.first,
     ((runS s (exOps11x ++ [.igc false none, .igc false none])).1.d.ifiles.get? 2).map List.length) =
      (some 2, none, some 2, some 0, some 3, none) := ⟨_, rfl, by decide⟩

/-! ### P3: a low-use file is drained by relocation -/

/-- P3, the one-visit step (see the header). -/
theorem C11_low_use_visit (c : Cfg) (hc : c.Legal) (hmh : c.kind = .mh) (ops : List SOp)
    (hk : KeysOK c.kind ops) (hs : SizesOK ops) (s0 : SState) (hi : initS c = some s0) (lowUse : Nat)
    (hb : GcCountersOK s0 (ops ++ [.pgc lowUse none])) (n : Nat) (file : Bytes)
    (hfile : (runS s0 ops).1.d.pfiles.get? n = some file) (hn : n < (runS s0 ops).1.m.pfileNum)
    (hwf : ∀ x ∈ liveAt 0 (spansOf file), RecSpan x.2) (hne : liveAt 0 (spansOf file) ≠ [])
    (hlow : LowUse file lowUse) :
    let s := (runS s0 ops).1
    let r := reapRecords s.m s.d n lowUse
    r.1 = .kept ∧
    (∃ file', r.2.2.1.pfiles.get? n = some file' ∧
      liveAt 0 (spansOf file') = liveAt 0 (spansOf file)) ∧
    ∃ pre off body, liveAt 0 (spansOf file) = pre ++ [(off, body)] ∧
      Drained r.2.1 r.2.2.1 s.m.pmax n (off, body) ∧
      (pre = [] ∨ ∃ pre' off' body', pre = pre' ++ [(off', body')] ∧
        Drained r.2.1 r.2.2.1 s.m.pmax n (off', body')) ∧
      (∀ blk, IsEnt r.2.1 r.2.2.1 blk → IsEnt s.m s.d blk ∨ ¬ Below s.m blk) ∧
      (∃ L, r.2.1.pnext = s.m.pnext ++ L ∧ L.length = (if pre = [] then 1 else 2)) :=
  lowuse_visit c hc hmh ops hk hs s0 hi lowUse hb n file hfile hn hwf hne hlow

/-! Non-vacuity and a full drain (100-byte primary files, threshold 60).  File 0 holds two 20-byte
    records that are removed and three small records that stay in use; file 1 is current. -/

def exCfg11l : Cfg := { kind := .mh, bits := 8, ifs := 64, pfs := 100, imm := false }
def exBig11 (x : Nat) : Bytes := [x, x, x, x, x, x, x, x, x, x, x, x, x, x, x, x, x, x, x, x]
def exOps11l : List SOp :=
  [.put (exK11 9 1) (exBig11 1), .put (exK11 1 1) [7], .put (exK11 9 2) (exBig11 2), .put (exK11 2 1) [8],
   .put (exK11 3 1) [9], .flush [], .put (exK11 4 1) [1], .flush [], .rm (exK11 9 1), .rm (exK11 9 2),
   .flush []]

example : exCfg11l.Legal := by decide
example : KeysOK exCfg11l.kind exOps11l ∧ SizesOK exOps11l := by
  refine ⟨?_, ?_⟩
  · unfold KeysOK; decide
  · unfold SizesOK; decide

/-- the full drain: sizes of the primary files, first file, pooled records after each step of
    `[pgc, flush, pgc, flush, pgc]` — 103 bytes / 3 in use → relocate 2 → 45 bytes / 1 in use → relocate
    1 → unlinked -/
def exState11l (s : SState) (ops : List SOp) :=
  ((runS s (exOps11l ++ ops)).1.d.phdr.map PriHeader.first,
   (runS s (exOps11l ++ ops)).1.d.pfiles.map (fun p => (p.1, p.2.length)),
   (runS s (exOps11l ++ ops)).1.m.pnext.length)

example : ∃ s, initS exCfg11l = some s ∧
    exState11l s [] = (some 0, [(0, 103), (1, 13)], 0) ∧
    exState11l s [.pgc 60 none] = (some 0, [(0, 103), (1, 13)], 2) ∧
    exState11l s [.pgc 60 none, .flush []] = (some 0, [(0, 103), (1, 39)], 0) :=
  ⟨_, rfl, by decide, by decide, by decide⟩

example : ∃ s, initS exCfg11l = some s ∧
    exState11l s [.pgc 60 none, .flush [], .pgc 60 none] = (some 0, [(0, 45), (1, 39)], 1) ∧
    exState11l s [.pgc 60 none, .flush [], .pgc 60 none, .flush []] =
      (some 0, [(0, 45), (1, 52)], 0) ∧
    exState11l s [.pgc 60 none, .flush [], .pgc 60 none, .flush [], .pgc 60 none] =
      (some 1, [(1, 52)], 0) :=
  ⟨_, rfl, by decide +kernel, by decide +kernel, by decide +kernel⟩

/-- the hypotheses of the one-visit step hold for file 0 at the second cycle's visit (one record in
    use left, free share above 60 %), and the reads at the end are unchanged -/
example : ∃ s, initS exCfg11l = some s ∧
    (let r := (runS s (exOps11l ++ [.pgc 60 none, .flush []])).1
     ((r.d.pfiles.get? 0).map fun f =>
        (decide (LowUse f 60), decide (∀ x ∈ liveAt 0 (spansOf f), RecSpan x.2),
         (liveAt 0 (spansOf f)).length)) = some (true, true, 3)) ∧
    (runS s (exOps11l ++ [.pgc 60 none, .flush [], .pgc 60 none, .flush [], .pgc 60 none,
      .get (exK11 1 1), .get (exK11 2 1), .get (exK11 3 1), .get (exK11 4 1)])).2.drop 16 =
      [.found [7], .found [8], .found [9], .found [1]] := ⟨_, rfl, by decide, by decide +kernel⟩

end Sth
