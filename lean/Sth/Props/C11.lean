/-
C11 — Garbage collection actually reclaims space, in bounded cycles.

Property theorems only (helper lemmas: Sth/Lemmas/C11*.lean, on top of the C04 development: the
invariants `YInv` / `GInv` hold in every state reachable by ANY history — puts, removes, reads,
flushes, iterations, reopens, index GC and primary GC cycles, complete or cut short — under the
hypotheses of `C04_store_refines_map`).  `igc scanFree budget` / `pgc lowUse budget` are the steps of
`stepS` built from `indexGC` / `primaryGC` (Sth/Model/GC.lean); `budget := none` is a complete cycle.
`Released files f` = file `f` is unlinked or has length zero.

P2 (index side).
  * `C11_index_file_released`: in every reachable state, a non-current index file `f` that no bucket
    of the table points into (`IdxFileFree`, the very busy-set truncateFreeFiles computes) is released
    by ONE complete cycle with the free-file scan (`igc true none`): it has length zero or is unlinked;
    it is unlinked in that same cycle when it and every file before it, from the header's first file
    on, is free (the first file advances with the scan — "the oldest file at the time it is visited").
    A free file that was not the oldest when visited stays as a zero-length file and is unlinked by the
    first later cycle (of either kind) that visits it as the oldest file; so: 1 cycle to release every
    byte, 1 more cycle after the files before it have been released to unlink it.
  * `C11_index_released_stays`: no index GC cycle (any `scanFree`, any budget) ever makes a released
    index file hold bytes again or re-creates an unlinked one.
  * `C11_index_reap_free_file`: what `igc false none` does when it visits such a file (no free-file
    scan: the records have to fail the busy check one by one): reapIndexRecords marks every record
    deleted, merges them into one span from offset 0 and truncates the file to length zero (`stale`),
    after which the cycle unlinks it if it is the first file.  (Stated per file; that a cycle WITHOUT
    the scan reaches every file is not proved here — it does not when the resume point of an earlier
    interrupted cycle has been unlinked in the meantime, see the finding below.)

P1 (primary side).
  * `C11_primary_file_released`: a reachable multihash state, flushed (`pnext = []`); `f` an existing
    non-current primary file (shorter than 2^31 bytes) that no index entry points into (`NoEntryIn`).
    ONE complete primary GC cycle (`pgc lowUse none`, every threshold) leaves `f` unlinked or with length
    zero; and unlinked when `f` is the header's first file and the cycle visits it (`WillVisit`).
    One cycle is enough in every case, because the repaired cycle (D28) makes TWO hand-over passes — a
    hand-over file left by an interrupted cycle is applied by the first, what was recorded since by the
    second — and removes every affected file from the visited set before the loop over the files: no
    `decide` example "1 cycle is not enough" exists for releasing the bytes.  What can take arbitrarily
    long is the UNLINK (see the remark below).
    Two hypotheses on the reached state are ASSUMED, not derived from reachability (both are decidable
    and checked by `decide` on the example):
      `Covered s`        every record span of every closed file is named by an index entry or recorded on
                         the freelist (file, hand-over file `.gc`, pool) — "superseded ⇒ recorded".  C13
                         proves the recording along C01 histories (`FInv`) and C13G "nothing current is
                         recorded" along GC histories; the converse inclusion needed here (every span not
                         current IS recorded, also after GC cycles have consumed and relocated) is a
                         further invariant over all calls and was not threaded through.
      `VisitedStable s f` a visited file without a record span is empty (what reapRecords leaves behind).
    Everything else comes from reachability (C04's `GInv`): the hand-over passes apply every recorded
    entry exactly (`Sth/Lemmas/C11Pri1.lean`, `C11Pri2.lean`), relocation out of the files visited
    before `f` cannot fail (after the passes every record span left is an index entry's record), the
    loop reaches `f` (`C11Pri4.lean`), and reapRecords truncates an all-deleted file to length zero.
  * REMARK (conceded by the property, made precise here): a file that was released while it was NOT the
    oldest stays in the visited set as a zero-length file; when the files before it are unlinked later it
    becomes the header's first file, but the loop skips visited files, so it is never unlinked and the
    first file never advances past it — every later file can only be truncated to length zero — until a
    reopen clears the visited set.  `exOps11p` below shows it (checked by `decide`).

FINDING (index GC, stale resume point; model = real code, store/index/gc.go).  A cycle cut short by the
time limit records `gcResumeAt = n`.  If the files up to `n` become free, the next cycle's
truncateFreeFiles unlinks them and advances FirstFile past `n`, and the reap loop then starts at the
unlinked file `n`: `reapIndexRecords` fails ("cannot stat index file"), the cycle ends with an error
("GC failed") and the reap phase is skipped for that cycle; the resume point is cleared, so the next
cycle is normal.  Nothing is lost (the free files WERE released by the scan) but one cycle is wasted and
an error is logged.  `exOps11r` below is a concrete run (checked by `decide`).
-/
import Sth.Lemmas.C11Reach
import Sth.Lemmas.C11IdxReap
import Sth.Lemmas.C11Pri6

namespace Sth

open C11

/-- P2.  In every reachable state, one complete index GC cycle with the free-file scan releases every
    non-current index file no bucket points into; it unlinks it when every file from the header's
    first file up to it is free. -/
theorem C11_index_file_released (c : Cfg) (hc : c.Legal) (ops : List SOp) (hk : KeysOK c.kind ops)
    (hs : SizesOK ops) (s0 : SState) (hi : initS c = some s0) (hb : GcCountersOK s0 ops) (f : Nat)
    (hf : f < (runS s0 ops).1.m.ifileNum) (hfree : IdxFileFree (runS s0 ops).1.m f) :
    let s := (runS s0 ops).1
    let s' := (stepS s (.igc true none)).1
    Released s'.d.ifiles f ∧
    (∀ first, s.d.ihdr.map IdxHeader.first = some first →
      (∀ g, first ≤ g → g ≤ f → IdxFileFree s.m g) → s'.d.ifiles.get? f = none) :=
  index_file_released_inv (reach_yinv c hc ops hk hs s0 hi hb) hf hfree

/-- Index GC never un-releases: for every state, every `scanFree` and every budget, a released index
    file stays released and an unlinked one stays unlinked. -/
theorem C11_index_released_stays (s : SState) (scanFree : Bool) (budget : Budget) (f : Nat) :
    (Released s.d.ifiles f → Released (stepS s (.igc scanFree budget)).1.d.ifiles f) ∧
    (s.d.ifiles.get? f = none → (stepS s (.igc scanFree budget)).1.d.ifiles.get? f = none) :=
  igc_keeps_released s scanFree budget f

/-- What a cycle without the free-file scan does when it visits a free file (shorter than 2^31 bytes,
    the largest span one size word can describe): every record fails the busy check, is marked deleted
    and merged, and the file is truncated to length zero with result `stale`. -/
theorem C11_index_reap_free_file (c : Cfg) (hc : c.Legal) (ops : List SOp) (hk : KeysOK c.kind ops)
    (hs : SizesOK ops) (s0 : SState) (hi : initS c = some s0) (hb : GcCountersOK s0 ops) (f : Nat)
    (file : Bytes) (hfile : (runS s0 ops).1.d.ifiles.get? f = some file)
    (hf : f < (runS s0 ops).1.m.ifileNum) (hfree : IdxFileFree (runS s0 ops).1.m f)
    (hlen : file.length < two31) :
    reapIndexRecords (runS s0 ops).1.m f file none = (.stale, [], none) := by
  obtain ⟨first, sp, _, hl⟩ := (reach_yinv c hc ops hk hs s0 hi hb).ilog
  have h1 : first ≤ f := by
    cases Nat.lt_or_ge f first with
    | inl h => rw [hl.gone f h] at hfile; cases hfile
    | inr h => exact h
  have := hl.files f h1 (by omega)
  rw [this] at hfile
  cases hfile
  exact reapIndexRecords_free hfree (sp f) (hl.ok f h1 (by omega)) hlen

/-! Non-vacuity (1-byte index files: every flushed bucket record has its own file).  After `exOps11i`
    files 0..3 exist, the table points into 0, 2, 3; file 1 (the overwritten bucket of `exK2`) is free
    but not the oldest: one cycle empties it, it stays as a zero-length file.  After file 0 has become
    free too, the next cycle unlinks both and the first file is 2. -/

def exCfg11i : Cfg := { kind := .mh, bits := 8, ifs := 1, pfs := 1000, imm := false }
def exKa : Bytes := [18, 6, 1, 2, 3, 4, 5, 6]
def exKb : Bytes := [18, 6, 2, 2, 3, 4, 5, 7]
def exKc : Bytes := [18, 7, 3, 2, 9, 9, 9, 9, 1]
def exOps11i : List SOp :=
  [.put exKa [7], .flush [], .put exKb [1], .flush [], .put exKc [4], .flush [], .put exKb [8],
   .flush []]

example : exCfg11i.Legal := by decide
example : KeysOK exCfg11i.kind exOps11i ∧ SizesOK exOps11i := by
  refine ⟨?_, ?_⟩
  · unfold KeysOK; decide
  · unfold SizesOK; decide

/-- the hypotheses hold for file 1 and not for file 0; before the cycle file 1 has 22 bytes -/
example : ∃ s, initS exCfg11i = some s ∧ GcCountersOK s exOps11i ∧
    1 < (runS s exOps11i).1.m.ifileNum ∧ IdxFileFree (runS s exOps11i).1.m 1 ∧
    ¬ IdxFileFree (runS s exOps11i).1.m 0 ∧ ¬ Released (runS s exOps11i).1.d.ifiles 1 ∧
    ((runS s exOps11i).1.d.ifiles.get? 1).map List.length = some 22 := ⟨_, rfl, by decide⟩

/-- one cycle (with or without the scan) empties file 1 and keeps it as a zero-length file -/
example : ∃ s, initS exCfg11i = some s ∧
    (runS s (exOps11i ++ [.igc true none])).1.d.ifiles.map (fun p => (p.1, p.2.length)) =
      [(0, 22), (1, 0), (2, 22), (3, 22)] ∧
    (runS s (exOps11i ++ [.igc false none])).1.d.ifiles.map (fun p => (p.1, p.2.length)) =
      [(0, 22), (1, 0), (2, 22), (3, 22)] := ⟨_, rfl, by decide⟩

/-- once file 0 is free as well, one more cycle unlinks both; the first file is 2 -/
example : ∃ s, initS exCfg11i = some s ∧
    (let r := (runS s (exOps11i ++ [.igc true none, .put exKa [9], .flush [], .igc true none])).1
     (r.d.ihdr.map IdxHeader.first, r.d.ifiles.map (fun p => (p.1, p.2.length)))) =
      (some 2, [(2, 22), (3, 22), (4, 22)]) := ⟨_, rfl, by decide⟩

/-- the finding: a cycle interrupted in file 1 (`igc false (some 2)`), files 1..3 become free, the next
    complete cycle unlinks them in the scan and then fails at the stale resume point -/
def exOps11r : List SOp :=
  [.put exKa [7], .flush [], .put exKb [1], .flush [], .put exKc [4], .flush [], .put exKa [8],
   .flush [], .igc false (some 2), .put exKb [2], .flush [], .put exKc [5], .flush [], .put exKa [9],
   .flush []]

example : ∃ s, initS exCfg11i = some s ∧
    (let r := (runS s exOps11r).1
     (r.m.gcResume, r.d.ihdr.map IdxHeader.first, (indexGC r.m r.d true none).1,
       (indexGC r.m r.d true none).2.2.1.ihdr.map IdxHeader.first)) =
      (some 1, some 1, GcOut.err, some 4) := ⟨_, rfl, by decide⟩

/-! ### P1: a primary file without current records is released by one complete cycle -/

/-- P1.  See the header for the hypotheses `Covered` and `VisitedStable` (assumed on the reached
    state, decidable).  `hb` is C04's counter bound for the history followed by the cycle. -/
theorem C11_primary_file_released (c : Cfg) (hc : c.Legal) (hmh : c.kind = .mh) (ops : List SOp)
    (hk : KeysOK c.kind ops) (hs : SizesOK ops) (s0 : SState) (hi : initS c = some s0) (lowUse : Nat)
    (hb : GcCountersOK s0 (ops ++ [.pgc lowUse none])) (f : Nat) (file : Bytes)
    (hfile : (runS s0 ops).1.d.pfiles.get? f = some file) (hf : f < (runS s0 ops).1.m.pfileNum)
    (hlen : file.length < two31) (hflushed : (runS s0 ops).1.m.pnext = [])
    (hcov : Covered (runS s0 ops).1) (hno : NoEntryIn (runS s0 ops).1 f)
    (hvis : VisitedStable (runS s0 ops).1 f) :
    let s := (runS s0 ops).1
    let s' := (stepS s (.pgc lowUse none)).1
    Released s'.d.pfiles f ∧
    (s.d.phdr.map PriHeader.first = some f → WillVisit s f → s'.d.pfiles.get? f = none) :=
  primary_file_released c hc hmh ops hk hs s0 hi lowUse hb f file hfile hf hlen hflushed hcov hno hvis

/-! Non-vacuity (40-byte primary files).  After `exOps11p` files 0, 1 are closed and 2 is current; every
    key stored in file 1 has been overwritten, file 0 still holds the record of `exKa`.  One cycle
    truncates file 1 to length zero (it is not the oldest, so it stays) and cuts the deleted tail off
    file 0 (42 → 13 bytes). -/

def exCfg11p : Cfg := { kind := .mh, bits := 8, ifs := 64, pfs := 40, imm := false }
def exKd : Bytes := [18, 6, 3, 2, 3, 4, 5, 8]
def exKe : Bytes := [18, 6, 1, 2, 3, 4, 5, 7]
def exOps11p : List SOp :=
  [.put exKa [7], .put exKe [1, 2, 3], .put exKc [4], .flush [], .put exKd [5, 5],
   .put exKe [3, 3, 3, 3], .put exKc [6, 6], .flush [], .put exKd [7, 7], .put exKe [1], .put exKc [1],
   .flush []]

example : exCfg11p.Legal := by decide
example : KeysOK exCfg11p.kind exOps11p ∧ SizesOK exOps11p := by
  refine ⟨?_, ?_⟩
  · unfold KeysOK; decide
  · unfold SizesOK; decide

/-- all hypotheses of P1 hold for file 1 (and `NoEntryIn` fails for file 0) -/
example : ∃ s, initS exCfg11p = some s ∧ GcCountersOK s (exOps11p ++ [.pgc 85 none]) ∧
    (let r := (runS s exOps11p).1
     r.m.pfileNum = 2 ∧ r.m.pnext = [] ∧ (r.d.pfiles.get? 1).map List.length = some 45 ∧
     Covered r ∧ NoEntryIn r 1 ∧ ¬ NoEntryIn r 0 ∧ VisitedStable r 1) := ⟨_, rfl, by decide⟩

/-- the cycle: file 1 has length zero, file 0 lost its deleted tail, the first file is still 0 -/
example : ∃ s, initS exCfg11p = some s ∧
    (let r := (runS s (exOps11p ++ [.pgc 85 none])).1
     (r.d.phdr.map PriHeader.first, r.d.pfiles.map (fun p => (p.1, p.2.length)), r.m.visited)) =
      (some 0, [(0, 13), (1, 0), (2, 41)], [0, 1]) := ⟨_, rfl, by decide⟩

/-- the remark: once file 0 is unlinked too, the zero-length visited file 1 is the first file and is
    never unlinked by further cycles; a reopen (which clears the visited set) lets the next cycle unlink
    it -/
example : ∃ s, initS exCfg11p = some s ∧
    (let r2 := (runS s (exOps11p ++ [.pgc 85 none, .rm exKa, .flush [], .pgc 85 none, .pgc 85 none,
        .pgc 85 none])).1
     let r3 := (runS s (exOps11p ++ [.pgc 85 none, .rm exKa, .flush [], .pgc 85 none, .reopen [] true,
        .pgc 85 none])).1
     (r2.d.phdr.map PriHeader.first, r2.d.pfiles.map (fun p => (p.1, p.2.length)),
      r3.d.phdr.map PriHeader.first, r3.d.pfiles.map (fun p => (p.1, p.2.length)))) =
      (some 1, [(1, 0), (2, 41)], some 2, [(2, 41)]) := ⟨_, rfl, by decide⟩

end Sth
