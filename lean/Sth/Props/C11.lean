/-
C11 — Garbage collection actually reclaims space, in bounded cycles.

Property theorems only (helper lemmas: Sth/Lemmas/C11*.lean, on top of the C04 development: the
invariants `YInv` / `GInv` hold in every state reachable by ANY history — puts, removes, reads,
flushes, iterations, reopens, index GC and primary GC cycles, complete or cut short — under the
hypotheses of `C04_store_refines_map`).  `igc scanFree budget` / `pgc lowUse budget` are the steps of
`stepS` built from `indexGC` / `primaryGC` (Sth/Model/GC.lean); `budget := none` is a complete cycle.
`Released files f` = file `f` is unlinked or has length zero.

P2 (index side).
  * `C11_index_file_released`: in every reachable state, a non-current index file `f` that no bucket
    of the table points into (`IdxFileFree`, the very busy-set truncateFreeFiles computes) is released
    by ONE complete cycle with the free-file scan (`igc true none`): it has length zero or is unlinked;
    it is unlinked in that same cycle when it and every file before it, from the header's first file
    on, is free (the first file advances with the scan — "the oldest file at the time it is visited").
    A free file that was not the oldest when visited stays as a zero-length file and is unlinked by the
    first later cycle (of either kind) that visits it as the oldest file; so: 1 cycle to release every
    byte, 1 more cycle after the files before it have been released to unlink it.
  * `C11_index_released_stays`: no index GC cycle (any `scanFree`, any budget) ever makes a released
    index file hold bytes again or re-creates an unlinked one.
  * `C11_index_reap_free_file`: what `igc false none` does when it visits such a file (no free-file
    scan: the records have to fail the busy check one by one): reapIndexRecords marks every record
    deleted, merges them into one span from offset 0 and truncates the file to length zero (`stale`),
    after which the cycle unlinks it if it is the first file.  (Stated per file; that a cycle WITHOUT
    the scan reaches every file is not proved here — it does not when the resume point of an earlier
    interrupted cycle has been unlinked in the meantime, see the finding below.)

FINDING (index GC, stale resume point; model = real code, store/index/gc.go).  A cycle cut short by the
time limit records `gcResumeAt = n`.  If the files up to `n` become free, the next cycle's
truncateFreeFiles unlinks them and advances FirstFile past `n`, and the reap loop then starts at the
unlinked file `n`: `reapIndexRecords` fails ("cannot stat index file"), the cycle ends with an error
("GC failed") and the reap phase is skipped for that cycle; the resume point is cleared, so the next
cycle is normal.  Nothing is lost (the free files WERE released by the scan) but one cycle is wasted and
an error is logged.  `exOps11r` below is a concrete run (checked by `decide`).
-/
import Sth.Lemmas.C11Reach
import Sth.Lemmas.C11IdxReap

namespace Sth

/-- P2.  In every reachable state, one complete index GC cycle with the free-file scan releases every
    non-current index file no bucket points into; it unlinks it when every file from the header's
    first file up to it is free. -/
theorem C11_index_file_released (c : Cfg) (hc : c.Legal) (ops : List SOp) (hk : KeysOK c.kind ops)
    (hs : SizesOK ops) (s0 : SState) (hi : initS c = some s0) (hb : GcCountersOK s0 ops) (f : Nat)
    (hf : f < (runS s0 ops).1.m.ifileNum) (hfree : IdxFileFree (runS s0 ops).1.m f) :
    let s := (runS s0 ops).1
    let s' := (stepS s (.igc true none)).1
    Released s'.d.ifiles f ∧
    (∀ first, s.d.ihdr.map IdxHeader.first = some first →
      (∀ g, first ≤ g → g ≤ f → IdxFileFree s.m g) → s'.d.ifiles.get? f = none) :=
  index_file_released_inv (reach_yinv c hc ops hk hs s0 hi hb) hf hfree

/-- Index GC never un-releases: for every state, every `scanFree` and every budget, a released index
    file stays released and an unlinked one stays unlinked. -/
theorem C11_index_released_stays (s : SState) (scanFree : Bool) (budget : Budget) (f : Nat) :
    (Released s.d.ifiles f → Released (stepS s (.igc scanFree budget)).1.d.ifiles f) ∧
    (s.d.ifiles.get? f = none → (stepS s (.igc scanFree budget)).1.d.ifiles.get? f = none) :=
  igc_keeps_released s scanFree budget f

/-- What a cycle without the free-file scan does when it visits a free file (shorter than 2^31 bytes,
    the largest span one size word can describe): every record fails the busy check, is marked deleted
    and merged, and the file is truncated to length zero with result `stale`. -/
theorem C11_index_reap_free_file (c : Cfg) (hc : c.Legal) (ops : List SOp) (hk : KeysOK c.kind ops)
    (hs : SizesOK ops) (s0 : SState) (hi : initS c = some s0) (hb : GcCountersOK s0 ops) (f : Nat)
    (file : Bytes) (hfile : (runS s0 ops).1.d.ifiles.get? f = some file)
    (hf : f < (runS s0 ops).1.m.ifileNum) (hfree : IdxFileFree (runS s0 ops).1.m f)
    (hlen : file.length < two31) :
    reapIndexRecords (runS s0 ops).1.m f file none = (.stale, [], none) := by
  obtain ⟨first, sp, _, hl⟩ := (reach_yinv c hc ops hk hs s0 hi hb).ilog
  have h1 : first ≤ f := by
    cases Nat.lt_or_ge f first with
    | inl h => rw [hl.gone f h] at hfile; cases hfile
    | inr h => exact h
  have := hl.files f h1 (by omega)
  rw [this] at hfile
  cases hfile
  exact reapIndexRecords_free hfree (sp f) (hl.ok f h1 (by omega)) hlen

/-! Non-vacuity (1-byte index files: every flushed bucket record has its own file).  After `exOps11i`
    files 0..3 exist, the table points into 0, 2, 3; file 1 (the overwritten bucket of `exK2`) is free
    but not the oldest: one cycle empties it, it stays as a zero-length file.  After file 0 has become
    free too, the next cycle unlinks both and the first file is 2. -/

def exCfg11i : Cfg := { kind := .mh, bits := 8, ifs := 1, pfs := 1000, imm := false }
def exKa : Bytes := [18, 6, 1, 2, 3, 4, 5, 6]
def exKb : Bytes := [18, 6, 2, 2, 3, 4, 5, 7]
def exKc : Bytes := [18, 7, 3, 2, 9, 9, 9, 9, 1]
def exOps11i : List SOp :=
  [.put exKa [7], .flush [], .put exKb [1], .flush [], .put exKc [4], .flush [], .put exKb [8],
   .flush []]

example : exCfg11i.Legal := by decide
example : KeysOK exCfg11i.kind exOps11i ∧ SizesOK exOps11i := by
  refine ⟨?_, ?_⟩
  · unfold KeysOK; decide
  · unfold SizesOK; decide

/-- the hypotheses hold for file 1 and not for file 0; before the cycle file 1 has 22 bytes -/
example : ∃ s, initS exCfg11i = some s ∧ GcCountersOK s exOps11i ∧
    1 < (runS s exOps11i).1.m.ifileNum ∧ IdxFileFree (runS s exOps11i).1.m 1 ∧
    ¬ IdxFileFree (runS s exOps11i).1.m 0 ∧ ¬ Released (runS s exOps11i).1.d.ifiles 1 ∧
    ((runS s exOps11i).1.d.ifiles.get? 1).map List.length = some 22 := ⟨_, rfl, by decide⟩

/-- one cycle (with or without the scan) empties file 1 and keeps it as a zero-length file -/
example : ∃ s, initS exCfg11i = some s ∧
    (runS s (exOps11i ++ [.igc true none])).1.d.ifiles.map (fun p => (p.1, p.2.length)) =
      [(0, 22), (1, 0), (2, 22), (3, 22)] ∧
    (runS s (exOps11i ++ [.igc false none])).1.d.ifiles.map (fun p => (p.1, p.2.length)) =
      [(0, 22), (1, 0), (2, 22), (3, 22)] := ⟨_, rfl, by decide⟩

/-- once file 0 is free as well, one more cycle unlinks both; the first file is 2 -/
example : ∃ s, initS exCfg11i = some s ∧
    (let r := (runS s (exOps11i ++ [.igc true none, .put exKa [9], .flush [], .igc true none])).1
     (r.d.ihdr.map IdxHeader.first, r.d.ifiles.map (fun p => (p.1, p.2.length)))) =
      (some 2, [(2, 22), (3, 22), (4, 22)]) := ⟨_, rfl, by decide⟩

/-- the finding: a cycle interrupted in file 1 (`igc false (some 2)`), files 1..3 become free, the next
    complete cycle unlinks them in the scan and then fails at the stale resume point -/
def exOps11r : List SOp :=
  [.put exKa [7], .flush [], .put exKb [1], .flush [], .put exKc [4], .flush [], .put exKa [8],
   .flush [], .igc false (some 2), .put exKb [2], .flush [], .put exKc [5], .flush [], .put exKa [9],
   .flush []]

example : ∃ s, initS exCfg11i = some s ∧
    (let r := (runS s exOps11r).1
     (r.m.gcResume, r.d.ihdr.map IdxHeader.first, (indexGC r.m r.d true none).1,
       (indexGC r.m r.d true none).2.2.1.ihdr.map IdxHeader.first)) =
      (some 1, some 1, GcOut.err, some 4) := ⟨_, rfl, by decide⟩

end Sth
