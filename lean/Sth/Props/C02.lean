/-
C02 — A clean Close followed by reopen preserves the exact contents, whether the saved bucket snapshot
is used or the index log is rescanned from its first file.

Property theorems only (helper lemmas: Sth/Lemmas/C02*.lean on top of the C01 development).  The
theorems are about the physical model of Sth/Model/Store.lean driven through Sth/Model/Machine.lean:
`SOp.reopen order useSnapshot` is Store.Close (primary flush, index flush in an arbitrary order, bucket
snapshot, freelist flush), optionally followed by dropping the snapshot, and OpenStore with the same
configuration (snapshot path: `findLast` + saved table; rescan path: `scanIndex` over every record of
every index file).  They hold for every legal configuration (both primaries, both immutability modes,
bits 8..31, file limits 1 B .. 1 GiB), every finite sequence of Put / Get / Has / GetSize / Remove /
Flush / iteration / Close+reopen calls, every key set satisfying C01's premise and every value.

`C02_store_refines_map` says that with reopens at arbitrary positions — with or without the snapshot —
every call still returns what it returns on an in-memory map; in particular every reopen succeeds (a
failing OpenStore would output an error, the map outputs `gc`) and Get / Has / GetSize / iteration after
a reopen see exactly the contents from before.
-/
import Sth.Lemmas.C02

namespace Sth

/-- C02, main theorem: the store with clean Close + reopen among its calls refines the map. -/
theorem C02_store_refines_map (c : Cfg) (hc : c.Legal) (ops : List SOp) (ha : ∀ op ∈ ops, op.isC02 = true)
    (hk : KeysOK c.kind ops) (hs : SizesOK ops) (s : SState) (hi : initS c = some s) :
    (runS s ops).2 = (specRun c.kind c.imm [] ops).2 :=
  (store_refines_map_c02 c hc ops ha hk hs s hi).1

/-- In every reachable state, reopening with the saved snapshot and reopening by rescanning the index
    log load the same bucket table (on its non-zero entries), and every bucket then reads the same
    record list. -/
theorem C02_snapshot_eq_rescan (c : Cfg) (hc : c.Legal) (ops : List SOp)
    (ha : ∀ op ∈ ops, op.isC02 = true) (hk : KeysOK c.kind ops) (hs : SizesOK ops) (s0 : SState)
    (hi : initS c = some s0) (ord : List Nat) :
    let s := (runS s0 ops).1
    let s1 := (stepS s (.reopen ord true)).1
    let s2 := (stepS s (.reopen ord false)).1
    s1.m.buckets.filter (·.2 ≠ 0) = s2.m.buckets.filter (·.2 ≠ 0) ∧
      ∀ b, idxRecords s1.m s1.d b = idxRecords s2.m s2.d b := by
  obtain ⟨_, hI, hX⟩ := store_refines_map_c02 c hc ops ha hk hs s0 hi
  have hU := univ_of_keysOK hk (keysExact_all c.kind ops)
  exact reopen_snapshot_eq_rescan hc hU hI hX (by have := hs.1; omega) (by have := hs.2.1; omega) ord

/-- In every reachable state a reopen (either way) succeeds and changes no observation: every bucket
    reads the same record list and every readable primary record reads the same key and value. -/
theorem C02_reopen_preserves_observations (c : Cfg) (hc : c.Legal) (ops : List SOp)
    (ha : ∀ op ∈ ops, op.isC02 = true) (hk : KeysOK c.kind ops) (hs : SizesOK ops) (s0 : SState)
    (hi : initS c = some s0) (ord : List Nat) (useSnapshot : Bool) :
    let s := (runS s0 ops).1
    let s' := (stepS s (.reopen ord useSnapshot)).1
    (stepS s (.reopen ord useSnapshot)).2 = .gc ∧
      (∀ b, idxRecords s'.m s'.d b = idxRecords s.m s.d b) ∧
      (∀ blk k v, priGet s.m s.d blk = .got k v → priGet s'.m s'.d blk = .got k v) := by
  obtain ⟨_, hI, hX⟩ := store_refines_map_c02 c hc ops ha hk hs s0 hi
  have hU := univ_of_keysOK hk (keysExact_all c.kind ops)
  exact reopen_observations hc hU hI hX (by have := hs.1; omega) (by have := hs.2.1; omega) ord
    useSnapshot

/-- Reopening right after a reopen (any combination of snapshot / rescan) succeeds and changes no
    observation. -/
theorem C02_reopen_twice (c : Cfg) (hc : c.Legal) (ops : List SOp)
    (ha : ∀ op ∈ ops, op.isC02 = true) (hk : KeysOK c.kind ops) (hs : SizesOK ops) (s0 : SState)
    (hi : initS c = some s0) (ord ord' : List Nat) (us us' : Bool) :
    let s' := (stepS (runS s0 ops).1 (.reopen ord us)).1
    let s'' := (stepS s' (.reopen ord' us')).1
    (stepS s' (.reopen ord' us')).2 = .gc ∧
      (∀ b, idxRecords s''.m s''.d b = idxRecords s'.m s'.d b) ∧
      (∀ blk k v, priGet s'.m s'.d blk = .got k v → priGet s''.m s''.d blk = .got k v) := by
  obtain ⟨_, hI, hX⟩ := store_refines_map_c02 c hc ops ha hk hs s0 hi
  have hU := univ_of_keysOK hk (keysExact_all c.kind ops)
  exact reopen_twice hc hU hI hX (by have := hs.1; omega) (by have := hs.2.1; omega) ord ord' us us'

/-! Non-vacuity: 1-byte file limits (every record starts a new file, so the rescan walks many files),
    three keys sharing a bucket, an empty value, an overwrite, a removal, reopens with and without the
    snapshot, also back to back and with records still in the pools. -/

def exCfg02 : Cfg := { kind := .mh, bits := 8, ifs := 1, pfs := 1, imm := false }
def exOps02 : List SOp :=
  [.put [18, 6, 1, 2, 3, 4, 5, 6] [7], .put [18, 6, 1, 2, 3, 4, 5, 7] [], .reopen [1] false,
   .get [18, 6, 1, 2, 3, 4, 5, 7], .put [18, 6, 1, 2, 3, 4, 5, 6] [8, 9], .rm [18, 6, 1, 2, 3, 4, 5, 7],
   .put [18, 6, 1, 2, 9, 9, 9, 9] [1], .flush [], .put [18, 7, 2, 2, 9, 9, 9, 9, 1] [4], .reopen [] true,
   .reopen [] false, .get [18, 6, 1, 2, 3, 4, 5, 6], .has [18, 6, 1, 2, 3, 4, 5, 7],
   .size [18, 6, 1, 2, 9, 9, 9, 9], .iter [], .reopen [] false, .iter []]

example : exCfg02.Legal := by decide
example : (∀ op ∈ exOps02, op.isC02 = true) ∧ KeysOK exCfg02.kind exOps02 ∧ SizesOK exOps02 := by
  refine ⟨by decide, ?_, ?_⟩
  · unfold KeysOK; decide
  · unfold SizesOK; decide

def exCfg02Cid : Cfg := { kind := .cid, bits := 12, ifs := 40, pfs := 1, imm := true }
def exOps02Cid : List SOp :=
  [.put [1, 85, 18, 6, 1, 2, 3, 4, 5, 6] [7], .put [1, 85, 18, 6, 1, 2, 3, 4, 5, 7] [], .reopen [] true,
   .get [1, 85, 18, 6, 1, 2, 3, 4, 5, 7], .put [1, 85, 18, 6, 1, 2, 3, 4, 5, 6] [8, 9],
   .rm [1, 85, 18, 6, 1, 2, 3, 4, 5, 7], .put (18 :: 32 :: List.replicate 32 5) [3], .reopen [] false,
   .get [1, 85, 18, 6, 1, 2, 3, 4, 5, 6], .get (18 :: 32 :: List.replicate 32 5), .iter []]

example : exCfg02Cid.Legal := by decide
example : (∀ op ∈ exOps02Cid, op.isC02 = true) ∧ KeysOK exCfg02Cid.kind exOps02Cid ∧
    SizesOK exOps02Cid := by
  refine ⟨by decide, ?_, ?_⟩
  · unfold KeysOK; decide
  · unfold SizesOK; decide

end Sth
