/-
C10 widened — U1: legacy stores whose index holds UNMAPPABLE ("bad") entries.

An unmappable entry is an entry of a CURRENT record list whose offset lies at or beyond the end of the
legacy primary and below 2^63 (`LegacyC.badOff`): exactly the offsets IndexRemapper.RemapOffset rejects.
(RemapOffset converts the u64 offset to int64 first, so an offset ≥ 2^63 is negative, "inside the first
file", and is KEPT unchanged — such entries are not covered here; they then sit beyond the primary's
recorded end and are dropped lazily, like the entries of the single-chunk case below.)
`LegacyWFBad c C` is `LegacyWF c C` except that an entry of a current list may be unmappable instead of
naming a record (it keeps its place in the sorted, prefix-free list, its own location, a non-empty
prefix).  `LegacyC.spec` never contained such entries: it lists the records named by current entries, and
an unmappable entry names none.  So "the keys of the bad entries are absent" is "the store refines
`C.spec`".  `C10B.wfCheckBad` is the executable form (`C10B.wfBad_of_check`).

Multi-chunk case (`c.pfs ≤` length of the legacy primary, so NewIndexRemapper returns a remapper):
remapIndex rewrites the rejected offsets to 0 in place and puts every affected bucket's list, without the
rejected entries, into a pool that index.Open flushes itself — in Go map order, here the parameter
`order` of `upgradeOpen`, arbitrary — before it returns.  `C10_upgrade_contents_bad` is the full statement
for every `order`.

Single-chunk case (the whole legacy primary fits one file below the limit; no remapper, nothing is
rewritten, the bad entries STAY): see `C10_upgrade_bad_single`.
-/
import Sth.Lemmas.C10BSingle
import Sth.Props.C10b

namespace Sth

open LegacyC C10B

/-- C10 with unmappable entries, multi-chunk case.  For EVERY flush order `order` of the removal pool the
    upgrading open succeeds, the first `Store.Flush` changes nothing, and the store it returns — and the
    store a later `openStoreR` of the directory loads — refines the map `C.spec` (which holds nothing for
    an unmappable entry: its key is absent) for every later run; the consistency check of C07 is clean on
    the returned directory against the live table, on the reopened one against the rescanned table, and
    after every later run. -/
theorem C10_upgrade_contents_bad (c : Cfg) (hc : c.Legal) (hk : c.kind = .mh) (C : LegacyC)
    (hwf : LegacyWFBad c C) (hmulti : c.pfs ≤ (legacyPrimary C.recs).length)
    (ops : List SOp) (ha : ∀ op ∈ ops, op.isC02 = true) (hkeys : KeysOK .mh (C.keyOps ++ ops))
    (hn : C.recs.length + 2 * C.gens.length + 1 + ops.length < 1073741824)
    (hB : specW C.spec + (ops.map SOp.bytes).sum < two31) (order : List Nat) :
    ∃ d m, upgradeOpen c C.dir order = some (d, m) ∧ upgradeStoreWith c C.dir order = some d ∧
      storeFlush m d [] = some (m, d) ∧
      (runS ⟨c, m, d⟩ ops).2 = (specRun .mh c.imm C.spec ops).2 ∧
      fsck .mh d m.buckets = [] ∧
      fsck .mh (runS ⟨c, m, d⟩ ops).1.d (runS ⟨c, m, d⟩ ops).1.m.buckets = [] ∧
      ∃ dr mr, openStoreR c d = (dr, .ok mr) ∧
        (runS ⟨c, mr, dr⟩ ops).2 = (specRun .mh c.imm C.spec ops).2 ∧
        fsck .mh dr mr.buckets = [] := by
  have hU : Univ .mh (digestsOf .mh (C.keyOps ++ ops)) := univ_of_keysOK hkeys (keysExact_all .mh _)
  have hUc : Univ c.kind (digestsOf .mh (C.keyOps ++ ops)) := by rw [hk]; exact hU
  have hwfU := wfBadU_of_wfBad hwf ops
  have hnr := needRemap_of_le c C hmulti
  obtain ⟨ifs, h1, h2, h3⟩ := upgradeOpen_stateF hc hk hwfU (by omega) (by omega) hnr order
  have x : CtxB c (digestsOf .mh (C.keyOps ++ ops)) C ifs :=
    ⟨hc, hk, hU, hwfU, by omega, by omega, h2, h3, hnr⟩
  obtain ⟨hC, hfree, hcid, hin, hpn⟩ := cinv_F x order (by omega) (by omega)
  have hk' : ∀ op ∈ ops, ∀ k, op.keyOf = some k → ∀ dig, keyClass c.kind k = .ok dig →
      (k, dig) ∈ digestsOf .mh (C.keyOps ++ ops) :=
    fun op ho k hkey dig hcls => mem_digestsOf (List.mem_append_right _ ho) hkey (by rw [← hk]; exact hcls)
  have hrun := (run_ok2 hc hUc ops (stateF c C ifs order) C.spec _ _ hC.inv hC.x ha hk' hn hB).1
  rw [hk] at hrun
  have hfs : fsck .mh (stateF c C ifs order).d (stateF c C ifs order).m.buckets = [] := by
    have := hC.ok; rw [hk] at this; exact fsck_of_diskOK this
  have hfs2 : fsck .mh (runS (stateF c C ifs order) ops).1.d (runS (stateF c C ifs order) ops).1.m.buckets = [] := by
    have := (run_c07 hc hUc ops (stateF c C ifs order) C.spec _ _ hC ha hk' hn hB).ok
    rw [hk] at this
    exact fsck_of_diskOK this
  obtain ⟨files', mr, r1, r2, r3, r4, _, _, r7, r8⟩ :=
    reopen_quiesced (cfg := c) (m := (stateF c C ifs order).m) (d := (stateF c C ifs order).d)
      hc hk hC.inv hC.x hC.snap hfree hcid hin hpn
  have hrun2 := (run_ok2 hc hUc ops ⟨c, mr, { (stateF c C ifs order).d with ifiles := files' }⟩ C.spec _ _
    r3 r4 ha hk' hn hB).1
  rw [hk] at hrun2
  have hfs3 : fsck .mh { (stateF c C ifs order).d with ifiles := files' } mr.buckets = [] := by
    have := hC.ok
    rw [hk] at this
    exact fsck_of_diskOK (diskOK_reopened this hC.inv.i.sorted r2 r8 r7)
  refine ⟨(stateF c C ifs order).d, (stateF c C ifs order).m, h1, ?_, ?_, hrun, hfs, hfs2,
    _, mr, r1, hrun2, hfs3⟩
  · unfold upgradeStoreWith; rw [h1]; rfl
  · unfold storeFlush outstanding
    rw [hin, hpn]
    rfl

/-- unmappable entries contribute nothing to the contents, every element of the contents comes from a
    mappable entry of a current list -/
theorem C10_bad_entries_absent (c : Cfg) (C : LegacyC) (hwf : LegacyWFBad c C) :
    (∀ e, C.badOff e.blk.off → C.specEntry e = none) ∧
    ∀ x ∈ C.spec, ∃ b rl e, C.table.get? b = some rl ∧ e ∈ rl ∧ ¬ C.badOff e.blk.off ∧
      C.specEntry e = some x := by
  refine ⟨fun e h => specEntry_bad C e h, ?_⟩
  intro x hx
  obtain ⟨b, rl, e, h1, h2, h3⟩ := (mem_spec x).mp hx
  refine ⟨b, rl, e, h1, h2, ?_, h3⟩
  intro hb
  rw [specEntry_bad C e hb] at h3
  cases h3

/-! ### Non-vacuity (multi-chunk)

The store of Sth/Props/C10b.lean with two unmappable entries, exactly as the harness writes them
(`legacyOf … bad := [4, 5]`): record 5's entry in bucket 1 (which also holds two good entries) and record
4's entry, the only entry of bucket 3 — whose list becomes EMPTY.  Two buckets in the pool, so the two
flush orders give different directories; the theorem covers both. -/

def exCBad10 : LegacyC :=
  { bits := 8, recs := exBadRecs10,
    gens := [(1, [⟨[2, 3, 4, 5, 6], ⟨0, 11⟩⟩, ⟨[2, 3, 4, 5, 7], ⟨15, 8⟩⟩]),
             (1, [⟨[2, 3, 4, 5, 6], ⟨0, 11⟩⟩, ⟨[2, 3, 4, 5, 7], ⟨15, 8⟩⟩, ⟨[3, 3, 3, 3, 3], ⟨119, 9⟩⟩]),
             (2, [⟨[2, 9, 9, 9, 9], ⟨27, 10⟩⟩]),
             (3, [⟨[1, 1, 1, 1, 1], ⟨118, 12⟩⟩]),
             (4, [⟨[4, 4, 4, 4, 4], ⟨83, 10⟩⟩])],
    freed := some [3] }

def exOpsBad10 : List SOp :=
  [.get [18, 6, 1, 3, 3, 3, 3, 3], .get [18, 6, 3, 1, 1, 1, 1, 1], .get [18, 6, 1, 2, 3, 4, 5, 7],
   .put [18, 6, 3, 1, 1, 1, 1, 1] [5, 5], .flush [], .reopen [] false, .iter []]

example : exCBad10.dir = legacyOf 8 exBadRecs10 [3] [4, 5] [] true := by decide +kernel
example : LegacyWFBad exCfg10 exCBad10 := wfBad_of_check (by decide)
example : exCfg10.pfs ≤ (legacyPrimary exCBad10.recs).length := by decide
example : exCBad10.badOff 119 ∧ exCBad10.badOff 118 := by decide
example : (∀ op ∈ exOpsBad10, op.isC02 = true) ∧ KeysOK .mh (exCBad10.keyOps ++ exOpsBad10) ∧
    exCBad10.recs.length + 2 * exCBad10.gens.length + 1 + exOpsBad10.length < 1073741824 ∧
    specW exCBad10.spec + (exOpsBad10.map SOp.bytes).sum < two31 := by
  refine ⟨by decide, ?_, by decide, by decide⟩
  unfold KeysOK; decide
example : exCBad10.spec.map (·.2.1) =
    [[18, 6, 1, 2, 3, 4, 5, 6], [18, 6, 1, 2, 3, 4, 5, 7], [18, 6, 2, 2, 9, 9, 9, 9], [18, 6, 4, 4, 4, 4, 4, 4]] := by
  decide
/-- the two flush orders give different directories … -/
example : upgradeStoreWith exCfg10 exCBad10.dir [1, 3] ≠ upgradeStoreWith exCfg10 exCBad10.dir [3, 1] := by
  decide +kernel
/-- … in both, the keys of the unmappable entries are absent, the others read their values, and the
    consistency check is clean -/
example : ∀ order ∈ [[1, 3], [3, 1]], (upgradeOpen exCfg10 exCBad10.dir order).map (fun dm =>
      (exBadRecs10.map fun kv => match (storeGet dm.2 dm.1 kv.1).2 with
        | .found v => some v
        | _ => none, fsck .mh dm.1 dm.2.buckets)) =
    some ([some [7, 7, 7], some [], some [1, 2], none, none, none, some [6, 6]], []) := by decide +kernel

/-! ### Single-chunk case

When the whole legacy primary fits one file below the limit, NewIndexRemapper returns nil: remapIndex only
stamps the header, no offset is rewritten (none needs to be) and the unmappable entries STAY in their
record lists, on disk and in every later generation of those lists.  What the code then relies on is the
bounds test of the primary (`ErrOutOfBounds` for an offset at or beyond the recorded end), which makes
`Store.Get`/`Put`/`Remove` drop such an entry when a lookup meets it.

What is proved (`C10_upgrade_bad_single`): the open succeeds for every `order` (there is no pool); every
bucket reads its legacy list UNCHANGED; the primary refuses the location of every unmappable entry; and
`Store.Get` of EVERY well-formed key answers what the map `C.spec` answers — the value for a key of the
contents, absent for every other key, in particular for a key whose lookup meets an unmappable entry.
The consistency check is clean IF told to ignore the unmappable offsets (`fsck … (ignore := badOffsets C)`,
what the harness does), given that the unmappable entries of a list carry pairwise different offsets;
without `ignore` it is NOT clean (it reports each unmappable entry — witness below).

What is NOT proved: the refinement for arbitrary later runs (Put / Remove / Flush / reopen).  The
invariant of C01 (`Inv`: every index entry resolves to a record of the map) does not hold in this state,
and the development has no weaker invariant with dangling entries; the example below is evaluated through
such a run and agrees with the map. -/

theorem C10_upgrade_bad_single (c : Cfg) (hc : c.Legal) (hk : c.kind = .mh) (C : LegacyC)
    (hwf : LegacyWFBad c C) (hsingle : (legacyPrimary C.recs).length < c.pfs)
    (hn : C.recs.length + C.gens.length + 1 < 1073741824) (order : List Nat) :
    ∃ d m, upgradeOpen c C.dir order = some (d, m) ∧ storeFlush m d [] = some (m, d) ∧
      (∀ b, C.table.get? b = none → idxRecords m d b = .ok none) ∧
      (∀ b rl, C.table.get? b = some rl → idxRecords m d b = .ok (some rl)) ∧
      (∀ b rl e, C.table.get? b = some rl → e ∈ rl → C.badOff e.blk.off → priGet m d e.blk = .err) ∧
      (∀ key dig, keyClass .mh key = .ok dig →
        (storeGet m d key).2 = match C.spec.get dig with
          | some (_, v) => .found v
          | none => .absent) ∧
      ((∀ b rl, C.table.get? b = some rl → (rl.map (·.blk.off)).Nodup) →
        fsck .mh d m.buckets (badOffsets C) = []) := by
  have hwfU := wfBadU_of_wfBad hwf []
  have hnr := needRemap_of_lt c hc.2.2.2.2.1 C hsingle
  obtain ⟨ifs, h1, h2, h3⟩ := upgradeOpen_single hc hk hwfU (by omega) (by omega) hnr order
  have x : CtxS c (digestsOf .mh (C.keyOps ++ [])) C ifs :=
    ⟨hc, hk, hwfU, fun p hp => digestsOf_cls hp, by omega, by omega, h2, h3, hnr⟩
  refine ⟨C.diskU c ifs, C.memU c ifs, h1, ?_, ?_, ?_, ?_, fun key dig h => get_single x key dig h,
    fun ho => fsck_single x ho⟩
  · rfl
  · intro b hb
    rcases bucket_reads_s x b with ⟨_, h⟩ | ⟨rl, _, g, _⟩
    · exact h
    · rw [hb] at g; cases g
  · intro b rl hb
    rcases bucket_reads_s x b with ⟨g, _⟩ | ⟨rl', _, g, _, _, h⟩
    · rw [hb] at g; cases g
    · rw [hb] at g; cases g; exact h
  · intro b rl e hb he hbad
    rcases entry_cases_s x b rl hb e he with ⟨_, _, _, h⟩ | ⟨_, _, _, hnb, _⟩
    · exact h
    · exact absurd hbad hnb

/-! Non-vacuity and witnesses (single-chunk): the same store with a 200-byte primary limit (the legacy
    primary has 97 bytes). -/

def exCfgS10 : Cfg := { kind := .mh, bits := 8, ifs := 60, pfs := 200, imm := false }

example : exCfgS10.Legal ∧ LegacyWFBad exCfgS10 exCBad10 ∧ (legacyPrimary exCBad10.recs).length < exCfgS10.pfs ∧
    (∀ b rl, exCBad10.table.get? b = some rl → (rl.map (·.blk.off)).Nodup) := by
  refine ⟨by decide, wfBad_of_check (by decide), by decide, ?_⟩
  intro b rl h
  have hall : ∀ br ∈ exCBad10.table, (br.2.map (·.blk.off)).Nodup := by decide
  exact hall (b, rl) (NMap.mem_of_get? h)
example : badOffsets exCBad10 = [119, 118] := by decide
/-- nothing is rewritten: the index chunks are the legacy index records, byte for byte; the unmappable
    entries read absent, the others their values; the check is clean with the offsets ignored and reports
    exactly the two unmappable entries without -/
example : (upgradeOpen exCfgS10 exCBad10.dir []).map (fun dm =>
      (dm.1.ifiles.flatMap (·.2) == logBytes exCBad10.gens,
       exBadRecs10.map fun kv => match (storeGet dm.2 dm.1 kv.1).2 with
        | .found v => some v
        | _ => none,
       fsck .mh dm.1 dm.2.buckets (badOffsets exCBad10), (fsck .mh dm.1 dm.2.buckets).length)) =
    some (true, [some [7, 7, 7], some [], some [1, 2], none, none, none, some [6, 6]], [], 2) := by
  decide +kernel
/-- a later run with writes on the unmappable keys, a flush, a reopen and an iteration agrees with the
    map on this store (evaluation; not covered by a theorem) -/
example : (upgradeOpen exCfgS10 exCBad10.dir []).map (fun dm => (runS ⟨exCfgS10, dm.2, dm.1⟩ exOpsBad10).2) =
    some (specRun .mh false exCBad10.spec exOpsBad10).2 := by decide +kernel

end Sth
