/-
C13F — the freelist hand-over is exactly-once under EVERY interleaving (concurrent, section-level model).

Model: Sth/Model/FreeConc.lean — writers (`Put`), flushers (`Flush`, two lock sections) and the single collector
(`ToGC`: `.gc` test, inner Flush, close / rename / reopen under `flushLock`; then `apply` = read the `.gc` file and
`remove` = delete it), at the granularity of the lock sections of store/freelist/freelist.go (the stretches between
its `verifhook.At` points).  `step s i` runs the next section of thread `i`; a section that needs `flushLock` while
another thread holds it is not enabled; `run s sched` folds a schedule (a list of thread numbers, disabled steps
skipped).  Any number of threads, any programs, any schedule.

  `account s`     = `consumed ++ gcEntries ++ fileEntries ++ inFlight ++ pool`: the entries of every removed `.gc` file,
                    of the present `.gc` file, of the freelist file, the blocks a Flush holds between its two
                    sections (thread order), and the pool — oldest stage first.
  `putBlocks s`   the blocks of the Put calls that have returned, in order of return (ghost log `puts`).
  `putsBy s i`    those of thread `i`.
  `SingleCollector progs`  at most one thread's program contains togc / apply / remove.

STATUS.  All statements proved in full for every list of programs and every schedule, by an invariant
(Sth/Lemmas/C13F1.lean `Inv`) preserved by every section (C13F2 `step_inv`).  The accounting holds as an EQUALITY of
lists — the hand-over is globally FIFO — which gives the permutation (1), the per-writer order (3) and no-duplicates.
Two negative witnesses, evaluated by `decide`: without `flushLock` in ToGC's close/rename/reopen a block is lost
(`C13_handover_without_flushlock_loses`); with two collector threads a `.gc` file is overwritten by the second rename
and its entries are lost (`C13_handover_two_collectors_loses`) — so both premises are needed.
`C13_handover_replay_exactly_once` is the same accounting for `FreeConc.replay` (recorded events, no programs).
-/
import Sth.Lemmas.C13F4

namespace Sth
open FreeConc

/-! ### (1) exactly once, every interleaving -/

/-- C13F (1).  In every state of every schedule, the stages of the hand-over hold exactly the blocks of the Put calls
    that have returned, each once (a permutation). -/
theorem C13_concurrent_handover_exactly_once (progs : List (List Op)) (hc : SingleCollector progs)
    (sched : List Nat) :
    let s := run (init progs) sched
    (s.consumed ++ gcEntries s ++ fileEntries s ++ inFlight s ++ s.pool).Perm (putBlocks s) := by
  obtain ⟨c, hc⟩ := hc
  intro s
  have := (run_inv (init_inv hc) sched).acct
  unfold account at this
  exact this ▸ List.Perm.refl _

/-- C13F (1'), the strong form: the stages, oldest first, ARE the log of returned Puts — the hand-over is globally
    first-in first-out and nothing is reordered, lost or repeated. -/
theorem C13_concurrent_handover_global_fifo (progs : List (List Op)) (hc : SingleCollector progs)
    (sched : List Nat) :
    let s := run (init progs) sched
    s.consumed ++ gcEntries s ++ fileEntries s ++ inFlight s ++ s.pool = s.puts.map (·.2) := by
  obtain ⟨c, hc⟩ := hc
  exact (run_inv (init_inv hc) sched).acct

/-- the returned Puts are Puts of the programs: with what is still to run they make up the programs' Puts -/
theorem C13_concurrent_handover_puts_of_programs (progs : List (List Op)) (sched : List Nat) :
    let s := run (init progs) sched
    (putBlocks s ++ remaining s).Perm (progs.flatMap progPuts) :=
  (run_led (init_led progs) sched).all

/-- C13F (1''), corollary: if the blocks put by the programs are pairwise distinct, no block is in two stages or
    twice in one. -/
theorem C13_concurrent_handover_nodup (progs : List (List Op)) (hc : SingleCollector progs)
    (hd : (progs.flatMap progPuts).Nodup) (sched : List Nat) :
    let s := run (init progs) sched
    (s.consumed ++ gcEntries s ++ fileEntries s ++ inFlight s ++ s.pool).Nodup := by
  intro s
  have h1 := C13_concurrent_handover_exactly_once progs hc sched
  have h2 := C13_concurrent_handover_puts_of_programs progs sched
  have : (putBlocks s ++ remaining s).Nodup := h2.nodup_iff.2 hd
  exact h1.nodup_iff.2 (List.nodup_append.1 this).1

/-! ### (2) nothing lost at quiescence -/

/-- C13F (2).  When every thread has finished its program, every block put by the programs is in a removed `.gc`
    file, in the `.gc` file, in the freelist file or in the pool — exactly once; no Flush is in flight; the lock is
    free; the freelist file exists and is open; no Flush ever failed to write. -/
theorem C13_concurrent_handover_nothing_lost_at_quiescence (progs : List (List Op)) (hc : SingleCollector progs)
    (sched : List Nat) (hq : Quiescent (run (init progs) sched)) :
    let s := run (init progs) sched
    (s.consumed ++ gcEntries s ++ fileEntries s ++ s.pool).Perm (progs.flatMap progPuts) ∧
    inFlight s = [] ∧ s.flushLock = none ∧ s.file.isSome = true ∧ s.fileOpen = true ∧ s.dropped = [] := by
  obtain ⟨c, hc⟩ := hc
  intro s
  have hinv := run_inv (init_inv hc) sched
  have hled := run_led (init_led progs) sched
  obtain ⟨hfl, hlk⟩ := hinv.quiescent hq
  have hacct := hinv.acct
  unfold account at hacct
  rw [hfl, List.append_nil] at hacct
  have hfo := hinv.unlocked_fileOK hlk
  exact ⟨hacct ▸ hled.quiescent hq, hfl, hlk, hfo.1, hfo.2, hinv.nodrop⟩

/-! ### (3) per-writer order -/

/-- C13F (3).  The blocks put by ONE thread appear in the stages in the order that thread put them (a sublist of
    `consumed ++ gc ++ file ++ inFlight ++ pool`), and they are the first Puts of its program, in program order: what
    it has put plus what its program still puts is what its program puts. -/
theorem C13_concurrent_handover_order (progs : List (List Op)) (hc : SingleCollector progs) (sched : List Nat)
    (i : Nat) :
    let s := run (init progs) sched
    (putsBy s i).Sublist (s.consumed ++ gcEntries s ++ fileEntries s ++ inFlight s ++ s.pool) ∧
    ∀ t, s.threads[i]? = some t → putsBy s i ++ progPuts t.prog = progPuts (progs[i]?.getD []) := by
  intro s
  refine ⟨?_, (run_led (init_led progs) sched).per i⟩
  rw [C13_concurrent_handover_global_fifo progs hc sched]
  exact List.Sublist.map _ List.filter_sublist

/-! ### (4) the rename window is never visible -/

/-- C13F (4a).  Whenever `flushLock` is free the freelist file exists and is open: the close / rename / reopen
    window of ToGC lies inside one span of the lock. -/
theorem C13_concurrent_handover_file_exists_when_unlocked (progs : List (List Op)) (hc : SingleCollector progs)
    (sched : List Nat) (hl : (run (init progs) sched).flushLock = none) :
    (run (init progs) sched).file ≠ none ∧ (run (init progs) sched).fileOpen = true := by
  obtain ⟨c, hc⟩ := hc
  have := (run_inv (init_inv hc) sched).unlocked_fileOK hl
  exact ⟨by intro h; have h1 := this.1; simp [h] at h1, this.2⟩

/-- C13F (4b).  A Flush about to run its section 2 (the write) finds the file present and open, in every reachable
    state; and no Flush has ever failed to write (`dropped = []`). -/
theorem C13_concurrent_handover_flush_finds_file (progs : List (List Op)) (hc : SingleCollector progs)
    (sched : List Nat) :
    let s := run (init progs) sched
    (∀ (i : Nat) (t : Thread) (bs : List Blk) (k : Bool), s.threads[i]? = some t → t.pc = .flushing bs k →
      ∃ f, s.file = some f ∧ s.fileOpen = true ∧ s.flushLock = some i ∧
        flushWrite s bs = { s with file := some (f ++ bs) }) ∧
    s.dropped = [] := by
  obtain ⟨c, hc⟩ := hc
  intro s
  have hinv := run_inv (init_inv hc) sched
  refine ⟨?_, hinv.nodrop⟩
  intro i t bs k hi hp
  have hfo := hinv.flushing_fileOK hi hp
  obtain ⟨f, hf⟩ := Option.isSome_iff_exists.1 hfo.1
  refine ⟨f, hf, hfo.2, (hinv.lock i t hi).1 (by simp [hp, Pc.holds]), ?_⟩
  simp only [flushWrite]
  rw [hf, hfo.2]

/-- C13F (4c).  `flushLock` is exclusive: two threads inside a lock span (between Flush's sections, or in ToGC's
    close / rename / reopen) are the same thread, and the holder recorded is that thread.  In particular at most one
    thread carries in-flight blocks. -/
theorem C13_concurrent_handover_lock_exclusive (progs : List (List Op)) (hc : SingleCollector progs)
    (sched : List Nat) (i j : Nat) (ti tj : Thread)
    (hi : (run (init progs) sched).threads[i]? = some ti) (hj : (run (init progs) sched).threads[j]? = some tj)
    (hhi : ti.pc.holds = true) (hhj : tj.pc.holds = true) :
    i = j ∧ (run (init progs) sched).flushLock = some i := by
  obtain ⟨c, hc⟩ := hc
  have hinv := run_inv (init_inv hc) sched
  have h1 := (hinv.lock i ti hi).1 hhi
  have h2 := (hinv.lock j tj hj).1 hhj
  rw [h1] at h2
  exact ⟨by simpa using h2, h1⟩

/-! ### (5) non-vacuity: a concrete interleaving -/

/-- two writers (two Puts each), one extra flusher, and the collector running the two passes of `gc()`
    (ToGC; processFreeList = ToGC again (returns the existing file), apply, remove) -/
def c13fProgs : List (List Op) :=
  [[.put 1, .put 2], [.put 3, .put 4], [.flush, .flush],
   [.togc, .togc, .apply, .remove, .togc, .togc, .apply, .remove]]

/-- thread 2 flushes: Put(3) lands between its two sections; the collector's ToGC: Put(2) lands inside its inner Flush;
    thread 2 flushes again between the collector's inner Flush and its close (the collector's attempt to take the
    lock meanwhile is not enabled: the 10th entry is skipped); Put(4) lands between rename and reopen -/
def c13fSched : List Nat :=
  [0, 2, 1, 2, 3, 3, 0, 3, 2, 3, 2, 3, 3, 1, 3, 3, 3, 3, 3, 3, 3, 3, 3, 3, 3, 3, 3]

example : SingleCollector c13fProgs := ⟨3, by decide⟩
example : (c13fProgs.flatMap progPuts).Nodup := by decide

/-- after 3 steps: Put(3) is in the pool while thread 2 holds [1] between the sections of its Flush -/
example :
    let s := run (init c13fProgs) (c13fSched.take 3)
    s.pool = [3] ∧ inFlight s = [1] ∧ s.flushLock = some 2 ∧ account s = [1, 3] ∧ putBlocks s = [1, 3] := by decide

/-- after 10 steps: the second Flush of thread 2 holds [2] after the collector's inner Flush wrote [1, 3]; the
    collector (at `togcFlushed`) could not take the lock -/
example :
    let s := run (init c13fProgs) (c13fSched.take 10)
    s.file = some [1, 3] ∧ inFlight s = [2] ∧ s.flushLock = some 2 ∧
    (s.threads[3]?.map (·.pc)) = some .togcFlushed ∧ step s 3 = none ∧ account s = [1, 3, 2] := by decide

/-- after 14 steps: renamed, not yet reopened: the file is away, the lock is held by the collector, Put(4) went to the
    pool; what thread 2 flushed after the inner Flush is in the `.gc` file -/
example :
    let s := run (init c13fProgs) (c13fSched.take 14)
    s.file = none ∧ s.gc = some [1, 3, 2] ∧ s.pool = [4] ∧ s.flushLock = some 3 ∧ account s = [1, 3, 2, 4] := by
  decide

/-- the whole schedule: every program finished; both passes consumed; nothing lost, nothing twice -/
theorem C13_example_concurrent_handover :
    let s := run (init c13fProgs) c13fSched
    Quiescent s ∧ s.consumed = [1, 3, 2, 4] ∧ s.applied = [1, 3, 2, 4] ∧ s.gc = none ∧ s.file = some [] ∧
    s.pool = [] ∧ inFlight s = [] ∧ s.flushLock = none ∧ s.dropped = [] ∧
    s.puts = [(0, 1), (1, 3), (0, 2), (1, 4)] ∧
    (s.consumed ++ gcEntries s ++ fileEntries s ++ s.pool).Perm (c13fProgs.flatMap progPuts) ∧
    putsBy s 0 = [1, 2] ∧ putsBy s 1 = [3, 4] := by decide

/-! ### negative witnesses: why `flushLock` in ToGC, and why a single collector -/

def c13fNoLockProgs : List (List Op) := [[.put 1, .put 2], [.flush], [.togc]]
def c13fNoLockSched : List Nat := [0, 2, 2, 2, 0, 1, 2, 2, 1, 2]

/-- Without `flushLock` around ToGC's close / rename / reopen (`runNoLock`): Put(1); the collector's ToGC flushes it;
    Put(2); thread 1's Flush takes [2]; the collector closes and renames; thread 1's write finds no file: block 2 is
    in no stage (`dropped`), the accounting fails, although all programs finished.  On the same schedule the real
    protocol (`run`) keeps the collector out until the Flush has written. -/
theorem C13_handover_without_flushlock_loses :
    let s := runNoLock (init c13fNoLockProgs) c13fNoLockSched
    SingleCollector c13fNoLockProgs ∧ Quiescent s ∧ putBlocks s = [1, 2] ∧ account s = [1] ∧ s.dropped = [2] ∧
    ¬ (account s).Perm (putBlocks s) ∧
    (let s' := run (init c13fNoLockProgs) c13fNoLockSched
     account s' = [1, 2] ∧ s'.dropped = []) := by
  refine ⟨⟨2, by decide⟩, by decide, by decide, by decide, by decide, ?_, by decide⟩
  intro h
  have := h.length_eq
  revert this
  decide

def c13fTwoCollProgs : List (List Op) := [[.put 1, .put 2], [.togc], [.togc]]
def c13fTwoCollSched : List Nat := [0, 1, 2, 1, 1, 1, 1, 1, 0, 2, 2, 2, 2, 2]

/-- With TWO threads in ToGC (each passed the `.gc`-absent test before the other renamed): the second rename replaces
    the `.gc` file of the first, whose entries are gone: block 1 is in no stage. -/
theorem C13_handover_two_collectors_loses :
    let s := run (init c13fTwoCollProgs) c13fTwoCollSched
    ¬ SingleCollector c13fTwoCollProgs ∧ Quiescent s ∧ putBlocks s = [1, 2] ∧ account s = [2] ∧
    s.gc = some [2] ∧ s.consumed = [] ∧ s.dropped = [] := by
  refine ⟨?_, by decide, by decide, by decide, by decide, by decide, by decide⟩
  rintro ⟨c, hc⟩
  have h1 := hc 1 (by decide)
  have h2 := hc 2 (by decide)
  by_cases hc1 : c = 1
  · subst hc1; exact absurd (h2 (by decide) .togc (by decide)) (by decide)
  · exact absurd (h1 (fun h => hc1 h.symm) .togc (by decide)) (by decide)

/-! ### (6) replay of recorded events -/

/-- C13F (6), event level.  For every list of events on which the replay succeeds from a state satisfying the
    accounting (e.g. `replayInit`), with the collector's events (togc.*, apply, remove) all from one thread:
    the accounting of (1'), no failed write, the file present whenever the lock is free. -/
theorem C13_handover_replayFrom_exactly_once (evs : List (Nat × Ev)) (c : Nat)
    (hc : ∀ e ∈ evs, e.2.collector = true → e.1 = c) (s : State) (hs : replayFrom replayInit evs = some s) :
    (s.consumed ++ gcEntries s ++ fileEntries s ++ inFlight s ++ s.pool).Perm (putBlocks s) ∧
    s.consumed ++ gcEntries s ++ fileEntries s ++ inFlight s ++ s.pool = s.puts.map (·.2) ∧
    s.dropped = [] ∧ (s.flushLock = none → s.file.isSome = true ∧ s.fileOpen = true) := by
  have hinv := replayFrom_inv evs (replayInit_inv c) hc hs
  have := hinv.acct
  unfold account at this
  exact ⟨this ▸ List.Perm.refl _, this, hinv.nodrop, fun hl => hinv.unlocked_fileOK hl⟩

/-- C13F (6).  The same for the textual events `FreeConc.replay` takes (thread, "put:<n>" | "flush.swapped" |
    "flush.written" | "flush.empty" | "togc.exists" | "togc.closed" | "togc.renamed" | "togc.reopened" | "apply" |
    "remove"): whenever the replay of a recorded schedule succeeds and one thread `c` issued all the
    togc.* / apply / remove events, every block put is in exactly one stage. -/
theorem C13_handover_replay_exactly_once (events : List (Nat × String)) (c : Nat)
    (hc : ∀ x ∈ events, ∀ ev, parseEv x.2 = some ev → ev.collector = true → x.1 = c)
    (s : State) (hs : replay events = some s) :
    (s.consumed ++ gcEntries s ++ fileEntries s ++ inFlight s ++ s.pool).Perm (putBlocks s) ∧
    s.consumed ++ gcEntries s ++ fileEntries s ++ inFlight s ++ s.pool = s.puts.map (·.2) ∧
    s.dropped = [] ∧ (s.flushLock = none → s.file.isSome = true ∧ s.fileOpen = true) := by
  unfold replay at hs
  split at hs
  · rename_i evs hp
    refine C13_handover_replayFrom_exactly_once evs c ?_ s hs
    intro e he hcoll
    obtain ⟨x, hx, hx1, hx2⟩ := parseEvents_some hp e he
    rw [← hx1]
    exact hc x hx e.2 hx2 hcoll
  · cases hs

/-- the events of the schedule of `C13_example_concurrent_handover`, as the hooks of the real code report them (the
    collector's inner Flush reports flush.swapped / flush.written; its blocked attempt to take the lock is no event) -/
def c13fEvents : List (Nat × String) :=
  [(0, "put:1"), (2, "flush.swapped"), (1, "put:3"), (2, "flush.written"),
   (3, "flush.swapped"), (0, "put:2"), (3, "flush.written"), (2, "flush.swapped"), (2, "flush.written"),
   (3, "togc.closed"), (3, "togc.renamed"), (1, "put:4"), (3, "togc.reopened"),
   (3, "togc.exists"), (3, "apply"), (3, "remove"),
   (3, "flush.swapped"), (3, "flush.written"), (3, "togc.closed"), (3, "togc.renamed"), (3, "togc.reopened"),
   (3, "togc.exists"), (3, "apply"), (3, "remove")]

/-- the replay succeeds and ends in the same shared state as the small-step run -/
theorem C13_example_replay :
    (replay c13fEvents).map shared = some (shared (run (init c13fProgs) c13fSched)) ∧
    (replay c13fEvents).map (fun s => (s.consumed, s.gc, s.file, s.pool)) = some ([1, 3, 2, 4], none, some [], []) ∧
    (replay c13fEvents).map (fun s => (s.flushLock, s.puts, s.dropped)) =
      some (none, [(0, 1), (1, 3), (0, 2), (1, 4)], []) := by decide

/-- events that are not enabled in the model are refused: a ToGC close while a Flush holds the lock; a Flush write
    without the swap; an unknown event -/
example : replay [(0, "put:1"), (2, "flush.swapped"), (3, "togc.closed")] = none := by decide
example : replay [(0, "put:1"), (2, "flush.written")] = none := by decide
example : replay [(0, "put:1"), (2, "flush.empty")] = none := by decide
example : replay [(0, "put:x")] = none := by decide

end Sth
