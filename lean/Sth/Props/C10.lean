/-
C10 — Legacy single-file stores upgrade with identical contents: the pure core (re-chunking and offset
remapping), for EVERY record sequence, EVERY chunk limit ≥ 1 and EVERY offset.
-/
import Sth.Lemmas.C10

namespace Sth

/-- re-chunking neither loses, duplicates nor reorders a byte: the chunks concatenate to the original records -/
theorem C10_chunk_concat (limit : Nat) (recs : List Bytes) : (chunk limit recs).flatten = recs :=
  chunk_flatten limit recs

/-- records are never split and no chunk is empty; every chunk but the last holds at least `limit` bytes, and
    every record of a chunk starts below `limit` (so `file * max + offset` addresses are unambiguous) -/
theorem C10_chunk_shape (limit : Nat) (hl : 1 ≤ limit) (recs : List Bytes) (hne : ∀ r ∈ recs, r ≠ []) :
    (∀ c ∈ chunk limit recs, c ≠ []) ∧
    (∀ i, i + 1 < (chunk limit recs).length → limit ≤ ((chunk limit recs)[i]?.getD [] |>.map List.length).sum) ∧
    (∀ c ∈ chunk limit recs, ∀ o ∈ recordStarts c 0, o < limit) :=
  chunk_shape limit hl recs hne

/-- offset remapping is correct: the linear offset of the i-th record of the old primary is re-pointed to the
    chunk and local offset where exactly that record now starts -/
theorem C10_remap_correct (limit : Nat) (hl : 1 ≤ limit) (recs : List Bytes) (hne : ∀ r ∈ recs, r ≠ [])
    (i : Nat) (r : Bytes) (hi : recs[i]? = some r) :
    ∃ n off, remapOffset 0 limit (chunkSizes limit recs) ((recordStarts recs 0)[i]?.getD 0) = some (limit * n + off) ∧
      off < limit ∧ recordAt (chunk limit recs) n off = some r :=
  remap_correct limit hl recs hne i r hi

/-- an offset at or beyond the end of the old primary is rejected (the index entry is then dropped, not mis-pointed) -/
theorem C10_remap_reject (first max : Nat) (sizes : List Nat) (pos : Nat) (h : sizes.sum ≤ pos) :
    remapOffset first max sizes pos = none :=
  remap_reject first max sizes pos h

/-- and every offset inside the old primary is accepted -/
theorem C10_remap_total (first max : Nat) (sizes : List Nat) (pos : Nat) (h : pos < sizes.sum) :
    (remapOffset first max sizes pos).isSome :=
  remap_total first max sizes pos h

/-! Non-vacuity -/
example : chunk 5 [[1,2,3],[4,5,6],[7],[8,9,10,11,12,13]] = [[[1,2,3],[4,5,6]],[[7],[8,9,10,11,12,13]]] := by decide
example : remapOffset 0 5 (chunkSizes 5 [[1,2,3],[4,5,6],[7],[8,9,10,11,12,13]]) 6 = some 5 := by decide

end Sth
