/-
C11 P1 with premises on the configuration and the calls only, WITHOUT the run-dependent premise
`PassesOK` of Sth/Props/C11G.lean (Q3c, after the repair of D33).

Sth/Props/C11G.lean proves `C11_primary_files_short`, `C11_visited_stable` and
`C11_primary_file_released_closed` under `PassesOK s0 ops`: no primary GC cycle of the history is cut
short INSIDE its hand-over passes.  Before the repair of D33 that premise could not be dropped: a cycle cut
short after `deleteRecords` had marked the spans named by the hand-over file returned with the visited
set unchanged, so a visited file could lose its last record span without being emptied, and no later
complete cycle released it (Sth/Props/C11F.lean).

On the repaired model (`unvisit` in `primaryGC`, Sth/Model/GC.lean) a pass that ends early takes the
files in which it — and the pass before it — newly marked records out of the visited set.  That is all
the `vs` clause of the size invariant `BInv` needs: `pass_b0` (Sth/Lemmas/C11B8.lean) says of a
hand-over pass with ANY outcome that the stable files it does not affect stay stable, and the affected
ones are exactly those that leave the visited set (`primaryGC_b_all`, Sth/Lemmas/C11P1.lean).  So
`BInv (maxRec ops)` holds in EVERY reachable state (`binv_reachable_all`, Sth/Lemmas/C11P2.lean), and
the three theorems follow with the premises
  `KeysOK`, `SizesOK`, `GcCountersOK`  (as everywhere), and
  `RecBoundOK c ops`   c.pfs + 4 + maxRec ops ≤ 2^31 (static: configuration and arguments of the puts).

The non-vacuity example is the run of Sth/Props/C11F.lean that CONTAINS the cut cycle
(`exOps11v ++ [.pgc 101 (some 1)]`): `PassesOK` fails on it, the premises here hold, and the instance of
the theorem says that one complete cycle unlinks file 0.
-/
import Sth.Lemmas.C11P2
import Sth.Props.C11F

namespace Sth

open C11 C13H C11B C11P

/-- in every reachable state every primary file is shorter than file limit + 4 + largest record -/
theorem C11_primary_files_short_all (c : Cfg) (hc : c.Legal) (hmh : c.kind = .mh) (ops : List SOp)
    (hk : KeysOK c.kind ops) (hs : SizesOK ops) (s0 : SState) (hi : initS c = some s0)
    (hb : GcCountersOK s0 ops) (hrec : RecBoundOK c ops) (g : Nat)
    (file : Bytes) (hfile : (runS s0 ops).1.d.pfiles.get? g = some file) :
    file.length < c.pfs + 4 + maxRec ops := by
  have hI := binv_reachable_all c hc hmh ops hk hs s0 hi hb hrec
  have hG := reach_ginv c hc hmh ops hk hs s0 hi hb
  have hpm : (runS s0 ops).1.m.pmax = c.pfs := by
    have := hG.y.pmax
    unfold hdrPfs at this
    rw [hG.kmh] at this
    exact this
  have := hI.fl g
  rw [fileOf_some hfile, hpm] at this
  exact this

/-- … and every file of the visited set is stable -/
theorem C11_visited_stable_all (c : Cfg) (hc : c.Legal) (hmh : c.kind = .mh) (ops : List SOp)
    (hk : KeysOK c.kind ops) (hs : SizesOK ops) (s0 : SState) (hi : initS c = some s0)
    (hb : GcCountersOK s0 ops) (hrec : RecBoundOK c ops) (f : Nat) :
    VisitedStable (runS s0 ops).1 f := by
  have hI := binv_reachable_all c hc hmh ops hk hs s0 hi hb hrec
  intro hv file hfile hl
  have := (hI.vs f hv).2
  unfold C11D.lv at this
  rw [fileOf_some hfile] at this
  exact this hl

/-- Q3c.  C11 P1 with premises on the configuration and the calls only: reachable multihash state,
    flushed, `f` an existing non-current file that no index entry points into — ONE complete cycle
    releases it, and unlinks it when it is the first file and the cycle visits it.  Earlier cycles of
    the history may have been cut short anywhere. -/
theorem C11_primary_file_released_all (c : Cfg) (hc : c.Legal) (hmh : c.kind = .mh)
    (ops : List SOp) (hk : KeysOK c.kind ops) (hs : SizesOK ops) (s0 : SState)
    (hi : initS c = some s0) (lowUse : Nat) (hb : GcCountersOK s0 (ops ++ [.pgc lowUse none]))
    (hrec : RecBoundOK c ops)
    (f : Nat) (hfile : (runS s0 ops).1.d.pfiles.get? f ≠ none)
    (hf : f < (runS s0 ops).1.m.pfileNum) (hflushed : (runS s0 ops).1.m.pnext = [])
    (hno : NoEntryIn (runS s0 ops).1 f) :
    let s := (runS s0 ops).1
    let s' := (stepS s (.pgc lowUse none)).1
    Released s'.d.pfiles f ∧
    (s.d.phdr.map PriHeader.first = some f → WillVisit s f → s'.d.pfiles.get? f = none) := by
  obtain ⟨hb1, _⟩ := GcCountersOK.append ops [.pgc lowUse none] s0 hb
  cases hfile' : (runS s0 ops).1.d.pfiles.get? f with
  | none => exact absurd hfile' hfile
  | some file =>
    have hlen := C11_primary_files_short_all c hc hmh ops hk hs s0 hi hb1 hrec f file hfile'
    have hvis := C11_visited_stable_all c hc hmh ops hk hs s0 hi hb1 hrec f
    have hrec' : c.pfs + 4 + maxRec ops ≤ two31 := hrec
    exact C11_primary_file_released_unconditional c hc hmh ops hk hs s0 hi lowUse hb f file hfile' hf
      (by omega) hflushed hno hvis

/-! ### non-vacuity: the run with the cycle cut short inside its hand-over pass -/

/-- the run of Sth/Props/C11F.lean that contains the cut cycle -/
def exOps11cut : List SOp := exOps11v ++ [.pgc 101 (some 1)]

/-- the premises hold on it — and `PassesOK`, the premise of Sth/Props/C11G.lean, does not -/
example : ∃ s, initS exCfg11v = some s ∧ GcCountersOK s (exOps11cut ++ [.pgc 101 none]) ∧
    RecBoundOK exCfg11v exOps11cut ∧ maxRec exOps11cut = 28 ∧ ¬ PassesOK s exOps11cut :=
  ⟨_, rfl, by decide +kernel, by decide, by decide, by decide +kernel⟩

/-- the cut cycle ended `deadline`; file 0 exists, is closed, no entry points into it, nothing is pooled -/
example : ∃ s, initS exCfg11v = some s ∧
    ((primaryGC (runS s exOps11v).1.m (runS s exOps11v).1.d 101 (some 1)).map fun r => r.1.out) =
      some GcOut.deadline ∧
    (runS s exOps11cut).1.d.pfiles.get? 0 ≠ none ∧ 0 < (runS s exOps11cut).1.m.pfileNum ∧
    (runS s exOps11cut).1.m.pnext = [] ∧ NoEntryIn (runS s exOps11cut).1 0 ∧
    (runS s exOps11cut).1.d.phdr.map PriHeader.first = some 0 ∧ WillVisit (runS s exOps11cut).1 0 :=
  ⟨_, rfl, by decide +kernel, by decide +kernel, by decide +kernel, by decide +kernel,
    by decide +kernel, by decide +kernel, Or.inl (by decide +kernel)⟩

/-- the theorem's instance: after the cut cycle, ONE complete cycle releases file 0 … -/
example : ∃ s, initS exCfg11v = some s ∧
    Released (stepS (runS s exOps11cut).1 (.pgc 101 none)).1.d.pfiles 0 :=
  ⟨_, rfl, (C11_primary_file_released_all exCfg11v (by decide) rfl exOps11cut
    (by unfold KeysOK; decide) (by unfold SizesOK; decide) _ rfl 101 (by decide +kernel) (by decide)
    0 (by decide +kernel) (by decide +kernel) (by decide +kernel) (by decide +kernel)).1⟩

/-- … and unlinks it (it is the first file and the cycle visits it) -/
example : ∃ s, initS exCfg11v = some s ∧
    (stepS (runS s exOps11cut).1 (.pgc 101 none)).1.d.pfiles.get? 0 = none :=
  ⟨_, rfl, (C11_primary_file_released_all exCfg11v (by decide) rfl exOps11cut
    (by unfold KeysOK; decide) (by unfold SizesOK; decide) _ rfl 101 (by decide +kernel) (by decide)
    0 (by decide +kernel) (by decide +kernel) (by decide +kernel) (by decide +kernel)).2
    (by decide +kernel) (Or.inl (by decide +kernel))⟩

/-- the other two theorems on the same run: file 0 is short, and `VisitedStable` holds for it -/
example : ∃ s, initS exCfg11v = some s ∧
    (∀ file, (runS s exOps11cut).1.d.pfiles.get? 0 = some file → file.length < 40 + 4 + 28) ∧
    VisitedStable (runS s exOps11cut).1 0 :=
  ⟨_, rfl,
    fun file h => C11_primary_files_short_all exCfg11v (by decide) rfl exOps11cut
      (by unfold KeysOK; decide) (by unfold SizesOK; decide) _ rfl (by decide +kernel) (by decide)
      0 file h,
    C11_visited_stable_all exCfg11v (by decide) rfl exOps11cut
      (by unfold KeysOK; decide) (by unfold SizesOK; decide) _ rfl (by decide +kernel) (by decide) 0⟩

end Sth
