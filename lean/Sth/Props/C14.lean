/-
C14 — The file cache never closes a handle that is still lent out.

Property theorems only.  They are about the machine of Sth/Model/FileCache.lean (one atomic step per
exported method, as every method holds `c.lock` from entry to exit — a regenerated fact, see
Sth/Obligations) composed with an arbitrary client that closes only handles it currently holds.
All theorems quantify over EVERY initial capacity (including 0) and EVERY operation sequence
(Open / Close / Remove / Clear / SetCacheSize over any names): no bound on length, names or sizes.
-/
import Sth.Lemmas.C14

namespace Sth.FC

/-- C14, safety: a handle that is lent out is open at the OS level — in every reachable state. -/
theorem C14_safe (cap : Nat) (ops : List Op) (hr : (Sys.init cap).RunOK ops) (h : Nat)
    (hl : ((Sys.init cap).run ops).lent h > 0) : h ∈ ((Sys.init cap).run ops).fc.opened :=
  ((inv_run _ ops (inv_init cap) hr).openedIff h).mpr
    (Or.inr (Or.inr ⟨(inv_run _ ops (inv_init cap) hr).fresh h (Or.inr (Or.inr (Or.inr (Or.inr hl)))), hl⟩))

/-- C14, closed exactly once: no handle is ever closed twice, and a handle that has been handed out,
    is no longer lent and no longer cached has been closed (exactly once, by the first clause). -/
theorem C14_closed_once (cap : Nat) (ops : List Op) (hr : (Sys.init cap).RunOK ops) :
    ((Sys.init cap).run ops).fc.closes.Nodup ∧
      ∀ h, h < ((Sys.init cap).run ops).fc.nextH → ((Sys.init cap).run ops).lent h = 0 →
        h ∉ cachedH ((Sys.init cap).run ops).fc → h ∈ ((Sys.init cap).run ops).fc.closes := by
  have hi := inv_run _ ops (inv_init cap) hr
  refine ⟨hi.closesNodup, ?_⟩
  intro h hlt hl hnc
  refine (hi.closesIff h).mpr ⟨hlt, ?_⟩
  intro hop
  rcases (hi.openedIff h).mp hop with hc | hrm | ⟨_, hpos⟩
  · exact hnc hc
  · obtain ⟨p, hp, rfl⟩ := List.mem_map.mp hrm
    have := hi.refsRemoved p hp
    omega
  · omega

/-- C14, reference counts: they are natural numbers (never negative by construction) and equal the
    number of outstanding loans, for cached entries and for removed-but-in-use handles alike. -/
theorem C14_refs (cap : Nat) (ops : List Op) (hr : (Sys.init cap).RunOK ops) :
    let y := (Sys.init cap).run ops
    (∀ e ∈ y.fc.cache, e.refs = y.lent e.h) ∧ (∀ p ∈ y.fc.removed, p.2 = y.lent p.1 ∧ 0 < p.2) :=
  ⟨(inv_run _ ops (inv_init cap) hr).refsCache, (inv_run _ ops (inv_init cap) hr).refsRemoved⟩

/-- C14, descriptor bound: open descriptors ≤ capacity + handles currently lent out. -/
theorem C14_fd_bound (cap : Nat) (ops : List Op) (hr : (Sys.init cap).RunOK ops) :
    let y := (Sys.init cap).run ops
    y.fc.opened.length ≤ y.fc.cap + y.lentCount :=
  fd_bound_of_inv _ (inv_run _ ops (inv_init cap) hr)

/-- C14, no lent handle is in the close history (the contrapositive reading of safety). -/
theorem C14_never_closed_while_lent (cap : Nat) (ops : List Op) (hr : (Sys.init cap).RunOK ops) (h : Nat)
    (hl : ((Sys.init cap).run ops).lent h > 0) : h ∉ ((Sys.init cap).run ops).fc.closes := by
  intro hc
  have hi := inv_run _ ops (inv_init cap) hr
  exact ((hi.closesIff h).mp hc).2 (C14_safe cap ops hr h hl)

/-! Non-vacuity: the D7 scenario (uncached handle at capacity 0, resize, reopen same name, close the
    first handle, evict) is a client-respecting run, and in it the second handle stays open. -/

def exOps : List Op := [.open 0, .setSize 1, .open 0, .close 0, .open 1]

example : (Sys.init 0).RunOK exOps := by
  simp [exOps, Sys.RunOK, ClientOK, Sys.step, Sys.init, step]

example : ((Sys.init 0).run exOps).fc.opened = [2, 1] ∧ ((Sys.init 0).run exOps).lent 1 = 1 := by
  decide

end Sth.FC
