/-
C06 — Garbage collectors running concurrently with callers never disturb them: INDEX GC BETWEEN THE BUSY
CHECK AND THE MARK (hook point `index.gc.busy_checked`).

`reapIndexRecords` reads the bucket table for a record (`Index.busy`, under the bucket lock), and — if the
table does not point at the record — marks it deleted in a later step, without the lock.  Other threads'
calls may run between the two steps, and between the checks of different records of the file.  In the
model (`reapIdxLoop`) check and mark are ONE step and a whole cycle reads ONE table.

IS A SPLIT OF THE MODEL NEEDED?  No.  The answer rests on one fact, proved here for every reachable state
and every list of calls of other threads (Put / Get / Has / GetSize / Remove / Flush / iteration):

  `C06_igc_free_verdict_stable` — a record of the index log the table does not point at is not pointed at
  after the calls either.  (The table only moves forward: `Index.Flush` points a bucket at the record it has
  just appended at the write position, beyond every record the files held; Put and Remove do not touch
  the table.)  So the verdict "free" cannot be invalidated in the window.

Consequently (`C06_igc_late_mark_safe`) a closed index file reaped on the basis of a table read at ANY
earlier time — every marking and merging that keeps the records the table pointed at THEN, which is what
the code computes, record by record, with stale reads — and written at a LATER state keeps the GC
invariant of the later state, for the map after the calls in between; the calls themselves return what
the map returns (a).  The step-wise collector is therefore covered by the one-step model: each of its
writes is a legal reap at the time it happens.  Closed index files are not written by other threads
(`IdxUp.closed`), so the file the collector marks is the file it read.

The verdict "in use" is NOT stable (`C06_igc_busy_verdict_not_stable`, by evaluation: a Put and a Flush
move the bucket): the collector then keeps a record that has just become garbage — until the next cycle;
nothing is lost.  In this direction a one-step model reading the LATER table would reap more than the
code does; a comparison of whole cycles with no call inside (the table is then fixed) is not affected, and
for schedules with calls inside a cycle the statement to use is the one above: every write of the
collector is a legal reap when it happens.
-/
import Sth.Lemmas.C06I2
import Sth.Props.C06H

namespace Sth

open C11 C13H C13X C06W

/-- the verdict "free" is stable: `s` is the state the history `ops` reaches (the busy check), `win` the
    calls of other threads before the mark, `x` a record of file `f` of the index log at `s` -/
theorem C06_igc_free_verdict_stable (c : Cfg) (hc : c.Legal) (hmh : c.kind = .mh)
    (ops win : List SOp) (hk : KeysOK c.kind (ops ++ win)) (hs : SizesOK (ops ++ win)) (s0 : SState)
    (hi : initS c = some s0) (hb : GcCountersOK s0 ops)
    (hcnt : gcCnt (runS s0 ops).1 < 268435456) (hw : ∀ op ∈ win, isWin op = true)
    (hbw : GcCountersOK (runS s0 ops).1 win)
    (hfin : gcCnt (runS (runS s0 ops).1 win).1 < 268435456)
    {first : Nat} {sp : Nat → List GSpan}
    (hl : IdxLog (runS s0 ops).1.m (runS s0 ops).1.d first sp) {f : Nat} (h1 : first ≤ f)
    (h2 : f ≤ (runS s0 ops).1.m.ifileNum) {x : Nat × Bytes} (hx : x ∈ liveAt 0 (sp f))
    (hfree : idxBusy (runS s0 ops).1.m (leDec (x.2.take 4)) (x.1 + 4) f = some false) :
    (runS (runS s0 ops).1 win).2 = (specRun c.kind c.imm (specRun c.kind c.imm [] ops).1 win).2 ∧
      idxBusy (runS (runS s0 ops).1 win).1.m (leDec (x.2.take 4)) (x.1 + 4) f = some false := by
  have hU := univ_of_keysOK hk (keysExact_all c.kind (ops ++ win))
  have hsum : ((ops ++ win).map SOp.bytes).sum = (ops.map SOp.bytes).sum + (win.map SOp.bytes).sum := by
    simp
  have hB := hs.2.1
  rw [hsum] at hB
  have hkeys : ∀ op ∈ ops, ∀ k, op.keyOf = some k → ∀ dig, keyClass c.kind k = .ok dig →
      (k, dig) ∈ digestsOf c.kind (ops ++ win) :=
    fun op ho k hkey dig hcls => mem_digestsOf (List.mem_append_left _ ho) hkey hcls
  have hkeysw : ∀ op ∈ win, ∀ k, op.keyOf = some k → ∀ dig, keyClass c.kind k = .ok dig →
      (k, dig) ∈ digestsOf c.kind (ops ++ win) :=
    fun op ho k hkey dig hcls => mem_digestsOf (List.mem_append_right _ ho) hkey hcls
  obtain ⟨_, n0, hG⟩ := run_g hc hU ops s0 [] 0 0 (ginv_init hc hmh hi) hkeys hb (by omega)
  obtain ⟨a1, ⟨n', a2⟩, a3⟩ := idx_run hc hU win _ _ _ _ hG.tight hw hkeysw hbw (by omega)
  refine ⟨a1, ?_⟩
  have hbits : (runS (runS s0 ops).1 win).1.m.bits = (runS s0 ops).1.m.bits := by
    rw [hG.y.bits, a2.y.bits]
  obtain ⟨r, hr⟩ := idxBusy_some (m := (runS (runS s0 ops).1 win).1.m) (pos := x.1 + 4) (fnum := f)
    (by rw [hbits]; exact (hl.tag_lt h1 h2 hx).1)
  rw [hr]
  cases r with
  | false => rfl
  | true =>
    have := busy_antitone hG.tight a2.tight (by omega) (by omega) a3 hl h1 h2 hx hr
    unfold busyB at this
    rw [hfree] at this
    cases this

/-- the late mark: file `k` of the index log at `s` (closed: below the current file), reaped to `ss'` on
    the basis of the table at `s` (`Reaped`, C04: no new records, every record the table pointed at is
    kept — any marking and merging of the others), written after the calls `win` of other threads -/
theorem C06_igc_late_mark_safe (c : Cfg) (hc : c.Legal) (hmh : c.kind = .mh)
    (ops win : List SOp) (hk : KeysOK c.kind (ops ++ win)) (hs : SizesOK (ops ++ win)) (s0 : SState)
    (hi : initS c = some s0) (hb : GcCountersOK s0 ops)
    (hcnt : gcCnt (runS s0 ops).1 < 268435456) (hw : ∀ op ∈ win, isWin op = true)
    (hbw : GcCountersOK (runS s0 ops).1 win)
    (hfin : gcCnt (runS (runS s0 ops).1 win).1 < 268435456)
    {first : Nat} {sp : Nat → List GSpan}
    (hl : IdxLog (runS s0 ops).1.m (runS s0 ops).1.d first sp) {k : Nat} (h1 : first ≤ k)
    (h2 : k < (runS s0 ops).1.m.ifileNum) {ss' : List GSpan}
    (hR : Reaped (runS s0 ops).1.m k (runS s0 ops).1.m.bits (sp k) ss') :
    let s2 := (runS (runS s0 ops).1 win).1
    (runS (runS s0 ops).1 win).2 = (specRun c.kind c.imm (specRun c.kind c.imm [] ops).1 win).2 ∧
      s2.d.ifiles.get? k = (runS s0 ops).1.d.ifiles.get? k ∧
      ∃ n', GInv c (digestsOf c.kind (ops ++ win))
        ⟨s2.cfg, s2.m, { s2.d with ifiles := s2.d.ifiles.set k (gbytes ss') }⟩
        (specRun c.kind c.imm (specRun c.kind c.imm [] ops).1 win).1 n'
        (0 + (ops.map SOp.bytes).sum + (win.map SOp.bytes).sum) := by
  have hU := univ_of_keysOK hk (keysExact_all c.kind (ops ++ win))
  have hsum : ((ops ++ win).map SOp.bytes).sum = (ops.map SOp.bytes).sum + (win.map SOp.bytes).sum := by
    simp
  have hB := hs.2.1
  rw [hsum] at hB
  have hkeys : ∀ op ∈ ops, ∀ k, op.keyOf = some k → ∀ dig, keyClass c.kind k = .ok dig →
      (k, dig) ∈ digestsOf c.kind (ops ++ win) :=
    fun op ho k hkey dig hcls => mem_digestsOf (List.mem_append_left _ ho) hkey hcls
  have hkeysw : ∀ op ∈ win, ∀ k, op.keyOf = some k → ∀ dig, keyClass c.kind k = .ok dig →
      (k, dig) ∈ digestsOf c.kind (ops ++ win) :=
    fun op ho k hkey dig hcls => mem_digestsOf (List.mem_append_right _ ho) hkey hcls
  obtain ⟨_, n0, hG⟩ := run_g hc hU ops s0 [] 0 0 (ginv_init hc hmh hi) hkeys hb (by omega)
  obtain ⟨a1, ⟨n', a2⟩, a3⟩ := idx_run hc hU win _ _ _ _ hG.tight hw hkeysw hbw (by omega)
  exact ⟨a1, a3.closed k h2, _,
    late_mark_g hG.tight a2.tight (by omega) (by omega) a3 hl h1 h2 hR⟩

/-! ### by evaluation: the verdict "in use" is not stable -/

/-- after `put exK1 [7]; flush` the table points at the record of bucket 1 at position 4 of index file 0;
    after a further `put exK1 [8]; flush` it does not -/
theorem C06_igc_busy_verdict_not_stable :
    (initS exCfg04b).map (fun s0 =>
      let s := (runS s0 [.put exK1 [7], .flush []]).1
      let s' := (runS s [.put exK1 [8], .flush []]).1
      (idxBusy s.m 1 4 0, idxBusy s'.m 1 4 0, s'.m.buckets.get? 1)) =
      some (some true, some false, some 26) := by decide +kernel

/-! ### The hypotheses of `C06_igc_free_verdict_stable` are satisfiable -/

def igcPre : List SOp := [.put exK1 [7], .flush [], .put exK1 [8], .flush []]
def igcWin : List SOp := [.put exK2 [1], .get exK1, .flush []]
def igcBody1 : Bytes := [1, 0, 0, 0, 0, 0, 0, 0, 0, 0, 0, 0, 9, 0, 0, 0, 1, 2]
def igcBody2 : Bytes := [1, 0, 0, 0, 13, 0, 0, 0, 0, 0, 0, 0, 9, 0, 0, 0, 1, 2]

def igcFactsB (s0 : SState) : Bool :=
  let s := (runS s0 igcPre).1
  decide (GcCountersOK s0 igcPre) && decide (gcCnt s < 268435456) && decide (GcCountersOK s igcWin) &&
  decide (gcCnt (runS s igcWin).1 < 268435456) && decide (s.m.ifileNum = 0) &&
  decide (s.d.ifiles.get? 0 = some (gbytes [⟨false, igcBody1⟩, ⟨false, igcBody2⟩])) &&
  decide (idxBusy s.m 1 4 0 = some false)

theorem igcFacts : ∃ s0, initS exCfg04b = some s0 ∧ igcFactsB s0 = true := ⟨_, rfl, by decide +kernel⟩

/-- every hypothesis of `C06_igc_free_verdict_stable` holds for the history `igcPre`, the calls `igcWin`
    and the first record of index file 0 (superseded by the second flush: live, and free) -/
theorem C06_igc_example_hypotheses :
    exCfg04b.Legal ∧ exCfg04b.kind = .mh ∧ KeysOK exCfg04b.kind (igcPre ++ igcWin) ∧
    SizesOK (igcPre ++ igcWin) ∧ (∀ op ∈ igcWin, isWin op = true) ∧
    ∃ s0, initS exCfg04b = some s0 ∧ GcCountersOK s0 igcPre ∧
      gcCnt (runS s0 igcPre).1 < 268435456 ∧ GcCountersOK (runS s0 igcPre).1 igcWin ∧
      gcCnt (runS (runS s0 igcPre).1 igcWin).1 < 268435456 ∧
      ∃ first sp, IdxLog (runS s0 igcPre).1.m (runS s0 igcPre).1.d first sp ∧ first ≤ 0 ∧
        0 ≤ (runS s0 igcPre).1.m.ifileNum ∧ (0, igcBody1) ∈ liveAt 0 (sp 0) ∧
        idxBusy (runS s0 igcPre).1.m (leDec (igcBody1.take 4)) (0 + 4) 0 = some false := by
  have hK : KeysOK exCfg04b.kind (igcPre ++ igcWin) := by unfold KeysOK; decide
  have hS : SizesOK (igcPre ++ igcWin) := by unfold SizesOK; decide
  have hK0 : KeysOK exCfg04b.kind igcPre := by unfold KeysOK; decide
  have hS0 : SizesOK igcPre := by unfold SizesOK; decide
  obtain ⟨s0, hi, hf⟩ := igcFacts
  refine ⟨by decide, rfl, hK, hS, by decide, s0, hi, ?_⟩
  simp only [igcFactsB, Bool.and_eq_true, decide_eq_true_eq] at hf
  obtain ⟨⟨⟨⟨⟨⟨f1, f2⟩, f3⟩, f4⟩, f5⟩, f6⟩, f7⟩ := hf
  refine ⟨f1, f2, f3, f4, ?_⟩
  obtain ⟨_, n', hG⟩ := store_refines_map_gc_mh exCfg04b (by decide) rfl igcPre hK0 hS0 s0 hi f1
  obtain ⟨first, sp, _, hl⟩ := hG.y.ilog
  have h0 : first ≤ 0 := by have := hl.le; rw [f5] at this; exact this
  have hsp : sp 0 = [⟨false, igcBody1⟩, ⟨false, igcBody2⟩] := by
    apply gbytes_inj
    · intro sx hsx; exact (hl.ok 0 h0 (Nat.zero_le _) sx hsx).1
    · intro sx hsx
      simp only [List.mem_cons, List.not_mem_nil, or_false] at hsx
      rcases hsx with rfl | rfl <;> decide
    · have := hl.files 0 h0 (Nat.zero_le _)
      rw [f6] at this
      exact (Option.some.inj this).symm
  refine ⟨first, sp, hl, h0, Nat.zero_le _, ?_, f7⟩
  rw [hsp]
  decide

end Sth
