"""Per-property configuration: theorems audited, engines run, coverage rules."""

PROPS = {}

PROPS["C08"] = dict(
    modules=["Sth.Props.C08"],
    theorems=["Sth.C08_inv", "Sth.C08_lookup", "Sth.C08_absent", "Sth.C08_frame_update",
              "Sth.C08_frame_remove", "Sth.C08_codec", "Sth.C08_codec_limit_witness"],
    runs=[dict(engine="c08", quick=400, thorough=20000, nontrivial=["prev-is-prefix"])],
    rule="traces of index.Put/Update/Remove/Get/Flush on the real index.Index over the in-memory primary, keys "
         "confined to one bucket (bit sizes 8..24), small alphabets so that stored prefixes collide; after every "
         "mutation the raw record-list bytes and a Get of every universe key are compared with the Lean model and "
         "checked against the C08 specification. Non-trivial = distinct trace (hash of its op list) in which the "
         "'previous entry is a prefix of the new key' branch of index.Put was taken.",
    assumptions=["keys are non-empty after stripping the bucket bytes and no key is a proper prefix of another (the property's premise)",
                 "Update/Remove are issued for present keys only (the store checks the full key first)"],
)

PROPS["C14"] = dict(
    modules=["Sth.Props.C14"],
    theorems=["Sth.FC.C14_safe", "Sth.FC.C14_closed_once", "Sth.FC.C14_refs", "Sth.FC.C14_fd_bound",
              "Sth.FC.C14_never_closed_while_lent"],
    runs=[dict(engine="fc", quick=1500, thorough=60000, nontrivial=["open-evict", "close-removed", "shrink", "shrink-to-0"])],
    rule="random client-respecting sequences of Open/Close/Remove/Clear/SetCacheSize on the real filecache.FileCache over "
         "real temp files (2-6 names, capacities 0-5); after every op Len, Cap, the set of handles on which fstat still "
         "works and the /proc/self/fd count are compared with the Lean model and checked against the C14 clauses. "
         "Non-trivial = distinct trace with an eviction, a close of a removed-but-lent handle, or a shrinking resize.",
    assumptions=["clients close only handles they hold (the property's premise)",
                 "every exported FileCache method is one atomic step (it holds c.lock throughout — regenerated fact)"],
)
